import PV.Proofs.CFGComplexityFinDefs
/-!
`head_raise`: after a `finally` body has been processed, the `finally` block has an edge to a handler block of the
enclosing context iff the body executes a `raise` while the `finally` block is still the current block (`hrL fin = .raise`).
-/
namespace PV.CFGFin
open PV.CFG PV.CFGSound PV.Dec

/-! ### `hrS` equations -/
theorem hrS_raise (s e : Nat) : hrS (.raise s e) = .raise := by rw [hrS]
theorem hrS_simple_f (s e : Nat) (c : List Bool) : hrS (.simple s e c false) = .stay := by rw [hrS]
theorem hrS_simple_t (s e : Nat) (c : List Bool) : hrS (.simple s e c true) = .left := by rw [hrS] <;> (intros; simp_all)
theorem hrS_def (s e : Nat) (b : List Stmt) : hrS (.def_ s e b) = .stay := by rw [hrS]
theorem hrS_elsec (s e : Nat) (b : List Stmt) : hrS (.elsec s e b) = hrL b := by rw [hrS]
theorem hrS_ret (s e : Nat) (c : List Bool) (h : Bool) : hrS (.ret s e c h) = .left := by rw [hrS] <;> (intros; simp_all)
theorem hrS_brk (s e : Nat) : hrS (.brk s e) = .left := by rw [hrS] <;> (intros; simp_all)
theorem hrS_cont (s e : Nat) : hrS (.cont s e) = .left := by rw [hrS] <;> (intros; simp_all)
theorem hrS_ite (s e : Nat) (a b : List Stmt) : hrS (.ite s e a b) = .left := by rw [hrS] <;> (intros; simp_all)
theorem hrS_elifc (s e : Nat) (a b : List Stmt) : hrS (.elifc s e a b) = .left := by rw [hrS] <;> (intros; simp_all)
theorem hrS_loop (s e : Nat) (a b : List Stmt) : hrS (.loop s e a b) = .left := by rw [hrS] <;> (intros; simp_all)
theorem hrS_try (s e : Nat) (a b c d : List Stmt) : hrS (.try_ s e a b c d) = .left := by rw [hrS] <;> (intros; simp_all)
theorem hrS_with (s e : Nat) (a : List Stmt) : hrS (.with_ s e a) = .left := by rw [hrS] <;> (intros; simp_all)
theorem hrS_match (s e : Nat) (a : List Stmt) : hrS (.match_ s e a) = .left := by rw [hrS] <;> (intros; simp_all)
theorem hrS_class (s e : Nat) (a : List Stmt) : hrS (.class_ s e a) = .left := by rw [hrS] <;> (intros; simp_all)

/-! ### the relation "no new edge from `a` into `H`" -/
/-- `s` extends `s0` by edges none of which goes from `a` to a block of `H` -/
def NE (a : Nat) (H : List Nat) (s0 s : St) : Prop :=
  ∃ ne, s.edges = ne ++ s0.edges ∧ ∀ e ∈ ne, e.1 = a → e.2.1 ∉ H

section ne
variable {a : Nat} {H : List Nat} {s0 s s' : St}

theorem NE.refl (a : Nat) (H : List Nat) (s : St) : NE a H s s := ⟨[], rfl, by simp⟩

theorem NE.trans {s1 s2 : St} (h1 : NE a H s0 s1) (h2 : NE a H s1 s2) : NE a H s0 s2 := by
  obtain ⟨n1, e1, p1⟩ := h1
  obtain ⟨n2, e2, p2⟩ := h2
  refine ⟨n2 ++ n1, by rw [e2, e1, List.append_assoc], ?_⟩
  intro e he
  rcases List.mem_append.mp he with he | he
  · exact p2 e he
  · exact p1 e he

theorem NE.eqE (h : NE a H s0 s) (he : s'.edges = s.edges) : NE a H s0 s' := by
  obtain ⟨n1, e1, p1⟩ := h
  exact ⟨n1, by rw [he, e1], p1⟩

theorem NE.edge (h : NE a H s0 s) {x y : Nat} {t : ETy} (hx : x = a → y ∉ H) : NE a H s0 (s.edge x y t) := by
  obtain ⟨n1, e1, p1⟩ := h
  refine ⟨(x, y, t) :: n1, by simp [e1], ?_⟩
  intro e he
  rcases List.mem_cons.mp he with rfl | he
  · exact hx
  · exact p1 e he

theorem NE.eue (h : NE a H s0 s) {x y : Nat} {t : ETy} (hx : x = a → y ∉ H) : NE a H s0 (s.edgeUnlessExit x y t) := by
  rcases edgeUnlessExit_cases s x y t with ⟨_, h'⟩ | ⟨_, h'⟩ <;> rw [h']
  · exact h
  · exact h.edge hx

theorem NE.inv {c n : Nat} (h : NE a H s0 s) (j : Inv c n s s') (hc : c ≠ a) (hn : a < n) : NE a H s0 s' := by
  obtain ⟨ne, he, hne⟩ := j.edges
  refine h.trans ⟨ne, he, ?_⟩
  intro e hm hea
  rcases hne e hm with h1 | h1
  · exact absurd (h1.symm.trans hea) hc
  · omega

theorem hasSucc_append (ne : List (Nat × Nat × ETy)) (s0 s : St) (he : s.edges = ne ++ s0.edges) (a b : Nat) :
    s.hasSucc a b = (ne.any (fun x => x.1 == a && x.2.1 == b) || s0.hasSucc a b) := by
  unfold St.hasSucc
  rw [he, List.any_append]

theorem NE.hasSucc (h : NE a H s0 s) {b : Nat} (hb : b ∈ H) : s.hasSucc a b = s0.hasSucc a b := by
  obtain ⟨ne, he, hne⟩ := h
  rw [hasSucc_append ne s0 s he]
  have : ne.any (fun x => x.1 == a && x.2.1 == b) = false := by
    rw [List.any_eq_false]
    intro x hx hh
    simp only [Bool.and_eq_true, beq_iff_eq] at hh
    exact hne x hx hh.1 (hh.2 ▸ hb)
  rw [this, Bool.false_or]

theorem hasSucc_mono {c n : Nat} (j : Inv c n s s') {a b : Nat} (h : s.hasSucc a b = true) : s'.hasSucc a b = true := by
  obtain ⟨ne, he, _⟩ := j.edges
  rw [hasSucc_append ne s s' he, h, Bool.or_true]

theorem hasSucc_edge (s : St) (x y : Nat) (t : ETy) (a b : Nat) :
    (s.edge x y t).hasSucc a b = ((x == a && y == b) || s.hasSucc a b) := by
  unfold St.hasSucc
  rw [edge_edges, List.any_cons]

end ne

theorem foldl_hasSucc (t : ETy) : ∀ (hs : List Nat) (s : St) (a b : Nat), (s.hasSucc a b = true ∨ (b ∈ hs ∧ a = s.cur)) →
    (hs.foldl (fun st h => st.edge st.cur h t) s).hasSucc a b = true
  | [], s, a, b, h => by
    rcases h with h | ⟨h, _⟩
    · exact h
    · cases h
  | x :: hs, s, a, b, h => by
    rw [List.foldl_cons]
    apply foldl_hasSucc t hs
    rcases h with h | ⟨h, rfl⟩
    · left; rw [hasSucc_edge, h, Bool.or_true]
    · rcases List.mem_cons.mp h with rfl | h
      · left; rw [hasSucc_edge]; simp
      · right; exact ⟨h, rfl⟩

/-! ### the hypotheses at the start of a `finally` body -/
structure FH (il : Bool) (st : St) (c0 c : Exc) (X : List Exc) : Prop where
  wf : WF st
  loops : il = true → st.loops ≠ []
  hx : st.excs = c0 :: c :: X
  hc0 : c0.processingFinally = true
  hc0f : c0.fin = some st.cur
  hnf : ∀ c' ∈ c :: X, c'.fin = none ∧ c'.processingFinally = false
  hex : exitB ∉ c.handlers
  hdisj : ∀ l ∈ st.loops, l.1 ∉ c.handlers ∧ l.2.1 ∉ c.handlers

/-- what the processing of a piece of code with head behaviour `r` does to the entry block -/
def Res (r : HR) (H : List Nat) (st s' : St) : Prop :=
  match r with
  | .stay => s'.edges = st.edges ∧ s'.cur = st.cur ∧ s'.next = st.next ∧ s'.loops = st.loops ∧ s'.excs = st.excs
  | .raise => ∀ h ∈ H, s'.hasSucc st.cur h = true
  | .left => NE st.cur H st s' ∧ st.next ≤ s'.cur

section leaf
variable {il : Bool} {st : St} {c0 c : Exc} {X : List Exc}

theorem FH.hlt (fh : FH il st c0 c X) : ∀ h ∈ c.handlers, h < st.next :=
  (fh.wf.excs c (by rw [fh.hx]; simp)).2

theorem FH.fresh (fh : FH il st c0 c X) {y : Nat} (hy : st.next ≤ y) : y ∉ c.handlers :=
  fun hh => by have := fh.hlt y hh; omega

theorem FH.tf (fh : FH il st c0 c X) {s1 : St} (hx1 : s1.excs = st.excs) : targetFinally s1 = none := by
  unfold targetFinally
  rw [hx1, fh.hx, List.findSome?_eq_none_iff]
  intro x hx
  rcases List.mem_cons.mp hx with rfl | hx
  · rw [fh.hc0]; rfl
  · rw [(fh.hnf x hx).1]; split <;> rfl

theorem FH.fb (fh : FH il st c0 c X) {s1 : St} (hx1 : s1.excs = st.excs) : fallbackExc s1 = some c := by
  unfold fallbackExc
  rw [hx1, fh.hx, List.find?_cons, fh.hc0]
  simp only [Bool.not_true]
  rw [List.find?_cons, (fh.hnf c (List.mem_cons_self ..)).2]
  rfl

theorem FH.tfRet (fh : FH il st c0 c X) {s1 : St} (hx1 : s1.excs = st.excs) (hc1 : s1.cur = st.cur) : targetFinallyRet s1 = none := by
  unfold targetFinallyRet
  rw [hx1, fh.hx, List.findSome?_eq_none_iff]
  intro x hx
  rcases List.mem_cons.mp hx with rfl | hx
  · rw [fh.hc0f, hc1]; simp
  · rw [(fh.hnf x hx).1]

theorem FH.tfLoop (fh : FH il st c0 c X) {s1 : St} (hx1 : s1.excs = st.excs) (d : Nat) : targetFinallyLoop s1 d = none := by
  unfold targetFinallyLoop
  rw [hx1, fh.hx, List.findSome?_eq_none_iff]
  intro x hx
  rcases List.mem_cons.mp (List.mem_of_mem_take hx) with rfl | hx
  · rw [fh.hc0]; rfl
  · rw [(fh.hnf x hx).1]; split <;> rfl

theorem raise_res (fh : FH il st c0 c X) (s e : Nat) : Res .raise c.handlers st (procRaise st s e) := by
  intro h hh
  rw [procRaise_eq]
  simp only
  rw [fh.tf (s1 := st.add st.cur s e .raise) rfl]
  simp only
  rw [fh.fb (s1 := st.add st.cur s e .raise) rfl]
  simp only
  have hpos : c.handlers.length > 0 := List.length_pos_of_mem hh
  rw [if_pos hpos]
  have := foldl_hasSucc .exc c.handlers (st.add st.cur s e .raise) st.cur h (.inr ⟨hh, rfl⟩)
  exact this

theorem add_res (_fh : FH il st c0 c X) (s e : Nat) : Res .stay c.handlers st (st.add st.cur s e .other) :=
  ⟨rfl, rfl, rfl, rfl, rfl⟩

theorem brk_res (fh : FH il st c0 c X) (hil : il = true) (s e : Nat) : Res .left c.handlers st (procBrk st s e) := by
  rw [procBrk_eq]
  simp only
  have hl := fh.loops hil
  rcases hst : st.loops with _ | ⟨⟨hd, x, d⟩, rest⟩
  · exact absurd hst hl
  · have : (st.add st.cur s e .brk).loops = (hd, x, d) :: rest := hst
    rw [this]
    simp only
    rw [fh.tfLoop (s1 := st.add st.cur s e .brk) rfl]
    simp only
    refine ⟨((NE.refl _ _ st).edge (x := st.cur) (y := x) (t := .brk) (fun _ => ?_)).eqE rfl, Nat.le_refl _⟩
    exact (fh.hdisj (hd, x, d) (by rw [hst]; exact List.mem_cons_self ..)).2

theorem cont_res (fh : FH il st c0 c X) (hil : il = true) (s e : Nat) : Res .left c.handlers st (procCont st s e) := by
  rw [procCont_eq]
  simp only
  have hl := fh.loops hil
  rcases hst : st.loops with _ | ⟨⟨hd, x, d⟩, rest⟩
  · exact absurd hst hl
  · have : (st.add st.cur s e .cont).loops = (hd, x, d) :: rest := hst
    rw [this]
    simp only
    rw [fh.tfLoop (s1 := st.add st.cur s e .cont) rfl]
    simp only
    refine ⟨((NE.refl _ _ st).edge (x := st.cur) (y := hd) (t := .cont) (fun _ => ?_)).eqE rfl, Nat.le_refl _⟩
    exact (fh.hdisj (hd, x, d) (by rw [hst]; exact List.mem_cons_self ..)).1

/-! ### comprehension, `return` -/
theorem NE.srcs {a : Nat} {H : List Nat} {s0 s : St} (ne : List (Nat × Nat × ETy)) (he : s.edges = ne ++ s0.edges)
    (h : ∀ e ∈ ne, e.1 ≠ a) : NE a H s0 s := ⟨ne, he, fun e hm hea => absurd hea (h e hm)⟩

theorem go_ne (s e a : Nat) (H : List Nat) : ∀ (cs : List Bool) (st : St) (cp : Nat), cp ≠ a → a < st.next →
    NE a H st (procComp.go s e cs st cp).1 ∧ (procComp.go s e cs st cp).2 ≠ a
  | [], st, cp, h1, _ => by rw [go_nil]; exact ⟨NE.refl _ _ _, h1⟩
  | b :: rest, st, cp, h1, h2 => by
    rw [go_cons']
    cases b
    · simp only [Bool.false_eq_true, ↓reduceIte]
      obtain ⟨q, r⟩ := go_ne s e a H rest (goN st s e cp) st.next (by omega) (by rw [goN_next]; omega)
      refine ⟨NE.trans (NE.srcs [(st.next + 2, st.next, .loop), (st.next + 1, st.next + 2, .normal), (st.next, st.next + 1, .condT), (cp, st.next, .normal)] (goN_edges st s e cp) ?_) q, r⟩
      intro x hx
      simp only [List.mem_cons, List.not_mem_nil, or_false] at hx
      rcases hx with rfl | rfl | rfl | rfl <;> simp only <;> omega
    · simp only [↓reduceIte]
      obtain ⟨q, r⟩ := go_ne s e a H rest (goF st s e cp) st.next (by omega) (by rw [goF_next]; omega)
      refine ⟨NE.trans (NE.srcs [(st.next + 3, st.next, .loop), (st.next + 2, st.next, .condF), (st.next + 2, st.next + 3, .condT), (st.next + 1, st.next + 2, .normal), (st.next, st.next + 1, .condT), (cp, st.next, .normal)] (goF_edges st s e cp) ?_) q, r⟩
      intro x hx
      simp only [List.mem_cons, List.not_mem_nil, or_false] at hx
      rcases hx with rfl | rfl | rfl | rfl | rfl | rfl <;> simp only <;> omega

theorem comp_left {H : List Nat} (st : St) (w : WF st) (hH : ∀ h ∈ H, h < st.next) (s e : Nat) (comp : List Bool) :
    NE st.cur H st (procComp st s e comp) ∧ (procComp st s e comp).cur = st.next + 1 := by
  rw [procComp_eq]
  simp only
  have hcur := w.cur
  have n1 : NE st.cur H st (bump (((bump st).edge st.cur st.next .normal).add st.next s e .other)) :=
    ((NE.refl _ _ st).edge (x := st.cur) (y := st.next) (t := .normal) (fun _ hh => by have := hH _ hh; omega)).eqE rfl
  obtain ⟨q, r⟩ := go_ne s e st.cur H comp (bump (((bump st).edge st.cur st.next .normal).add st.next s e .other)) st.next
    (by omega) (by ob)
  refine ⟨?_, rfl⟩
  split
  · exact ((n1.trans q).edge (fun h => absurd h r)).eqE rfl
  · exact ((n1.trans q).edge (fun h => by omega)).eqE rfl

theorem simple_res (fh : FH il st c0 c X) (s e : Nat) (comp : List Bool) :
    Res .left c.handlers st ((procComp st s e comp).add (procComp st s e comp).cur s e .other) := by
  obtain ⟨q, r⟩ := comp_left (H := c.handlers) st fh.wf fh.hlt s e comp
  exact ⟨q.eqE rfl, by show st.next ≤ (procComp st s e comp).cur; omega⟩

theorem ret_res (fh : FH il st c0 c X) (s e : Nat) (comp : List Bool) (hasComp : Bool) :
    Res .left c.handlers st (procRet st s e comp hasComp) := by
  rw [procRet_eq]
  cases hasComp
  · simp only [Bool.false_eq_true, ↓reduceIte]
    rw [fh.tfRet (s1 := st.add st.cur s e .ret) rfl rfl]
    simp only
    exact ⟨((NE.refl _ _ st).edge (x := st.cur) (y := exitB) (t := .ret) (fun _ => fh.hex)).eqE rfl, Nat.le_refl _⟩
  · simp only [↓reduceIte]
    obtain ⟨q, r⟩ := comp_left (H := c.handlers) st fh.wf fh.hlt s e comp
    obtain ⟨j, _⟩ := comp_frame (c := st.cur) (n := st.next) st s e comp fh.wf (.inl rfl) (Nat.le_refl _)
    have hnl := j.next_le
    have hcur := fh.wf.cur
    generalize procComp st s e comp = s0 at *
    split
    · exact ⟨(q.edge (x := s0.cur) (fun h => by omega)).eqE rfl, hnl⟩
    · exact ⟨(q.edge (x := s0.cur) (fun h => by omega)).eqE rfl, hnl⟩

end leaf

/-! ### frame chains that also track `NE` -/
theorem inv_weaken {c n c' n' : Nat} {s0 s : St} (i : Inv c n s0 s) (h : ∀ x, Own c n x → Own c' n' x) : Inv c' n' s0 s := by
  obtain ⟨ne, he, hne⟩ := i.edges
  obtain ⟨ns, hs, hns⟩ := i.stmts
  exact ⟨i.wf, i.next_le, h _ i.own, ⟨ne, he, fun e hm => h _ (hne e hm)⟩, ⟨ns, hs, fun r hm => h _ (hns r hm)⟩⟩

/-- `Inv a n` together with `NE a H` -/
structure IN (H : List Nat) (a n : Nat) (s0 s : St) : Prop where
  inv : Inv a n s0 s
  ne : NE a H s0 s

section inchain
variable {H : List Nat} {a n : Nat} {s0 s s' : St}

theorem IN.refl (w : WF s) (h : Own a n s.cur) : IN H a n s s := ⟨Inv.refl w h, NE.refl _ _ _⟩
theorem IN.bump (i : IN H a n s0 s) : IN H a n s0 (bump s) := ⟨i.inv.bump, i.ne.eqE rfl⟩
theorem IN.bumpU (i : IN H a n s0 s) : IN H a n s0 (bumpU s) := ⟨i.inv.bumpU, i.ne.eqE rfl⟩
theorem IN.bumpN (i : IN H a n s0 s) (k : Nat) : IN H a n s0 (bumpN s k) := ⟨i.inv.bumpN k, i.ne.eqE rfl⟩
theorem IN.setCur (i : IN H a n s0 s) {x : Nat} (hx : Own a n x) (hlt : x < s.next) : IN H a n s0 (setCur s x) :=
  ⟨i.inv.setCur hx hlt, i.ne.eqE rfl⟩
theorem IN.edge (i : IN H a n s0 s) {x y : Nat} {t : ETy} (ha : Own a n x) (hlt : x < s.next) (hb : y < s.next)
    (hx : x = a → y ∉ H) : IN H a n s0 (s.edge x y t) := ⟨i.inv.edge ha hlt hb, i.ne.edge hx⟩
theorem IN.edgeUnlessExit (i : IN H a n s0 s) {x y : Nat} {t : ETy} (ha : Own a n x) (hlt : x < s.next) (hb : y < s.next)
    (hx : x = a → y ∉ H) : IN H a n s0 (s.edgeUnlessExit x y t) := ⟨i.inv.edgeUnlessExit ha hlt hb, i.ne.eue hx⟩
theorem IN.add (i : IN H a n s0 s) {b p q : Nat} {ty : Ty} (hb : Own a n b) (hlt : b < s.next) : IN H a n s0 (s.add b p q ty) :=
  ⟨i.inv.add hb hlt, i.ne.eqE rfl⟩
theorem IN.setLoops (i : IN H a n s0 s) {l : List (Nat × Nat × Nat)} (h : ∀ x ∈ l, x.1 < s.next ∧ x.2.1 < s.next) :
    IN H a n s0 (setLoops s l) := ⟨i.inv.setLoops h, i.ne.eqE rfl⟩
theorem IN.setExcs (i : IN H a n s0 s) {x : List Exc}
    (h : ∀ c ∈ x, (∀ f, c.fin = some f → f < s.next) ∧ ∀ h ∈ c.handlers, h < s.next) : IN H a n s0 (setExcs s x) :=
  ⟨i.inv.setExcs h, i.ne.eqE rfl⟩
/-- a piece of processing that only touches fresh blocks -/
theorem IN.fresh (i : IN H a n s0 s) (j : Inv n n s s') (ha : a < n) : IN H a n s0 s' :=
  ⟨i.inv.trans (inv_weaken j (fun x hx => .inr (by rcases hx with h | h <;> omega))), i.ne.inv j (by omega) ha⟩

end inchain

theorem own_ge {f x : Nat} (h : Own f f x) : f ≤ x := by rcases h with h | h <;> omega

/-! ### compound statements: only edges into fresh blocks leave the entry block, and the current block is fresh afterwards -/
section compound
variable {H : List Nat}

theorem class_left (st : St) (w : WF st) (hH : ∀ h ∈ H, h < st.next) (s e : Nat) (body : List Stmt) :
    NE st.cur H st (procClass st s e body) ∧ st.next ≤ (procClass st s e body).cur := by
  rw [procClass_eq]
  have hcur := w.cur
  have hown : Own st.cur st.next st.cur := .inl rfl
  have i0 : IN H st.cur st.next st st := IN.refl w hown
  have i1 := ((i0.bump.edge (x := st.cur) (y := st.next) (t := .normal) hown (by ob) (by ob) (fun _ hh => by have := hH _ hh; omega)).setCur
    (x := st.next) (by ob) (by ob)).add (b := st.next) (p := s) (q := e) (ty := .other) (by ob) (by ob)
  obtain ⟨j, _⟩ := procList_frame body _ i1.inv.wf st.next st.next (.inl rfl) (by ob)
  exact ⟨(i1.fresh j hcur).ne, own_ge j.own⟩

theorem with_left (st : St) (w : WF st) (hH : ∀ h ∈ H, h < st.next) (s e : Nat) (body : List Stmt) :
    NE st.cur H st (procWith st s e body) ∧ st.next ≤ (procWith st s e body).cur := by
  rw [procWith_eq]
  have hcur := w.cur
  have hown : Own st.cur st.next st.cur := .inl rfl
  have i0 : IN H st.cur st.next st st := IN.refl w hown
  have i1 := ((((((i0.bump.edge (x := st.cur) (y := st.next) (t := .normal) hown (by ob) (by ob) (fun _ hh => by have := hH _ hh; omega)).add
    (b := st.next) (p := s) (q := e) (ty := .other) (by ob) (by ob)).bump).bump).bump).edge (x := st.next) (y := st.next + 1) (t := .normal)
    (by ob) (by ob) (by ob) (fun h => by omega)).setCur (x := st.next + 1) (by ob) (by ob)
  obtain ⟨j, _⟩ := procList_frame body _ i1.inv.wf st.next st.next (.inr (by ob)) (by ob)
  have k := i1.fresh j hcur
  have hjn := j.next_le
  have hjo := own_ge j.own
  have hk := k.inv.wf.cur
  simp only
  have k2 := (((k.edgeUnlessExit (y := st.next + 2) (t := .normal) k.inv.own hk (by ob) (fun h => by omega)).edge (x := st.next) (y := st.next + 2) (t := .exc)
    (by ob) (by ob) (by ob) (fun h => by omega)).edge (x := st.next + 2) (y := st.next + 3) (t := .normal) (by ob) (by ob) (by ob) (fun h => by omega)).setCur
    (x := st.next + 3) (by ob) (by ob)
  exact ⟨k2.ne, by show st.next ≤ st.next + 3; omega⟩

theorem loop_left (st : St) (w : WF st) (hH : ∀ h ∈ H, h < st.next) (s e : Nat) (body orelse : List Stmt) :
    NE st.cur H st (procLoop st s e body orelse) ∧ st.next ≤ (procLoop st s e body orelse).cur := by
  rw [procLoop_eq]
  have hcur := w.cur
  have hown : Own st.cur st.next st.cur := .inl rfl
  have i0 : IN H st.cur st.next st st := IN.refl w hown
  have i1 := (((i0.bump.edge (x := st.cur) (y := st.next) (t := .normal) hown (by ob) (by ob) (fun _ hh => by have := hH _ hh; omega)).add
    (b := st.next) (p := s) (q := e) (ty := .other) (by ob) (by ob)).bump).bump
  rcases orelse with _ | ⟨o, os⟩
  · simp only [List.isEmpty_nil, Bool.not_true, Bool.false_eq_true, ↓reduceIte]
    have i2 := (((i1.setLoops (l := (st.next, st.next + 2, st.excs.length) :: st.loops) (by
        intro x hx
        rcases List.mem_cons.mp hx with rfl | hx
        · constructor <;> ob
        · exact w.loops_le (by ob) x hx)).edge (x := st.next) (y := st.next + 1) (t := .condT) (by ob) (by ob) (by ob) (fun h => by omega)).edge
        (x := st.next) (y := st.next + 2) (t := .condF) (by ob) (by ob) (by ob) (fun h => by omega)).setCur (x := st.next + 1) (by ob) (by ob)
    obtain ⟨j, _⟩ := procList_frame body _ i2.inv.wf st.next st.next (.inr (by ob)) (by ob)
    have k := i2.fresh j hcur
    have hjn := j.next_le
    have hjo := own_ge j.own
    have hk := k.inv.wf.cur
    have k2 := (((k.edgeUnlessExit (y := st.next) (t := .loop) k.inv.own hk (by ob) (fun h => by omega)).setLoops (l := st.loops)
      (w.loops_le (by ob))).setCur (x := st.next + 2) (by ob) (by ob)).setLoops (l := st.loops) (w.loops_le (by ob))
    exact ⟨k2.ne, by show st.next ≤ st.next + 2; omega⟩
  · simp only [List.isEmpty_cons, Bool.not_false, ↓reduceIte]
    have i2 := (((i1.bump.setLoops (l := (st.next, st.next + 2, st.excs.length) :: st.loops) (by
        intro x hx
        rcases List.mem_cons.mp hx with rfl | hx
        · constructor <;> ob
        · exact w.loops_le (by ob) x hx)).edge (x := st.next) (y := st.next + 1) (t := .condT) (by ob) (by ob) (by ob) (fun h => by omega)).edge
        (x := st.next) (y := st.next + 3) (t := .condF) (by ob) (by ob) (by ob) (fun h => by omega)).setCur (x := st.next + 1) (by ob) (by ob)
    obtain ⟨j, _⟩ := procList_frame body _ i2.inv.wf st.next st.next (.inr (by ob)) (by ob)
    have k := i2.fresh j hcur
    have hjn := j.next_le
    have hjo := own_ge j.own
    have hk := k.inv.wf.cur
    have k2 := ((k.edgeUnlessExit (y := st.next) (t := .loop) k.inv.own hk (by ob) (fun h => by omega)).setLoops (l := st.loops)
      (w.loops_le (by ob))).setCur (x := st.next + 3) (by ob) (by ob)
    obtain ⟨j2, _⟩ := procList_frame (o :: os) _ k2.inv.wf st.next st.next (.inr (by ob)) (by ob)
    have k3 := k2.fresh j2 hcur
    have hjn2 := j2.next_le
    have hjo2 := own_ge j2.own
    have hk3 := k3.inv.wf.cur
    have k4 := ((k3.edgeUnlessExit (y := st.next + 2) (t := .normal) k3.inv.own hk3 (by ob) (fun h => by omega)).setCur
      (x := st.next + 2) (by ob) (by ob)).setLoops (l := st.loops) (w.loops_le (by ob))
    exact ⟨k4.ne, by show st.next ≤ st.next + 2; omega⟩

theorem procCases_setCur (st : St) (k : Nat) (cs : List Stmt) (mb merge : Nat) (h : cs ≠ []) :
    procCases (setCur st k) cs mb merge = procCases st cs mb merge := by
  rcases cs with _ | ⟨x, cs⟩
  · exact absurd rfl h
  · rcases case_cases x with ⟨s, e, b, rfl⟩ | hne
    · rw [procCases_case, procCases_case]; rfl
    · rw [procCases_other _ _ _ _ _ hne, procCases_other _ _ _ _ _ hne]; rfl

theorem match_left (st : St) (w : WF st) (hH : ∀ h ∈ H, h < st.next) (s e : Nat) (cases : List Stmt) :
    NE st.cur H st (procMatch st s e cases) ∧ st.next ≤ (procMatch st s e cases).cur := by
  rw [procMatch_eq]
  have hcur := w.cur
  have hown : Own st.cur st.next st.cur := .inl rfl
  have i0 : IN H st.cur st.next st st := IN.refl w hown
  have i1 := ((i0.bump.edge (x := st.cur) (y := st.next) (t := .normal) hown (by ob) (by ob) (fun _ hh => by have := hH _ hh; omega)).add
    (b := st.next) (p := s) (q := e) (ty := .other) (by ob) (by ob)).bump
  simp only
  refine ⟨?_, by show st.next ≤ st.next + 1; omega⟩
  split
  · next hne =>
    have hne' : cases ≠ [] := by rintro rfl; simp at hne
    have i1' := i1.setCur (x := st.next) (by ob) (by ob)
    rw [← procCases_setCur _ st.next _ _ _ hne']
    obtain ⟨j, _⟩ := cases_frame (c := st.next) (n := st.next) (frame_all (sizeL cases)).1 (frame_all (sizeL cases)).2 cases _ st.next
      (st.next + 1) (Nat.le_refl _) i1'.inv.wf (.inl rfl) (by ob) (.inl rfl) (by ob) (by ob)
    have k := i1'.fresh j hcur
    have hjn := j.next_le
    exact ((k.edge (x := st.next) (y := st.next + 1) (t := .condF) (by ob) (by ob) (by ob) (fun h => by omega)).setCur (x := st.next + 1)
      (by ob) (by ob)).ne
  · exact ((i1.edge (x := st.next) (y := st.next + 1) (t := .normal) (by ob) (by ob) (by ob) (fun h => by omega)).setCur (x := st.next + 1)
      (by ob) (by ob)).ne

theorem NE.first (st : St) (hH : ∀ h ∈ H, h < st.next) {s1 : St} {y : Nat} {t : ETy} (hy : st.next ≤ y)
    (he : s1.edges = (st.cur, y, t) :: st.edges) : NE st.cur H st s1 := by
  refine ⟨[(st.cur, y, t)], he, ?_⟩
  intro e hm _ hh
  rcases List.mem_cons.mp hm with rfl | hm
  · have : y < st.next := hH _ hh
    omega
  · cases hm

theorem try_left (st : St) (w : WF st) (hH : ∀ h ∈ H, h < st.next) (s e : Nat) (body handlers orelse fin : List Stmt) :
    NE st.cur H st (procTry st s e body handlers orelse fin) ∧ st.next ≤ (procTry st s e body handlers orelse fin).cur := by
  rw [procTry_eq']
  simp only
  refine ⟨?_, by show st.next ≤ st.next + 1; omega⟩
  have ihS := (frame_all (sizeL body + sizeL handlers + sizeL orelse + sizeL fin)).1
  have ihL := (frame_all (sizeL body + sizeL handlers + sizeL orelse + sizeL fin)).2
  generalize (!fin.isEmpty) = hasFin
  generalize (!orelse.isEmpty) = hasElse
  obtain ⟨k3, sm3, hn3, hF, hE⟩ := tryPre_frame (c := st.cur) (n := st.next) st w (.inl rfl) (Nat.le_refl _) hasFin hasElse
  have hpe : (tryPre st hasFin hasElse).1.edges = (st.cur, st.next, .normal) :: st.edges := by cases hasFin <;> cases hasElse <;> rfl
  generalize tryPre st hasFin hasElse = p at *
  obtain ⟨s3, finB, elseB⟩ := p
  simp only at *
  have hcf : ∀ f, (if hasFin = true then some finB else none) = some f → f < s3.next := by
    intro f hf
    cases hasFin
    · simp at hf
    · simp only [↓reduceIte, Option.some.injEq] at hf; subst hf; exact (hF rfl).2
  have hah : (if hasFin = true then finB else st.next + 1) < s3.next := by
    cases hasFin
    · simp only [Bool.false_eq_true, ↓reduceIte]; omega
    · simp only [↓reduceIte]; exact (hF rfl).2
  have hnat : (if hasElse = true then elseB else if hasFin = true then finB else st.next + 1) < s3.next := by
    cases hasElse
    · simp only [Bool.false_eq_true, ↓reduceIte]; exact hah
    · simp only [↓reduceIte]; exact (hE rfl).2
  generalize (if hasFin = true then some finB else none) = cfin at *
  generalize (if hasElse = true then elseB else if hasFin = true then finB else st.next + 1) = nat at *
  generalize (if hasFin = true then finB else st.next + 1) = ah at *
  have hcur := w.cur
  have kP : Inv st.cur st.next st (setCur s3 st.next) := k3.setCur (.inr (Nat.le_refl _)) (by omega)
  have nP : NE st.cur H st (setCur s3 st.next) := NE.first st hH (Nat.le_refl _) hpe
  have k0 : Inv st.next st.next (setCur s3 st.next) (setCur s3 st.next) := Inv.refl kP.wf (.inl rfl)
  have hmid : tryMid (setCur s3 st.next) st.next cfin st.excs nat ah body handlers = tryMid s3 st.next cfin st.excs nat ah body handlers := rfl
  obtain ⟨k7, l7, x7, hn7⟩ := tryMid_frame ihS ihL body handlers (by omega) (by omega) k0 (by show st.next ≤ s3.next; omega) st.next
    (.inl rfl) (by show st.next < s3.next; omega) cfin hcf st.excs (w.excs_le (by show st.next ≤ s3.next; omega)) nat ah hnat hah
  rw [hmid] at k7 l7 x7 hn7
  simp only [setCur_next] at x7 hn7
  obtain ⟨k8, sm8, hn8⟩ := tryElse_frame ihL orelse (by omega) k7 (by omega) hasElse elseB ah
    (fun h => by have := hE h; omega) (by omega)
  obtain ⟨k9, sm9, hn9⟩ := tryFin_frame ihL fin (by omega) k8 (by omega) hasFin finB (st.next + 1)
    { fin := cfin, handlers := (List.range handlers.length).map (fun k => s3.next + k), processingFinally := false } st.excs
    (by rw [sm8.excs, x7]) (fun h => by have := hF h; omega) (by omega)
  have k10 := (k9.setCur (x := st.next + 1) (.inr (by omega)) (by omega)).setExcs (x := st.excs) (w.excs_le (by simp only [setCur_next]; omega))
  exact nP.inv k10 (by omega) hcur

theorem elifTail_left {a f : Nat} {st0 s3 : St} (k : IN H a f st0 s3) (ha : a < f) (hfn : f ≤ s3.next) (hHf : ∀ h ∈ H, h < f)
    (te merge s' e' : Nat) (thn' orelse' : List Stmt) (hte : f ≤ te) (htl : te < s3.next) (hm : f ≤ merge) (hml : merge < s3.next) :
    NE a H st0 (procIfElifTail s3 a te merge s' e' thn' orelse') ∧ f ≤ (procIfElifTail s3 a te merge s' e' thn' orelse').cur := by
  rw [procIfElifTail_eq]
  have i1 := (k.bump.edge (x := a) (y := s3.next) (t := .condF) (.inl rfl) (by ob) (by ob)
    (fun _ hh => by have := hHf _ hh; omega)).setCur (x := s3.next) (.inr hfn) (by ob)
  obtain ⟨j, _⟩ := elif_frame (c := f) (n := f) (frame_all (sizeL thn' + sizeL orelse')).2 _ thn' orelse' (Nat.le_refl _) (by omega) (by omega)
    _ s' e' merge i1.inv.wf (.inr hfn) (by ob) (.inr hm) (by ob)
  have kj := i1.fresh j ha
  have hjn := j.next_le
  have hjo := own_ge j.own
  simp only
  split
  · split
    · exact ⟨kj.ne, hjo⟩
    · exact ⟨(((kj.setCur (x := merge) (.inr hm) (by ob)).edgeUnlessExit (x := te) (y := merge) (t := .normal) (.inr hte) (by ob) (by ob)
        (fun h => by omega)).setCur (x := merge) (.inr hm) (by ob)).ne, hm⟩
  · exact ⟨((kj.edgeUnlessExit (x := te) (y := merge) (t := .normal) (.inr hte) (by ob) (by ob) (fun h => by omega)).setCur (x := merge)
      (.inr hm) (by ob)).ne, hm⟩

theorem if_left (st : St) (w : WF st) (hH : ∀ h ∈ H, h < st.next) (s e : Nat) (thn orelse : List Stmt) :
    NE st.cur H st (procIf st s e thn orelse) ∧ st.next ≤ (procIf st s e thn orelse).cur := by
  have hcur := w.cur
  have hown : Own st.cur st.next st.cur := .inl rfl
  have i0 : IN H st.cur st.next st st := IN.refl w hown
  have i1 := (((i0.add (b := st.cur) (p := s) (q := e) (ty := .other) hown w.cur).bump.bump).edge (x := st.cur) (y := st.next)
    (t := .condT) hown (by ob) (by ob) (fun _ hh => by have := hH _ hh; omega)).setCur (x := st.next) (by ob) (by ob)
  obtain ⟨j, _⟩ := procList_frame thn _ i1.inv.wf st.next st.next (.inl rfl) (by ob)
  have k : IN H st.cur st.next st (ifHead st s e thn) := i1.fresh j hcur
  have hjn : st.next + 2 ≤ (ifHead st s e thn).next := by have := j.next_le; unfold ifHead; ob
  have hjo : st.next ≤ (ifHead st s e thn).cur := own_ge j.own
  have hk := k.inv.wf.cur
  rcases orelse_cases orelse with rfl | ⟨s', e', a, b, rfl⟩ | ⟨s', e', a, b, rfl⟩ | ⟨o, os, rfl, hne1, hne2⟩
  · rw [procIf_nil]
    simp only
    exact ⟨(((k.edge (x := st.cur) (y := st.next + 1) (t := .condF) hown (by ob) (by ob) (fun _ hh => by have := hH _ hh; omega)).edgeUnlessExit
      (x := (ifHead st s e thn).cur) (y := st.next + 1) (t := .normal) k.inv.own (by ob) (by ob) (fun h => by omega)).setCur (x := st.next + 1)
      (by ob) (by ob)).ne, by show st.next ≤ st.next + 1; omega⟩
  · rw [procIf_elif]
    exact elifTail_left k hcur (by omega) hH (ifHead st s e thn).cur (st.next + 1) 0 0 a b hjo hk (by omega) (by omega)
  · rw [procIf_ite]
    exact elifTail_left k hcur (by omega) hH (ifHead st s e thn).cur (st.next + 1) s' e' a b hjo hk (by omega) (by omega)
  · rw [procIf_else _ _ _ _ _ _ hne1 hne2]
    simp only
    unfold elseTail
    have i5 := (k.bump.edge (x := st.cur) (y := (ifHead st s e thn).next) (t := .condF) hown (by ob) (by ob)
      (fun _ hh => by have := hH _ hh; omega)).setCur (x := (ifHead st s e thn).next) (by ob) (by ob)
    obtain ⟨j5, _⟩ := procList_frame (o :: os) _ i5.inv.wf st.next st.next (.inr (by ob)) (by ob)
    have k5 := i5.fresh j5 hcur
    have hjn5 := j5.next_le
    have hjo5 := own_ge j5.own
    have hk5 := k5.inv.wf.cur
    split
    · exact ⟨(k5.bumpU.setCur (by ob) (by ob)).ne, by have := k5.inv.next_le; ob⟩
    · refine ⟨(((k5.edgeUnlessExit (x := (ifHead st s e thn).cur) (y := st.next + 1) (t := .normal) k.inv.own (by ob) (by ob)
        (fun h => by omega)).edgeUnlessExit (y := st.next + 1) (t := .normal) (by rw [edgeUnlessExit_cur]; exact k5.inv.own) (by ob) (by ob)
        (fun h => by rw [edgeUnlessExit_cur] at h; omega)).setCur (x := st.next + 1) (by ob) (by ob)).ne, by show st.next ≤ st.next + 1; omega⟩

end compound

/-! ### the induction -/
def PSF (x : Stmt) : Prop :=
  ∀ (il : Bool) (st : St) (c0 c : Exc) (X : List Exc), FH il st c0 c X → okFS il x = true → Res (hrS x) c.handlers st (procStmt st x)
def PLF (ss : List Stmt) : Prop :=
  ∀ (il : Bool) (st : St) (c0 c : Exc) (X : List Exc), FH il st c0 c X → okFL il ss = true → Res (hrL ss) c.handlers st (procList st ss)

theorem NE.eq0 {a : Nat} {H : List Nat} {s0 s1 s : St} (h : NE a H s1 s) (he : s1.edges = s0.edges) : NE a H s0 s := by
  obtain ⟨ne, e1, p1⟩ := h
  exact ⟨ne, by rw [e1, he], p1⟩

theorem FH.stay {il : Bool} {st s1 : St} {c0 c : Exc} {X : List Exc} (fh : FH il st c0 c X) (w1 : WF s1)
    (r : Res .stay c.handlers st s1) : FH il s1 c0 c X := by
  obtain ⟨_, r2, _, r4, r5⟩ := r
  refine ⟨w1, ?_, by rw [r5]; exact fh.hx, fh.hc0, by rw [r2]; exact fh.hc0f, fh.hnf, fh.hex, ?_⟩
  · rw [r4]; exact fh.loops
  · rw [r4]; exact fh.hdisj

theorem PSF_succ {N : Nat} (ihL : ∀ ss, sizeL ss ≤ N → PLF ss) : ∀ x : Stmt, x.size ≤ N + 1 → PSF x := by
  intro x hsz il st c0 c X fh hok
  cases x with
  | simple s e comp hasComp =>
    rw [procStmt_simple]
    cases hasComp
    · rw [hrS_simple_f]; simp only [Bool.false_eq_true, ↓reduceIte]; exact add_res fh s e
    · rw [hrS_simple_t]; simp only [↓reduceIte]; exact simple_res fh s e comp
  | ret s e comp hasComp => rw [procStmt_ret, hrS_ret]; exact ret_res fh s e comp hasComp
  | brk s e => rw [okFS_brk] at hok; rw [procStmt_brk, hrS_brk]; exact brk_res fh hok s e
  | cont s e => rw [okFS_cont] at hok; rw [procStmt_cont, hrS_cont]; exact cont_res fh hok s e
  | raise s e => rw [procStmt_raise, hrS_raise]; exact raise_res fh s e
  | ite s e a b => rw [procStmt_ite, hrS_ite]; exact if_left st fh.wf fh.hlt s e a b
  | elifc s e a b => rw [procStmt_elifc, hrS_elifc]; exact if_left st fh.wf fh.hlt 0 0 a b
  | elsec s e b =>
    rw [procStmt_elsec, hrS_elsec]
    rw [okFS_elsec] at hok
    have : sizeL b ≤ N := by simp only [Stmt.size] at hsz; omega
    exact ihL b this il st c0 c X fh hok
  | loop s e a b => rw [procStmt_loop, hrS_loop]; exact loop_left st fh.wf fh.hlt s e a b
  | try_ s e a b c' d => rw [procStmt_try, hrS_try]; exact try_left st fh.wf fh.hlt s e a b c' d
  | handler s e b => rw [okFS_handler] at hok; cases hok
  | with_ s e b => rw [procStmt_with, hrS_with]; exact with_left st fh.wf fh.hlt s e b
  | match_ s e b => rw [procStmt_match, hrS_match]; exact match_left st fh.wf fh.hlt s e b
  | case_ s e b => rw [okFS_case] at hok; cases hok
  | def_ s e b => rw [procStmt_def, hrS_def]; exact add_res fh s e
  | class_ s e b => rw [procStmt_class, hrS_class]; exact class_left st fh.wf fh.hlt s e b

theorem PLF_succ {N : Nat} (ihS : ∀ x : Stmt, x.size ≤ N → PSF x) (ihL : ∀ ss, sizeL ss ≤ N → PLF ss) :
    ∀ ss, sizeL ss ≤ N + 1 → PLF ss := by
  intro ss hsz il st c0 c X fh hok
  rcases ss with _ | ⟨x, xs⟩
  · rw [procList_nil, hrL_nil]; exact ⟨rfl, rfl, rfl, rfl, rfl⟩
  · have hszs : x.size ≤ N ∧ sizeL xs ≤ N := by simp only [sizeL] at hsz; omega
    rw [okFL_cons, Bool.and_eq_true] at hok
    rw [procList_cons, hrL_cons]
    have hx := ihS x hszs.1 il st c0 c X fh hok.1
    obtain ⟨jx, _⟩ := procStmt_frame x st fh.wf st.cur st.next (.inl rfl) (Nat.le_refl _)
    have hcur := fh.wf.cur
    have hnl := jx.next_le
    generalize procStmt st x = s1 at *
    cases hr : hrS x <;> rw [hr] at hx <;> simp only
    · -- the entry block is still current
      have fh1 := fh.stay jx.wf hx
      have hxs := ihL xs hszs.2 il s1 c0 c X fh1 hok.2
      obtain ⟨r1, r2, r3, r4, r5⟩ := hx
      generalize hrL xs = r at hxs ⊢
      generalize procList s1 xs = s2 at *
      cases r
      · obtain ⟨q1, q2, q3, q4, q5⟩ := hxs
        exact ⟨q1.trans r1, q2.trans r2, q3.trans r3, q4.trans r4, q5.trans r5⟩
      · intro h hh
        rw [← r2]; exact hxs h hh
      · obtain ⟨q1, q2⟩ := hxs
        rw [r2] at q1
        exact ⟨q1.eq0 r1, by omega⟩
    · -- a `raise` was executed: the edges stay
      obtain ⟨jxs, _⟩ := procList_frame xs s1 jx.wf s1.cur s1.next (.inl rfl) (Nat.le_refl _)
      intro h hh
      exact hasSucc_mono jxs (hx h hh)
    · -- the entry block was left
      obtain ⟨q1, q2⟩ := hx
      obtain ⟨jxs, _⟩ := procList_frame xs s1 jx.wf s1.cur st.next (.inl rfl) hnl
      refine ⟨q1.inv jxs (by omega) hcur, ?_⟩
      rcases jxs.own with h | h
      · rw [h]; exact q2
      · exact h

theorem res_all : ∀ N, (∀ x : Stmt, x.size ≤ N → PSF x) ∧ (∀ ss, sizeL ss ≤ N → PLF ss) := by
  intro N
  induction N with
  | zero =>
    constructor
    · intro x hsz; have := Stmt.size_pos x; omega
    · intro ss hsz il st c0 c X fh hok
      rcases ss with _ | ⟨x, xs⟩
      · rw [procList_nil, hrL_nil]; exact ⟨rfl, rfl, rfl, rfl, rfl⟩
      · simp only [sizeL] at hsz; omega
  | succ N ih => exact ⟨PSF_succ ih.2, PLF_succ ih.1 ih.2⟩

/-- after a `finally` body, the `finally` block has an edge to a handler block of the enclosing context iff the body executes a
`raise` while the `finally` block is still current -/
theorem head_raise (fin : List Stmt) (il : Bool) (st : St) (w : WF st) (hok : okFL il fin = true) (hloops : il = true → st.loops ≠ [])
    (c0 c : Exc) (X : List Exc) (hx : st.excs = c0 :: c :: X) (hc0 : c0.processingFinally = true) (hc0f : c0.fin = some st.cur)
    (hnf : ∀ c' ∈ c :: X, c'.fin = none ∧ c'.processingFinally = false)
    (hcalm : ∀ e ∈ st.edges, e.1 ≠ st.cur)
    (hex : exitB ∉ c.handlers) (hdisj : ∀ l ∈ st.loops, l.1 ∉ c.handlers ∧ l.2.1 ∉ c.handlers) :
    ∀ h ∈ c.handlers, (procList st fin).hasSucc st.cur h = decide (hrL fin = .raise) := by
  intro h hh
  have fh : FH il st c0 c X := ⟨w, hloops, hx, hc0, hc0f, hnf, hex, hdisj⟩
  have hr := (res_all (sizeL fin)).2 fin (Nat.le_refl _) il st c0 c X fh hok
  have h0 : st.hasSucc st.cur h = false := by
    unfold St.hasSucc
    rw [List.any_eq_false]
    intro e he hh'
    simp only [Bool.and_eq_true, beq_iff_eq] at hh'
    exact hcalm e he hh'.1
  generalize hrL fin = r at hr ⊢
  generalize procList st fin = s' at hr ⊢
  cases r
  · obtain ⟨r1, _⟩ := hr
    have : s'.hasSucc st.cur h = st.hasSucc st.cur h := by unfold St.hasSucc; rw [r1]
    rw [this, h0]; rfl
  · rw [hr h hh]; rfl
  · rw [hr.1.hasSucc hh, h0]; rfl

end PV.CFGFin

#print axioms PV.CFGFin.head_raise
