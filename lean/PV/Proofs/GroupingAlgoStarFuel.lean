import PV.Proofs.GroupingAlgoContracts
import PV.Proofs.UFCorrect
/-!
The star/medoid mirror bounds the recursion depth of the path-compressing `find` by a fuel.  With all fragments below
`n`, fuel `n` is never exhausted: every larger fuel computes exactly the same groups (the union–find invariant of
`PV/Proofs/UFCorrect.lean` holds throughout the improvement loop).
-/
namespace PV.GroupingAlgo
open PV.Grouping PV.UF

theorem union_fuel {n : Nat} {s : State} (h : PV.UF.Inv n s) (a b fuel : Nat) (hf : n ≤ fuel) :
    union fuel s a b = union n s a b := by
  unfold union
  simp only [find_fuel_irrelevant h a fuel hf, find_fuel_irrelevant (find_inv h a).2.1 b fuel hf]

theorem unionB_fuel {n : Nat} {s : State} (h : PV.UF.Inv n s) (a b fuel : Nat) (hf : n ≤ fuel) :
    unionB fuel s a b = unionB n s a b := by
  unfold unionB
  simp only [union_fuel h a b fuel hf, find_fuel_irrelevant h a fuel hf, find_fuel_irrelevant (find_inv h a).2.1 b fuel hf]

theorem bestMedoid_fold_mem (ps : List Pair) (f : Nat) (M : List (Option Nat)) : ∀ (l : List (Option Nat))
    (acc : Option (Nat × Nat)), (∀ r, acc = some r → some r.1 ∈ M) → (∀ m ∈ l, m ∈ M) →
    ∀ r, l.foldl (fun acc m =>
      match m with
      | none => acc
      | some m =>
        if m == f then acc
        else
          let sim := simOr0 ps f m
          match acc with
          | none => some (m, sim)
          | some (b, bs) => if decide (sim > bs) || (sim == bs && decide (m < b)) then some (m, sim) else some (b, bs)) acc = some r →
      some r.1 ∈ M
  | [], acc, hacc, _, r, h => hacc r h
  | m :: l, acc, hacc, hl, r, h => by
    rw [List.foldl_cons] at h
    refine bestMedoid_fold_mem ps f M l _ ?_ (fun x hx => hl x (List.mem_cons_of_mem _ hx)) r h
    intro r' hr'
    cases m with
    | none => exact hacc r' hr'
    | some m =>
      simp only at hr'
      split at hr'
      · exact hacc r' hr'
      · cases acc with
        | none => simp only [Option.some.injEq] at hr'; rw [← hr']; exact hl _ (List.mem_cons_self ..)
        | some b0 =>
          obtain ⟨b1, b2⟩ := b0
          simp only at hr'
          split at hr'
          · simp only [Option.some.injEq] at hr'; rw [← hr']; exact hl _ (List.mem_cons_self ..)
          · exact hacc r' hr'

theorem bestMedoid_mem {ps : List Pair} {medoids : List (Option Nat)} {f b bs : Nat}
    (h : bestMedoid ps medoids f = some (b, bs)) : some b ∈ medoids := by
  unfold bestMedoid at h
  exact bestMedoid_fold_mem ps f medoids medoids none (fun _ h => by cases h) (fun _ h => h) _ h

theorem assignStep_fuel {n : Nat} (ps : List Pair) (iter : Nat) (medoids : List (Option Nat))
    (hmed : ∀ m, some m ∈ medoids → m < n) {acc : State × Bool} (h : PV.UF.Inv n acc.1) {f : Nat} (hfn : f < n)
    (fuel : Nat) (hf : n ≤ fuel) :
    assignStep ps fuel iter medoids acc f = assignStep ps n iter medoids acc f ∧
      PV.UF.Inv n (assignStep ps n iter medoids acc f).1 := by
  unfold assignStep
  split
  · exact ⟨rfl, h⟩
  · split
    · next b bs hb =>
      split
      · rw [unionB_fuel h f b fuel hf]
        exact ⟨rfl, union_inv h hfn (hmed b (bestMedoid_mem hb))⟩
      · exact ⟨rfl, h⟩
    · exact ⟨rfl, h⟩

theorem assignFold_fuel {n : Nat} (ps : List Pair) (iter : Nat) (medoids : List (Option Nat))
    (hmed : ∀ m, some m ∈ medoids → m < n) (fuel : Nat) (hf : n ≤ fuel) : ∀ (l : List Nat) (acc : State × Bool),
    (∀ f ∈ l, f < n) → PV.UF.Inv n acc.1 →
    l.foldl (assignStep ps fuel iter medoids) acc = l.foldl (assignStep ps n iter medoids) acc ∧
      PV.UF.Inv n (l.foldl (assignStep ps n iter medoids) acc).1
  | [], _, _, h => ⟨rfl, h⟩
  | f :: l, acc, hl, h => by
    obtain ⟨e, i⟩ := assignStep_fuel ps iter medoids hmed h (hl f (List.mem_cons_self ..)) fuel hf
    rw [List.foldl_cons, List.foldl_cons, e]
    exact assignFold_fuel ps iter medoids hmed fuel hf l _ (fun x hx => hl x (List.mem_cons_of_mem _ hx)) i

theorem labelPassS_fuel {n : Nat} (fuel : Nat) (hf : n ≤ fuel) : ∀ (vs : List Nat) (s : State), PV.UF.Inv n s →
    labelPassS fuel s vs = labelPassS n s vs ∧ PV.UF.Inv n (labelPassS n s vs).1
  | [], _, h => ⟨rfl, h⟩
  | v :: vs, s, h => by
    unfold labelPassS
    simp only [find_fuel_irrelevant h v fuel hf]
    obtain ⟨e, i⟩ := labelPassS_fuel fuel hf vs _ (find_inv h v).2.1
    rw [e]
    exact ⟨rfl, i⟩

theorem buildClusters_fuel {n : Nat} (fuel : Nat) (hf : n ≤ fuel) (fr : List Nat) (s : State) (h : PV.UF.Inv n s) :
    buildClusters fuel s fr = buildClusters n s fr ∧ PV.UF.Inv n (buildClusters n s fr).1 := by
  unfold buildClusters
  obtain ⟨e, i⟩ := labelPassS_fuel fuel hf fr s h
  rw [e]
  exact ⟨rfl, i⟩

theorem starLoop_fuel {n : Nat} (ps : List Pair) (medoid : List Nat → Option Nat)
    (hmed : ∀ ms m, medoid ms = some m → m ∈ ms) (fr : List Nat) (hfr : ∀ x ∈ fr, x < n) (fuel : Nat) (hf : n ≤ fuel) :
    ∀ (left iter : Nat) (s : State) (clusters : List (List Nat)) (streak : Nat), PV.UF.Inv n s →
      (∀ c ∈ clusters, ∀ x ∈ c, x ∈ fr) →
      starLoop ps fuel medoid fr left iter s clusters streak = starLoop ps n medoid fr left iter s clusters streak
  | 0, _, _, _, _, _, _ => rfl
  | left + 1, iter, s, clusters, streak, h, hc => by
    have hm : ∀ m, some m ∈ clusters.map medoid → m < n := by
      intro m hm
      obtain ⟨c, hcc, hcm⟩ := List.mem_map.mp hm
      exact hfr m (hc c hcc m (hmed c m hcm))
    obtain ⟨e1, i1⟩ := assignFold_fuel ps iter (clusters.map medoid) hm fuel hf fr (s, false) hfr h
    obtain ⟨e2, i2⟩ := buildClusters_fuel fuel hf fr _ i1
    unfold starLoop
    simp only [e1, e2]
    have hc' : ∀ c ∈ (buildClusters n (fr.foldl (assignStep ps n iter (clusters.map medoid)) (s, false)).1 fr).2,
        ∀ x ∈ c, x ∈ fr := by
      intro c hcc x hx
      exact (buildClusters_perm n _ fr).mem_iff.mp (List.mem_flatten.mpr ⟨c, hcc, hx⟩)
    rw [starLoop_fuel ps medoid hmed fr hfr fuel hf left _ _ _ _ i2 hc']

/-- **The fuel of `find` never runs out in the star mirror**: with all fragments below `n`, every fuel `≥ n` gives the
same groups as fuel `n`. -/
theorem starGroupsWith_fuel {n : Nat} (θ : Nat) (ps : List Pair) (medoid : List Nat → Option Nat)
    (hmed : ∀ ms m, medoid ms = some m → m ∈ ms) (hr : ∀ p ∈ ps, p.u < n ∧ p.v < n) (fuel : Nat) (hf : n ≤ fuel) :
    starGroupsWith fuel θ ps medoid = starGroupsWith n θ ps medoid := by
  have hfr : ∀ x ∈ nodesOf ps, x < n := by
    intro x hx
    have := mem_nodesOf.mp hx
    unfold occurs at this
    rw [List.any_eq_true] at this
    obtain ⟨p, hp, h⟩ := this
    simp only [Bool.or_eq_true, beq_iff_eq] at h
    rcases h with h | h
    · rw [← h]; exact (hr p hp).1
    · rw [← h]; exact (hr p hp).2
  unfold starGroupsWith
  simp only
  split
  · rfl
  · obtain ⟨e, i⟩ := buildClusters_fuel fuel hf (nodesOf ps) init (inv_init n)
    rw [e]
    rw [starLoop_fuel ps medoid hmed (nodesOf ps) hfr fuel hf 10 0 _ _ 0 i]
    intro c hcc x hx
    exact (buildClusters_perm n _ (nodesOf ps)).mem_iff.mp (List.mem_flatten.mpr ⟨c, hcc, hx⟩)

theorem findMedoid_mem (ps : List Pair) : ∀ ms m, findMedoid ps ms = some m → m ∈ ms := by
  intro ms m h
  match ms, h with
  | [x], h => simp only [findMedoid, Option.some.injEq] at h; simp [h]
  | a :: b :: rest, h =>
    obtain ⟨m', hm', hfm⟩ := findMedoid_ok ps (a :: b :: rest) (by simp)
    rw [hfm] at h
    cases h
    exact hm'

end PV.GroupingAlgo
