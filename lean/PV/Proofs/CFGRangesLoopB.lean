import PV.Proofs.CFGRangesDefs
/-!
Range-level soundness — `class` and loops.
-/
namespace PV.CFGSound
open PV.CFG

section main
variable {E : List Edge} {N : Nat}

/-! ### class -/
theorem class_rq (ih : ∀ ss, sizeL ss ≤ N → RQL E ss) (body : List Stmt) (hsz : sizeL body ≤ N) (s e : Nat) :
    RQS E (.class_ s e body) := by
  intro il st p w hok hf hwf hp hsi hgc
  rw [okSC_class] at hok
  rw [wfS_class] at hwf
  simp only [Bool.and_eq_true, decide_eq_true_eq] at hwf
  obtain ⟨⟨hse, hwb⟩, hpe⟩ := hwf
  simp only [Stmt.span] at hp ⊢
  obtain ⟨iw, _⟩ := procStmt_frame (.class_ s e body) st w st.cur st.next (Or.inl rfl) (Nat.le_refl _)
  have hz := zoneR w iw hf
  have hwn := iw.next_le
  rw [procStmt_class, procClass_eq] at hf hz hwn ⊢
  have hcur := w.cur
  have hc : Own st.cur st.next st.cur := .inl rfl
  have i0 : Inv st.cur st.next st st := Inv.refl w hc
  have i1 := ((i0.bump.edge (a := st.cur) (b := st.next) (t := .normal) hc (by ob) (by ob)).setCur (x := st.next) (by ob) (by ob)).add
    (b := st.next) (p := s) (q := e) (ty := .other) (by ob) (by ob)
  obtain ⟨j, sm⟩ := procList_frame body _ i1.wf st.cur st.next i1.own (by ob)
  have hjn := j.next_le
  have hpos := hsi.pos
  have hfw : R E st.cur → R E st.next := fun hr => R.step hr (hf.mem (j.sub.1 (st.cur, st.next, .normal) (by simp)))
  have hjn' : st.next + 1 ≤ (procList ((setCur ((bump st).edge st.cur st.next .normal) st.next).add st.next s e .other) body).next := by ob
  have hbk : R E st.next → R E st.cur := hz _ (.inr (Nat.le_refl _)) (by omega)
  have si1 := hsi.cons (b := st.next) (e := e) (ty := .other) hp hbk hfw
  have si2 := si1.anchor (a' := st.next) hbk
  have gc1 : GC ({ blk := st.next, s := s, e := e, ty := .other } :: st.stmts) st.next :=
    GC.hdr hgc.gz (NoRec.of_wf w (Nat.le_refl _)) (by omega)
  have h := ih body hsz false _ (s + 1) i1.wf hok (hf.mono (by ob) (Nat.le_refl _)) hwb si2 gc1
  obtain ⟨ns, h1, h2⟩ := h.ext
  have hpg := posL_ge body _ hwb
  refine ⟨⟨ns ++ [{ blk := st.next, s := s, e := e, ty := .other }], ?_, ?_⟩, h.pw, h.gc⟩
  · rw [h1]; simp
  · intro r hr
    rcases List.mem_append.mp hr with hr | hr
    · exact (h2 r hr).mono (by omega) (by omega)
    · rw [List.mem_singleton.mp hr]; exact .inr ⟨hp, hse, by simp only; omega⟩

/-! ### loops -/
theorem loop_rq (ih : ∀ ss, sizeL ss ≤ N → RQL E ss) (body orelse : List Stmt) (h1 : sizeL body ≤ N) (h2 : sizeL orelse ≤ N) (s e : Nat) :
    RQS E (.loop s e body orelse) := by
  intro il st p w hok hf hwf hp hsi hgc
  rw [okSC_loop, Bool.and_eq_true] at hok
  rw [wfS_loop] at hwf
  simp only [Bool.and_eq_true, decide_eq_true_eq] at hwf
  obtain ⟨⟨⟨hse, hwb⟩, hwo⟩, hpe⟩ := hwf
  simp only [Stmt.span] at hp ⊢
  obtain ⟨iw, _⟩ := procStmt_frame (.loop s e body orelse) st w st.cur st.next (Or.inl rfl) (Nat.le_refl _)
  have hz := zoneR w iw hf
  have hwn := iw.next_le
  rw [procStmt_loop, procLoop_eq] at hf hz hwn ⊢
  have hcur := w.cur
  have hpos := hsi.pos
  have hc : Own st.cur st.next st.cur := .inl rfl
  have i0 : Inv st.cur st.next st st := Inv.refl w hc
  have i1 := (((i0.bump.edge (a := st.cur) (b := st.next) (t := .normal) hc (by ob) (by ob)).add (b := st.next) (p := s) (q := e)
    (ty := .other) (by ob) (by ob)).bump).bump
  have hpg := posL_ge body _ hwb
  have hpo := posL_ge orelse _ hwo
  have gz1 : GZ ({ blk := st.next, s := s, e := e, ty := .other } :: st.stmts) := hgc.gz.add_fresh (NoRec.of_wf w (Nat.le_refl _))
  have gc1 : GC ({ blk := st.next, s := s, e := e, ty := .other } :: st.stmts) (st.next + 1) :=
    GC.fresh gz1 (NoRec.cons (by omega) (NoRec.of_wf w (by omega)))
  have nr2 : NoRec ({ blk := st.next, s := s, e := e, ty := .other } :: st.stmts) (st.next + 2) :=
    NoRec.cons (by omega) (NoRec.of_wf w (by omega))
  have nr3 : NoRec ({ blk := st.next, s := s, e := e, ty := .other } :: st.stmts) (st.next + 3) :=
    NoRec.cons (by omega) (NoRec.of_wf w (by omega))
  rcases orelse with _ | ⟨o, os⟩
  · simp only [List.isEmpty_nil, Bool.not_true, Bool.false_eq_true, ↓reduceIte] at hf hz hwn ⊢
    rw [posL_nil] at hpe
    have i2 := (((i1.setLoops (l := (st.next, st.next + 2, st.excs.length) :: st.loops) (by
        intro x hx
        rcases List.mem_cons.mp hx with rfl | hx
        · constructor <;> ob
        · exact w.loops_le (by ob) x hx)).edge (a := st.next) (b := st.next + 1) (t := .condT) (by ob) (by ob) (by ob)).edge
        (a := st.next) (b := st.next + 2) (t := .condF) (by ob) (by ob) (by ob)).setCur (x := st.next + 1) (by ob) (by ob)
    obtain ⟨j, sm⟩ := procList_frame body _ i2.wf st.cur st.next i2.own (by ob)
    obtain ⟨j', _⟩ := procList_frame body _ i2.wf (st.next + 1) (st.next + 3) (.inl rfl) (by ob)
    have hjn := j.next_le
    have f5 := (hf.mono (lo' := st.next + 3) (by omega) (Nat.le_refl _)).back_setLoops.back_setCur.back_setLoops.back_eue (.inl (by omega))
    have hfw : R E st.cur → R E st.next := fun hr => R.step hr (f5.mem (j.sub.1 (st.cur, st.next, .normal) (by simp)))
    simp only [setLoops_next, setCur_next, edgeUnlessExit_next] at hz
    have hjn' : st.next + 3 ≤ (procList (setCur (((setLoops (bump (bump (((bump st).edge st.cur st.next .normal).add st.next s e .other)))
        ((st.next, st.next + 2, st.excs.length) :: st.loops)).edge st.next (st.next + 1) .condT).edge st.next (st.next + 2) .condF)
        (st.next + 1)) body).next := by ob
    have si1 := hsi.cons (b := st.next) (e := e) (ty := .other) hp (hz _ (.inr (Nat.le_refl _)) (by omega)) hfw
    have si2 := si1.anchor (a' := st.next + 1) (hz _ (.inr (by omega)) (by omega))
    have h := ih body h1 true _ (s + 1) i2.wf hok.1 (f5.mono (by ob) (by ob)) hwb si2 gc1
    obtain ⟨ns, e1, b1⟩ := h.ext
    refine ⟨⟨ns ++ [{ blk := st.next, s := s, e := e, ty := .other }], ?_, ?_⟩, ?_, ?_⟩
    · simp only [setLoops_stmts, setCur_stmts, edgeUnlessExit_stmts]
      rw [e1]; simp
    · intro r hr
      rcases List.mem_append.mp hr with hr | hr
      · exact (b1 r hr).mono (by omega) (by omega)
      · rw [List.mem_singleton.mp hr]; exact .inr ⟨hp, hse, by simp only; omega⟩
    · simp only [setLoops_stmts, setCur_stmts, edgeUnlessExit_stmts]
      exact h.pw
    · simp only [setLoops_stmts, setCur_stmts, edgeUnlessExit_stmts, setLoops_cur, setCur_cur]
      exact GC.fresh h.gc.gz (NoRec.inv j' (by omega) (by omega) nr2)
  · simp only [List.isEmpty_cons, Bool.not_false, ↓reduceIte] at hf hz hwn ⊢
    have i2 := (((i1.bump.setLoops (l := (st.next, st.next + 2, st.excs.length) :: st.loops) (by
        intro x hx
        rcases List.mem_cons.mp hx with rfl | hx
        · constructor <;> ob
        · exact w.loops_le (by ob) x hx)).edge (a := st.next) (b := st.next + 1) (t := .condT) (by ob) (by ob) (by ob)).edge
        (a := st.next) (b := st.next + 3) (t := .condF) (by ob) (by ob) (by ob)).setCur (x := st.next + 1) (by ob) (by ob)
    obtain ⟨j, sm⟩ := procList_frame body _ i2.wf st.cur st.next i2.own (by ob)
    obtain ⟨j', _⟩ := procList_frame body _ i2.wf (st.next + 1) (st.next + 4) (.inl rfl) (by ob)
    have k := i2.trans j
    have hjn := j.next_le
    have hk := k.wf.cur
    have k2 := ((k.edgeUnlessExit (b := st.next) (t := .loop) k.own hk (by ob)).setLoops (l := st.loops) (w.loops_le (by ob))).setCur
      (x := st.next + 3) (by ob) (by ob)
    obtain ⟨j2, sm2⟩ := procList_frame (o :: os) _ k2.wf st.cur st.next k2.own (by ob)
    obtain ⟨j2', _⟩ := procList_frame (o :: os) _ k2.wf (st.next + 3) (st.next + 4) (.inl rfl) (by ob)
    have hjn2 := j2.next_le
    -- the else clause
    have f8 := (hf.mono (lo' := st.next + 4) (by omega) (Nat.le_refl _)).back_setLoops.back_setCur.back_eue (.inl (by omega))
    -- the body
    have hctx : CtxLt (setCur (setLoops ((procList (setCur ((((setLoops (bump (bump (bump (((bump st).edge st.cur st.next .normal).add st.next s e .other))))
        ((st.next, st.next + 2, st.excs.length) :: st.loops)).edge st.next (st.next + 1) .condT).edge st.next (st.next + 3) .condF)) (st.next + 1)) body).edgeUnlessExit
        (procList (setCur ((((setLoops (bump (bump (bump (((bump st).edge st.cur st.next .normal).add st.next s e .other))))
        ((st.next, st.next + 2, st.excs.length) :: st.loops)).edge st.next (st.next + 1) .condT).edge st.next (st.next + 3) .condF)) (st.next + 1)) body).cur
        st.next .loop) st.loops) (st.next + 3)) (st.next + 4) :=
      (w.ctxLt (m := st.next + 4) (by omega)).of_eq (by simp) (by simp [sm.excs])
    have f5 := ((f8.mono (Nat.le_refl _) (hi' := (procList (setCur ((((setLoops (bump (bump (bump (((bump st).edge st.cur st.next .normal).add st.next s e .other))))
        ((st.next, st.next + 2, st.excs.length) :: st.loops)).edge st.next (st.next + 1) .condT).edge st.next (st.next + 3) .condF)) (st.next + 1)) body).next)
        (by ob)).back_list k2.wf hctx (by omega) (by ob)).back_setCur.back_setLoops.back_eue (.inl (by omega))
    have hfw : R E st.cur → R E st.next := fun hr => R.step hr (f5.mem (j.sub.1 (st.cur, st.next, .normal) (by simp)))
    simp only [setLoops_next, setCur_next, edgeUnlessExit_next] at hz
    have hjn' : st.next + 4 ≤ (procList (setCur (setLoops ((procList (setCur ((((setLoops (bump (bump (bump (((bump st).edge st.cur st.next .normal).add st.next s e .other))))
        ((st.next, st.next + 2, st.excs.length) :: st.loops)).edge st.next (st.next + 1) .condT).edge st.next (st.next + 3) .condF)) (st.next + 1)) body).edgeUnlessExit
        (procList (setCur ((((setLoops (bump (bump (bump (((bump st).edge st.cur st.next .normal).add st.next s e .other))))
        ((st.next, st.next + 2, st.excs.length) :: st.loops)).edge st.next (st.next + 1) .condT).edge st.next (st.next + 3) .condF)) (st.next + 1)) body).cur
        st.next .loop) st.loops) (st.next + 3)) (o :: os)).next := by ob
    have si1 := hsi.cons (b := st.next) (e := e) (ty := .other) hp (hz _ (.inr (Nat.le_refl _)) (by omega)) hfw
    have si2 := si1.anchor (a' := st.next + 1) (hz _ (.inr (by omega)) (by omega))
    have hB := ih body h1 true _ (s + 1) i2.wf hok.1 (f5.mono (by ob) (Nat.le_refl _)) hwb si2 gc1
    have si3 := (hB.si si1 hpg (Nat.le_refl _)).anchor (a' := st.next + 3) (hz _ (.inr (by omega)) (by omega))
    have gc3 := GC.fresh hB.gc.gz (NoRec.inv j' (m := st.next + 3) (by omega) (by omega) nr3)
    have hE := ih (o :: os) h2 il _ (posL (s + 1) body) k2.wf hok.2 (f8.mono (by ob) (by ob)) hwo
      (by simp only [setLoops_stmts, setCur_stmts, edgeUnlessExit_stmts, setCur_cur]; exact si3)
      (by simp only [setLoops_stmts, setCur_stmts, edgeUnlessExit_stmts, setCur_cur]; exact gc3)
    have nrE := NoRec.inv j2' (m := st.next + 2) (by omega) (by omega)
      (by simp only [setLoops_stmts, setCur_stmts, edgeUnlessExit_stmts]
          exact NoRec.inv j' (m := st.next + 2) (by omega) (by omega) nr2)
    simp only [setLoops_stmts, setCur_stmts, edgeUnlessExit_stmts] at hE
    obtain ⟨nb, e1, b1⟩ := hB.ext
    obtain ⟨ne, e2, b2⟩ := hE.ext
    refine ⟨⟨ne ++ nb ++ [{ blk := st.next, s := s, e := e, ty := .other }], ?_, ?_⟩, ?_, ?_⟩
    · simp only [setLoops_stmts, setCur_stmts, edgeUnlessExit_stmts]
      rw [e2, e1]; simp
    · intro r hr
      rcases List.mem_append.mp hr with hr | hr
      · rcases List.mem_append.mp hr with hr | hr
        · exact (b2 r hr).mono (by omega) (by omega)
        · exact (b1 r hr).mono (by omega) (by omega)
      · rw [List.mem_singleton.mp hr]; exact .inr ⟨hp, hse, by simp only; omega⟩
    · simp only [setLoops_stmts, setCur_stmts, edgeUnlessExit_stmts]
      exact hE.pw
    · simp only [setLoops_stmts, setCur_stmts, edgeUnlessExit_stmts, setLoops_cur, setCur_cur]
      exact GC.fresh hE.gc.gz nrE

end main
end PV.CFGSound
