import PV.Model.GroupingAlgo
import PV.Properties.C10x
/-!
Correctness of the k-core MIRROR (`PV.GroupingAlgo.kcoreLoop`): for every order of the work queue and every order of
the neighbour lists, the loop terminates within its fuel, and the vertices it leaves are the largest set in which
every vertex has at least `k` neighbours — the fixed point of the specification's `peel`.
-/
namespace PV.GroupingAlgo
open PV.Grouping PV.SCC PV.C10

/-! ## fragments in order of first appearance -/

theorem mem_addNode {acc : List Nat} {u x : Nat} : x ∈ addNode acc u ↔ x ∈ acc ∨ x = u := by
  unfold addNode
  split
  · next h =>
    have : u ∈ acc := by simpa using h
    constructor
    · exact Or.inl
    · rintro (h | rfl)
      · exact h
      · exact this
  · simp

theorem nodup_addNode {acc : List Nat} {u : Nat} (h : acc.Nodup) : (addNode acc u).Nodup := by
  unfold addNode
  split
  · exact h
  · next hc =>
    have : u ∉ acc := by simpa using hc
    rw [List.nodup_append]
    refine ⟨h, List.nodup_singleton u, ?_⟩
    intro a ha b hb
    simp only [List.mem_singleton] at hb
    subst hb
    intro hab; subst hab; exact this ha

theorem mem_nodes_fold (x : Nat) : ∀ (ps : List Pair) (acc : List Nat),
    x ∈ ps.foldl (fun acc p => addNode (addNode acc p.u) p.v) acc ↔ x ∈ acc ∨ ∃ p ∈ ps, p.u = x ∨ p.v = x
  | [], acc => by simp
  | p :: ps, acc => by
    rw [List.foldl_cons, mem_nodes_fold x ps, mem_addNode, mem_addNode]
    constructor
    · rintro ((( h | h) | h) | ⟨q, hq, h⟩)
      · exact .inl h
      · exact .inr ⟨p, List.mem_cons_self .., .inl h.symm⟩
      · exact .inr ⟨p, List.mem_cons_self .., .inr h.symm⟩
      · exact .inr ⟨q, List.mem_cons_of_mem _ hq, h⟩
    · rintro (h | ⟨q, hq, h⟩)
      · exact .inl (.inl (.inl h))
      · rcases List.mem_cons.mp hq with rfl | hq
        · rcases h with h | h
          · exact .inl (.inl (.inr h.symm))
          · exact .inl (.inr h.symm)
        · exact .inr ⟨q, hq, h⟩

theorem nodup_nodes_fold : ∀ (ps : List Pair) (acc : List Nat), acc.Nodup →
    (ps.foldl (fun acc p => addNode (addNode acc p.u) p.v) acc).Nodup
  | [], _, h => h
  | _ :: ps, _, h => nodup_nodes_fold ps _ (nodup_addNode (nodup_addNode h))

theorem mem_nodesOf {ps : List Pair} {x : Nat} : x ∈ nodesOf ps ↔ occurs ps x = true := by
  unfold nodesOf occurs
  rw [mem_nodes_fold]
  simp only [List.not_mem_nil, false_or, List.any_eq_true, Bool.or_eq_true, beq_iff_eq]

theorem nodup_nodesOf (ps : List Pair) : (nodesOf ps).Nodup := nodup_nodes_fold ps [] List.nodup_nil

theorem occurs_of_linked {θ : Nat} {ps : List Pair} {u v : Nat} (h : linked θ ps u v = true) :
    occurs ps u = true ∧ occurs ps v = true := by
  unfold linked at h; unfold occurs
  rw [List.any_eq_true] at *
  obtain ⟨p, hp, h⟩ := h
  simp only [Bool.and_eq_true, Bool.or_eq_true, beq_iff_eq, decide_eq_true_eq] at h
  rw [List.any_eq_true]
  rcases h with ⟨⟨h1, h2⟩ | ⟨h1, h2⟩, _⟩
  · exact ⟨⟨p, hp, by simp [h1]⟩, ⟨p, hp, by simp [h2]⟩⟩
  · exact ⟨⟨p, hp, by simp [h2]⟩, ⟨p, hp, by simp [h1]⟩⟩

theorem mem_adjOf {θ : Nat} {ps : List Pair} {v u : Nat} : u ∈ adjOf θ ps v ↔ linked θ ps v u = true := by
  unfold adjOf
  rw [List.mem_filter, mem_nodesOf]
  exact ⟨fun h => h.2, fun h => ⟨(occurs_of_linked h).2, h⟩⟩

theorem nodup_adjOf (θ : Nat) (ps : List Pair) (v : Nat) : (adjOf θ ps v).Nodup := (nodup_nodesOf ps).filter _

/-! ## counting lemmas -/

theorem length_filter_mono {α : Type} (p q : α → Bool) : ∀ (l : List α), (∀ x ∈ l, p x = true → q x = true) →
    (l.filter p).length ≤ (l.filter q).length
  | [], _ => by simp
  | a :: l, h => by
    have ih := length_filter_mono p q l (fun x hx => h x (List.mem_cons_of_mem _ hx))
    have ha := h a (List.mem_cons_self ..)
    by_cases hp : p a = true
    · simp [hp, ha hp]; exact ih
    · by_cases hq : q a = true
      · simp [hp, hq]; omega
      · simp [hp, hq]; exact ih

/-- removing one more vertex `v` lowers the count of live neighbours by exactly one when `v` is a live neighbour -/
theorem length_filter_remove (v : Nat) (p : Nat → Bool) : ∀ (l : List Nat), l.Nodup → v ∈ l → p v = true →
    (l.filter (fun w => p w && (w != v))).length + 1 = (l.filter p).length
  | [], _, h, _ => by simp at h
  | a :: l, hnd, hv, hp => by
    rw [List.nodup_cons] at hnd
    by_cases hav : a = v
    · subst hav
      have : l.filter (fun w => p w && (w != a)) = l.filter p := by
        apply List.filter_congr
        intro x hx
        have : x ≠ a := fun h => hnd.1 (h ▸ hx)
        simp [this]
      simp [hp, this]
    · have hvl : v ∈ l := by
        rcases List.mem_cons.mp hv with h | h
        · exact absurd h.symm hav
        · exact h
      have ih := length_filter_remove v p l hnd.2 hvl hp
      by_cases hpa : p a = true
      · simp [hpa, hav]; omega
      · simp [hpa]; omega

theorem length_filter_remove_not (v : Nat) (p : Nat → Bool) (l : List Nat) (hv : v ∉ l) :
    l.filter (fun w => p w && (w != v)) = l.filter p := by
  apply List.filter_congr
  intro x hx
  have : x ≠ v := fun h => hv (h ▸ hx)
  simp [this]

/-! ## the inner loop: relaxing the neighbours of a removed vertex -/

/-- the three ways a `relax` step can go -/
theorem relax_cases (k : Nat) (rem : List Nat) (s : KState) (u : Nat) :
    (u ∈ rem ∧ relax k rem s u = s) ∨
    (u ∉ rem ∧ s.degree u - 1 < k ∧ u ∉ s.inQueue ∧
      relax k rem s u = { queue := s.queue ++ [u], inQueue := u :: s.inQueue, degree := decr s.degree u }) ∨
    (u ∉ rem ∧ (s.degree u - 1 < k → u ∈ s.inQueue) ∧
      relax k rem s u = { queue := s.queue, inQueue := s.inQueue, degree := decr s.degree u }) := by
  unfold relax
  by_cases hr : u ∈ rem
  · left; exact ⟨hr, by simp [hr]⟩
  · right
    by_cases hd : s.degree u - 1 < k
    · by_cases hn : u ∈ s.inQueue
      · right; exact ⟨hr, fun _ => hn, by simp [hr, hn, decr]⟩
      · left; exact ⟨hr, hd, hn, by simp [hr, hn, hd, decr]⟩
    · right; exact ⟨hr, fun h => absurd h hd, by simp [hr, hd, decr]⟩

/-- what a pass of `relax` over a duplicate-free list does to the three components of the state -/
theorem relax_fold (k : Nat) (rem : List Nat) : ∀ (l : List Nat) (s : KState), l.Nodup →
    (∀ x, ((l.foldl (relax k rem) s).degree x) = if x ∈ l ∧ x ∉ rem then s.degree x - 1 else s.degree x) ∧
    (∀ x, x ∈ (l.foldl (relax k rem) s).inQueue ↔ x ∈ s.inQueue ∨ (x ∈ l ∧ x ∉ rem ∧ s.degree x - 1 < k)) ∧
    (∀ x, x ∈ (l.foldl (relax k rem) s).queue ↔
      x ∈ s.queue ∨ (x ∈ l ∧ x ∉ rem ∧ s.degree x - 1 < k ∧ x ∉ s.inQueue)) ∧
    ((l.foldl (relax k rem) s).queue.length + s.inQueue.length = s.queue.length + (l.foldl (relax k rem) s).inQueue.length) ∧
    (s.inQueue.Nodup → (l.foldl (relax k rem) s).inQueue.Nodup)
  | [], s, _ => by simp
  | u :: l, s, hnd => by
    rw [List.nodup_cons] at hnd
    obtain ⟨hul, hl⟩ := hnd
    obtain ⟨ih1, ih2, ih3, ih4, ih5⟩ := relax_fold k rem l (relax k rem s u) hl
    rw [List.foldl_cons]
    -- one step
    have step_deg : ∀ x, (relax k rem s u).degree x = if x = u ∧ x ∉ rem then s.degree x - 1 else s.degree x := by
      intro x
      rcases relax_cases k rem s u with ⟨hr, he⟩ | ⟨hr, _, _, he⟩ | ⟨hr, _, he⟩ <;> rw [he]
      · split
        · next h => exact absurd (h.1 ▸ hr) h.2
        · rfl
      · by_cases hx : x = u
        · subst hx; simp [decr, hr]
        · simp [decr, hx]
      · by_cases hx : x = u
        · subst hx; simp [decr, hr]
        · simp [decr, hx]
    have step_inq : ∀ x, x ∈ (relax k rem s u).inQueue ↔ x ∈ s.inQueue ∨ (x = u ∧ x ∉ rem ∧ s.degree x - 1 < k) := by
      intro x
      rcases relax_cases k rem s u with ⟨hr, he⟩ | ⟨hr, hd, hn, he⟩ | ⟨hr, hc, he⟩ <;> rw [he]
      · constructor
        · exact Or.inl
        · rintro (h | ⟨rfl, h, _⟩)
          · exact h
          · exact absurd hr h
      · simp only [List.mem_cons]
        constructor
        · rintro (rfl | h)
          · exact .inr ⟨rfl, hr, hd⟩
          · exact .inl h
        · rintro (h | ⟨rfl, _, _⟩)
          · exact .inr h
          · exact .inl rfl
      · constructor
        · exact Or.inl
        · rintro (h | ⟨rfl, _, h⟩)
          · exact h
          · exact hc h
    have step_q : ∀ x, x ∈ (relax k rem s u).queue ↔
        x ∈ s.queue ∨ (x = u ∧ x ∉ rem ∧ s.degree x - 1 < k ∧ x ∉ s.inQueue) := by
      intro x
      rcases relax_cases k rem s u with ⟨hr, he⟩ | ⟨hr, hd, hn, he⟩ | ⟨hr, hc, he⟩ <;> rw [he]
      · constructor
        · exact Or.inl
        · rintro (h | ⟨rfl, h, _⟩)
          · exact h
          · exact absurd hr h
      · simp only [List.mem_append, List.mem_singleton]
        constructor
        · rintro (h | rfl)
          · exact .inl h
          · exact .inr ⟨rfl, hr, hd, hn⟩
        · rintro (h | ⟨rfl, _, _⟩)
          · exact .inl h
          · exact .inr rfl
      · constructor
        · exact Or.inl
        · rintro (h | ⟨rfl, _, h, h'⟩)
          · exact h
          · exact absurd (hc h) h'
    have step_len : (relax k rem s u).queue.length + s.inQueue.length = s.queue.length + (relax k rem s u).inQueue.length := by
      rcases relax_cases k rem s u with ⟨hr, he⟩ | ⟨hr, hd, hn, he⟩ | ⟨hr, hc, he⟩ <;> rw [he]
      simp; omega
    have step_nd : s.inQueue.Nodup → (relax k rem s u).inQueue.Nodup := by
      intro h
      rcases relax_cases k rem s u with ⟨hr, he⟩ | ⟨hr, hd, hn, he⟩ | ⟨hr, hc, he⟩ <;> rw [he]
      · exact h
      · exact List.nodup_cons.mpr ⟨hn, h⟩
      · exact h
    refine ⟨?_, ?_, ?_, ?_, fun h => ih5 (step_nd h)⟩
    · intro x
      rw [ih1 x, step_deg x]
      by_cases hxu : x = u
      · subst hxu
        by_cases hr : x ∈ rem <;> simp [hul, hr]
      · simp [hxu]
    · intro x
      rw [ih2 x, step_inq x, step_deg x]
      by_cases hxu : x = u
      · subst hxu
        simp only [hul, false_and, or_false, List.mem_cons, true_and]
      · simp [hxu]
    · intro x
      rw [ih3 x, step_q x, step_deg x, step_inq x]
      by_cases hxu : x = u
      · subst hxu
        simp only [hul, false_and, or_false, List.mem_cons, true_and]
      · simp [hxu]
    · omega

/-! ## the outer loop -/

theorem kcoreLoop_nil (k : Nat) (nbrs : Nat → List Nat) (f : Nat) (inQ : List Nat) (deg : Nat → Nat) (rem : List Nat) :
    kcoreLoop k nbrs f ⟨[], inQ, deg⟩ rem = some rem := by
  cases f <;> rfl

theorem kcoreLoop_zero (k : Nat) (nbrs : Nat → List Nat) (v : Nat) (q inQ : List Nat) (deg : Nat → Nat) (rem : List Nat) :
    kcoreLoop k nbrs 0 ⟨v :: q, inQ, deg⟩ rem = none := rfl

theorem kcoreLoop_succ (k : Nat) (nbrs : Nat → List Nat) (f v : Nat) (q inQ : List Nat) (deg : Nat → Nat) (rem : List Nat) :
    kcoreLoop k nbrs (f + 1) ⟨v :: q, inQ, deg⟩ rem =
      if rem.contains v then kcoreLoop k nbrs f ⟨q, inQ, deg⟩ rem
      else kcoreLoop k nbrs f ((nbrs v).foldl (relax k (v :: rem)) ⟨q, inQ, deg⟩) (v :: rem) := rfl

/-- number of neighbours of `u` that are not removed -/
def cnt (nbrs : Nat → List Nat) (rem : List Nat) (u : Nat) : Nat := ((nbrs u).filter (fun w => !rem.contains w)).length

/-- the neighbour lists describe a simple undirected graph -/
structure Simple (nbrs : Nat → List Nat) : Prop where
  nd : ∀ v, (nbrs v).Nodup
  symm : ∀ u v, u ∈ nbrs v → v ∈ nbrs u
  irr : ∀ v, v ∉ nbrs v

theorem cnt_cons {nbrs : Nat → List Nat} (hg : Simple nbrs) {rem : List Nat} {v : Nat} (hv : v ∉ rem) (u : Nat) :
    cnt nbrs (v :: rem) u = if v ∈ nbrs u then cnt nbrs rem u - 1 else cnt nbrs rem u := by
  unfold cnt
  have e : (nbrs u).filter (fun w => !(v :: rem).contains w) = (nbrs u).filter (fun w => (!rem.contains w) && (w != v)) := by
    apply List.filter_congr
    intro x _
    by_cases hxv : x = v
    · subst hxv; simp
    · simp [hxv, Bool.and_comm]
  rw [e]
  split
  · next h =>
    have := length_filter_remove v (fun w => !rem.contains w) (nbrs u) (hg.nd u) h (by simpa using hv)
    omega
  · next h => rw [length_filter_remove_not v _ _ h]

/-- the loop invariant; `S` is any vertex set in which every vertex has at least `k` neighbours -/
structure Inv (k : Nat) (nbrs : Nat → List Nat) (V S : List Nat) (s : KState) (rem : List Nat) : Prop where
  deg : ∀ u, u ∉ rem → s.degree u = cnt nbrs rem u
  low : ∀ u ∈ V, u ∉ rem → s.degree u < k → u ∈ s.inQueue
  inq : ∀ u ∈ s.inQueue, u ∉ rem → u ∈ s.queue
  que : ∀ u ∈ s.queue, u ∉ rem → s.degree u < k
  core : ∀ u ∈ S, u ∉ rem

/-- **Partial correctness of the peeling loop**, for every queue order and every neighbour order: when it returns, every
vertex outside the returned set has at least `k` neighbours outside it, and no vertex of a set `S` in which everybody
has `k` neighbours was removed. -/
theorem kcoreLoop_spec {k : Nat} {nbrs : Nat → List Nat} (hg : Simple nbrs) {V S : List Nat}
    (hS : ∀ u ∈ S, k ≤ ((nbrs u).filter (fun w => S.contains w)).length) :
    ∀ (f : Nat) (s : KState) (rem R : List Nat), kcoreLoop k nbrs f s rem = some R → Inv k nbrs V S s rem →
      (∀ u ∈ V, u ∉ R → k ≤ cnt nbrs R u) ∧ (∀ u ∈ S, u ∉ R) ∧ (∀ u ∈ rem, u ∈ R)
  | f, ⟨[], inQ, deg⟩, rem, R, h, inv => by
    rw [kcoreLoop_nil] at h
    cases h
    refine ⟨fun u huV hu => ?_, inv.core, fun _ h => h⟩
    rw [← inv.deg u hu]
    by_contra hlt
    have h1 := inv.low u huV hu (by omega)
    have h2 := inv.inq u h1 hu
    simp at h2
  | 0, ⟨v :: q, inQ, deg⟩, rem, R, h, _ => by rw [kcoreLoop_zero] at h; cases h
  | f + 1, ⟨v :: q, inQ, deg⟩, rem, R, h, inv => by
    rw [kcoreLoop_succ] at h
    by_cases hv : v ∈ rem
    · have hc : rem.contains v = true := by simpa using hv
      rw [if_pos hc] at h
      refine kcoreLoop_spec hg hS f _ rem R h ⟨inv.deg, inv.low, ?_, ?_, inv.core⟩
      · intro u hu hur
        have := inv.inq u hu hur
        rcases List.mem_cons.mp this with rfl | h'
        · exact absurd hv hur
        · exact h'
      · intro u hu hur
        exact inv.que u (List.mem_cons_of_mem _ hu) hur
    · have hc : ¬ (rem.contains v = true) := by simpa using hv
      rw [if_neg hc] at h
      obtain ⟨f1, f2, f3, _, _⟩ := relax_fold k (v :: rem) (nbrs v) ⟨q, inQ, deg⟩ (hg.nd v)
      dsimp only at f1 f2 f3
      have hdv : deg v < k := inv.que v (List.mem_cons_self ..) hv
      have hvS : v ∉ S := by
        intro hvs
        have h1 := hS v hvs
        have h2 : ((nbrs v).filter (fun w => S.contains w)).length ≤ cnt nbrs rem v := by
          unfold cnt
          apply length_filter_mono
          intro x _ hx
          have : x ∈ S := by simpa using hx
          simpa using inv.core x this
        have h3 := inv.deg v hv
        simp only at h3
        omega
      suffices inv' : Inv k nbrs V S ((nbrs v).foldl (relax k (v :: rem)) ⟨q, inQ, deg⟩) (v :: rem) by
        obtain ⟨r1, r2, r3⟩ := kcoreLoop_spec hg hS f _ (v :: rem) R h inv'
        exact ⟨r1, r2, fun u hu => r3 u (List.mem_cons_of_mem _ hu)⟩
      refine ⟨?_, ?_, ?_, ?_, ?_⟩
      · -- degree = live neighbours
        intro u hu
        have hur : u ∉ rem := fun h => hu (List.mem_cons_of_mem _ h)
        rw [f1 u, cnt_cons hg hv u]
        have := inv.deg u hur
        simp only at this
        by_cases hun : u ∈ nbrs v
        · rw [if_pos ⟨hun, hu⟩, if_pos (hg.symm u v hun), this]
        · have : v ∉ nbrs u := fun h => hun (hg.symm v u h)
          rw [if_neg (fun h => hun h.1), if_neg this]; assumption
      · -- low degree ⇒ queued once
        intro u huV hu hlow
        have hur : u ∉ rem := fun h => hu (List.mem_cons_of_mem _ h)
        rw [f1 u] at hlow
        rw [f2 u]
        by_cases hun : u ∈ nbrs v
        · rw [if_pos ⟨hun, hu⟩] at hlow
          exact .inr ⟨hun, hu, hlow⟩
        · rw [if_neg (fun h => hun h.1)] at hlow
          exact .inl (inv.low u huV hur hlow)
      · -- queued and alive ⇒ still in the queue
        intro u hu hur'
        have hur : u ∉ rem := fun h => hur' (List.mem_cons_of_mem _ h)
        have huv : u ≠ v := fun h => hur' (h ▸ List.mem_cons_self ..)
        rw [f3 u]
        by_cases hin : u ∈ inQ
        · have := inv.inq u hin hur
          rcases List.mem_cons.mp this with h' | h'
          · exact absurd h' huv
          · exact .inl h'
        · rcases (f2 u).mp hu with h' | ⟨h1, h2, h3⟩
          · exact absurd h' hin
          · exact .inr ⟨h1, h2, h3, hin⟩
      · -- in the queue and alive ⇒ low degree
        intro u hu hur'
        have hur : u ∉ rem := fun h => hur' (List.mem_cons_of_mem _ h)
        rw [f1 u]
        rcases (f3 u).mp hu with h' | ⟨h1, h2, h3, _⟩
        · have := inv.que u (List.mem_cons_of_mem _ h') hur
          simp only at this ⊢
          split <;> omega
        · rw [if_pos ⟨h1, h2⟩]; exact h3
      · intro u hu hmem'
        rcases List.mem_cons.mp hmem' with rfl | h'
        · exact hvS hu
        · exact inv.core u hu h'

/-- **Termination within the fuel**: every vertex enters the queue at most once. -/
theorem kcoreLoop_total {k : Nat} {nbrs : Nat → List Nat} (V : List Nat) (hV : ∀ v, ∀ u ∈ nbrs v, u ∈ V)
    (hnd : ∀ v, (nbrs v).Nodup) :
    ∀ (f : Nat) (s : KState) (rem : List Nat), s.inQueue.Nodup → (∀ u ∈ s.inQueue, u ∈ V) → V.Nodup →
      s.queue.length + V.length ≤ f + s.inQueue.length → ∃ R, kcoreLoop k nbrs f s rem = some R
  | f, ⟨[], inQ, deg⟩, rem, _, _, _, _ => ⟨rem, kcoreLoop_nil ..⟩
  | 0, ⟨v :: q, inQ, deg⟩, rem, h1, h2, h3, h4 => by
    have : inQ.length ≤ V.length := (List.subperm_of_subset h1 h2).length_le
    simp at h4; omega
  | f + 1, ⟨v :: q, inQ, deg⟩, rem, h1, h2, h3, h4 => by
    rw [kcoreLoop_succ]
    split
    · exact kcoreLoop_total V hV hnd f _ rem h1 h2 h3 (by simp at h4 ⊢; omega)
    · obtain ⟨_, f2, _, f4, f5⟩ := relax_fold k (v :: rem) (nbrs v) ⟨q, inQ, deg⟩ (hnd v)
      refine kcoreLoop_total V hV hnd f _ (v :: rem) (f5 h1) ?_ h3 ?_
      · intro u hu
        rcases (f2 u).mp hu with h | ⟨h, _, _⟩
        · exact h2 u h
        · exact hV v u h
      · simp at h4 f4 ⊢; omega

/-! ## the specification's `peel` -/

theorem degIn_mono {θ : Nat} {ps : List Pair} {S R : List Nat} (hS : S.Nodup) (hsub : ∀ x ∈ S, x ∈ R) (u : Nat) :
    degIn θ ps S u ≤ degIn θ ps R u := by
  unfold degIn
  apply (List.subperm_of_subset (hS.filter _) _).length_le
  intro x hx
  obtain ⟨h1, h2⟩ := List.mem_filter.mp hx
  exact List.mem_filter.mpr ⟨hsub x h1, h2⟩

theorem peelStep_length {θ k : Nat} {ps : List Pair} (R : List Nat) (h : peelStep θ k ps R ≠ R) :
    (peelStep θ k ps R).length < R.length := by
  have hsub : (peelStep θ k ps R).Sublist R := by unfold peelStep; exact List.filter_sublist
  rcases Nat.lt_or_ge (peelStep θ k ps R).length R.length with h' | h'
  · exact h'
  · exact absurd (hsub.eq_of_length_le h') h

/-- the specification's peeling never runs out of fuel -/
theorem peel_total (θ k : Nat) (ps : List Pair) : ∀ (f : Nat) (R : List Nat), R.length ≤ f → ∃ S, peel θ k ps f R = some S
  | 0, R, h => by
    have : R = [] := List.eq_nil_of_length_eq_zero (by omega)
    subst this
    exact ⟨[], by simp [peel, peelStep]⟩
  | f + 1, R, h => by
    unfold peel
    by_cases hc : peelStep θ k ps R = R
    · exact ⟨R, by simp [hc]⟩
    · have := peelStep_length R hc
      obtain ⟨S, hS⟩ := peel_total θ k ps f (peelStep θ k ps R) (by omega)
      exact ⟨S, by simp [hc, hS]⟩

/-- the fixed point of `peel` contains every set in which every vertex has `k` neighbours -/
theorem peel_max {θ k : Nat} {ps : List Pair} {S : List Nat} (hS : S.Nodup) (hk : ∀ u ∈ S, k ≤ degIn θ ps S u) :
    ∀ (f : Nat) (R T : List Nat), peel θ k ps f R = some T → (∀ u ∈ S, u ∈ R) → ∀ u ∈ S, u ∈ T := by
  have step : ∀ R : List Nat, (∀ u ∈ S, u ∈ R) → ∀ u ∈ S, u ∈ peelStep θ k ps R := by
    intro R hR u hu
    unfold peelStep
    refine List.mem_filter.mpr ⟨hR u hu, ?_⟩
    simp only [decide_eq_true_eq]
    exact Nat.le_trans (hk u hu) (degIn_mono hS hR u)
  intro f
  induction f with
  | zero =>
    intro R T h hR
    unfold peel at h
    split at h
    · cases h; exact hR
    · cases h
  | succ f ih =>
    intro R T h hR
    unfold peel at h
    split at h
    · cases h; exact hR
    · exact ih _ T h (step R hR)

/-! ## the mirror against the specification -/

/-- no pair at or above the threshold joins a fragment with itself -/
def NoSelf (θ : Nat) (ps : List Pair) : Prop := ∀ p ∈ ps, θ ≤ p.sim → p.u ≠ p.v

theorem linked_ne {θ : Nat} {ps : List Pair} (hns : NoSelf θ ps) {u v : Nat} (h : linked θ ps u v = true) : u ≠ v := by
  unfold linked at h
  rw [List.any_eq_true] at h
  obtain ⟨p, hp, h⟩ := h
  simp only [Bool.and_eq_true, Bool.or_eq_true, beq_iff_eq, decide_eq_true_eq] at h
  have := hns p hp h.2
  rcases h.1 with ⟨h1, h2⟩ | ⟨h1, h2⟩
  · rw [← h1, ← h2]; exact this
  · rw [← h1, ← h2]; exact this.symm

theorem linked_lt {n θ : Nat} {ps : List Pair} (hr : InRange n θ ps) {u v : Nat} (h : linked θ ps u v = true) : u < n ∧ v < n := by
  unfold linked at h
  rw [List.any_eq_true] at h
  obtain ⟨p, hp, h⟩ := h
  simp only [Bool.and_eq_true, Bool.or_eq_true, beq_iff_eq, decide_eq_true_eq] at h
  have := hr p hp h.2
  rcases h.1 with ⟨h1, h2⟩ | ⟨h1, h2⟩
  · rw [← h1, ← h2]; exact this
  · rw [← h1, ← h2]; exact this.symm

theorem simple_of_perm {θ : Nat} {ps : List Pair} (hns : NoSelf θ ps) {nbrs : Nat → List Nat}
    (hn : ∀ v, (nbrs v).Perm (adjOf θ ps v)) : Simple nbrs where
  nd v := (hn v).nodup_iff.mpr (nodup_adjOf θ ps v)
  symm u v h := by
    have := mem_adjOf.mp ((hn v).mem_iff.mp h)
    exact (hn u).mem_iff.mpr (mem_adjOf.mpr (linked_symm this))
  irr v h := linked_ne hns (mem_adjOf.mp ((hn v).mem_iff.mp h)) rfl

/-- the starting set of the specification -/
def specStart (n : Nat) (ps : List Pair) : List Nat := (List.range n).filter (occurs ps)

/-- **The peeling loop terminates within its fuel**, for every queue order and every neighbour order. -/
theorem kcoreRemovedWith_total (θ k : Nat) (ps : List Pair) (q0 : List Nat) (nbrs : Nat → List Nat)
    (hq : q0.Perm (lowDegree θ k ps)) (hn : ∀ v, (nbrs v).Perm (adjOf θ ps v)) :
    ∃ rem, kcoreRemovedWith θ k ps q0 nbrs = some rem := by
  unfold kcoreRemovedWith
  have hq0 : q0.Nodup := hq.nodup_iff.mpr ((nodup_nodesOf ps).filter _)
  refine kcoreLoop_total (nodesOf ps) ?_ (fun v => (hn v).nodup_iff.mpr (nodup_adjOf θ ps v)) _ _ [] hq0 ?_ (nodup_nodesOf ps) (by simp; omega)
  · intro v u hu
    exact mem_nodesOf.mpr (occurs_of_linked (mem_adjOf.mp ((hn v).mem_iff.mp hu))).2
  · intro u hu
    have := hq.mem_iff.mp hu
    unfold lowDegree at this
    exact (List.mem_filter.mp this).1

/-- **What remains is the largest set in which everybody has `k` neighbours** (in the vocabulary of the mirror):
every remaining fragment has at least `k` remaining neighbours, and every fragment of a set `S` whose members have
`k` neighbours inside `S` remains. -/
theorem kcoreRemovedWith_spec {θ k : Nat} {ps : List Pair} {q0 : List Nat} {nbrs : Nat → List Nat} (hns : NoSelf θ ps)
    (hq : q0.Perm (lowDegree θ k ps)) (hn : ∀ v, (nbrs v).Perm (adjOf θ ps v)) {rem : List Nat}
    (h : kcoreRemovedWith θ k ps q0 nbrs = some rem) :
    (∀ u ∈ nodesOf ps, u ∉ rem → k ≤ cnt nbrs rem u) ∧
    (∀ S : List Nat, (∀ u ∈ S, k ≤ ((nbrs u).filter (fun w => S.contains w)).length) → ∀ u ∈ S, u ∉ rem) := by
  have hg := simple_of_perm hns hn
  unfold kcoreRemovedWith at h
  have inv0 : ∀ S, Inv k nbrs (nodesOf ps) S ⟨q0, q0, fun v => (adjOf θ ps v).length⟩ [] := by
    intro S
    refine ⟨?_, ?_, fun u hu _ => hu, ?_, fun _ _ => List.not_mem_nil⟩
    · intro u _
      unfold cnt
      simp only [List.contains_nil, Bool.not_false, List.filter_true]
      exact (hn u).length_eq.symm
    · intro u huV _ hlow
      refine hq.mem_iff.mpr ?_
      unfold lowDegree
      exact List.mem_filter.mpr ⟨huV, by simpa using hlow⟩
    · intro u hu _
      have := hq.mem_iff.mp hu
      unfold lowDegree at this
      simpa using (List.mem_filter.mp this).2
  refine ⟨(kcoreLoop_spec hg (S := []) (by simp) _ _ _ _ h (inv0 [])).1, ?_⟩
  intro S hS
  exact (kcoreLoop_spec hg hS _ _ _ _ h (inv0 S)).2.1

/-- **The queue computes the fixed point of `peel`.** For every queue order and neighbour order, a fragment `< n`
remains after the work-queue loop iff it belongs to the set the specification's round-by-round peeling stabilises at. -/
theorem kcore_queue_eq_peel {n θ k : Nat} {ps : List Pair} {q0 : List Nat} {nbrs : Nat → List Nat}
    (hr : InRange n θ ps) (hns : NoSelf θ ps)
    (hq : q0.Perm (lowDegree θ k ps)) (hn : ∀ v, (nbrs v).Perm (adjOf θ ps v)) {rem R : List Nat}
    (h : kcoreRemovedWith θ k ps q0 nbrs = some rem) (hp : peel θ k ps (n + 1) (specStart n ps) = some R)
    (u : Nat) (hu : u < n) : remaining ps rem u = true ↔ u ∈ R := by
  obtain ⟨hdeg, hmax⟩ := kcoreRemovedWith_spec hns hq hn h
  obtain ⟨hfix, hsub, hnd⟩ := peel_fix _ _ R hp
  have hR0nd : (specStart n ps).Nodup := List.nodup_range.filter _
  have hRnd : R.Nodup := hnd hR0nd
  have mem_start : ∀ x, x ∈ specStart n ps ↔ x < n ∧ x ∈ nodesOf ps := by
    intro x; unfold specStart; rw [List.mem_filter, List.mem_range, mem_nodesOf]
  have mem_nbrs : ∀ v x, x ∈ nbrs v ↔ linked θ ps v x = true := fun v x => by rw [(hn v).mem_iff, mem_adjOf]
  -- the fixed point of peel survives the loop
  have hRrem : ∀ x ∈ R, x ∉ rem := by
    apply hmax R
    intro x hx
    have hxk : k ≤ degIn θ ps R x := by
      have : x ∈ peelStep θ k ps R := by rw [hfix]; exact hx
      unfold peelStep at this
      simpa using (List.mem_filter.mp this).2
    refine Nat.le_trans hxk ?_
    unfold degIn
    apply (List.subperm_of_subset (hRnd.filter _) _).length_le
    intro y hy
    obtain ⟨hyR, hy2⟩ := List.mem_filter.mp hy
    simp only [Bool.and_eq_true] at hy2
    exact List.mem_filter.mpr ⟨(mem_nbrs x y).mpr hy2.2, by simpa using hyR⟩
  -- what survives the loop is a set in which everybody has k neighbours
  let A := (specStart n ps).filter (fun x => !rem.contains x)
  have hAnd : A.Nodup := hR0nd.filter _
  have memA : ∀ x, x ∈ A ↔ (x < n ∧ x ∈ nodesOf ps) ∧ x ∉ rem := by
    intro x; show x ∈ List.filter _ _ ↔ _; rw [List.mem_filter, mem_start]; simp
  have hAk : ∀ x ∈ A, k ≤ degIn θ ps A x := by
    intro x hx
    obtain ⟨⟨_, hxV⟩, hxr⟩ := (memA x).mp hx
    refine Nat.le_trans (hdeg x hxV hxr) ?_
    unfold cnt degIn
    apply (List.subperm_of_subset (((simple_of_perm hns hn).nd x).filter _) _).length_le
    intro y hy
    obtain ⟨hy1, hy2⟩ := List.mem_filter.mp hy
    have hl := (mem_nbrs x y).mp hy1
    have hyr : y ∉ rem := by simpa using hy2
    refine List.mem_filter.mpr ⟨(memA y).mpr ⟨⟨(linked_lt hr hl).2, mem_nodesOf.mpr (occurs_of_linked hl).2⟩, hyr⟩, ?_⟩
    simp only [Bool.and_eq_true, bne_iff_ne, ne_eq]
    exact ⟨(linked_ne hns hl).symm, hl⟩
  have hAR : ∀ x ∈ A, x ∈ R := peel_max hAnd hAk _ _ R hp (fun x hx => (List.mem_filter.mp hx).1)
  unfold remaining
  simp only [Bool.and_eq_true, List.contains_iff_mem, Bool.not_eq_true', ← Bool.not_eq_true]
  constructor
  · rintro ⟨h1, h2⟩
    exact hAR u ((memA u).mpr ⟨⟨hu, h1⟩, h2⟩)
  · intro huR
    exact ⟨((mem_start u).mp (hsub u huR)).2, hRrem u huR⟩

/-- the link graphs restricted by two vertex sets that agree below `n` have the same edges -/
theorem linkGraph_congr {n θ : Nat} {ps : List Pair} (hr : InRange n θ ps) {keep₁ keep₂ : Nat → Bool}
    (h : ∀ u, u < n → keep₁ u = keep₂ u) : linkGraph n θ ps keep₁ = linkGraph n θ ps keep₂ := by
  unfold linkGraph
  congr 2
  apply List.filter_congr
  intro p hp
  by_cases hθ : θ ≤ p.sim
  · obtain ⟨h1, h2⟩ := hr p hp hθ
    rw [h _ h1, h _ h2]
  · simp [hθ]

/-- **Mirror = specification (k-core mode).** For every order of the work queue and every order of the neighbour maps, the
mirror returns exactly the groups of the specification model. -/
theorem kcoreGroupsWith_eq {n θ k : Nat} {ps : List Pair} {q0 : List Nat} {nbrs : Nat → List Nat}
    (hr : InRange n θ ps) (hns : NoSelf θ ps)
    (hq : q0.Perm (lowDegree θ k ps)) (hn : ∀ v, (nbrs v).Perm (adjOf θ ps v)) :
    kcoreGroupsWith n θ k ps q0 nbrs = kcoreGroups n θ k ps := by
  obtain ⟨rem, hrem⟩ := kcoreRemovedWith_total θ k ps q0 nbrs hq hn
  obtain ⟨R, hR⟩ := peel_total θ k ps (n + 1) (specStart n ps) (by
    unfold specStart
    exact Nat.le_trans (List.length_filter_le _ _) (by simp))
  unfold kcoreGroupsWith kcoreGroups
  unfold specStart at hR
  rw [hrem, hR]
  simp only
  congr 1
  apply linkGraph_congr hr
  intro u hu
  have := kcore_queue_eq_peel hr hns hq hn hrem hR u hu
  rw [Bool.eq_iff_iff, this]
  simp

end PV.GroupingAlgo
