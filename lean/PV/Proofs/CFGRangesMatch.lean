import PV.Proofs.CFGRangesDefs
/-!
Range-level soundness — `match` / `case`.
-/
namespace PV.CFGSound
open PV.CFG

section main
variable {E : List Edge} {N : Nat}

/-! ### the case clauses -/
/-- the case clauses of one `match`: `a` is the block that was current when the `match` started (the anchor), `mb` the block of
the subject, `merge` the (record-free) merge block; `[n0, hi)` is a zone of blocks dominated by `a` that contains every block
allocated by the call. -/
theorem cases_rq (ih : ∀ ss, sizeL ss ≤ N → RQL E ss) (il : Bool) (a mb merge n0 hi : Nat)
    (hz : ∀ b, n0 ≤ b → b < hi → R E b → R E a) (hmb : R E a → R E mb) :
    ∀ (cs : List Stmt) (st : St) (p : Nat), sizeL cs ≤ N → WF st → okCasesC il cs = true → mb < st.next → merge < st.next →
      n0 ≤ st.next → (procCases st cs mb merge).next ≤ hi →
      Fut E st.next (procCases st cs mb merge).next (procCases st cs mb merge) →
      wfL p cs = true → SI E st.stmts a p → GZ st.stmts → NoRec st.stmts merge →
      (∃ ns, (procCases st cs mb merge).stmts = ns ++ st.stmts ∧ ∀ r ∈ ns, Bd p (posL p cs) r) ∧
      (procCases st cs mb merge).stmts.Pairwise (Rel E) ∧ GZ (procCases st cs mb merge).stmts ∧
      NoRec (procCases st cs mb merge).stmts merge := by
  intro cs
  induction cs with
  | nil =>
    intro st p _ _ _ _ _ _ _ _ _ hsi hgz hnr
    rw [procCases_nil]
    exact ⟨⟨[], rfl, fun r hr => by cases hr⟩, hsi.pw, hgz, hnr⟩
  | cons x cs ihc =>
    intro st p hsz w hok hmbl hml hn0 hhi hf hwf hsi hgz hnr
    obtain ⟨s, e, b, rfl, hokb, hokc⟩ := okCasesC_cons hok
    have hszs : sizeL b ≤ N ∧ sizeL cs ≤ N := by simp only [sizeL, Stmt.size] at hsz; omega
    rw [wfL_cons] at hwf
    simp only [Stmt.span] at hwf
    simp only [Bool.and_eq_true] at hwf
    obtain ⟨⟨hps, hwc⟩, hwr⟩ := hwf
    have hps : p ≤ s := of_decide_eq_true hps
    rw [wfS_case] at hwc
    simp only [Bool.and_eq_true, decide_eq_true_eq] at hwc
    obtain ⟨⟨hse, hwb⟩, hpe⟩ := hwc
    rw [posL_cons]
    simp only [Stmt.span]
    rw [procCases_case] at hf hhi ⊢
    simp only at hf hhi ⊢
    have hcur := w.cur
    have hp1 := hsi.pos
    have hc : Own st.cur 0 st.cur := .inl rfl
    have i0 : Inv st.cur 0 st st := Inv.refl w hc
    have i2 := ((i0.bump.edge (a := mb) (b := st.next) (t := .condT) (.inr (Nat.zero_le _) : Own st.cur 0 mb) (by ob) (by ob)).setCur
      (x := st.next) (by ob) (by ob)).add (b := st.next) (p := s) (q := e) (ty := .other) (by ob) (by ob)
    obtain ⟨j, sm⟩ := procList_frame b _ i2.wf st.cur 0 i2.own (Nat.zero_le _)
    obtain ⟨j', _⟩ := procList_frame b _ i2.wf st.next (st.next + 1) (.inl rfl) (by ob)
    have hjn := j.next_le
    have k := i2.trans j
    have hk := k.wf.cur
    have k2 := k.edgeUnlessExit (b := merge) (t := .normal) k.own hk (by ob)
    have hctx : CtxLt ((procList ((setCur ((bump st).edge mb st.next .condT) st.next).add st.next s e .other) b).edgeUnlessExit
        (procList ((setCur ((bump st).edge mb st.next .condT) st.next).add st.next s e .other) b).cur merge .normal) (st.next + 1) :=
      (w.ctxLt (m := st.next + 1) (by omega)).of_eq (by simp [sm.loops]) (by simp [sm.excs])
    have hb0 := ih b hszs.1 il _ (s + 1) i2.wf hokb
    have hedge : (mb, st.next, ETy.condT) ∈ (procList ((setCur ((bump st).edge mb st.next .condT) st.next).add st.next s e .other) b).edges :=
      j.sub.1 _ (by simp)
    generalize procList _ b = s1 at *
    obtain ⟨j3, sm3⟩ := cases_frame (c := st.cur) (n := 0) (frame_all N).1 (frame_all N).2 cs _ mb merge hszs.2 k2.wf (.inr (Nat.zero_le _))
      (Nat.zero_le _) (.inr (Nat.zero_le _)) (by ob) (by ob)
    have hjn3 := j3.next_le
    have fb := ((hf.mono (lo' := st.next + 1) (hi' := s1.next) (by omega) (by ob)).back_TI
      (procCases_target cs _ mb merge k2.wf (by ob) (by ob) _ (TG.zone hctx (by have := w.two; omega) (by ob)) (.inl (by omega)))).back_eue (.inl (by omega))
    -- the header record of the case clause
    have hlt : st.next < hi := by ob
    have hbw : R E st.next → R E a := hz _ hn0 hlt
    have hfw : R E a → R E st.next := fun hr => R.step (hmb hr) (fb.mem hedge)
    have si1 := hsi.cons (b := st.next) (e := e) (ty := .other) hps hbw hfw
    have si2 := si1.anchor (a' := st.next) hbw
    have gc1 : GC ({ blk := st.next, s := s, e := e, ty := .other } :: st.stmts) st.next :=
      GC.hdr hgz (NoRec.of_wf w (Nat.le_refl _)) (by omega)
    have h := hb0 (fb.mono (by ob) (Nat.le_refl _)) hwb si2 gc1
    have hpg := posL_ge b _ hwb
    have hpr := posL_ge cs _ hwr
    have si3 : SI E s1.stmts a (e + 1) := h.si si1 (by omega) (by omega)
    have nr1 : NoRec s1.stmts merge := NoRec.inv j' (by omega) (by omega)
      (show NoRec ({ blk := st.next, s := s, e := e, ty := .other } :: st.stmts) merge from NoRec.cons (by omega) hnr)
    obtain ⟨⟨ns2, e2, b2⟩, pw2, gz2, nr2⟩ := ihc (s1.edgeUnlessExit s1.cur merge .normal) (e + 1) hszs.2 k2.wf hokc (by ob) (by ob) (by ob) hhi
      (hf.mono (by ob) (Nat.le_refl _)) hwr (by rw [edgeUnlessExit_stmts]; exact si3) (by rw [edgeUnlessExit_stmts]; exact h.gc.gz)
      (by rw [edgeUnlessExit_stmts]; exact nr1)
    obtain ⟨ns1, e1, b1⟩ := h.ext
    refine ⟨⟨ns2 ++ ns1 ++ [{ blk := st.next, s := s, e := e, ty := .other }], ?_, ?_⟩, pw2, gz2, nr2⟩
    · rw [e2, edgeUnlessExit_stmts, e1]; simp
    · intro r hr
      rcases List.mem_append.mp hr with hr | hr
      · rcases List.mem_append.mp hr with hr | hr
        · exact (b2 r hr).mono (by omega) (Nat.le_refl _)
        · exact (b1 r hr).mono (by omega) (by omega)
      · rw [List.mem_singleton.mp hr]; exact .inr ⟨hps, hse, by simp only; omega⟩

/-! ### match -/
theorem match_rq (ih : ∀ ss, sizeL ss ≤ N → RQL E ss) (cases : List Stmt) (hsz : sizeL cases ≤ N) (s e : Nat) :
    RQS E (.match_ s e cases) := by
  intro il st p w hok hf hwf hp hsi hgc
  rw [okSC_match] at hok
  rw [wfS_match] at hwf
  simp only [Bool.and_eq_true, decide_eq_true_eq] at hwf
  obtain ⟨⟨hse, hwb⟩, hpe⟩ := hwf
  simp only [Stmt.span] at hp ⊢
  obtain ⟨iw, _⟩ := procStmt_frame (.match_ s e cases) st w st.cur st.next (Or.inl rfl) (Nat.le_refl _)
  have hz := zoneR w iw hf
  rw [procStmt_match, procMatch_eq] at hf hz ⊢
  have hcur := w.cur
  have hp1 := hsi.pos
  have hc : Own st.cur st.next st.cur := .inl rfl
  have i0 : Inv st.cur st.next st st := Inv.refl w hc
  have i1 := ((i0.bump.edge (a := st.cur) (b := st.next) (t := .normal) hc (by ob) (by ob)).add (b := st.next) (p := s) (q := e)
    (ty := .other) (by ob) (by ob)).bump
  have gz1 : GZ ({ blk := st.next, s := s, e := e, ty := .other } :: st.stmts) := hgc.gz.add_fresh (NoRec.of_wf w (Nat.le_refl _))
  have nr1 : NoRec ({ blk := st.next, s := s, e := e, ty := .other } :: st.stmts) (st.next + 1) :=
    NoRec.cons (by omega) (NoRec.of_wf w (by omega))
  rcases cases with _ | ⟨c, cs⟩
  · simp only [List.isEmpty_nil, Bool.not_true, Bool.false_eq_true, ↓reduceIte] at hf hz ⊢
    simp only [setCur_next, edge_next, bump_next, add_next] at hz
    have hfw : R E st.cur → R E st.next := fun hr => R.step hr (hf.mem (e := (st.cur, st.next, .normal)) (by simp))
    have si1 := hsi.cons (b := st.next) (e := e) (ty := .other) hp (hz _ (.inr (Nat.le_refl _)) (by omega)) hfw
    refine ⟨⟨[{ blk := st.next, s := s, e := e, ty := .other }], ?_, ?_⟩, ?_, ?_⟩
    · simp
    · intro r hr
      rw [List.mem_singleton.mp hr]; exact .inr ⟨hp, hse, by simp only; omega⟩
    · simp only [setCur_stmts, edge_stmts, bump_stmts, add_stmts]
      exact si1.pw
    · simp only [setCur_stmts, edge_stmts, bump_stmts, add_stmts, setCur_cur]
      exact GC.fresh gz1 nr1
  · simp only [List.isEmpty_cons, Bool.not_false, ↓reduceIte] at hf hz ⊢
    simp only [setCur_next, edge_next] at hz
    obtain ⟨j, _⟩ := cases_frame (c := st.cur) (n := st.next) (frame_all N).1 (frame_all N).2 (c :: cs) _ st.next (st.next + 1) hsz i1.wf i1.own
      (by ob) (by ob) (by ob) (by ob)
    have hjn := j.next_le
    have f := (hf.mono (lo' := st.next + 2) (by omega) (Nat.le_refl _)).back_setCur.back_edge (.inl (by omega))
    have hfw : R E st.cur → R E st.next := fun hr => R.step hr (f.mem (j.sub.1 (st.cur, st.next, .normal) (by simp)))
    have hbw : R E st.next → R E st.cur := hz _ (.inr (Nat.le_refl _)) (by ob)
    have si1 := hsi.cons (b := st.next) (e := e) (ty := .other) hp hbw hfw
    have hpg := posL_ge (c :: cs) _ hwb
    obtain ⟨⟨ns, e1, b1⟩, pw, gz, nr⟩ := cases_rq ih il st.cur st.next (st.next + 1) st.next
      (procCases (bump (((bump st).edge st.cur st.next .normal).add st.next s e .other)) (c :: cs) st.next (st.next + 1)).next
      (fun b h1 h2 => hz b (.inr h1) h2) hfw (c :: cs) _ (s + 1) hsz i1.wf hok (by ob) (by ob) (by ob) (Nat.le_refl _)
      (f.mono (by ob) (by ob)) hwb si1 gz1 nr1
    refine ⟨⟨ns ++ [{ blk := st.next, s := s, e := e, ty := .other }], ?_, ?_⟩, ?_, ?_⟩
    · simp only [setCur_stmts, edge_stmts]
      rw [e1]; simp
    · intro r hr
      rcases List.mem_append.mp hr with hr | hr
      · exact (b1 r hr).mono (by omega) (by omega)
      · rw [List.mem_singleton.mp hr]; exact .inr ⟨hp, hse, by simp only; omega⟩
    · simp only [setCur_stmts, edge_stmts]
      exact pw
    · simp only [setCur_stmts, edge_stmts, setCur_cur]
      exact GC.fresh gz nr

end main
end PV.CFGSound
