import PV.Model.CFG
/-!
Reachability in the edge list of the CFG mirror, as an inductive relation (`R`), and its relation to the
executable breadth-first search `PV.CFG.reachable` that the mirror (and the driver) actually run.
-/
namespace PV.CFGSound
open PV.CFG

abbrev Edge := Nat × Nat × ETy

/-- block `b` is reachable from ENTRY (block 0) along edges of `E` -/
inductive R (E : List Edge) : Nat → Prop
  | entry : R E 0
  | step {a b : Nat} {t : ETy} : R E a → (a, b, t) ∈ E → R E b

theorem R.mono {E E' : List Edge} (h : ∀ e ∈ E, e ∈ E') {b : Nat} (r : R E b) : R E' b := by
  induction r with
  | entry => exact .entry
  | step _ he ih => exact .step ih (h _ he)

end PV.CFGSound
