import PV.Proofs.CFGCompleteD
/-!
Completeness of the CFG mirror for structurally dead code — the induction over the program, part 1:
the statements `CQL` / `CQS`, the list step, terminators, `class`, `with`, loops, `match`.
-/
namespace PV.CFGSound
open PV.CFG PV.SD

/-- statement lists: every structurally dead line has a record in an unreachable block; if the list is entered from an
unreachable block or contains a stopping statement, the block that is current afterwards is unreachable -/
def CQL (E : List Edge) (S : List SRec) (ss : List Stmt) : Prop :=
  ∀ (il : Bool) (st : St), WF st → LoopOK il st → okLC il ss = true →
    Fut E st.next (procList st ss).next (procList st ss) → StS S (procList st ss) →
    (∀ l ∈ structDead ss, l ∈ elifL ss ∨ DeadRec E S l) ∧ ((¬ R E st.cur ∨ stopsL ss = true) → ¬ R E (procList st ss).cur)

def CQS (E : List Edge) (S : List SRec) (x : Stmt) : Prop :=
  ∀ (il : Bool) (st : St), WF st → LoopOK il st → okSC il x = true →
    Fut E st.next (procStmt st x).next (procStmt st x) → StS S (procStmt st x) →
    (∀ l ∈ inStmt x, l ∈ elifS x ∨ DeadRec E S l) ∧ (stops x = true → ¬ R E (procStmt st x).cur)

section back
variable {E : List Edge} {S : List SRec} {lo hi : Nat} {s : St} (a b c k p q : Nat) (t : ETy) (ty : Ty)
  (l : List (Nat × Nat × Nat)) (x : List Exc)
theorem Fut.back_setCur (f : Fut E lo hi (setCur s c)) : Fut E lo hi s := f.of_edges_eq rfl
theorem Fut.back_bump (f : Fut E lo hi (bump s)) : Fut E lo hi s := f.of_edges_eq rfl
theorem Fut.back_bumpU (f : Fut E lo hi (bumpU s)) : Fut E lo hi s := f.of_edges_eq rfl
theorem Fut.back_bumpN (f : Fut E lo hi (bumpN s k)) : Fut E lo hi s := f.of_edges_eq rfl
theorem Fut.back_add (f : Fut E lo hi (s.add b p q ty)) : Fut E lo hi s := f.of_edges_eq rfl
theorem Fut.back_setLoops (f : Fut E lo hi (setLoops s l)) : Fut E lo hi s := f.of_edges_eq rfl
theorem Fut.back_setExcs (f : Fut E lo hi (setExcs s x)) : Fut E lo hi s := f.of_edges_eq rfl
theorem StS.back_setCur (f : StS S (setCur s c)) : StS S s := f
theorem StS.back_bump (f : StS S (bump s)) : StS S s := f
theorem StS.back_bumpU (f : StS S (bumpU s)) : StS S s := f
theorem StS.back_bumpN (f : StS S (bumpN s k)) : StS S s := f
theorem StS.back_edge (f : StS S (s.edge a b t)) : StS S s := f
theorem StS.back_setLoops (f : StS S (setLoops s l)) : StS S s := f
theorem StS.back_setExcs (f : StS S (setExcs s x)) : StS S s := f
theorem StS.back_eue (f : StS S (s.edgeUnlessExit a b t)) : StS S s := fun r hr => f r (by rw [edgeUnlessExit_stmts]; exact hr)
theorem StS.back_add (f : StS S (s.add b p q ty)) : StS S s := fun r hr => f r (List.mem_cons_of_mem _ hr)
theorem StS.back_list {ss : List Stmt} (f : StS S (procList s ss)) (w : WF s) : StS S s :=
  f.of_inv (procList_frame ss s w s.cur 0 (Or.inl rfl) (Nat.zero_le _)).1
theorem StS.back_stmt {y : Stmt} (f : StS S (procStmt s y)) (w : WF s) : StS S s :=
  f.of_inv (procStmt_frame y s w s.cur 0 (Or.inl rfl) (Nat.zero_le _)).1
end back

section main
variable {E : List Edge} {S : List SRec} {N : Nat}

theorem no_stop {P : Prop} {x : Stmt} (h : stops x = false) : stops x = true → P := fun h' => by rw [h] at h'; cases h'

/-! ### terminators and plain statements -/
theorem term_complete (x : Stmt) (ht : isTerm x = true) (hin : inStmt x = []) : CQS E S x := by
  intro il st w hl hok hf hS
  exact ⟨fun l h => (by rw [hin] at h; cases h), fun _ => term_dead ht hok w hl hf⟩

theorem plain_complete (x : Stmt) (hs : stops x = false) (hin : inStmt x = []) : CQS E S x := by
  intro il st w hl hok hf hS
  exact ⟨fun l h => (by rw [hin] at h; cases h), no_stop hs⟩

/-! ### class -/
theorem class_complete (ih : ∀ ss, sizeL ss ≤ N → CQL E S ss) (body : List Stmt) (hsz : sizeL body ≤ N) (s e : Nat) :
    CQS E S (.class_ s e body) := by
  intro il st w hl hok hf hS
  rw [okSC_class] at hok
  rw [procStmt_class, procClass_eq] at hf hS
  refine ⟨?_, no_stop rfl⟩
  rw [inStmt_class, elifS_class]
  have hcur := w.cur
  have hc : Own st.cur st.next st.cur := .inl rfl
  have i0 : Inv st.cur st.next st st := Inv.refl w hc
  have i1 := ((i0.bump.edge (a := st.cur) (b := st.next) (t := .normal) hc (by ob) (by ob)).setCur (x := st.next) (by ob) (by ob)).add
    (b := st.next) (p := s) (q := e) (ty := .other) (by ob) (by ob)
  exact (ih body hsz false _ i1.wf (LoopOK.false _) hok (hf.mono (by ob) (Nat.le_refl _)) hS).1

/-! ### with -/
theorem with_complete (ih : ∀ ss, sizeL ss ≤ N → CQL E S ss) (body : List Stmt) (hsz : sizeL body ≤ N) (s e : Nat) :
    CQS E S (.with_ s e body) := by
  intro il st w hl hok hf hS
  rw [okSC_with] at hok
  rw [procStmt_with, procWith_eq] at hf hS
  simp only at hf hS
  refine ⟨?_, no_stop rfl⟩
  rw [inStmt_with, elifS_with]
  have hcur := w.cur
  have hc : Own st.cur st.next st.cur := .inl rfl
  have i0 : Inv st.cur st.next st st := Inv.refl w hc
  have i1 := ((((((i0.bump.edge (a := st.cur) (b := st.next) (t := .normal) hc (by ob) (by ob)).add (b := st.next) (p := s) (q := e)
    (ty := .other) (by ob) (by ob)).bump).bump).bump).edge (a := st.next) (b := st.next + 1) (t := .normal) (by ob) (by ob) (by ob)).setCur
    (x := st.next + 1) (by ob) (by ob)
  obtain ⟨j, sm⟩ := procList_frame body _ i1.wf st.cur st.next i1.own (by ob)
  have hjn := j.next_le
  have f2 := (((hf.mono (lo' := st.next + 4) (by omega) (Nat.le_refl _)).back_setCur.back_edge
    (.inl (by omega))).back_edge (.inl (by omega))).back_eue (.inl (by omega))
  exact (ih body hsz il _ i1.wf (hl.of_eq rfl) hok (f2.mono (by ob) (by ob)) hS.back_setCur.back_edge.back_edge.back_eue).1

/-! ### loops -/
theorem structDead_nil : structDead [] = [] := by rw [structDead_eq', subDead_nil]; rfl

theorem loop_complete (ih : ∀ ss, sizeL ss ≤ N → CQL E S ss) (body orelse : List Stmt) (h1 : sizeL body ≤ N) (h2 : sizeL orelse ≤ N) (s e : Nat) :
    CQS E S (.loop s e body orelse) := by
  intro il st w hl hok hf hS
  rw [okSC_loop, Bool.and_eq_true] at hok
  rw [procStmt_loop, procLoop_eq] at hf hS
  refine ⟨?_, no_stop rfl⟩
  rw [inStmt_loop, elifS_loop]
  have hcur := w.cur
  have hc : Own st.cur st.next st.cur := .inl rfl
  have i0 : Inv st.cur st.next st st := Inv.refl w hc
  have i1 := (((i0.bump.edge (a := st.cur) (b := st.next) (t := .normal) hc (by ob) (by ob)).add (b := st.next) (p := s) (q := e)
    (ty := .other) (by ob) (by ob)).bump).bump
  rcases orelse with _ | ⟨o, os⟩
  · simp only [List.isEmpty_nil, Bool.not_true, Bool.false_eq_true, ↓reduceIte] at hf hS
    have i2 := (((i1.setLoops (l := (st.next, st.next + 2, st.excs.length) :: st.loops) (by
        intro x hx
        rcases List.mem_cons.mp hx with rfl | hx
        · constructor <;> ob
        · exact w.loops_le (by ob) x hx)).edge (a := st.next) (b := st.next + 1) (t := .condT) (by ob) (by ob) (by ob)).edge
        (a := st.next) (b := st.next + 2) (t := .condF) (by ob) (by ob) (by ob)).setCur (x := st.next + 1) (by ob) (by ob)
    have f5 := (hf.mono (lo' := st.next + 3) (by omega) (Nat.le_refl _)).back_setLoops.back_setCur.back_setLoops.back_eue (.inl (by omega))
    have hb := (ih body h1 true _ i2.wf (fun _ => by simp) hok.1 (f5.mono (by ob) (by ob)) hS.back_setLoops.back_setCur.back_setLoops.back_eue).1
    intro l hl
    rw [structDead_nil, List.append_nil] at hl
    rw [elifL_nil, List.append_nil]
    exact hb l hl
  · simp only [List.isEmpty_cons, Bool.not_false, ↓reduceIte] at hf hS
    have i2 := (((i1.bump.setLoops (l := (st.next, st.next + 2, st.excs.length) :: st.loops) (by
        intro x hx
        rcases List.mem_cons.mp hx with rfl | hx
        · constructor <;> ob
        · exact w.loops_le (by ob) x hx)).edge (a := st.next) (b := st.next + 1) (t := .condT) (by ob) (by ob) (by ob)).edge
        (a := st.next) (b := st.next + 3) (t := .condF) (by ob) (by ob) (by ob)).setCur (x := st.next + 1) (by ob) (by ob)
    obtain ⟨j, sm⟩ := procList_frame body _ i2.wf st.cur st.next i2.own (by ob)
    have k := i2.trans j
    have hjn := j.next_le
    have hk := k.wf.cur
    have k2 := ((k.edgeUnlessExit (b := st.next) (t := .loop) k.own hk (by ob)).setLoops (l := st.loops) (w.loops_le (by ob))).setCur
      (x := st.next + 3) (by ob) (by ob)
    obtain ⟨j2, sm2⟩ := procList_frame (o :: os) _ k2.wf st.cur st.next k2.own (by ob)
    have hjn2 := j2.next_le
    -- the else clause
    have f8 := (hf.mono (lo' := st.next + 4) (by omega) (Nat.le_refl _)).back_setLoops.back_setCur.back_eue (.inl (by omega))
    have hS8 := hS.back_setLoops.back_setCur.back_eue
    have ho := (ih (o :: os) h2 il _ k2.wf (hl.of_eq (by simp)) hok.2 (f8.mono (by ob) (by ob)) hS8).1
    -- the body
    have hctx : CtxLt (setCur (setLoops ((procList (setCur ((((setLoops (bump (bump (bump (((bump st).edge st.cur st.next .normal).add st.next s e .other))))
        ((st.next, st.next + 2, st.excs.length) :: st.loops)).edge st.next (st.next + 1) .condT).edge st.next (st.next + 3) .condF)) (st.next + 1)) body).edgeUnlessExit
        (procList (setCur ((((setLoops (bump (bump (bump (((bump st).edge st.cur st.next .normal).add st.next s e .other))))
        ((st.next, st.next + 2, st.excs.length) :: st.loops)).edge st.next (st.next + 1) .condT).edge st.next (st.next + 3) .condF)) (st.next + 1)) body).cur
        st.next .loop) st.loops) (st.next + 3)) (st.next + 4) :=
      (w.ctxLt (m := st.next + 4) (by omega)).of_eq (by simp) (by simp [sm.excs])
    have f5 := ((f8.mono (Nat.le_refl _) (hi' := (procList (setCur ((((setLoops (bump (bump (bump (((bump st).edge st.cur st.next .normal).add st.next s e .other))))
        ((st.next, st.next + 2, st.excs.length) :: st.loops)).edge st.next (st.next + 1) .condT).edge st.next (st.next + 3) .condF)) (st.next + 1)) body).next)
        (by ob)).back_list k2.wf hctx (by omega) (by ob)).back_setCur.back_setLoops.back_eue (.inl (by omega))
    have hb := (ih body h1 true _ i2.wf (fun _ => by simp) hok.1 (f5.mono (by ob) (Nat.le_refl _)) (hS8.back_list k2.wf).back_setCur.back_setLoops.back_eue).1
    intro l hl
    rcases List.mem_append.mp hl with hl | hl
    · exact (hb l hl).imp_left (fun h => List.mem_append.mpr (.inl h))
    · exact (ho l hl).imp_left (fun h => List.mem_append.mpr (.inr h))

/-! ### match -/
theorem cases_complete (ih : ∀ ss, sizeL ss ≤ N → CQL E S ss) (il : Bool) (mb merge : Nat) :
    ∀ (cs : List Stmt) (st : St), sizeL cs ≤ N → WF st → LoopOK il st → okCasesC il cs = true → mb < st.next → merge < st.next →
      Fut E st.next (procCases st cs mb merge).next (procCases st cs mb merge) → StS S (procCases st cs mb merge) →
      ∀ l ∈ subDead cs, l ∈ elifL cs ∨ DeadRec E S l := by
  intro cs
  induction cs with
  | nil => intro st _ _ _ _ _ _ _ _ l hl; rw [subDead_nil] at hl; cases hl
  | cons x cs ihc =>
    intro st hsz w hl hok hmb hm hf hS
    obtain ⟨s, e, b, rfl, hokb, hokc⟩ := okCasesC_cons hok
    have hszs : sizeL b ≤ N ∧ sizeL cs ≤ N := by simp only [sizeL, Stmt.size] at hsz; omega
    rw [procCases_case] at hf hS
    simp only at hf hS
    rw [subDead_cons, inStmt_case, elifL_cons, elifS_case]
    have hcur := w.cur
    have hc : Own st.cur 0 st.cur := .inl rfl
    have i0 : Inv st.cur 0 st st := Inv.refl w hc
    have i2 := ((i0.bump.edge (a := mb) (b := st.next) (t := .condT) (.inr (Nat.zero_le _) : Own st.cur 0 mb) (by ob) (by ob)).setCur
      (x := st.next) (by ob) (by ob)).add (b := st.next) (p := s) (q := e) (ty := .other) (by ob) (by ob)
    obtain ⟨j, sm⟩ := procList_frame b _ i2.wf st.cur 0 i2.own (Nat.zero_le _)
    have hjn := j.next_le
    have k := i2.trans j
    have hk := k.wf.cur
    have k2 := k.edgeUnlessExit (b := merge) (t := .normal) k.own hk (by ob)
    have hctx : CtxLt ((procList ((setCur ((bump st).edge mb st.next .condT) st.next).add st.next s e .other) b).edgeUnlessExit
        (procList ((setCur ((bump st).edge mb st.next .condT) st.next).add st.next s e .other) b).cur merge .normal) (st.next + 1) :=
      (w.ctxLt (m := st.next + 1) (by omega)).of_eq (by simp [sm.loops]) (by simp [sm.excs])
    have hb0 := ih b hszs.1 il _ i2.wf (hl.of_eq rfl) hokb
    generalize procList _ b = s1 at *
    obtain ⟨j3, sm3⟩ := cases_frame (c := st.cur) (n := 0) (frame_all N).1 (frame_all N).2 cs _ mb merge hszs.2 k2.wf (.inr (Nat.zero_le _))
      (Nat.zero_le _) (.inr (Nat.zero_le _)) (by ob) (by ob)
    have hjn3 := j3.next_le
    have fb := ((hf.mono (lo' := st.next + 1) (hi' := s1.next) (by omega) (by ob)).back_TI
      (procCases_target cs _ mb merge k2.wf (by ob) (by ob) _ (TG.zone hctx (by have := w.two; omega) (by ob)) (.inl (by omega)))).back_eue (.inl (by omega))
    have hb := (hb0 (fb.mono (by ob) (Nat.le_refl _)) (hS.of_inv j3).back_eue).1
    have hr := ihc _ hszs.2 k2.wf (hl.of_eq (by simp [sm.loops])) hokc (by ob) (by ob) (hf.mono (by ob) (Nat.le_refl _)) hS
    intro l hl
    rcases List.mem_append.mp hl with hl | hl
    · exact (hb l hl).imp_left (fun h => List.mem_append.mpr (.inl h))
    · exact (hr l hl).imp_left (fun h => List.mem_append.mpr (.inr h))

theorem match_complete (ih : ∀ ss, sizeL ss ≤ N → CQL E S ss) (cases : List Stmt) (hsz : sizeL cases ≤ N) (s e : Nat) :
    CQS E S (.match_ s e cases) := by
  intro il st w hl hok hf hS
  rw [okSC_match] at hok
  rw [procStmt_match, procMatch_eq] at hf hS
  refine ⟨?_, no_stop rfl⟩
  rw [inStmt_match, elifS_match]
  rcases cases with _ | ⟨c, cs⟩
  · intro l hl; rw [subDead_nil] at hl; cases hl
  · simp only [List.isEmpty_cons, Bool.not_false, ↓reduceIte] at hf hS
    have hcur := w.cur
    have hc : Own st.cur st.next st.cur := .inl rfl
    have i0 : Inv st.cur st.next st st := Inv.refl w hc
    have i1 := ((i0.bump.edge (a := st.cur) (b := st.next) (t := .normal) hc (by ob) (by ob)).add (b := st.next) (p := s) (q := e)
      (ty := .other) (by ob) (by ob)).bump
    have f := (hf.mono (lo' := st.next + 2) (by omega) (Nat.le_refl _)).back_setCur.back_edge (.inl (by omega))
    exact cases_complete ih il st.next (st.next + 1) (c :: cs) _ hsz i1.wf (hl.of_eq rfl) hok (by ob) (by ob)
      (f.mono (by ob) (by ob)) hS.back_setCur.back_edge

end main
end PV.CFGSound
