import PV.Proofs.CFGRanges
import PV.Proofs.CFGRangesSpans
import PV.Proofs.CFGRangesStatic
/-!
Range-level soundness for the heads of `elif` clauses.

The builder stores the test of a converted `elif` with location `0..0`, so there is no located record that witnesses that the line
of the `elif` is live, and the record-level theorem exempts these lines.  For the RANGES no exemption is needed: a live `elif` head
`l` is followed by a live located line `l₁` (the first statement of its then-branch, `okEL`), no located statement starts at `l`,
every located statement that starts before `l` and reaches `l` also covers `l₁`, and every located statement after `l` starts at or
after `l₁` (`elif_static`); every record carries `0..0` or the span of a located statement (`build_spans`); so a range
`first.s … last.e` that contains `l` would contain `l₁`, which `mirror_ranges_static_def` excludes.
-/
namespace PV.CFGSound
open PV.CFG PV.Py

/-- the shape of a finding: first and last record of an unreachable block; a record with end line 0 is alone in the range -/
theorem findings_shape (st : St) (_w : WF st) (hgz : GZ st.stmts) :
    ∀ f ∈ findings st, ∃ first ∈ st.stmts, ∃ last ∈ st.stmts, first.blk ∉ reachable st ∧ last.blk ∉ reachable st ∧
      f.s = first.s ∧ f.e = last.e ∧ (first = last ∨ first.e ≠ 0) := by
  intro f hf
  unfold findings at hf
  simp only [List.mem_map, List.mem_filter, List.mem_range, Bool.and_eq_true, Bool.not_eq_true',
    List.contains_eq_mem, decide_eq_false_iff_not] at hf
  obtain ⟨b, ⟨hb, hnr, hne⟩, rfl⟩ := hf
  rw [blockInfo_getD st hb] at hne ⊢
  have hex : ∃ x ∈ st.stmts, x.blk = b := by
    apply Classical.byContradiction
    intro hno
    have hn : NoRec st.stmts b := fun x hx hxb => hno ⟨x, hx, hxb⟩
    rw [infoR_norec hn] at hne
    exact Bool.false_ne_true hne
  obtain ⟨a, h, t, c, hL, ha, hc, hh, ht, hz⟩ := GZ.decomp hgz hex
  rw [hL, infoR_append_norec _ ha]
  obtain ⟨i1, _, first, hfirst, i3⟩ := infoR_seg hc t h hh ht
  have hfb : first.blk = b := by
    rcases List.mem_cons.mp hfirst with rfl | h1
    · exact hh
    · exact ht first h1
  have hmem : ∀ x ∈ h :: t, x ∈ a ++ h :: (t ++ c) := by
    intro x hx
    refine List.mem_append.mpr (.inr ?_)
    rcases List.mem_cons.mp hx with rfl | h1
    · exact List.mem_cons_self ..
    · exact List.mem_cons_of_mem _ (List.mem_append.mpr (.inl h1))
  refine ⟨first, hmem first hfirst, h, hmem h (List.mem_cons_self ..), by rw [hfb]; exact hnr, by rw [hh]; exact hnr, i3, i1, ?_⟩
  rcases List.mem_cons.mp hfirst with rfl | h1
  · exact .inl rfl
  · exact .inr (hz first h1)

/-- the fragment for the statement without exemption: `okR`, and every `elif` clause has a then-branch that begins with a located
statement (possibly inside `try:`) -/
def okRE (body : List Stmt) : Bool := okR body && okEL body

/-- **the heads of live `elif` clauses lie outside every reported range** -/
theorem mirror_ranges_elif (k : Kind) (s e : Nat) (body : List Stmt) (hok : okRE body = true) (hwf : WFDef k s e body) :
    ∀ l ∈ (sxL body).skipped, ∀ f ∈ findings (build k s e body), ¬ (f.s ≤ l ∧ l ≤ f.e) := by
  intro l hl f hf hin
  unfold okRE at hok
  rw [Bool.and_eq_true] at hok
  obtain ⟨hokr, hoke⟩ := hok
  have hlc := okLC_of_okL3 body false false hokr
  obtain ⟨hgz, hpw, hv⟩ := build_rq rq_list k s e body hlc hwf
  have wfb := build_wf k s e body
  obtain ⟨first, hfm, last, hlm, hfd, hld, hfs, hfe, hfl⟩ := findings_shape _ wfb hgz f hf
  obtain ⟨l₁, hl₁, hlt, hsp⟩ := elif_static body 1 hwf.wfl hoke l hl
  have hl1 : 1 ≤ l := (sx_lines_pos hwf.wfl).2 l hl
  have hmain := mirror_ranges_static_def k s e body hokr hwf l₁ hl₁ f hf
  rw [hfs, hfe] at hin hmain
  -- records of unreachable blocks are not the class header
  have hpre : ∀ r ∈ (build k s e body).stmts, r.blk ∉ reachable (build k s e body) → r ∉ (preB k s e).stmts := by
    intro r _ hd hp
    apply hd
    have ipre := preB_inv k s e
    obtain ⟨j, _⟩ := procList_frame body _ ipre.wf 0 0 (Or.inr (Nat.zero_le _)) (Nat.zero_le _)
    cases k
    · cases hp
    · have : r = { blk := 2, s := s, e := e, ty := .other } := by simpa [preB, initSt] using hp
      rw [this]
      refine (mem_reachable_iff wfb).mpr (R.step (t := .normal) R.entry ?_)
      have hsub : ∀ x ∈ (procList (preB Kind.cls s e) body).edges, x ∈ (build Kind.cls s e body).edges := by
        rw [build_eq]; unfold finishB
        split
        · exact fun x h => List.mem_cons_of_mem _ h
        · exact fun x h => h
      exact hsub _ (j.sub.1 (0, 2, .normal) (by simp [preB]))
    · cases hp
  have hsb := spans_bounds body 1 hwf.wfl
  have spF := (build_spans k s e body hlc first hfm).resolve_left (hpre first hfm hfd)
  have spL := (build_spans k s e body hlc last hlm).resolve_left (hpre last hlm hld)
  -- the last record is located
  have hle : last.e ≠ 0 := by omega
  rcases spL with hz | hL
  · exact hle hz.2
  · have cL := hsp _ hL
    have bL := hsb _ hL
    simp only at cL bL
    -- the first record is located too
    have hfirst : (first.s, first.e) ∈ spansL body := by
      rcases spF with hz | hF
      · rcases hfl with heq | hne
        · rw [heq] at hz; exact absurd hz.2 hle
        · exact absurd hz.2 hne
      · exact hF
    have cF := hsp _ hfirst
    simp only at cF
    have h1 : first.s < l := by have := cF.1; omega
    have h2 : last.e < l₁ := by
      apply Classical.byContradiction
      intro hc
      exact hmain ⟨by omega, by omega⟩
    rcases Nat.lt_trichotomy last.s l with h3 | h3 | h3
    · have := cL.2.1 h3 hin.2; omega
    · exact cL.1 h3
    · have := cL.2.2 h3; omega

/-- **C01 for the reported ranges against the semantics, without exemption** -/
theorem mirror_ranges_sound_all (k : Kind) (s e : Nat) (body : List Stmt) (hok : okRE body = true) (hwf : WFDef k s e body)
    {o : Out} {tr : List Nat} (ex : Exec body o tr) :
    ∀ l ∈ tr, ∀ f ∈ findings (build k s e body), ¬ (f.s ≤ l ∧ l ≤ f.e) := by
  intro l hl
  have hokr : okR body = true := by unfold okRE at hok; rw [Bool.and_eq_true] at hok; exact hok.1
  have h1 := (PV.C01.C01_live_sound ex).2 l hl
  rcases (live_le_sx3 body false false hokr).1 l h1 with h | h
  · exact mirror_ranges_static_def k s e body hokr hwf l h
  · exact mirror_ranges_elif k s e body hok hwf l h

end PV.CFGSound

#print axioms PV.CFGSound.mirror_ranges_sound_all
