import PV.Proofs.CFGComplexityFinDefs
import PV.Proofs.CFGComplexityMatch
/-!
Property C03 for the CFG mirror with non-empty `finally` — `match`.

`cases_cntF`: the induction over the case list of `procCases st cs mb merge` (the subject block `mb` is reachable, the merge block
`merge` is calm and stays calm; `fl` says whether `mb` already has a `.condT` out-edge).
`match_cntF`: `QFS E (.match_ s e cases)`.
-/
namespace PV.CFGFin
open PV.CFG PV.CFGSound PV.Dec

section main
variable {E : List Edge} {N : Nat}

/-- the case list of a `match`: `mb` (reachable) is the subject block, `merge` (calm) the merge block; `fl = true` when `mb` already has a
`.condT` out-edge, `fl = false` when it has no out-edge at all; `n0` is the `next` of the enclosing `match` on entry -/
theorem cases_cntF (ih : ∀ ss, sizeL ss ≤ N → QFL E ss) (fc : FC) (il : Bool) (mb merge n0 : Nat) (hmm : mb ≠ merge) (hrm : R E mb)
    (hn0 : n0 ≤ merge) :
    ∀ (cs : List Stmt) (st : St) (fl : Bool), sizeL cs ≤ N → WF st → CtxF fc il st → okFCases il cs = true → mb < st.next → merge < st.next →
      Calm st merge → (fl = true → ∃ b', (mb, b', ETy.condT) ∈ st.edges) → (fl = false → ∀ e ∈ st.edges, e.1 ≠ mb) →
      Fut E st.next (procCases st cs mb merge).next (procCases st cs mb merge) →
      cnt (rE E) (procCases st cs mb merge).edges = cnt (rE E) st.edges + (if fl || cs.isEmpty then 0 else 1) + ldAltsX fc cs ∧
      Calm (procCases st cs mb merge) merge ∧
      LTI E (TgF n0 st.loops st.excs (sxAlts cs).ex.brk) st (procCases st cs mb merge) ∧
      Jmp E st.loops st.excs (sxAlts cs).ex ∧
      ((fl = true ∨ cs ≠ []) → ∃ b', (mb, b', ETy.condT) ∈ (procCases st cs mb merge).edges) := by
  intro cs
  induction cs with
  | nil =>
    intro st fl _ _ _ _ _ _ hcalm hfl1 _ _
    rw [procCases_nil, sxAlts_nil, ldAltsX_nil]
    refine ⟨by simp, hcalm, LTI.refl _ _ _, Jmp.empty rfl rfl rfl rfl, ?_⟩
    rintro (h | h)
    · exact hfl1 h
    · exact absurd rfl h
  | cons x cs ihc =>
    intro st fl hsz w hc hok hmb hmg hcalm hfl1 hfl0 hf
    obtain ⟨s, e, b, rfl, hokb, hokc⟩ := okFCases_cons hok
    have hszs : sizeL b ≤ N ∧ sizeL cs ≤ N := by simp only [sizeL, Stmt.size] at hsz; omega
    rw [procCases_case] at hf ⊢
    simp only at hf ⊢
    rw [sxAlts_cons, sxS_case, ldAltsX_cons, ldSX_case]
    have hcur := w.cur
    have i0 : Inv st.cur 0 st st := Inv.refl w (.inl rfl)
    have i2 := ((i0.bump.edge (a := mb) (b := st.next) (t := .condT) (.inr (Nat.zero_le _) : Own st.cur 0 mb) (by ob) (by ob)).setCur
      (x := st.next) (by ob) (by ob)).add (b := st.next) (p := s) (q := e) (ty := .other) (by ob) (by ob)
    obtain ⟨j, sm⟩ := procList_frame b _ i2.wf st.next (st.next + 1) (Or.inl rfl) (by ob)
    have hjn := j.next_le
    have hown := j.own
    have hb0 := ih b hszs.1 fc il _ i2.wf (hc.of_eq rfl rfl) hokb
    -- the entry block of the case body is calm; `merge` is calm there
    have hcalm_cb : Calm ((setCur ((bump st).edge mb st.next .condT) st.next).add st.next s e .other) st.next := by
      have hu : Untouched (setCur ((bump st).edge mb st.next .condT) st.next) st.next := by untt [w.untouched (Nat.le_refl _)]
      exact hu.calm.add_other
    have hcalm_m : Calm ((setCur ((bump st).edge mb st.next .condT) st.next).add st.next s e .other) merge := by
      have h1 : Calm ((bump st).edge mb st.next .condT) merge := (hcalm.congr (s' := bump st) rfl rfl).edge hmm
      have h2 : Calm (setCur ((bump st).edge mb st.next .condT) st.next) merge := h1.congr rfl rfl
      exact h2.add_ne (by omega)
    have hcnt2 : cnt (rE E) ((setCur ((bump st).edge mb st.next .condT) st.next).add st.next s e .other).edges =
        cnt (rE E) st.edges + (if fl then 0 else 1) := by
      show cnt (rE E) ((mb, st.next, ETy.condT) :: st.edges) = _
      cases fl with
      | false => exact cnt_cons_cond_new (rE_true.mpr hrm) rfl (hfl0 rfl)
      | true =>
        obtain ⟨b', hb'⟩ := hfl1 rfl
        exact cnt_cons_cond_old rfl hb' rfl
    have hmem2 : (mb, st.next, ETy.condT) ∈ ((setCur ((bump st).edge mb st.next .condT) st.next).add st.next s e .other).edges :=
      List.mem_cons_self ..
    have hlti2 : LTI E (TgF n0 st.loops st.excs ((sxL b).ex.union (sxAlts cs).ex).brk) st
        ((setCur ((bump st).edge mb st.next .condT) st.next).add st.next s e .other) := by
      have h1 : LTI E (TgF n0 st.loops st.excs ((sxL b).ex.union (sxAlts cs).ex).brk) st (bump st) := (LTI.refl _ _ _).of_edges_eq rfl
      exact (h1.edge (a := mb) (b := st.next) (t := .condT) (fun _ => .inl (by omega))).of_edges_eq rfl
    generalize procList _ b = s1 at *
    have k2 := j.edgeUnlessExit (a := s1.cur) (b := merge) (t := .normal) j.own j.wf.cur (by ob)
    have hl2 : (s1.edgeUnlessExit s1.cur merge .normal).loops = st.loops := by simp only [edgeUnlessExit_loops, sm.loops]; rfl
    have hx2 : (s1.edgeUnlessExit s1.cur merge .normal).excs = st.excs := by simp only [edgeUnlessExit_excs, sm.excs]; rfl
    have hctx : CtxLt (s1.edgeUnlessExit s1.cur merge .normal) (st.next + 1) := (w.ctxLt (m := st.next + 1) (by omega)).of_eq hl2 hx2
    obtain ⟨j3, sm3⟩ := cases_frame (c := st.cur) (n := 0) (frame_all N).1 (frame_all N).2 cs _ mb merge hszs.2 k2.wf (.inr (Nat.zero_le _))
      (Nat.zero_le _) (.inr (Nat.zero_le _)) (by ob) (by ob)
    have hjn3 := j3.next_le
    have fb := ((hf.mono (lo' := st.next + 1) (hi' := s1.next) (by omega) (by ob)).back_TI
      (procCases_target cs _ mb merge k2.wf (by ob) (by ob) _ (TG.zone hctx (by have := w.two; omega) (by ob)) (.inl (by omega)))).back_eue (.inl (by omega))
    have hrc : R E st.next := R.step hrm (fb.mem (j.sub.1 _ hmem2))
    have pb := hb0 (fb.mono (by ob) (Nat.le_refl _)) ⟨hrc, hcalm_cb⟩
    have hcm2 : Calm (s1.edgeUnlessExit s1.cur merge .normal) merge :=
      (j.calm (m := merge) (by omega) (by omega) hcalm_m).eue (by ob)
    obtain ⟨r1, r2, r3, r4, r5⟩ := ihc _ true hszs.2 k2.wf (hc.of_eq hl2 hx2) hokc (by ob) (by ob) hcm2
      (fun _ => ⟨st.next, k2.sub.1 _ hmem2⟩) (fun h => by cases h) (hf.mono (by ob) (Nat.le_refl _))
    refine ⟨?_, r2, ?_, ?_, fun _ => r5 (.inl rfl)⟩
    · rw [r1, cnt_eue_plain _ _ _ _ (by rfl) (by intro h; cases h), pb.cnt, hcnt2]
      simp only [Bool.true_or, ↓reduceIte, List.isEmpty_cons, Bool.or_false, Nat.add_zero]
      omega
    · have t1 : LTI E (TgF n0 st.loops st.excs ((sxL b).ex.union (sxAlts cs).ex).brk) st s1 :=
        hlti2.trans (pb.tgt.mono (fun t h => TgF.mono h (by ob) (fun hb => by simp [ex_union_brk, hb])))
      have t2 : LTI E (TgF n0 st.loops st.excs ((sxL b).ex.union (sxAlts cs).ex).brk) st (s1.edgeUnlessExit s1.cur merge .normal) :=
        t1.eue (fun _ => .inl hn0)
      rw [hl2, hx2] at r3
      exact t2.trans (r3.mono (fun t h => h.mono (Nat.le_refl _) (fun hb => by simp [ex_union_brk, hb])))
    · exact Jmp.union (pb.jmp.cast (L' := st.loops) (X' := st.excs) rfl rfl) (r4.cast hl2.symm hx2.symm)

theorem match_cntF (ih : ∀ ss, sizeL ss ≤ N → QFL E ss) (cases : List Stmt) (hsz : sizeL cases ≤ N) (s e : Nat) :
    QFS E (.match_ s e cases) := by
  intro fc il st w hc hok hf he
  rw [okFS_match] at hok
  rw [procStmt_match, procMatch_eq] at hf ⊢
  rw [sxS_match, ldSX_match]
  have hcur := w.cur
  have i0 : Inv st.cur 0 st st := Inv.refl w (.inl rfl)
  have i1 := ((i0.bump.edge (a := st.cur) (b := st.next) (t := .normal) (.inl rfl) (by ob) (by ob)).add (b := st.next) (p := s) (q := e)
    (ty := .other) (by ob) (by ob)).bump
  have hu1 : Untouched (bump (((bump st).edge st.cur st.next .normal).add st.next s e .other)) (st.next + 1) := by
    untt [w.untouched (m := st.next + 1) (by omega)]
  have hlti1 : ∀ bf : Bool, LTI E (TgF st.next st.loops st.excs bf) st (bump (((bump st).edge st.cur st.next .normal).add st.next s e .other)) := by
    intro bf
    have h1 : LTI E (TgF st.next st.loops st.excs bf) st (bump st) := (LTI.refl _ _ _).of_edges_eq rfl
    exact (h1.edge (a := st.cur) (b := st.next) (t := .normal) (fun _ => .inl (Nat.le_refl _))).of_edges_eq rfl
  have hcnt1 : cnt (rE E) (bump (((bump st).edge st.cur st.next .normal).add st.next s e .other)).edges = cnt (rE E) st.edges := by
    show cnt (rE E) ((st.cur, st.next, ETy.normal) :: st.edges) = _
    exact cnt_cons_plain (by rfl) (by intro h; cases h)
  rcases cases with _ | ⟨c, cs⟩
  · simp only [List.isEmpty_nil, Bool.not_true, Bool.false_eq_true, ↓reduceIte] at hf ⊢
    have hr : R E st.next := R.step he.reach (hf.mem (List.mem_cons_of_mem _ (List.mem_cons_self ..)))
    have hrm : R E (st.next + 1) := R.step hr (hf.mem (List.mem_cons_self ..))
    refine ⟨?_, fun _ => ⟨hrm, ?_⟩, (fun h => by simp at h), ?_, ?_⟩
    · show cnt (rE E) ((st.next, st.next + 1, ETy.normal) :: (bump (((bump st).edge st.cur st.next .normal).add st.next s e .other)).edges) = _
      rw [cnt_cons_plain (by rfl) (by intro h; cases h), hcnt1, ldAltsX_nil]; rfl
    · have : Calm ((bump (((bump st).edge st.cur st.next .normal).add st.next s e .other)).edge st.next (st.next + 1) .normal) (st.next + 1) :=
        hu1.calm.edge (by omega)
      exact this.congr rfl rfl
    · rw [sxAlts_nil]; exact Jmp.empty rfl rfl rfl rfl
    · exact ((hlti1 _).edge (a := st.next) (b := st.next + 1) (t := .normal) (fun _ => .inl (by omega))).of_edges_eq rfl
  · simp only [List.isEmpty_cons, Bool.not_false, ↓reduceIte] at hf ⊢
    obtain ⟨j, sm⟩ := cases_frame (c := st.cur) (n := 0) (frame_all N).1 (frame_all N).2 (c :: cs) _ st.next (st.next + 1) hsz i1.wf i1.own
      (Nat.zero_le _) (Or.inr (Nat.zero_le _)) (by ob) (by ob)
    have hjn := j.next_le
    have hr : R E st.next := R.step he.reach (hf.mem (List.mem_cons_of_mem _ (j.sub.1 _ (List.mem_cons_self ..))))
    have hrm : R E (st.next + 1) := R.step hr (hf.mem (List.mem_cons_self ..))
    have f := (hf.mono (lo' := st.next + 2) (by omega) (Nat.le_refl _)).back_setCur.back_edge (.inl (by omega))
    have hnone : ∀ x ∈ (bump (((bump st).edge st.cur st.next .normal).add st.next s e .other)).edges, x.1 ≠ st.next := by
      intro x hx
      rcases List.mem_cons.mp hx with rfl | hx
      · exact Nat.ne_of_lt hcur
      · exact Nat.ne_of_lt (w.edges x hx).1
    obtain ⟨r1, r2, r3, r4, r5⟩ := cases_cntF ih fc il st.next (st.next + 1) st.next (by omega) hr (by omega) (c :: cs) _ false hsz i1.wf
      (hc.of_eq rfl rfl) hok (by ob) (by ob) hu1.calm (fun h => by cases h) (fun _ => hnone) (f.mono (by ob) (by ob))
    generalize procCases _ (c :: cs) st.next (st.next + 1) = pc at *
    obtain ⟨b', hb'⟩ := r5 (.inr (by simp))
    refine ⟨?_, fun _ => ⟨hrm, ?_⟩, (fun h => by simp at h), ?_, ?_⟩
    · show cnt (rE E) ((st.next, st.next + 1, ETy.condF) :: pc.edges) = _
      rw [cnt_cons_cond_old (by rfl) hb' (by rfl), r1, hcnt1]
      simp only [List.isEmpty_cons, Bool.or_false, Bool.false_eq_true, ↓reduceIte]
      omega
    · have : Calm (pc.edge st.next (st.next + 1) .condF) (st.next + 1) := r2.edge (by omega)
      exact this.congr rfl rfl
    · exact (r4.cast (L' := st.loops) (X' := st.excs) rfl rfl).mono id id id id
    · have t1 : LTI E (TgF st.next st.loops st.excs (sxAlts (c :: cs)).ex.brk) st pc := (hlti1 _).trans r3
      exact (t1.edge (a := st.next) (b := st.next + 1) (t := .condF) (fun _ => .inl (by omega))).of_edges_eq rfl

end main
end PV.CFGFin

#print axioms PV.CFGFin.match_cntF
#print axioms PV.CFGFin.cases_cntF
