import PV.Proofs.CFGRangesC02Defs
/-!
Range-level completeness (C02) — the induction over the builder: on the fragment without standalone `elif` clauses, every record
with end line 0 is the OLDEST record of its block (`ZF`).  The only place where such a record is stored is `procIfElif` called for
the `elif` clause of a chain, and there the current block is the block that was allocated just before (`procIfElifTail`,
`procIfElif`), which holds no record because all records of a well-formed state are in blocks `< next`.
-/
namespace PV.CFGSound
open PV.CFG
set_option linter.unusedSimpArgs false

/-- processing a statement list (no standalone `elif`, no located span ending at line 0) from a well-formed state preserves `ZF` -/
def ZQL (ss : List Stmt) : Prop :=
  ∀ (il : Bool) (st : St), WF st → okLC il ss = true → noSEL ss = true → NZ (spansL ss) → ZF st.stmts → ZF (procList st ss).stmts
def ZQS (x : Stmt) : Prop :=
  ∀ (il : Bool) (st : St), WF st → okSC il x = true → noSES x = true → NZ (spansS x) → ZF st.stmts → ZF (procStmt st x).stmts
def ZLN (N : Nat) : Prop := ∀ ss, sizeL ss ≤ N → ZQL ss
def ZSN (N : Nat) : Prop := ∀ x : Stmt, x.size ≤ N → ZQS x

/-! ### leaves -/
theorem go_zf (s e : Nat) (he : e ≠ 0) : ∀ (cs : List Bool) (st : St) (cp : Nat), ZF st.stmts → ZF (procComp.go s e cs st cp).1.stmts
  | [], st, cp, h => by rw [go_nil]; exact h
  | hasTest :: rest, st, cp, h => by
    rw [go_cons]
    simp only
    refine go_zf s e he rest _ _ ?_
    cases hasTest
    · simp only [Bool.false_eq_true, ↓reduceIte, edge_stmts, add_stmts, bump_stmts]
      exact (h.add_nz he).add_nz he
    · simp only [↓reduceIte, edge_stmts, add_stmts, bump_stmts]
      exact ((h.add_nz he).add_nz he).add_nz he

theorem comp_zf (st : St) (s e : Nat) (c : List Bool) (he : e ≠ 0) (h : ZF st.stmts) : ZF (procComp st s e c).stmts := by
  rw [(comp_facts st s e c).2.2.1]
  refine go_zf s e he c _ _ ?_
  simp only [edge_stmts, add_stmts, bump_stmts]
  exact h.add_nz he

theorem simple_zf (s e : Nat) (c : List Bool) (hc : Bool) : ZQS (.simple s e c hc) := by
  intro il st _ _ _ hnz hz
  rw [spansS_simple] at hnz
  rw [procStmt_simple]
  cases hc
  · simp only [Bool.false_eq_true, ↓reduceIte, add_stmts]
    exact hz.add_nz hnz.head
  · simp only [↓reduceIte, add_stmts]
    exact (comp_zf st s e c hnz.head hz).add_nz hnz.head

theorem ret_zf (s e : Nat) (c : List Bool) (hc : Bool) : ZQS (.ret s e c hc) := by
  intro il st _ _ _ hnz hz
  rw [spansS_ret] at hnz
  rw [procStmt_ret, procRet_tail, (retTail_facts _ s e).1]
  refine ZF.add_nz ?_ hnz.head
  cases hc
  · exact hz
  · exact comp_zf st s e c hnz.head hz

theorem brk_zf (s e : Nat) : ZQS (.brk s e) := by
  intro il st _ _ _ hnz hz
  rw [spansS_brk] at hnz
  rw [procStmt_brk, (brk_facts st s e).1]
  exact hz.add_nz hnz.head

theorem cont_zf (s e : Nat) : ZQS (.cont s e) := by
  intro il st _ _ _ hnz hz
  rw [spansS_cont] at hnz
  rw [procStmt_cont, (cont_facts st s e).1]
  exact hz.add_nz hnz.head

theorem raise_zf (s e : Nat) : ZQS (.raise s e) := by
  intro il st _ _ _ hnz hz
  rw [spansS_raise] at hnz
  rw [procStmt_raise, (raise_facts st s e).1]
  exact hz.add_nz hnz.head

theorem def_zf (s e : Nat) (b : List Stmt) : ZQS (.def_ s e b) := by
  intro il st _ _ _ hnz hz
  rw [spansS_def] at hnz
  rw [procStmt_def, add_stmts]
  exact hz.add_nz hnz.head

variable {N : Nat}

/-! ### with, class, loops -/
theorem with_zf (ih : ZLN N) (body : List Stmt) (hsz : sizeL body ≤ N) (s e : Nat) : ZQS (.with_ s e body) := by
  intro il st w hok hno hnz hz
  rw [okSC_with] at hok
  rw [noSES_with] at hno
  rw [spansS_with] at hnz
  rw [procStmt_with, procWith_eq]
  simp only [setCur_stmts, edge_stmts, edgeUnlessExit_stmts]
  have hcur := w.cur
  have i1 := ((((((w.i0.bump.e0 (a := st.cur) (b := st.next) (t := .normal) (by ob) (by ob)).a0 (b := st.next) (p := s) (q := e)
    (ty := .other) (by ob)).bump).bump).bump).e0 (a := st.next) (b := st.next + 1) (t := .normal) (by ob) (by ob)).c0
    (x := st.next + 1) (by ob)
  refine ih body hsz il _ i1.wf hok hno hnz.tail ?_
  simp only [setCur_stmts, edge_stmts, bump_stmts, add_stmts]
  exact hz.add_nz hnz.head

theorem class_zf (ih : ZLN N) (body : List Stmt) (hsz : sizeL body ≤ N) (s e : Nat) : ZQS (.class_ s e body) := by
  intro il st w hok hno hnz hz
  rw [okSC_class] at hok
  rw [noSES_class] at hno
  rw [spansS_class] at hnz
  rw [procStmt_class, procClass_eq]
  have hcur := w.cur
  have i1 := ((w.i0.bump.e0 (a := st.cur) (b := st.next) (t := .normal) (by ob) (by ob)).c0 (x := st.next) (by ob)).a0
    (b := st.next) (p := s) (q := e) (ty := .other) (by ob)
  refine ih body hsz false _ i1.wf hok hno hnz.tail ?_
  simp only [setCur_stmts, edge_stmts, bump_stmts, add_stmts]
  exact hz.add_nz hnz.head

theorem loop_zf (ih : ZLN N) (body orelse : List Stmt) (h1 : sizeL body ≤ N) (h2 : sizeL orelse ≤ N) (s e : Nat) :
    ZQS (.loop s e body orelse) := by
  intro il st w hok hno hnz hz
  rw [okSC_loop, Bool.and_eq_true] at hok
  rw [noSES_loop, Bool.and_eq_true] at hno
  rw [spansS_loop] at hnz
  have hnzb : NZ (spansL body) := hnz.tail.left
  have hnzo : NZ (spansL orelse) := hnz.tail.right
  rw [procStmt_loop, procLoop_eq]
  have hcur := w.cur
  have i1 := (((w.i0.bump.e0 (a := st.cur) (b := st.next) (t := .normal) (by ob) (by ob)).a0 (b := st.next) (p := s) (q := e)
    (ty := .other) (by ob)).bump).bump
  rcases orelse with _ | ⟨o, os⟩
  · simp only [List.isEmpty_nil, Bool.not_true, Bool.false_eq_true, ↓reduceIte, setLoops_stmts, setCur_stmts, edgeUnlessExit_stmts]
    have i2 := (((i1.setLoops (l := (st.next, st.next + 2, st.excs.length) :: st.loops) (by
        intro x hx
        rcases List.mem_cons.mp hx with rfl | hx
        · constructor <;> ob
        · exact w.loops_le (by ob) x hx)).e0 (a := st.next) (b := st.next + 1) (t := .condT) (by ob) (by ob)).e0
        (a := st.next) (b := st.next + 2) (t := .condF) (by ob) (by ob)).c0 (x := st.next + 1) (by ob)
    refine ih body h1 true _ i2.wf hok.1 hno.1 hnzb ?_
    simp only [setCur_stmts, edge_stmts, setLoops_stmts, bump_stmts, add_stmts]
    exact hz.add_nz hnz.head
  · simp only [List.isEmpty_cons, Bool.not_false, ↓reduceIte, setLoops_stmts, setCur_stmts, edgeUnlessExit_stmts]
    have i2 := (((i1.bump.setLoops (l := (st.next, st.next + 2, st.excs.length) :: st.loops) (by
        intro x hx
        rcases List.mem_cons.mp hx with rfl | hx
        · constructor <;> ob
        · exact w.loops_le (by ob) x hx)).e0 (a := st.next) (b := st.next + 1) (t := .condT) (by ob) (by ob)).e0
        (a := st.next) (b := st.next + 3) (t := .condF) (by ob) (by ob)).c0 (x := st.next + 1) (by ob)
    have j := procList_inv0 body _ i2.wf
    have k := i2.trans j
    have hjn := j.next_le
    have hk := k.wf.cur
    have k2 := ((k.u0 (a := _) (b := st.next) (t := .loop) hk (by ob)).setLoops (l := st.loops) (w.loops_le (by ob))).c0
      (x := st.next + 3) (by ob)
    refine ih (o :: os) h2 il _ k2.wf hok.2 hno.2 hnzo ?_
    simp only [setCur_stmts, setLoops_stmts, edgeUnlessExit_stmts]
    refine ih body h1 true _ i2.wf hok.1 hno.1 hnzb ?_
    simp only [setCur_stmts, edge_stmts, setLoops_stmts, bump_stmts, add_stmts]
    exact hz.add_nz hnz.head

/-! ### if / elif chains -/
theorem ifHead_zf (ih : ZLN N) (thn : List Stmt) (hsz : sizeL thn ≤ N) (il : Bool) (hok : okLC il thn = true)
    (hno : noSEL thn = true) (hnz : NZ (spansL thn)) (st : St) (s e : Nat) (w : WF st) (hz : ZF st.stmts)
    (ht : e ≠ 0 ∨ NoRec st.stmts st.cur) : ZF (ifHead st s e thn).stmts := by
  unfold ifHead
  have hcur := w.cur
  have i1 := ((((w.i0.a0 (b := st.cur) (p := s) (q := e) (ty := .other) hcur).bump).bump).e0 (a := st.cur) (b := st.next)
    (t := .condT) (by ob) (by ob)).c0 (x := st.next) (by ob)
  refine ih thn hsz il _ i1.wf hok hno hnz ?_
  simp only [setCur_stmts, edge_stmts, bump_stmts, add_stmts]
  exact hz.add_test ht

theorem elifHead_zf (ih : ZLN N) (thn : List Stmt) (hsz : sizeL thn ≤ N) (il : Bool) (hok : okLC il thn = true)
    (hno : noSEL thn = true) (hnz : NZ (spansL thn)) (st : St) (s e : Nat) (w : WF st) (hz : ZF st.stmts)
    (ht : e ≠ 0 ∨ NoRec st.stmts st.cur) : ZF (elifHead st s e thn).stmts := by
  unfold elifHead
  have hcur := w.cur
  have i1 := (((w.i0.a0 (b := st.cur) (p := s) (q := e) (ty := .other) hcur).bump).e0 (a := st.cur) (b := st.next)
    (t := .condT) (by ob) (by ob)).c0 (x := st.next) (by ob)
  refine ih thn hsz il _ i1.wf hok hno hnz ?_
  simp only [setCur_stmts, edge_stmts, bump_stmts, add_stmts]
  exact hz.add_test ht

theorem elseTail_zf (ih : ZLN N) (orelse : List Stmt) (hsz : sizeL orelse ≤ N) (il : Bool) (hok : okLC il orelse = true)
    (hno : noSEL orelse = true) (hnz : NZ (spansL orelse)) (s3 : St) (w3 : WF s3) (cond te : Nat) (hcl : cond < s3.next)
    (hz : ZF s3.stmts) : ZF (elseTail s3 cond te orelse).stmts := by
  unfold elseTail
  exact ih orelse hsz il _ (branch_wf w3 hcl .condF) hok hno hnz (by simp only [setCur_stmts, edge_stmts, bump_stmts]; exact hz)

theorem noSEO_sgl_ite {s e : Nat} {a b : List Stmt} (h : noSEO [.ite s e a b] = true) : noSEL a = true ∧ noSEO b = true := by
  rw [noSEO_other _ (by intro _ _ _ _ h; cases h), noSEL_cons, noSEL_nil, Bool.and_true, noSES_ite, Bool.and_eq_true] at h
  exact h

theorem noSEO_sgl_elifc {s e : Nat} {a b : List Stmt} (h : noSEO [.elifc s e a b] = true) : noSEL a = true ∧ noSEO b = true := by
  rw [noSEO_elifc, Bool.and_eq_true] at h
  exact h

/-- the `elif` chain: the test record is located or is stored in a block without records -/
theorem elif_zf (ih : ZLN N) : ∀ (M : Nat) (thn orelse : List Stmt), sizeL thn + sizeL orelse ≤ M → sizeL thn ≤ N → sizeL orelse ≤ N →
    ∀ (il : Bool) (st : St) (s e fm : Nat), WF st → okLC il thn = true → okLC il orelse = true → noSEL thn = true →
      noSEO orelse = true → NZ (spansL thn) → NZ (spansL orelse) → ZF st.stmts → (e ≠ 0 ∨ NoRec st.stmts st.cur) →
      ZF (procIfElif st s e thn orelse fm).stmts := by
  intro M
  induction M with
  | zero =>
    intro thn orelse hM h1 h2 il st s e fm w hoka hokb hnoa hnob hnza hnzb hz ht
    have : orelse = [] := by
      rcases orelse with _ | ⟨o, os⟩
      · rfl
      · simp only [sizeL] at hM; omega
    subst this
    rw [procIfElif_nil]
    simp only [finishElif_stmts, edge_stmts]
    exact elifHead_zf ih thn h1 il hoka hnoa hnza st s e w hz ht
  | succ M ihM =>
    intro thn orelse hM h1 h2 il st s e fm w hoka hokb hnoa hnob hnza hnzb hz ht
    have hH := elifHead_zf ih thn h1 il hoka hnoa hnza st s e w hz ht
    obtain ⟨k, _, hnx⟩ := elifHead_frame' thn st s e w
    have hcur := w.cur
    have w4 := branch_wf k.wf (cond := st.cur) (by omega) .condF
    have hfresh : NoRec (elifHead st s e thn).stmts (elifHead st s e thn).next := NoRec.of_wf k.wf (Nat.le_refl _)
    rcases orelse_cases orelse with rfl | ⟨s', e', a, b, rfl⟩ | ⟨s', e', a, b, rfl⟩ | ⟨o, os, rfl, hne1, hne2⟩
    · rw [procIfElif_nil]
      simp only [finishElif_stmts, edge_stmts]
      exact hH
    · rw [procIfElif_elif]
      have hsz : sizeL a + sizeL b ≤ M ∧ sizeL a ≤ N ∧ sizeL b ≤ N := by
        simp only [sizeL, Stmt.size] at hM h2; omega
      obtain ⟨hoka', hokb'⟩ := sp_okLC_single_elifc hokb
      obtain ⟨hnoa', hnob'⟩ := noSEO_sgl_elifc hnob
      rw [spans_single_elifc] at hnzb
      simp only [finishElif_stmts]
      exact ihM a b hsz.1 hsz.2.1 hsz.2.2 il _ 0 0 fm w4 hoka' hokb' hnoa' hnob' hnzb.left hnzb.right
        (by simp only [setCur_stmts, edge_stmts, bump_stmts]; exact hH)
        (.inr (by simp only [setCur_stmts, edge_stmts, bump_stmts, setCur_cur]; exact hfresh))
    · rw [procIfElif_ite]
      have hsz : sizeL a + sizeL b ≤ M ∧ sizeL a ≤ N ∧ sizeL b ≤ N := by
        simp only [sizeL, Stmt.size] at hM h2; omega
      obtain ⟨hoka', hokb'⟩ := sp_okLC_single_ite hokb
      obtain ⟨hnoa', hnob'⟩ := noSEO_sgl_ite hnob
      rw [spans_single_ite] at hnzb
      simp only [finishElif_stmts]
      exact ihM a b hsz.1 hsz.2.1 hsz.2.2 il _ s' e' fm w4 hoka' hokb' hnoa' hnob' hnzb.tail.left hnzb.tail.right
        (by simp only [setCur_stmts, edge_stmts, bump_stmts]; exact hH)
        (.inr (by simp only [setCur_stmts, edge_stmts, bump_stmts, setCur_cur]; exact hfresh))
    · rw [procIfElif_else _ _ _ _ _ _ _ hne1 hne2]
      rw [noSEO_other _ hne1] at hnob
      have h5 := elseTail_zf ih (o :: os) h2 il hokb hnob hnzb _ k.wf st.cur (elifHead st s e thn).cur (by omega) hH
      simp only
      split
      · simp only [setCur_stmts, bumpU_stmts]; exact h5
      · simp only [finishElif_stmts, edgeUnlessExit_stmts]; exact h5

theorem elifTail_zf (ih : ZLN N) (thn' orelse' : List Stmt) (h1 : sizeL thn' ≤ N) (h2 : sizeL orelse' ≤ N)
    (il : Bool) (hoka : okLC il thn' = true) (hokb : okLC il orelse' = true) (hnoa : noSEL thn' = true) (hnob : noSEO orelse' = true)
    (hnza : NZ (spansL thn')) (hnzb : NZ (spansL orelse')) (st : St) (w : WF st) (cond te merge s' e' : Nat) (hcl : cond < st.next)
    (hz : ZF st.stmts) : ZF (procIfElifTail st cond te merge s' e' thn' orelse').stmts := by
  rw [procIfElifTail_eq]
  have h5 := elif_zf ih _ thn' orelse' (Nat.le_refl _) h1 h2 il (setCur ((bump st).edge cond st.next .condF) st.next) s' e' merge
    (branch_wf w hcl .condF) hoka hokb hnoa hnob hnza hnzb (by simp only [setCur_stmts, edge_stmts, bump_stmts]; exact hz)
    (.inr (by simp only [setCur_stmts, edge_stmts, bump_stmts, setCur_cur]; exact NoRec.of_wf w (Nat.le_refl _)))
  generalize procIfElif (setCur ((bump st).edge cond st.next .condF) st.next) s' e' thn' orelse' merge = s5 at h5 ⊢
  simp only
  split
  · split
    · exact h5
    · simp only [setCur_stmts, edgeUnlessExit_stmts]; exact h5
  · simp only [setCur_stmts, edgeUnlessExit_stmts]; exact h5

theorem if_zf (ih : ZLN N) (thn orelse : List Stmt) (h1 : sizeL thn ≤ N) (h2 : sizeL orelse ≤ N)
    (il : Bool) (hoka : okLC il thn = true) (hokb : okLC il orelse = true) (hnoa : noSEL thn = true) (hnob : noSEO orelse = true)
    (hnza : NZ (spansL thn)) (hnzb : NZ (spansL orelse)) (st : St) (w : WF st) (s e : Nat) (hz : ZF st.stmts)
    (ht : e ≠ 0 ∨ NoRec st.stmts st.cur) : ZF (procIf st s e thn orelse).stmts := by
  have hH := ifHead_zf ih thn h1 il hoka hnoa hnza st s e w hz ht
  obtain ⟨k, _, hnx⟩ := ifHead_frame' thn st s e w
  have hcur := w.cur
  rcases orelse_cases orelse with rfl | ⟨s', e', a, b, rfl⟩ | ⟨s', e', a, b, rfl⟩ | ⟨o, os, rfl, hne1, hne2⟩
  · rw [procIf_nil]
    simp only [setCur_stmts, edge_stmts, edgeUnlessExit_stmts]
    exact hH
  · rw [procIf_elif]
    have hsz : sizeL a ≤ N ∧ sizeL b ≤ N := by simp only [sizeL, Stmt.size] at h2; omega
    obtain ⟨hoka', hokb'⟩ := sp_okLC_single_elifc hokb
    obtain ⟨hnoa', hnob'⟩ := noSEO_sgl_elifc hnob
    rw [spans_single_elifc] at hnzb
    exact elifTail_zf ih a b hsz.1 hsz.2 il hoka' hokb' hnoa' hnob' hnzb.left hnzb.right _ k.wf _ _ _ 0 0 (by omega) hH
  · rw [procIf_ite]
    have hsz : sizeL a ≤ N ∧ sizeL b ≤ N := by simp only [sizeL, Stmt.size] at h2; omega
    obtain ⟨hoka', hokb'⟩ := sp_okLC_single_ite hokb
    obtain ⟨hnoa', hnob'⟩ := noSEO_sgl_ite hnob
    rw [spans_single_ite] at hnzb
    exact elifTail_zf ih a b hsz.1 hsz.2 il hoka' hokb' hnoa' hnob' hnzb.tail.left hnzb.tail.right _ k.wf _ _ _ s' e' (by omega) hH
  · rw [procIf_else _ _ _ _ _ _ hne1 hne2]
    rw [noSEO_other _ hne1] at hnob
    have h5 := elseTail_zf ih (o :: os) h2 il hokb hnob hnzb _ k.wf st.cur (ifHead st s e thn).cur (by omega) hH
    simp only
    split
    · simp only [setCur_stmts, bumpU_stmts]; exact h5
    · simp only [setCur_stmts, edgeUnlessExit_stmts]; exact h5

theorem ite_zf (ih : ZLN N) (thn orelse : List Stmt) (h1 : sizeL thn ≤ N) (h2 : sizeL orelse ≤ N) (s e : Nat) :
    ZQS (.ite s e thn orelse) := by
  intro il st w hok hno hnz hz
  rw [okSC_ite, Bool.and_eq_true] at hok
  rw [noSES_ite, Bool.and_eq_true] at hno
  rw [spansS_ite] at hnz
  rw [procStmt_ite]
  exact if_zf ih thn orelse h1 h2 il hok.1 hok.2 hno.1 hno.2 hnz.tail.left hnz.tail.right st w s e hz (.inl hnz.head)

/-! ### match -/
theorem cases_zf (ih : ZLN N) : ∀ (cs : List Stmt) (st : St) (mb merge : Nat) (il : Bool), sizeL cs ≤ N → WF st → mb < st.next →
    merge < st.next → okCasesC il cs = true → noSEL cs = true → NZ (spansL cs) → ZF st.stmts →
    ZF (procCases st cs mb merge).stmts := by
  intro cs
  induction cs with
  | nil =>
    intro st mb merge il _ _ _ _ _ _ _ hz
    rw [procCases_nil]; exact hz
  | cons x cs ihc =>
    intro st mb merge il hsz w hmb hml hok hno hnz hz
    obtain ⟨s, e, b, rfl, hokb, hokcs⟩ := okCasesC_cons hok
    have hszs : sizeL b ≤ N ∧ sizeL cs ≤ N := by simp only [sizeL, Stmt.size] at hsz; omega
    rw [noSEL_cons, noSES_case, Bool.and_eq_true] at hno
    rw [spansL_cons, spansS_case] at hnz
    rw [procCases_case]
    simp only
    have hcur := w.cur
    have i2 := ((w.i0.bump.e0 (a := mb) (b := st.next) (t := .condT) (by ob) (by ob)).c0 (x := st.next) (by ob)).a0
      (b := st.next) (p := s) (q := e) (ty := .other) (by ob)
    have j := procList_inv0 b _ i2.wf
    have k := i2.trans j
    have hjn := j.next_le
    have hk := k.wf.cur
    have k2 := k.u0 (a := _) (b := merge) (t := .normal) hk (by ob)
    refine ihc _ mb merge il hszs.2 k2.wf (by ob) (by ob) hokcs hno.2 hnz.right ?_
    rw [edgeUnlessExit_stmts]
    refine ih b hszs.1 il _ i2.wf hokb hno.1 hnz.left.tail ?_
    simp only [setCur_stmts, edge_stmts, bump_stmts, add_stmts]
    exact hz.add_nz hnz.left.head

theorem match_zf (ih : ZLN N) (cases : List Stmt) (hsz : sizeL cases ≤ N) (s e : Nat) : ZQS (.match_ s e cases) := by
  intro il st w hok hno hnz hz
  rw [okSC_match] at hok
  rw [noSES_match] at hno
  rw [spansS_match] at hnz
  rw [procStmt_match, procMatch_eq]
  have hcur := w.cur
  have i1 := ((w.i0.bump.e0 (a := st.cur) (b := st.next) (t := .normal) (by ob) (by ob)).a0 (b := st.next) (p := s) (q := e)
    (ty := .other) (by ob)).bump
  have hz1 : ZF (bump (((bump st).edge st.cur st.next .normal).add st.next s e .other)).stmts := by
    simp only [edge_stmts, bump_stmts, add_stmts]
    exact hz.add_nz hnz.head
  rcases cases with _ | ⟨c, cs⟩
  · simp only [List.isEmpty_nil, Bool.not_true, Bool.false_eq_true, ↓reduceIte, setCur_stmts, edge_stmts]
    exact hz1
  · simp only [List.isEmpty_cons, Bool.not_false, ↓reduceIte, setCur_stmts, edge_stmts]
    exact cases_zf ih (c :: cs) _ _ _ il hsz i1.wf (by ob) (by ob) hok hno hnz.tail hz1

/-! ### try -/
theorem handlers_zf (ih : ZLN N) : ∀ (hs : List Stmt) (hbs : List Nat) (st : St) (after : Nat) (il : Bool), sizeL hs ≤ N → WF st →
    (∀ hb ∈ hbs, hb < st.next) → after < st.next → okHsC il hs = true → noSEL hs = true → NZ (spansL hs) → ZF st.stmts →
    ZF (procHandlers st hs hbs after).stmts := by
  intro hs
  induction hs with
  | nil =>
    intro hbs st after il _ _ _ _ _ _ _ hz
    rw [procHandlers_nil_l]; exact hz
  | cons x hs ihh =>
    intro hbs st after il hsz w hhb hal hok hno hnz hz
    rcases hbs with _ | ⟨hb, hbs⟩
    · rw [procHandlers_nil_r]; exact hz
    obtain ⟨s, e, b, rfl, hokb, hokhs⟩ := okHsC_cons hok
    have hszs : sizeL b ≤ N ∧ sizeL hs ≤ N := by simp only [sizeL, Stmt.size] at hsz; omega
    rw [noSEL_cons, noSES_handler, Bool.and_eq_true] at hno
    rw [spansL_cons, spansS_handler] at hnz
    rw [procHandlers_handler]
    simp only
    have hbl := hhb hb (List.mem_cons_self ..)
    have i2 := (w.i0.c0 (x := hb) hbl).a0 (b := hb) (p := s) (q := e) (ty := .other) (by ob)
    have j := procList_inv0 b _ i2.wf
    have k := i2.trans j
    have hjn := j.next_le
    have hk := k.wf.cur
    have k2 := k.u0 (a := _) (b := after) (t := .normal) hk (by ob)
    refine ihh hbs _ after il hszs.2 k2.wf (fun y hy => by have := hhb y (List.mem_cons_of_mem _ hy); ob) (by ob) hokhs hno.2 hnz.right ?_
    rw [edgeUnlessExit_stmts]
    refine ih b hszs.1 il _ i2.wf hokb hno.1 hnz.left.tail ?_
    simp only [setCur_stmts, add_stmts]
    exact hz.add_nz hnz.left.head

theorem tryMid_zf (ih : ZLN N) (body handlers : List Stmt) (hb : sizeL body ≤ N) (hh : sizeL handlers ≤ N) (il : Bool)
    (hokb : okLC il body = true) (hokh : okHsC il handlers = true) (hnob : noSEL body = true) (hnoh : noSEL handlers = true)
    (hnzb : NZ (spansL body)) (hnzh : NZ (spansL handlers))
    (s3 : St) (w3 : WF s3) (tryB : Nat) (htl : tryB < s3.next)
    (cfin : Option Nat) (hcf : ∀ f, cfin = some f → f < s3.next) (excs0 : List Exc)
    (hx : ∀ cx ∈ excs0, (∀ f, cx.fin = some f → f < s3.next) ∧ ∀ h ∈ cx.handlers, h < s3.next)
    (nat ah : Nat) (hnat : nat < s3.next) (hah : ah < s3.next) (hz : ZF s3.stmts) :
    ZF (tryMid s3 tryB cfin excs0 nat ah body handlers).stmts := by
  unfold tryMid
  simp only
  have hmem : ∀ h ∈ (List.range handlers.length).map (fun k => s3.next + k), s3.next ≤ h ∧ h < s3.next + handlers.length := by
    intro h hh
    obtain ⟨k, hk, rfl⟩ := List.mem_map.mp hh
    have := List.mem_range.mp hk
    omega
  generalize (List.range handlers.length).map (fun k => s3.next + k) = hbs at hmem ⊢
  have i4 := ((w3.i0.bumpN handlers.length).setExcs (x := { fin := cfin, handlers := hbs, processingFinally := false } :: excs0) (by
    intro cx hcx
    rcases List.mem_cons.mp hcx with rfl | hcx
    · exact ⟨fun f hf => by have := hcf f hf; ob, fun h hh => by have := hmem h hh; ob⟩
    · exact ⟨fun f hf => by have := (hx cx hcx).1 f hf; ob, fun h hh => by have := (hx cx hcx).2 h hh; ob⟩)).c0
      (x := tryB) (by ob)
  have j := procList_inv0 body _ i4.wf
  have k5 := i4.trans j
  have hjn := j.next_le
  have hk5 := k5.wf.cur
  have k5' := k5.u0 (a := _) (b := nat) (t := .normal) hk5 (by ob)
  obtain ⟨k6, _, hn6, _⟩ := foldl_edges_frame (c := 0) (n := 0) tryB .exc hbs _ k5' (.inr (Nat.zero_le _)) (by ob)
    (fun h hh => by have := hmem h hh; ob)
  refine handlers_zf ih handlers hbs _ ah il hh k6.wf (fun h hh => by have := hmem h hh; rw [hn6]; ob) (by rw [hn6]; ob)
    hokh hnoh hnzh ?_
  rw [foldl_edge_stmts, edgeUnlessExit_stmts]
  refine ih body hb il _ i4.wf hokb hnob hnzb ?_
  simp only [setCur_stmts, setExcs_stmts, bumpN_stmts]
  exact hz

theorem tryElse_zf (ih : ZLN N) (orelse : List Stmt) (ho : sizeL orelse ≤ N) (il : Bool) (hok : okLC il orelse = true)
    (hno : noSEL orelse = true) (hnz : NZ (spansL orelse)) (s7 : St) (w7 : WF s7) (hasElse : Bool) (elseB ah : Nat)
    (he : hasElse = true → elseB < s7.next) (hz : ZF s7.stmts) : ZF (tryElse s7 hasElse elseB ah orelse).stmts := by
  unfold tryElse
  cases hasElse
  · exact hz
  · simp only [↓reduceIte, edgeUnlessExit_stmts]
    exact ih orelse ho il _ (w7.i0.c0 (x := elseB) (he rfl)).wf hok hno hnz (by rw [setCur_stmts]; exact hz)

theorem tryFin_zf (ih : ZLN N) (fin : List Stmt) (hf : sizeL fin ≤ N) (il : Bool) (hok : okLC il fin = true)
    (hno : noSEL fin = true) (hnz : NZ (spansL fin)) (s8 : St) (w8 : WF s8) (hasFin : Bool) (finB exitBk : Nat) (ctx : Exc)
    (excs0 : List Exc) (hex : s8.excs = ctx :: excs0) (hfb : hasFin = true → finB < s8.next) (hz : ZF s8.stmts) :
    ZF (tryFin s8 hasFin finB exitBk ctx excs0 fin).stmts := by
  unfold tryFin
  cases hasFin
  · exact hz
  · simp only [↓reduceIte, sp_finallyPropagation_stmts, edgeUnlessExit_stmts, setExcs_stmts]
    have hb := w8.excs
    rw [hex] at hb
    have i1 := (w8.i0.c0 (x := finB) (hfb rfl)).setExcs (x := { ctx with processingFinally := true } :: excs0) (by
      intro cx hcx
      rcases List.mem_cons.mp hcx with rfl | hcx
      · exact hb ctx (List.mem_cons_self ..)
      · exact hb cx (List.mem_cons_of_mem _ hcx))
    exact ih fin hf il _ i1.wf hok hno hnz (by simp only [setCur_stmts, setExcs_stmts]; exact hz)

theorem try_zf (ih : ZLN N) (body handlers orelse fin : List Stmt) (hb : sizeL body ≤ N) (hh : sizeL handlers ≤ N)
    (ho : sizeL orelse ≤ N) (hf : sizeL fin ≤ N) (s e : Nat) : ZQS (.try_ s e body handlers orelse fin) := by
  intro il st w hok hno hnz hz
  rw [okSC_try, Bool.and_eq_true, Bool.and_eq_true, Bool.and_eq_true] at hok
  rw [noSES_try, Bool.and_eq_true, Bool.and_eq_true, Bool.and_eq_true] at hno
  rw [spansS_try] at hnz
  rw [procStmt_try, procTry_eq']
  simp only [setExcs_stmts, setCur_stmts]
  generalize (!fin.isEmpty) = hasFin
  generalize (!orelse.isEmpty) = hasElse
  obtain ⟨k3, sm3, hn3, hF, hE⟩ := tryPre_frame (c := 0) (n := 0) st w (.inr (Nat.zero_le _)) (Nat.zero_le _) hasFin hasElse
  have hz3 : ZF (tryPre st hasFin hasElse).1.stmts := by rw [tryPre_stmts]; exact hz
  generalize tryPre st hasFin hasElse = p at *
  obtain ⟨s3, finB, elseB⟩ := p
  simp only at *
  have hcf : ∀ f, (if hasFin = true then some finB else none) = some f → f < s3.next := by
    intro f hf
    cases hasFin
    · simp at hf
    · simp only [↓reduceIte, Option.some.injEq] at hf; subst hf; exact (hF rfl).2
  have hah : (if hasFin = true then finB else st.next + 1) < s3.next := by
    cases hasFin
    · simp only [Bool.false_eq_true, ↓reduceIte]; omega
    · simp only [↓reduceIte]; exact (hF rfl).2
  have hnat : (if hasElse = true then elseB else if hasFin = true then finB else st.next + 1) < s3.next := by
    cases hasElse
    · simp only [Bool.false_eq_true, ↓reduceIte]; exact hah
    · simp only [↓reduceIte]; exact (hE rfl).2
  generalize (if hasFin = true then some finB else none) = cfin at *
  generalize (if hasElse = true then elseB else if hasFin = true then finB else st.next + 1) = nat at *
  generalize (if hasFin = true then finB else st.next + 1) = ah at *
  have hcur := w.cur
  obtain ⟨k7, l7, x7, hn7⟩ := tryMid_frame (frame_all N).1 (frame_all N).2 body handlers hb hh k3 (Nat.zero_le _) st.next
    (.inr (Nat.zero_le _)) (by omega) cfin hcf st.excs (w.excs_le (by omega)) nat ah hnat hah
  have hz7 := tryMid_zf ih body handlers hb hh il hok.1.1.1 hok.1.1.2 hno.1.1.1 hno.1.1.2 hnz.left.left.left hnz.left.left.right
    s3 k3.wf st.next (by omega) cfin hcf st.excs (w.excs_le (by omega)) nat ah hnat hah hz3
  obtain ⟨k8, sm8, hn8⟩ := tryElse_frame (frame_all N).2 orelse ho k7 (Nat.zero_le _) hasElse elseB ah
    (fun h => by have := hE h; omega) (by omega)
  have hz8 := tryElse_zf ih orelse ho il hok.1.2 hno.1.2 hnz.left.right _ k7.wf hasElse elseB ah
    (fun h => by have := hE h; omega) hz7
  exact tryFin_zf ih fin hf il hok.2 hno.2 hnz.right _ k8.wf hasFin finB (st.next + 1)
    { fin := cfin, handlers := (List.range handlers.length).map (fun k => s3.next + k), processingFinally := false } st.excs
    (by rw [sm8.excs, x7]) (fun h => by have := hF h; omega) hz8

/-! ### the main induction -/
theorem ZLN_succ (ihS : ZSN N) (ihL : ZLN N) : ZLN (N + 1) := by
  intro ss hsz il st w hok hno hnz hz
  rcases ss with _ | ⟨x, xs⟩
  · rw [procList_nil]; exact hz
  · have hszs : x.size ≤ N ∧ sizeL xs ≤ N := by simp only [sizeL] at hsz; omega
    rw [okLC_cons, Bool.and_eq_true] at hok
    rw [noSEL_cons, Bool.and_eq_true] at hno
    rw [spansL_cons] at hnz
    rw [procList_cons]
    exact ihL xs hszs.2 il _ (procStmt_inv0 x st w).wf hok.2 hno.2 hnz.right (ihS x hszs.1 il st w hok.1 hno.1 hnz.left hz)

theorem ZSN_succ (ihL : ZLN N) : ZSN (N + 1) := by
  intro x hsz
  cases x with
  | simple s e c h => exact simple_zf s e c h
  | ret s e c h => exact ret_zf s e c h
  | brk s e => exact brk_zf s e
  | cont s e => exact cont_zf s e
  | raise s e => exact raise_zf s e
  | def_ s e b => exact def_zf s e b
  | ite s e a b => simp only [Stmt.size] at hsz; exact ite_zf ihL a b (by omega) (by omega) s e
  | elifc s e a b => intro il st w hok hno; rw [noSES_elifc] at hno; cases hno
  | elsec s e a =>
    simp only [Stmt.size] at hsz
    intro il st w hok hno hnz hz
    rw [okSC_elsec] at hok
    rw [noSES_elsec] at hno
    rw [spansS_elsec] at hnz
    rw [procStmt_elsec]
    exact ihL a (by omega) il st w hok hno hnz hz
  | loop s e a b => simp only [Stmt.size] at hsz; exact loop_zf ihL a b (by omega) (by omega) s e
  | try_ s e a hs c d => simp only [Stmt.size] at hsz; exact try_zf ihL a hs c d (by omega) (by omega) (by omega) (by omega) s e
  | handler s e a => intro il st w hok; rw [okSC_handler] at hok; cases hok
  | with_ s e a => simp only [Stmt.size] at hsz; exact with_zf ihL a (by omega) s e
  | match_ s e a => simp only [Stmt.size] at hsz; exact match_zf ihL a (by omega) s e
  | case_ s e a => intro il st w hok; rw [okSC_case] at hok; cases hok
  | class_ s e a => simp only [Stmt.size] at hsz; exact class_zf ihL a (by omega) s e

theorem zf_all : ∀ N, ZSN N ∧ ZLN N := by
  intro N
  induction N with
  | zero =>
    constructor
    · intro x hsz; have := Stmt.size_pos x; omega
    · intro ss hsz il st w hok hno hnz hz
      rcases ss with _ | ⟨x, xs⟩
      · rw [procList_nil]; exact hz
      · simp only [sizeL] at hsz; omega
  | succ N ih => exact ⟨ZSN_succ ih.2, ZLN_succ ih.1 ih.2⟩

/-- **a record with end line 0 is the oldest record of its block** — statement lists without standalone `elif` clauses -/
theorem procList_zf (ss : List Stmt) : ZQL ss := (zf_all (sizeL ss)).2 ss (Nat.le_refl _)

/-- the whole definition -/
theorem build_zf (k : Kind) (s e : Nat) (body : List Stmt) (hok : okLC false body = true) (hno : noSEL body = true)
    (hnz : NZ (spansL body)) (hse : k = .cls → e ≠ 0) : ZF (build k s e body).stmts := by
  rw [build_eq, finishB_stmts]
  refine procList_zf body false _ (preB_inv k s e).wf hok hno hnz ?_
  cases k
  · trivial
  · exact ZF.add_nz (L := []) trivial (hse rfl)
  · trivial

end PV.CFGSound

#print axioms PV.CFGSound.procList_zf
#print axioms PV.CFGSound.build_zf
