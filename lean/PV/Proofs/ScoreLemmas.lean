import PV.Generated.Score
import PV.Proofs.ArithLemmas
/-!
Helper lemmas about the TRANSLATED scoring functions (`PV.Generated.Score`, regenerated from
`/repo/domain/analyze.go` on every run).  Property theorems are in `PV/Properties/C15.lean`.
-/
namespace PV.Score
open PV PV.MA PV.Generated.Score Arith
variable {F : Type} [MonoArith F]

/-- Inputs the real pipeline can produce: counts are lengths/counters, hence non-negative. -/
structure CountsNonneg (s : AnalyzeSummary F) : Prop where
  crit : 0 ≤ s.CriticalDeadCode
  warn : 0 ≤ s.WarningDeadCode
  info : 0 ≤ s.InfoDeadCode
  cboC : 0 ≤ s.CBOClasses
  cboH : 0 ≤ s.HighCouplingClasses
  cboM : 0 ≤ s.MediumCouplingClasses
  lcomC : 0 ≤ s.LCOMClasses
  lcomH : 0 ≤ s.HighLCOMClasses
  lcomM : 0 ≤ s.MediumLCOMClasses
  mods : 0 ≤ s.DepsTotalModules
  cyc : 0 ≤ s.DepsModulesInCycles
  depth : 0 ≤ s.DepsMaxDepth

/-- the normalization factor `CalculateHealthScore` computes from `TotalFiles` -/
def normFactor (s : AnalyzeSummary F) : F :=
  if s.TotalFiles > 10 then (Arith.lit 1 1 : F) + Arith.log10 ((Arith.ofInt s.TotalFiles : F) / (Arith.lit 10 1 : F))
  else (Arith.lit 1 1 : F)

theorem normFactor_pos (s : AnalyzeSummary F) : (z : F) < normFactor s := by
  unfold normFactor
  split
  · next h =>
    apply add_pos_l (lit_pos (by decide) (by decide))
    apply MonoArith.log10_nonneg
    -- 1 ≤ files / 10  because  10/10 ≤ files/10 and 10/10 … we use monotonicity from lit 10 ≤ ofInt files
    have h10 : (Arith.lit 10 1 : F) ≤ Arith.ofInt s.TotalFiles := by
      rw [MonoArith.ofInt_lit]; exact lit_le (by decide) (by decide) (by omega)
    have hpos : (z : F) < (Arith.lit 10 1 : F) := lit_pos (by decide) (by decide)
    have := div_le_div_l (Arith.lit 10 1 : F) hpos h10
    rw [show (Arith.lit 10 1 : F) / (Arith.lit 10 1 : F) = Arith.lit 1 1 from MonoArith.div_self _ hpos] at this
    exact this
  · exact lit_pos (by decide) (by decide)


/-! ### normal forms of the translated penalties (each is `rfl`: a changed formula breaks it) -/

theorem cx_eq (s : AnalyzeSummary F) : calculateComplexityPenalty F s =
    if s.AverageComplexity ≤ (Arith.lit 2 1 : F) then 0
    else roundI (capHi ((s.AverageComplexity - Arith.lit 2 1) / Arith.lit 13 1 * Arith.lit 20 1) (Arith.lit 20 1)) := rfl

theorem dup_eq (s : AnalyzeSummary F) : calculateDuplicationPenalty F s =
    if s.CodeDuplication ≤ (Arith.lit 0 1 : F) then 0
    else roundI (capHi ((s.CodeDuplication - Arith.lit 0 1) / Arith.lit 10 1 * Arith.lit 20 1) (Arith.lit 20 1)) := rfl

/-- shared shape of the complexity and duplication penalties -/
def rampPenalty (x lo width : F) : Int :=
  if x ≤ lo then 0 else roundI (capHi ((x - lo) / width * Arith.lit 20 1) (Arith.lit 20 1))

theorem ramp_nonneg (x lo width : F) (hw : (z : F) < width) : 0 ≤ rampPenalty x lo width := by
  unfold rampPenalty; split
  · exact Int.le_refl 0
  · next h =>
    apply roundI_nonneg
    apply le_capHi _ (lit_le (by decide) (by decide) (by decide))
    exact mul_nonneg (div_nonneg (sub_nonneg (le_of_not_le h)) hw) (lit_le (by decide) (by decide) (by decide))

theorem ramp_le (x lo width : F) : rampPenalty x lo width ≤ 20 := by
  unfold rampPenalty; split
  · decide
  · have := roundI_mono (capHi_le ((x - lo) / width * Arith.lit 20 1) (Arith.lit 20 1 : F))
    rwa [roundI_lit (by decide)] at this

theorem ramp_mono {x y : F} (lo width : F) (hw : (z : F) < width) (h : x ≤ y) :
    rampPenalty x lo width ≤ rampPenalty y lo width := by
  unfold rampPenalty; split <;> split
  · exact Int.le_refl 0
  · next h₁ h₂ =>
    have := ramp_nonneg y lo width hw
    unfold rampPenalty at this; rwa [if_neg h₂] at this
  · next h₁ h₂ => exact absurd (le_tr h h₂) h₁
  · apply roundI_mono; apply capHi_mono
    exact mul_le_mul_l _ (lit_le (by decide) (by decide) (by decide)) (div_le_div_l _ hw (sub_le_sub_l lo h))


/-! ### dead-code penalty -/

def deadWeight (c w i : Int) : F :=
  (Arith.ofInt c : F) * Arith.lit 1 1 + (Arith.ofInt w : F) * Arith.lit 1 2 +
    (Arith.ofInt i : F) * Arith.lit 3602879701896397 18014398509481984

def dcPenalty (w n : F) : Int :=
  if w ≤ (Arith.lit 0 1 : F) then 0 else Arith.trunc (Arith.fmin (Arith.lit 20 1 : F) (w / n))

theorem dc_eq (s : AnalyzeSummary F) (n : F) : calculateDeadCodePenalty F s n =
    dcPenalty (deadWeight s.CriticalDeadCode s.WarningDeadCode s.InfoDeadCode) n := rfl

theorem deadWeight_mono {c c' w w' i i' : Int} (hc : c ≤ c') (hw : w ≤ w') (hi : i ≤ i') :
    (deadWeight c w i : F) ≤ deadWeight c' w' i' := by
  unfold deadWeight
  exact add_le_add (add_le_add
    (mul_le_mul_l _ (lit_le (by decide) (by decide) (by decide)) (ofInt_le hc))
    (mul_le_mul_l _ (lit_le (by decide) (by decide) (by decide)) (ofInt_le hw)))
    (mul_le_mul_l _ (lit_le (by decide) (by decide) (by decide)) (ofInt_le hi))

theorem dc_nonneg (w n : F) (hn : (z : F) < n) : 0 ≤ dcPenalty w n := by
  unfold dcPenalty; split
  · exact Int.le_refl 0
  · next h =>
    apply trunc_nonneg
    exact MonoArith.le_fmin _ _ _ (lit_le (by decide) (by decide) (by decide)) (div_nonneg (le_of_not_le h) hn)

theorem dc_le (w n : F) : dcPenalty w n ≤ 20 := by
  unfold dcPenalty; split
  · decide
  · have := MonoArith.trunc_mono _ _ (MonoArith.fmin_le_l (Arith.lit 20 1 : F) (w / n))
    rwa [trunc_lit' (by decide)] at this

theorem dc_mono {w w' : F} (n : F) (hn : (z : F) < n) (h : w ≤ w') : dcPenalty w n ≤ dcPenalty w' n := by
  unfold dcPenalty; split <;> split
  · exact Int.le_refl 0
  · next h₁ h₂ =>
    have := dc_nonneg w' n hn
    unfold dcPenalty at this; rwa [if_neg h₂] at this
  · next h₁ h₂ => exact absurd (le_tr h h₂) h₁
  · exact MonoArith.trunc_mono _ _ (fmin_mono_r _ (div_le_div_l _ hn h))

/-! ### coupling / cohesion penalty -/

def ratioPenalty (h m c : Int) (k : F) : Int :=
  if c = 0 then 0
  else roundI (capHi (((Arith.ofInt h : F) + Arith.lit 1 2 * (Arith.ofInt m : F)) / (Arith.ofInt c : F) / k * Arith.lit 20 1)
                     (Arith.lit 20 1))

theorem cpl_eq (s : AnalyzeSummary F) : calculateCouplingPenalty F s =
    ratioPenalty s.HighCouplingClasses s.MediumCouplingClasses s.CBOClasses (Arith.lit 1 4 : F) := rfl
theorem coh_eq (s : AnalyzeSummary F) : calculateCohesionPenalty F s =
    ratioPenalty s.HighLCOMClasses s.MediumLCOMClasses s.LCOMClasses (Arith.lit 5404319552844595 18014398509481984 : F) := rfl

theorem ratio_le (h m c : Int) (k : F) : ratioPenalty h m c k ≤ 20 := by
  unfold ratioPenalty; split
  · decide
  · have := roundI_mono (capHi_le
      (((Arith.ofInt h : F) + Arith.lit 1 2 * (Arith.ofInt m : F)) / (Arith.ofInt c : F) / k * Arith.lit 20 1) (Arith.lit 20 1 : F))
    rwa [roundI_lit (by decide)] at this

theorem ratio_nonneg {h m c : Int} (k : F) (hk : (z : F) < k) (hh : 0 ≤ h) (hm : 0 ≤ m) (hc : 0 ≤ c) :
    0 ≤ ratioPenalty h m c k := by
  unfold ratioPenalty; split
  · exact Int.le_refl 0
  · next h0 =>
    apply roundI_nonneg
    apply le_capHi _ (lit_le (by decide) (by decide) (by decide))
    apply mul_nonneg _ (lit_le (by decide) (by decide) (by decide))
    apply div_nonneg _ hk
    apply div_nonneg _ (ofInt_pos (by omega))
    exact add_nonneg (ofInt_nonneg hh) (mul_nonneg (lit_le (by decide) (by decide) (by decide)) (ofInt_nonneg hm))

theorem ratio_mono {h h' m m' : Int} (c : Int) (k : F) (hk : (z : F) < k) (hc : 0 ≤ c) (hh : h ≤ h') (hm : m ≤ m') :
    ratioPenalty h m c k ≤ ratioPenalty h' m' c k := by
  unfold ratioPenalty; split
  · exact Int.le_refl 0
  · next h0 =>
    apply roundI_mono; apply capHi_mono
    apply mul_le_mul_l _ (lit_le (by decide) (by decide) (by decide))
    apply div_le_div_l _ hk
    apply div_le_div_l _ (ofInt_pos (by omega))
    exact add_le_add (ofInt_le hh) (mul_le_mul_r _ (lit_le (by decide) (by decide) (by decide)) (ofInt_le hm))


/-! ### dependency penalty = cycles part + depth part + main-sequence-deviation part -/

def cycPart (cyc total : Int) : Int :=
  if total > 0 then
    roundI ((Arith.lit 10 1 : F) * capHi (capLo ((Arith.ofInt cyc : F) / (Arith.ofInt total : F)) (Arith.lit 0 1)) (Arith.lit 1 1))
  else 0

def expectedDepth (total : Int) : Int :=
  Arith.trunc (Arith.fmax (Arith.lit 3 1 : F)
    (Arith.ceil (Arith.log2 ((Arith.ofInt total : F) + Arith.lit 1 1)) + Arith.lit 1 1))

def clampI (x lo hi : Int) : Int :=
  let x := if x < lo then lo else x
  if x > hi then hi else x

def depthPart (depth total : Int) : Int :=
  if total > 0 then clampI (depth - expectedDepth (F := F) total) 0 3 else 0

def msdPart (msd : F) : Int :=
  if msd > (Arith.lit 0 1 : F) then roundI (capHi (capLo msd (Arith.lit 0 1)) (Arith.lit 1 1) * Arith.lit 3 1) else 0

theorem dep_eq_acc (s : AnalyzeSummary F) : calculateDependencyPenalty F s =
    if ¬ (s.DepsEnabled = true) then 0
    else
      let p0 : Int := 0
      let p1 := if s.DepsTotalModules > 0 then
          p0 + roundI ((Arith.lit 10 1 : F) * capHi (capLo ((Arith.ofInt s.DepsModulesInCycles : F) / (Arith.ofInt s.DepsTotalModules : F)) (Arith.lit 0 1)) (Arith.lit 1 1))
        else p0
      let p2 := if s.DepsTotalModules > 0 then p1 + clampI (s.DepsMaxDepth - expectedDepth (F := F) s.DepsTotalModules) 0 3 else p1
      let p3 := if s.DepsMainSequenceDeviation > (Arith.lit 0 1 : F) then
          p2 + roundI (capHi (capLo s.DepsMainSequenceDeviation (Arith.lit 0 1)) (Arith.lit 1 1) * Arith.lit 3 1)
        else p2
      p3 := rfl

theorem dep_eq (s : AnalyzeSummary F) : calculateDependencyPenalty F s =
    if ¬ (s.DepsEnabled = true) then 0
    else cycPart (F := F) s.DepsModulesInCycles s.DepsTotalModules
           + depthPart (F := F) s.DepsMaxDepth s.DepsTotalModules + msdPart s.DepsMainSequenceDeviation := by
  rw [dep_eq_acc]; unfold cycPart depthPart msdPart
  split
  · rfl
  · simp only []
    split <;> split <;> omega

theorem clampI_bounds (x lo hi : Int) (h : lo ≤ hi) : lo ≤ clampI x lo hi ∧ clampI x lo hi ≤ hi := by
  unfold clampI; simp only []; split <;> split <;> omega
theorem clampI_mono {x y : Int} (lo hi : Int) (h : x ≤ y) : clampI x lo hi ≤ clampI y lo hi := by
  unfold clampI; simp only []; split <;> split <;> split <;> (try split) <;> omega

theorem unit_clamp_bounds (a : F) : (z : F) ≤ capHi (capLo a (Arith.lit 0 1)) (Arith.lit 1 1) ∧
    capHi (capLo a (Arith.lit 0 1)) (Arith.lit 1 1) ≤ (Arith.lit 1 1 : F) :=
  ⟨le_capHi (capLo_ge _ _) (lit_le (by decide) (by decide) (by decide)), capHi_le _ _⟩
theorem unit_clamp_mono {a b : F} (h : a ≤ b) :
    capHi (capLo a (Arith.lit 0 1)) (Arith.lit 1 1 : F) ≤ capHi (capLo b (Arith.lit 0 1)) (Arith.lit 1 1) :=
  capHi_mono _ (capLo_mono _ h)

theorem cyc_bounds (cyc total : Int) : 0 ≤ cycPart (F := F) cyc total ∧ cycPart (F := F) cyc total ≤ 10 := by
  unfold cycPart; split
  · have hb := unit_clamp_bounds ((Arith.ofInt cyc : F) / (Arith.ofInt total : F))
    constructor
    · exact roundI_nonneg (mul_nonneg (lit_le (by decide) (by decide) (by decide)) hb.1)
    · have := roundI_mono (mul_le_mul_r (Arith.lit 10 1 : F) (lit_le (by decide) (by decide) (by decide)) hb.2)
      rw [mul_one'] at this
      rwa [roundI_lit (by decide)] at this
  · exact ⟨Int.le_refl 0, by decide⟩

theorem cyc_mono {cyc cyc' : Int} (total : Int) (h : cyc ≤ cyc') : cycPart (F := F) cyc total ≤ cycPart (F := F) cyc' total := by
  unfold cycPart; split
  · next ht =>
    apply roundI_mono
    apply mul_le_mul_r _ (lit_le (by decide) (by decide) (by decide))
    exact unit_clamp_mono (div_le_div_l _ (ofInt_pos ht) (ofInt_le h))
  · exact Int.le_refl 0

theorem depth_bounds (d total : Int) : 0 ≤ depthPart (F := F) d total ∧ depthPart (F := F) d total ≤ 3 := by
  unfold depthPart; split
  · exact clampI_bounds _ 0 3 (by decide)
  · exact ⟨Int.le_refl 0, by decide⟩
theorem depth_mono {d d' : Int} (total : Int) (h : d ≤ d') : depthPart (F := F) d total ≤ depthPart (F := F) d' total := by
  unfold depthPart; split
  · exact clampI_mono 0 3 (by omega)
  · exact Int.le_refl 0

theorem msd_bounds (m : F) : 0 ≤ msdPart m ∧ msdPart m ≤ 3 := by
  unfold msdPart; split
  · have hb := unit_clamp_bounds m
    constructor
    · exact roundI_nonneg (mul_nonneg hb.1 (lit_le (by decide) (by decide) (by decide)))
    · have := roundI_mono (mul_le_mul_l (Arith.lit 3 1 : F) (lit_le (by decide) (by decide) (by decide)) hb.2)
      rw [one_mul'] at this
      rwa [roundI_lit (by decide)] at this
  · exact ⟨Int.le_refl 0, by decide⟩
theorem msd_mono {m m' : F} (h : m ≤ m') : msdPart m ≤ msdPart m' := by
  unfold msdPart; split <;> split
  · exact roundI_mono (mul_le_mul_l _ (lit_le (by decide) (by decide) (by decide)) (unit_clamp_mono h))
  · next h₁ h₂ => exact absurd (lt_of_lt_of_le (show (Arith.lit 0 1 : F) < m from h₁) h) h₂
  · next h₁ h₂ =>
    have := (msd_bounds m').1
    unfold msdPart at this; rwa [if_pos h₂] at this
  · exact Int.le_refl 0

/-! ### architecture penalty -/

def archPart (comp : F) : Int :=
  roundI ((Arith.lit 12 1 : F) * ((Arith.lit 1 1 : F) - capHi (capLo comp (Arith.lit 0 1)) (Arith.lit 1 1)))

theorem arch_eq (s : AnalyzeSummary F) : calculateArchitecturePenalty F s =
    if ¬ (s.ArchEnabled = true) then 0 else archPart s.ArchCompliance := rfl

theorem arch_bounds (c : F) : 0 ≤ archPart c ∧ archPart c ≤ 12 := by
  unfold archPart
  have hb := unit_clamp_bounds c
  constructor
  · exact roundI_nonneg (mul_nonneg (lit_le (by decide) (by decide) (by decide)) (sub_nonneg hb.2))
  · have h1 : (Arith.lit 1 1 : F) - capHi (capLo c (Arith.lit 0 1)) (Arith.lit 1 1) ≤ (Arith.lit 1 1 : F) - Arith.lit 0 1 :=
      sub_le_sub_r _ hb.1
    rw [sub_zero'] at h1
    have := roundI_mono (mul_le_mul_r (Arith.lit 12 1 : F) (lit_le (by decide) (by decide) (by decide)) h1)
    rw [mul_one'] at this
    rwa [roundI_lit (by decide)] at this
/-- lower compliance ⇒ higher penalty -/
theorem arch_anti {c c' : F} (h : c' ≤ c) : archPart c ≤ archPart c' := by
  unfold archPart
  exact roundI_mono (mul_le_mul_r _ (lit_le (by decide) (by decide) (by decide)) (sub_le_sub_r _ (unit_clamp_mono h)))

end PV.Score
