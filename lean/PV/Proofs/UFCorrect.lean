import PV.Model.UF
/-!
Correctness of the union-find mirror `PV.UF` (`PV/Model/UF.lean`): for every `n` and every edge list,
two vertices `< n` end up with the same root iff they are connected in the undirected graph of the
in-range edges, and `components` is the partition of `0 … n-1` into connected components.
No bound on sizes, no `sorry`, no axioms beyond the three standard ones.
-/
namespace PV.UF

/-! ## roots -/

/-- `r` is the root reached from `x` by following parent links -/
inductive Root (p : Nat → Nat) : Nat → Nat → Prop
  | base {r : Nat} : p r = r → Root p r r
  | step {x r : Nat} : p x ≠ x → Root p (p x) r → Root p x r

/-- … in exactly `k` links -/
inductive RootN (p : Nat → Nat) : Nat → Nat → Nat → Prop
  | base {r : Nat} : p r = r → RootN p 0 r r
  | step {k x r : Nat} : p x ≠ x → RootN p k (p x) r → RootN p (k + 1) x r

theorem RootN.toRoot {p : Nat → Nat} {k x r : Nat} (h : RootN p k x r) : Root p x r := by
  induction h with
  | base h => exact .base h
  | step hx _ ih => exact .step hx ih

theorem Root.isRoot {p : Nat → Nat} {x r : Nat} (h : Root p x r) : p r = r := by
  induction h with
  | base h => exact h
  | step _ _ ih => exact ih

theorem Root.unique {p : Nat → Nat} {x r r' : Nat} (h : Root p x r) (h' : Root p x r') : r = r' := by
  induction h with
  | base hr =>
    cases h' with
    | base _ => rfl
    | step hx _ => exact absurd hr hx
  | step hx _ ih =>
    cases h' with
    | base hr => exact absurd hr hx
    | step _ h2 => exact ih h2

theorem Root.of_isRoot {p : Nat → Nat} {x r : Nat} (hx : p x = x) (h : Root p x r) : r = x :=
  (Root.unique h (.base hx))

theorem Root.ne {p : Nat → Nat} {x r : Nat} (hx : p x ≠ x) (h : Root p x r) : r ≠ x := by
  intro e; subst e; exact hx h.isRoot

/-- same class -/
def Same (p : Nat → Nat) (u v : Nat) : Prop := ∃ r, Root p u r ∧ Root p v r

theorem Same.symm {p : Nat → Nat} {u v : Nat} (h : Same p u v) : Same p v u :=
  let ⟨r, a, b⟩ := h; ⟨r, b, a⟩

theorem Same.trans {p : Nat → Nat} {u v w : Nat} (h : Same p u v) (h' : Same p v w) : Same p u w := by
  obtain ⟨r, a, b⟩ := h
  obtain ⟨r', c, d⟩ := h'
  have := Root.unique b c
  subst this
  exact ⟨r, a, d⟩

/-! ## path compression -/

/-- `p'` is `p` with some non-root vertices re-pointed to their root -/
def Compressed (p p' : Nat → Nat) : Prop := ∀ y, p' y = p y ∨ (p y ≠ y ∧ Root p y (p' y))

theorem Compressed.refl (p : Nat → Nat) : Compressed p p := fun _ => .inl rfl

theorem Compressed.isRoot_iff {p p' : Nat → Nat} (h : Compressed p p') (y : Nat) :
    p' y = y ↔ p y = y := by
  rcases h y with e | ⟨hy, hr⟩
  · rw [e]
  · constructor
    · intro e; rw [e] at hr; exact absurd hr.isRoot hy
    · intro e; exact absurd e hy

/-- compression does not change the root of any vertex -/
theorem Compressed.root {p p' : Nat → Nat} (h : Compressed p p') {y t : Nat} (hr : Root p y t) :
    Root p' y t := by
  induction hr with
  | base ht => exact .base ((h.isRoot_iff _).2 ht)
  | @step y t hy hr ih =>
    have ht : p' t = t := (h.isRoot_iff _).2 hr.isRoot
    rcases h y with e | ⟨_, hr'⟩
    · exact .step (by rw [e]; exact hy) (by rw [e]; exact ih)
    · have e : p' y = t := Root.unique hr' (.step hy hr)
      have hne : t ≠ y := Root.ne hy (.step hy hr)
      exact .step (by rw [e]; exact hne) (by rw [e]; exact .base ht)

theorem Compressed.trans {p p' p'' : Nat → Nat} (h : Compressed p p') (h' : Compressed p' p'')
    (hex : ∀ y, ∃ t, Root p y t) : Compressed p p'' := by
  intro y
  rcases h' y with e | ⟨hy, hr⟩
  · rw [e]; exact h y
  · right
    have hy0 : p y ≠ y := fun e => hy ((h.isRoot_iff y).2 e)
    refine ⟨hy0, ?_⟩
    obtain ⟨t, ht⟩ := hex y
    have := Root.unique (h.root ht) hr
    rw [← this]; exact ht

/-- the specification of `find`: with enough fuel it returns the root, leaves the ranks alone and only
compresses paths -/
theorem find_spec (fuel : Nat) : ∀ (s : State) (x k r : Nat), RootN s.parent k x r → k ≤ fuel →
    (find fuel s x).2 = r ∧ (find fuel s x).1.rank = s.rank ∧
      Compressed s.parent (find fuel s x).1.parent := by
  induction fuel with
  | zero =>
    intro s x k r h hk
    cases h with
    | base hr => exact ⟨rfl, rfl, Compressed.refl _⟩
    | step _ _ => omega
  | succ f ih =>
    intro s x k r h hk
    cases h with
    | base hr => simp [find, hr, Compressed.refl]
    | @step k' _ _ hx hr =>
      obtain ⟨e1, e2, e3⟩ := ih s (s.parent x) k' r hr (by omega)
      simp only [find, hx, if_false]
      refine ⟨e1, e2, ?_⟩
      intro y
      by_cases hyx : y = x
      · subst hyx
        right
        refine ⟨hx, ?_⟩
        simp only [upd, if_true, e1]
        exact (RootN.step hx hr).toRoot
      · simp only [upd, hyx, if_false]
        exact e3 y

/-- more fuel than the depth of `x` changes nothing -/
theorem find_fuel (fuel : Nat) : ∀ (s : State) (x k r : Nat), RootN s.parent k x r → k ≤ fuel →
    find fuel s x = find k s x := by
  induction fuel with
  | zero =>
    intro s x k r h hk
    have : k = 0 := by omega
    subst this; rfl
  | succ f ih =>
    intro s x k r h hk
    cases h with
    | base hr => simp [find, hr]
    | @step k' _ _ hx hr =>
      simp only [find, hx, if_false]
      rw [ih s (s.parent x) k' r hr (by omega)]

theorem rootOfAux_spec {p : Nat → Nat} (fuel : Nat) : ∀ (x k r : Nat), RootN p k x r → k ≤ fuel →
    rootOfAux p fuel x = r := by
  induction fuel with
  | zero =>
    intro x k r h hk
    cases h with
    | base hr => rfl
    | step _ _ => omega
  | succ f ih =>
    intro x k r h hk
    cases h with
    | base hr => simp [rootOfAux, hr]
    | @step k' _ _ hx hr =>
      simp only [rootOfAux, hx, if_false]
      exact ih _ k' r hr (by omega)

/-! ## the invariant -/

/-- number of non-root vertices among `0 … n-1` -/
def nonRoots (n : Nat) (p : Nat → Nat) : Nat := (List.range n).countP (fun y => decide (p y ≠ y))

theorem nonRoots_le (n : Nat) (p : Nat → Nat) : nonRoots n p ≤ n := by
  have := List.countP_le_length (p := fun y => decide (p y ≠ y)) (l := List.range n)
  simpa [nonRoots] using this

theorem countP_lt_of_imp {α : Type} {p q : α → Bool} {l : List α} (h : ∀ y, p y = true → q y = true)
    {a : α} (ha : a ∈ l) (hpa : p a = false) (hqa : q a = true) :
    List.countP p l < List.countP q l := by
  induction l with
  | nil => cases ha
  | cons b t ih =>
    have hmono : List.countP p t ≤ List.countP q t := List.countP_mono_left (fun y _ => h y)
    rcases List.mem_cons.1 ha with e | hat
    · subst e
      rw [List.countP_cons_of_neg (by simp [hpa]), List.countP_cons_of_pos hqa]
      omega
    · have := ih hat
      by_cases hb : p b = true
      · rw [List.countP_cons_of_pos hb, List.countP_cons_of_pos (h b hb)]; omega
      · rw [List.countP_cons_of_neg hb]
        have : List.countP q t ≤ List.countP q (b :: t) := by
          rw [List.countP_cons]; omega
        omega

/-- The union-find invariant: the forest stays inside `0 … n-1`, ranks strictly increase along
parent links (so the forest is acyclic), and every rank is bounded by the number of non-roots
(every rank increment comes with a root becoming a non-root), hence by `n`. -/
structure Inv (n : Nat) (s : State) : Prop where
  lt : ∀ x, x < n → s.parent x < n
  out : ∀ x, n ≤ x → s.parent x = x
  rankInc : ∀ x, s.parent x ≠ x → s.rank x < s.rank (s.parent x)
  rankBound : ∀ x, s.rank x ≤ nonRoots n s.parent

theorem inv_init (n : Nat) : Inv n init :=
  { lt := fun _ h => h
    out := fun _ _ => rfl
    rankInc := fun _ h => absurd rfl h
    rankBound := fun _ => Nat.zero_le _ }

theorem Inv.rank_le {n : Nat} {s : State} (h : Inv n s) (x : Nat) : s.rank x ≤ n :=
  Nat.le_trans (h.rankBound x) (nonRoots_le _ _)

/-- under the invariant every vertex reaches a root in at most `n` links: fuel `n` suffices -/
theorem Inv.exists_rootN {n : Nat} {s : State} (h : Inv n s) (x : Nat) :
    ∃ k r, k ≤ n ∧ RootN s.parent k x r := by
  have key : ∀ d x, nonRoots n s.parent ≤ s.rank x + d → ∃ k r, k ≤ d ∧ RootN s.parent k x r := by
    intro d
    induction d with
    | zero =>
      intro x hx
      by_cases hr : s.parent x = x
      · exact ⟨0, x, Nat.le_refl _, .base hr⟩
      · have := h.rankInc x hr
        have := h.rankBound (s.parent x)
        omega
    | succ d ih =>
      intro x hx
      by_cases hr : s.parent x = x
      · exact ⟨0, x, Nat.zero_le _, .base hr⟩
      · have := h.rankInc x hr
        obtain ⟨k, r, hk, hkr⟩ := ih (s.parent x) (by omega)
        exact ⟨k + 1, r, by omega, .step hr hkr⟩
  exact key n x (by have := nonRoots_le n s.parent; omega)

theorem Inv.exists_root {n : Nat} {s : State} (h : Inv n s) (x : Nat) : ∃ r, Root s.parent x r :=
  let ⟨_, r, _, hr⟩ := h.exists_rootN x; ⟨r, hr.toRoot⟩

theorem Inv.same_refl {n : Nat} {s : State} (h : Inv n s) (x : Nat) : Same s.parent x x :=
  let ⟨r, hr⟩ := h.exists_root x; ⟨r, hr, hr⟩

theorem Inv.root_lt {n : Nat} {s : State} (h : Inv n s) {x r : Nat} (hr : Root s.parent x r)
    (hx : x < n) : r < n := by
  induction hr with
  | base _ => exact hx
  | step _ _ ih => exact ih (h.lt _ hx)

theorem Inv.rank_le_root {n : Nat} {s : State} (h : Inv n s) {x r : Nat} (hr : Root s.parent x r) :
    s.rank x ≤ s.rank r := by
  induction hr with
  | base _ => exact Nat.le_refl _
  | step hx _ ih => exact Nat.le_of_lt (Nat.lt_of_lt_of_le (h.rankInc _ hx) ih)

theorem Inv.rank_lt_root {n : Nat} {s : State} (h : Inv n s) {x r : Nat} (hx : s.parent x ≠ x)
    (hr : Root s.parent x r) : s.rank x < s.rank r := by
  cases hr with
  | base e => exact absurd e hx
  | step _ hr' => exact Nat.lt_of_lt_of_le (h.rankInc _ hx) (h.rank_le_root hr')

theorem nonRoots_congr {n : Nat} {p p' : Nat → Nat} (h : ∀ y, p' y = y ↔ p y = y) :
    nonRoots n p' = nonRoots n p := by
  unfold nonRoots
  apply List.countP_congr
  intro y _
  simp [h y]

/-- path compression preserves the invariant -/
theorem Inv.compressed {n : Nat} {s s' : State} (h : Inv n s) (hc : Compressed s.parent s'.parent)
    (hr : s'.rank = s.rank) : Inv n s' := by
  refine ⟨?_, ?_, ?_, ?_⟩
  · intro x hx
    rcases hc x with e | ⟨_, hroot⟩
    · rw [e]; exact h.lt x hx
    · exact h.root_lt hroot hx
  · intro x hx
    exact (hc.isRoot_iff x).2 (h.out x hx)
  · intro x hx
    rw [hr]
    rcases hc x with e | ⟨hx0, hroot⟩
    · rw [e] at hx ⊢; exact h.rankInc x hx
    · exact h.rank_lt_root hx0 hroot
  · intro x
    rw [hr, nonRoots_congr hc.isRoot_iff]
    exact h.rankBound x

/-- `find n` under the invariant: returns the root, preserves the invariant, the ranks, and the root of
every vertex -/
theorem find_inv {n : Nat} {s : State} (h : Inv n s) (x : Nat) :
    Root s.parent x (find n s x).2 ∧ Inv n (find n s x).1 ∧ (find n s x).1.rank = s.rank ∧
      Compressed s.parent (find n s x).1.parent := by
  obtain ⟨k, r, hk, hr⟩ := h.exists_rootN x
  obtain ⟨e1, e2, e3⟩ := find_spec n s x k r hr hk
  exact ⟨e1 ▸ hr.toRoot, h.compressed e3 e2, e2, e3⟩

/-- fuel `n` never runs out: any larger fuel computes exactly the same state and root -/
theorem find_fuel_irrelevant {n : Nat} {s : State} (h : Inv n s) (x fuel : Nat) (hf : n ≤ fuel) :
    find fuel s x = find n s x := by
  obtain ⟨k, r, hk, hr⟩ := h.exists_rootN x
  rw [find_fuel fuel s x k r hr (by omega), find_fuel n s x k r hr hk]

theorem rootOf_spec {n : Nat} {s : State} (h : Inv n s) (x : Nat) : Root s.parent x (rootOf n s x) := by
  obtain ⟨k, r, hk, hr⟩ := h.exists_rootN x
  rw [rootOf, rootOfAux_spec n x k r hr hk]
  exact hr.toRoot

theorem find_eq_rootOf {n : Nat} {s : State} (h : Inv n s) (x : Nat) :
    (find n s x).2 = rootOf n s x :=
  Root.unique (find_inv h x).1 (rootOf_spec h x)

/-- `find` does not change the partition: every vertex has the same root before and after -/
theorem find_root_iff {n : Nat} {s : State} (h : Inv n s) (x y t : Nat) :
    Root (find n s x).1.parent y t ↔ Root s.parent y t := by
  obtain ⟨_, _, _, hc⟩ := find_inv h x
  constructor
  · intro h'
    obtain ⟨t', ht'⟩ := h.exists_root y
    have := Root.unique (hc.root ht') h'
    exact this ▸ ht'
  · exact hc.root

theorem find_rootOf {n : Nat} {s : State} (h : Inv n s) (x y : Nat) :
    rootOf n (find n s x).1 y = rootOf n s y :=
  Root.unique ((find_root_iff h x y _).1 (rootOf_spec (find_inv h x).2.1 y)) (rootOf_spec h y)

/-! ## linking two roots -/

/-- the rank function after root `a` has been linked below root `b` (`parent[a] = b`): unchanged except
possibly at `b`, where it may grow by one, and `a` ends up strictly below `b` -/
structure LinkRank (rk rk' : Nat → Nat) (a b : Nat) : Prop where
  same : ∀ y, y ≠ b → rk' y = rk y
  ge : rk b ≤ rk' b
  le : rk' b ≤ rk b + 1
  lt : rk a < rk' b

theorem Inv.link {n : Nat} {s : State} (h : Inv n s) {a b : Nat} (ha : s.parent a = a)
    (hb : s.parent b = b) (hab : a ≠ b) (han : a < n) (hbn : b < n) {rk' : Nat → Nat}
    (hrk : LinkRank s.rank rk' a b) : Inv n ⟨upd s.parent a b, rk'⟩ := by
  have hge : ∀ y, s.rank y ≤ rk' y := by
    intro y
    by_cases e : y = b
    · subst e; exact hrk.ge
    · rw [hrk.same y e]; exact Nat.le_refl _
  have hle : ∀ y, rk' y ≤ s.rank y + 1 := by
    intro y
    by_cases e : y = b
    · subst e; exact hrk.le
    · rw [hrk.same y e]; omega
  refine ⟨?_, ?_, ?_, ?_⟩
  · intro x hx
    show upd s.parent a b x < n
    by_cases e : x = a
    · simp [upd, e, hbn]
    · simp only [upd, e, if_false]; exact h.lt x hx
  · intro x hx
    show upd s.parent a b x = x
    have e : x ≠ a := by omega
    simp only [upd, e, if_false]; exact h.out x hx
  · intro x hx
    show rk' x < rk' (upd s.parent a b x)
    change upd s.parent a b x ≠ x at hx
    by_cases e : x = a
    · subst e
      simp only [upd, if_true]
      rw [hrk.same x hab]; exact hrk.lt
    · simp only [upd, e, if_false] at hx ⊢
      have hxb : x ≠ b := fun e' => hx (e' ▸ hb)
      rw [hrk.same x hxb]
      exact Nat.lt_of_lt_of_le (h.rankInc x hx) (hge _)
  · intro x
    show rk' x ≤ nonRoots n (upd s.parent a b)
    have h1 := h.rankBound x
    have h2 := hle x
    have h3 : nonRoots n s.parent < nonRoots n (upd s.parent a b) := by
      unfold nonRoots
      apply countP_lt_of_imp (a := a)
      · intro y hy
        by_cases e : y = a
        · subst e; simp [ha] at hy
        · simpa [upd, e] using hy
      · exact List.mem_range.2 han
      · simp [ha]
      · simp [upd]; exact fun e => hab e.symm
    omega

/-- linking root `a` below root `b` merges the class of `a` into the class of `b`
and changes nothing else -/
theorem Root.link {p : Nat → Nat} {a b : Nat} (ha : p a = a) (hb : p b = b) (hab : a ≠ b)
    {y t : Nat} (h : Root p y t) : Root (upd p a b) y (if t = a then b else t) := by
  have hbb : Root (upd p a b) b b := .base (by simp [upd, hab.symm, hb])
  induction h with
  | @base t ht =>
    by_cases e : t = a
    · subst e
      simp only [if_true]
      exact .step (by simp [upd]; exact hab.symm) (by simpa [upd] using hbb)
    · simp only [e, if_false]
      exact .base (by simp [upd, e, ht])
  | @step y t hy _ ih =>
    have e : y ≠ a := fun e => hy (e ▸ ha)
    exact .step (by simpa [upd, e] using hy) (by simpa [upd, e] using ih)

theorem Same.link {p : Nat → Nat} {a b : Nat} (ha : p a = a) (hb : p b = b) (hab : a ≠ b)
    {u v : Nat} (h : Same p u v) : Same (upd p a b) u v :=
  let ⟨_, hu, hv⟩ := h; ⟨_, Root.link ha hb hab hu, Root.link ha hb hab hv⟩

theorem Same.of_link {p : Nat → Nat} {a b : Nat} (ha : p a = a) (hb : p b = b) (hab : a ≠ b)
    {u v : Nat} (hu : Root p u a) (hv : Root p v b) : Same (upd p a b) u v := by
  refine ⟨b, ?_, ?_⟩
  · simpa using Root.link ha hb hab hu
  · simpa [hab.symm] using Root.link ha hb hab hv

/-! ## union -/

/-- what `union` does: two compressing `find`s (state `s2`, roots `ra`, `rb`), then nothing if the
roots agree, else one of the two roots is linked below the other with an admissible rank update -/
theorem union_spec {n : Nat} {s : State} (h : Inv n s) (a b : Nat) :
    ∃ s2 ra rb, Inv n s2 ∧ Compressed s.parent s2.parent ∧ Root s2.parent a ra ∧
      Root s2.parent b rb ∧
      ((ra = rb ∧ union n s a b = s2) ∨
       (ra ≠ rb ∧ ∃ x y rk', ((x = ra ∧ y = rb) ∨ (x = rb ∧ y = ra)) ∧
          LinkRank s2.rank rk' x y ∧ union n s a b = ⟨upd s2.parent x y, rk'⟩)) := by
  obtain ⟨r1, i1, _, c1⟩ := find_inv h a
  obtain ⟨r2, i2, _, c2⟩ := find_inv i1 b
  refine ⟨(find n (find n s a).1 b).1, (find n s a).2, (find n (find n s a).1 b).2, i2,
    c1.trans c2 h.exists_root, c2.root (c1.root r1), c2.root r2, ?_⟩
  by_cases e : (find n s a).2 = (find n (find n s a).1 b).2
  · left; exact ⟨e, by simp [union, e]⟩
  · right
    refine ⟨e, ?_⟩
    by_cases l1 : (find n (find n s a).1 b).1.rank (find n s a).2 <
        (find n (find n s a).1 b).1.rank (find n (find n s a).1 b).2
    · refine ⟨_, _, _, .inl ⟨rfl, rfl⟩, ?_, by simp only [union, e, l1, if_false, if_true]; rfl⟩
      exact ⟨fun _ _ => rfl, Nat.le_refl _, Nat.le_succ _, l1⟩
    · by_cases l2 : (find n (find n s a).1 b).1.rank (find n s a).2 >
          (find n (find n s a).1 b).1.rank (find n (find n s a).1 b).2
      · refine ⟨_, _, _, .inr ⟨rfl, rfl⟩, ?_, by simp only [union, e, l1, l2, if_false, if_true]; rfl⟩
        exact ⟨fun _ _ => rfl, Nat.le_refl _, Nat.le_succ _, l2⟩
      · refine ⟨_, _, _, .inr ⟨rfl, rfl⟩, ?_, by simp only [union, e, l1, l2, if_false]; rfl⟩
        refine ⟨?_, ?_, ?_, ?_⟩
        · intro y hy; simp [upd, hy]
        · simp [upd]
        · simp [upd]
        · simp only [upd, if_true]; omega

/-- `union` preserves the invariant -/
theorem union_inv {n : Nat} {s : State} (h : Inv n s) {a b : Nat} (ha : a < n) (hb : b < n) :
    Inv n (union n s a b) := by
  obtain ⟨s2, ra, rb, i2, _, hra, hrb, hcase⟩ := union_spec h a b
  have hran := i2.root_lt hra ha
  have hrbn := i2.root_lt hrb hb
  rcases hcase with ⟨_, e⟩ | ⟨hne, x, y, rk', hxy, hrk, e⟩
  · rw [e]; exact i2
  · rw [e]
    rcases hxy with ⟨rfl, rfl⟩ | ⟨rfl, rfl⟩
    · exact i2.link hra.isRoot hrb.isRoot hne hran hrbn hrk
    · exact i2.link hrb.isRoot hra.isRoot (Ne.symm hne) hrbn hran hrk

/-- `union` only merges classes -/
theorem union_same_mono {n : Nat} {s : State} (h : Inv n s) (a b : Nat) {u v : Nat}
    (huv : Same s.parent u v) : Same (union n s a b).parent u v := by
  obtain ⟨s2, ra, rb, i2, c, hra, hrb, hcase⟩ := union_spec h a b
  obtain ⟨r, hu, hv⟩ := huv
  have h2 : Same s2.parent u v := ⟨r, c.root hu, c.root hv⟩
  rcases hcase with ⟨_, e⟩ | ⟨hne, x, y, rk', hxy, hrk, e⟩
  · rw [e]; exact h2
  · rw [e]
    rcases hxy with ⟨rfl, rfl⟩ | ⟨rfl, rfl⟩
    · exact h2.link hra.isRoot hrb.isRoot hne
    · exact h2.link hrb.isRoot hra.isRoot (Ne.symm hne)

/-- after `union a b`, `a` and `b` are in the same class -/
theorem union_same {n : Nat} {s : State} (h : Inv n s) (a b : Nat) :
    Same (union n s a b).parent a b := by
  obtain ⟨s2, ra, rb, i2, c, hra, hrb, hcase⟩ := union_spec h a b
  rcases hcase with ⟨e', e⟩ | ⟨hne, x, y, rk', hxy, hrk, e⟩
  · rw [e]; exact ⟨ra, hra, e' ▸ hrb⟩
  · rw [e]
    rcases hxy with ⟨rfl, rfl⟩ | ⟨rfl, rfl⟩
    · exact Same.of_link hra.isRoot hrb.isRoot hne hra hrb
    · exact (Same.of_link hrb.isRoot hra.isRoot (Ne.symm hne) hrb hra).symm

/-! ## connectivity -/

/-- `u` and `v` are connected in the undirected graph on `0 … n-1` whose edges are the in-range
pairs of `edges` -/
inductive Conn (n : Nat) (edges : List (Nat × Nat)) : Nat → Nat → Prop
  | refl (u : Nat) : Conn n edges u u
  | edge {a b : Nat} : (a, b) ∈ edges → a < n → b < n → Conn n edges a b
  | symm {u v : Nat} : Conn n edges u v → Conn n edges v u
  | trans {u v w : Nat} : Conn n edges u v → Conn n edges v w → Conn n edges u w

theorem Root.conn {n : Nat} {E : List (Nat × Nat)} {p : Nat → Nat} (hp : ∀ x, Conn n E x (p x))
    {x r : Nat} (h : Root p x r) : Conn n E x r := by
  induction h with
  | base _ => exact .refl _
  | step _ _ ih => exact .trans (hp _) ih

/-- `union a b` for an edge `(a, b)` of the graph only links connected vertices -/
theorem union_conn {n : Nat} {E : List (Nat × Nat)} {s : State} (h : Inv n s) {a b : Nat}
    (hab : Conn n E a b) (hp : ∀ x, Conn n E x (s.parent x)) :
    ∀ x, Conn n E x ((union n s a b).parent x) := by
  obtain ⟨s2, ra, rb, i2, c, hra, hrb, hcase⟩ := union_spec h a b
  have hp2 : ∀ x, Conn n E x (s2.parent x) := by
    intro x
    rcases c x with e | ⟨_, hr⟩
    · rw [e]; exact hp x
    · exact hr.conn hp
  have hrab : Conn n E ra rb := .trans (.symm (hra.conn hp2)) (.trans hab (hrb.conn hp2))
  rcases hcase with ⟨_, e⟩ | ⟨hne, x, y, rk', hxy, hrk, e⟩
  · rw [e]; exact hp2
  · rw [e]
    have hxy' : Conn n E x y := by
      rcases hxy with ⟨rfl, rfl⟩ | ⟨rfl, rfl⟩
      · exact hrab
      · exact hrab.symm
    intro z
    show Conn n E z (upd s2.parent x y z)
    by_cases ez : z = x
    · subst ez; simpa [upd] using hxy'
    · simpa [upd, ez] using hp2 z

/-! ## the run over the edge list -/

theorem step_inv {n : Nat} {s : State} (h : Inv n s) (e : Nat × Nat) : Inv n (step n s e) := by
  unfold step
  split
  · next hc => exact union_inv h hc.1 hc.2
  · exact h

theorem foldl_inv {n : Nat} : ∀ (es : List (Nat × Nat)) (s : State), Inv n s →
    Inv n (es.foldl (step n) s)
  | [], _, h => h
  | e :: es, _, h => foldl_inv es _ (step_inv h e)

theorem run_inv (n : Nat) (edges : List (Nat × Nat)) : Inv n (run n edges) :=
  foldl_inv edges init (inv_init n)

theorem foldl_conn {n : Nat} {E : List (Nat × Nat)} : ∀ (es : List (Nat × Nat)) (s : State),
    (∀ e ∈ es, e ∈ E) → Inv n s → (∀ x, Conn n E x (s.parent x)) →
    ∀ x, Conn n E x ((es.foldl (step n) s).parent x)
  | [], _, _, _, hp => hp
  | e :: es, s, hE, h, hp => by
    refine foldl_conn es _ (fun e' he' => hE e' (List.mem_cons_of_mem _ he')) (step_inv h e) ?_
    unfold step
    split
    · next hc => exact union_conn h (.edge (hE e List.mem_cons_self) hc.1 hc.2) hp
    · exact hp

theorem foldl_same_mono {n : Nat} {u v : Nat} : ∀ (es : List (Nat × Nat)) (s : State), Inv n s →
    Same s.parent u v → Same (es.foldl (step n) s).parent u v
  | [], _, _, hs => hs
  | e :: es, s, h, hs => by
    refine foldl_same_mono es _ (step_inv h e) ?_
    unfold step
    split
    · exact union_same_mono h _ _ hs
    · exact hs

theorem foldl_edge_same {n : Nat} {a b : Nat} (ha : a < n) (hb : b < n) :
    ∀ (es : List (Nat × Nat)) (s : State), Inv n s → (a, b) ∈ es →
    Same (es.foldl (step n) s).parent a b
  | e :: es, s, h, hm => by
    rcases List.mem_cons.1 hm with e' | hm'
    · subst e'
      refine foldl_same_mono es _ (step_inv h _) ?_
      simp only [step, ha, hb, and_self, if_true]
      exact union_same h a b
    · exact foldl_edge_same ha hb es _ (step_inv h e) hm'

/-- soundness: a vertex and its root are connected -/
theorem run_root_conn (n : Nat) (edges : List (Nat × Nat)) {x r : Nat}
    (h : Root (run n edges).parent x r) : Conn n edges x r :=
  h.conn (foldl_conn edges init (fun _ he => he) (inv_init n) (fun x => .refl x))

/-- completeness: connected vertices have the same root -/
theorem run_conn_same (n : Nat) (edges : List (Nat × Nat)) {u v : Nat} (h : Conn n edges u v) :
    Same (run n edges).parent u v := by
  induction h with
  | refl u => exact (run_inv n edges).same_refl u
  | edge he ha hb => exact foldl_edge_same ha hb edges init (inv_init n) he
  | symm _ ih => exact ih.symm
  | trans _ _ ih1 ih2 => exact ih1.trans ih2

/-- **Main theorem.** After the run, two vertices have the same root iff they are connected.
(Holds for all `u v`; a vertex `≥ n` is its own root and connected only to itself.) -/
theorem sameSet_iff_conn (n : Nat) (edges : List (Nat × Nat)) (u v : Nat) :
    sameSet n (run n edges) u v = true ↔ Conn n edges u v := by
  have hi := run_inv n edges
  have hu := rootOf_spec hi u
  have hv := rootOf_spec hi v
  simp only [sameSet, beq_iff_eq]
  constructor
  · intro e
    exact .trans (run_root_conn n edges hu) (.symm (run_root_conn n edges (e ▸ hv)))
  · intro hc
    obtain ⟨r, hu', hv'⟩ := run_conn_same n edges hc
    rw [Root.unique hu hu', Root.unique hv hv']

/-- the statement with the vertices restricted to `0 … n-1`, as `rootOf` equality -/
theorem rootOf_eq_iff_conn (n : Nat) (edges : List (Nat × Nat)) {u v : Nat} (_hu : u < n)
    (_hv : v < n) : rootOf n (run n edges) u = rootOf n (run n edges) v ↔ Conn n edges u v := by
  rw [← sameSet_iff_conn]; simp [sameSet]

/-- the roots of the vertices `0 … n-1` are vertices `0 … n-1` -/
theorem rootOf_lt (n : Nat) (edges : List (Nat × Nat)) {u : Nat} (hu : u < n) :
    rootOf n (run n edges) u < n :=
  (run_inv n edges).root_lt (rootOf_spec (run_inv n edges) u) hu

/-- the compressing `find` returns the same root as `rootOf`, also in the state it leaves behind -/
theorem find_run_iff_conn (n : Nat) (edges : List (Nat × Nat)) (u v : Nat) :
    (find n (run n edges) u).2 = (find n (find n (run n edges) u).1 v).2 ↔ Conn n edges u v := by
  have hi := run_inv n edges
  rw [find_eq_rootOf hi, find_eq_rootOf (find_inv hi u).2.1, find_rootOf hi, ← sameSet_iff_conn]
  simp [sameSet]

/-! ## the final `find` pass and the grouping by root -/

/-- the compressing `find`s of the final pass return the roots of the state before the pass -/
theorem labelPass_eq {n : Nat} : ∀ (vs : List Nat) (s : State), Inv n s →
    labelPass n s vs = vs.map (fun v => (v, rootOf n s v))
  | [], _, _ => rfl
  | v :: vs, s, h => by
    simp only [labelPass, List.map_cons]
    rw [labelPass_eq vs _ (find_inv h v).2.1, find_eq_rootOf h]
    congr 1
    apply List.map_congr_left
    intro y _
    rw [find_rootOf h]

/-- `v` is listed in the class stored under key `r` -/
def InClass (acc : List (Nat × List Nat)) (v r : Nat) : Prop := ∃ ms, (r, ms) ∈ acc ∧ v ∈ ms

theorem inClass_addTo (r v : Nat) : ∀ (acc : List (Nat × List Nat)) (v' r' : Nat),
    InClass (addTo r v acc) v' r' ↔ InClass acc v' r' ∨ (v' = v ∧ r' = r)
  | [], v', r' => by
    simp only [InClass, addTo, List.mem_singleton, Prod.mk.injEq, List.not_mem_nil, false_and,
      exists_false, false_or]
    constructor
    · rintro ⟨ms, ⟨e1, e2⟩, hm⟩
      subst e2
      exact ⟨List.mem_singleton.1 hm, e1⟩
    · rintro ⟨e1, e2⟩
      exact ⟨[v], ⟨e2, rfl⟩, by simp [e1]⟩
  | (k, ms) :: rest, v', r' => by
    by_cases hk : k = r
    · subst hk
      simp only [addTo, if_true, InClass, List.mem_cons, Prod.mk.injEq]
      constructor
      · rintro ⟨ms', ⟨e1, e2⟩ | hin, hm⟩
        · subst e2
          rcases List.mem_append.1 hm with hm | hm
          · exact .inl ⟨ms, .inl ⟨e1, rfl⟩, hm⟩
          · exact .inr ⟨List.mem_singleton.1 hm, e1⟩
        · exact .inl ⟨ms', .inr hin, hm⟩
      · rintro (⟨ms', ⟨e1, e2⟩ | hin, hm⟩ | ⟨e1, e2⟩)
        · subst e2
          exact ⟨ms' ++ [v], .inl ⟨e1, rfl⟩, List.mem_append_left _ hm⟩
        · exact ⟨ms', .inr hin, hm⟩
        · exact ⟨ms ++ [v], .inl ⟨e2, rfl⟩, by simp [e1]⟩
    · have ih := inClass_addTo r v rest v' r'
      simp only [addTo, hk, if_false]
      simp only [InClass, List.mem_cons, Prod.mk.injEq] at ih ⊢
      constructor
      · rintro ⟨ms', ⟨e1, e2⟩ | hin, hm⟩
        · exact .inl ⟨ms', .inl ⟨e1, e2⟩, hm⟩
        · rcases ih.1 ⟨ms', hin, hm⟩ with ⟨ms'', hin', hm'⟩ | hnew
          · exact .inl ⟨ms'', .inr hin', hm'⟩
          · exact .inr hnew
      · rintro (⟨ms', ⟨e1, e2⟩ | hin, hm⟩ | hnew)
        · exact ⟨ms', .inl ⟨e1, e2⟩, hm⟩
        · obtain ⟨ms'', hin', hm'⟩ := ih.2 (.inl ⟨ms', hin, hm⟩)
          exact ⟨ms'', .inr hin', hm'⟩
        · obtain ⟨ms'', hin', hm'⟩ := ih.2 (.inr hnew)
          exact ⟨ms'', .inr hin', hm'⟩

theorem keys_addTo (r v : Nat) : ∀ (acc : List (Nat × List Nat)),
    (addTo r v acc).map (·.1) =
      if r ∈ acc.map (·.1) then acc.map (·.1) else acc.map (·.1) ++ [r]
  | [] => by simp [addTo]
  | (k, ms) :: rest => by
    by_cases hk : k = r
    · subst hk; simp [addTo]
    · have ih := keys_addTo r v rest
      have hk' : ¬ r = k := fun e => hk e.symm
      simp only [addTo, hk, if_false, List.map_cons, ih, List.mem_cons, hk', false_or]
      split <;> simp

theorem keys_nodup_addTo (r v : Nat) {acc : List (Nat × List Nat)} (h : (acc.map (·.1)).Nodup) :
    ((addTo r v acc).map (·.1)).Nodup := by
  rw [keys_addTo]
  split
  · exact h
  · next hr =>
    rw [List.nodup_append]
    refine ⟨h, List.pairwise_singleton _ _, ?_⟩
    intro a ha b hb
    rw [List.mem_singleton.1 hb]
    intro e; subst e; exact hr ha

theorem flatten_addTo (r v : Nat) : ∀ (acc : List (Nat × List Nat)),
    ((addTo r v acc).map (·.2)).flatten.Perm (v :: (acc.map (·.2)).flatten)
  | [] => by simp [addTo]
  | (k, ms) :: rest => by
    by_cases hk : k = r
    · simp only [addTo, hk, if_true, List.map_cons, List.flatten_cons, List.append_assoc,
        List.singleton_append]
      exact List.perm_middle
    · simp only [addTo, hk, if_false, List.map_cons, List.flatten_cons]
      exact ((flatten_addTo r v rest).append_left ms).trans List.perm_middle

theorem nonempty_addTo (r v : Nat) : ∀ (acc : List (Nat × List Nat)), (∀ c ∈ acc, c.2 ≠ []) →
    ∀ c ∈ addTo r v acc, c.2 ≠ []
  | [], _ => by simp [addTo]
  | (k, ms) :: rest, h => by
    have ih := nonempty_addTo r v rest (fun c hc => h c (List.mem_cons_of_mem _ hc))
    have h0 := h (k, ms) List.mem_cons_self
    by_cases hk : k = r
    · simp only [addTo, hk, if_true, List.mem_cons]
      rintro c (e | hc)
      · subst e; simp
      · exact h c (List.mem_cons_of_mem _ hc)
    · simp only [addTo, hk, if_false, List.mem_cons]
      rintro c (e | hc)
      · subst e; exact h0
      · exact ih c hc

abbrev groupFold (acc : List (Nat × List Nat)) (L : List (Nat × Nat)) : List (Nat × List Nat) :=
  L.foldl (fun acc vr => addTo vr.2 vr.1 acc) acc

theorem groupFold_keys : ∀ (L : List (Nat × Nat)) (acc : List (Nat × List Nat)),
    (acc.map (·.1)).Nodup → ((groupFold acc L).map (·.1)).Nodup
  | [], _, h => h
  | x :: L, _, h => groupFold_keys L _ (keys_nodup_addTo x.2 x.1 h)

theorem groupFold_inClass : ∀ (L : List (Nat × Nat)) (acc : List (Nat × List Nat)) (v r : Nat),
    InClass (groupFold acc L) v r ↔ InClass acc v r ∨ (v, r) ∈ L
  | [], _, _, _ => by simp [groupFold]
  | x :: L, acc, v, r => by
    show InClass (groupFold (addTo x.2 x.1 acc) L) v r ↔ _
    rw [groupFold_inClass L, inClass_addTo, List.mem_cons, or_assoc]
    have : (v = x.1 ∧ r = x.2) ↔ (v, r) = x := by
      cases x; simp
    rw [this]

theorem groupFold_flatten : ∀ (L : List (Nat × Nat)) (acc : List (Nat × List Nat)),
    ((groupFold acc L).map (·.2)).flatten.Perm ((acc.map (·.2)).flatten ++ L.map (·.1))
  | [], _ => by simp [groupFold]
  | x :: L, acc => by
    show ((groupFold (addTo x.2 x.1 acc) L).map (·.2)).flatten.Perm _
    refine (groupFold_flatten L _).trans ?_
    refine ((flatten_addTo x.2 x.1 acc).append_right _).trans ?_
    simp only [List.map_cons, List.cons_append]
    exact List.perm_middle.symm

theorem groupFold_nonempty : ∀ (L : List (Nat × Nat)) (acc : List (Nat × List Nat)),
    (∀ c ∈ acc, c.2 ≠ []) → ∀ c ∈ groupFold acc L, c.2 ≠ []
  | [], _, h => h
  | x :: L, _, h => groupFold_nonempty L _ (nonempty_addTo x.2 x.1 _ h)

theorem keys_unique : ∀ {acc : List (Nat × List Nat)}, (acc.map (·.1)).Nodup →
    ∀ {r : Nat} {ms ms' : List Nat}, (r, ms) ∈ acc → (r, ms') ∈ acc → ms = ms'
  | [], _, _, _, _, h, _ => nomatch h
  | (k, m) :: rest, hnd, r, ms, ms', h, h' => by
    rw [List.map_cons, List.nodup_cons] at hnd
    have hkey : ∀ {x : List Nat}, (r, x) ∈ rest → r ∈ rest.map (·.1) :=
      fun hx => List.mem_map.2 ⟨_, hx, rfl⟩
    rcases List.mem_cons.1 h with e | hin <;> rcases List.mem_cons.1 h' with e' | hin'
    · cases e; cases e'; rfl
    · cases e; exact absurd (hkey hin') hnd.1
    · cases e'; exact absurd (hkey hin) hnd.1
    · exact keys_unique hnd.2 hin hin'

/-! ## components -/

/-- the labelled vertex list the grouping works on -/
theorem components_eq (n : Nat) (edges : List (Nat × Nat)) :
    components n edges =
      (group ((List.range n).map (fun v => (v, rootOf n (run n edges) v)))).map (·.2) := by
  rw [components, labelPass_eq _ _ (run_inv n edges)]

/-- membership in a class, in terms of roots -/
theorem inClass_group (n : Nat) (edges : List (Nat × Nat)) (v r : Nat) :
    InClass (group ((List.range n).map (fun v => (v, rootOf n (run n edges) v)))) v r ↔
      v < n ∧ r = rootOf n (run n edges) v := by
  have := groupFold_inClass ((List.range n).map (fun v => (v, rootOf n (run n edges) v))) [] v r
  rw [group, this]
  simp only [InClass, List.not_mem_nil, false_and, exists_false, false_or, List.mem_map,
    List.mem_range, Prod.mk.injEq]
  constructor
  · rintro ⟨a, ha, e1, e2⟩
    subst e1; exact ⟨ha, e2.symm⟩
  · rintro ⟨hv, e⟩
    exact ⟨v, hv, rfl, e.symm⟩

/-- **Partition.** The classes together list every vertex `0 … n-1` exactly once. -/
theorem components_perm (n : Nat) (edges : List (Nat × Nat)) :
    (components n edges).flatten.Perm (List.range n) := by
  rw [components_eq, group]
  have := groupFold_flatten ((List.range n).map (fun v => (v, rootOf n (run n edges) v))) []
  simpa [Function.comp_def] using this

theorem mem_components_flatten (n : Nat) (edges : List (Nat × Nat)) (v : Nat) :
    v ∈ (components n edges).flatten ↔ v < n := by
  rw [(components_perm n edges).mem_iff, List.mem_range]

/-- every vertex `< n` is in some class, and classes contain only vertices `< n` -/
theorem exists_class (n : Nat) (edges : List (Nat × Nat)) (v : Nat) :
    (∃ c ∈ components n edges, v ∈ c) ↔ v < n := by
  rw [← mem_components_flatten n edges v, List.mem_flatten]

/-- no vertex is listed twice, neither within a class nor in two classes -/
theorem components_nodup (n : Nat) (edges : List (Nat × Nat)) :
    (components n edges).flatten.Nodup :=
  (components_perm n edges).nodup_iff.2 List.nodup_range

theorem components_class_nodup (n : Nat) (edges : List (Nat × Nat)) :
    ∀ c ∈ components n edges, c.Nodup :=
  (List.pairwise_flatten.1 (components_nodup n edges)).1

/-- distinct entries of `components` have no vertex in common -/
theorem components_disjoint (n : Nat) (edges : List (Nat × Nat)) :
    (components n edges).Pairwise (fun c d => ∀ x, x ∈ c → x ∉ d) :=
  (List.pairwise_flatten.1 (components_nodup n edges)).2.imp
    (fun h x hx hx' => h x hx x hx' rfl)

/-- no class is empty -/
theorem components_nonempty (n : Nat) (edges : List (Nat × Nat)) :
    ∀ c ∈ components n edges, c ≠ [] := by
  intro c hc
  rw [components_eq, List.mem_map] at hc
  obtain ⟨x, hx, rfl⟩ := hc
  exact groupFold_nonempty _ [] (fun _ h => nomatch h) x hx

/-- **Classes = connected components.** Two vertices are listed in a common class iff they are
connected. -/
theorem same_class_iff_conn (n : Nat) (edges : List (Nat × Nat)) {u v : Nat} (hu : u < n)
    (hv : v < n) : (∃ c ∈ components n edges, u ∈ c ∧ v ∈ c) ↔ Conn n edges u v := by
  rw [← rootOf_eq_iff_conn n edges hu hv, components_eq]
  constructor
  · rintro ⟨c, hc, huc, hvc⟩
    obtain ⟨⟨r, ms⟩, hx, rfl⟩ := List.mem_map.1 hc
    have h1 := (inClass_group n edges u r).1 ⟨ms, hx, huc⟩
    have h2 := (inClass_group n edges v r).1 ⟨ms, hx, hvc⟩
    rw [← h1.2, ← h2.2]
  · intro e
    obtain ⟨ms, hin, hm⟩ := (inClass_group n edges u _).2 ⟨hu, rfl⟩
    obtain ⟨ms', hin', hm'⟩ := (inClass_group n edges v _).2 ⟨hv, e⟩
    have hk := groupFold_keys ((List.range n).map (fun v => (v, rootOf n (run n edges) v))) []
      List.nodup_nil
    have := keys_unique hk hin hin'
    subst this
    exact ⟨ms, List.mem_map.2 ⟨_, hin, rfl⟩, hm, hm'⟩

/-- the class of a vertex is exactly its connected component -/
theorem class_eq_component (n : Nat) (edges : List (Nat × Nat)) {c : List Nat}
    (hc : c ∈ components n edges) {u : Nat} (hu : u ∈ c) (v : Nat) :
    v ∈ c ↔ v < n ∧ Conn n edges u v := by
  have hun : u < n := (exists_class n edges u).1 ⟨c, hc, hu⟩
  constructor
  · intro hv
    have hvn : v < n := (exists_class n edges v).1 ⟨c, hc, hv⟩
    exact ⟨hvn, (same_class_iff_conn n edges hun hvn).1 ⟨c, hc, hu, hv⟩⟩
  · rintro ⟨hvn, hconn⟩
    rw [components_eq] at hc
    obtain ⟨⟨r, ms⟩, hx, rfl⟩ := List.mem_map.1 hc
    have h1 := (inClass_group n edges u r).1 ⟨ms, hx, hu⟩
    have e := (rootOf_eq_iff_conn n edges hun hvn).2 hconn
    obtain ⟨ms', hin', hm'⟩ := (inClass_group n edges v r).2 ⟨hvn, h1.2.trans e⟩
    have hk := groupFold_keys ((List.range n).map (fun v => (v, rootOf n (run n edges) v))) []
      List.nodup_nil
    have := keys_unique hk hx hin'
    subst this
    exact hm'

/-! ## order of the output -/

theorem mem_addTo {r v : Nat} {acc : List (Nat × List Nat)} {c : Nat × List Nat}
    (hc : c ∈ addTo r v acc) {y : Nat} (hy : y ∈ c.2) : y = v ∨ ∃ c' ∈ acc, y ∈ c'.2 := by
  rcases (inClass_addTo r v acc y c.1).1 ⟨c.2, hc, hy⟩ with ⟨ms, hin, hm⟩ | ⟨e, _⟩
  · exact .inr ⟨_, hin, hm⟩
  · exact .inl e

theorem heads_addTo (r v : Nat) : ∀ (acc : List (Nat × List Nat)), (∀ c ∈ acc, c.2 ≠ []) →
    (addTo r v acc).map (·.2.head?) =
      if r ∈ acc.map (·.1) then acc.map (·.2.head?) else acc.map (·.2.head?) ++ [some v]
  | [], _ => by simp [addTo]
  | (k, ms) :: rest, h => by
    by_cases hk : k = r
    · subst hk
      have h0 : ms ≠ [] := h (k, ms) List.mem_cons_self
      have : (ms ++ [v]).head? = ms.head? := by
        cases ms with
        | nil => exact absurd rfl h0
        | cons a t => rfl
      simp [addTo, this]
    · have ih := heads_addTo r v rest (fun c hc => h c (List.mem_cons_of_mem _ hc))
      have hk' : ¬ r = k := fun e => hk e.symm
      simp only [addTo, hk, if_false, List.map_cons, ih, List.mem_cons, hk', false_or]
      split <;> simp

/-- classes non-empty and increasing, classes ordered by their first (= smallest) member -/
structure Ordered (acc : List (Nat × List Nat)) : Prop where
  nonempty : ∀ c ∈ acc, c.2 ≠ []
  sorted : ∀ c ∈ acc, c.2.Pairwise (· < ·)
  heads : (acc.map (·.2.head?)).Pairwise (fun a b => ∀ x ∈ a, ∀ y ∈ b, x < y)

theorem sorted_addTo (r v : Nat) : ∀ (acc : List (Nat × List Nat)),
    (∀ c ∈ acc, c.2.Pairwise (· < ·)) → (∀ c ∈ acc, ∀ x ∈ c.2, x < v) →
    ∀ c ∈ addTo r v acc, c.2.Pairwise (· < ·)
  | [], _, _ => by simp [addTo]
  | (k, ms) :: rest, h, hv => by
    have ih := sorted_addTo r v rest (fun c hc => h c (List.mem_cons_of_mem _ hc))
      (fun c hc => hv c (List.mem_cons_of_mem _ hc))
    have h0 := h (k, ms) List.mem_cons_self
    have hv0 := hv (k, ms) List.mem_cons_self
    by_cases hk : k = r
    · simp only [addTo, hk, if_true, List.mem_cons]
      rintro c (e | hc)
      · subst e
        refine List.pairwise_append.2 ⟨h0, List.pairwise_singleton _ _, ?_⟩
        intro a ha b hb
        rw [List.mem_singleton.1 hb]; exact hv0 a ha
      · exact h c (List.mem_cons_of_mem _ hc)
    · simp only [addTo, hk, if_false, List.mem_cons]
      rintro c (e | hc)
      · subst e; exact h0
      · exact ih c hc

theorem Ordered.addTo {acc : List (Nat × List Nat)} (h : Ordered acc) (r : Nat) {v : Nat}
    (hv : ∀ c ∈ acc, ∀ x ∈ c.2, x < v) : Ordered (addTo r v acc) := by
  refine ⟨nonempty_addTo r v acc h.nonempty, sorted_addTo r v acc h.sorted hv, ?_⟩
  rw [heads_addTo r v acc h.nonempty]
  split
  · exact h.heads
  · refine List.pairwise_append.2 ⟨h.heads, List.pairwise_singleton _ _, ?_⟩
    intro a ha b hb x hx y hy
    rw [List.mem_singleton.1 hb] at hy
    cases hy
    obtain ⟨c, hc, rfl⟩ := List.mem_map.1 ha
    exact hv c hc x (List.mem_of_mem_head? hx)

theorem groupFold_ordered : ∀ (L : List (Nat × Nat)) (acc : List (Nat × List Nat)), Ordered acc →
    (L.map (·.1)).Pairwise (· < ·) → (∀ c ∈ acc, ∀ x ∈ c.2, ∀ y ∈ L.map (·.1), x < y) →
    Ordered (groupFold acc L)
  | [], _, h, _, _ => h
  | x :: L, acc, h, hL, hb => by
    rw [List.map_cons, List.pairwise_cons] at hL
    refine groupFold_ordered L _ (h.addTo x.2 (fun c hc y hy => hb c hc y hy x.1 (by simp)))
      hL.2 ?_
    intro c hc y hy z hz
    rcases mem_addTo hc hy with e | ⟨c', hc', hy'⟩
    · rw [e]; exact hL.1 z hz
    · exact hb c' hc' y hy' z (by simp [hz])

theorem group_ordered (n : Nat) (edges : List (Nat × Nat)) :
    Ordered (group ((List.range n).map (fun v => (v, rootOf n (run n edges) v)))) := by
  refine groupFold_ordered _ [] ⟨(fun _ h => nomatch h), (fun _ h => nomatch h), List.Pairwise.nil⟩ ?_
    (fun _ h => nomatch h)
  simpa [Function.comp_def] using List.pairwise_lt_range

/-- **Order.** every class lists its members in increasing order … -/
theorem components_sorted (n : Nat) (edges : List (Nat × Nat)) :
    ∀ c ∈ components n edges, c.Pairwise (· < ·) := by
  intro c hc
  rw [components_eq] at hc
  obtain ⟨x, hx, rfl⟩ := List.mem_map.1 hc
  exact (group_ordered n edges).sorted x hx

/-- … and the classes are ordered by their first, i.e. smallest, member -/
theorem components_heads_sorted (n : Nat) (edges : List (Nat × Nat)) :
    (components n edges).Pairwise (fun c d => ∀ x ∈ c.head?, ∀ y ∈ d.head?, x < y) := by
  have := (group_ordered n edges).heads
  rw [components_eq, List.pairwise_map]
  rw [List.pairwise_map] at this
  exact this

/-! ## non-vacuity: concrete runs, checked by the kernel -/

example : components 5 [(0, 1), (3, 4), (1, 2)] = [[0, 1, 2], [3, 4]] := by decide
example : components 6 [(4, 2), (9, 1), (5, 0), (2, 2), (0, 4)] = [[0, 2, 4, 5], [1], [3]] := by decide
example : components 3 [] = [[0], [1], [2]] := by decide
example : components 0 [(0, 0)] = [] := by decide
example : sameSet 5 (run 5 [(0, 1), (3, 4), (1, 2)]) 0 2 = true := by decide
example : sameSet 5 (run 5 [(0, 1), (3, 4), (1, 2)]) 2 3 = false := by decide
-- path compression and union by rank really happen: after the run below, vertex 3 still points to
-- its old root 2 (now a child of 0); a `find 3` re-points it to the root 0; the root 0 has rank 2
example : (run 4 [(0, 1), (2, 3), (1, 3)]).parent 3 = 2 := by decide
example : (find 4 (run 4 [(0, 1), (2, 3), (1, 3)]) 3).1.parent 3 = 0 := by decide
example : (run 4 [(0, 1), (2, 3), (1, 3)]).rank 0 = 2 := by decide
example : Conn 5 [(0, 1), (3, 4), (1, 2)] 0 2 :=
  .trans (v := 1) (.edge (by decide) (by decide) (by decide))
    (.edge (by decide) (by decide) (by decide))
example : ¬ Conn 5 [(0, 1), (3, 4), (1, 2)] 2 3 :=
  fun h => absurd ((sameSet_iff_conn _ _ _ _).2 h) (by decide)

#print axioms find_inv
#print axioms find_fuel_irrelevant
#print axioms find_root_iff
#print axioms union_inv
#print axioms sameSet_iff_conn
#print axioms rootOf_eq_iff_conn
#print axioms find_run_iff_conn
#print axioms components_perm
#print axioms components_nodup
#print axioms same_class_iff_conn
#print axioms class_eq_component
#print axioms components_sorted
#print axioms components_heads_sorted

end PV.UF
