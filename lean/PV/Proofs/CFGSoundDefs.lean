import PV.Proofs.CFGFrame
import PV.Model.PySem
/-!
Part B of the mirror's soundness proof — definitions and statements.

`sxL` is a static summary of a statement list *as the builder routes it*: the source lines that get a
located statement record in a block reachable from the entry of the list, and the structural exits
(fall through / break / continue / return / explicit raise).  It is more generous than the semantic
over-approximation `PV.Py.live` (proved: `live_le_sx`), and the builder is proved to realise it
(`sound_list`): every line of `sxL` has a record in a block that is reachable in the final graph.
-/
namespace PV.CFGSound
open PV.CFG PV.Py

structure Ex where
  normal : Bool := false
  ret : Bool := false
  brk : Bool := false
  cont : Bool := false
  raise : Bool := false
  deriving Repr, DecidableEq, Inhabited

def Ex.union (a b : Ex) : Ex :=
  { normal := a.normal || b.normal, ret := a.ret || b.ret, brk := a.brk || b.brk, cont := a.cont || b.cont, raise := a.raise || b.raise }

structure SX where
  lines : List Nat := []
  skipped : List Nat := []     -- lines of `elif` heads: the builder stores their test without a location
  ex : Ex := {}
  deriving Repr, Inhabited

mutual
  def sxL : List Stmt → SX
    | [] => { ex := { normal := true } }
    | x :: xs =>
      let a := sxS x
      if a.ex.normal then
        let b := sxL xs
        { lines := a.lines ++ b.lines, skipped := a.skipped ++ b.skipped,
          ex := { normal := b.ex.normal, ret := a.ex.ret || b.ex.ret, brk := a.ex.brk || b.ex.brk, cont := a.ex.cont || b.ex.cont,
                  raise := a.ex.raise || b.ex.raise } }
      else a
  termination_by l => 2 * sizeL l
  decreasing_by
    all_goals (try simp_wf)
    all_goals (try simp only [Stmt.size, sizeL])
    all_goals omega

  def sxS : Stmt → SX
    | .simple s _ _ _ => { lines := [s], ex := { normal := true } }
    | .def_ s _ _ => { lines := [s], ex := { normal := true } }
    | .ret s _ _ _ => { lines := [s], ex := { ret := true } }
    | .brk s _ => { lines := [s], ex := { brk := true } }
    | .cont s _ => { lines := [s], ex := { cont := true } }
    | .raise s _ => { lines := [s], ex := { raise := true } }
    | .ite s _ thn orelse =>
      let a := sxL thn
      let b := sxL orelse
      { lines := s :: a.lines ++ b.lines, skipped := a.skipped ++ b.skipped, ex := a.ex.union b.ex }
    | .elifc s _ thn orelse =>
      let a := sxL thn
      let b := sxL orelse
      { lines := a.lines ++ b.lines, skipped := s :: a.skipped ++ b.skipped, ex := a.ex.union b.ex }
    | .elsec _ _ body => sxL body
    | .loop s _ body orelse =>
      let a := sxL body
      let b := sxL orelse
      { lines := s :: a.lines ++ b.lines, skipped := a.skipped ++ b.skipped,
        ex := { normal := a.ex.brk || b.ex.normal, ret := a.ex.ret || b.ex.ret, brk := b.ex.brk, cont := b.ex.cont,
                raise := a.ex.raise || b.ex.raise } }
    | .try_ _ _ body hs orelse fin =>
      let b := sxL body
      let h := sxAlts hs
      let el := if b.ex.normal then sxL orelse else {}
      let pend : Ex :=
        { normal := (if orelse.isEmpty then b.ex.normal else el.ex.normal) || h.ex.normal,
          ret := b.ex.ret || h.ex.ret || el.ex.ret, brk := b.ex.brk || h.ex.brk || el.ex.brk,
          cont := b.ex.cont || h.ex.cont || el.ex.cont, raise := b.ex.raise || h.ex.raise || el.ex.raise }
      if fin.isEmpty then
        { lines := b.lines ++ h.lines ++ el.lines, skipped := b.skipped ++ h.skipped ++ el.skipped, ex := pend }
      else
        let f := sxL fin
        -- the propagation edges out of the finally block are unconditional
        { lines := b.lines ++ h.lines ++ el.lines ++ f.lines, skipped := b.skipped ++ h.skipped ++ el.skipped ++ f.skipped,
          ex := { normal := f.ex.normal, ret := true, brk := true, cont := true, raise := true } }
    | .handler s _ body => let a := sxL body; { a with lines := s :: a.lines }
    | .with_ s _ body =>
      let a := sxL body
      { lines := s :: a.lines, skipped := a.skipped, ex := { a.ex with normal := true } }
    | .match_ s _ cases =>
      let a := sxAlts cases
      { lines := s :: a.lines, skipped := a.skipped, ex := { a.ex with normal := true } }
    | .case_ s _ body => let a := sxL body; { a with lines := s :: a.lines }
    | .class_ s _ body => let a := sxL body; { a with lines := s :: a.lines }
  termination_by x => 2 * x.size + 1
  decreasing_by
    all_goals (try simp_wf)
    all_goals (try simp only [Stmt.size, sizeL])
    all_goals omega

  /-- alternatives (cases of a match, handlers of a try): each is entered from the same block -/
  def sxAlts : List Stmt → SX
    | [] => {}
    | x :: xs =>
      let a := sxS x
      let b := sxAlts xs
      { lines := a.lines ++ b.lines, skipped := a.skipped ++ b.skipped, ex := a.ex.union b.ex }
  termination_by l => 2 * sizeL l
  decreasing_by
    all_goals (try simp_wf)
    all_goals (try simp only [Stmt.size, sizeL])
    all_goals omega
end

/-  the fragment of stage S2: no `try`; `break`/`continue` only inside a loop of the same definition;
`case` only as a member of `match`, `except` clauses nowhere (they only occur in `try`). -/
mutual
  def okL (inLoop : Bool) : List Stmt → Bool
    | [] => true
    | x :: xs => okS inLoop x && okL inLoop xs
  termination_by l => 2 * sizeL l
  decreasing_by
    all_goals (try simp_wf)
    all_goals (try simp only [Stmt.size, sizeL])
    all_goals omega
  def okS (inLoop : Bool) : Stmt → Bool
    | .simple .. | .def_ .. | .ret .. | .raise .. => true
    | .brk .. | .cont .. => inLoop
    | .ite _ _ a b | .elifc _ _ a b => okL inLoop a && okL inLoop b
    | .elsec _ _ a => okL inLoop a
    | .loop _ _ a b => okL true a && okL inLoop b
    | .with_ _ _ a => okL inLoop a
    | .match_ _ _ cs => okCases inLoop cs
    | .class_ _ _ a => okL false a
    | .try_ .. | .handler .. | .case_ .. => false
  termination_by x => 2 * x.size + 1
  decreasing_by
    all_goals (try simp_wf)
    all_goals (try simp only [Stmt.size, sizeL])
    all_goals omega
  def okCases (inLoop : Bool) : List Stmt → Bool
    | [] => true
    | .case_ _ _ a :: cs => okL inLoop a && okCases inLoop cs
    | _ :: _ => false
  termination_by l => 2 * sizeL l
  decreasing_by
    all_goals (try simp_wf)
    all_goals (try simp only [Stmt.size, sizeL])
    all_goals omega
end

/-- line `l` has a located statement record in a block that is reachable along `E` -/
def Good (E : List Edge) (S : List SRec) (l : Nat) : Prop := ∃ r ∈ S, r.s = l ∧ R E r.blk

/-- the current block is reachable, has no edge to EXIT yet and does not end in a terminator -/
structure Entry (E : List Edge) (st : St) : Prop where
  reach : R E st.cur
  noExit : st.hasSucc st.cur exitB = false
  noTerm : st.blockTerminates st.cur = false

structure Post (E : List Edge) (S : List SRec) (st st' : St) (r : SX) : Prop where
  lines : ∀ l ∈ r.lines, Good E S l
  normal : r.ex.normal = true → Entry E st'
  brk : r.ex.brk = true → ∀ h x d rest, st.loops = (h, x, d) :: rest → R E x
  cont : r.ex.cont = true → ∀ h x d rest, st.loops = (h, x, d) :: rest → R E h

end PV.CFGSound
