import PV.Proofs.CFGComplexityFinDefs
/-!
Property C03 for the CFG mirror with `finally` — the leaves: simple statements (with an optional comprehension), nested `def`,
`return`, `break`, `continue`, `raise`.  With a pending `finally` the terminators jump to the `finally` block.
-/
namespace PV.CFGFin
open PV.CFG PV.CFGSound PV.Dec

section leaf
variable {E : List Edge}

/-! ### statements that fall through -/
theorem simple_cntF (s e : Nat) (c : List Bool) (h : Bool) : QFS E (.simple s e c h) := by
  intro fc il st w hc hok hf he
  rw [procStmt_simple] at hf ⊢
  rw [sxS_simple, ldSX_simple]
  cases h
  · simp only [Bool.false_eq_true, ↓reduceIte] at hf ⊢
    exact ⟨rfl, fun _ => ⟨he.reach, he.calm.add_other⟩, (fun h => by simp at h), Jmp.empty rfl rfl rfl rfl, LTI.refl _ _ _⟩
  · simp only [↓reduceIte] at hf ⊢
    obtain ⟨h1, h2, h3⟩ := comp_cnt' st s e c w (fun _ hx => hf.mem hx) he
    exact ⟨h1, fun _ => ⟨h2.reach, h2.calm.add_other⟩, (fun h => by simp at h), Jmp.empty rfl rfl rfl rfl,
      (h3.mono (fun t ht => .inl ht)).of_edges_eq rfl⟩

theorem def_cntF (s e : Nat) (b : List Stmt) : QFS E (.def_ s e b) := by
  intro fc il st w hc hok hf he
  rw [procStmt_def] at hf ⊢
  rw [sxS_def, ldSX_def]
  exact ⟨rfl, fun _ => ⟨he.reach, he.calm.add_other⟩, (fun h => by simp at h), Jmp.empty rfl rfl rfl rfl, LTI.refl _ _ _⟩

/-! ### terminators -/
theorem match_getD_edge (st1 : St) (a d : Nat) (t : ETy) (o : Option Nat) :
    (match o with
      | some f => st1.edge a f t
      | none => st1.edge a d t) = st1.edge a (o.getD d) t := by
  cases o <;> rfl

/-- the common end of every terminator: the new current block is fresh, hence unreachable -/
theorem term_postF {st st2 : St} {ex : Ex} {n : Nat} (hn : ex.normal = false) (w2 : WF st2) (hle : st.next ≤ st2.next)
    (hf : Fut E st.next (st2.next + 1) (setCur (bumpU st2) st2.next))
    (hcnt : cnt (rE E) st2.edges = cnt (rE E) st.edges + n)
    (hj : Jmp E st.loops st.excs ex)
    (htgt : LTI E (TgF st.next st.loops st.excs ex.brk) st st2) :
    PostF E st (setCur (bumpU st2) st2.next) ex n :=
  ⟨hcnt, (fun h => by rw [hn] at h; cases h), fun _ => fresh_dead w2 hle hf, hj, htgt.of_edges_eq rfl⟩

theorem ret_cntF (s e : Nat) (c : List Bool) (h : Bool) : QFS E (.ret s e c h) := by
  intro fc il st w hc hok hf he
  rw [procStmt_ret, procRet_eq] at hf ⊢
  rw [sxS_ret, ldSX_ret]
  have hst0 : Inv st.cur st.next st (if h then procComp st s e c else st) ∧ Same st (if h then procComp st s e c else st) ∧
      ((∀ x ∈ (if h then procComp st s e c else st).edges, x ∈ E) →
        cnt (rE E) (if h then procComp st s e c else st).edges = cnt (rE E) st.edges + (if h then compClauses c else 0) ∧
        LTI E (fun t => st.next ≤ t) st (if h then procComp st s e c else st) ∧ R E (if h then procComp st s e c else st).cur) := by
    cases h
    · exact ⟨Inv.refl w (.inl rfl), ⟨rfl, rfl⟩, fun _ => ⟨rfl, LTI.refl _ _ _, he.reach⟩⟩
    · obtain ⟨i, sm⟩ := comp_frame (c := st.cur) (n := st.next) st s e c w (.inl rfl) (Nat.le_refl _)
      exact ⟨i, sm, fun hm => ⟨(comp_cnt' st s e c w hm he).1, (comp_cnt' st s e c w hm he).2.2, (comp_cnt' st s e c w hm he).2.1.reach⟩⟩
  generalize (if h then procComp st s e c else st) = st0 at hst0 hf ⊢
  generalize (if h then compClauses c else 0) = n at hst0 ⊢
  obtain ⟨i0, sm, hk⟩ := hst0
  simp only at hf ⊢
  have h2 := i0.wf.two
  have hcur := i0.wf.cur
  have hn := i0.next_le
  have hx0 : (st0.add st0.cur s e .ret).excs = st.excs := sm.excs
  have key : ∀ g : Nat, (g = exitB ∨ ∃ cx ∈ st.excs, cx.fin = some g) →
      (∀ o, targetFinallyRet (st0.add st0.cur s e .ret) = o → o.getD exitB = g) →
      Fut E st.next (((st0.add st0.cur s e .ret).edge st0.cur g .ret).next + 1)
        (setCur (bumpU ((st0.add st0.cur s e .ret).edge st0.cur g .ret)) ((st0.add st0.cur s e .ret).edge st0.cur g .ret).next) →
      PostF E st (setCur (bumpU ((st0.add st0.cur s e .ret).edge st0.cur g .ret)) ((st0.add st0.cur s e .ret).edge st0.cur g .ret).next)
        { ret := true } n := by
    intro g htg hgo hf
    have hgl : g < st0.next := by
      rcases htg with rfl | ⟨cx, hcx, hfx⟩
      · unfold exitB; omega
      · have := (w.excs cx hcx).1 g hfx; omega
    have i2 := (i0.add (b := st0.cur) (p := s) (q := e) (ty := .ret) i0.own i0.wf.cur).edge (a := st0.cur) (b := g) (t := .ret)
      i0.own (by ob) (by ob)
    obtain ⟨k1, k2, k3⟩ := hk (fun x hx => hf.mem (List.mem_cons_of_mem _ hx))
    have hmemE : (st0.cur, g, ETy.ret) ∈ E := hf.mem (List.mem_cons_self ..)
    refine term_postF rfl i2.wf (by ob) hf ?_ ?_ ?_
    · show cnt (rE E) ((st0.cur, g, .ret) :: st0.edges) = _
      rw [cnt_cons_plain (by rfl) (by intro h; cases h), k1]
    · refine ⟨(fun h => by cases h), (fun h => by cases h), fun _ o ho => ?_, (fun h => by cases h)⟩
      rcases pendO_ret st0.cur ho with hh | hh
      · have : targetFinallyRet (st0.add st0.cur s e .ret) = o := by
          unfold targetFinallyRet; rw [hx0]; exact hh
        rw [hgo o this]
        exact R.step k3 hmemE
      · rw [hh]; exact k3
    · refine ((k2.mono (fun t ht => .inl ht)).edge (a := st0.cur) (b := g) (t := .ret) (fun _ => ?_)).of_edges_eq rfl
      rcases htg with rfl | ⟨cx, hcx, hfx⟩
      · exact .inr (.inl rfl)
      · exact .inr (.inr (.inr ⟨cx, hcx, .inr hfx⟩))
  cases htf : targetFinallyRet (st0.add st0.cur s e .ret) with
  | none =>
    rw [htf] at hf key
    simp only [add_cur] at hf ⊢
    exact key exitB (.inl rfl) (fun o ho => by rw [← ho]; rfl) hf
  | some f =>
    have htf0 := htf
    unfold targetFinallyRet at htf0
    obtain ⟨cx, hcx, hfx⟩ := List.exists_of_findSome?_eq_some htf0
    have hcx' : cx ∈ st.excs := by rw [← hx0]; exact hcx
    have hfin : cx.fin = some f := by
      cases hq : cx.fin with
      | none => rw [hq] at hfx; simp at hfx
      | some g =>
        rw [hq] at hfx
        simp only at hfx
        split at hfx
        · simp only [Option.some.injEq] at hfx; rw [hfx]
        · cases hfx
    rw [htf] at hf key
    simp only [add_cur] at hf ⊢
    exact key f (.inr ⟨cx, hcx', hfin⟩) (fun o ho => by rw [← ho]; rfl) hf

/-- the `finally` block that intercepts `break` / `continue` belongs to the stack -/
theorem tfLoop_mem {st : St} {d f : Nat} (h : targetFinallyLoop st d = some f) : ∃ cx ∈ st.excs, cx.fin = some f := by
  unfold targetFinallyLoop at h
  obtain ⟨cx, hcx, hfx⟩ := List.exists_of_findSome?_eq_some h
  refine ⟨cx, List.mem_of_mem_take hcx, ?_⟩
  split at hfx
  · cases hfx
  · exact hfx

theorem brk_cntF (s e : Nat) : QFS E (.brk s e) := by
  intro fc il st w hc hok hf he
  rw [okFS_brk] at hok
  rw [procStmt_brk, procBrk_eq] at hf ⊢
  rw [sxS_brk, ldSX_brk]
  obtain ⟨⟨h, x, d⟩, rest, hll⟩ := List.exists_cons_of_ne_nil (hc.loops hok)
  have hx := w.loops (h, x, d) (by rw [hll]; exact List.mem_cons_self ..)
  simp only [add_loops] at hf ⊢
  rw [hll] at hf ⊢
  simp only at hf ⊢
  have hcur := w.cur
  have i0 : Inv st.cur st.next st st := Inv.refl w (.inl rfl)
  have key : ∀ g : Nat, (g = x ∨ ∃ cx ∈ st.excs, cx.fin = some g) →
      (∀ o, targetFinallyLoop (st.add st.cur s e .brk) d = o → o.getD x = g) →
      Fut E st.next (((st.add st.cur s e .brk).edge st.cur g .brk).next + 1)
        (setCur (bumpU ((st.add st.cur s e .brk).edge st.cur g .brk)) ((st.add st.cur s e .brk).edge st.cur g .brk).next) →
      PostF E st (setCur (bumpU ((st.add st.cur s e .brk).edge st.cur g .brk)) ((st.add st.cur s e .brk).edge st.cur g .brk).next)
        { brk := true } 0 := by
    intro g htg hgo hf
    have hgl : g < st.next := by
      rcases htg with hg | ⟨cx, hcx, hfx⟩
      · rw [hg]; exact hx.2
      · exact (w.excs cx hcx).1 g hfx
    have i2 := (i0.add (b := st.cur) (p := s) (q := e) (ty := .brk) (.inl rfl) w.cur).edge (a := st.cur) (b := g) (t := .brk)
      (.inl rfl) (by ob) (by ob)
    have hmemE : (st.cur, g, ETy.brk) ∈ E := hf.mem (List.mem_cons_self ..)
    refine term_postF rfl i2.wf (by ob) hf ?_ ?_ ?_
    · show cnt (rE E) ((st.cur, g, .brk) :: st.edges) = _
      rw [cnt_cons_plain (by rfl) (by intro h; cases h)]; rfl
    · have hj : ∀ h' x' d' rest', st.loops = (h', x', d') :: rest' → ∀ o, pendO (st.excs.take (st.excs.length - d')) = some o →
          R E (o.getD x') := by
        intro h' x' d' rest' hl' o ho
        rw [hll] at hl'
        simp only [List.cons.injEq, Prod.mk.injEq] at hl'
        obtain ⟨⟨rfl, rfl, rfl⟩, _⟩ := hl'
        have : targetFinallyLoop (st.add st.cur s e .brk) d = o := pendO_tf ho
        rw [hgo o this]
        exact R.step he.reach hmemE
      exact ⟨fun _ => hj, (fun h => by cases h), (fun h => by cases h), (fun h => by cases h)⟩
    · refine ((LTI.refl E _ st).edge (a := st.cur) (b := g) (t := .brk) (fun _ => ?_)).of_edges_eq rfl
      rcases htg with hg | ⟨cx, hcx, hfx⟩
      · exact .inr (.inr (.inl ⟨h, x, d, rest, hll, .inr ⟨hg, rfl⟩⟩))
      · exact .inr (.inr (.inr ⟨cx, hcx, .inr hfx⟩))
  cases htf : targetFinallyLoop (st.add st.cur s e .brk) d with
  | none =>
    rw [htf] at hf key
    simp only [add_cur] at hf ⊢
    exact key x (.inl rfl) (fun o ho => by rw [← ho]; rfl) hf
  | some f =>
    obtain ⟨cx, hcx, hfx⟩ := tfLoop_mem htf
    rw [htf] at hf key
    simp only [add_cur] at hf ⊢
    exact key f (.inr ⟨cx, hcx, hfx⟩) (fun o ho => by rw [← ho]; rfl) hf

theorem cont_cntF (s e : Nat) : QFS E (.cont s e) := by
  intro fc il st w hc hok hf he
  rw [okFS_cont] at hok
  rw [procStmt_cont, procCont_eq] at hf ⊢
  rw [sxS_cont, ldSX_cont]
  obtain ⟨⟨h, x, d⟩, rest, hll⟩ := List.exists_cons_of_ne_nil (hc.loops hok)
  have hx := w.loops (h, x, d) (by rw [hll]; exact List.mem_cons_self ..)
  simp only [add_loops] at hf ⊢
  rw [hll] at hf ⊢
  simp only at hf ⊢
  have hcur := w.cur
  have i0 : Inv st.cur st.next st st := Inv.refl w (.inl rfl)
  have key : ∀ g : Nat, (g = h ∨ ∃ cx ∈ st.excs, cx.fin = some g) →
      (∀ o, targetFinallyLoop (st.add st.cur s e .cont) d = o → o.getD h = g) →
      Fut E st.next (((st.add st.cur s e .cont).edge st.cur g .cont).next + 1)
        (setCur (bumpU ((st.add st.cur s e .cont).edge st.cur g .cont)) ((st.add st.cur s e .cont).edge st.cur g .cont).next) →
      PostF E st (setCur (bumpU ((st.add st.cur s e .cont).edge st.cur g .cont)) ((st.add st.cur s e .cont).edge st.cur g .cont).next)
        { cont := true } 0 := by
    intro g htg hgo hf
    have hgl : g < st.next := by
      rcases htg with hg | ⟨cx, hcx, hfx⟩
      · rw [hg]; exact hx.1
      · exact (w.excs cx hcx).1 g hfx
    have i2 := (i0.add (b := st.cur) (p := s) (q := e) (ty := .cont) (.inl rfl) w.cur).edge (a := st.cur) (b := g) (t := .cont)
      (.inl rfl) (by ob) (by ob)
    have hmemE : (st.cur, g, ETy.cont) ∈ E := hf.mem (List.mem_cons_self ..)
    refine term_postF rfl i2.wf (by ob) hf ?_ ?_ ?_
    · show cnt (rE E) ((st.cur, g, .cont) :: st.edges) = _
      rw [cnt_cons_plain (by rfl) (by intro h; cases h)]; rfl
    · have hj : ∀ h' x' d' rest', st.loops = (h', x', d') :: rest' → ∀ o, pendO (st.excs.take (st.excs.length - d')) = some o →
          R E (o.getD h') := by
        intro h' x' d' rest' hl' o ho
        rw [hll] at hl'
        simp only [List.cons.injEq, Prod.mk.injEq] at hl'
        obtain ⟨⟨rfl, rfl, rfl⟩, _⟩ := hl'
        have : targetFinallyLoop (st.add st.cur s e .cont) d = o := pendO_tf ho
        rw [hgo o this]
        exact R.step he.reach hmemE
      exact ⟨(fun h => by cases h), fun _ => hj, (fun h => by cases h), (fun h => by cases h)⟩
    · refine ((LTI.refl E _ st).edge (a := st.cur) (b := g) (t := .cont) (fun _ => ?_)).of_edges_eq rfl
      rcases htg with hg | ⟨cx, hcx, hfx⟩
      · exact .inr (.inr (.inl ⟨h, x, d, rest, hll, .inl hg⟩))
      · exact .inr (.inr (.inr ⟨cx, hcx, .inr hfx⟩))
  cases htf : targetFinallyLoop (st.add st.cur s e .cont) d with
  | none =>
    rw [htf] at hf key
    simp only [add_cur] at hf ⊢
    exact key h (.inl rfl) (fun o ho => by rw [← ho]; rfl) hf
  | some f =>
    obtain ⟨cx, hcx, hfx⟩ := tfLoop_mem htf
    rw [htf] at hf key
    simp only [add_cur] at hf ⊢
    exact key f (.inr ⟨cx, hcx, hfx⟩) (fun o ho => by rw [← ho]; rfl) hf

theorem raise_cntF (s e : Nat) : QFS E (.raise s e) := by
  intro fc il st w hc hok hf he
  rw [procStmt_raise, procRaise_eq] at hf ⊢
  rw [sxS_raise, ldSX_raise]
  simp only at hf ⊢
  rw [targetFinally_eq, fallbackExc_eq] at hf ⊢
  simp only [add_excs, add_cur] at hf ⊢
  have hcur := w.cur
  have h2 := w.two
  have i0 : Inv st.cur st.next st st := Inv.refl w (.inl rfl)
  have i1 := i0.add (b := st.cur) (p := s) (q := e) (ty := .raise) (.inl rfl) w.cur
  have hrn := hc.rn
  unfold raiseNX at hrn
  have hexit : fc.nh = 1 → tfX st.excs = none →
      Fut E st.next (((st.add st.cur s e .raise).edge st.cur exitB .exc).next + 1)
        (setCur (bumpU ((st.add st.cur s e .raise).edge st.cur exitB .exc)) ((st.add st.cur s e .raise).edge st.cur exitB .exc).next) →
      PostF E st (setCur (bumpU ((st.add st.cur s e .raise).edge st.cur exitB .exc)) ((st.add st.cur s e .raise).edge st.cur exitB .exc).next)
        { raise := true } fc.nh := by
    intro hnh htn hf
    have i2 := i1.edge (a := st.cur) (b := exitB) (t := .exc) (.inl rfl) (by ob) (by unfold exitB; ob)
    refine term_postF rfl i2.wf (by ob) hf ?_ ?_ ?_
    · show cnt (rE E) ((st.cur, exitB, .exc) :: st.edges) = _
      rw [cnt_cons_exc (rE_true.mpr he.reach), hnh]
    · refine ⟨(fun h => by cases h), (fun h => by cases h), (fun h => by cases h), fun _ f ho => ?_⟩
      have := pendO_tf ho
      rw [htn] at this; cases this
    · exact ((LTI.refl E _ st).edge (a := st.cur) (b := exitB) (t := .exc) (fun _ => .inr (.inl rfl))).of_edges_eq rfl
  generalize htf : tfX st.excs = tf at hf hrn hexit ⊢
  cases tf with
  | some f =>
    simp only at hf ⊢ hrn
    obtain ⟨cx, hcx, hfx⟩ := List.exists_of_findSome?_eq_some (show st.excs.findSome? _ = some f from htf)
    have hfx' : cx.fin = some f := by
      split at hfx
      · cases hfx
      · exact hfx
    have hfl := (w.excs cx hcx).1 f hfx'
    have i2 := i1.edge (a := st.cur) (b := f) (t := .exc) (.inl rfl) (by ob) (by ob)
    have hmemE : (st.cur, f, ETy.exc) ∈ E := hf.mem (List.mem_cons_self ..)
    refine term_postF rfl i2.wf (by ob) hf ?_ ?_ ?_
    · show cnt (rE E) ((st.cur, f, .exc) :: st.edges) = _
      rw [cnt_cons_exc (rE_true.mpr he.reach), ← hrn]
    · refine ⟨(fun h => by cases h), (fun h => by cases h), (fun h => by cases h), fun _ f' ho => ?_⟩
      have := pendO_tf ho
      rw [htf] at this
      simp only [Option.some.injEq] at this
      rw [← this]
      exact R.step he.reach hmemE
    · exact ((LTI.refl E _ st).edge (a := st.cur) (b := f) (t := .exc) (fun _ => .inr (.inr (.inr ⟨cx, hcx, .inr hfx'⟩)))).of_edges_eq rfl
  | none =>
    simp only at hf ⊢ hrn
    generalize hfb : fbX st.excs = fb at hf hrn ⊢
    cases fb with
    | none =>
      simp only at hf ⊢ hrn
      exact hexit hrn.symm rfl hf
    | some c =>
      simp only at hf ⊢ hrn
      have hmem : c ∈ st.excs := List.mem_of_find?_eq_some hfb
      by_cases hpos : c.handlers.length > 0
      · rw [if_pos hpos] at hf ⊢ hrn
        rw [foldl_cur_edges_eq] at hf ⊢
        simp only [add_cur] at hf ⊢
        obtain ⟨j, sm, hnx, hcu⟩ := foldl_edges_frame (c := st.cur) (n := st.next) st.cur .exc c.handlers _ i1 (.inl rfl) (by ob)
          (fun h hh => (i1.wf.excs c hmem).2 h hh)
        refine term_postF rfl j.wf (by rw [hnx]; ob) hf ?_ ?_ ?_
        · rw [cnt_foldl_exc st.cur (rE_true.mpr he.reach), ← hrn]; rfl
        · refine ⟨(fun h => by cases h), (fun h => by cases h), (fun h => by cases h), fun _ f ho => ?_⟩
          have := pendO_tf ho
          rw [htf] at this; cases this
        · exact LTI.foldl st.cur .exc c.handlers _ ((LTI.refl E _ st).of_edges_eq rfl)
            (fun _ h hh => .inr (.inr (.inr ⟨c, hmem, .inl hh⟩)))
      · rw [if_neg hpos] at hf ⊢ hrn
        exact hexit hrn.symm rfl hf

end leaf
end PV.CFGFin
