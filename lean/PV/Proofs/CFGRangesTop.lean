import PV.Proofs.CFGRangesDefs
/-!
Range-level soundness — the list step, `else` clauses, the lower bound of the lines of `sxL`, and the whole definition
(parametric in the induction result `∀ ss, RQL E ss`, which `CFGRanges.lean` supplies).
-/
namespace PV.CFGSound
open PV.CFG PV.Py

section steps
variable {E : List Edge} {N : Nat}

theorem nil_rq : RQL E [] := by
  intro il st p w hok hf hwf hsi hgc
  rw [procList_nil]
  exact ⟨⟨[], rfl, (fun _ h => by cases h)⟩, hsi.pw, hgc⟩

theorem list_rq (ihS : ∀ x : Stmt, x.size ≤ N → RQS E x) (ihL : ∀ ss, sizeL ss ≤ N → RQL E ss) (ss : List Stmt)
    (hsz : sizeL ss ≤ N + 1) : RQL E ss := by
  rcases ss with _ | ⟨x, xs⟩
  · exact nil_rq
  · intro il st p w hok hf hwf hsi hgc
    simp only [sizeL] at hsz
    rw [okLC_cons, Bool.and_eq_true] at hok
    rw [wfL_cons] at hwf
    simp only [Bool.and_eq_true, decide_eq_true_eq] at hwf
    obtain ⟨⟨hpx, hwx⟩, hwxs⟩ := hwf
    rw [procList_cons] at hf ⊢
    obtain ⟨j1, sm1⟩ := procStmt_frame x st w st.cur st.next (Or.inl rfl) (Nat.le_refl _)
    obtain ⟨j2, sm2⟩ := procList_frame xs _ j1.wf (procStmt st x).cur (procStmt st x).next (Or.inl rfl) (Nat.le_refl _)
    have hn1 := j1.next_le
    have hn2 := j2.next_le
    have h2 := w.two
    have f1 : Fut E st.next (procStmt st x).next (procStmt st x) :=
      (hf.mono (Nat.le_refl _) hn2).back_list j1.wf ((w.ctxLt (Nat.le_refl _)).same sm1) h2 (Nat.le_refl _)
    have f2 : Fut E (procStmt st x).next (procList (procStmt st x) xs).next (procList (procStmt st x) xs) := hf.mono hn1 (Nat.le_refl _)
    have hx := ihS x (by omega) il st p w hok.1 f1 hwx hpx hsi hgc
    have hle := wfS_le hwx
    have si1 : SI E (procStmt st x).stmts (procStmt st x).cur (x.span.2 + 1) :=
      (hx.si hsi (by omega) (Nat.le_refl _)).anchor (zoneR w j1 f1 _ j1.own j1.wf.cur)
    have hxs := ihL xs (by omega) il _ (x.span.2 + 1) j1.wf hok.2 f2 hwxs si1 hx.gc
    rw [posL_cons]
    have hpg := posL_ge xs _ hwxs
    exact (hx.mono (Nat.le_refl _) hpg).trans (hxs.mono (by omega) (Nat.le_refl _))

theorem elsec_rq (ih : ∀ ss, sizeL ss ≤ N → RQL E ss) (body : List Stmt) (hsz : sizeL body ≤ N) (s e : Nat) : RQS E (.elsec s e body) := by
  intro il st p w hok hf hwf hp hsi hgc
  rw [okSC_elsec] at hok
  rw [wfS_elsec] at hwf
  simp only [Bool.and_eq_true, decide_eq_true_eq] at hwf
  simp only [Stmt.span] at hp ⊢
  rw [procStmt_elsec] at hf ⊢
  have h := ih body hsz il st (s + 1) w hok hf hwf.1.2 (hsi.mono (by omega)) hgc
  exact h.mono (by omega) hwf.2
end steps

/-! ### the lines of the static summary lie inside the spans -/
structure LB (p : Nat) (r : SX) : Prop where
  lines : ∀ l ∈ r.lines, p ≤ l
  skipped : ∀ l ∈ r.skipped, p ≤ l

theorem LB.mono {p q : Nat} {r : SX} (h : LB p r) (hq : q ≤ p) : LB q r :=
  ⟨fun l hl => Nat.le_trans hq (h.lines l hl), fun l hl => Nat.le_trans hq (h.skipped l hl)⟩

theorem LB.empty (p : Nat) : LB p {} := ⟨(fun _ h => by cases h), (fun _ h => by cases h)⟩

theorem mem_cons_app {l s : Nat} {A B : List Nat} (h : l ∈ s :: A ++ B) : l = s ∨ l ∈ A ∨ l ∈ B := by
  rcases List.mem_append.mp h with h | h
  · rcases List.mem_cons.mp h with h | h
    · exact .inl h
    · exact .inr (.inl h)
  · exact .inr (.inr h)

theorem lb_all : ∀ N,
    (∀ x : Stmt, x.size ≤ N → wfS x = true → LB x.span.1 (sxS x)) ∧
    (∀ ss, sizeL ss ≤ N → ∀ p, wfL p ss = true → LB p (sxL ss)) ∧
    (∀ ss, sizeL ss ≤ N → ∀ p, wfL p ss = true → LB p (sxAlts ss)) := by
  intro N
  induction N with
  | zero =>
    refine ⟨fun x hsz => by have := Stmt.size_pos x; omega, ?_, ?_⟩
    · intro ss hsz p _
      rcases ss with _ | ⟨x, xs⟩
      · rw [sxL_nil]; exact ⟨(fun _ h => by cases h), (fun _ h => by cases h)⟩
      · simp only [sizeL] at hsz; omega
    · intro ss hsz p _
      rcases ss with _ | ⟨x, xs⟩
      · rw [sxAlts_nil]; exact LB.empty _
      · simp only [sizeL] at hsz; omega
  | succ N ih =>
    obtain ⟨ihS, ihL, ihA⟩ := ih
    -- a part of a compound statement: lines ≥ q ≥ s
    have part : ∀ (a : List Stmt) (q s : Nat), sizeL a ≤ N → wfL q a = true → s ≤ q → LB s (sxL a) :=
      fun a q s ha hw hq => (ihL a ha q hw).mono hq
    have partA : ∀ (a : List Stmt) (q s : Nat), sizeL a ≤ N → wfL q a = true → s ≤ q → LB s (sxAlts a) :=
      fun a q s ha hw hq => (ihA a ha q hw).mono hq
    have hS : ∀ x : Stmt, x.size ≤ N + 1 → wfS x = true → LB x.span.1 (sxS x) := by
      intro x hsz hw
      cases x with
      | simple s e c h => rw [sxS_simple]; exact ⟨fun l hl => by simp only [Stmt.span]; simp at hl; omega, (fun _ h => by cases h)⟩
      | ret s e c h => rw [sxS_ret]; exact ⟨fun l hl => by simp only [Stmt.span]; simp at hl; omega, (fun _ h => by cases h)⟩
      | brk s e => rw [sxS_brk]; exact ⟨fun l hl => by simp only [Stmt.span]; simp at hl; omega, (fun _ h => by cases h)⟩
      | cont s e => rw [sxS_cont]; exact ⟨fun l hl => by simp only [Stmt.span]; simp at hl; omega, (fun _ h => by cases h)⟩
      | raise s e => rw [sxS_raise]; exact ⟨fun l hl => by simp only [Stmt.span]; simp at hl; omega, (fun _ h => by cases h)⟩
      | def_ s e b => rw [sxS_def]; exact ⟨fun l hl => by simp only [Stmt.span]; simp at hl; omega, (fun _ h => by cases h)⟩
      | ite s e a b =>
        rw [wfS_ite] at hw
        simp only [Bool.and_eq_true, decide_eq_true_eq] at hw
        simp only [Stmt.size] at hsz
        have hg := posL_ge a _ hw.1.1.2
        have la := part a _ s (by omega) hw.1.1.2 (by omega)
        have lb := part b _ s (by omega) hw.1.2 (by omega)
        rw [sxS_ite]; simp only [Stmt.span]
        refine ⟨fun l hl => ?_, fun l hl => ?_⟩
        · rcases mem_cons_app hl with h | h | h
          · omega
          · exact la.lines l h
          · exact lb.lines l h
        · rcases List.mem_append.mp hl with h | h
          · exact la.skipped l h
          · exact lb.skipped l h
      | elifc s e a b =>
        rw [wfS_elifc] at hw
        simp only [Bool.and_eq_true, decide_eq_true_eq] at hw
        simp only [Stmt.size] at hsz
        have hg := posL_ge a _ hw.1.1.2
        have la := part a _ s (by omega) hw.1.1.2 (by omega)
        have lb := part b _ s (by omega) hw.1.2 (by omega)
        rw [sxS_elifc]; simp only [Stmt.span]
        refine ⟨fun l hl => ?_, fun l hl => ?_⟩
        · rcases List.mem_append.mp hl with h | h
          · exact la.lines l h
          · exact lb.lines l h
        · rcases mem_cons_app hl with h | h | h
          · omega
          · exact la.skipped l h
          · exact lb.skipped l h
      | loop s e a b =>
        rw [wfS_loop] at hw
        simp only [Bool.and_eq_true, decide_eq_true_eq] at hw
        simp only [Stmt.size] at hsz
        have hg := posL_ge a _ hw.1.1.2
        have la := part a _ s (by omega) hw.1.1.2 (by omega)
        have lb := part b _ s (by omega) hw.1.2 (by omega)
        rw [sxS_loop]; simp only [Stmt.span]
        refine ⟨fun l hl => ?_, fun l hl => ?_⟩
        · rcases mem_cons_app hl with h | h | h
          · omega
          · exact la.lines l h
          · exact lb.lines l h
        · rcases List.mem_append.mp hl with h | h
          · exact la.skipped l h
          · exact lb.skipped l h
      | elsec s e a =>
        rw [wfS_elsec] at hw
        simp only [Bool.and_eq_true, decide_eq_true_eq] at hw
        simp only [Stmt.size] at hsz
        rw [sxS_elsec]; simp only [Stmt.span]
        exact part a _ s (by omega) hw.1.2 (by omega)
      | handler s e a =>
        rw [wfS_handler] at hw
        simp only [Bool.and_eq_true, decide_eq_true_eq] at hw
        simp only [Stmt.size] at hsz
        have la := part a _ s (by omega) hw.1.2 (by omega)
        rw [sxS_handler]; simp only [Stmt.span]
        refine ⟨fun l hl => ?_, la.skipped⟩
        rcases List.mem_cons.mp hl with h | h
        · omega
        · exact la.lines l h
      | case_ s e a =>
        rw [wfS_case] at hw
        simp only [Bool.and_eq_true, decide_eq_true_eq] at hw
        simp only [Stmt.size] at hsz
        have la := part a _ s (by omega) hw.1.2 (by omega)
        rw [sxS_case]; simp only [Stmt.span]
        refine ⟨fun l hl => ?_, la.skipped⟩
        rcases List.mem_cons.mp hl with h | h
        · omega
        · exact la.lines l h
      | class_ s e a =>
        rw [wfS_class] at hw
        simp only [Bool.and_eq_true, decide_eq_true_eq] at hw
        simp only [Stmt.size] at hsz
        have la := part a _ s (by omega) hw.1.2 (by omega)
        rw [sxS_class]; simp only [Stmt.span]
        refine ⟨fun l hl => ?_, la.skipped⟩
        rcases List.mem_cons.mp hl with h | h
        · omega
        · exact la.lines l h
      | with_ s e a =>
        rw [wfS_with] at hw
        simp only [Bool.and_eq_true, decide_eq_true_eq] at hw
        simp only [Stmt.size] at hsz
        have la := part a _ s (by omega) hw.1.2 (by omega)
        rw [sxS_with]; simp only [Stmt.span]
        refine ⟨fun l hl => ?_, la.skipped⟩
        rcases List.mem_cons.mp hl with h | h
        · omega
        · exact la.lines l h
      | match_ s e a =>
        rw [wfS_match] at hw
        simp only [Bool.and_eq_true, decide_eq_true_eq] at hw
        simp only [Stmt.size] at hsz
        have la := partA a _ s (by omega) hw.1.2 (by omega)
        rw [sxS_match]; simp only [Stmt.span]
        refine ⟨fun l hl => ?_, la.skipped⟩
        rcases List.mem_cons.mp hl with h | h
        · omega
        · exact la.lines l h
      | try_ s e a hs c d =>
        rw [wfS_try] at hw
        simp only [Bool.and_eq_true, decide_eq_true_eq] at hw
        simp only [Stmt.size] at hsz
        obtain ⟨⟨⟨⟨⟨hse, wa⟩, wh⟩, wc⟩, wd⟩, hq⟩ := hw
        have g1 := posL_ge a _ wa
        have g2 := posL_ge hs _ wh
        have g3 := posL_ge c _ wc
        have la := part a _ s (by omega) wa (by omega)
        have lh := partA hs _ s (by omega) wh (by omega)
        have lc := part c _ s (by omega) wc (by omega)
        have ld := part d _ s (by omega) wd (by omega)
        have lel : LB s (if (sxL a).ex.normal then sxL c else {}) := by
          split
          · exact lc
          · exact LB.empty _
        rw [sxS_try]; simp only [Stmt.span]
        split
        · refine ⟨fun l hl => ?_, fun l hl => ?_⟩
          · simp only [List.mem_append] at hl
            rcases hl with (h | h) | h
            · exact la.lines l h
            · exact lh.lines l h
            · exact lel.lines l h
          · simp only [List.mem_append] at hl
            rcases hl with (h | h) | h
            · exact la.skipped l h
            · exact lh.skipped l h
            · exact lel.skipped l h
        · refine ⟨fun l hl => ?_, fun l hl => ?_⟩
          · simp only [List.mem_append] at hl
            rcases hl with ((h | h) | h) | h
            · exact la.lines l h
            · exact lh.lines l h
            · exact lel.lines l h
            · exact ld.lines l h
          · simp only [List.mem_append] at hl
            rcases hl with ((h | h) | h) | h
            · exact la.skipped l h
            · exact lh.skipped l h
            · exact lel.skipped l h
            · exact ld.skipped l h
    refine ⟨hS, ?_, ?_⟩
    · intro ss hsz p hw
      rcases ss with _ | ⟨x, xs⟩
      · rw [sxL_nil]; exact ⟨(fun _ h => by cases h), (fun _ h => by cases h)⟩
      · simp only [sizeL] at hsz
        rw [wfL_cons] at hw
        simp only [Bool.and_eq_true, decide_eq_true_eq] at hw
        have hx := (hS x (by omega) hw.1.2).mono hw.1.1
        have hle := wfS_le hw.1.2
        have hxs := (ihL xs (by omega) _ hw.2).mono (q := p) (by omega)
        rw [sxL_cons]
        split
        · refine ⟨fun l hl => ?_, fun l hl => ?_⟩
          · rcases List.mem_append.mp hl with h | h
            · exact hx.lines l h
            · exact hxs.lines l h
          · rcases List.mem_append.mp hl with h | h
            · exact hx.skipped l h
            · exact hxs.skipped l h
        · exact hx
    · intro ss hsz p hw
      rcases ss with _ | ⟨x, xs⟩
      · rw [sxAlts_nil]; exact LB.empty _
      · simp only [sizeL] at hsz
        rw [wfL_cons] at hw
        simp only [Bool.and_eq_true, decide_eq_true_eq] at hw
        have hx := (hS x (by omega) hw.1.2).mono hw.1.1
        have hle := wfS_le hw.1.2
        have hxs := (ihA xs (by omega) _ hw.2).mono (q := p) (by omega)
        rw [sxAlts_cons]
        refine ⟨fun l hl => ?_, fun l hl => ?_⟩
        · rcases List.mem_append.mp hl with h | h
          · exact hx.lines l h
          · exact hxs.lines l h
        · rcases List.mem_append.mp hl with h | h
          · exact hx.skipped l h
          · exact hxs.skipped l h

/-- every line of the static summary of a well-formed body is a real line number -/
theorem sx_lines_pos {body : List Stmt} {p : Nat} (h : wfL p body = true) :
    (∀ l ∈ (sxL body).lines, p ≤ l) ∧ (∀ l ∈ (sxL body).skipped, p ≤ l) :=
  let r := (lb_all (sizeL body)).2.1 body (Nat.le_refl _) p h
  ⟨r.lines, r.skipped⟩

/-! ### the whole definition -/

/-- well-formed spans of a definition: for a class the header line comes first -/
def WFDef (k : Kind) (s e : Nat) (body : List Stmt) : Prop :=
  match k with
  | .cls => 1 ≤ s ∧ s ≤ e ∧ wfL (s + 1) body = true
  | _ => wfL 1 body = true

theorem WFDef.wfl {k : Kind} {s e : Nat} {body : List Stmt} (h : WFDef k s e body) : wfL 1 body = true := by
  cases k
  · exact h
  · exact wfL_mono body (by omega) h.2.2
  · exact h

/-- the facts about the final state from which the range statement follows -/
theorem build_rq (hL : ∀ (E : List Edge) (ss : List Stmt), RQL E ss) (k : Kind) (s e : Nat) (body : List Stmt)
    (hok : okLC false body = true) (hwf : WFDef k s e body) :
    GZ (build k s e body).stmts ∧ (build k s e body).stmts.Pairwise (Rel (build k s e body).edges) ∧
      (∀ r ∈ (build k s e body).stmts, r.s = 0 → r.e = 0) := by
  have ipre := preB_inv k s e
  obtain ⟨j, sm⟩ := procList_frame body _ ipre.wf 0 0 (Or.inr (Nat.zero_le _)) (Nat.zero_le _)
  have hE : Fut (build k s e body).edges (preB k s e).next (procList (preB k s e) body).next (procList (preB k s e) body) := by
    rw [build_eq]; unfold finishB
    split
    · refine ⟨[((procList (preB k s e) body).cur, exitB, .normal)], rfl, ?_⟩
      intro x hx
      rw [List.mem_singleton.mp hx]
      exact .inl (by show exitB < _; have := ipre.wf.two; unfold exitB; omega)
    · exact ⟨[], rfl, (fun _ h => by cases h)⟩
  have hS : (build k s e body).stmts = (procList (preB k s e) body).stmts := by
    rw [build_eq]; unfold finishB
    split <;> rfl
  -- the initial invariant
  have hinit : ∃ p, 1 ≤ p ∧ wfL p body = true ∧ SI (build k s e body).edges (preB k s e).stmts (preB k s e).cur p ∧
      GC (preB k s e).stmts (preB k s e).cur ∧ (∀ r ∈ (preB k s e).stmts, r.s = 0 → r.e = 0) := by
    cases k
    · exact ⟨1, Nat.le_refl _, hwf, ⟨Nat.le_refl _, List.Pairwise.nil, (fun _ h => by cases h), (fun _ h => by cases h)⟩,
        ⟨trivial, .inl (fun _ h => by cases h)⟩, (fun _ h => by cases h)⟩
    · obtain ⟨h1, h2, h3⟩ := hwf
      have hr : R (build Kind.cls s e body).edges 2 :=
        R.step R.entry (hE.mem (j.sub.1 (0, 2, .normal) (by simp [preB])))
      refine ⟨s + 1, by omega, h3, ⟨by omega, ?_, ?_, ?_⟩, ⟨⟨trivial, .inl (fun _ h => by cases h)⟩, .inr ⟨_, _, rfl, rfl, by simp only; omega⟩⟩, ?_⟩
      · exact List.pairwise_singleton _ _
      · intro r hr'
        have : r = { blk := 2, s := s, e := e, ty := .other } := by simpa [preB, initSt] using hr'
        rw [this]; simp only; omega
      · intro r hr' _ _
        have : r = { blk := 2, s := s, e := e, ty := .other } := by simpa [preB, initSt] using hr'
        rw [this]; exact hr
      · intro r hr' h0
        have : r = { blk := 2, s := s, e := e, ty := .other } := by simpa [preB, initSt] using hr'
        rw [this] at h0; simp only at h0; omega
    · exact ⟨1, Nat.le_refl _, hwf, ⟨Nat.le_refl _, List.Pairwise.nil, (fun _ h => by cases h), (fun _ h => by cases h)⟩,
        ⟨trivial, .inl (fun _ h => by cases h)⟩, (fun _ h => by cases h)⟩
  obtain ⟨p, hp, hwp, hsi, hgc, hv0⟩ := hinit
  have post := hL _ body false (preB k s e) p ipre.wf hok hE hwp hsi hgc
  rw [hS]
  refine ⟨post.gc.gz, post.pw, ?_⟩
  obtain ⟨ns, h1, h2⟩ := post.ext
  intro r hr h0
  rw [h1] at hr
  rcases List.mem_append.mp hr with hr | hr
  · rcases h2 r hr with h | h
    · exact h.2
    · omega
  · exact hv0 r hr h0

end PV.CFGSound
