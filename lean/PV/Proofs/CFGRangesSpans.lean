import PV.Proofs.CFGRangesKDefs
/-!
Every record the builder stores carries either the location `0..0` (the test of a converted `elif`) or the span of a
located statement of the program (`spansL`), for the fragment `okLC`.  No well-formedness of the state is needed.
(Independent of `CFGRangesTry`: `finallyPropagation` keeps the records is re-proved here as `sp_finallyPropagation_stmts`.)
-/
namespace PV.CFGSound
open PV.CFG
set_option linter.unusedSimpArgs false

def SpOK (sp : List (Nat × Nat)) (r : SRec) : Prop := (r.s = 0 ∧ r.e = 0) ∨ (r.s, r.e) ∈ sp

/-- every record of `s'` is a record of `s` or carries `0..0` / a span of `sp` -/
def NewS (sp : List (Nat × Nat)) (s s' : St) : Prop := ∀ r ∈ s'.stmts, r ∈ s.stmts ∨ SpOK sp r

theorem SpOK.mono {sp sp' : List (Nat × Nat)} {r : SRec} (h : SpOK sp r) (hs : ∀ x ∈ sp, x ∈ sp') : SpOK sp' r :=
  h.imp id (hs _)

section news
variable {sp sp' : List (Nat × Nat)} {s s' s'' : St}

theorem NewS.refl (sp : List (Nat × Nat)) (s : St) : NewS sp s s := fun _ h => .inl h

theorem NewS.of_eq (h : s'.stmts = s.stmts) : NewS sp s s' := fun r hr => .inl (by rw [← h]; exact hr)

theorem NewS.mono (h : NewS sp s s') (hs : ∀ x ∈ sp, x ∈ sp') : NewS sp' s s' := fun r hr =>
  (h r hr).imp id (fun k => k.mono hs)

theorem NewS.trans (h₁ : NewS sp s s') (h₂ : NewS sp s' s'') : NewS sp s s'' := fun r hr => by
  rcases h₂ r hr with h | h
  · exact h₁ r h
  · exact .inr h

/-- the result only differs from `s'` in fields other than `stmts` -/
theorem NewS.post (h : NewS sp s s') (he : s''.stmts = s'.stmts) : NewS sp s s'' := fun r hr => h r (by rw [← he]; exact hr)

/-- the start state only differs from `s` in fields other than `stmts` -/
theorem NewS.pre (h : NewS sp s' s'') (he : s'.stmts = s.stmts) : NewS sp s s'' := fun r hr => by
  have := h r hr; rw [he] at this; exact this

theorem NewS.add (h : NewS sp s s') (b p q : Nat) (ty : Ty) (hm : (p = 0 ∧ q = 0) ∨ (p, q) ∈ sp) : NewS sp s (s'.add b p q ty) := by
  intro r hr
  rw [add_stmts] at hr
  rcases List.mem_cons.mp hr with rfl | hr
  · exact .inr hm
  · exact h r hr

theorem NewS.left (h : NewS sp s s') (b : List (Nat × Nat)) : NewS (sp ++ b) s s' :=
  h.mono (fun _ hx => List.mem_append.mpr (.inl hx))
theorem NewS.right (h : NewS sp s s') (a : List (Nat × Nat)) : NewS (a ++ sp) s s' :=
  h.mono (fun _ hx => List.mem_append.mpr (.inr hx))
theorem NewS.tail (h : NewS sp s s') (a : Nat × Nat) : NewS (a :: sp) s s' :=
  h.mono (fun _ hx => List.mem_cons_of_mem _ hx)
end news

/-! ### `finallyPropagation` keeps the records -/
theorem sp_conn_stmts (fin : Nat) (st : St) (b : Nat) (t : ETy) : (conn fin st b t).stmts = st.stmts := by
  unfold conn; split <;> rfl

theorem sp_foldl_conn_stmts (fin : Nat) (t : ETy) : ∀ (hs : List Nat) (s : St),
    (hs.foldl (fun st h => conn fin st h t) s).stmts = s.stmts
  | [], _ => rfl
  | x :: xs, s => by
    simp only [List.foldl_cons]
    rw [sp_foldl_conn_stmts fin t xs, sp_conn_stmts]

theorem sp_fp1_stmts (fin : Nat) (no : Option Nat) (st : St) : (fp1 fin no st).stmts = st.stmts := by
  unfold fp1; split <;> exact sp_conn_stmts ..

theorem sp_fp2_stmts (fin : Nat) (outer : List Exc) (st : St) : (fp2 fin outer st).stmts = st.stmts := by
  unfold fp2
  split
  · rfl
  · simp only
    split <;> simp only [sp_conn_stmts]

theorem sp_fp3_stmts (fin : Nat) (outer : List Exc) (no : Option Nat) (st : St) : (fp3 fin outer no st).stmts = st.stmts := by
  unfold fp3
  split
  · exact sp_conn_stmts ..
  · split
    · exact sp_foldl_conn_stmts ..
    · exact sp_conn_stmts ..

theorem sp_finallyPropagation_stmts (st : St) (fin : Nat) : (finallyPropagation st fin).stmts = st.stmts := by
  rw [finallyPropagation_eq, sp_fp3_stmts, sp_fp2_stmts, sp_fp1_stmts]

/-! ### comprehensions, simple statements, terminators -/
theorem go_spans (s e : Nat) : ∀ (cs : List Bool) (st : St) (cp : Nat), NewS [(s, e)] st (procComp.go s e cs st cp).1
  | [], st, cp => by rw [go_nil]; exact NewS.refl _ _
  | hasTest :: rest, st, cp => by
    rw [go_cons]
    simp only
    refine NewS.trans ?_ (go_spans s e rest _ _)
    have hm : (s = 0 ∧ e = 0) ∨ (s, e) ∈ [(s, e)] := .inr (List.mem_cons_self ..)
    cases hasTest
    · simp only [Bool.false_eq_true, ↓reduceIte]
      intro r hr
      simp only [edge_stmts, add_stmts, bump_stmts, List.mem_cons] at hr
      rcases hr with rfl | rfl | hr
      · exact .inr hm
      · exact .inr hm
      · exact .inl hr
    · simp only [↓reduceIte]
      intro r hr
      simp only [edge_stmts, add_stmts, bump_stmts, List.mem_cons] at hr
      rcases hr with rfl | rfl | rfl | hr
      · exact .inr hm
      · exact .inr hm
      · exact .inr hm
      · exact .inl hr

theorem comp_spans (st : St) (s e : Nat) (comp : List Bool) : NewS [(s, e)] st (procComp st s e comp) := by
  rw [procComp_eq]
  simp only
  have hm : (s = 0 ∧ e = 0) ∨ (s, e) ∈ [(s, e)] := .inr (List.mem_cons_self ..)
  have h1 : NewS [(s, e)] st (bump (((bump st).edge st.cur st.next .normal).add st.next s e .other)) := by
    intro r hr
    simp only [edge_stmts, add_stmts, bump_stmts, List.mem_cons] at hr
    rcases hr with rfl | hr
    · exact .inr hm
    · exact .inl hr
  refine (h1.trans (go_spans s e comp _ st.next)).post ?_
  rw [setCur_stmts]
  split <;> rfl

theorem ret_spans (st : St) (s e : Nat) (comp : List Bool) (hasComp : Bool) : NewS [(s, e)] st (procRet st s e comp hasComp) := by
  rw [procRet_eq]
  have hm : (s = 0 ∧ e = 0) ∨ (s, e) ∈ [(s, e)] := .inr (List.mem_cons_self ..)
  have h0 : NewS [(s, e)] st (if hasComp then procComp st s e comp else st) := by
    cases hasComp
    · exact NewS.refl _ _
    · exact comp_spans st s e comp
  generalize (if hasComp then procComp st s e comp else st) = st0 at h0
  simp only
  refine (h0.add st0.cur s e .ret hm).post ?_
  simp only [setCur_stmts, bumpU_stmts]
  split <;> rfl

theorem brk_spans (st : St) (s e : Nat) : NewS [(s, e)] st (procBrk st s e) := by
  rw [procBrk_eq]
  have hm : (s = 0 ∧ e = 0) ∨ (s, e) ∈ [(s, e)] := .inr (List.mem_cons_self ..)
  simp only
  split
  · exact (NewS.refl _ st).add _ _ _ _ hm
  · refine ((NewS.refl _ st).add st.cur s e .brk hm).post ?_
    simp only [setCur_stmts, bumpU_stmts]
    split <;> rfl

theorem cont_spans (st : St) (s e : Nat) : NewS [(s, e)] st (procCont st s e) := by
  rw [procCont_eq]
  have hm : (s = 0 ∧ e = 0) ∨ (s, e) ∈ [(s, e)] := .inr (List.mem_cons_self ..)
  simp only
  split
  · exact (NewS.refl _ st).add _ _ _ _ hm
  · refine ((NewS.refl _ st).add st.cur s e .cont hm).post ?_
    simp only [setCur_stmts, bumpU_stmts]
    split <;> rfl

theorem raise_spans (st : St) (s e : Nat) : NewS [(s, e)] st (procRaise st s e) := by
  rw [procRaise_eq]
  have hm : (s = 0 ∧ e = 0) ∨ (s, e) ∈ [(s, e)] := .inr (List.mem_cons_self ..)
  simp only
  refine ((NewS.refl _ st).add st.cur s e .raise hm).post ?_
  simp only [setCur_stmts, bumpU_stmts]
  split
  · rfl
  · split
    · split
      · rw [foldl_cur_edge_stmts]
      · rfl
    · rfl

/-! ### the statement of the induction -/
def SSP (x : Stmt) : Prop := ∀ il, okSC il x = true → ∀ st, NewS (spansS x) st (procStmt st x)
def SLP (ss : List Stmt) : Prop := ∀ il, okLC il ss = true → ∀ st, NewS (spansL ss) st (procList st ss)
def SLN (N : Nat) : Prop := ∀ ss, sizeL ss ≤ N → SLP ss
def SSN (N : Nat) : Prop := ∀ x : Stmt, x.size ≤ N → SSP x

/-- reduce the record list of a state built by record-preserving updates -/
macro "sst" : tactic =>
  `(tactic| (unfold NewS; simp only [setCur_stmts, edge_stmts, edgeUnlessExit_stmts, bump_stmts, bumpU_stmts, bumpN_stmts,
      setLoops_stmts, setExcs_stmts, finishElif_stmts, foldl_edge_stmts, foldl_cur_edge_stmts, sp_finallyPropagation_stmts]))

/-- a start state that stores exactly one new record -/
theorem NewS.one {sp : List (Nat × Nat)} {s s' : St} {b p q : Nat} {ty : Ty}
    (he : s'.stmts = { blk := b, s := p, e := q, ty := ty } :: s.stmts) (hm : (p = 0 ∧ q = 0) ∨ (p, q) ∈ sp) : NewS sp s s' := by
  intro r hr
  rw [he] at hr
  rcases List.mem_cons.mp hr with rfl | hr
  · exact .inr hm
  · exact .inl hr

variable {N : Nat}

/-- a nested statement list processed from a prepared state -/
theorem nested_spans (ih : SLN N) (body : List Stmt) (hsz : sizeL body ≤ N) (il : Bool) (hok : okLC il body = true)
    {sp : List (Nat × Nat)} {st s1 : St} (h1 : NewS sp st s1) (hsub : ∀ x ∈ spansL body, x ∈ sp) :
    NewS sp st (procList s1 body) :=
  h1.trans ((ih body hsz il hok s1).mono hsub)

theorem class_spans (ih : SLN N) (body : List Stmt) (hsz : sizeL body ≤ N) (il : Bool) (hok : okLC il body = true)
    (st : St) (s e : Nat) : NewS ((s, e) :: spansL body) st (procClass st s e body) := by
  rw [procClass_eq]
  have hm : (s = 0 ∧ e = 0) ∨ (s, e) ∈ (s, e) :: spansL body := .inr (List.mem_cons_self ..)
  exact nested_spans ih body hsz il hok (NewS.one rfl hm) (fun x hx => by simp [hx])

theorem with_spans (ih : SLN N) (body : List Stmt) (hsz : sizeL body ≤ N) (il : Bool) (hok : okLC il body = true)
    (st : St) (s e : Nat) : NewS ((s, e) :: spansL body) st (procWith st s e body) := by
  rw [procWith_eq]
  have hm : (s = 0 ∧ e = 0) ∨ (s, e) ∈ (s, e) :: spansL body := .inr (List.mem_cons_self ..)
  sst
  exact nested_spans ih body hsz il hok (NewS.one rfl hm) (fun x hx => by simp [hx])

theorem loop_spans (ih : SLN N) (body orelse : List Stmt) (h1 : sizeL body ≤ N) (h2 : sizeL orelse ≤ N) (il : Bool)
    (hb : okLC true body = true) (ho : okLC il orelse = true) (st : St) (s e : Nat) :
    NewS ((s, e) :: spansL body ++ spansL orelse) st (procLoop st s e body orelse) := by
  rw [procLoop_eq]
  have hm : (s = 0 ∧ e = 0) ∨ (s, e) ∈ (s, e) :: spansL body ++ spansL orelse := .inr (List.mem_cons_self ..)
  rcases orelse with _ | ⟨o, os⟩
  · simp only [List.isEmpty_nil, Bool.not_true, Bool.false_eq_true, ↓reduceIte]
    sst
    exact nested_spans ih body h1 true hb (NewS.one rfl hm) (fun x hx => by simp [hx])
  · simp only [List.isEmpty_cons, Bool.not_false, ↓reduceIte]
    sst
    refine nested_spans ih (o :: os) h2 il ho (NewS.post ?_ (edgeUnlessExit_stmts _ _ _ _)) (fun x hx => by simp [hx])
    exact nested_spans ih body h1 true hb (NewS.one rfl hm) (fun x hx => by simp [hx])

/-! ### if / elif chains -/
theorem ifHead_spans (ih : SLN N) (thn : List Stmt) (hsz : sizeL thn ≤ N) (il : Bool) (hok : okLC il thn = true)
    (st : St) (s e : Nat) {sp : List (Nat × Nat)} (hm : (s = 0 ∧ e = 0) ∨ (s, e) ∈ sp) (hsub : ∀ x ∈ spansL thn, x ∈ sp) :
    NewS sp st (ifHead st s e thn) := by
  unfold ifHead
  exact nested_spans ih thn hsz il hok (NewS.one rfl hm) hsub

theorem elifHead_spans (ih : SLN N) (thn : List Stmt) (hsz : sizeL thn ≤ N) (il : Bool) (hok : okLC il thn = true)
    (st : St) (s e : Nat) {sp : List (Nat × Nat)} (hm : (s = 0 ∧ e = 0) ∨ (s, e) ∈ sp) (hsub : ∀ x ∈ spansL thn, x ∈ sp) :
    NewS sp st (elifHead st s e thn) := by
  unfold elifHead
  exact nested_spans ih thn hsz il hok (NewS.one rfl hm) hsub

theorem elseTail_spans (ih : SLN N) (orelse : List Stmt) (hsz : sizeL orelse ≤ N) (il : Bool) (hok : okLC il orelse = true)
    {sp : List (Nat × Nat)} {st s3 : St} (h3 : NewS sp st s3) (hsub : ∀ x ∈ spansL orelse, x ∈ sp) (cond te : Nat) :
    NewS sp st (elseTail s3 cond te orelse) := by
  unfold elseTail
  exact nested_spans ih orelse hsz il hok (h3.post rfl) hsub

theorem sp_okLC_single_elifc {il : Bool} {s e : Nat} {a b : List Stmt} (h : okLC il [.elifc s e a b] = true) :
    okLC il a = true ∧ okLC il b = true := by
  rw [okLC_cons, okLC_nil, okSC_elifc, Bool.and_true, Bool.and_eq_true] at h; exact h
theorem sp_okLC_single_ite {il : Bool} {s e : Nat} {a b : List Stmt} (h : okLC il [.ite s e a b] = true) :
    okLC il a = true ∧ okLC il b = true := by
  rw [okLC_cons, okLC_nil, okSC_ite, Bool.and_true, Bool.and_eq_true] at h; exact h

theorem spans_single_elifc (s e : Nat) (a b : List Stmt) : spansL [.elifc s e a b] = spansL a ++ spansL b := by
  rw [spansL_cons, spansL_nil, spansS_elifc, List.append_nil]
theorem spans_single_ite (s e : Nat) (a b : List Stmt) : spansL [.ite s e a b] = (s, e) :: spansL a ++ spansL b := by
  rw [spansL_cons, spansL_nil, spansS_ite, List.append_nil]

theorem elif_spans (ih : SLN N) : ∀ (M : Nat) (thn orelse : List Stmt), sizeL thn + sizeL orelse ≤ M → sizeL thn ≤ N → sizeL orelse ≤ N →
    ∀ (il : Bool), okLC il thn = true → okLC il orelse = true →
    ∀ (sp : List (Nat × Nat)) (st : St) (s e fm : Nat), ((s = 0 ∧ e = 0) ∨ (s, e) ∈ sp) →
      (∀ x ∈ spansL thn, x ∈ sp) → (∀ x ∈ spansL orelse, x ∈ sp) → NewS sp st (procIfElif st s e thn orelse fm) := by
  intro M
  induction M with
  | zero =>
    intro thn orelse hM h1 h2 il hoka hokb sp st s e fm hm hsa hsb
    have : orelse = [] := by
      rcases orelse with _ | ⟨o, os⟩
      · rfl
      · simp only [sizeL] at hM; omega
    subst this
    have hH := elifHead_spans ih thn h1 il hoka st s e hm hsa
    rw [procIfElif_nil]
    sst
    exact hH
  | succ M ihM =>
    intro thn orelse hM h1 h2 il hoka hokb sp st s e fm hm hsa hsb
    have hH := elifHead_spans ih thn h1 il hoka st s e hm hsa
    rcases orelse_cases orelse with rfl | ⟨s', e', a, b, rfl⟩ | ⟨s', e', a, b, rfl⟩ | ⟨o, os, rfl, hne1, hne2⟩
    · rw [procIfElif_nil]
      sst
      exact hH
    · rw [procIfElif_elif]
      have hsz : sizeL a + sizeL b ≤ M ∧ sizeL a ≤ N ∧ sizeL b ≤ N := by
        simp only [sizeL, Stmt.size] at hM h2; omega
      obtain ⟨hoka', hokb'⟩ := sp_okLC_single_elifc hokb
      rw [spans_single_elifc] at hsb
      sst
      exact NewS.trans hH ((ihM a b hsz.1 hsz.2.1 hsz.2.2 il hoka' hokb' sp _ 0 0 fm (.inl ⟨rfl, rfl⟩)
        (fun x hx => hsb x (List.mem_append.mpr (.inl hx))) (fun x hx => hsb x (List.mem_append.mpr (.inr hx)))).pre rfl)
    · rw [procIfElif_ite]
      have hsz : sizeL a + sizeL b ≤ M ∧ sizeL a ≤ N ∧ sizeL b ≤ N := by
        simp only [sizeL, Stmt.size] at hM h2; omega
      obtain ⟨hoka', hokb'⟩ := sp_okLC_single_ite hokb
      rw [spans_single_ite] at hsb
      sst
      exact NewS.trans hH ((ihM a b hsz.1 hsz.2.1 hsz.2.2 il hoka' hokb' sp _ s' e' fm (.inr (hsb _ (List.mem_cons_self ..)))
        (fun x hx => hsb x (List.mem_cons_of_mem _ (List.mem_append.mpr (.inl hx))))
        (fun x hx => hsb x (List.mem_cons_of_mem _ (List.mem_append.mpr (.inr hx))))).pre rfl)
    · rw [procIfElif_else _ _ _ _ _ _ _ hne1 hne2]
      have h5 := elseTail_spans ih (o :: os) h2 il hokb hH hsb st.cur (elifHead st s e thn).cur
      simp only
      split
      · sst; exact h5
      · sst; exact h5

theorem elifTail_spans (ih : SLN N) (thn' orelse' : List Stmt) (h1 : sizeL thn' ≤ N) (h2 : sizeL orelse' ≤ N)
    (il : Bool) (hoka : okLC il thn' = true) (hokb : okLC il orelse' = true)
    (sp : List (Nat × Nat)) (st : St) (cond te merge s' e' : Nat) (hm : (s' = 0 ∧ e' = 0) ∨ (s', e') ∈ sp)
    (hsa : ∀ x ∈ spansL thn', x ∈ sp) (hsb : ∀ x ∈ spansL orelse', x ∈ sp) :
    NewS sp st (procIfElifTail st cond te merge s' e' thn' orelse') := by
  rw [procIfElifTail_eq]
  have h5 := (elif_spans ih _ thn' orelse' (Nat.le_refl _) h1 h2 il hoka hokb sp
    (setCur ((bump st).edge cond st.next .condF) st.next) s' e' merge hm hsa hsb).pre (s := st) rfl
  generalize procIfElif (setCur ((bump st).edge cond st.next .condF) st.next) s' e' thn' orelse' merge = s5 at h5 ⊢
  simp only
  split
  · split
    · exact h5
    · sst; exact h5
  · sst; exact h5

theorem if_spans (ih : SLN N) (thn orelse : List Stmt) (h1 : sizeL thn ≤ N) (h2 : sizeL orelse ≤ N)
    (il : Bool) (hoka : okLC il thn = true) (hokb : okLC il orelse = true)
    (sp : List (Nat × Nat)) (st : St) (s e : Nat) (hm : (s = 0 ∧ e = 0) ∨ (s, e) ∈ sp)
    (hsa : ∀ x ∈ spansL thn, x ∈ sp) (hsb : ∀ x ∈ spansL orelse, x ∈ sp) :
    NewS sp st (procIf st s e thn orelse) := by
  have hH := ifHead_spans ih thn h1 il hoka st s e hm hsa
  rcases orelse_cases orelse with rfl | ⟨s', e', a, b, rfl⟩ | ⟨s', e', a, b, rfl⟩ | ⟨o, os, rfl, hne1, hne2⟩
  · rw [procIf_nil]
    sst
    exact hH
  · rw [procIf_elif]
    have hsz : sizeL a ≤ N ∧ sizeL b ≤ N := by simp only [sizeL, Stmt.size] at h2; omega
    obtain ⟨hoka', hokb'⟩ := sp_okLC_single_elifc hokb
    rw [spans_single_elifc] at hsb
    exact NewS.trans hH (elifTail_spans ih a b hsz.1 hsz.2 il hoka' hokb' sp _ _ _ _ 0 0 (.inl ⟨rfl, rfl⟩)
      (fun x hx => hsb x (List.mem_append.mpr (.inl hx))) (fun x hx => hsb x (List.mem_append.mpr (.inr hx))))
  · rw [procIf_ite]
    have hsz : sizeL a ≤ N ∧ sizeL b ≤ N := by simp only [sizeL, Stmt.size] at h2; omega
    obtain ⟨hoka', hokb'⟩ := sp_okLC_single_ite hokb
    rw [spans_single_ite] at hsb
    exact NewS.trans hH (elifTail_spans ih a b hsz.1 hsz.2 il hoka' hokb' sp _ _ _ _ s' e' (.inr (hsb _ (List.mem_cons_self ..)))
      (fun x hx => hsb x (List.mem_cons_of_mem _ (List.mem_append.mpr (.inl hx))))
      (fun x hx => hsb x (List.mem_cons_of_mem _ (List.mem_append.mpr (.inr hx)))))
  · rw [procIf_else _ _ _ _ _ _ hne1 hne2]
    have h5 := elseTail_spans ih (o :: os) h2 il hokb hH hsb st.cur (ifHead st s e thn).cur
    simp only
    split
    · sst; exact h5
    · sst; exact h5

/-! ### match -/
theorem cases_spans (ih : SLN N) : ∀ (cs : List Stmt) (st : St) (mb merge : Nat) (il : Bool), sizeL cs ≤ N → okCasesC il cs = true →
    NewS (spansL cs) st (procCases st cs mb merge) := by
  intro cs
  induction cs with
  | nil =>
    intro st mb merge il _ _
    rw [procCases_nil]; exact NewS.refl _ _
  | cons x cs ihc =>
    intro st mb merge il hsz hok
    obtain ⟨s, e, b, rfl, hokb, hokcs⟩ := okCasesC_cons hok
    have hszs : (Stmt.case_ s e b).size ≤ N ∧ sizeL cs ≤ N := by simp only [sizeL] at hsz; omega
    have hb : sizeL b ≤ N := by have := hszs.1; simp only [Stmt.size] at this; omega
    rw [procCases_case, spansL_cons, spansS_case]
    simp only
    have hm : (s = 0 ∧ e = 0) ∨ (s, e) ∈ (s, e) :: spansL b ++ spansL cs := .inr (List.mem_cons_self ..)
    refine NewS.trans (NewS.post ?_ (edgeUnlessExit_stmts _ _ _ _)) ((ihc _ mb merge il hszs.2 hokcs).right _)
    exact nested_spans ih b hb il hokb (NewS.one rfl hm) (fun x hx => by simp [hx])

theorem match_spans (ih : SLN N) (cases : List Stmt) (h1 : sizeL cases ≤ N) (il : Bool) (hok : okCasesC il cases = true)
    (st : St) (s e : Nat) : NewS ((s, e) :: spansL cases) st (procMatch st s e cases) := by
  rw [procMatch_eq]
  have hm : (s = 0 ∧ e = 0) ∨ (s, e) ∈ (s, e) :: spansL cases := .inr (List.mem_cons_self ..)
  rcases cases with _ | ⟨c, cs⟩
  · simp only [List.isEmpty_nil, Bool.not_true, Bool.false_eq_true, ↓reduceIte]
    sst
    exact NewS.one rfl hm
  · simp only [List.isEmpty_cons, Bool.not_false, ↓reduceIte]
    sst
    exact NewS.trans (NewS.one rfl hm) ((cases_spans ih (c :: cs) _ _ _ il h1 hok).tail _)

/-! ### try -/
theorem handlers_spans (ih : SLN N) : ∀ (hs : List Stmt) (hbs : List Nat) (st : St) (after : Nat) (il : Bool), sizeL hs ≤ N →
    okHsC il hs = true → NewS (spansL hs) st (procHandlers st hs hbs after) := by
  intro hs
  induction hs with
  | nil =>
    intro hbs st after il _ _
    rw [procHandlers_nil_l]; exact NewS.refl _ _
  | cons x hs ihh =>
    intro hbs st after il hsz hok
    rcases hbs with _ | ⟨hb, hbs⟩
    · rw [procHandlers_nil_r]; exact NewS.refl _ _
    obtain ⟨s, e, b, rfl, hokb, hokhs⟩ := okHsC_cons hok
    have hszs : (Stmt.handler s e b).size ≤ N ∧ sizeL hs ≤ N := by simp only [sizeL] at hsz; omega
    have hb' : sizeL b ≤ N := by have := hszs.1; simp only [Stmt.size] at this; omega
    rw [procHandlers_handler, spansL_cons, spansS_handler]
    simp only
    have hm : (s = 0 ∧ e = 0) ∨ (s, e) ∈ (s, e) :: spansL b ++ spansL hs := .inr (List.mem_cons_self ..)
    refine NewS.trans (NewS.post ?_ (edgeUnlessExit_stmts _ _ _ _)) ((ihh hbs _ after il hszs.2 hokhs).right _)
    exact nested_spans ih b hb' il hokb (NewS.one rfl hm) (fun x hx => by simp [hx])

theorem tryPre_stmts (st : St) (hasFin hasElse : Bool) : (tryPre st hasFin hasElse).1.stmts = st.stmts := by
  unfold tryPre
  cases hasFin <;> cases hasElse <;> rfl

theorem tryMid_spans (ih : SLN N) (body handlers : List Stmt) (hb : sizeL body ≤ N) (hh : sizeL handlers ≤ N)
    (il : Bool) (hokb : okLC il body = true) (hokh : okHsC il handlers = true)
    (s3 : St) (tryB : Nat) (cfin : Option Nat) (excs0 : List Exc) (nat ah : Nat) :
    NewS (spansL body ++ spansL handlers) s3 (tryMid s3 tryB cfin excs0 nat ah body handlers) := by
  unfold tryMid
  simp only
  refine NewS.trans ?_ ((handlers_spans ih handlers _ _ ah il hh hokh).right _)
  refine NewS.post ?_ (foldl_edge_stmts _ _ _ _)
  refine NewS.post ?_ (edgeUnlessExit_stmts _ _ _ _)
  exact ((ih body hb il hokb _).left _).pre rfl

theorem tryElse_spans (ih : SLN N) (orelse : List Stmt) (ho : sizeL orelse ≤ N) (il : Bool) (hok : okLC il orelse = true)
    (s7 : St) (hasElse : Bool) (elseB ah : Nat) : NewS (spansL orelse) s7 (tryElse s7 hasElse elseB ah orelse) := by
  unfold tryElse
  cases hasElse
  · exact NewS.refl _ _
  · simp only [↓reduceIte]
    refine NewS.post ?_ (edgeUnlessExit_stmts _ _ _ _)
    exact (ih orelse ho il hok _).pre rfl

theorem tryFin_spans (ih : SLN N) (fin : List Stmt) (hf : sizeL fin ≤ N) (il : Bool) (hok : okLC il fin = true)
    (s8 : St) (hasFin : Bool) (finB exitBk : Nat) (ctx : Exc) (excs0 : List Exc) :
    NewS (spansL fin) s8 (tryFin s8 hasFin finB exitBk ctx excs0 fin) := by
  unfold tryFin
  cases hasFin
  · exact NewS.refl _ _
  · simp only [↓reduceIte]
    refine NewS.post ?_ (sp_finallyPropagation_stmts _ _)
    refine NewS.post ?_ (edgeUnlessExit_stmts _ _ _ _)
    refine NewS.post ?_ (setExcs_stmts _ _)
    exact (ih fin hf il hok _).pre rfl

theorem try_spans (ih : SLN N) (body handlers orelse fin : List Stmt) (hb : sizeL body ≤ N) (hh : sizeL handlers ≤ N)
    (ho : sizeL orelse ≤ N) (hf : sizeL fin ≤ N) (il : Bool) (hokb : okLC il body = true) (hokh : okHsC il handlers = true)
    (hoko : okLC il orelse = true) (hokf : okLC il fin = true) (st : St) (s e : Nat) :
    NewS (spansL body ++ spansL handlers ++ spansL orelse ++ spansL fin) st (procTry st s e body handlers orelse fin) := by
  rw [procTry_eq']
  simp only
  refine NewS.post (s' := tryFin _ _ _ _ _ _ fin) ?_ rfl
  refine NewS.trans ?_ ((tryFin_spans ih fin hf il hokf _ _ _ _ _ _).right _)
  refine NewS.trans ?_ (((tryElse_spans ih orelse ho il hoko _ _ _ _).right _).left _)
  refine NewS.trans ?_ (((tryMid_spans ih body handlers hb hh il hokb hokh _ _ _ _ _ _).left _).left _)
  exact NewS.of_eq (tryPre_stmts _ _ _)

/-! ### the main induction -/
theorem SLN_succ (ihS : SSN N) (ihL : SLN N) : SLN (N + 1) := by
  intro ss hsz il hok st
  rcases ss with _ | ⟨x, xs⟩
  · rw [procList_nil]; exact NewS.refl _ _
  · have hszs : x.size ≤ N ∧ sizeL xs ≤ N := by simp only [sizeL] at hsz; omega
    rw [okLC_cons, Bool.and_eq_true] at hok
    rw [procList_cons, spansL_cons]
    exact NewS.trans ((ihS x hszs.1 il hok.1 st).left _) ((ihL xs hszs.2 il hok.2 _).right _)

theorem SSN_succ (ihL : SLN N) : SSN (N + 1) := by
  intro x hsz il hok st
  cases x with
  | simple s e comp hasComp =>
    rw [procStmt_simple, spansS_simple]
    have hm : (s = 0 ∧ e = 0) ∨ (s, e) ∈ [(s, e)] := .inr (List.mem_cons_self ..)
    cases hasComp
    · simp only [Bool.false_eq_true, ↓reduceIte]
      exact NewS.one rfl hm
    · simp only [↓reduceIte]
      exact (comp_spans st s e comp).add _ _ _ _ hm
  | ret s e comp hasComp => rw [procStmt_ret, spansS_ret]; exact ret_spans st s e comp hasComp
  | brk s e => rw [procStmt_brk, spansS_brk]; exact brk_spans st s e
  | cont s e => rw [procStmt_cont, spansS_cont]; exact cont_spans st s e
  | raise s e => rw [procStmt_raise, spansS_raise]; exact raise_spans st s e
  | ite s e a b =>
    rw [procStmt_ite, spansS_ite]
    rw [okSC_ite, Bool.and_eq_true] at hok
    have : sizeL a ≤ N ∧ sizeL b ≤ N := by simp only [Stmt.size] at hsz; omega
    exact if_spans ihL a b this.1 this.2 il hok.1 hok.2 _ st s e (.inr (List.mem_cons_self ..))
      (fun x hx => List.mem_cons_of_mem _ (List.mem_append.mpr (.inl hx)))
      (fun x hx => List.mem_cons_of_mem _ (List.mem_append.mpr (.inr hx)))
  | elifc s e a b =>
    rw [procStmt_elifc, spansS_elifc]
    rw [okSC_elifc, Bool.and_eq_true] at hok
    have : sizeL a ≤ N ∧ sizeL b ≤ N := by simp only [Stmt.size] at hsz; omega
    exact if_spans ihL a b this.1 this.2 il hok.1 hok.2 _ st 0 0 (.inl ⟨rfl, rfl⟩)
      (fun x hx => List.mem_append.mpr (.inl hx)) (fun x hx => List.mem_append.mpr (.inr hx))
  | elsec s e b =>
    rw [procStmt_elsec, spansS_elsec]
    rw [okSC_elsec] at hok
    have : sizeL b ≤ N := by simp only [Stmt.size] at hsz; omega
    exact ihL b this il hok st
  | loop s e a b =>
    rw [procStmt_loop, spansS_loop]
    rw [okSC_loop, Bool.and_eq_true] at hok
    have : sizeL a ≤ N ∧ sizeL b ≤ N := by simp only [Stmt.size] at hsz; omega
    exact loop_spans ihL a b this.1 this.2 il hok.1 hok.2 st s e
  | try_ s e a b c' d =>
    rw [procStmt_try, spansS_try]
    rw [okSC_try, Bool.and_eq_true, Bool.and_eq_true, Bool.and_eq_true] at hok
    have : sizeL a ≤ N ∧ sizeL b ≤ N ∧ sizeL c' ≤ N ∧ sizeL d ≤ N := by simp only [Stmt.size] at hsz; omega
    exact try_spans ihL a b c' d this.1 this.2.1 this.2.2.1 this.2.2.2 il hok.1.1.1 hok.1.1.2 hok.1.2 hok.2 st s e
  | handler s e b => rw [okSC_handler] at hok; cases hok
  | with_ s e b =>
    rw [procStmt_with, spansS_with]
    rw [okSC_with] at hok
    have : sizeL b ≤ N := by simp only [Stmt.size] at hsz; omega
    exact with_spans ihL b this il hok st s e
  | match_ s e b =>
    rw [procStmt_match, spansS_match]
    rw [okSC_match] at hok
    have : sizeL b ≤ N := by simp only [Stmt.size] at hsz; omega
    exact match_spans ihL b this il hok st s e
  | case_ s e b => rw [okSC_case] at hok; cases hok
  | def_ s e b =>
    rw [procStmt_def, spansS_def]
    exact NewS.one rfl (.inr (List.mem_cons_self ..))
  | class_ s e b =>
    rw [procStmt_class, spansS_class]
    rw [okSC_class] at hok
    have : sizeL b ≤ N := by simp only [Stmt.size] at hsz; omega
    exact class_spans ihL b this false hok st s e

theorem spans_all : ∀ N, SSN N ∧ SLN N := by
  intro N
  induction N with
  | zero =>
    constructor
    · intro x hsz; have := Stmt.size_pos x; omega
    · intro ss hsz il hok st
      rcases ss with _ | ⟨x, xs⟩
      · rw [procList_nil]; exact NewS.refl _ _
      · simp only [sizeL] at hsz; omega
  | succ N ih => exact ⟨SSN_succ ih.2, SLN_succ ih.1 ih.2⟩

/-- every record stored while processing a statement list is an old one, or carries `0..0` or the span of a located statement -/
theorem procList_spans (ss : List Stmt) (il : Bool) (hok : okLC il ss = true) (st : St) :
    ∀ r ∈ (procList st ss).stmts, r ∈ st.stmts ∨ SpOK (spansL ss) r :=
  (spans_all (sizeL ss)).2 ss (Nat.le_refl _) il hok st

theorem procStmt_spans (x : Stmt) (il : Bool) (hok : okSC il x = true) (st : St) :
    ∀ r ∈ (procStmt st x).stmts, r ∈ st.stmts ∨ SpOK (spansS x) r :=
  (spans_all x.size).1 x (Nat.le_refl _) il hok st

theorem finishB_stmts (st : St) : (finishB st).stmts = st.stmts := by
  unfold finishB; split <;> rfl

/-- the records of a whole definition: the class header (if any), `0..0`, or spans of located statements of the body -/
theorem build_spans (k : Kind) (s e : Nat) (body : List Stmt) (hok : okLC false body = true) :
    ∀ r ∈ (build k s e body).stmts, r ∈ (preB k s e).stmts ∨ SpOK (spansL body) r := by
  rw [build_eq, finishB_stmts]
  exact procList_spans body false hok (preB k s e)

end PV.CFGSound

#print axioms PV.CFGSound.procList_spans
#print axioms PV.CFGSound.procStmt_spans
#print axioms PV.CFGSound.build_spans
