import PV.Proofs.CFGCompleteT
import PV.Proofs.CFGCompleteCov
/-!
Completeness of the CFG mirror for structurally dead code — dead zones.

`Fut E lo hi s`: the final edge list `E` is `s.edges` plus later edges none of which targets a block allocated in
`[lo, hi)`.  A block of such a zone whose in-edges (all in `s.edges`) have unreachable sources is unreachable
(`dead_of_DI`); if the current block of a framed call is unreachable, every block the call owns is (`zone_dead`).
-/
namespace PV.CFGSound
open PV.CFG PV.SD

def NoTgt (lo hi : Nat) (L : List Edge) : Prop := ∀ e ∈ L, e.2.1 < lo ∨ hi ≤ e.2.1

/-- the final edge list: the edges of `s` plus later ones that do not target blocks allocated in `[lo, hi)` -/
def Fut (E : List Edge) (lo hi : Nat) (s : St) : Prop := ∃ later, E = later ++ s.edges ∧ NoTgt lo hi later

/-- the final statement list contains the records of `s` -/
def StS (S : List SRec) (s : St) : Prop := ∀ r ∈ s.stmts, r ∈ S

/-- line `l` has a located record in a block that is NOT reachable along `E` -/
def DeadRec (E : List Edge) (S : List SRec) (l : Nat) : Prop := ∃ r ∈ S, r.s = l ∧ ¬ R E r.blk

/-- all blocks named by the context stacks are below `m` -/
def CtxLt (s : St) (m : Nat) : Prop :=
  (∀ l ∈ s.loops, l.1 < m ∧ l.2.1 < m) ∧ (∀ c ∈ s.excs, (∀ f, c.fin = some f → f < m) ∧ ∀ h ∈ c.handlers, h < m)

/-- every edge of `s` into `m` starts in an unreachable block -/
def DI (E : List Edge) (s : St) (m : Nat) : Prop := ∀ e ∈ s.edges, e.2.1 = m → ¬ R E e.1

def LoopOK (il : Bool) (s : St) : Prop := il = true → s.loops ≠ []

def stopsL (ss : List Stmt) : Bool := ss.any stops

variable {E : List Edge} {S : List SRec}

/-! ### context stacks -/
theorem WF.ctxLt {s : St} (w : WF s) {m : Nat} (h : s.next ≤ m) : CtxLt s m := ⟨w.loops_le h, w.excs_le h⟩
theorem CtxLt.same {s s' : St} {m : Nat} (h : CtxLt s m) (sm : Same s s') : CtxLt s' m := by
  unfold CtxLt; rw [sm.loops, sm.excs]; exact h
theorem CtxLt.of_eq {s s' : St} {m : Nat} (h : CtxLt s m) (hl : s'.loops = s.loops) (hx : s'.excs = s.excs) : CtxLt s' m := by
  unfold CtxLt; rw [hl, hx]; exact h
theorem CtxLt.mono {s : St} {m m' : Nat} (h : CtxLt s m) (hm : m ≤ m') : CtxLt s m' :=
  ⟨fun l hl => by have := h.1 l hl; omega,
   fun c hc => ⟨fun f hf => by have := (h.2 c hc).1 f hf; omega, fun x hx => by have := (h.2 c hc).2 x hx; omega⟩⟩
theorem LoopOK.same {il : Bool} {s s' : St} (h : LoopOK il s) (sm : Same s s') : LoopOK il s' := by
  unfold LoopOK; rw [sm.loops]; exact h
theorem LoopOK.of_eq {il : Bool} {s s' : St} (h : LoopOK il s) (hl : s'.loops = s.loops) : LoopOK il s' := by
  unfold LoopOK; rw [hl]; exact h
theorem LoopOK.false (s : St) : LoopOK false s := fun h => by cases h

theorem TG.zone {s : St} {lo hi : Nat} (h : CtxLt s lo) (h2 : 2 ≤ lo) (hh : hi ≤ s.next) : TG (fun x => x < lo ∨ hi ≤ x) s :=
  ⟨fun x hx => .inr (by omega), .inl (by unfold exitB; omega), fun l hl => ⟨.inl (h.1 l hl).1, .inl (h.1 l hl).2⟩,
   fun c hc => ⟨fun f hf => .inl ((h.2 c hc).1 f hf), fun x hx => .inl ((h.2 c hc).2 x hx)⟩⟩

theorem TG.ne {s : St} {lo m : Nat} (h : CtxLt s lo) (h2 : 2 ≤ lo) (hm : lo ≤ m) (hlt : m < s.next) : TG (fun x => x ≠ m) s :=
  ⟨fun x hx => by omega, by unfold exitB; omega, fun l hl => ⟨by have := (h.1 l hl).1; omega, by have := (h.1 l hl).2; omega⟩,
   fun c hc => ⟨fun f hf => by have := (h.2 c hc).1 f hf; omega, fun x hx => by have := (h.2 c hc).2 x hx; omega⟩⟩

/-! ### Fut -/
theorem Fut.mem {lo hi : Nat} {s : St} (f : Fut E lo hi s) {e : Edge} (h : e ∈ s.edges) : e ∈ E := by
  obtain ⟨later, rfl, _⟩ := f
  exact List.mem_append.mpr (.inr h)

theorem Fut.mono {lo hi lo' hi' : Nat} {s : St} (f : Fut E lo hi s) (h1 : lo ≤ lo') (h2 : hi' ≤ hi) : Fut E lo' hi' s := by
  obtain ⟨later, he, hn⟩ := f
  exact ⟨later, he, fun e h => by have := hn e h; omega⟩

theorem Fut.of_edges_eq {lo hi : Nat} {s s' : St} (f : Fut E lo hi s') (he : s'.edges = s.edges) : Fut E lo hi s := by
  obtain ⟨later, h, hn⟩ := f
  exact ⟨later, by rw [h, he], hn⟩

theorem Fut.back_TI {lo hi : Nat} {s s' : St} (f : Fut E lo hi s') (t : TI (fun x => x < lo ∨ hi ≤ x) s s') : Fut E lo hi s := by
  obtain ⟨later, h, hn⟩ := f
  obtain ⟨ne, he, hne⟩ := t
  refine ⟨later ++ ne, by rw [h, he, List.append_assoc], ?_⟩
  intro e hm
  rcases List.mem_append.mp hm with h1 | h1
  · exact hn e h1
  · exact hne e h1

theorem Fut.back_edge {lo hi : Nat} {s : St} {a b : Nat} {t : ETy} (f : Fut E lo hi (s.edge a b t)) (hb : b < lo ∨ hi ≤ b) :
    Fut E lo hi s :=
  f.back_TI ((TI.refl _ s).edge hb)

theorem Fut.back_eue {lo hi : Nat} {s : St} {a b : Nat} {t : ETy} (f : Fut E lo hi (s.edgeUnlessExit a b t)) (hb : b < lo ∨ hi ≤ b) :
    Fut E lo hi s :=
  f.back_TI ((TI.refl _ s).edgeUnlessExit hb)

theorem Fut.back_list {lo hi : Nat} {s : St} {ss : List Stmt} (f : Fut E lo hi (procList s ss)) (w : WF s) (h : CtxLt s lo)
    (h2 : 2 ≤ lo) (hh : hi ≤ s.next) : Fut E lo hi s :=
  f.back_TI (procList_target ss s w _ (TG.zone h h2 hh))

theorem Fut.back_stmt {lo hi : Nat} {s : St} {x : Stmt} (f : Fut E lo hi (procStmt s x)) (w : WF s) (h : CtxLt s lo)
    (h2 : 2 ≤ lo) (hh : hi ≤ s.next) : Fut E lo hi s :=
  f.back_TI (procStmt_target x s w _ (TG.zone h h2 hh))

/-! ### StS -/
theorem StS.of_inv {c n : Nat} {s s' : St} (h : StS S s') (i : Inv c n s s') : StS S s := fun r hr => h r (i.sub.2 r hr)
theorem StS.of_stmts_eq {s s' : St} (h : StS S s') (he : s'.stmts = s.stmts) : StS S s := fun r hr => h r (by rw [he]; exact hr)

/-! ### dead blocks -/
/-- a block of the zone all of whose in-edges in `s` start in unreachable blocks is unreachable -/
theorem dead_of_DI {lo hi : Nat} {s : St} (f : Fut E lo hi s) {m : Nat} (h1 : lo ≤ m) (h2 : m < hi) (hd : DI E s m) (h0 : m ≠ 0) :
    ¬ R E m := by
  intro r
  obtain ⟨later, he, hn⟩ := f
  cases r with
  | entry => exact h0 rfl
  | step ra hmem =>
    rw [he] at hmem
    rcases List.mem_append.mp hmem with h | h
    · have := hn _ h; simp only at this; omega
    · exact hd _ h rfl ra

theorem DI.of_wf {s : St} (w : WF s) {m : Nat} (h : s.next ≤ m) : DI E s m :=
  fun e he hm => by have := (w.edges e he).2; omega

theorem DI.of_edges_eq {s s' : St} {m : Nat} (h : DI E s m) (he : s'.edges = s.edges) : DI E s' m := by
  unfold DI; rw [he]; exact h

theorem DI.edge_ne {s : St} {m a b : Nat} {t : ETy} (h : DI E s m) (hb : b ≠ m) : DI E (s.edge a b t) m := by
  intro e he hm
  rcases List.mem_cons.mp he with rfl | he
  · exact absurd hm hb
  · exact h e he hm

theorem DI.edge_dead {s : St} {m a b : Nat} {t : ETy} (h : DI E s m) (ha : ¬ R E a) : DI E (s.edge a b t) m := by
  intro e he hm
  rcases List.mem_cons.mp he with rfl | he
  · exact ha
  · exact h e he hm

theorem DI.eue_ne {s : St} {m a b : Nat} {t : ETy} (h : DI E s m) (hb : b ≠ m) : DI E (s.edgeUnlessExit a b t) m := by
  rcases edgeUnlessExit_cases s a b t with ⟨_, h2⟩ | ⟨_, h2⟩ <;> rw [h2]
  · exact h
  · exact h.edge_ne hb

theorem DI.eue_dead {s : St} {m a b : Nat} {t : ETy} (h : DI E s m) (ha : ¬ R E a) : DI E (s.edgeUnlessExit a b t) m := by
  rcases edgeUnlessExit_cases s a b t with ⟨_, h2⟩ | ⟨_, h2⟩ <;> rw [h2]
  · exact h
  · exact h.edge_dead ha

theorem DI.TI {s s' : St} {m : Nat} (h : DI E s m) (t : TI (fun x => x ≠ m) s s') : DI E s' m := by
  obtain ⟨ne, he, hne⟩ := t
  intro e hmem hm
  rw [he] at hmem
  rcases List.mem_append.mp hmem with h1 | h1
  · exact absurd hm (hne e h1)
  · exact h e h1 hm

theorem DI.list {s : St} {m lo : Nat} {ss : List Stmt} (h : DI E s m) (w : WF s) (hc : CtxLt s lo) (h2 : 2 ≤ lo) (hm : lo ≤ m)
    (hlt : m < s.next) : DI E (procList s ss) m :=
  h.TI (procList_target ss s w _ (TG.ne hc h2 hm hlt))

/-- if the block that is current at the start of a framed call is unreachable, so is every block the call owns -/
theorem zone_dead {st s' : St} (w : WF st) (i : Inv st.cur st.next st s') (f : Fut E st.next s'.next s') (hd : ¬ R E st.cur) :
    ∀ x, Own st.cur st.next x → x < s'.next → ¬ R E x := by
  have key : ∀ x, R E x → st.next ≤ x → x < s'.next → False := by
    intro x r
    induction r with
    | entry => intro h _; have := w.two; omega
    | @step a b t ra hmem ih =>
      intro h1 h2
      obtain ⟨later, he, hn⟩ := f
      obtain ⟨ne, hne, hown⟩ := i.edges
      rw [he, hne] at hmem
      rcases List.mem_append.mp hmem with h | h
      · have := hn _ h; simp only at this; omega
      · rcases List.mem_append.mp h with h | h
        · have hs := hown _ h
          have hlt : a < s'.next := (i.wf.edges (a, b, t) (by rw [hne]; exact List.mem_append.mpr (.inl h))).1
          simp only at hs
          rcases hs with hs | hs
          · exact hd (hs ▸ ra)
          · exact ih hs hlt
        · have := (w.edges _ h).2; simp only at this; omega
  intro x hx hlt r
  rcases hx with rfl | hx
  · exact hd r
  · exact key x r hx hlt

/-- the current block after a framed call from an unreachable block is unreachable -/
theorem dead_cur {st s' : St} (w : WF st) (i : Inv st.cur st.next st s') (f : Fut E st.next s'.next s') (hd : ¬ R E st.cur) :
    ¬ R E s'.cur :=
  zone_dead w i f hd _ i.own i.wf.cur

/-- all lines of a statement list processed from an unreachable block are dead -/
theorem dead_lines {ss : List Stmt} {il : Bool} (hok : okLC il ss = true) {st : St} (w : WF st)
    (f : Fut E st.next (procList st ss).next (procList st ss)) (hS : StS S (procList st ss)) (hd : ¬ R E st.cur) :
    ∀ l ∈ linesOfL ss, l ∈ elifL ss ∨ DeadRec E S l := by
  intro l hl
  obtain ⟨i, _⟩ := procList_frame ss st w st.cur st.next (Or.inl rfl) (Nat.le_refl _)
  rcases procList_covers ss il hok st w st.cur st.next (Or.inl rfl) (Nat.le_refl _) l hl with h | ⟨r, hr, hs, ho⟩
  · exact .inl h
  · exact .inr ⟨r, hS r hr, hs, zone_dead w i f hd _ ho (i.wf.stmts r hr)⟩

/-! ### terminators: the block that is current afterwards is fresh and has no in-edge -/
theorem term_shape {x : Stmt} {il : Bool} (ht : isTerm x = true) (hok : okSC il x = true) {st : St} (w : WF st) (hl : LoopOK il st) :
    ∃ s2, procStmt st x = setCur (bumpU s2) s2.next ∧ WF s2 ∧ st.next ≤ s2.next := by
  have hc : Own st.cur st.next st.cur := Or.inl rfl
  cases x with
  | ret s e comp hasComp =>
    rw [procStmt_ret, procRet_eq]
    have hst0 : Inv st.cur st.next st (if hasComp then procComp st s e comp else st) := by
      cases hasComp
      · exact Inv.refl w hc
      · exact (comp_frame st s e comp w hc (Nat.le_refl _)).1
    generalize (if hasComp then procComp st s e comp else st) = st0 at hst0
    have i1 := hst0.add (b := st0.cur) (p := s) (q := e) (ty := .ret) hst0.own hst0.wf.cur
    have h2 := hst0.wf.two
    have hcur := hst0.wf.cur
    have hn := hst0.next_le
    simp only
    split
    · next f hf =>
      obtain ⟨cx, hcx, hfin⟩ := tfRet_mem hf
      have := (i1.wf.excs cx hcx).1 f hfin
      have i2 := i1.edge (a := st0.cur) (b := f) (t := .ret) hst0.own (by ob) (by ob)
      exact ⟨_, rfl, i2.wf, by ob⟩
    · have i2 := i1.edge (a := st0.cur) (b := exitB) (t := .ret) hst0.own (by ob) (by unfold exitB; ob)
      exact ⟨_, rfl, i2.wf, by ob⟩
  | raise s e =>
    rw [procStmt_raise, procRaise_eq]
    have i0 : Inv st.cur st.next st st := Inv.refl w hc
    have i1 := i0.add (b := st.cur) (p := s) (q := e) (ty := .raise) hc w.cur
    have hcur := w.cur
    have h2 := w.two
    simp only
    split
    · next f hf =>
      obtain ⟨cx, hcx, hfin⟩ := tf_mem hf
      have := (i1.wf.excs cx hcx).1 f hfin
      have i2 := i1.edge (a := st.cur) (b := f) (t := .exc) hc (by ob) (by ob)
      exact ⟨_, rfl, i2.wf, by ob⟩
    · split
      · next cx hcx =>
        have hmem := fallback_mem hcx
        split
        · rw [foldl_cur_edges_eq]
          obtain ⟨j, sm, hnx, hcu⟩ := foldl_edges_frame (c := st.cur) (n := st.next) (st.add st.cur s e .raise).cur .exc cx.handlers _ i1 hc (by ob)
            (fun h hh => (i1.wf.excs cx hmem).2 h hh)
          exact ⟨_, rfl, j.wf, by rw [hnx]; ob⟩
        · have i2 := i1.edge (a := st.cur) (b := exitB) (t := .exc) hc (by ob) (by unfold exitB; ob)
          exact ⟨_, rfl, i2.wf, by ob⟩
      · have i2 := i1.edge (a := st.cur) (b := exitB) (t := .exc) hc (by ob) (by unfold exitB; ob)
        exact ⟨_, rfl, i2.wf, by ob⟩
  | brk s e =>
    rw [okSC_brk] at hok
    rw [procStmt_brk, procBrk_eq]
    have i0 : Inv st.cur st.next st st := Inv.refl w hc
    have i1 := i0.add (b := st.cur) (p := s) (q := e) (ty := .brk) hc w.cur
    have hcur := w.cur
    simp only
    split
    · next hnil => exact absurd hnil (hl hok)
    · next h x d rest hll =>
      have hx := i1.wf.loops (h, x, d) (by rw [hll]; exact List.mem_cons_self ..)
      split
      · next f hf =>
        obtain ⟨cx, hcx, hfin⟩ := tfLoop_mem hf
        have := (i1.wf.excs cx hcx).1 f hfin
        have i2 := i1.edge (a := st.cur) (b := f) (t := .brk) hc (by ob) (by ob)
        exact ⟨_, rfl, i2.wf, by ob⟩
      · have i2 := i1.edge (a := st.cur) (b := x) (t := .brk) hc (by ob) (by ob)
        exact ⟨_, rfl, i2.wf, by ob⟩
  | cont s e =>
    rw [okSC_cont] at hok
    rw [procStmt_cont, procCont_eq]
    have i0 : Inv st.cur st.next st st := Inv.refl w hc
    have i1 := i0.add (b := st.cur) (p := s) (q := e) (ty := .cont) hc w.cur
    have hcur := w.cur
    simp only
    split
    · next hnil => exact absurd hnil (hl hok)
    · next h x d rest hll =>
      have hx := i1.wf.loops (h, x, d) (by rw [hll]; exact List.mem_cons_self ..)
      split
      · next f hf =>
        obtain ⟨cx, hcx, hfin⟩ := tfLoop_mem hf
        have := (i1.wf.excs cx hcx).1 f hfin
        have i2 := i1.edge (a := st.cur) (b := f) (t := .cont) hc (by ob) (by ob)
        exact ⟨_, rfl, i2.wf, by ob⟩
      · have i2 := i1.edge (a := st.cur) (b := h) (t := .cont) hc (by ob) (by ob)
        exact ⟨_, rfl, i2.wf, by ob⟩
  | _ => exact absurd ht (by simp [isTerm])

/-- after a terminator the current block is unreachable in the final graph -/
theorem term_dead {x : Stmt} {il : Bool} (ht : isTerm x = true) (hok : okSC il x = true) {st : St} (w : WF st) (hl : LoopOK il st)
    (f : Fut E st.next (procStmt st x).next (procStmt st x)) : ¬ R E (procStmt st x).cur := by
  obtain ⟨s2, h, w2, hn⟩ := term_shape ht hok w hl
  rw [h] at f ⊢
  have h2 := w.two
  refine dead_of_DI f (m := s2.next) (by simpa using hn) (by simp) ?_ (by omega)
  intro e he _
  have := (w2.edges e he).2
  omega

/-- a freshly allocated current block (`setCur (bumpU s) s.next`) is unreachable -/
theorem fresh_dead {lo : Nat} {s : St} (w : WF s) (hlo : lo ≤ s.next) (f : Fut E lo (s.next + 1) (setCur (bumpU s) s.next)) :
    ¬ R E s.next := by
  have h2 := w.two
  refine dead_of_DI f (m := s.next) hlo (by omega) ?_ (by omega)
  intro e he _
  have := (w.edges e he).2
  omega

theorem endsTerm_stopsL {l : List Stmt} (h : endsTerm l = true) : stopsL l = true := by
  unfold endsTerm at h
  cases hl : l.getLast? with
  | none => rw [hl] at h; cases h
  | some x =>
    rw [hl] at h
    simp only at h
    have hm : x ∈ l := List.mem_of_getLast? hl
    unfold stopsL
    rw [List.any_eq_true]
    refine ⟨x, hm, ?_⟩
    cases x <;> simp_all [isTerm, stops]

end PV.CFGSound
