import PV.Proofs.CFGRangesTop
import PV.Proofs.CFGRangesLeaf
import PV.Proofs.CFGRangesIf
import PV.Proofs.CFGRangesLoop
import PV.Proofs.CFGRangesLoopB
import PV.Proofs.CFGRangesMatch
import PV.Proofs.CFGRangesTry
import PV.Proofs.CFGRangesInfo
import PV.Properties.C01
/-!
Range-level soundness of the dead-code detector of the CFG mirror (property C01 for the reported RANGES):
no line that can execute lies inside the line range `[start of the first record, end of the last record]` that `findings`
reports for an unreachable block.

The induction over the builder (`rq_all`) establishes, for the final record list (newest first) and the final edge list `E`:
* `GZ`: the records of one block are consecutive in insertion order, a `0..0` record (test of a converted `elif`) is the last of its block;
* pairwise `Rel E`: located records are stored in source order; a record whose start line lies in the span of an older record is in
  a reachable block only if the older one is; the records of one line are reachable together.
`findings_sound` (CFGRangesInfo) derives the range statement from these facts, `build_sound3` provides a reachable record for
every line of the static summary `sxL`, which covers every execution (`live_le_sx3`, `C01_live_sound`).
-/
namespace PV.CFGSound
open PV.CFG PV.Py

section ind
variable {E : List Edge} {N : Nat}

theorem stmt_rq (ih : ∀ ss, sizeL ss ≤ N → RQL E ss) (x : Stmt) (hsz : x.size ≤ N + 1) : RQS E x := by
  cases x with
  | simple s e c h => exact simple_rq s e c h
  | ret s e c h => exact ret_rq s e c h
  | brk s e => exact brk_rq s e
  | cont s e => exact cont_rq s e
  | raise s e => exact raise_rq s e
  | def_ s e b => exact def_rq s e b
  | ite s e a b => simp only [Stmt.size] at hsz; exact if_rq ih a b (by omega) (by omega) s e
  | elifc s e a b => simp only [Stmt.size] at hsz; exact elifc_rq ih a b (by omega) (by omega) s e
  | elsec s e a => simp only [Stmt.size] at hsz; exact elsec_rq ih a (by omega) s e
  | loop s e a b => simp only [Stmt.size] at hsz; exact loop_rq ih a b (by omega) (by omega) s e
  | try_ s e a hs c d => simp only [Stmt.size] at hsz; exact try_rq ih a hs c d (by omega) (by omega) (by omega) (by omega) s e
  | handler s e a => intro il st p w hok; rw [okSC_handler] at hok; cases hok
  | with_ s e a => simp only [Stmt.size] at hsz; exact with_rq ih a (by omega) s e
  | match_ s e a => simp only [Stmt.size] at hsz; exact match_rq ih a (by omega) s e
  | case_ s e a => intro il st p w hok; rw [okSC_case] at hok; cases hok
  | class_ s e a => simp only [Stmt.size] at hsz; exact class_rq ih a (by omega) s e
end ind

theorem rq_all (E : List Edge) : ∀ N, (∀ x : Stmt, x.size ≤ N → RQS E x) ∧ (∀ ss, sizeL ss ≤ N → RQL E ss) := by
  intro N
  induction N with
  | zero =>
    constructor
    · intro x hsz; have := Stmt.size_pos x; omega
    · intro ss hsz
      rcases ss with _ | ⟨x, xs⟩
      · exact nil_rq
      · simp only [sizeL] at hsz; omega
  | succ N ih => exact ⟨fun x hx => stmt_rq ih.2 x hx, fun ss hs => list_rq ih.1 ih.2 ss hs⟩

/-- **the record-order invariant for statement lists**, for every final graph `E` that adds no edge into the blocks of the call -/
theorem rq_list (E : List Edge) (ss : List Stmt) : RQL E ss := (rq_all E (sizeL ss)).2 ss (Nat.le_refl _)

/-! ### the whole definition -/

/-- the fragment: that of the record-level soundness theorem (`mirror_sound3`) — every statement kind incl. `try/except/else/finally`,
`with`, `match`, loop `else`, comprehensions; `break`/`continue` only inside a loop of the same definition, `except`/`case` clauses only
as members of `try`/`match`, no `try … finally` inside a `finally` body -/
def okR (body : List Stmt) : Bool := okL3 false false body

theorem build_wf (k : Kind) (s e : Nat) (body : List Stmt) : WF (build k s e body) := by
  have ipre := preB_inv k s e
  obtain ⟨j, _⟩ := procList_frame body _ ipre.wf 0 0 (Or.inr (Nat.zero_le _)) (Nat.zero_le _)
  rw [build_eq]; unfold finishB
  have h2 := j.wf.two
  have hc := j.wf.cur
  split
  · exact (j.edge (a := (procList (preB k s e) body).cur) (b := exitB) (t := .normal) (Or.inr (Nat.zero_le _)) hc (by unfold exitB; omega)).wf
  · exact j.wf

/-- **no record of a reachable block starts inside a reported range** -/
theorem ranges_records (k : Kind) (s e : Nat) (body : List Stmt) (hok : okR body = true) (hwf : WFDef k s e body) :
    ∀ r ∈ (build k s e body).stmts, r.blk ∈ reachable (build k s e body) → 1 ≤ r.s →
      ∀ f ∈ findings (build k s e body), ¬ (f.s ≤ r.s ∧ r.s ≤ f.e) := by
  obtain ⟨hgz, hpw, hv⟩ := build_rq rq_list k s e body (okLC_of_okL3 body false false hok) hwf
  exact findings_sound _ (build_wf k s e body) hgz hpw hv

/-- **static form**: no line of the static summary `sxL` (⊇ `live`) lies inside a reported range -/
theorem mirror_ranges_static_def (k : Kind) (s e : Nat) (body : List Stmt) (hok : okR body = true) (hwf : WFDef k s e body) :
    ∀ l ∈ (sxL body).lines, ∀ f ∈ findings (build k s e body), ¬ (f.s ≤ l ∧ l ≤ f.e) := by
  intro l hl f hf
  obtain ⟨r, hr, hrs, hrb⟩ := build_sound3 k s e body hok l hl
  have h1 : 1 ≤ l := (sx_lines_pos hwf.wfl).1 l hl
  have := ranges_records k s e body hok hwf r hr hrb (by omega) f hf
  rwa [hrs] at this

/-- **semantic form**: a line that some execution executes is the head of an `elif` clause or lies outside every reported range -/
theorem mirror_ranges_sound_def (k : Kind) (s e : Nat) (body : List Stmt) (hok : okR body = true) (hwf : WFDef k s e body)
    {o : Out} {tr : List Nat} (ex : Exec body o tr) :
    ∀ l ∈ tr, l ∈ (sxL body).skipped ∨ ∀ f ∈ findings (build k s e body), ¬ (f.s ≤ l ∧ l ≤ f.e) := by
  intro l hl
  have h1 := (PV.C01.C01_live_sound ex).2 l hl
  rcases (live_le_sx3 body false false hok).1 l h1 with h | h
  · exact .inr (mirror_ranges_static_def k s e body hok hwf l h)
  · exact .inl h

/-- for functions and modules `WFLoc body` is all that is needed -/
theorem WFDef.of_wfloc {k : Kind} (s e : Nat) {body : List Stmt} (hk : k ≠ .cls) (h : WFLoc body) : WFDef k s e body := by
  cases k
  · exact h
  · exact absurd rfl hk
  · exact h

theorem mirror_ranges_static (k : Kind) (hk : k ≠ .cls) (s e : Nat) (body : List Stmt) (hok : okR body = true) (hwf : WFLoc body) :
    ∀ l ∈ (sxL body).lines, ∀ f ∈ findings (build k s e body), ¬ (f.s ≤ l ∧ l ≤ f.e) :=
  mirror_ranges_static_def k s e body hok (WFDef.of_wfloc s e hk hwf)

theorem mirror_ranges_sound (k : Kind) (hk : k ≠ .cls) (s e : Nat) (body : List Stmt) (hok : okR body = true) (hwf : WFLoc body)
    {o : Out} {tr : List Nat} (ex : Exec body o tr) :
    ∀ l ∈ tr, l ∈ (sxL body).skipped ∨ ∀ f ∈ findings (build k s e body), ¬ (f.s ≤ l ∧ l ≤ f.e) :=
  mirror_ranges_sound_def k s e body hok (WFDef.of_wfloc s e hk hwf) ex

end PV.CFGSound

#print axioms PV.CFGSound.mirror_ranges_sound
#print axioms PV.CFGSound.mirror_ranges_static_def
