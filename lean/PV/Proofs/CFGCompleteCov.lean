import PV.Proofs.CFGCompleteDefs
import PV.Proofs.CFGSoundLib
/-!
Completeness of the CFG mirror for structurally dead code (property C02) — COVERAGE:
every line of `linesOfL ss` gets a located statement record in a block OWNED by the call
(the block current on entry or a block allocated during the call), except the heads of `elif`
clauses (the builder stores the test of a converted `elif` with line 0).
Same induction skeleton as `frame_all` (CFGFrameA); the frame lemmas are used as black boxes for
well-formedness / ownership of the intermediate states and for "old records are kept".
-/
namespace PV.CFGSound
open PV.CFG PV.SD

/-- line `l` has a record in `s` whose block is owned -/
def Rec (c n : Nat) (s : St) (l : Nat) : Prop := ∃ r ∈ s.stmts, r.s = l ∧ Own c n r.blk

/-- the records of `s` are kept in `s'` -/
def KeepS (s s' : St) : Prop := ∀ r ∈ s.stmts, r ∈ s'.stmts

theorem KeepS.refl (s : St) : KeepS s s := fun _ h => h
theorem KeepS.trans {a b d : St} (h₁ : KeepS a b) (h₂ : KeepS b d) : KeepS a d := fun r h => h₂ r (h₁ r h)
theorem KeepS.of_eq {s s' : St} (h : s'.stmts = s.stmts) : KeepS s s' := fun r hr => by rw [h]; exact hr
theorem Inv.keepS {c n : Nat} {s s' : St} (i : Inv c n s s') : KeepS s s' := i.sub.2

theorem Rec.mono {c n : Nat} {s s' : St} {l : Nat} (h : Rec c n s l) (k : ∀ r ∈ s.stmts, r ∈ s'.stmts) : Rec c n s' l := by
  obtain ⟨r, hr, h1, h2⟩ := h
  exact ⟨r, k r hr, h1, h2⟩

/-- the newest record of `s` is a located record of line `l` in an owned block, and `s'` keeps the records of `s` -/
theorem Rec.headK {c n : Nat} {s s' : St} (k : KeepS s s') {b l e : Nat} {ty : Ty} {rest : List SRec}
    (h : s.stmts = { blk := b, s := l, e := e, ty := ty } :: rest) (ho : Own c n b) : Rec c n s' l :=
  ⟨{ blk := b, s := l, e := e, ty := ty }, k _ (by rw [h]; exact List.mem_cons_self ..), rfl, ho⟩

/-- every line of `L` is exempt (in `E`) or has an owned record in `s` -/
def CvL (c n : Nat) (s : St) (L E : List Nat) : Prop := ∀ l ∈ L, l ∈ E ∨ Rec c n s l

section cvl
variable {c n : Nat} {s s' : St} {L L₁ L₂ E E' E₁ E₂ : List Nat} {l : Nat}
theorem CvL.nil : CvL c n s [] E := fun _ h => by cases h
theorem CvL.mono (h : CvL c n s L E) (k : KeepS s s') : CvL c n s' L E := fun l hl =>
  (h l hl).imp id (fun r => r.mono k)
theorem CvL.app (h₁ : CvL c n s L₁ E₁) (h₂ : CvL c n s L₂ E₂) : CvL c n s (L₁ ++ L₂) (E₁ ++ E₂) := by
  intro l hl
  rcases List.mem_append.mp hl with hl | hl
  · exact (h₁ l hl).imp (fun h => List.mem_append.mpr (.inl h)) id
  · exact (h₂ l hl).imp (fun h => List.mem_append.mpr (.inr h)) id
theorem CvL.consR (hr : Rec c n s l) (h : CvL c n s L E) : CvL c n s (l :: L) E := by
  intro x hx
  rcases List.mem_cons.mp hx with rfl | hx
  · exact .inr hr
  · exact h x hx
theorem CvL.consE (h : CvL c n s L E) : CvL c n s (l :: L) (l :: E) := by
  intro x hx
  rcases List.mem_cons.mp hx with rfl | hx
  · exact .inl (List.mem_cons_self ..)
  · exact (h x hx).imp (fun h => List.mem_cons_of_mem _ h) id
theorem cvr_mono {l : Nat} (h : CvL c n s L E ∧ Rec c n s l) (k : KeepS s s') : CvL c n s' L E ∧ Rec c n s' l :=
  ⟨h.1.mono k, h.2.mono k⟩
end cvl

@[simp] theorem finishElif_stmts (s : St) (te fm : Nat) : (finishElif s te fm).stmts = s.stmts := by
  unfold finishElif; simp

theorem foldl_cur_edge_stmts (t : ETy) : ∀ (hs : List Nat) (s : St),
    (hs.foldl (fun st h => st.edge st.cur h t) s).stmts = s.stmts
  | [], _ => rfl
  | h :: hs, s => by
    simp only [List.foldl_cons]
    rw [foldl_cur_edge_stmts t hs]; rfl

theorem foldl_edge_stmts (src : Nat) (t : ETy) : ∀ (hs : List Nat) (s : St),
    (hs.foldl (fun st h => st.edge src h t) s).stmts = s.stmts
  | [], _ => rfl
  | h :: hs, s => by
    simp only [List.foldl_cons]
    rw [foldl_edge_stmts src t hs]; rfl

/-! ### the statement of the induction -/
def CSP (x : Stmt) : Prop :=
  ∀ il, okSC il x = true → ∀ st, WF st → ∀ c n, Own c n st.cur → n ≤ st.next → CvL c n (procStmt st x) (linesOf x) (elifS x)
def CLP (ss : List Stmt) : Prop :=
  ∀ il, okLC il ss = true → ∀ st, WF st → ∀ c n, Own c n st.cur → n ≤ st.next → CvL c n (procList st ss) (linesOfL ss) (elifL ss)
def CLN (N : Nat) : Prop := ∀ ss, sizeL ss ≤ N → CLP ss
def CSN (N : Nat) : Prop := ∀ x : Stmt, x.size ≤ N → CSP x

variable {c n N : Nat}

/-- a nested statement list processed from a framed intermediate state -/
theorem nested_covers (ih : CLN N) (body : List Stmt) (hsz : sizeL body ≤ N) (il : Bool) (hok : okLC il body = true)
    {st0 s1 : St} (i1 : Inv c n st0 s1) (hn : n ≤ st0.next) :
    CvL c n (procList s1 body) (linesOfL body) (elifL body) ∧ Inv c n s1 (procList s1 body) :=
  have hn1 : n ≤ s1.next := Nat.le_trans hn i1.next_le
  ⟨ih body hsz il hok s1 i1.wf c n i1.own hn1, (procList_frame body s1 i1.wf c n i1.own hn1).1⟩

/-! ### simple statements and terminators -/
theorem ret_covers (st : St) (s e : Nat) (comp : List Bool) (hasComp : Bool) (w : WF st) (hc : Own c n st.cur) (hn : n ≤ st.next) :
    Rec c n (procRet st s e comp hasComp) s := by
  rw [procRet_eq]
  have hst0 : Inv c n st (if hasComp then procComp st s e comp else st) := by
    cases hasComp
    · exact Inv.refl w hc
    · exact (comp_frame st s e comp w hc hn).1
  generalize (if hasComp then procComp st s e comp else st) = st0 at hst0
  simp only
  refine Rec.headK (s := st0.add st0.cur s e .ret) (KeepS.of_eq ?_) rfl hst0.own
  simp only [setCur_stmts, bumpU_stmts]
  split <;> rfl

theorem brk_covers (st : St) (s e : Nat) (hc : Own c n st.cur) : Rec c n (procBrk st s e) s := by
  rw [procBrk_eq]
  simp only
  split
  · exact Rec.headK (KeepS.refl _) rfl hc
  · refine Rec.headK (s := st.add st.cur s e .brk) (KeepS.of_eq ?_) rfl hc
    simp only [setCur_stmts, bumpU_stmts]
    split <;> rfl

theorem cont_covers (st : St) (s e : Nat) (hc : Own c n st.cur) : Rec c n (procCont st s e) s := by
  rw [procCont_eq]
  simp only
  split
  · exact Rec.headK (KeepS.refl _) rfl hc
  · refine Rec.headK (s := st.add st.cur s e .cont) (KeepS.of_eq ?_) rfl hc
    simp only [setCur_stmts, bumpU_stmts]
    split <;> rfl

theorem raise_covers (st : St) (s e : Nat) (hc : Own c n st.cur) : Rec c n (procRaise st s e) s := by
  rw [procRaise_eq]
  simp only
  refine Rec.headK (s := st.add st.cur s e .raise) (KeepS.of_eq ?_) rfl hc
  simp only [setCur_stmts, bumpU_stmts]
  split
  · rfl
  · split
    · split
      · rw [foldl_cur_edge_stmts]
      · rfl
    · rfl

/-! ### compound statements -/
theorem class_covers (ih : CLN N) (body : List Stmt) (hsz : sizeL body ≤ N) (il : Bool) (hok : okLC il body = true)
    (st : St) (s e : Nat) (w : WF st) (hc : Own c n st.cur) (hn : n ≤ st.next) :
    CvL c n (procClass st s e body) (s :: linesOfL body) (elifL body) := by
  rw [procClass_eq]
  have hcur := w.cur
  have i0 : Inv c n st st := Inv.refl w hc
  have i1 := ((i0.bump.edge (a := st.cur) (b := st.next) (t := .normal) hc (by ob) (by ob)).setCur (x := st.next) (by ob) (by ob)).add
    (b := st.next) (p := s) (q := e) (ty := .other) (by ob) (by ob)
  obtain ⟨cv, j⟩ := nested_covers ih body hsz il hok i1 hn
  exact CvL.consR (Rec.headK j.keepS rfl (by ob)) cv

theorem with_covers (ih : CLN N) (body : List Stmt) (hsz : sizeL body ≤ N) (il : Bool) (hok : okLC il body = true)
    (st : St) (s e : Nat) (w : WF st) (hc : Own c n st.cur) (hn : n ≤ st.next) :
    CvL c n (procWith st s e body) (s :: linesOfL body) (elifL body) := by
  rw [procWith_eq]
  have hcur := w.cur
  have i0 : Inv c n st st := Inv.refl w hc
  have i1 := ((((((i0.bump.edge (a := st.cur) (b := st.next) (t := .normal) hc (by ob) (by ob)).add (b := st.next) (p := s) (q := e)
    (ty := .other) (by ob) (by ob)).bump).bump).bump).edge (a := st.next) (b := st.next + 1) (t := .normal) (by ob) (by ob) (by ob)).setCur
    (x := st.next + 1) (by ob) (by ob)
  obtain ⟨cv, j⟩ := nested_covers ih body hsz il hok i1 hn
  have hr : Rec c n _ s := Rec.headK j.keepS rfl (by ob)
  simp only
  exact (CvL.consR hr cv).mono (KeepS.of_eq (by simp))

theorem loop_covers (ih : CLN N) (body orelse : List Stmt) (h1 : sizeL body ≤ N) (h2 : sizeL orelse ≤ N) (il : Bool)
    (hb : okLC true body = true) (ho : okLC il orelse = true)
    (st : St) (s e : Nat) (w : WF st) (hc : Own c n st.cur) (hn : n ≤ st.next) :
    CvL c n (procLoop st s e body orelse) (s :: (linesOfL body ++ linesOfL orelse)) (elifL body ++ elifL orelse) := by
  rw [procLoop_eq]
  have hcur := w.cur
  have i0 : Inv c n st st := Inv.refl w hc
  have i1 := (((i0.bump.edge (a := st.cur) (b := st.next) (t := .normal) hc (by ob) (by ob)).add (b := st.next) (p := s) (q := e)
    (ty := .other) (by ob) (by ob)).bump).bump
  rcases orelse with _ | ⟨o, os⟩
  · simp only [List.isEmpty_nil, Bool.not_true, Bool.false_eq_true, ↓reduceIte]
    have i2 := (((i1.setLoops (l := (st.next, st.next + 2, st.excs.length) :: st.loops) (by
        intro x hx
        rcases List.mem_cons.mp hx with rfl | hx
        · constructor <;> ob
        · exact w.loops_le (by ob) x hx)).edge (a := st.next) (b := st.next + 1) (t := .condT) (by ob) (by ob) (by ob)).edge
        (a := st.next) (b := st.next + 2) (t := .condF) (by ob) (by ob) (by ob)).setCur (x := st.next + 1) (by ob) (by ob)
    obtain ⟨cv, j⟩ := nested_covers ih body h1 true hb i2 hn
    have hr : Rec c n _ s := Rec.headK j.keepS rfl (by ob)
    rw [linesOfL_nil, elifL_nil]
    exact (CvL.consR hr (cv.app CvL.nil)).mono (KeepS.of_eq (by simp))
  · simp only [List.isEmpty_cons, Bool.not_false, ↓reduceIte]
    have i2 := (((i1.bump.setLoops (l := (st.next, st.next + 2, st.excs.length) :: st.loops) (by
        intro x hx
        rcases List.mem_cons.mp hx with rfl | hx
        · constructor <;> ob
        · exact w.loops_le (by ob) x hx)).edge (a := st.next) (b := st.next + 1) (t := .condT) (by ob) (by ob) (by ob)).edge
        (a := st.next) (b := st.next + 3) (t := .condF) (by ob) (by ob) (by ob)).setCur (x := st.next + 1) (by ob) (by ob)
    obtain ⟨cv, j⟩ := nested_covers ih body h1 true hb i2 hn
    have hr : Rec c n _ s := Rec.headK j.keepS rfl (by ob)
    have k := i2.trans j
    have hjn := j.next_le
    have hk := k.wf.cur
    generalize procList _ body = s5 at *
    have k2 := ((k.edgeUnlessExit (b := st.next) (t := .loop) k.own hk (by ob)).setLoops (l := st.loops) (w.loops_le (by ob))).setCur
      (x := st.next + 3) (by ob) (by ob)
    obtain ⟨cv2, j2⟩ := nested_covers ih (o :: os) h2 il ho k2 hn
    have kp : KeepS s5 (procList _ (o :: os)) := KeepS.trans (KeepS.of_eq (by simp)) j2.keepS
    exact (CvL.consR (hr.mono kp) ((cv.mono kp).app cv2)).mono (KeepS.of_eq (by simp))

/-! ### if / elif chains -/
theorem ifHead_covers (ih : CLN N) (thn : List Stmt) (hsz : sizeL thn ≤ N) (il : Bool) (hok : okLC il thn = true)
    (st : St) (s e : Nat) (w : WF st) (hc : Own c n st.cur) (hn : n ≤ st.next) :
    CvL c n (ifHead st s e thn) (linesOfL thn) (elifL thn) ∧ Rec c n (ifHead st s e thn) s := by
  unfold ifHead
  have hcur := w.cur
  have i0 : Inv c n st st := Inv.refl w hc
  have i1 := (((i0.add (b := st.cur) (p := s) (q := e) (ty := .other) hc w.cur).bump.bump).edge (a := st.cur) (b := st.next)
    (t := .condT) hc (by ob) (by ob)).setCur (x := st.next) (by ob) (by ob)
  obtain ⟨cv, j⟩ := nested_covers ih thn hsz il hok i1 hn
  exact ⟨cv, Rec.headK j.keepS rfl hc⟩

theorem elifHead_covers (ih : CLN N) (thn : List Stmt) (hsz : sizeL thn ≤ N) (il : Bool) (hok : okLC il thn = true)
    (st : St) (s e : Nat) (w : WF st) (hc : Own c n st.cur) (hn : n ≤ st.next) :
    CvL c n (elifHead st s e thn) (linesOfL thn) (elifL thn) ∧ Rec c n (elifHead st s e thn) s := by
  unfold elifHead
  have hcur := w.cur
  have i0 : Inv c n st st := Inv.refl w hc
  have i1 := (((i0.add (b := st.cur) (p := s) (q := e) (ty := .other) hc w.cur).bump).edge (a := st.cur) (b := st.next)
    (t := .condT) hc (by ob) (by ob)).setCur (x := st.next) (by ob) (by ob)
  obtain ⟨cv, j⟩ := nested_covers ih thn hsz il hok i1 hn
  exact ⟨cv, Rec.headK j.keepS rfl hc⟩

theorem elseTail_covers (ih : CLN N) (orelse : List Stmt) (hsz : sizeL orelse ≤ N) (il : Bool) (hok : okLC il orelse = true)
    {st s3 : St} (k : Inv c n st s3) (hn : n ≤ st.next) (cond te : Nat) (hco : Own c n cond) (hcl : cond < s3.next) :
    CvL c n (elseTail s3 cond te orelse) (linesOfL orelse) (elifL orelse) ∧ KeepS s3 (elseTail s3 cond te orelse) := by
  unfold elseTail
  have hnl := k.next_le
  have i1 := (k.bump.edge (a := cond) (b := s3.next) (t := .condF) hco (by ob) (by ob)).setCur (x := s3.next) (by ob) (by ob)
  obtain ⟨cv, j⟩ := nested_covers ih orelse hsz il hok i1 hn
  exact ⟨cv, KeepS.trans (KeepS.of_eq (by simp)) j.keepS⟩

theorem okLC_single_elifc {il : Bool} {s e : Nat} {a b : List Stmt} (h : okLC il [.elifc s e a b] = true) :
    okLC il a = true ∧ okLC il b = true := by
  rw [okLC_cons, okLC_nil, okSC_elifc, Bool.and_true, Bool.and_eq_true] at h; exact h
theorem okLC_single_ite {il : Bool} {s e : Nat} {a b : List Stmt} (h : okLC il [.ite s e a b] = true) :
    okLC il a = true ∧ okLC il b = true := by
  rw [okLC_cons, okLC_nil, okSC_ite, Bool.and_true, Bool.and_eq_true] at h; exact h

theorem elif_covers (ih : CLN N) : ∀ (M : Nat) (thn orelse : List Stmt), sizeL thn + sizeL orelse ≤ M → sizeL thn ≤ N → sizeL orelse ≤ N →
    ∀ (il : Bool), okLC il thn = true → okLC il orelse = true →
    ∀ (st : St) (s e fm : Nat), WF st → Own c n st.cur → n ≤ st.next → Own c n fm → fm < st.next →
      CvL c n (procIfElif st s e thn orelse fm) (linesOfL thn ++ linesOfL orelse) (elifL thn ++ elifL orelse) ∧
        Rec c n (procIfElif st s e thn orelse fm) s := by
  intro M
  induction M with
  | zero =>
    intro thn orelse hM h1 h2 il hoka hokb st s e fm w hc hn hfo hfl
    have : orelse = [] := by
      rcases orelse with _ | ⟨o, os⟩
      · rfl
      · simp only [sizeL] at hM; omega
    subst this
    rw [procIfElif_nil, linesOfL_nil, elifL_nil]
    obtain ⟨cvh, hr⟩ := elifHead_covers ih thn h1 il hoka st s e w hc hn
    simp only
    exact cvr_mono ⟨cvh.app CvL.nil, hr⟩ (KeepS.of_eq (by simp))
  | succ M ihM =>
    intro thn orelse hM h1 h2 il hoka hokb st s e fm w hc hn hfo hfl
    obtain ⟨k, sm, hnx⟩ := elifHead_frame (c := c) (n := n) (frame_all N).2 thn h1 st s e w hc hn
    obtain ⟨cvh, hr⟩ := elifHead_covers ih thn h1 il hoka st s e w hc hn
    have hcur := w.cur
    have hk := k.wf.cur
    rcases orelse_cases orelse with rfl | ⟨s', e', a, b, rfl⟩ | ⟨s', e', a, b, rfl⟩ | ⟨o, os, rfl, hne1, hne2⟩
    · rw [procIfElif_nil, linesOfL_nil, elifL_nil]
      simp only
      exact cvr_mono ⟨cvh.app CvL.nil, hr⟩ (KeepS.of_eq (by simp))
    · rw [procIfElif_elif]
      simp only
      have hsz : sizeL a + sizeL b ≤ M ∧ sizeL a ≤ N ∧ sizeL b ≤ N := by
        simp only [sizeL, Stmt.size] at hM h2; omega
      obtain ⟨hoka', hokb'⟩ := okLC_single_elifc hokb
      have i1 := (k.bump.edge (a := st.cur) (b := (elifHead st s e thn).next) (t := .condF) hc (by ob) (by ob)).setCur
        (x := (elifHead st s e thn).next) (by ob) (by ob)
      obtain ⟨cvj, _⟩ := ihM a b hsz.1 hsz.2.1 hsz.2.2 il hoka' hokb' _ 0 0 fm i1.wf i1.own (by ob) hfo (by ob)
      obtain ⟨j, _⟩ := elif_frame (c := c) (n := n) (frame_all N).2 _ a b (Nat.le_refl _) hsz.2.1 hsz.2.2 _ 0 0 fm i1.wf i1.own (by ob) hfo (by ob)
      generalize elifHead st s e thn = s3 at *
      have kp : KeepS s3 (procIfElif _ 0 0 a b fm) := KeepS.trans (KeepS.of_eq (by simp)) j.keepS
      rw [linesOfL_cons, linesOfL_nil, linesOf_elifc, elifL_cons, elifL_nil, elifS_elifc]
      exact cvr_mono ⟨(cvh.mono kp).app ((CvL.consE cvj).app CvL.nil), hr.mono kp⟩ (KeepS.of_eq (by simp))
    · rw [procIfElif_ite]
      simp only
      have hsz : sizeL a + sizeL b ≤ M ∧ sizeL a ≤ N ∧ sizeL b ≤ N := by
        simp only [sizeL, Stmt.size] at hM h2; omega
      obtain ⟨hoka', hokb'⟩ := okLC_single_ite hokb
      have i1 := (k.bump.edge (a := st.cur) (b := (elifHead st s e thn).next) (t := .condF) hc (by ob) (by ob)).setCur
        (x := (elifHead st s e thn).next) (by ob) (by ob)
      obtain ⟨cvj, hrj⟩ := ihM a b hsz.1 hsz.2.1 hsz.2.2 il hoka' hokb' _ s' e' fm i1.wf i1.own (by ob) hfo (by ob)
      obtain ⟨j, _⟩ := elif_frame (c := c) (n := n) (frame_all N).2 _ a b (Nat.le_refl _) hsz.2.1 hsz.2.2 _ s' e' fm i1.wf i1.own (by ob) hfo (by ob)
      generalize elifHead st s e thn = s3 at *
      have kp : KeepS s3 (procIfElif _ s' e' a b fm) := KeepS.trans (KeepS.of_eq (by simp)) j.keepS
      rw [linesOfL_cons, linesOfL_nil, linesOf_ite, elifL_cons, elifL_nil, elifS_ite]
      exact cvr_mono ⟨(cvh.mono kp).app ((CvL.consR hrj cvj).app CvL.nil), hr.mono kp⟩ (KeepS.of_eq (by simp))
    · rw [procIfElif_else _ _ _ _ _ _ _ hne1 hne2]
      simp only
      obtain ⟨cv5, k35⟩ := elseTail_covers ih (o :: os) h2 il hokb k hn st.cur (elifHead st s e thn).cur hc (by ob)
      have h5 := cvr_mono ⟨cvh, hr⟩ k35
      generalize elseTail (elifHead st s e thn) st.cur (elifHead st s e thn).cur (o :: os) = s5 at *
      split
      · exact cvr_mono ⟨h5.1.app cv5, h5.2⟩ (KeepS.of_eq (by simp))
      · exact cvr_mono ⟨h5.1.app cv5, h5.2⟩ (KeepS.of_eq (by simp))

theorem elifTail_covers (ih : CLN N) (thn' orelse' : List Stmt) (h1 : sizeL thn' ≤ N) (h2 : sizeL orelse' ≤ N)
    (il : Bool) (hoka : okLC il thn' = true) (hokb : okLC il orelse' = true)
    {st0 st : St} (k : Inv c n st0 st) (hn : n ≤ st0.next) (cond te merge s' e' : Nat)
    (hco : Own c n cond) (hcl : cond < st.next) (hto : Own c n te) (htl : te < st.next) (hmo : Own c n merge) (hml : merge < st.next) :
    (CvL c n (procIfElifTail st cond te merge s' e' thn' orelse') (linesOfL thn' ++ linesOfL orelse') (elifL thn' ++ elifL orelse') ∧
      Rec c n (procIfElifTail st cond te merge s' e' thn' orelse') s') ∧
      KeepS st (procIfElifTail st cond te merge s' e' thn' orelse') := by
  have hnl := k.next_le
  refine ⟨?_, (elifTail_frame (c := c) (n := n) (frame_all N).2 thn' orelse' h1 h2 (Inv.refl k.wf k.own) (by omega) cond te merge s' e'
    hco hcl hto htl hmo hml).1.keepS⟩
  rw [procIfElifTail_eq]
  have i1 := (k.bump.edge (a := cond) (b := st.next) (t := .condF) hco (by ob) (by ob)).setCur (x := st.next) (by ob) (by ob)
  have h5 := elif_covers ih _ thn' orelse' (Nat.le_refl _) h1 h2 il hoka hokb _ s' e' merge i1.wf i1.own (by ob) hmo (by ob)
  generalize procIfElif (setCur ((bump st).edge cond st.next .condF) st.next) s' e' thn' orelse' merge = s5 at *
  simp only
  split
  · split
    · exact h5
    · exact cvr_mono h5 (KeepS.of_eq (by simp))
  · exact cvr_mono h5 (KeepS.of_eq (by simp))

theorem if_covers (ih : CLN N) (thn orelse : List Stmt) (h1 : sizeL thn ≤ N) (h2 : sizeL orelse ≤ N)
    (il : Bool) (hoka : okLC il thn = true) (hokb : okLC il orelse = true)
    (st : St) (s e : Nat) (w : WF st) (hc : Own c n st.cur) (hn : n ≤ st.next) :
    CvL c n (procIf st s e thn orelse) (linesOfL thn ++ linesOfL orelse) (elifL thn ++ elifL orelse) ∧
      Rec c n (procIf st s e thn orelse) s := by
  obtain ⟨k, sm, hnx⟩ := ifHead_frame (c := c) (n := n) (frame_all N).2 thn h1 st s e w hc hn
  obtain ⟨cvh, hr⟩ := ifHead_covers ih thn h1 il hoka st s e w hc hn
  have hcur := w.cur
  have hk := k.wf.cur
  rcases orelse_cases orelse with rfl | ⟨s', e', a, b, rfl⟩ | ⟨s', e', a, b, rfl⟩ | ⟨o, os, rfl, hne1, hne2⟩
  · rw [procIf_nil, linesOfL_nil, elifL_nil]
    simp only
    exact cvr_mono ⟨cvh.app CvL.nil, hr⟩ (KeepS.of_eq (by simp))
  · rw [procIf_elif]
    have hsz : sizeL a ≤ N ∧ sizeL b ≤ N := by simp only [sizeL, Stmt.size] at h2; omega
    obtain ⟨hoka', hokb'⟩ := okLC_single_elifc hokb
    obtain ⟨⟨cvj, _⟩, kp⟩ := elifTail_covers ih a b hsz.1 hsz.2 il hoka' hokb' k hn st.cur (ifHead st s e thn).cur (st.next + 1) 0 0
      hc (by ob) k.own (by ob) (by ob) (by ob)
    rw [linesOfL_cons, linesOfL_nil, linesOf_elifc, elifL_cons, elifL_nil, elifS_elifc]
    exact ⟨(cvh.mono kp).app ((CvL.consE cvj).app CvL.nil), hr.mono kp⟩
  · rw [procIf_ite]
    have hsz : sizeL a ≤ N ∧ sizeL b ≤ N := by simp only [sizeL, Stmt.size] at h2; omega
    obtain ⟨hoka', hokb'⟩ := okLC_single_ite hokb
    obtain ⟨⟨cvj, hrj⟩, kp⟩ := elifTail_covers ih a b hsz.1 hsz.2 il hoka' hokb' k hn st.cur (ifHead st s e thn).cur (st.next + 1) s' e'
      hc (by ob) k.own (by ob) (by ob) (by ob)
    rw [linesOfL_cons, linesOfL_nil, linesOf_ite, elifL_cons, elifL_nil, elifS_ite]
    exact ⟨(cvh.mono kp).app ((CvL.consR hrj cvj).app CvL.nil), hr.mono kp⟩
  · rw [procIf_else _ _ _ _ _ _ hne1 hne2]
    simp only
    obtain ⟨cv5, k35⟩ := elseTail_covers ih (o :: os) h2 il hokb k hn st.cur (ifHead st s e thn).cur hc (by ob)
    have h5 := cvr_mono ⟨cvh, hr⟩ k35
    generalize elseTail (ifHead st s e thn) st.cur (ifHead st s e thn).cur (o :: os) = s5 at *
    split
    · exact cvr_mono ⟨h5.1.app cv5, h5.2⟩ (KeepS.of_eq (by simp))
    · exact cvr_mono ⟨h5.1.app cv5, h5.2⟩ (KeepS.of_eq (by simp))

/-- variant of `nested_covers` for a state given by its own facts -/
theorem nested_covers' (ih : CLN N) (body : List Stmt) (hsz : sizeL body ≤ N) (il : Bool) (hok : okLC il body = true)
    {s1 : St} (w1 : WF s1) (ho : Own c n s1.cur) (hn1 : n ≤ s1.next) :
    CvL c n (procList s1 body) (linesOfL body) (elifL body) ∧ Inv c n s1 (procList s1 body) :=
  ⟨ih body hsz il hok s1 w1 c n ho hn1, (procList_frame body s1 w1 c n ho hn1).1⟩

/-! ### match -/
theorem cases_covers (ih : CLN N) : ∀ (cs : List Stmt) (st : St) (mb merge : Nat) (il : Bool), sizeL cs ≤ N → okCasesC il cs = true →
    WF st → Own c n st.cur → n ≤ st.next → Own c n mb → mb < st.next → merge < st.next →
    CvL c n (procCases st cs mb merge) (linesOfL cs) (elifL cs) := by
  intro cs
  induction cs with
  | nil =>
    intro st mb merge il _ _ _ _ _ _ _ _
    rw [linesOfL_nil]; exact CvL.nil
  | cons x cs ihc =>
    intro st mb merge il hsz hok w hc hn hmo hml hgl
    obtain ⟨s, e, b, rfl, hokb, hokcs⟩ := okCasesC_cons hok
    have hcur := w.cur
    have i0 : Inv c n st st := Inv.refl w hc
    have i1 := (i0.bump.edge (a := mb) (b := st.next) (t := .condT) hmo (by ob) (by ob)).setCur (x := st.next) (by ob) (by ob)
    have hszs : (Stmt.case_ s e b).size ≤ N ∧ sizeL cs ≤ N := by simp only [sizeL] at hsz; omega
    rw [procCases_case]
    simp only
    have i2 := i1.add (b := st.next) (p := s) (q := e) (ty := .other) (by ob) (by ob)
    have hb : sizeL b ≤ N := by have := hszs.1; simp only [Stmt.size] at this; omega
    obtain ⟨cv, j⟩ := nested_covers ih b hb il hokb i2 hn
    have hr : Rec c n _ s := Rec.headK j.keepS rfl (by ob)
    have k := i2.trans j
    have hjn := j.next_le
    have hk := k.wf.cur
    generalize procList _ b = s1 at *
    have k2 := k.edgeUnlessExit (b := merge) (t := .normal) k.own hk (by ob)
    have cvt := ihc _ mb merge il hszs.2 hokcs k2.wf k2.own (by ob) hmo (by ob) (by ob)
    obtain ⟨j3, _⟩ := cases_frame (c := c) (n := n) (frame_all N).1 (frame_all N).2 cs _ mb merge hszs.2 k2.wf k2.own (by ob) hmo (by ob) (by ob)
    have kp : KeepS s1 (procCases _ cs mb merge) := KeepS.trans (KeepS.of_eq (by simp)) j3.keepS
    rw [linesOfL_cons, linesOf_case, elifL_cons, elifS_case]
    exact ((CvL.consR hr cv).mono kp).app cvt

theorem match_covers (ih : CLN N) (cases : List Stmt) (h1 : sizeL cases ≤ N) (il : Bool) (hok : okCasesC il cases = true)
    (st : St) (s e : Nat) (w : WF st) (hc : Own c n st.cur) (hn : n ≤ st.next) :
    CvL c n (procMatch st s e cases) (s :: linesOfL cases) (elifL cases) := by
  rw [procMatch_eq]
  have hcur := w.cur
  have i0 : Inv c n st st := Inv.refl w hc
  have i1 := ((i0.bump.edge (a := st.cur) (b := st.next) (t := .normal) hc (by ob) (by ob)).add (b := st.next) (p := s) (q := e)
    (ty := .other) (by ob) (by ob)).bump
  have cvt := cases_covers (c := c) (n := n) ih cases _ st.next (st.next + 1) il h1 hok i1.wf i1.own (by ob) (by ob) (by ob) (by ob)
  obtain ⟨j, _⟩ := cases_frame (c := c) (n := n) (frame_all N).1 (frame_all N).2 cases _ st.next (st.next + 1) h1 i1.wf i1.own
    (by ob) (by ob) (by ob) (by ob)
  have hr : Rec c n _ s := Rec.headK j.keepS rfl (by ob)
  simp only
  split
  · exact (CvL.consR hr cvt).mono (KeepS.of_eq (by simp))
  · next hemp =>
    have : cases = [] := by
      rcases cases with _ | ⟨x, xs⟩
      · rfl
      · simp at hemp
    subst this
    rw [procCases_nil] at hr
    rw [linesOfL_nil]
    exact (CvL.consR hr CvL.nil).mono (KeepS.of_eq (by simp))

/-! ### try -/
theorem handlers_covers (ih : CLN N) : ∀ (hs : List Stmt) (hbs : List Nat) (st : St) (after : Nat) (il : Bool), sizeL hs ≤ N →
    okHsC il hs = true → hs.length ≤ hbs.length →
    WF st → Own c n st.cur → n ≤ st.next → (∀ hb ∈ hbs, Own c n hb ∧ hb < st.next) → after < st.next →
    CvL c n (procHandlers st hs hbs after) (linesOfL hs) (elifL hs) := by
  intro hs
  induction hs with
  | nil =>
    intro hbs st after il _ _ _ _ _ _ _ _
    rw [linesOfL_nil]; exact CvL.nil
  | cons x hs ihh =>
    intro hbs st after il hsz hok hlen w hc hn hhb hal
    rcases hbs with _ | ⟨hb, hbs⟩
    · simp at hlen
    obtain ⟨s, e, b, rfl, hokb, hokhs⟩ := okHsC_cons hok
    have i0 : Inv c n st st := Inv.refl w hc
    obtain ⟨hbo, hbl⟩ := hhb hb (List.mem_cons_self ..)
    have i1 := i0.setCur (x := hb) hbo hbl
    have hszs : (Stmt.handler s e b).size ≤ N ∧ sizeL hs ≤ N := by simp only [sizeL] at hsz; omega
    rw [procHandlers_handler]
    simp only
    have i2 := i1.add (b := hb) (p := s) (q := e) (ty := .other) hbo (by ob)
    have hb' : sizeL b ≤ N := by have := hszs.1; simp only [Stmt.size] at this; omega
    obtain ⟨cv, j⟩ := nested_covers ih b hb' il hokb i2 hn
    have hr : Rec c n _ s := Rec.headK j.keepS rfl hbo
    have k := i2.trans j
    have hjn := j.next_le
    have hk := k.wf.cur
    generalize procList _ b = s1 at *
    have k2 := k.edgeUnlessExit (b := after) (t := .normal) k.own hk (by ob)
    have hhb2 : ∀ y ∈ hbs, Own c n y ∧ y < (s1.edgeUnlessExit s1.cur after .normal).next :=
      fun y hy => by have := hhb y (List.mem_cons_of_mem _ hy); exact ⟨this.1, by ob⟩
    have hlen2 : hs.length ≤ hbs.length := by simp only [List.length_cons] at hlen; omega
    have cvt := ihh hbs _ after il hszs.2 hokhs hlen2 k2.wf k2.own (by ob) hhb2 (by ob)
    obtain ⟨j3, _⟩ := handlers_frame (c := c) (n := n) (frame_all N).1 (frame_all N).2 hs hbs _ after hszs.2 k2.wf k2.own (by ob) hhb2 (by ob)
    have kp : KeepS s1 (procHandlers _ hs hbs after) := KeepS.trans (KeepS.of_eq (by simp)) j3.keepS
    rw [linesOfL_cons, linesOf_handler, elifL_cons, elifS_handler]
    exact ((CvL.consR hr cv).mono kp).app cvt

theorem tryMid_covers (ih : CLN N) (body handlers : List Stmt) (hb : sizeL body ≤ N) (hh : sizeL handlers ≤ N)
    (il : Bool) (hokb : okLC il body = true) (hokh : okHsC il handlers = true)
    {st s3 : St} (k : Inv c n st s3) (hn : n ≤ s3.next) (tryB : Nat) (hto : Own c n tryB) (htl : tryB < s3.next)
    (cfin : Option Nat) (hcf : ∀ f, cfin = some f → f < s3.next) (excs0 : List Exc)
    (hx : ∀ cx ∈ excs0, (∀ f, cx.fin = some f → f < s3.next) ∧ ∀ h ∈ cx.handlers, h < s3.next)
    (nat ah : Nat) (hnat : nat < s3.next) (hah : ah < s3.next) :
    CvL c n (tryMid s3 tryB cfin excs0 nat ah body handlers) (linesOfL body ++ linesOfL handlers) (elifL body ++ elifL handlers) := by
  unfold tryMid
  simp only
  have hmem : ∀ h ∈ (List.range handlers.length).map (fun k => s3.next + k), s3.next ≤ h ∧ h < s3.next + handlers.length := by
    intro h hh
    obtain ⟨k, hk, rfl⟩ := List.mem_map.mp hh
    have := List.mem_range.mp hk
    omega
  have hlen : handlers.length ≤ ((List.range handlers.length).map (fun k => s3.next + k)).length := by simp
  generalize (List.range handlers.length).map (fun k => s3.next + k) = hbs at hmem hlen ⊢
  have i4 := ((k.bumpN handlers.length).setExcs (x := { fin := cfin, handlers := hbs, processingFinally := false } :: excs0) (by
    intro cx hcx
    rcases List.mem_cons.mp hcx with rfl | hcx
    · exact ⟨fun f hf => by have := hcf f hf; ob, fun h hh => by have := hmem h hh; ob⟩
    · exact ⟨fun f hf => by have := (hx cx hcx).1 f hf; ob, fun h hh => by have := (hx cx hcx).2 h hh; ob⟩)).setCur
      (x := tryB) hto (by ob)
  obtain ⟨cv, j⟩ := nested_covers' ih body hb il hokb i4.wf i4.own (by ob)
  have k5 := i4.trans j
  have hjn := j.next_le
  have hk5 := k5.wf.cur
  generalize procList _ body = s5 at *
  have k5' := k5.edgeUnlessExit (b := nat) (t := .normal) k5.own hk5 (by ob)
  obtain ⟨k6, sm6, hn6, hc6⟩ := foldl_edges_frame (c := c) (n := n) tryB .exc hbs _ k5' hto (by ob)
    (fun h hh => by have := hmem h hh; ob)
  have hst6 := foldl_edge_stmts tryB .exc hbs (s5.edgeUnlessExit s5.cur nat .normal)
  generalize hbs.foldl (fun st h => st.edge tryB h .exc) (s5.edgeUnlessExit s5.cur nat .normal) = s6 at *
  have hhb6 : ∀ h ∈ hbs, Own c n h ∧ h < s6.next :=
    fun h hh => by have := hmem h hh; rw [hn6]; exact ⟨by ob, by ob⟩
  have cvh := handlers_covers (c := c) (n := n) ih handlers hbs s6 ah il hh hokh hlen k6.wf k6.own (by rw [hn6]; ob) hhb6 (by rw [hn6]; ob)
  obtain ⟨j7, _⟩ := handlers_frame (c := c) (n := n) (frame_all N).1 (frame_all N).2 handlers hbs s6 ah hh k6.wf k6.own (by rw [hn6]; ob)
    hhb6 (by rw [hn6]; ob)
  have kp : KeepS s5 (procHandlers s6 handlers hbs ah) := KeepS.trans (KeepS.of_eq (by rw [hst6]; simp)) j7.keepS
  exact (cv.mono kp).app cvh

theorem tryElse_covers (ih : CLN N) (orelse : List Stmt) (ho : sizeL orelse ≤ N) (il : Bool) (hok : okLC il orelse = true)
    {st s7 : St} (k : Inv c n st s7) (hn : n ≤ s7.next)
    (hasElse : Bool) (elseB ah : Nat) (he : hasElse = true → n ≤ elseB ∧ elseB < s7.next) (hah : ah < s7.next)
    (hE : hasElse = false → orelse = []) :
    CvL c n (tryElse s7 hasElse elseB ah orelse) (linesOfL orelse) (elifL orelse) ∧ KeepS s7 (tryElse s7 hasElse elseB ah orelse) := by
  refine ⟨?_, (tryElse_frame (c := c) (n := n) (frame_all N).2 orelse ho (Inv.refl k.wf k.own) hn hasElse elseB ah he hah).1.keepS⟩
  unfold tryElse
  cases hasElse
  · rw [hE rfl, linesOfL_nil]; exact CvL.nil
  · simp only [↓reduceIte]
    obtain ⟨heo, hel⟩ := he rfl
    have i1 := k.setCur (x := elseB) (by ob) hel
    obtain ⟨cv, j⟩ := nested_covers' ih orelse ho il hok i1.wf i1.own (by ob)
    exact cv.mono (KeepS.of_eq (by simp))

theorem tryFin_covers (ih : CLN N) (fin : List Stmt) (hf : sizeL fin ≤ N) (il : Bool) (hok : okLC il fin = true)
    {st s8 : St} (k : Inv c n st s8) (hn : n ≤ s8.next)
    (hasFin : Bool) (finB exitBk : Nat) (ctx : Exc) (excs0 : List Exc) (hex : s8.excs = ctx :: excs0)
    (hfb : hasFin = true → n ≤ finB ∧ finB < s8.next) (hel : exitBk < s8.next) (hF : hasFin = false → fin = []) :
    CvL c n (tryFin s8 hasFin finB exitBk ctx excs0 fin) (linesOfL fin) (elifL fin) ∧
      KeepS s8 (tryFin s8 hasFin finB exitBk ctx excs0 fin) := by
  refine ⟨?_, (tryFin_frame (c := c) (n := n) (frame_all N).2 fin hf (Inv.refl k.wf k.own) hn hasFin finB exitBk ctx excs0 hex hfb hel).1.keepS⟩
  unfold tryFin
  cases hasFin
  · rw [hF rfl, linesOfL_nil]; exact CvL.nil
  · simp only [↓reduceIte]
    obtain ⟨hfo, hfl⟩ := hfb rfl
    have hb := k.wf.excs
    rw [hex] at hb
    have i1 := (k.setCur (x := finB) (by ob) hfl).setExcs (x := { ctx with processingFinally := true } :: excs0) (by
      intro cx hcx
      rcases List.mem_cons.mp hcx with rfl | hcx
      · exact hb ctx (List.mem_cons_self ..)
      · exact hb cx (List.mem_cons_of_mem _ hcx))
    obtain ⟨cv, j⟩ := nested_covers' ih fin hf il hok i1.wf i1.own (by ob)
    have hjn := j.next_le
    generalize procList _ fin = s9 at *
    have j0 : Inv c n s9 s9 := Inv.refl j.wf j.own
    have k3a := j0.setExcs (x := ctx :: excs0) (by
      intro cx hcx
      have := hb cx hcx
      exact ⟨fun f hf => by have := this.1 f hf; ob, fun h hh => by have := this.2 h hh; ob⟩)
    have k3 := k3a.edgeUnlessExit (b := exitBk) (t := .normal) k3a.own k3a.wf.cur (by ob)
    obtain ⟨k4, _⟩ := finallyPropagation_frame k3 (fin := finB) (by ob) (by ob)
    exact cv.mono k4.keepS

theorem try_covers (ih : CLN N) (body handlers orelse fin : List Stmt) (hb : sizeL body ≤ N) (hh : sizeL handlers ≤ N)
    (ho : sizeL orelse ≤ N) (hf : sizeL fin ≤ N) (il : Bool) (hokb : okLC il body = true) (hokh : okHsC il handlers = true)
    (hoko : okLC il orelse = true) (hokf : okLC il fin = true)
    (st : St) (s e : Nat) (w : WF st) (hc : Own c n st.cur) (hn : n ≤ st.next) :
    CvL c n (procTry st s e body handlers orelse fin) (linesOfL body ++ linesOfL handlers ++ linesOfL orelse ++ linesOfL fin)
      (elifL body ++ elifL handlers ++ elifL orelse ++ elifL fin) := by
  rw [procTry_eq']
  simp only
  have hFe : (!fin.isEmpty) = false → fin = [] := by
    intro h; rcases fin with _ | ⟨x, xs⟩
    · rfl
    · simp at h
  have hEe : (!orelse.isEmpty) = false → orelse = [] := by
    intro h; rcases orelse with _ | ⟨x, xs⟩
    · rfl
    · simp at h
  generalize (!fin.isEmpty) = hasFin at hFe ⊢
  generalize (!orelse.isEmpty) = hasElse at hEe ⊢
  obtain ⟨k3, sm3, hn3, hF, hE⟩ := tryPre_frame (c := c) (n := n) st w hc hn hasFin hasElse
  generalize tryPre st hasFin hasElse = p at *
  obtain ⟨s3, finB, elseB⟩ := p
  simp only at *
  have hcf : ∀ f, (if hasFin = true then some finB else none) = some f → f < s3.next := by
    intro f hf
    cases hasFin
    · simp at hf
    · simp only [↓reduceIte, Option.some.injEq] at hf; subst hf; exact (hF rfl).2
  have hah : (if hasFin = true then finB else st.next + 1) < s3.next := by
    cases hasFin
    · simp only [Bool.false_eq_true, ↓reduceIte]; omega
    · simp only [↓reduceIte]; exact (hF rfl).2
  have hnat : (if hasElse = true then elseB else if hasFin = true then finB else st.next + 1) < s3.next := by
    cases hasElse
    · simp only [Bool.false_eq_true, ↓reduceIte]; exact hah
    · simp only [↓reduceIte]; exact (hE rfl).2
  generalize (if hasFin = true then some finB else none) = cfin at *
  generalize (if hasElse = true then elseB else if hasFin = true then finB else st.next + 1) = nat at *
  generalize (if hasFin = true then finB else st.next + 1) = ah at *
  have hcur := w.cur
  obtain ⟨k7, l7, x7, hn7⟩ := tryMid_frame (frame_all N).1 (frame_all N).2 body handlers hb hh k3 (by omega) st.next (by ob) (by omega) cfin hcf st.excs
    (w.excs_le (by omega)) nat ah hnat hah
  have cv7 := tryMid_covers ih body handlers hb hh il hokb hokh k3 (by omega) st.next (by ob) (by omega) cfin hcf st.excs
    (w.excs_le (by omega)) nat ah hnat hah
  generalize tryMid s3 st.next cfin st.excs nat ah body handlers = s7 at *
  obtain ⟨k8, sm8, hn8⟩ := tryElse_frame (frame_all N).2 orelse ho k7 (by omega) hasElse elseB ah
    (fun h => by have := hE h; omega) (by omega)
  obtain ⟨cv8, kp8⟩ := tryElse_covers ih orelse ho il hoko k7 (by omega) hasElse elseB ah
    (fun h => by have := hE h; omega) (by omega) hEe
  generalize tryElse s7 hasElse elseB ah orelse = s8 at *
  obtain ⟨cv9, kp9⟩ := tryFin_covers ih fin hf il hokf k8 (by omega) hasFin finB (st.next + 1)
    { fin := cfin, handlers := (List.range handlers.length).map (fun k => s3.next + k), processingFinally := false } st.excs
    (by rw [sm8.excs, x7]) (fun h => by have := hF h; omega) (by omega) hFe
  exact ((((cv7.mono kp8).app cv8).mono kp9).app cv9).mono (KeepS.of_eq (by simp))

/-! ### the main induction -/
theorem CLN_succ (ihS : CSN N) (ihL : CLN N) : CLN (N + 1) := by
  intro ss hsz il hok st w c n hc hn
  rcases ss with _ | ⟨x, xs⟩
  · rw [linesOfL_nil]; exact CvL.nil
  · have hszs : x.size ≤ N ∧ sizeL xs ≤ N := by simp only [sizeL] at hsz; omega
    rw [okLC_cons, Bool.and_eq_true] at hok
    rw [procList_cons, linesOfL_cons, elifL_cons]
    obtain ⟨j, _⟩ := procStmt_frame x st w c n hc hn
    have hjn := j.next_le
    have cvx := ihS x hszs.1 il hok.1 st w c n hc hn
    obtain ⟨cvxs, j2⟩ := nested_covers' ihL xs hszs.2 il hok.2 j.wf j.own (by omega)
    exact (cvx.mono j2.keepS).app cvxs

theorem CSN_succ (ihL : CLN N) : CSN (N + 1) := by
  intro x hsz il hok st w c n hc hn
  cases x with
  | simple s e comp hasComp =>
    rw [procStmt_simple, linesOf_simple]
    cases hasComp
    · simp only [Bool.false_eq_true, ↓reduceIte]
      exact CvL.consR (Rec.headK (KeepS.refl _) rfl hc) CvL.nil
    · simp only [↓reduceIte]
      obtain ⟨j, _⟩ := comp_frame st s e comp w hc hn
      exact CvL.consR (Rec.headK (KeepS.refl _) rfl j.own) CvL.nil
  | ret s e comp hasComp =>
    rw [procStmt_ret, linesOf_ret]; exact CvL.consR (ret_covers st s e comp hasComp w hc hn) CvL.nil
  | brk s e => rw [procStmt_brk, linesOf_brk]; exact CvL.consR (brk_covers st s e hc) CvL.nil
  | cont s e => rw [procStmt_cont, linesOf_cont]; exact CvL.consR (cont_covers st s e hc) CvL.nil
  | raise s e => rw [procStmt_raise, linesOf_raise]; exact CvL.consR (raise_covers st s e hc) CvL.nil
  | ite s e a b =>
    rw [procStmt_ite, linesOf_ite, elifS_ite]
    rw [okSC_ite, Bool.and_eq_true] at hok
    have : sizeL a ≤ N ∧ sizeL b ≤ N := by simp only [Stmt.size] at hsz; omega
    obtain ⟨cv, hr⟩ := if_covers ihL a b this.1 this.2 il hok.1 hok.2 st s e w hc hn
    exact CvL.consR hr cv
  | elifc s e a b =>
    rw [procStmt_elifc, linesOf_elifc, elifS_elifc]
    rw [okSC_elifc, Bool.and_eq_true] at hok
    have : sizeL a ≤ N ∧ sizeL b ≤ N := by simp only [Stmt.size] at hsz; omega
    obtain ⟨cv, _⟩ := if_covers ihL a b this.1 this.2 il hok.1 hok.2 st 0 0 w hc hn
    exact CvL.consE cv
  | elsec s e b =>
    rw [procStmt_elsec, linesOf_elsec, elifS_elsec]
    rw [okSC_elsec] at hok
    have : sizeL b ≤ N := by simp only [Stmt.size] at hsz; omega
    exact ihL b this il hok st w c n hc hn
  | loop s e a b =>
    rw [procStmt_loop, linesOf_loop, elifS_loop]
    rw [okSC_loop, Bool.and_eq_true] at hok
    have : sizeL a ≤ N ∧ sizeL b ≤ N := by simp only [Stmt.size] at hsz; omega
    exact loop_covers ihL a b this.1 this.2 il hok.1 hok.2 st s e w hc hn
  | try_ s e a b c' d =>
    rw [procStmt_try, linesOf_try, elifS_try]
    rw [okSC_try, Bool.and_eq_true, Bool.and_eq_true, Bool.and_eq_true] at hok
    have : sizeL a ≤ N ∧ sizeL b ≤ N ∧ sizeL c' ≤ N ∧ sizeL d ≤ N := by simp only [Stmt.size] at hsz; omega
    exact try_covers ihL a b c' d this.1 this.2.1 this.2.2.1 this.2.2.2 il hok.1.1.1 hok.1.1.2 hok.1.2 hok.2 st s e w hc hn
  | handler s e b => rw [okSC_handler] at hok; cases hok
  | with_ s e b =>
    rw [procStmt_with, linesOf_with, elifS_with]
    rw [okSC_with] at hok
    have : sizeL b ≤ N := by simp only [Stmt.size] at hsz; omega
    exact with_covers ihL b this il hok st s e w hc hn
  | match_ s e b =>
    rw [procStmt_match, linesOf_match, elifS_match]
    rw [okSC_match] at hok
    have : sizeL b ≤ N := by simp only [Stmt.size] at hsz; omega
    exact match_covers ihL b this il hok st s e w hc hn
  | case_ s e b => rw [okSC_case] at hok; cases hok
  | def_ s e b =>
    rw [procStmt_def, linesOf_def]
    exact CvL.consR (Rec.headK (KeepS.refl _) rfl hc) CvL.nil
  | class_ s e b =>
    rw [procStmt_class, linesOf_class, elifS_class]
    rw [okSC_class] at hok
    have : sizeL b ≤ N := by simp only [Stmt.size] at hsz; omega
    exact class_covers ihL b this false hok st s e w hc hn

theorem covers_all : ∀ N, CSN N ∧ CLN N := by
  intro N
  induction N with
  | zero =>
    constructor
    · intro x hsz; have := Stmt.size_pos x; omega
    · intro ss hsz il hok st w c n hc hn
      rcases ss with _ | ⟨x, xs⟩
      · rw [linesOfL_nil]; exact CvL.nil
      · simp only [sizeL] at hsz; omega
  | succ N ih => exact ⟨CSN_succ ih.2, CLN_succ ih.1 ih.2⟩

theorem procList_covers (ss : List Stmt) (il : Bool) (hok : okLC il ss = true) (st : St) (w : WF st) (c n : Nat)
    (hc : Own c n st.cur) (hn : n ≤ st.next) :
    ∀ l ∈ linesOfL ss, l ∈ elifL ss ∨ Rec c n (procList st ss) l :=
  (covers_all (sizeL ss)).2 ss (Nat.le_refl _) il hok st w c n hc hn

theorem procStmt_covers (x : Stmt) (il : Bool) (hok : okSC il x = true) (st : St) (w : WF st) (c n : Nat)
    (hc : Own c n st.cur) (hn : n ≤ st.next) :
    ∀ l ∈ linesOf x, l ∈ elifS x ∨ Rec c n (procStmt st x) l :=
  (covers_all x.size).1 x (Nat.le_refl _) il hok st w c n hc hn

end PV.CFGSound

#print axioms PV.CFGSound.procStmt_covers
#print axioms PV.CFGSound.procList_covers
