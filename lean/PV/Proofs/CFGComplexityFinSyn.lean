import PV.Proofs.CFGComplexityFinDefs
/-!
Property C03 with non-empty `finally` — purely syntactic facts:

* `okFL_of_okCL`: the old fragment (`finally` empty) is contained in the new one;
* `ldLX_eq_ldL` / `ldLF_eq_ldL`: on the old fragment the new count agrees with the old one;
* `sx_exit`: every piece of code of the fragment has some structural exit.
-/
namespace PV.CFGFin
open PV.CFG PV.CFGSound PV.Dec

/-! ### 1. `okCL → okFL` -/

theorem okF_hs {N : Nat} (ihL : ∀ ss, sizeL ss ≤ N → ∀ il, okCL il ss = true → okFL il ss = true) (il : Bool) :
    ∀ hs : List Stmt, sizeL hs ≤ N → okCHs il hs = true → okFHs il hs = true := by
  intro hs
  induction hs with
  | nil => intro _ _; exact okFHs_nil il
  | cons x hs ih =>
    intro hsz hok
    obtain ⟨s, e, a, rfl, h1, h2⟩ := okCHs_cons hok
    simp only [sizeL, Stmt.size] at hsz
    rw [okFHs_handler, Bool.and_eq_true]
    exact ⟨ihL a (by omega) il h1, ih (by omega) h2⟩

theorem okF_cases {N : Nat} (ihL : ∀ ss, sizeL ss ≤ N → ∀ il, okCL il ss = true → okFL il ss = true) (il : Bool) :
    ∀ cs : List Stmt, sizeL cs ≤ N → okCCases il cs = true → okFCases il cs = true := by
  intro cs
  induction cs with
  | nil => intro _ _; exact okFCases_nil il
  | cons x cs ih =>
    intro hsz hok
    obtain ⟨s, e, a, rfl, h1, h2⟩ := okCCases_cons hok
    simp only [sizeL, Stmt.size] at hsz
    rw [okFCases_case, Bool.and_eq_true]
    exact ⟨ihL a (by omega) il h1, ih (by omega) h2⟩

theorem okF_stmt {N : Nat} (ihL : ∀ ss, sizeL ss ≤ N → ∀ il, okCL il ss = true → okFL il ss = true) (x : Stmt)
    (hsz : x.size ≤ N + 1) (il : Bool) (hok : okCS il x = true) : okFS il x = true := by
  cases x with
  | simple s e c h => rw [okFS]
  | def_ s e b => rw [okFS]
  | ret s e c h => rw [okFS]
  | raise s e => rw [okFS]
  | brk s e => rw [okCS_brk] at hok; rw [okFS_brk]; exact hok
  | cont s e => rw [okCS_cont] at hok; rw [okFS_cont]; exact hok
  | ite s e a b =>
    simp only [Stmt.size] at hsz
    rw [okCS_ite, Bool.and_eq_true] at hok
    rw [okFS_ite, Bool.and_eq_true]
    exact ⟨ihL a (by omega) il hok.1, ihL b (by omega) il hok.2⟩
  | elifc s e a b =>
    simp only [Stmt.size] at hsz
    rw [okCS_elifc, Bool.and_eq_true] at hok
    rw [okFS_elifc, Bool.and_eq_true]
    exact ⟨ihL a (by omega) il hok.1, ihL b (by omega) il hok.2⟩
  | elsec s e a =>
    simp only [Stmt.size] at hsz
    rw [okCS_elsec] at hok
    rw [okFS_elsec]
    exact ihL a (by omega) il hok
  | loop s e a b =>
    simp only [Stmt.size] at hsz
    rw [okCS_loop, Bool.and_eq_true] at hok
    rw [okFS_loop, Bool.and_eq_true]
    exact ⟨ihL a (by omega) true hok.1, ihL b (by omega) il hok.2⟩
  | try_ s e a hs c d =>
    simp only [Stmt.size] at hsz
    rw [okCS_try] at hok
    simp only [Bool.and_eq_true] at hok
    obtain ⟨⟨⟨h1, h2⟩, h3⟩, h4⟩ := hok
    have hd : d = [] := List.isEmpty_iff.mp h4
    subst hd
    rw [okFS_try]
    simp only [Bool.and_eq_true]
    exact ⟨⟨⟨ihL a (by omega) il h1, okF_hs ihL il hs (by omega) h2⟩, ihL c (by omega) il h3⟩, okFL_nil il⟩
  | handler s e a => rw [okCS_handler] at hok; cases hok
  | with_ s e a =>
    simp only [Stmt.size] at hsz
    rw [okCS_with] at hok
    rw [okFS_with]
    exact ihL a (by omega) il hok
  | match_ s e cs =>
    simp only [Stmt.size] at hsz
    rw [okCS_match] at hok
    rw [okFS_match]
    exact okF_cases ihL il cs (by omega) hok
  | case_ s e a => rw [okCS_case] at hok; cases hok
  | class_ s e a =>
    simp only [Stmt.size] at hsz
    rw [okCS_class] at hok
    rw [okFS_class]
    exact ihL a (by omega) false hok

theorem okF_all : ∀ N, ∀ ss, sizeL ss ≤ N → ∀ il, okCL il ss = true → okFL il ss = true := by
  intro N
  induction N with
  | zero =>
    intro ss hsz il _
    rcases ss with _ | ⟨x, xs⟩
    · exact okFL_nil il
    · simp only [sizeL] at hsz; omega
  | succ N ih =>
    intro ss hsz il hok
    rcases ss with _ | ⟨x, xs⟩
    · exact okFL_nil il
    · simp only [sizeL] at hsz
      rw [okCL_cons, Bool.and_eq_true] at hok
      rw [okFL_cons, Bool.and_eq_true]
      exact ⟨okF_stmt ih x (by omega) il hok.1, ih xs (by omega) il hok.2⟩

/-- the old fragment is contained in the new one -/
theorem okFL_of_okCL (ss : List Stmt) (il : Bool) (h : okCL il ss = true) : okFL il ss = true :=
  okF_all (sizeL ss) ss (Nat.le_refl _) il h

/-! ### 2. the counts agree on the old fragment -/

theorem ldX_hs {N : Nat}
    (ihL : ∀ ss, sizeL ss ≤ N → ∀ il, okCL il ss = true → ∀ fc : FC, fc.pf = false → ldLX fc ss = ldL fc.nh ss)
    (il : Bool) (fc : FC) (hpf : fc.pf = false) :
    ∀ hs : List Stmt, sizeL hs ≤ N → okCHs il hs = true → ldAltsX fc hs = ldAlts fc.nh hs := by
  intro hs
  induction hs with
  | nil => intro _ _; rw [ldAltsX_nil, ldAlts_nil]
  | cons x hs ih =>
    intro hsz hok
    obtain ⟨s, e, a, rfl, h1, h2⟩ := okCHs_cons hok
    simp only [sizeL, Stmt.size] at hsz
    rw [ldAltsX_cons, ldAlts_cons, ldSX_handler, ldS_handler, ihL a (by omega) il h1 fc hpf, ih (by omega) h2]

theorem ldX_cases {N : Nat}
    (ihL : ∀ ss, sizeL ss ≤ N → ∀ il, okCL il ss = true → ∀ fc : FC, fc.pf = false → ldLX fc ss = ldL fc.nh ss)
    (il : Bool) (fc : FC) (hpf : fc.pf = false) :
    ∀ cs : List Stmt, sizeL cs ≤ N → okCCases il cs = true → ldAltsX fc cs = ldAlts fc.nh cs := by
  intro cs
  induction cs with
  | nil => intro _ _; rw [ldAltsX_nil, ldAlts_nil]
  | cons x cs ih =>
    intro hsz hok
    obtain ⟨s, e, a, rfl, h1, h2⟩ := okCCases_cons hok
    simp only [sizeL, Stmt.size] at hsz
    rw [ldAltsX_cons, ldAlts_cons, ldSX_case, ldS_case, ihL a (by omega) il h1 fc hpf, ih (by omega) h2]

theorem inTry_pf (fc : FC) (n : Nat) : (fc.inTry n).pf = fc.pf := rfl
theorem inTry_nh (fc : FC) (n : Nat) (hpf : fc.pf = false) : (fc.inTry n).nh = if n > 0 then n else 1 := by
  unfold FC.inTry
  simp only [hpf, Bool.false_eq_true, ↓reduceIte]

theorem ldX_stmt {N : Nat}
    (ihL : ∀ ss, sizeL ss ≤ N → ∀ il, okCL il ss = true → ∀ fc : FC, fc.pf = false → ldLX fc ss = ldL fc.nh ss)
    (x : Stmt) (hsz : x.size ≤ N + 1) (il : Bool) (hok : okCS il x = true) (fc : FC) (hpf : fc.pf = false) :
    ldSX fc x = ldS fc.nh x := by
  cases x with
  | simple s e c h => rw [ldSX_simple, ldS_simple]
  | def_ s e b => rw [ldSX_def, ldS_def]
  | ret s e c h => rw [ldSX_ret, ldS_ret]
  | raise s e => rw [ldSX_raise, ldS_raise]
  | brk s e => rw [ldSX_brk, ldS_brk]
  | cont s e => rw [ldSX_cont, ldS_cont]
  | ite s e a b =>
    simp only [Stmt.size] at hsz
    rw [okCS_ite, Bool.and_eq_true] at hok
    rw [ldSX_ite, ldS_ite, ihL a (by omega) il hok.1 fc hpf, ihL b (by omega) il hok.2 fc hpf]
  | elifc s e a b =>
    simp only [Stmt.size] at hsz
    rw [okCS_elifc, Bool.and_eq_true] at hok
    rw [ldSX_elifc, ldS_elifc, ihL a (by omega) il hok.1 fc hpf, ihL b (by omega) il hok.2 fc hpf]
  | elsec s e a =>
    simp only [Stmt.size] at hsz
    rw [okCS_elsec] at hok
    rw [ldSX_elsec, ldS_elsec, ihL a (by omega) il hok fc hpf]
  | loop s e a b =>
    simp only [Stmt.size] at hsz
    rw [okCS_loop, Bool.and_eq_true] at hok
    rw [ldSX_loop, ldS_loop, ihL a (by omega) true hok.1 fc hpf, ihL b (by omega) il hok.2 fc hpf]
  | try_ s e a hs c d =>
    simp only [Stmt.size] at hsz
    rw [okCS_try] at hok
    simp only [Bool.and_eq_true] at hok
    obtain ⟨⟨⟨h1, h2⟩, h3⟩, h4⟩ := hok
    have hpf' : (fc.inTry hs.length).pf = false := by rw [inTry_pf]; exact hpf
    rw [ldSX_try, if_pos h4, ldS_try, ihL a (by omega) il h1 _ hpf', ldX_hs ihL il _ hpf' hs (by omega) h2,
      ihL c (by omega) il h3 _ hpf', inTry_nh fc hs.length hpf]
  | handler s e a => rw [okCS_handler] at hok; cases hok
  | with_ s e a =>
    simp only [Stmt.size] at hsz
    rw [okCS_with] at hok
    rw [ldSX_with, ldS_with, ihL a (by omega) il hok fc hpf]
  | match_ s e cs =>
    simp only [Stmt.size] at hsz
    rw [okCS_match] at hok
    rw [ldSX_match, ldS_match, ldX_cases ihL il fc hpf cs (by omega) hok]
  | case_ s e a => rw [okCS_case] at hok; cases hok
  | class_ s e a =>
    simp only [Stmt.size] at hsz
    rw [okCS_class] at hok
    rw [ldSX_class, ldS_class, ihL a (by omega) false hok fc hpf]

theorem ldX_all : ∀ N, ∀ ss, sizeL ss ≤ N → ∀ il, okCL il ss = true → ∀ fc : FC, fc.pf = false → ldLX fc ss = ldL fc.nh ss := by
  intro N
  induction N with
  | zero =>
    intro ss hsz il _ fc _
    rcases ss with _ | ⟨x, xs⟩
    · rw [ldLX_nil, ldL_nil]
    · simp only [sizeL] at hsz; omega
  | succ N ih =>
    intro ss hsz il hok fc hpf
    rcases ss with _ | ⟨x, xs⟩
    · rw [ldLX_nil, ldL_nil]
    · simp only [sizeL] at hsz
      rw [okCL_cons, Bool.and_eq_true] at hok
      rw [ldLX_cons, ldL_cons, ldX_stmt ih x (by omega) il hok.1 fc hpf, ih xs (by omega) il hok.2 fc hpf]

/-- on the old fragment the new count is the old count -/
theorem ldLX_eq_ldL (ss : List Stmt) (il : Bool) (h : okCL il ss = true) (fc : FC) (hpf : fc.pf = false) :
    ldLX fc ss = ldL fc.nh ss :=
  ldX_all (sizeL ss) ss (Nat.le_refl _) il h fc hpf

theorem ldLF_eq_ldL (ss : List Stmt) (il : Bool) (h : okCL il ss = true) (nh : Nat) : ldLF nh ss = ldL nh ss :=
  ldLX_eq_ldL ss il h (FC.top nh) rfl

/-! ### 3. every piece of code of the fragment has a structural exit -/

/-- some structural exit; `break` / `continue` only count inside a loop -/
def HX (il : Bool) (ex : Ex) : Prop :=
  ex.normal = true ∨ ex.ret = true ∨ ex.raise = true ∨ (il = true ∧ (ex.brk = true ∨ ex.cont = true))

theorem hx_stmt {N : Nat} (ihL : ∀ ss, sizeL ss ≤ N → ∀ il, okFL il ss = true → HX il (sxL ss).ex) (x : Stmt)
    (hsz : x.size ≤ N + 1) (il : Bool) (hok : okFS il x = true) : HX il (sxS x).ex := by
  cases x with
  | simple s e c h => rw [sxS_simple]; exact .inl rfl
  | def_ s e b => rw [sxS_def]; exact .inl rfl
  | ret s e c h => rw [sxS_ret]; exact .inr (.inl rfl)
  | raise s e => rw [sxS_raise]; exact .inr (.inr (.inl rfl))
  | brk s e => rw [okFS_brk] at hok; rw [sxS_brk]; exact .inr (.inr (.inr ⟨hok, .inl rfl⟩))
  | cont s e => rw [okFS_cont] at hok; rw [sxS_cont]; exact .inr (.inr (.inr ⟨hok, .inr rfl⟩))
  | ite s e a b =>
    simp only [Stmt.size] at hsz
    rw [okFS_ite, Bool.and_eq_true] at hok
    have ha := ihL a (by omega) il hok.1
    rw [sxS_ite]
    unfold HX at *
    simp only [Ex.union, Bool.or_eq_true]
    rcases ha with h | h | h | ⟨h1, h | h⟩
    · exact .inl (.inl h)
    · exact .inr (.inl (.inl h))
    · exact .inr (.inr (.inl (.inl h)))
    · exact .inr (.inr (.inr ⟨h1, .inl (.inl h)⟩))
    · exact .inr (.inr (.inr ⟨h1, .inr (.inl h)⟩))
  | elifc s e a b =>
    simp only [Stmt.size] at hsz
    rw [okFS_elifc, Bool.and_eq_true] at hok
    have ha := ihL a (by omega) il hok.1
    rw [sxS_elifc]
    unfold HX at *
    simp only [Ex.union, Bool.or_eq_true]
    rcases ha with h | h | h | ⟨h1, h | h⟩
    · exact .inl (.inl h)
    · exact .inr (.inl (.inl h))
    · exact .inr (.inr (.inl (.inl h)))
    · exact .inr (.inr (.inr ⟨h1, .inl (.inl h)⟩))
    · exact .inr (.inr (.inr ⟨h1, .inr (.inl h)⟩))
  | elsec s e a =>
    simp only [Stmt.size] at hsz
    rw [okFS_elsec] at hok
    rw [sxS_elsec]
    exact ihL a (by omega) il hok
  | loop s e a b =>
    simp only [Stmt.size] at hsz
    rw [okFS_loop, Bool.and_eq_true] at hok
    have hb := ihL b (by omega) il hok.2
    rw [sxS_loop]
    unfold HX at *
    simp only [Bool.or_eq_true]
    rcases hb with h | h | h | ⟨h1, h | h⟩
    · exact .inl (.inr h)
    · exact .inr (.inl (.inr h))
    · exact .inr (.inr (.inl (.inr h)))
    · exact .inr (.inr (.inr ⟨h1, .inl h⟩))
    · exact .inr (.inr (.inr ⟨h1, .inr h⟩))
  | try_ s e a hs c d =>
    simp only [Stmt.size] at hsz
    rw [okFS_try] at hok
    simp only [Bool.and_eq_true] at hok
    obtain ⟨⟨⟨h1, _⟩, h3⟩, _⟩ := hok
    have ha := ihL a (by omega) il h1
    have hc := ihL c (by omega) il h3
    rw [sxS_try]
    unfold HX at *
    cases hd : d.isEmpty with
    | false =>
      simp only [Bool.false_eq_true, ↓reduceIte]
      exact .inr (.inl trivial)
    | true =>
      simp only [↓reduceIte, Bool.or_eq_true]
      rcases ha with h | h | h | ⟨h1, h | h⟩
      · -- the body falls through: the `else` part decides
        simp only [h, ↓reduceIte]
        cases hce : c.isEmpty with
        | true => exact .inl (.inl rfl)
        | false =>
          simp only [Bool.false_eq_true, ↓reduceIte]
          rcases hc with h' | h' | h' | ⟨h1', h' | h'⟩
          · exact .inl (.inl h')
          · exact .inr (.inl (.inr h'))
          · exact .inr (.inr (.inl (.inr h')))
          · exact .inr (.inr (.inr ⟨h1', .inl (.inr h')⟩))
          · exact .inr (.inr (.inr ⟨h1', .inr (.inr h')⟩))
      · exact .inr (.inl (.inl (.inl h)))
      · exact .inr (.inr (.inl (.inl (.inl h))))
      · exact .inr (.inr (.inr ⟨h1, .inl (.inl (.inl h))⟩))
      · exact .inr (.inr (.inr ⟨h1, .inr (.inl (.inl h))⟩))
  | handler s e a => rw [okFS_handler] at hok; cases hok
  | with_ s e a => rw [sxS_with]; exact .inl rfl
  | match_ s e cs => rw [sxS_match]; exact .inl rfl
  | case_ s e a => rw [okFS_case] at hok; cases hok
  | class_ s e a =>
    simp only [Stmt.size] at hsz
    rw [okFS_class] at hok
    have ha := ihL a (by omega) false hok
    rw [sxS_class]
    unfold HX at *
    rcases ha with h | h | h | ⟨h1, _⟩
    · exact .inl h
    · exact .inr (.inl h)
    · exact .inr (.inr (.inl h))
    · cases h1

theorem hx_all : ∀ N, ∀ ss, sizeL ss ≤ N → ∀ il, okFL il ss = true → HX il (sxL ss).ex := by
  intro N
  induction N with
  | zero =>
    intro ss hsz il _
    rcases ss with _ | ⟨x, xs⟩
    · rw [sxL_nil]; exact .inl rfl
    · simp only [sizeL] at hsz; omega
  | succ N ih =>
    intro ss hsz il hok
    rcases ss with _ | ⟨x, xs⟩
    · rw [sxL_nil]; exact .inl rfl
    · simp only [sizeL] at hsz
      rw [okFL_cons, Bool.and_eq_true] at hok
      have hx := hx_stmt ih x (by omega) il hok.1
      have hxs := ih xs (by omega) il hok.2
      rw [sxL_cons]
      by_cases hn : (sxS x).ex.normal = true
      · rw [if_pos hn]
        unfold HX at *
        simp only [Bool.or_eq_true]
        rcases hxs with h | h | h | ⟨h1, h | h⟩
        · exact .inl h
        · exact .inr (.inl (.inr h))
        · exact .inr (.inr (.inl (.inr h)))
        · exact .inr (.inr (.inr ⟨h1, .inl (.inr h)⟩))
        · exact .inr (.inr (.inr ⟨h1, .inr (.inr h)⟩))
      · rw [if_neg hn]; exact hx

/-- every piece of code of the fragment has some structural exit -/
theorem sx_exit (ss : List Stmt) (il : Bool) (h : okFL il ss = true) :
    (sxL ss).ex.normal = true ∨ (sxL ss).ex.ret = true ∨ (sxL ss).ex.raise = true ∨
      (il = true ∧ ((sxL ss).ex.brk = true ∨ (sxL ss).ex.cont = true)) :=
  hx_all (sizeL ss) ss (Nat.le_refl _) il h

/-- the statement-level analogue -/
theorem sx_exitS (x : Stmt) (il : Bool) (h : okFS il x = true) :
    (sxS x).ex.normal = true ∨ (sxS x).ex.ret = true ∨ (sxS x).ex.raise = true ∨
      (il = true ∧ ((sxS x).ex.brk = true ∨ (sxS x).ex.cont = true)) :=
  hx_stmt (N := x.size) (fun ss _ il h => sx_exit ss il h) x (Nat.le_succ _) il h

#print axioms okFL_of_okCL
#print axioms ldLX_eq_ldL
#print axioms ldLF_eq_ldL
#print axioms sx_exit

end PV.CFGFin
