import PV.Proofs.CFGSound4Defs
/-!
Stage S4: the soundness proof of the builder mirror WITHOUT the restriction on `try … finally` inside `finally` bodies.
A copy of the stage-S3 development (namespace `S4`; `okL3 il f` here ignores `f`), where the stack invariant `I3` no longer
says "no context is processing its `finally`" but carries `PI`: the `finally` block of every context that is being processed
has its propagation edges (to the first outer `finally` / the loop targets) in the final graph.  With that, the target that
`finallyPropagation` links to (first outer `finally`, processed or not) reaches the target that `targetFinally*` compute
(first outer `finally` that is NOT being processed): `chain_raise`, `chain_loop`.
-/
namespace PV.CFGSound.S4
open PV.CFG PV.Py

/-! ### the fragment -/
set_option linter.unusedSimpArgs false in
mutual
  def okL3 (il inFin : Bool) : List Stmt → Bool
    | [] => true
    | x :: xs => okS3 il inFin x && okL3 il inFin xs
  termination_by l => 2 * sizeL l
  decreasing_by
    all_goals (try simp_wf)
    all_goals (try simp only [Stmt.size, sizeL])
    all_goals omega
  def okS3 (il inFin : Bool) : Stmt → Bool
    | .simple .. | .def_ .. | .ret .. | .raise .. => true
    | .brk .. | .cont .. => il
    | .ite _ _ a b | .elifc _ _ a b => okL3 il inFin a && okL3 il inFin b
    | .elsec _ _ a => okL3 il inFin a
    | .loop _ _ a b => okL3 true inFin a && okL3 il inFin b
    | .with_ _ _ a => okL3 il inFin a
    | .match_ _ _ cs => okCases3 il inFin cs
    | .class_ _ _ a => okL3 false inFin a
    | .try_ _ _ a hs c d => okL3 il inFin a && okHs3 il inFin hs && okL3 il inFin c && (d.isEmpty || okL3 il true d)
    | .handler .. | .case_ .. => false
  termination_by x => 2 * x.size + 1
  decreasing_by
    all_goals (try simp_wf)
    all_goals (try simp only [Stmt.size, sizeL])
    all_goals omega
  def okCases3 (il inFin : Bool) : List Stmt → Bool
    | [] => true
    | .case_ _ _ a :: cs => okL3 il inFin a && okCases3 il inFin cs
    | _ :: _ => false
  termination_by l => 2 * sizeL l
  decreasing_by
    all_goals (try simp_wf)
    all_goals (try simp only [Stmt.size, sizeL])
    all_goals omega
  def okHs3 (il inFin : Bool) : List Stmt → Bool
    | [] => true
    | .handler _ _ a :: hs => okL3 il inFin a && okHs3 il inFin hs
    | _ :: _ => false
  termination_by l => 2 * sizeL l
  decreasing_by
    all_goals (try simp_wf)
    all_goals (try simp only [Stmt.size, sizeL])
    all_goals omega
end

theorem okL3_nil (il f : Bool) : okL3 il f [] = true := by rw [okL3]
theorem okL3_cons (il f : Bool) (x : Stmt) (xs : List Stmt) : okL3 il f (x :: xs) = (okS3 il f x && okL3 il f xs) := by rw [okL3]
theorem okS3_brk (il f : Bool) (s e : Nat) : okS3 il f (.brk s e) = il := by rw [okS3]
theorem okS3_cont (il f : Bool) (s e : Nat) : okS3 il f (.cont s e) = il := by rw [okS3]
theorem okS3_ite (il f : Bool) (s e : Nat) (a b : List Stmt) : okS3 il f (.ite s e a b) = (okL3 il f a && okL3 il f b) := by rw [okS3]
theorem okS3_elifc (il f : Bool) (s e : Nat) (a b : List Stmt) : okS3 il f (.elifc s e a b) = (okL3 il f a && okL3 il f b) := by rw [okS3]
theorem okS3_elsec (il f : Bool) (s e : Nat) (a : List Stmt) : okS3 il f (.elsec s e a) = okL3 il f a := by rw [okS3]
theorem okS3_loop (il f : Bool) (s e : Nat) (a b : List Stmt) : okS3 il f (.loop s e a b) = (okL3 true f a && okL3 il f b) := by rw [okS3]
theorem okS3_with (il f : Bool) (s e : Nat) (a : List Stmt) : okS3 il f (.with_ s e a) = okL3 il f a := by rw [okS3]
theorem okS3_match (il f : Bool) (s e : Nat) (cs : List Stmt) : okS3 il f (.match_ s e cs) = okCases3 il f cs := by rw [okS3]
theorem okS3_class (il f : Bool) (s e : Nat) (a : List Stmt) : okS3 il f (.class_ s e a) = okL3 false f a := by rw [okS3]
theorem okS3_try (il f : Bool) (s e : Nat) (a hs c d : List Stmt) :
    okS3 il f (.try_ s e a hs c d) = (okL3 il f a && okHs3 il f hs && okL3 il f c && (d.isEmpty || okL3 il true d)) := by rw [okS3]
theorem okS3_handler (il f : Bool) (s e : Nat) (a : List Stmt) : okS3 il f (.handler s e a) = false := by rw [okS3]
theorem okS3_case (il f : Bool) (s e : Nat) (a : List Stmt) : okS3 il f (.case_ s e a) = false := by rw [okS3]

theorem okCases3_nil (il f : Bool) : okCases3 il f [] = true := by rw [okCases3]
theorem okCases3_case (il f : Bool) (s e : Nat) (a cs : List Stmt) :
    okCases3 il f (.case_ s e a :: cs) = (okL3 il f a && okCases3 il f cs) := by rw [okCases3]
theorem okCases3_cons {il f : Bool} {x : Stmt} {cs : List Stmt} (h : okCases3 il f (x :: cs) = true) :
    ∃ s e a, x = .case_ s e a ∧ okL3 il f a = true ∧ okCases3 il f cs = true := by
  cases x
  case case_ s e a =>
    rw [okCases3_case, Bool.and_eq_true] at h
    exact ⟨s, e, a, rfl, h.1, h.2⟩
  all_goals (rw [okCases3] at h <;> first | cases h | (intro _ _ _ h; cases h))

theorem okHs3_nil (il f : Bool) : okHs3 il f [] = true := by rw [okHs3]
theorem okHs3_handler (il f : Bool) (s e : Nat) (a hs : List Stmt) :
    okHs3 il f (.handler s e a :: hs) = (okL3 il f a && okHs3 il f hs) := by rw [okHs3]
theorem okHs3_cons {il f : Bool} {x : Stmt} {hs : List Stmt} (h : okHs3 il f (x :: hs) = true) :
    ∃ s e a, x = .handler s e a ∧ okL3 il f a = true ∧ okHs3 il f hs = true := by
  cases x
  case handler s e a =>
    rw [okHs3_handler, Bool.and_eq_true] at h
    exact ⟨s, e, a, rfl, h.1, h.2⟩
  all_goals (rw [okHs3] at h <;> first | cases h | (intro _ _ _ h; cases h))

theorem sxS_try (s e : Nat) (body hs orelse fin : List Stmt) :
    sxS (.try_ s e body hs orelse fin) =
      (let b := sxL body
       let h := sxAlts hs
       let el : SX := if b.ex.normal then sxL orelse else {}
       let pend : Ex := {
          normal := (if orelse.isEmpty then b.ex.normal else el.ex.normal) || h.ex.normal,
          ret := b.ex.ret || h.ex.ret || el.ex.ret, brk := b.ex.brk || h.ex.brk || el.ex.brk,
          cont := b.ex.cont || h.ex.cont || el.ex.cont, raise := b.ex.raise || h.ex.raise || el.ex.raise }
       if fin.isEmpty then
         { lines := b.lines ++ h.lines ++ el.lines, skipped := b.skipped ++ h.skipped ++ el.skipped, ex := pend }
       else
         { lines := b.lines ++ h.lines ++ el.lines ++ (sxL fin).lines, skipped := b.skipped ++ h.skipped ++ el.skipped ++ (sxL fin).skipped,
           ex := { normal := (sxL fin).ex.normal, ret := true, brk := true, cont := true, raise := true } }) := by
  rw [sxS]

/-! ### targets of the structural exits, as functions of the exception stack -/
def firstFin (X : List Exc) : Option Nat := X.findSome? (fun c => c.fin)
def tfX (X : List Exc) : Option Nat := X.findSome? (fun c => if c.processingFinally then none else c.fin)
def tflX (X : List Exc) (d : Nat) : Option Nat :=
  (X.take (X.length - d)).findSome? (fun c => if c.processingFinally then none else c.fin)

theorem targetFinally_eq (st : St) : targetFinally st = tfX st.excs := rfl
theorem targetFinallyLoop_eq (st : St) (d : Nat) : targetFinallyLoop st d = tflX st.excs d := rfl

/-- where the structural exits `break` / `continue` / `return` / `raise` of a statement list lead -/
structure Exits (E : List Edge) (L : List (Nat × Nat × Nat)) (X : List Exc) (b c r x : Bool) : Prop where
  brk : b = true → ∀ h y d rest, L = (h, y, d) :: rest → R E ((tflX X d).getD y)
  cont : c = true → ∀ h y d rest, L = (h, y, d) :: rest → R E ((tflX X d).getD h)
  ret : r = true → R E ((firstFin X).getD exitB)
  raise : x = true → ∀ t, tfX X = some t → R E t

section exits
variable {E : List Edge} {L : List (Nat × Nat × Nat)} {X : List Exc}

theorem Exits.nil : Exits E L X false false false false := ⟨ff, ff, ff, ff⟩

theorem Exits.imp {b c r x b' c' r' x' : Bool} (h : Exits E L X b c r x) (hb : b' = true → b = true) (hc : c' = true → c = true)
    (hr : r' = true → r = true) (hx : x' = true → x = true) : Exits E L X b' c' r' x' :=
  ⟨fun h' => h.brk (hb h'), fun h' => h.cont (hc h'), fun h' => h.ret (hr h'), fun h' => h.raise (hx h')⟩

theorem Exits.or {b c r x b' c' r' x' : Bool} (h : Exits E L X b c r x) (h' : Exits E L X b' c' r' x') :
    Exits E L X (b || b') (c || c') (r || r') (x || x') := by
  refine ⟨fun hh => ?_, fun hh => ?_, fun hh => ?_, fun hh => ?_⟩ <;> rcases Bool.or_eq_true_iff.mp hh with h1 | h1
  · exact h.brk h1
  · exact h'.brk h1
  · exact h.cont h1
  · exact h'.cont h1
  · exact h.ret h1
  · exact h'.ret h1
  · exact h.raise h1
  · exact h'.raise h1
end exits

/-- plain search, as `finallyPropagation` does it: first `finally` among the contexts opened inside the loop (processed or not) -/
def plX (X : List Exc) (d : Nat) : Option Nat := (X.take (X.length - d)).findSome? (fun c => c.fin)

/-- the `finally` block of every context that is being processed has its propagation edges in the final graph -/
def PI (E : List Edge) (L : List (Nat × Nat × Nat)) : List Exc → Prop
  | [] => True
  | c :: X => (c.processingFinally = true → ∀ f, c.fin = some f → R E f →
      R E ((firstFin X).getD exitB) ∧
      (∀ h y d rest, L = (h, y, d) :: rest → d ≤ X.length → R E ((plX X d).getD y) ∧ R E ((plX X d).getD h))) ∧ PI E L X

/-- the invariant on the context stacks -/
structure I3 (E : List Edge) (il inFin : Bool) (L : List (Nat × Nat × Nat)) (X : List Exc) : Prop where
  loops : il = true → L ≠ []
  pi : PI E L X
  depth : ∀ h x d rest, L = (h, x, d) :: rest → d ≤ X.length

theorem PI.enter {E : List Edge} {L : List (Nat × Nat × Nat)} (hdr ex : Nat) : ∀ (X : List Exc), PI E L X → ∀ d, X.length ≤ d → PI E ((hdr, ex, d) :: L) X
  | [], _, _, _ => trivial
  | c :: X, h, d, hd => by
    simp only [List.length_cons] at hd
    refine ⟨fun hp f hf hr => ⟨(h.1 hp f hf hr).1, fun a y d' rest hl hd' => ?_⟩, PI.enter hdr ex X h.2 d (by omega)⟩
    have := (List.cons.inj hl).1
    simp only [Prod.mk.injEq] at this
    omega

theorem I3.noLoop {E : List Edge} {il f : Bool} {L : List (Nat × Nat × Nat)} {X : List Exc} (h : I3 E il f L X) : I3 E false f L X :=
  ⟨ff, h.pi, h.depth⟩

theorem I3.enter {E : List Edge} {il f : Bool} {L : List (Nat × Nat × Nat)} {X : List Exc} (h : I3 E il f L X) (hdr ex : Nat) : I3 E true f ((hdr, ex, X.length) :: L) X :=
  ⟨fun _ => List.cons_ne_nil _ _, PI.enter hdr ex _ h.pi _ (Nat.le_refl _), fun _ _ _ _ hl => by
    have := (List.cons.inj hl).1
    simp only [Prod.mk.injEq] at this
    omega⟩

theorem I3.push {E : List Edge} {il f : Bool} {L : List (Nat × Nat × Nat)} {X : List Exc} (h : I3 E il f L X) (ctx : Exc) (hp : ctx.processingFinally = false) :
    I3 E il f L (ctx :: X) :=
  ⟨h.loops, ⟨fun hq => (by rw [hp] at hq; cases hq), h.pi⟩,
    fun a b d rest hl => by have := h.depth a b d rest hl; simp only [List.length_cons]; omega⟩

theorem I3.pushFin {E : List Edge} {il f : Bool} {L : List (Nat × Nat × Nat)} {X : List Exc} (h : I3 E il f L X) (ctx : Exc)
    (k1 : R E ((firstFin X).getD exitB))
    (k2 : ∀ h y d rest, L = (h, y, d) :: rest → d ≤ X.length → R E ((plX X d).getD y) ∧ R E ((plX X d).getD h)) : I3 E il true L (ctx :: X) :=
  ⟨h.loops, ⟨fun _ _ _ _ => ⟨k1, k2⟩, h.pi⟩, fun a b d rest hl => by have := h.depth a b d rest hl; simp only [List.length_cons]; omega⟩

theorem tflX_cons {ctx : Exc} {X : List Exc} {d : Nat} (hd : d ≤ X.length) :
    tflX (ctx :: X) d = (if ctx.processingFinally then none else ctx.fin).or (tflX X d) := by
  unfold tflX
  have : (ctx :: X).length - d = (X.length - d) + 1 := by simp only [List.length_cons]; omega
  rw [this, List.take_succ_cons, List.findSome?_cons]
  cases h : (if ctx.processingFinally = true then none else ctx.fin) <;> simp
theorem tfX_cons (ctx : Exc) (X : List Exc) : tfX (ctx :: X) = (if ctx.processingFinally then none else ctx.fin).or (tfX X) := by
  unfold tfX
  rw [List.findSome?_cons]
  cases h : (if ctx.processingFinally = true then none else ctx.fin) <;> simp
theorem firstFin_cons (ctx : Exc) (X : List Exc) : firstFin (ctx :: X) = ctx.fin.or (firstFin X) := by
  unfold firstFin
  rw [List.findSome?_cons]
  cases h : ctx.fin <;> simp

theorem plX_cons {ctx : Exc} {X : List Exc} {d : Nat} (hd : d ≤ X.length) : plX (ctx :: X) d = ctx.fin.or (plX X d) := by
  unfold plX
  have : (ctx :: X).length - d = (X.length - d) + 1 := by simp only [List.length_cons]; omega
  rw [this, List.take_succ_cons, List.findSome?_cons]
  cases h : ctx.fin <;> simp

theorem tfX_none : ∀ (X : List Exc), firstFin X = none → tfX X = none
  | [], _ => rfl
  | c :: X, h => by
    rw [firstFin_cons] at h
    rw [tfX_cons]
    cases hc : c.fin with
    | none =>
      rw [hc] at h
      have h' : firstFin X = none := by simpa using h
      rw [tfX_none X h']; simp
    | some f => rw [hc] at h; simp at h

/-- the first outer `finally` (processed or not) reaches the first outer `finally` that is not being processed -/
theorem chain_raise {E : List Edge} {L : List (Nat × Nat × Nat)} : ∀ (X : List Exc), PI E L X → R E ((firstFin X).getD exitB) →
    ∀ t, tfX X = some t → R E t
  | [], _, _, t, ht => by cases ht
  | c :: X, hpi, hr, t, ht => by
    rw [firstFin_cons] at hr
    rw [tfX_cons] at ht
    cases hc : c.fin with
    | none =>
      rw [hc] at hr ht
      refine chain_raise X hpi.2 (by simpa using hr) t ?_
      cases hp : c.processingFinally <;> rw [hp] at ht <;> simpa using ht
    | some f =>
      rw [hc] at hr ht
      have hrf : R E f := by simpa using hr
      cases hp : c.processingFinally with
      | false =>
        rw [hp] at ht
        have : f = t := by simpa using ht
        exact this ▸ hrf
      | true =>
        rw [hp] at ht
        exact chain_raise X hpi.2 (hpi.1 hp f hc hrf).1 t (by simpa using ht)

/-- the same for the targets of `break` / `continue` -/
theorem chain_loop {E : List Edge} {L : List (Nat × Nat × Nat)} {a y d : Nat} {rest : List (Nat × Nat × Nat)} (hl : L = (a, y, d) :: rest)
    (z : Nat) (hz : z = y ∨ z = a) : ∀ (X : List Exc), PI E L X → d ≤ X.length → R E ((plX X d).getD z) → R E ((tflX X d).getD z)
  | [], _, _, hr => by
    unfold tflX; unfold plX at hr; simpa using hr
  | c :: X, hpi, hd, hr => by
    by_cases hdx : d ≤ X.length
    · rw [plX_cons hdx] at hr
      rw [tflX_cons hdx]
      cases hc : c.fin with
      | none =>
        rw [hc] at hr
        have h1 := chain_loop hl z hz X hpi.2 hdx (by simpa using hr)
        cases hp : c.processingFinally <;> simpa using h1
      | some f =>
        rw [hc] at hr
        have hrf : R E f := by simpa using hr
        cases hp : c.processingFinally with
        | false => simpa using hrf
        | true =>
          have h2 := (hpi.1 hp f hc hrf).2 a y d rest hl hdx
          have h3 : R E ((plX X d).getD z) := by
            rcases hz with rfl | rfl
            · exact h2.1
            · exact h2.2
          simpa using chain_loop hl z hz X hpi.2 hdx h3
    · have hd' : d = X.length + 1 := by simp only [List.length_cons] at hd; omega
      subst hd'
      unfold tflX; unfold plX at hr
      simpa using hr

/-- leaving a context without `finally` -/
theorem Exits.pop {E : List Edge} {il f : Bool} {L : List (Nat × Nat × Nat)} {X : List Exc} {ctx : Exc} {b c r x : Bool} (hi : I3 E il f L X)
    (hfin : ctx.fin = none) (h : Exits E L (ctx :: X) b c r x) : Exits E L X b c r x := by
  refine ⟨fun hb a y d rest hl => ?_, fun hb a y d rest hl => ?_, fun hb => ?_, fun hb t ht => ?_⟩
  · have := h.brk hb a y d rest hl
    rw [tflX_cons (hi.depth a y d rest hl), hfin] at this
    simpa using this
  · have := h.cont hb a y d rest hl
    rw [tflX_cons (hi.depth a y d rest hl), hfin] at this
    simpa using this
  · have := h.ret hb
    rw [firstFin_cons, hfin] at this
    simpa using this
  · refine h.raise hb t ?_
    rw [tfX_cons, hfin]
    simpa using ht

/-- inside a `try` with a `finally` block `fb` every exit leads to `fb` -/
theorem Exits.toFin {E : List Edge} {il f : Bool} {L : List (Nat × Nat × Nat)} {X : List Exc} {ctx : Exc} {b c r x : Bool} (hi : I3 E il f L X)
    {fb : Nat} (hfin : ctx.fin = some fb) (hp : ctx.processingFinally = false) (h : Exits E L (ctx :: X) b c r x)
    (hsome : r = true ∨ x = true ∨ (il = true ∧ (b = true ∨ c = true))) : R E fb := by
  rcases hsome with hr | hx | ⟨hil, hbc⟩
  · have := h.ret hr
    rw [firstFin_cons, hfin] at this
    simpa using this
  · refine h.raise hx fb ?_
    rw [tfX_cons, hp, hfin]; rfl
  · have hne := hi.loops hil
    rcases hL : L with _ | ⟨⟨a, y, d⟩, rest⟩
    · exact absurd hL hne
    · rcases hbc with hb | hc
      · have := h.brk hb a y d rest hL
        rw [tflX_cons (hi.depth a y d rest hL), hp, hfin] at this
        simpa using this
      · have := h.cont hc a y d rest hL
        rw [tflX_cons (hi.depth a y d rest hL), hp, hfin] at this
        simpa using this

/-- without contexts that are processing their `finally`, the searches do not skip anything -/
theorem tfX_eq_firstFin {X : List Exc} (h : ∀ c ∈ X, c.processingFinally = false) : tfX X = firstFin X := by
  unfold tfX firstFin
  induction X with
  | nil => rfl
  | cons c X ih =>
    rw [List.findSome?_cons, List.findSome?_cons, h c List.mem_cons_self, ih (fun c hc => h c (List.mem_cons_of_mem _ hc))]
    rfl
theorem tflX_eq_plain {X : List Exc} (h : ∀ c ∈ X, c.processingFinally = false) (d : Nat) :
    tflX X d = (X.take (X.length - d)).findSome? (fun c => c.fin) := by
  unfold tflX
  have hY : ∀ c ∈ X.take (X.length - d), c.processingFinally = false := fun c hc => h c (List.mem_of_mem_take hc)
  generalize X.take (X.length - d) = Y at hY
  induction Y with
  | nil => rfl
  | cons c Y ih =>
    rw [List.findSome?_cons, List.findSome?_cons, hY c List.mem_cons_self, ih (fun c hc => hY c (List.mem_cons_of_mem _ hc))]
    rfl

/-! ### a statement list always has some structural exit -/
def ExSome (il : Bool) (ex : Ex) : Prop :=
  ex.normal = true ∨ ex.ret = true ∨ ex.raise = true ∨ (il = true ∧ (ex.brk = true ∨ ex.cont = true))

theorem ExSome.of_false {ex : Ex} (h : ExSome false ex) : ex.normal = true ∨ ex.ret = true ∨ ex.raise = true := by
  rcases h with h | h | h | ⟨h, _⟩
  · exact .inl h
  · exact .inr (.inl h)
  · exact .inr (.inr h)
  · cases h

theorem exSome_stmt {N : Nat} (ihL : ∀ ss, sizeL ss ≤ N → ∀ il f, okL3 il f ss = true → ExSome il (sxL ss).ex) (x : Stmt) (hsz : x.size ≤ N + 1)
    (il f : Bool) (hok : okS3 il f x = true) : ExSome il (sxS x).ex := by
  cases x with
  | simple s e c h => rw [sxS_simple]; exact .inl rfl
  | def_ s e b => rw [sxS_def]; exact .inl rfl
  | ret s e c h => rw [sxS_ret]; exact .inr (.inl rfl)
  | brk s e => rw [sxS_brk]; rw [okS3_brk] at hok; exact .inr (.inr (.inr ⟨hok, .inl rfl⟩))
  | cont s e => rw [sxS_cont]; rw [okS3_cont] at hok; exact .inr (.inr (.inr ⟨hok, .inr rfl⟩))
  | raise s e => rw [sxS_raise]; exact .inr (.inr (.inl rfl))
  | ite s e a b =>
    simp only [Stmt.size] at hsz
    rw [okS3_ite, Bool.and_eq_true] at hok
    have ha := ihL a (by omega) il f hok.1
    rw [sxS_ite]
    unfold ExSome at ha ⊢
    simp only [Ex.union, Bool.or_eq_true]
    rcases ha with h | h | h | ⟨h1, h | h⟩ <;> simp [*]
  | elifc s e a b =>
    simp only [Stmt.size] at hsz
    rw [okS3_elifc, Bool.and_eq_true] at hok
    have ha := ihL a (by omega) il f hok.1
    rw [sxS_elifc]
    unfold ExSome at ha ⊢
    simp only [Ex.union, Bool.or_eq_true]
    rcases ha with h | h | h | ⟨h1, h | h⟩ <;> simp [*]
  | elsec s e a =>
    simp only [Stmt.size] at hsz
    rw [okS3_elsec] at hok
    rw [sxS_elsec]
    exact ihL a (by omega) il f hok
  | loop s e a b =>
    simp only [Stmt.size] at hsz
    rw [okS3_loop, Bool.and_eq_true] at hok
    have hb := ihL b (by omega) il f hok.2
    rw [sxS_loop]
    unfold ExSome at hb ⊢
    simp only [Bool.or_eq_true]
    rcases hb with h | h | h | ⟨h1, h | h⟩ <;> simp [*]
  | try_ s e a hs c d =>
    simp only [Stmt.size] at hsz
    rw [okS3_try] at hok
    simp only [Bool.and_eq_true] at hok
    obtain ⟨⟨⟨hoka, _⟩, hokc⟩, _⟩ := hok
    have ha := ihL a (by omega) il f hoka
    have hc := ihL c (by omega) il f hokc
    rw [sxS_try]
    simp only []
    split
    · unfold ExSome at ha hc ⊢
      simp only [Bool.or_eq_true]
      rcases ha with h | h | h | ⟨h1, h | h⟩
      · simp only [h, ↓reduceIte]
        by_cases hce : c.isEmpty = true
        · simp [hce]
        · simp only [hce]
          rcases hc with h' | h' | h' | ⟨h1, h' | h'⟩ <;> simp [*]
      all_goals simp [*]
    · exact .inr (.inl rfl)
  | handler s e a => rw [okS3_handler] at hok; cases hok
  | with_ s e a => rw [sxS_with]; exact .inl rfl
  | match_ s e cs => rw [sxS_match]; exact .inl rfl
  | case_ s e a => rw [okS3_case] at hok; cases hok
  | class_ s e a =>
    simp only [Stmt.size] at hsz
    rw [okS3_class] at hok
    have ha := (ihL a (by omega) false f hok).of_false
    rw [sxS_class]
    rcases ha with h | h | h
    · exact .inl h
    · exact .inr (.inl h)
    · exact .inr (.inr (.inl h))

theorem exSome_all : ∀ N, ∀ ss, sizeL ss ≤ N → ∀ il f, okL3 il f ss = true → ExSome il (sxL ss).ex := by
  intro N
  induction N with
  | zero =>
    intro ss hsz il f _
    rcases ss with _ | ⟨x, xs⟩
    · rw [sxL_nil]; exact .inl rfl
    · simp only [sizeL] at hsz; omega
  | succ N ih =>
    intro ss hsz il f hok
    rcases ss with _ | ⟨x, xs⟩
    · rw [sxL_nil]; exact .inl rfl
    · simp only [sizeL] at hsz
      rw [okL3_cons, Bool.and_eq_true] at hok
      have hx := exSome_stmt ih x (by omega) il f hok.1
      have hxs := ih xs (by omega) il f hok.2
      rw [sxL_cons]
      by_cases hn : (sxS x).ex.normal = true
      · rw [if_pos hn]
        unfold ExSome at hxs ⊢
        simp only [Bool.or_eq_true]
        rcases hxs with h | h | h | ⟨h1, h | h⟩ <;> simp [*]
      · rw [if_neg hn]; exact hx

theorem exSome (ss : List Stmt) (il f : Bool) (hok : okL3 il f ss = true) : ExSome il (sxL ss).ex :=
  exSome_all _ ss (Nat.le_refl _) il f hok

/-! ### the statements to prove -/
structure Post3 (E : List Edge) (S : List SRec) (L : List (Nat × Nat × Nat)) (X : List Exc) (st' : St) (r : SX) : Prop where
  lines : ∀ l ∈ r.lines, Good E S l
  normal : r.ex.normal = true → Entry E st'
  exits : Exits E L X r.ex.brk r.ex.cont r.ex.ret r.ex.raise

def QL3 (E : List Edge) (S : List SRec) (ss : List Stmt) : Prop :=
  ∀ (il f : Bool) (st : St), WF st → I3 E il f st.loops st.excs → okL3 il f ss = true → Cov E S (procList st ss) → Entry E st →
    Post3 E S st.loops st.excs (procList st ss) (sxL ss)
def QS3 (E : List Edge) (S : List SRec) (x : Stmt) : Prop :=
  ∀ (il f : Bool) (st : St), WF st → I3 E il f st.loops st.excs → okS3 il f x = true → Cov E S (procStmt st x) → Entry E st →
    Post3 E S st.loops st.excs (procStmt st x) (sxS x)

section sound3
variable {E : List Edge} {S : List SRec}

/-! ### leaves -/
theorem simple_sound3 (s e : Nat) (c : List Bool) (h : Bool) : QS3 E S (.simple s e c h) := by
  intro il f st w _ _ hcov he
  rw [procStmt_simple] at hcov ⊢
  rw [sxS_simple]
  cases h
  · simp only [Bool.false_eq_true, ↓reduceIte, cov_add] at hcov ⊢
    exact ⟨lines_single (good_of hcov.1 he.reach), fun _ => Entry.mk' he.reach he.nt.add_other, Exits.nil⟩
  · simp only [↓reduceIte, cov_add] at hcov ⊢
    obtain ⟨_, he2⟩ := comp_sound st s e c w hcov.2 he.reach
    exact ⟨lines_single (good_of hcov.1 he2.reach), fun _ => Entry.mk' he2.reach he2.nt.add_other, Exits.nil⟩

theorem def_sound3 (s e : Nat) (b : List Stmt) : QS3 E S (.def_ s e b) := by
  intro il f st w _ _ hcov he
  rw [procStmt_def] at hcov ⊢
  rw [sxS_def]
  simp only [cov_add] at hcov
  exact ⟨lines_single (good_of hcov.1 he.reach), fun _ => Entry.mk' he.reach he.nt.add_other, Exits.nil⟩

def tfr (cur : Nat) (X : List Exc) : Option Nat :=
  X.findSome? (fun c => match c.fin with
    | some f => if cur != f then some f else none
    | none => none)
theorem targetFinallyRet_eq (st : St) : targetFinallyRet st = tfr st.cur st.excs := rfl

theorem tfr_cases (cur : Nat) : ∀ X : List Exc, (firstFin X = none ∧ tfr cur X = none) ∨
    (∃ f0, firstFin X = some f0 ∧ (cur = f0 ∨ tfr cur X = some f0))
  | [] => .inl ⟨rfl, rfl⟩
  | c :: X => by
    unfold firstFin tfr
    rw [List.findSome?_cons, List.findSome?_cons]
    cases hf : c.fin with
    | none => exact tfr_cases cur X
    | some g =>
      refine .inr ⟨g, rfl, ?_⟩
      by_cases hc : cur = g
      · exact .inl hc
      · right
        have : (cur != g) = true := by simpa using hc
        simp [this]

theorem ret_sound3 (s e : Nat) (c : List Bool) (h : Bool) : QS3 E S (.ret s e c h) := by
  intro il f st w _ _ hcov he
  rw [procStmt_ret, procRet_eq] at hcov ⊢
  rw [sxS_ret]
  simp only [cov_setCur, cov_bumpU] at hcov
  have hc1 : ({ blk := (if h = true then procComp st s e c else st).cur, s := s, e := e, ty := .ret } : SRec) ∈ S ∧
      Cov E S (if h = true then procComp st s e c else st) := by
    split at hcov <;> (simp only [cov_edge, cov_add] at hcov; exact hcov.2)
  have hr0 : R E (if h = true then procComp st s e c else st).cur := by
    cases h
    · exact he.reach
    · exact (comp_sound st s e c w hc1.2 he.reach).2.reach
  have hx0 : (if h = true then procComp st s e c else st).excs = st.excs := by
    cases h
    · rfl
    · exact (comp_frame (c := st.cur) (n := 0) st s e c w (Or.inl rfl) (Nat.zero_le _)).2.excs
  refine ⟨lines_single (good_of hc1.1 hr0), ff, ⟨ff, ff, fun _ => ?_, ff⟩⟩
  generalize (if h = true then procComp st s e c else st) = st0 at *
  rw [targetFinallyRet_eq] at hcov
  simp only [add_cur, add_excs, hx0] at hcov
  rcases tfr_cases st0.cur st.excs with ⟨h1, h2⟩ | ⟨f0, h1, h2 | h2⟩
  · rw [h2] at hcov
    simp only [cov_edge] at hcov
    rw [h1]; exact R.step hr0 hcov.1
  · rw [h1, ← h2]; exact hr0
  · rw [h2] at hcov
    simp only [cov_edge] at hcov
    rw [h1]; exact R.step hr0 hcov.1

theorem foldl_cur_cov (t : ETy) : ∀ (hs : List Nat) (s : St), Cov E S (hs.foldl (fun st h => st.edge st.cur h t) s) → Cov E S s
  | [], _, h => h
  | h :: hs, s, hc => by
    simp only [List.foldl_cons] at hc
    exact ((cov_edge ..).mp (foldl_cur_cov t hs _ hc)).2

theorem raise_sound3 (s e : Nat) : QS3 E S (.raise s e) := by
  intro il f st w _ _ hcov he
  rw [procStmt_raise, procRaise_eq] at hcov ⊢
  rw [sxS_raise]
  simp only [cov_setCur, cov_bumpU] at hcov
  have hc1 : Cov E S (st.add st.cur s e .raise) := by
    split at hcov
    · exact ((cov_edge ..).mp hcov).2
    · split at hcov
      · split at hcov
        · exact foldl_cur_cov _ _ _ hcov
        · exact ((cov_edge ..).mp hcov).2
      · exact ((cov_edge ..).mp hcov).2
  refine ⟨lines_single (good_of ((cov_add ..).mp hc1).1 he.reach), ff, ⟨ff, ff, ff, fun _ t ht => ?_⟩⟩
  have h1 : targetFinally (st.add st.cur s e .raise) = some t := ht
  rw [h1] at hcov
  simp only [cov_edge] at hcov
  exact R.step he.reach hcov.1

theorem brk_sound3 (s e : Nat) : QS3 E S (.brk s e) := by
  intro il f st w _ _ hcov he
  rw [procStmt_brk, procBrk_eq] at hcov ⊢
  rw [sxS_brk]
  refine ⟨?_, ff, ⟨?_, ff, ff, ff⟩⟩
  · apply lines_single
    simp only [add_loops] at hcov
    split at hcov
    · simp only [cov_add] at hcov; exact good_of hcov.1 he.reach
    · simp only [cov_setCur, cov_bumpU] at hcov
      split at hcov <;> (simp only [cov_edge, cov_add] at hcov; exact good_of hcov.2.1 he.reach)
  · intro _ hd x d rest hl
    simp only [add_loops, hl] at hcov
    have h1 : targetFinallyLoop (st.add st.cur s e .brk) d = tflX st.excs d := rfl
    rw [h1] at hcov
    cases htf : tflX st.excs d with
    | none =>
      rw [htf] at hcov
      simp only [cov_setCur, cov_bumpU, cov_edge, cov_add] at hcov
      exact R.step he.reach hcov.1
    | some t =>
      rw [htf] at hcov
      simp only [cov_setCur, cov_bumpU, cov_edge, cov_add] at hcov
      exact R.step he.reach hcov.1

theorem cont_sound3 (s e : Nat) : QS3 E S (.cont s e) := by
  intro il f st w _ _ hcov he
  rw [procStmt_cont, procCont_eq] at hcov ⊢
  rw [sxS_cont]
  refine ⟨?_, ff, ⟨ff, ?_, ff, ff⟩⟩
  · apply lines_single
    simp only [add_loops] at hcov
    split at hcov
    · simp only [cov_add] at hcov; exact good_of hcov.1 he.reach
    · simp only [cov_setCur, cov_bumpU] at hcov
      split at hcov <;> (simp only [cov_edge, cov_add] at hcov; exact good_of hcov.2.1 he.reach)
  · intro _ hd x d rest hl
    simp only [add_loops, hl] at hcov
    have h1 : targetFinallyLoop (st.add st.cur s e .cont) d = tflX st.excs d := rfl
    rw [h1] at hcov
    cases htf : tflX st.excs d with
    | none =>
      rw [htf] at hcov
      simp only [cov_setCur, cov_bumpU, cov_edge, cov_add] at hcov
      exact R.step he.reach hcov.1
    | some t =>
      rw [htf] at hcov
      simp only [cov_setCur, cov_bumpU, cov_edge, cov_add] at hcov
      exact R.step he.reach hcov.1

theorem tflX_self (X : List Exc) : tflX X X.length = none := by
  unfold tflX; simp

theorem Post3.cast {L L' : List (Nat × Nat × Nat)} {X X' : List Exc} {st' : St} {r : SX} (h : Post3 E S L X st' r) (hL : L = L') (hX : X = X') :
    Post3 E S L' X' st' r := by subst hL; subst hX; exact h
theorem Exits.cast {L L' : List (Nat × Nat × Nat)} {X X' : List Exc} {b c r x : Bool} (h : Exits E L X b c r x) (hL : L = L') (hX : X = X') :
    Exits E L' X' b c r x := by subst hL; subst hX; exact h
theorem I3.cast {il f : Bool} {L L' : List (Nat × Nat × Nat)} {X X' : List Exc} (h : I3 E il f L X) (hL : L = L') (hX : X = X') : I3 E il f L' X' := by
  subst hL; subst hX; exact h

/-! ### compound statements -/
section compound3
variable {N : Nat}

theorem class_sound3 (ih : ∀ ss, sizeL ss ≤ N → QL3 E S ss) (body : List Stmt) (hsz : sizeL body ≤ N) (s e : Nat) :
    QS3 E S (.class_ s e body) := by
  intro il f st w hi hok hcov he
  rw [procStmt_class, procClass_eq] at hcov ⊢
  rw [sxS_class]
  rw [okS3_class] at hok
  have hcur := w.cur
  have i0 : Inv st.cur st.next st st := Inv.refl w (Or.inl rfl)
  have i1 := ((i0.bump.edge (a := st.cur) (b := st.next) (t := .normal) (Or.inl rfl) (by ob) (by ob)).setCur (x := st.next) (by ob) (by ob)).add
    (b := st.next) (p := s) (q := e) (ty := .other) (by ob) (by ob)
  obtain ⟨j, sm⟩ := procList_frame body _ i1.wf st.cur st.next i1.own (by ob)
  have hc1 := Cov.of_inv j hcov
  simp only [cov_add, cov_setCur, cov_edge, cov_bump] at hc1
  have hr : R E st.next := R.step he.reach hc1.2.1
  have hnt : NT (setCur ((bump st).edge st.cur st.next .normal) st.next) st.next :=
    Untouched.nt (by simp only [unt_setCur, unt_edge, unt_bump]; exact ⟨by omega, w.untouched (Nat.le_refl _)⟩)
  have hp := ih body hsz false f _ i1.wf hi.noLoop hok hcov (Entry.mk' hr hnt.add_other)
  exact ⟨lines_cons (good_of hc1.1 hr) hp.lines, hp.normal, hp.exits⟩

theorem with_sound3 (ih : ∀ ss, sizeL ss ≤ N → QL3 E S ss) (body : List Stmt) (hsz : sizeL body ≤ N) (s e : Nat) :
    QS3 E S (.with_ s e body) := by
  intro il f st w hi hok hcov he
  rw [procStmt_with, procWith_eq] at hcov ⊢
  rw [sxS_with]
  rw [okS3_with] at hok
  have hcur := w.cur
  have i0 : Inv st.cur st.next st st := Inv.refl w (Or.inl rfl)
  have i1 := ((((((i0.bump.edge (a := st.cur) (b := st.next) (t := .normal) (Or.inl rfl) (by ob) (by ob)).add (b := st.next) (p := s) (q := e)
    (ty := .other) (by ob) (by ob)).bump).bump).bump).edge (a := st.next) (b := st.next + 1) (t := .normal) (by ob) (by ob) (by ob)).setCur
    (x := st.next + 1) (by ob) (by ob)
  have hj := procList_frame body _ i1.wf (st.next + 1) (st.next + 4) (Or.inl rfl) (by ob)
  obtain ⟨j, sm⟩ := hj
  simp only [cov_setCur, cov_edge, cov_eue] at hcov
  obtain ⟨e1, e2, _, hc2⟩ := hcov
  have hc1 := Cov.of_inv j hc2
  simp only [cov_add, cov_setCur, cov_edge, cov_bump] at hc1
  obtain ⟨e3, e4, e5, _⟩ := hc1
  have hr : R E st.next := R.step he.reach e5
  have hf1 := w.untouched (m := st.next + 1) (by omega)
  have hf3 := w.untouched (m := st.next + 3) (by omega)
  have hp := ih body hsz il f _ i1.wf hi hok hc2 (Entry.mk' (R.step hr e3) (Untouched.nt (by untt [hf1])))
  have hu2 := j.untouched (m := st.next + 3) (by omega) (by omega) (by untt [hf3])
  have hown := j.own
  refine ⟨lines_cons (good_of e4 hr) hp.lines, fun _ => Entry.mk' (R.step (R.step hr e2) e1) (Untouched.nt ?_), hp.exits⟩
  simp only [setCur_cur, unt_setCur, unt_edge]
  exact ⟨by omega, by omega, Untouched.eue (by ob) hu2⟩

theorem cases_sound3 (ih : ∀ ss, sizeL ss ≤ N → QL3 E S ss) (il f : Bool) (mb merge : Nat) (hmm : mb ≠ merge) (hrm : R E mb) :
    ∀ (cs : List Stmt) (st : St), sizeL cs ≤ N → WF st → I3 E il f st.loops st.excs → okCases3 il f cs = true → mb < st.next → merge < st.next →
      Untouched st merge → Cov E S (procCases st cs mb merge) →
      (∀ l ∈ (sxAlts cs).lines, Good E S l) ∧
      Exits E st.loops st.excs (sxAlts cs).ex.brk (sxAlts cs).ex.cont (sxAlts cs).ex.ret (sxAlts cs).ex.raise ∧
      Untouched (procCases st cs mb merge) merge ∧ Cov E S st := by
  intro cs
  induction cs with
  | nil =>
    intro st _ _ _ _ _ _ hu hcov
    rw [procCases_nil] at hcov ⊢
    rw [sxAlts_nil]
    exact ⟨(fun l h => by cases h), Exits.nil, hu, hcov⟩
  | cons x cs ihc =>
    intro st hsz w hi hok hmb hmg hu hcov
    obtain ⟨s, e, body, rfl, hok1, hok2⟩ := okCases3_cons hok
    simp only [sizeL, Stmt.size] at hsz
    rw [procCases_case] at hcov ⊢
    rw [sxAlts_cons, sxS_case]
    have hcur := w.cur
    have i0 : Inv st.cur 0 st st := Inv.refl w (Or.inl rfl)
    have i1 := ((i0.bump.edge (a := mb) (b := st.next) (t := .condT) (by ob) (by ob) (by ob)).setCur (x := st.next) (by ob) (by ob)).add
      (b := st.next) (p := s) (q := e) (ty := .other) (by ob) (by ob)
    have hj := procList_frame body _ i1.wf st.next (st.next + 1) (Or.inl rfl) (by ob)
    obtain ⟨j, sm⟩ := hj
    have hjn := j.next_le
    have hown := j.own
    have k2 := j.edgeUnlessExit (a := (procList ((setCur ((bump st).edge mb st.next .condT) st.next).add st.next s e .other) body).cur)
      (b := merge) (t := .normal) j.own j.wf.cur (by ob)
    have hu1 : Untouched ((setCur ((bump st).edge mb st.next .condT) st.next).add st.next s e .other) merge := by untt [hu]
    have hu2 := Untouched.eue (b := merge) (t := .normal) (show (procList ((setCur ((bump st).edge mb st.next .condT) st.next).add st.next s e .other) body).cur ≠ merge by ob)
      (j.untouched (m := merge) (by omega) (by omega) hu1)
    have hl : ((procList ((setCur ((bump st).edge mb st.next .condT) st.next).add st.next s e .other) body).edgeUnlessExit
        (procList ((setCur ((bump st).edge mb st.next .condT) st.next).add st.next s e .other) body).cur merge .normal).loops = st.loops := by
      simp only [edgeUnlessExit_loops, sm.loops]; rfl
    have hxe : ((procList ((setCur ((bump st).edge mb st.next .condT) st.next).add st.next s e .other) body).edgeUnlessExit
        (procList ((setCur ((bump st).edge mb st.next .condT) st.next).add st.next s e .other) body).cur merge .normal).excs = st.excs := by
      simp only [edgeUnlessExit_excs, sm.excs]; rfl
    obtain ⟨r1, r2, r4, r5⟩ := ihc _ (by omega) k2.wf (hi.cast hl.symm hxe.symm) hok2 (by ob) (by ob) hu2 hcov
    have hc2 := ((cov_eue ..).mp r5).2
    have hc1 := Cov.of_inv j hc2
    simp only [cov_add, cov_setCur, cov_edge, cov_bump] at hc1
    obtain ⟨e1, e2, hc0⟩ := hc1
    have hrc : R E st.next := R.step hrm e2
    have hnt : NT (setCur ((bump st).edge mb st.next .condT) st.next) st.next :=
      Untouched.nt (by untt [w.untouched (Nat.le_refl _)])
    have hp := ih body (by omega) il f _ i1.wf hi hok1 hc2 (Entry.mk' hrc hnt.add_other)
    exact ⟨lines_append (lines_cons (good_of e1 hrc) hp.lines) r1, hp.exits.or (r2.cast hl hxe), r4, hc0⟩

theorem match_sound3 (ih : ∀ ss, sizeL ss ≤ N → QL3 E S ss) (cases : List Stmt) (hsz : sizeL cases ≤ N) (s e : Nat) :
    QS3 E S (.match_ s e cases) := by
  intro il f st w hi hok hcov he
  rw [procStmt_match, procMatch_eq] at hcov ⊢
  rw [sxS_match]
  rw [okS3_match] at hok
  have hcur := w.cur
  have i0 : Inv st.cur 0 st st := Inv.refl w (Or.inl rfl)
  have i1 := ((i0.bump.edge (a := st.cur) (b := st.next) (t := .normal) (Or.inl rfl) (by ob) (by ob)).add (b := st.next) (p := s) (q := e)
    (ty := .other) (by ob) (by ob)).bump
  have hs2 : ∃ t, (if (!cases.isEmpty) = true then
        (procCases (bump (((bump st).edge st.cur st.next .normal).add st.next s e .other)) cases st.next (st.next + 1)).edge st.next (st.next + 1) .condF
      else (bump (((bump st).edge st.cur st.next .normal).add st.next s e .other)).edge st.next (st.next + 1) .normal) =
      (procCases (bump (((bump st).edge st.cur st.next .normal).add st.next s e .other)) cases st.next (st.next + 1)).edge st.next (st.next + 1) t := by
    cases cases
    · exact ⟨.normal, by simp [procCases_nil]⟩
    · exact ⟨.condF, by simp⟩
  obtain ⟨t, ht⟩ := hs2
  simp only [] at hcov ⊢
  rw [ht] at hcov ⊢
  simp only [cov_setCur, cov_edge] at hcov
  obtain ⟨e1, hc2⟩ := hcov
  obtain ⟨j, sm⟩ := cases_frame (c := st.cur) (n := 0) (frame_all N).1 (frame_all N).2 cases _ st.next (st.next + 1) hsz i1.wf i1.own
    (Nat.zero_le _) (Or.inr (Nat.zero_le _)) (by ob) (by ob)
  have hc1 := Cov.of_inv j hc2
  simp only [cov_add, cov_edge, cov_bump] at hc1
  obtain ⟨e2, e3, _⟩ := hc1
  have hr : R E st.next := R.step he.reach e3
  obtain ⟨r1, r2, r4, _⟩ := cases_sound3 ih il f st.next (st.next + 1) (by omega) hr cases _ hsz i1.wf hi hok (by ob) (by ob)
    (by untt [w.untouched (m := st.next + 1) (by omega)]) hc2
  refine ⟨lines_cons (good_of e2 hr) r1, fun _ => Entry.mk' (R.step hr e1) (Untouched.nt ?_), r2⟩
  simp only [setCur_cur, unt_setCur, unt_edge]
  exact ⟨by omega, r4⟩

theorem loop_sound3 (ih : ∀ ss, sizeL ss ≤ N → QL3 E S ss) (body orelse : List Stmt) (h1 : sizeL body ≤ N) (h2 : sizeL orelse ≤ N) (s e : Nat) :
    QS3 E S (.loop s e body orelse) := by
  intro il f st w hi hok hcov he
  rw [procStmt_loop, procLoop_eq] at hcov ⊢
  rw [sxS_loop]
  rw [okS3_loop, Bool.and_eq_true] at hok
  have hcur := w.cur
  have i0 : Inv st.cur 0 st st := Inv.refl w (Or.inl rfl)
  have i1 := (((i0.bump.edge (a := st.cur) (b := st.next) (t := .normal) (Or.inl rfl) (by ob) (by ob)).add (b := st.next) (p := s) (q := e)
    (ty := .other) (by ob) (by ob)).bump).bump
  rcases orelse with _ | ⟨o, os⟩
  · simp only [List.isEmpty_nil, Bool.not_true, Bool.false_eq_true, ↓reduceIte] at hcov ⊢
    have i2 := (((i1.setLoops (l := (st.next, st.next + 2, st.excs.length) :: st.loops) (by
        intro x hx
        rcases List.mem_cons.mp hx with rfl | hx
        · constructor <;> ob
        · exact w.loops_le (by ob) x hx)).edge (a := st.next) (b := st.next + 1) (t := .condT) (by ob) (by ob) (by ob)).edge
        (a := st.next) (b := st.next + 2) (t := .condF) (by ob) (by ob) (by ob)).setCur (x := st.next + 1) (by ob) (by ob)
    have hj := procList_frame body _ i2.wf (st.next + 1) (st.next + 3) (Or.inl rfl) (by ob)
    obtain ⟨j, sm⟩ := hj
    have hown := j.own
    simp only [cov_setLoops, cov_setCur, cov_eue] at hcov
    obtain ⟨_, hc5⟩ := hcov
    have hc4 := Cov.of_inv j hc5
    simp only [cov_setLoops, cov_setCur, cov_edge, cov_add, cov_bump] at hc4
    obtain ⟨e1, e2, e3, e4, _⟩ := hc4
    have hr : R E st.next := R.step he.reach e4
    have hf1 := w.untouched (m := st.next + 1) (by omega)
    have hf2 := w.untouched (m := st.next + 2) (by omega)
    have hp := ih body h1 true f _ i2.wf (hi.enter _ _) hok.1 hc5 (Entry.mk' (R.step hr e2) (Untouched.nt (by untt [hf1])))
    rw [sxL_nil]
    refine ⟨lines_cons (good_of e3 hr) (lines_append hp.lines (fun l h => by cases h)),
      fun _ => Entry.mk' (R.step hr e1) (Untouched.nt ?_),
      ⟨ff, ff, fun h => hp.exits.ret (by simpa using h), fun h => hp.exits.raise (by simpa using h)⟩⟩
    simp only [setLoops_cur, setCur_cur, unt_setLoops, unt_setCur]
    refine Untouched.eue (by ob) (j.untouched (by omega) (by omega) ?_)
    untt [hf2]
  · simp only [List.isEmpty_cons, Bool.not_false, ↓reduceIte] at hcov ⊢
    have i2 := (((i1.bump.setLoops (l := (st.next, st.next + 2, st.excs.length) :: st.loops) (by
        intro x hx
        rcases List.mem_cons.mp hx with rfl | hx
        · constructor <;> ob
        · exact w.loops_le (by ob) x hx)).edge (a := st.next) (b := st.next + 1) (t := .condT) (by ob) (by ob) (by ob)).edge
        (a := st.next) (b := st.next + 3) (t := .condF) (by ob) (by ob) (by ob)).setCur (x := st.next + 1) (by ob) (by ob)
    have hj := procList_frame body _ i2.wf (st.next + 1) (st.next + 4) (Or.inl rfl) (by ob)
    obtain ⟨j, sm⟩ := hj
    have hj0 := procList_frame body _ i2.wf st.cur 0 (Or.inr (Nat.zero_le _)) (Nat.zero_le _)
    obtain ⟨j0, _⟩ := hj0
    have hown := j.own
    have hjn := j.next_le
    have hjc := j.wf.cur
    have k2 := ((j0.edgeUnlessExit (b := st.next) (t := .loop) j0.own hjc (by ob)).setLoops (l := st.loops) (w.loops_le (by ob))).setCur
      (x := st.next + 3) (by ob) (by ob)
    have hj2 := procList_frame (o :: os) _ k2.wf (st.next + 3) _ (Or.inl rfl) (Nat.le_refl _)
    obtain ⟨j2, sm2⟩ := hj2
    have hown2 := j2.own
    simp only [cov_setLoops, cov_setCur, cov_eue] at hcov
    obtain ⟨e8, hc8⟩ := hcov
    have hc6 := Cov.of_inv j2 hc8
    simp only [cov_setLoops, cov_setCur, cov_eue] at hc6
    obtain ⟨_, hc5⟩ := hc6
    have hc4 := Cov.of_inv j hc5
    simp only [cov_setLoops, cov_setCur, cov_edge, cov_add, cov_bump] at hc4
    obtain ⟨e1, e2, e3, e4, _⟩ := hc4
    have hr : R E st.next := R.step he.reach e4
    have hf1 := w.untouched (m := st.next + 1) (by omega)
    have hf2 := w.untouched (m := st.next + 2) (by omega)
    have hf3 := w.untouched (m := st.next + 3) (by omega)
    have hp := ih body h1 true f _ i2.wf (hi.enter _ _) hok.1 hc5 (Entry.mk' (R.step hr e2) (Untouched.nt (by untt [hf1])))
    have hx8 : (setCur (setLoops ((procList (setCur (((setLoops (bump (bump (bump (((bump st).edge st.cur st.next .normal).add st.next s e .other))))
        ((st.next, st.next + 2, st.excs.length) :: st.loops)).edge st.next (st.next + 1) .condT).edge st.next (st.next + 3) .condF) (st.next + 1)) body).edgeUnlessExit
        (procList (setCur (((setLoops (bump (bump (bump (((bump st).edge st.cur st.next .normal).add st.next s e .other))))
        ((st.next, st.next + 2, st.excs.length) :: st.loops)).edge st.next (st.next + 1) .condT).edge st.next (st.next + 3) .condF) (st.next + 1)) body).cur st.next .loop)
        st.loops) (st.next + 3)).excs = st.excs := by
      simp only [setCur_excs, setLoops_excs, edgeUnlessExit_excs, sm.excs]; rfl
    have hp2 := (ih (o :: os) h2 il f _ k2.wf (hi.cast rfl hx8.symm) hok.2 hc8
      (Entry.mk' (R.step hr e1) (Untouched.nt (by
        simp only [setCur_cur, unt_setLoops, unt_setCur]
        refine Untouched.eue (by ob) (j.untouched (by omega) (by omega) ?_)
        untt [hf3])))).cast rfl hx8
    refine ⟨lines_cons (good_of e3 hr) (lines_append hp.lines hp2.lines), fun hn => Entry.mk' ?_ (Untouched.nt ?_),
      ⟨hp2.exits.brk, hp2.exits.cont, fun h => ?_, fun h => ?_⟩⟩
    · simp only [setLoops_cur, setCur_cur]
      rcases Bool.or_eq_true_iff.mp hn with hb | hb
      · have h' : R E ((tflX st.excs st.excs.length).getD (st.next + 2)) := hp.exits.brk hb _ _ _ _ rfl
        rw [tflX_self] at h'
        exact h'
      · have he8 := hp2.normal hb
        exact R.step he8.reach (e8 he8.noExit)
    · simp only [setLoops_cur, setCur_cur, unt_setLoops, unt_setCur]
      refine Untouched.eue (by ob) (j2.untouched (by omega) (by ob) ?_)
      simp only [unt_setLoops, unt_setCur]
      refine Untouched.eue (by ob) (j.untouched (by omega) (by omega) ?_)
      untt [hf2]
    · rcases Bool.or_eq_true_iff.mp h with hb | hb
      · exact hp.exits.ret hb
      · exact hp2.exits.ret hb
    · rcases Bool.or_eq_true_iff.mp h with hb | hb
      · exact hp.exits.raise hb
      · exact hp2.exits.raise hb

/-! ### if / elif / else -/
theorem ifHead_sound3 (ih : ∀ ss, sizeL ss ≤ N → QL3 E S ss) (thn : List Stmt) (hsz : sizeL thn ≤ N) (il f : Bool) (st : St) (s e : Nat)
    (w : WF st) (hi : I3 E il f st.loops st.excs) (hok : okL3 il f thn = true) (hcov : Cov E S (ifHead st s e thn)) (he : Entry E st) :
    Good E S s ∧ Post3 E S st.loops st.excs (ifHead st s e thn) (sxL thn) ∧
      Inv st.next (st.next + 2) (setCur ((bump (bump (st.add st.cur s e .other))).edge st.cur st.next .condT) st.next) (ifHead st s e thn) ∧
      Same st (ifHead st s e thn) ∧
      (∀ m, m ≠ st.cur → m ≠ st.next → m < st.next + 2 → Untouched st m → Untouched (ifHead st s e thn) m) := by
  unfold ifHead at hcov ⊢
  have hcur := w.cur
  have i0 : Inv st.cur 0 st st := Inv.refl w (Or.inl rfl)
  have i1 := (((i0.add (b := st.cur) (p := s) (q := e) (ty := .other) (Or.inl rfl) w.cur).bump.bump).edge (a := st.cur) (b := st.next)
    (t := .condT) (Or.inl rfl) (by ob) (by ob)).setCur (x := st.next) (by ob) (by ob)
  have hj := procList_frame thn _ i1.wf st.next (st.next + 2) (Or.inl rfl) (by ob)
  obtain ⟨j, sm⟩ := hj
  have hc1 := Cov.of_inv j hcov
  simp only [cov_setCur, cov_edge, cov_add, cov_bump] at hc1
  obtain ⟨e1, e2, _⟩ := hc1
  have hp := ih thn hsz il f _ i1.wf hi hok hcov (Entry.mk' (R.step he.reach e1) (Untouched.nt (by untt [w.untouched (Nat.le_refl _)])))
  refine ⟨good_of e2 he.reach, ⟨hp.lines, hp.normal, hp.exits⟩, j, ⟨sm.loops, sm.excs⟩, ?_⟩
  intro m h1 h2 h3 hu
  exact j.untouched h2 h3 (by untt [hu])

theorem elifHead_sound3 (ih : ∀ ss, sizeL ss ≤ N → QL3 E S ss) (thn : List Stmt) (hsz : sizeL thn ≤ N) (il f : Bool) (st : St) (s e : Nat)
    (w : WF st) (hi : I3 E il f st.loops st.excs) (hok : okL3 il f thn = true) (hcov : Cov E S (elifHead st s e thn)) (he : Entry E st) :
    Good E S s ∧ Post3 E S st.loops st.excs (elifHead st s e thn) (sxL thn) ∧
      Inv st.next (st.next + 1) (setCur ((bump (st.add st.cur s e .other)).edge st.cur st.next .condT) st.next) (elifHead st s e thn) ∧
      Same st (elifHead st s e thn) ∧
      (∀ m, m ≠ st.cur → m < st.next → Untouched st m → Untouched (elifHead st s e thn) m) := by
  unfold elifHead at hcov ⊢
  have hcur := w.cur
  have i0 : Inv st.cur 0 st st := Inv.refl w (Or.inl rfl)
  have i1 := (((i0.add (b := st.cur) (p := s) (q := e) (ty := .other) (Or.inl rfl) w.cur).bump).edge (a := st.cur) (b := st.next)
    (t := .condT) (Or.inl rfl) (by ob) (by ob)).setCur (x := st.next) (by ob) (by ob)
  have hj := procList_frame thn _ i1.wf st.next (st.next + 1) (Or.inl rfl) (by ob)
  obtain ⟨j, sm⟩ := hj
  have hc1 := Cov.of_inv j hcov
  simp only [cov_setCur, cov_edge, cov_add, cov_bump] at hc1
  obtain ⟨e1, e2, _⟩ := hc1
  have hp := ih thn hsz il f _ i1.wf hi hok hcov (Entry.mk' (R.step he.reach e1) (Untouched.nt (by untt [w.untouched (Nat.le_refl _)])))
  refine ⟨good_of e2 he.reach, ⟨hp.lines, hp.normal, hp.exits⟩, j, ⟨sm.loops, sm.excs⟩, ?_⟩
  intro m h1 h3 hu
  exact j.untouched (by omega) (by omega) (by untt [hu])

theorem elseTail_sound3 (ih : ∀ ss, sizeL ss ≤ N → QL3 E S ss) (orelse : List Stmt) (hsz : sizeL orelse ≤ N) (il f : Bool) (s3 : St) (cond te : Nat)
    (w : WF s3) (hi : I3 E il f s3.loops s3.excs) (hok : okL3 il f orelse = true) (hcl : cond < s3.next) (hrc : R E cond)
    (hcov : Cov E S (elseTail s3 cond te orelse)) :
    Post3 E S s3.loops s3.excs (elseTail s3 cond te orelse) (sxL orelse) ∧
      Inv s3.next (s3.next + 1) (setCur ((bump s3).edge cond s3.next .condF) s3.next) (elseTail s3 cond te orelse) ∧
      Same s3 (elseTail s3 cond te orelse) ∧ Cov E S s3 ∧
      (∀ m, m < s3.next → NT s3 m → NT (elseTail s3 cond te orelse) m) ∧
      (∀ m, m < s3.next → m ≠ cond → Untouched s3 m → Untouched (elseTail s3 cond te orelse) m) := by
  unfold elseTail at hcov ⊢
  have hcur := w.cur
  have h2 := w.two
  have i0 : Inv s3.cur 0 s3 s3 := Inv.refl w (Or.inl rfl)
  have i1 := (i0.bump.edge (a := cond) (b := s3.next) (t := .condF) (by ob) (by ob) (by ob)).setCur (x := s3.next) (by ob) (by ob)
  have hj := procList_frame orelse _ i1.wf s3.next (s3.next + 1) (Or.inl rfl) (by ob)
  obtain ⟨j, sm⟩ := hj
  have hc1 := Cov.of_inv j hcov
  simp only [cov_setCur, cov_edge, cov_bump] at hc1
  obtain ⟨e1, hc0⟩ := hc1
  have hp := ih orelse hsz il f _ i1.wf hi hok hcov (Entry.mk' (R.step hrc e1) (Untouched.nt (by untt [w.untouched (Nat.le_refl _)])))
  refine ⟨⟨hp.lines, hp.normal, hp.exits⟩, j, ⟨sm.loops, sm.excs⟩, hc0, ?_, ?_⟩
  · intro m h1 hnt
    refine j.nt (by omega) (by omega) ?_
    simp only [nt_setCur]
    exact NT.edge_tgt (by unfold exitB; omega) ((nt_bump ..).mpr hnt)
  · intro m h1 h3 hu
    exact j.untouched (by omega) (by omega) (by untt [hu])

/-- what `procIfElif` achieves -/
def PE3 (E : List Edge) (S : List SRec) (thn orelse : List Stmt) : Prop :=
  ∀ (il f : Bool) (st : St) (s e fm : Nat), WF st → I3 E il f st.loops st.excs → okL3 il f thn = true → okL3 il f orelse = true →
    fm < st.next → fm ≠ st.cur → fm ≠ exitB → Cov E S (procIfElif st s e thn orelse fm) → Entry E st →
    Good E S s ∧ (∀ l ∈ (sxL thn).lines, Good E S l) ∧ (∀ l ∈ (sxL orelse).lines, Good E S l) ∧
    (((sxL thn).ex.normal = true ∨ (sxL orelse).ex.normal = true) → (procIfElif st s e thn orelse fm).cur = fm ∧ R E fm) ∧
    Exits E st.loops st.excs ((sxL thn).ex.brk || (sxL orelse).ex.brk) ((sxL thn).ex.cont || (sxL orelse).ex.cont)
      ((sxL thn).ex.ret || (sxL orelse).ex.ret) ((sxL thn).ex.raise || (sxL orelse).ex.raise) ∧
    (Untouched st fm → Untouched (procIfElif st s e thn orelse fm) fm)

theorem elif_step3 (ih : ∀ ss, sizeL ss ≤ N → QL3 E S ss) (thn a b : List Stmt) (h1 : sizeL thn ≤ N) (ha : sizeL a ≤ N) (hb : sizeL b ≤ N)
    (hrec : PE3 E S a b) (il f : Bool) (st : St) (s e fm s' e' : Nat)
    (w : WF st) (hi : I3 E il f st.loops st.excs) (hok : okL3 il f thn = true) (hoka : okL3 il f a = true) (hokb : okL3 il f b = true)
    (hfl : fm < st.next) (hfc : fm ≠ st.cur) (hfe : fm ≠ exitB) (he : Entry E st)
    (hcov : Cov E S (finishElif (procIfElif (setCur ((bump (elifHead st s e thn)).edge st.cur (elifHead st s e thn).next .condF)
      (elifHead st s e thn).next) s' e' a b fm) (elifHead st s e thn).cur fm)) :
    Good E S s ∧ (∀ l ∈ (sxL thn).lines, Good E S l) ∧ Good E S s' ∧ (∀ l ∈ (sxL a).lines, Good E S l) ∧ (∀ l ∈ (sxL b).lines, Good E S l) ∧
    (((sxL thn).ex.normal = true ∨ (sxL a).ex.normal = true ∨ (sxL b).ex.normal = true) → R E fm) ∧
    Exits E st.loops st.excs ((sxL thn).ex.brk || ((sxL a).ex.brk || (sxL b).ex.brk)) ((sxL thn).ex.cont || ((sxL a).ex.cont || (sxL b).ex.cont))
      ((sxL thn).ex.ret || ((sxL a).ex.ret || (sxL b).ex.ret)) ((sxL thn).ex.raise || ((sxL a).ex.raise || (sxL b).ex.raise)) ∧
    (Untouched st fm → Untouched (finishElif (procIfElif (setCur ((bump (elifHead st s e thn)).edge st.cur (elifHead st s e thn).next .condF)
      (elifHead st s e thn).next) s' e' a b fm) (elifHead st s e thn).cur fm) fm) := by
  have hcur := w.cur
  have h2 := w.two
  obtain ⟨k, smk, hnx⟩ := elifHead_frame (c := st.cur) (n := 0) (frame_all N).2 thn h1 st s e w (Or.inl rfl) (Nat.zero_le _)
  have hk := k.wf.cur
  have i1 := (k.bump.edge (a := st.cur) (b := (elifHead st s e thn).next) (t := .condF) (Or.inl rfl) (by ob) (by ob)).setCur
    (x := (elifHead st s e thn).next) (by ob) (by ob)
  obtain ⟨jr, smr⟩ := elif_frame (c := fm) (n := (elifHead st s e thn).next) (frame_all N).2 _ a b (Nat.le_refl _) ha hb _ s' e' fm i1.wf
    (Or.inr (Nat.le_refl _)) (by ob) (Or.inl rfl) (by ob)
  unfold finishElif at hcov ⊢
  simp only [cov_setCur, cov_eue] at hcov
  obtain ⟨f1, hcr⟩ := hcov
  have hcp := Cov.of_inv jr hcr
  simp only [cov_setCur, cov_edge, cov_bump] at hcp
  obtain ⟨e1, hc3⟩ := hcp
  obtain ⟨g1, hpt, jh, smh, huh⟩ := elifHead_sound3 ih thn h1 il f st s e w hi hok hc3 he
  have hown := jh.own
  have hl3 : (setCur ((bump (elifHead st s e thn)).edge st.cur (elifHead st s e thn).next .condF) (elifHead st s e thn).next).loops = st.loops :=
    smh.loops
  have hx3 : (setCur ((bump (elifHead st s e thn)).edge st.cur (elifHead st s e thn).next .condF) (elifHead st s e thn).next).excs = st.excs :=
    smh.excs
  obtain ⟨r1, r2, r3, r4, r5, r7⟩ := hrec il f _ s' e' fm i1.wf (hi.cast hl3.symm hx3.symm) hoka hokb (by ob) (by ob) hfe hcr
    (Entry.mk' (R.step he.reach e1) (Untouched.nt (by untt [k.wf.untouched (Nat.le_refl _)])))
  refine ⟨g1, hpt.lines, r1, r2, r3, ?_, hpt.exits.or (r5.cast hl3 hx3), ?_⟩
  · rintro (hn | hn)
    · have he3 := hpt.normal hn
      have hnt : NT (procIfElif (setCur ((bump (elifHead st s e thn)).edge st.cur (elifHead st s e thn).next .condF)
          (elifHead st s e thn).next) s' e' a b fm) (elifHead st s e thn).cur := by
        refine jr.nt (by ob) hk ?_
        simp only [nt_setCur]
        exact NT.edge_tgt (by unfold exitB; omega) ((nt_bump ..).mpr he3.nt)
      exact R.step he3.reach (f1 hnt.1)
    · exact (r4 hn).2
  · intro hu
    simp only [unt_setCur]
    refine Untouched.eue (by ob) (r7 ?_)
    have := huh fm hfc hfl hu
    untt [this]

theorem elif_else3 (ih : ∀ ss, sizeL ss ≤ N → QL3 E S ss) (thn : List Stmt) (o : Stmt) (os : List Stmt) (h1 : sizeL thn ≤ N) (h2 : sizeL (o :: os) ≤ N)
    (hne1 : ∀ s e a b, o :: os ≠ [.elifc s e a b]) (hne2 : ∀ s e a b, o :: os ≠ [.ite s e a b]) : PE3 E S thn (o :: os) := by
  intro il f st s e fm w hi hok1 hok2 hfl hfc hfe hcov he
  rw [procIfElif_else _ _ _ _ _ _ _ hne1 hne2] at hcov ⊢
  simp only [] at hcov ⊢
  have hcur := w.cur
  obtain ⟨k, smk, hnx⟩ := elifHead_frame (c := st.cur) (n := 0) (frame_all N).2 thn h1 st s e w (Or.inl rfl) (Nat.zero_le _)
  have hk := k.wf.cur
  have hc5 : Cov E S (elseTail (elifHead st s e thn) st.cur (elifHead st s e thn).cur (o :: os)) := by
    split at hcov
    · exact hcov
    · unfold finishElif at hcov
      simp only [cov_setCur, cov_eue] at hcov
      exact hcov.2.2
  obtain ⟨hpe, j5, sm5, hc3, hnt5, hu5⟩ := elseTail_sound3 ih (o :: os) h2 il f _ st.cur (elifHead st s e thn).cur k.wf
    (hi.cast smk.loops.symm smk.excs.symm) hok2 (by omega) he.reach hc5
  obtain ⟨g1, hpt, jh, smh, huh⟩ := elifHead_sound3 ih thn h1 il f st s e w hi hok1 hc3 he
  have hown := jh.own
  have hown5 := j5.own
  have hjn := jh.next_le
  refine ⟨g1, hpt.lines, hpe.lines, ?_, hpt.exits.or (hpe.exits.cast smh.loops smh.excs), ?_⟩
  · intro hn
    by_cases hb : ((elseTail (elifHead st s e thn) st.cur (elifHead st s e thn).cur (o :: os)).blockTerminates (elifHead st s e thn).cur &&
        (elseTail (elifHead st s e thn) st.cur (elifHead st s e thn).cur (o :: os)).blockTerminates
          (elseTail (elifHead st s e thn) st.cur (elifHead st s e thn).cur (o :: os)).cur) = true
    · exfalso
      rw [Bool.and_eq_true] at hb
      rcases hn with hn | hn
      · have := (hnt5 _ hk (hpt.normal hn).nt).2
        rw [this] at hb; exact Bool.noConfusion hb.1
      · have := (hpe.normal hn).noTerm
        rw [this] at hb; exact Bool.noConfusion hb.2
    · rw [if_neg hb] at hcov ⊢
      refine ⟨finishElif_cur _ _ _, ?_⟩
      unfold finishElif at hcov
      simp only [cov_setCur, cov_eue] at hcov
      obtain ⟨f1, f2, _⟩ := hcov
      rcases hn with hn | hn
      · have he3 := hpt.normal hn
        exact R.step he3.reach (f1 ((hnt5 _ hk he3.nt).eue_tgt hfe).1)
      · have he5 := hpe.normal hn
        exact R.step he5.reach (f2 he5.noExit)
  · intro hu
    have hu5' := hu5 fm (by omega) hfc (huh fm hfc hfl hu)
    split
    · exact hu5'
    · unfold finishElif
      simp only [unt_setCur]
      exact Untouched.eue (by ob) (Untouched.eue (by ob) hu5')

theorem okL3_single_elifc {il f : Bool} {s e : Nat} {a b : List Stmt} (h : okL3 il f [.elifc s e a b] = true) :
    okL3 il f a = true ∧ okL3 il f b = true := by
  rw [okL3_cons, okS3_elifc, okL3_nil, Bool.and_true, Bool.and_eq_true] at h; exact h
theorem okL3_single_ite {il f : Bool} {s e : Nat} {a b : List Stmt} (h : okL3 il f [.ite s e a b] = true) :
    okL3 il f a = true ∧ okL3 il f b = true := by
  rw [okL3_cons, okS3_ite, okL3_nil, Bool.and_true, Bool.and_eq_true] at h; exact h

theorem elif_nil3 (ih : ∀ ss, sizeL ss ≤ N → QL3 E S ss) (thn : List Stmt) (h1 : sizeL thn ≤ N) : PE3 E S thn [] := by
  intro il f st s e fm w hi hok1 hok2 hfl hfc hfe hcov he
  rw [procIfElif_nil] at hcov ⊢
  simp only [] at hcov ⊢
  unfold finishElif at hcov ⊢
  simp only [cov_setCur, cov_eue, cov_edge] at hcov
  obtain ⟨f1, e1, hc3⟩ := hcov
  obtain ⟨g1, hpt, jh, smh, huh⟩ := elifHead_sound3 ih thn h1 il f st s e w hi hok1 hc3 he
  have hown := jh.own
  rw [sxL_nil]
  refine ⟨g1, hpt.lines, (fun l h => by cases h), fun _ => ⟨by simp, R.step he.reach e1⟩, hpt.exits.or Exits.nil, ?_⟩
  intro hu
  simp only [unt_setCur]
  exact Untouched.eue (by ob) ((unt_edge ..).mpr ⟨fun h => hfc h.symm, huh fm hfc hfl hu⟩)

theorem ex_union_ret (a b : Ex) : (a.union b).ret = (a.ret || b.ret) := rfl
theorem ex_union_raise (a b : Ex) : (a.union b).raise = (a.raise || b.raise) := rfl

theorem elif_sound3 (ih : ∀ ss, sizeL ss ≤ N → QL3 E S ss) : ∀ (M : Nat) (thn orelse : List Stmt), sizeL thn + sizeL orelse ≤ M → sizeL thn ≤ N →
    sizeL orelse ≤ N → PE3 E S thn orelse := by
  intro M
  induction M with
  | zero =>
    intro thn orelse hM h1 _
    have : orelse = [] := by
      rcases orelse with _ | ⟨o, os⟩
      · rfl
      · simp only [sizeL] at hM; omega
    subst this
    exact elif_nil3 ih thn h1
  | succ M ihM =>
    intro thn orelse hM h1 h2
    rcases orelse_cases orelse with rfl | ⟨s', e', a, b, rfl⟩ | ⟨s', e', a, b, rfl⟩ | ⟨o, os, rfl, hne1, hne2⟩
    · exact elif_nil3 ih thn h1
    · intro il f st s e fm w hi hok1 hok2 hfl hfc hfe hcov he
      have hsz : sizeL a + sizeL b ≤ M ∧ sizeL a ≤ N ∧ sizeL b ≤ N := by
        simp only [sizeL, Stmt.size] at hM h2; omega
      obtain ⟨hoka, hokb⟩ := okL3_single_elifc hok2
      rw [procIfElif_elif] at hcov ⊢
      simp only [] at hcov ⊢
      obtain ⟨r1, r2, _, r4, r5, r6, r7, r9⟩ := elif_step3 ih thn a b h1 hsz.2.1 hsz.2.2 (ihM a b hsz.1 hsz.2.1 hsz.2.2) il f st s e fm 0 0
        w hi hok1 hoka hokb hfl hfc hfe he hcov
      obtain ⟨q1, _, q3⟩ := sxL_single (.elifc s' e' a b)
      rw [q1, q3, sxS_elifc]
      simp only [ex_union_normal, ex_union_brk, ex_union_cont, ex_union_ret, ex_union_raise, Bool.or_eq_true]
      exact ⟨r1, r2, lines_append r4 r5, fun h => ⟨finishElif_cur _ _ _, r6 h⟩, r7, r9⟩
    · intro il f st s e fm w hi hok1 hok2 hfl hfc hfe hcov he
      have hsz : sizeL a + sizeL b ≤ M ∧ sizeL a ≤ N ∧ sizeL b ≤ N := by
        simp only [sizeL, Stmt.size] at hM h2; omega
      obtain ⟨hoka, hokb⟩ := okL3_single_ite hok2
      rw [procIfElif_ite] at hcov ⊢
      simp only [] at hcov ⊢
      obtain ⟨r1, r2, r3, r4, r5, r6, r7, r9⟩ := elif_step3 ih thn a b h1 hsz.2.1 hsz.2.2 (ihM a b hsz.1 hsz.2.1 hsz.2.2) il f st s e fm s' e'
        w hi hok1 hoka hokb hfl hfc hfe he hcov
      obtain ⟨q1, _, q3⟩ := sxL_single (.ite s' e' a b)
      rw [q1, q3, sxS_ite]
      simp only [ex_union_normal, ex_union_brk, ex_union_cont, ex_union_ret, ex_union_raise, Bool.or_eq_true]
      exact ⟨r1, r2, lines_cons r3 (lines_append r4 r5), fun h => ⟨finishElif_cur _ _ _, r6 h⟩, r7, r9⟩
    · exact elif_else3 ih thn o os h1 h2 hne1 hne2

theorem elifTail_sound3 (thn' orelse' : List Stmt) (h1 : sizeL thn' ≤ N) (h2 : sizeL orelse' ≤ N) (hpe : PE3 E S thn' orelse')
    (il f : Bool) (st : St) (cond te merge s' e' : Nat) (tn : Bool) (w : WF st) (hi : I3 E il f st.loops st.excs)
    (hoka : okL3 il f thn' = true) (hokb : okL3 il f orelse' = true) (hcl : cond < st.next) (hrc : R E cond) (htl : te < st.next) (htm : te ≠ merge)
    (hml : merge < st.next) (hme : merge ≠ exitB) (hcm : cond ≠ merge) (hu : Untouched st merge)
    (hte : tn = true → R E te ∧ NT st te)
    (hcov : Cov E S (procIfElifTail st cond te merge s' e' thn' orelse')) :
    Good E S s' ∧ (∀ l ∈ (sxL thn').lines, Good E S l) ∧ (∀ l ∈ (sxL orelse').lines, Good E S l) ∧
    ((tn = true ∨ (sxL thn').ex.normal = true ∨ (sxL orelse').ex.normal = true) → Entry E (procIfElifTail st cond te merge s' e' thn' orelse')) ∧
    Exits E st.loops st.excs ((sxL thn').ex.brk || (sxL orelse').ex.brk) ((sxL thn').ex.cont || (sxL orelse').ex.cont)
      ((sxL thn').ex.ret || (sxL orelse').ex.ret) ((sxL thn').ex.raise || (sxL orelse').ex.raise) := by
  rw [procIfElifTail_eq] at hcov ⊢
  simp only [] at hcov ⊢
  have hcur := w.cur
  have h2' := w.two
  have i0 : Inv st.cur 0 st st := Inv.refl w (Or.inl rfl)
  have i1 := (i0.bump.edge (a := cond) (b := st.next) (t := .condF) (by ob) (by ob) (by ob)).setCur (x := st.next) (by ob) (by ob)
  obtain ⟨jr, smr⟩ := elif_frame (c := merge) (n := st.next) (frame_all N).2 _ thn' orelse' (Nat.le_refl _) h1 h2 _ s' e' merge i1.wf
    (Or.inr (Nat.le_refl _)) (by ob) (Or.inl rfl) (by ob)
  have hc5 : Cov E S (procIfElif (setCur ((bump st).edge cond st.next .condF) st.next) s' e' thn' orelse' merge) := by
    split at hcov
    · split at hcov
      · exact hcov
      · simp only [cov_setCur, cov_eue] at hcov; exact hcov.2
    · simp only [cov_setCur, cov_eue] at hcov; exact hcov.2
  have hcp := Cov.of_inv jr hc5
  simp only [cov_setCur, cov_edge, cov_bump] at hcp
  obtain ⟨e1, _⟩ := hcp
  obtain ⟨r1, r2, r3, r4, r5, r7⟩ := hpe il f _ s' e' merge i1.wf hi hoka hokb (by ob) (by ob) hme hc5
    (Entry.mk' (R.step hrc e1) (Untouched.nt (by untt [w.untouched (Nat.le_refl _)])))
  have hu5 := r7 (by untt [hu])
  refine ⟨r1, r2, r3, ?_, r5⟩
  intro hn
  have hnt5 : tn = true → NT (procIfElif (setCur ((bump st).edge cond st.next .condF) st.next) s' e' thn' orelse' merge) te := by
    intro ht
    refine jr.nt htm htl ?_
    simp only [nt_setCur]
    exact NT.edge_tgt (by unfold exitB; omega) ((nt_bump ..).mpr (hte ht).2)
  have hcn : tn = true ∨ ((procIfElif (setCur ((bump st).edge cond st.next .condF) st.next) s' e' thn' orelse' merge).cur = merge ∧ R E merge) := by
    rcases hn with hn | hn
    · exact .inl hn
    · exact .inr (r4 hn)
  by_cases hb1 : (procIfElif (setCur ((bump st).edge cond st.next .condF) st.next) s' e' thn' orelse' merge).unreach.contains
      (procIfElif (setCur ((bump st).edge cond st.next .condF) st.next) s' e' thn' orelse' merge).cur = true
  · rw [if_pos hb1] at hcov ⊢
    by_cases hb2 : (procIfElif (setCur ((bump st).edge cond st.next .condF) st.next) s' e' thn' orelse' merge).blockTerminates te = true
    · rw [if_pos hb2]
      rcases hcn with ht | ⟨hc, hr⟩
      · exfalso
        have := (hnt5 ht).2
        rw [this] at hb2; exact Bool.noConfusion hb2
      · exact Entry.mk' (by rw [hc]; exact hr) (by rw [hc]; exact hu5.nt)
    · rw [if_neg hb2] at hcov ⊢
      simp only [cov_setCur, cov_eue, hasSucc_setCur] at hcov
      refine Entry.mk' ?_ (Untouched.nt ?_)
      · simp only [setCur_cur]
        rcases hcn with ht | ⟨_, hr⟩
        · exact R.step (hte ht).1 (hcov.1 (hnt5 ht).1)
        · exact hr
      · simp only [setCur_cur, unt_setCur]
        exact Untouched.eue htm ((unt_setCur ..).mpr hu5)
  · rw [if_neg hb1] at hcov ⊢
    simp only [cov_setCur, cov_eue] at hcov
    refine Entry.mk' ?_ (Untouched.nt ?_)
    · simp only [setCur_cur]
      rcases hcn with ht | ⟨_, hr⟩
      · exact R.step (hte ht).1 (hcov.1 (hnt5 ht).1)
      · exact hr
    · simp only [setCur_cur, unt_setCur]
      exact Untouched.eue htm hu5

theorem if_tail3 (ih : ∀ ss, sizeL ss ≤ N → QL3 E S ss) (thn a b : List Stmt) (h1 : sizeL thn ≤ N) (ha : sizeL a ≤ N) (hb : sizeL b ≤ N)
    (il f : Bool) (st : St) (s e s' e' : Nat) (w : WF st) (hi : I3 E il f st.loops st.excs) (hok1 : okL3 il f thn = true) (hoka : okL3 il f a = true)
    (hokb : okL3 il f b = true) (he : Entry E st)
    (hcov : Cov E S (procIfElifTail (ifHead st s e thn) st.cur (ifHead st s e thn).cur (st.next + 1) s' e' a b)) :
    Good E S s ∧ (∀ l ∈ (sxL thn).lines, Good E S l) ∧ Good E S s' ∧ (∀ l ∈ (sxL a).lines, Good E S l) ∧ (∀ l ∈ (sxL b).lines, Good E S l) ∧
    (((sxL thn).ex.normal = true ∨ (sxL a).ex.normal = true ∨ (sxL b).ex.normal = true) →
      Entry E (procIfElifTail (ifHead st s e thn) st.cur (ifHead st s e thn).cur (st.next + 1) s' e' a b)) ∧
    Exits E st.loops st.excs ((sxL thn).ex.brk || ((sxL a).ex.brk || (sxL b).ex.brk)) ((sxL thn).ex.cont || ((sxL a).ex.cont || (sxL b).ex.cont))
      ((sxL thn).ex.ret || ((sxL a).ex.ret || (sxL b).ex.ret)) ((sxL thn).ex.raise || ((sxL a).ex.raise || (sxL b).ex.raise)) := by
  have hcur := w.cur
  have h2 := w.two
  obtain ⟨k, smk, hnx⟩ := ifHead_frame (c := st.cur) (n := 0) (frame_all N).2 thn h1 st s e w (Or.inl rfl) (Nat.zero_le _)
  have hk := k.wf.cur
  obtain ⟨jt, _⟩ := elifTail_frame (c := (ifHead st s e thn).cur) (n := 0) (frame_all N).2 a b ha hb (Inv.refl k.wf (Or.inl rfl)) (Nat.zero_le _)
    st.cur (ifHead st s e thn).cur (st.next + 1) s' e' (Or.inr (Nat.zero_le _)) (by omega) (Or.inl rfl) hk (Or.inr (Nat.zero_le _)) (by omega)
  have hc3 := Cov.of_inv jt hcov
  obtain ⟨g1, hpt, jh, smh, huh⟩ := ifHead_sound3 ih thn h1 il f st s e w hi hok1 hc3 he
  have hown := jh.own
  obtain ⟨r1, r2, r3, r4, r5⟩ := elifTail_sound3 a b ha hb (elif_sound3 ih _ a b (Nat.le_refl _) ha hb) il f (ifHead st s e thn) st.cur
    (ifHead st s e thn).cur (st.next + 1) s' e' (sxL thn).ex.normal k.wf (hi.cast smh.loops.symm smh.excs.symm) hoka hokb (by omega) he.reach hk
    (by ob) (by omega)
    (by unfold exitB; omega) (by omega) (huh (st.next + 1) (by omega) (by omega) (by omega) (w.untouched (by omega)))
    (fun h => ⟨(hpt.normal h).reach, (hpt.normal h).nt⟩) hcov
  exact ⟨g1, hpt.lines, r1, r2, r3, r4, hpt.exits.or (r5.cast smh.loops smh.excs)⟩

theorem if_sound3 (ih : ∀ ss, sizeL ss ≤ N → QL3 E S ss) (thn orelse : List Stmt) (h1 : sizeL thn ≤ N) (h2 : sizeL orelse ≤ N)
    (il f : Bool) (st : St) (s e : Nat) (w : WF st) (hi : I3 E il f st.loops st.excs) (hok1 : okL3 il f thn = true) (hok2 : okL3 il f orelse = true)
    (hcov : Cov E S (procIf st s e thn orelse)) (he : Entry E st) :
    Good E S s ∧ (∀ l ∈ (sxL thn).lines, Good E S l) ∧ (∀ l ∈ (sxL orelse).lines, Good E S l) ∧
    (((sxL thn).ex.union (sxL orelse).ex).normal = true → Entry E (procIf st s e thn orelse)) ∧
    Exits E st.loops st.excs ((sxL thn).ex.union (sxL orelse).ex).brk ((sxL thn).ex.union (sxL orelse).ex).cont
      ((sxL thn).ex.union (sxL orelse).ex).ret ((sxL thn).ex.union (sxL orelse).ex).raise := by
  have hcur := w.cur
  have h2' := w.two
  rcases orelse_cases orelse with rfl | ⟨s', e', a, b, rfl⟩ | ⟨s', e', a, b, rfl⟩ | ⟨o, os, rfl, hne1, hne2⟩
  · rw [procIf_nil] at hcov ⊢
    simp only [] at hcov ⊢
    simp only [cov_setCur, cov_eue, cov_edge] at hcov
    obtain ⟨_, e1, hc3⟩ := hcov
    obtain ⟨g1, hpt, jh, smh, huh⟩ := ifHead_sound3 ih thn h1 il f st s e w hi hok1 hc3 he
    have hown := jh.own
    rw [sxL_nil]
    refine ⟨g1, hpt.lines, (fun l h => by cases h), fun _ => Entry.mk' (R.step he.reach e1) (Untouched.nt ?_), hpt.exits.or Exits.nil⟩
    simp only [setCur_cur, unt_setCur]
    exact Untouched.eue (by ob) ((unt_edge ..).mpr ⟨by omega, huh (st.next + 1) (by omega) (by omega) (by omega) (w.untouched (by omega))⟩)
  · rw [procIf_elif] at hcov ⊢
    have hsz : sizeL a ≤ N ∧ sizeL b ≤ N := by simp only [sizeL, Stmt.size] at h2; omega
    obtain ⟨hoka, hokb⟩ := okL3_single_elifc hok2
    obtain ⟨r1, r2, _, r4, r5, r6, r7⟩ := if_tail3 ih thn a b h1 hsz.1 hsz.2 il f st s e 0 0 w hi hok1 hoka hokb he hcov
    obtain ⟨q1, _, q3⟩ := sxL_single (.elifc s' e' a b)
    rw [q1, q3, sxS_elifc]
    simp only [ex_union_normal, ex_union_brk, ex_union_cont, ex_union_ret, ex_union_raise, or3]
    exact ⟨r1, r2, lines_append r4 r5, r6, r7⟩
  · rw [procIf_ite] at hcov ⊢
    have hsz : sizeL a ≤ N ∧ sizeL b ≤ N := by simp only [sizeL, Stmt.size] at h2; omega
    obtain ⟨hoka, hokb⟩ := okL3_single_ite hok2
    obtain ⟨r1, r2, r3, r4, r5, r6, r7⟩ := if_tail3 ih thn a b h1 hsz.1 hsz.2 il f st s e s' e' w hi hok1 hoka hokb he hcov
    obtain ⟨q1, _, q3⟩ := sxL_single (.ite s' e' a b)
    rw [q1, q3, sxS_ite]
    simp only [ex_union_normal, ex_union_brk, ex_union_cont, ex_union_ret, ex_union_raise, or3]
    exact ⟨r1, r2, lines_cons r3 (lines_append r4 r5), r6, r7⟩
  · rw [procIf_else _ _ _ _ _ _ hne1 hne2] at hcov ⊢
    simp only [] at hcov ⊢
    obtain ⟨k, smk, hnx⟩ := ifHead_frame (c := st.cur) (n := 0) (frame_all N).2 thn h1 st s e w (Or.inl rfl) (Nat.zero_le _)
    have hk := k.wf.cur
    have hc5 : Cov E S (elseTail (ifHead st s e thn) st.cur (ifHead st s e thn).cur (o :: os)) := by
      split at hcov
      · exact hcov
      · simp only [cov_setCur, cov_eue] at hcov
        exact hcov.2.2
    obtain ⟨hpe, j5, sm5, hc3, hnt5, hu5⟩ := elseTail_sound3 ih (o :: os) h2 il f _ st.cur (ifHead st s e thn).cur k.wf
      (hi.cast smk.loops.symm smk.excs.symm) hok2 (by omega) he.reach hc5
    obtain ⟨g1, hpt, jh, smh, huh⟩ := ifHead_sound3 ih thn h1 il f st s e w hi hok1 hc3 he
    have hown := jh.own
    have hown5 := j5.own
    refine ⟨g1, hpt.lines, hpe.lines, ?_, hpt.exits.or (hpe.exits.cast smh.loops smh.excs)⟩
    simp only [ex_union_normal, Bool.or_eq_true]
    intro hn
    by_cases hb : ((elseTail (ifHead st s e thn) st.cur (ifHead st s e thn).cur (o :: os)).blockTerminates (ifHead st s e thn).cur &&
        (elseTail (ifHead st s e thn) st.cur (ifHead st s e thn).cur (o :: os)).blockTerminates
          (elseTail (ifHead st s e thn) st.cur (ifHead st s e thn).cur (o :: os)).cur) = true
    · exfalso
      rw [Bool.and_eq_true] at hb
      rcases hn with hn | hn
      · have := (hnt5 _ hk (hpt.normal hn).nt).2
        rw [this] at hb; exact Bool.noConfusion hb.1
      · have := (hpe.normal hn).noTerm
        rw [this] at hb; exact Bool.noConfusion hb.2
    · rw [if_neg hb] at hcov ⊢
      simp only [cov_setCur, cov_eue, edgeUnlessExit_cur] at hcov
      obtain ⟨f2, f1, _⟩ := hcov
      refine Entry.mk' ?_ (Untouched.nt ?_)
      · simp only [setCur_cur]
        rcases hn with hn | hn
        · have he3 := hpt.normal hn
          exact R.step he3.reach (f1 (hnt5 _ hk he3.nt).1)
        · have he5 := hpe.normal hn
          exact R.step he5.reach (f2 (he5.nt.eue_tgt (by unfold exitB; omega)).1)
      · simp only [setCur_cur, unt_setCur, edgeUnlessExit_cur]
        exact Untouched.eue (by ob) (Untouched.eue (by ob) (hu5 (st.next + 1) (by omega) (by omega)
          (huh (st.next + 1) (by omega) (by omega) (by omega) (w.untouched (by omega)))))

/-! ### try / except / else / finally -/
theorem hasSucc_mem {st : St} {a b : Nat} (h : st.hasSucc a b = true) : ∃ t, (a, b, t) ∈ st.edges := by
  unfold St.hasSucc at h
  rw [List.any_eq_true] at h
  obtain ⟨⟨x, y, t⟩, hm, hxy⟩ := h
  simp only [Bool.and_eq_true, beq_iff_eq] at hxy
  obtain ⟨rfl, rfl⟩ := hxy
  exact ⟨t, hm⟩

section conn
variable (fin : Nat) (st : St) (b : Nat) (t : ETy)
@[simp] theorem conn_loops : (conn fin st b t).loops = st.loops := by unfold conn; split <;> rfl
@[simp] theorem conn_excs : (conn fin st b t).excs = st.excs := by unfold conn; split <;> rfl
@[simp] theorem conn_cur : (conn fin st b t).cur = st.cur := by unfold conn; split <;> rfl
end conn

theorem conn_cov {fin : Nat} {st : St} {b : Nat} {t : ETy} (h : Cov E S (conn fin st b t)) : (∃ t', (fin, b, t') ∈ E) ∧ Cov E S st := by
  unfold conn at h
  split at h
  · next hs =>
    obtain ⟨t', ht'⟩ := hasSucc_mem hs
    exact ⟨⟨t', h.1 _ ht'⟩, h⟩
  · simp only [cov_edge] at h
    exact ⟨⟨t, h.1⟩, h.2⟩

theorem conn_unt {fin : Nat} {st : St} {b : Nat} {t : ETy} {m : Nat} (hf : fin ≠ m) (h : Untouched st m) : Untouched (conn fin st b t) m := by
  unfold conn
  split
  · exact h
  · exact (unt_edge ..).mpr ⟨hf, h⟩

theorem foldl_conn_cov (fin : Nat) (t : ETy) : ∀ (hs : List Nat) (s : St), Cov E S (hs.foldl (fun st h => conn fin st h t) s) → Cov E S s
  | [], _, h => h
  | h :: hs, s, hc => by
    simp only [List.foldl_cons] at hc
    exact (conn_cov (foldl_conn_cov fin t hs _ hc)).2
theorem foldl_conn_unt (fin : Nat) (t : ETy) {m : Nat} (hf : fin ≠ m) : ∀ (hs : List Nat) (s : St), Untouched s m →
    Untouched (hs.foldl (fun st h => conn fin st h t) s) m
  | [], _, h => h
  | h :: hs, s, hu => by
    simp only [List.foldl_cons]
    exact foldl_conn_unt fin t hf hs _ (conn_unt hf hu)

theorem fp1_cov {fin : Nat} {no : Option Nat} {st : St} (h : Cov E S (fp1 fin no st)) : (∃ t, (fin, no.getD exitB, t) ∈ E) ∧ Cov E S st := by
  unfold fp1 at h
  split at h <;> exact conn_cov h
theorem fp1_unt {fin : Nat} {no : Option Nat} {st : St} {m : Nat} (hf : fin ≠ m) (h : Untouched st m) : Untouched (fp1 fin no st) m := by
  unfold fp1
  split <;> exact conn_unt hf h
theorem fp1_loops (fin : Nat) (no : Option Nat) (st : St) : (fp1 fin no st).loops = st.loops := by unfold fp1; split <;> simp
theorem fp1_excs (fin : Nat) (no : Option Nat) (st : St) : (fp1 fin no st).excs = st.excs := by unfold fp1; split <;> simp

theorem fp2_cov {fin : Nat} {outer : List Exc} {st : St} (h : Cov E S (fp2 fin outer st)) :
    (∀ hdr ex d rest, st.loops = (hdr, ex, d) :: rest →
      (∃ t, (fin, ((outer.take (st.excs.length - 1 - d)).findSome? (fun c => c.fin)).getD ex, t) ∈ E) ∧
      (∃ t, (fin, ((outer.take (st.excs.length - 1 - d)).findSome? (fun c => c.fin)).getD hdr, t) ∈ E)) ∧ Cov E S st := by
  unfold fp2 at h
  split at h
  · next hl => exact ⟨(fun _ _ _ _ hl' => by rw [hl] at hl'; cases hl'), h⟩
  · next hdr ex d rest hl =>
    simp only at h
    cases hnl : (outer.take (st.excs.length - 1 - d)).findSome? (fun c => c.fin) with
    | none =>
      rw [hnl] at h
      simp only at h
      obtain ⟨c1, h1⟩ := conn_cov h
      obtain ⟨c2, h2⟩ := conn_cov h1
      refine ⟨fun hdr' ex' d' rest' hl' => ?_, h2⟩
      rw [hl] at hl'
      obtain ⟨⟨rfl, rfl, rfl⟩, _⟩ := List.cons.inj hl'
      rw [hnl]
      exact ⟨c2, c1⟩
    | some o =>
      rw [hnl] at h
      simp only at h
      obtain ⟨c1, h1⟩ := conn_cov h
      obtain ⟨c2, h2⟩ := conn_cov h1
      refine ⟨fun hdr' ex' d' rest' hl' => ?_, h2⟩
      rw [hl] at hl'
      obtain ⟨⟨rfl, rfl, rfl⟩, _⟩ := List.cons.inj hl'
      rw [hnl]
      exact ⟨c2, c1⟩
theorem fp2_unt {fin : Nat} {outer : List Exc} {st : St} {m : Nat} (hf : fin ≠ m) (h : Untouched st m) : Untouched (fp2 fin outer st) m := by
  unfold fp2
  split
  · exact h
  · simp only
    split <;> exact conn_unt hf (conn_unt hf h)

theorem fp3_cov {fin : Nat} {outer : List Exc} {no : Option Nat} {st : St} (h : Cov E S (fp3 fin outer no st)) :
    (∀ o, no = some o → ∃ t, (fin, o, t) ∈ E) ∧ Cov E S st := by
  unfold fp3 at h
  split at h
  · next o =>
    obtain ⟨c1, h1⟩ := conn_cov h
    exact ⟨fun o' ho' => by cases ho'; exact c1, h1⟩
  · refine ⟨(fun o ho => by cases ho), ?_⟩
    split at h
    · exact foldl_conn_cov _ _ _ _ h
    · exact (conn_cov h).2
theorem fp3_unt {fin : Nat} {outer : List Exc} {no : Option Nat} {st : St} {m : Nat} (hf : fin ≠ m) (h : Untouched st m) :
    Untouched (fp3 fin outer no st) m := by
  unfold fp3
  split
  · exact conn_unt hf h
  · split
    · exact foldl_conn_unt _ _ hf _ _ h
    · exact conn_unt hf h

theorem tryFin_sound3 (ih : ∀ ss, sizeL ss ≤ N → QL3 E S ss) (fin : List Stmt) (hsz : sizeL fin ≤ N) (il f : Bool) (s8 : St) (finB exitBk : Nat)
    (ctx : Exc) (X0 : List Exc) (w : WF s8) (hex : s8.excs = ctx :: X0) (hi : I3 E il f s8.loops X0) (hok : okL3 il true fin = true)
    (hfl : finB < s8.next) (hfu : Untouched s8 finB) (hrf : R E finB) (hel : exitBk < s8.next) (heu : Untouched s8 exitBk) (hne : finB ≠ exitBk)
    (hcov : Cov E S (tryFin s8 true finB exitBk ctx X0 fin)) :
    (∀ l ∈ (sxL fin).lines, Good E S l) ∧ ((sxL fin).ex.normal = true → R E exitBk) ∧ Exits E s8.loops X0 true true true true ∧
      Untouched (tryFin s8 true finB exitBk ctx X0 fin) exitBk := by
  unfold tryFin at hcov ⊢
  simp only [↓reduceIte] at hcov ⊢
  have hb := w.excs
  rw [hex] at hb
  have i0 : Inv s8.cur 0 s8 s8 := Inv.refl w (Or.inl rfl)
  have i1 := (i0.setCur (x := finB) (by ob) hfl).setExcs (x := { ctx with processingFinally := true } :: X0) (by
    intro cx hcx
    rcases List.mem_cons.mp hcx with rfl | hcx
    · exact hb ctx (List.mem_cons_self ..)
    · exact hb cx (List.mem_cons_of_mem _ hcx))
  have hj := procList_frame fin _ i1.wf finB s8.next (Or.inl rfl) (Nat.le_refl _)
  obtain ⟨jF, smF⟩ := hj
  have hown := jF.own
  have hjn := jF.next_le
  rw [finallyPropagation_eq] at hcov ⊢
  simp only [edgeUnlessExit_excs, setExcs_excs, List.drop_succ_cons, List.drop_zero] at hcov ⊢
  obtain ⟨c3, h3⟩ := fp3_cov hcov
  obtain ⟨c2, h2⟩ := fp2_cov h3
  obtain ⟨c1, hG⟩ := fp1_cov h2
  simp only [cov_eue, cov_setExcs, setExcs_cur, hasSucc_setExcs] at hG
  obtain ⟨eG, hcF⟩ := hG
  have k1 : R E ((firstFin X0).getD exitB) := by
    obtain ⟨t, ht⟩ := c1
    exact R.step hrf ht
  have k2 : ∀ a y d rest, s8.loops = (a, y, d) :: rest → d ≤ X0.length → R E ((plX X0 d).getD y) ∧ R E ((plX X0 d).getD a) := by
    intro a y d rest hl _
    have := c2 a y d rest (by rw [fp1_loops]; simp only [edgeUnlessExit_loops, setExcs_loops, smF.loops]; exact hl)
    rw [fp1_excs] at this
    simp only [edgeUnlessExit_excs, setExcs_excs, List.length_cons, Nat.add_sub_cancel] at this
    obtain ⟨⟨t, ht⟩, ⟨t', ht'⟩⟩ := this
    exact ⟨R.step hrf ht, R.step hrf ht'⟩
  have hp := ih fin hsz il true _ i1.wf (hi.pushFin _ k1 k2) hok hcF (Entry.mk' hrf hfu.nt)
  refine ⟨hp.lines, fun hn => ?_, ⟨fun _ a y d rest hl => ?_, fun _ a y d rest hl => ?_, fun _ => k1, fun _ t ht => ?_⟩, ?_⟩
  · have heF := hp.normal hn
    exact R.step heF.reach (eG heF.noExit)
  · exact chain_loop hl y (.inl rfl) X0 hi.pi (hi.depth a y d rest hl) (k2 a y d rest hl (hi.depth a y d rest hl)).1
  · exact chain_loop hl a (.inr rfl) X0 hi.pi (hi.depth a y d rest hl) (k2 a y d rest hl (hi.depth a y d rest hl)).2
  · exact chain_raise X0 hi.pi k1 t ht
  · refine fp3_unt hne (fp2_unt hne (fp1_unt hne (Untouched.eue (by ob) ?_)))
    simp only [unt_setExcs]
    exact jF.untouched (fun h => hne h.symm) hel (by untt [heu])

theorem handlers_sound3 (ih : ∀ ss, sizeL ss ≤ N → QL3 E S ss) (il f : Bool) (after : Nat) :
    ∀ (hs : List Stmt) (hbs : List Nat) (st : St), sizeL hs ≤ N → WF st → I3 E il f st.loops st.excs → okHs3 il f hs = true →
      hbs.length = hs.length → hbs.Nodup → (∀ hb ∈ hbs, hb < st.next ∧ Untouched st hb ∧ R E hb) → after < st.next →
      Cov E S (procHandlers st hs hbs after) →
      (∀ l ∈ (sxAlts hs).lines, Good E S l) ∧ ((sxAlts hs).ex.normal = true → R E after) ∧
      Exits E st.loops st.excs (sxAlts hs).ex.brk (sxAlts hs).ex.cont (sxAlts hs).ex.ret (sxAlts hs).ex.raise ∧
      (∀ m, m < st.next → (∀ hb ∈ hbs, m ≠ hb) → Untouched st m → Untouched (procHandlers st hs hbs after) m) ∧ Cov E S st := by
  intro hs
  induction hs with
  | nil =>
    intro hbs st _ _ _ _ _ _ _ _ hcov
    rw [procHandlers_nil_l] at hcov ⊢
    rw [sxAlts_nil]
    exact ⟨(fun l h => by cases h), ff, Exits.nil, (fun m _ _ hu => hu), hcov⟩
  | cons x hs ihh =>
    intro hbs st hsz w hi hok hlen hnd hhb hal hcov
    obtain ⟨s, e, body, rfl, hok1, hok2⟩ := okHs3_cons hok
    rcases hbs with _ | ⟨hb, hbs⟩
    · simp at hlen
    simp only [sizeL, Stmt.size] at hsz
    simp only [List.length_cons, Nat.add_right_cancel_iff] at hlen
    rw [List.nodup_cons] at hnd
    rw [procHandlers_handler] at hcov ⊢
    simp only [] at hcov ⊢
    rw [sxAlts_cons, sxS_handler]
    obtain ⟨hbl, hbu, hbr⟩ := hhb hb List.mem_cons_self
    have hcur := w.cur
    have i0 : Inv st.cur 0 st st := Inv.refl w (Or.inl rfl)
    have i1 := (i0.setCur (x := hb) (by ob) hbl).add (b := hb) (p := s) (q := e) (ty := .other) (by ob) (by ob)
    have hj := procList_frame body _ i1.wf hb st.next (Or.inl rfl) (Nat.le_refl _)
    obtain ⟨j, sm⟩ := hj
    have hjn := j.next_le
    have hown := j.own
    have k2 := j.edgeUnlessExit (a := (procList ((setCur st hb).add hb s e .other) body).cur) (b := after) (t := .normal) j.own j.wf.cur (by ob)
    have hl : ((procList ((setCur st hb).add hb s e .other) body).edgeUnlessExit (procList ((setCur st hb).add hb s e .other) body).cur
        after .normal).loops = st.loops := by
      simp only [edgeUnlessExit_loops, sm.loops]; rfl
    have hxe : ((procList ((setCur st hb).add hb s e .other) body).edgeUnlessExit (procList ((setCur st hb).add hb s e .other) body).cur
        after .normal).excs = st.excs := by
      simp only [edgeUnlessExit_excs, sm.excs]; rfl
    have hu2 : ∀ m, m < st.next → m ≠ hb → Untouched st m →
        Untouched ((procList ((setCur st hb).add hb s e .other) body).edgeUnlessExit (procList ((setCur st hb).add hb s e .other) body).cur
          after .normal) m := by
      intro m hm1 hm2 hu
      exact Untouched.eue (by ob) (j.untouched hm2 hm1 (by untt [hu]))
    obtain ⟨r1, r2, r3, r4, r5⟩ := ihh hbs _ (by omega) k2.wf (hi.cast hl.symm hxe.symm) hok2 hlen hnd.2
      (fun hb' hm => by
        obtain ⟨a1, a2, a3⟩ := hhb hb' (List.mem_cons_of_mem _ hm)
        exact ⟨by ob, hu2 hb' a1 (fun h => hnd.1 (h ▸ hm)) a2, a3⟩) (by ob) hcov
    obtain ⟨f1, hc1⟩ := (cov_eue ..).mp r5
    have hcp := Cov.of_inv j hc1
    simp only [cov_add, cov_setCur] at hcp
    obtain ⟨e1, hc0⟩ := hcp
    have hp := ih body (by omega) il f _ i1.wf hi hok1 hc1 (Entry.mk' hbr (NT.add_other ((nt_setCur ..).mpr hbu.nt)))
    refine ⟨lines_append (lines_cons (good_of e1 hbr) hp.lines) r1, ?_, hp.exits.or (r3.cast hl hxe), ?_, hc0⟩
    · intro hn
      rcases Bool.or_eq_true_iff.mp hn with hn | hn
      · have he1 := hp.normal hn
        exact R.step he1.reach (f1 he1.noExit)
      · exact r2 hn
    · intro m hm1 hm2 hu
      exact r4 m (by ob) (fun hb' hm => hm2 hb' (List.mem_cons_of_mem _ hm)) (hu2 m hm1 (hm2 hb List.mem_cons_self) hu)

theorem foldl_edge_cov (src : Nat) (t : ETy) : ∀ (hs : List Nat) (s : St), Cov E S (hs.foldl (fun st h => st.edge src h t) s) →
    (∀ h ∈ hs, (src, h, t) ∈ E) ∧ Cov E S s
  | [], _, h => ⟨(fun _ hm => by cases hm), h⟩
  | h :: hs, s, hc => by
    simp only [List.foldl_cons] at hc
    obtain ⟨a1, a2⟩ := foldl_edge_cov src t hs _ hc
    simp only [cov_edge] at a2
    refine ⟨fun x hx => ?_, a2.2⟩
    rcases List.mem_cons.mp hx with rfl | hx
    · exact a2.1
    · exact a1 x hx
theorem foldl_edge_unt (src : Nat) (t : ETy) {m : Nat} (hf : src ≠ m) : ∀ (hs : List Nat) (s : St), Untouched s m →
    Untouched (hs.foldl (fun st h => st.edge src h t) s) m
  | [], _, h => h
  | h :: hs, s, hu => by
    simp only [List.foldl_cons]
    exact foldl_edge_unt src t hf hs _ ((unt_edge ..).mpr ⟨hf, hu⟩)

theorem nodup_map_add (b n : Nat) : ((List.range n).map (fun k => b + k)).Nodup := by
  unfold List.Nodup
  rw [List.pairwise_map]
  exact List.Pairwise.imp (fun h => by omega) (List.nodup_range (n := n))

theorem tryMid_sound3 (ih : ∀ ss, sizeL ss ≤ N → QL3 E S ss) (body handlers : List Stmt) (hbz : sizeL body ≤ N) (hhz : sizeL handlers ≤ N)
    (il f : Bool) (s3 : St) (tryB : Nat) (cfin : Option Nat) (X0 : List Exc) (nat ah : Nat) (w : WF s3)
    (hcf : ∀ g, cfin = some g → g < s3.next)
    (hx0 : ∀ cx ∈ X0, (∀ g, cx.fin = some g → g < s3.next) ∧ ∀ h ∈ cx.handlers, h < s3.next)
    (hi : ∀ hbs, I3 E il f s3.loops ({ fin := cfin, handlers := hbs, processingFinally := false } :: X0))
    (hokb : okL3 il f body = true) (hokh : okHs3 il f handlers = true)
    (htl : tryB < s3.next) (htu : Untouched s3 tryB) (hrt : R E tryB) (hnl : nat < s3.next) (hal : ah < s3.next)
    (hcov : Cov E S (tryMid s3 tryB cfin X0 nat ah body handlers)) :
    (∀ l ∈ (sxL body).lines, Good E S l) ∧ (∀ l ∈ (sxAlts handlers).lines, Good E S l) ∧
    ((sxL body).ex.normal = true → R E nat) ∧ ((sxAlts handlers).ex.normal = true → R E ah) ∧
    Exits E s3.loops ({ fin := cfin, handlers := (List.range handlers.length).map (fun k => s3.next + k), processingFinally := false } :: X0)
      (sxL body).ex.brk (sxL body).ex.cont (sxL body).ex.ret (sxL body).ex.raise ∧
    Exits E s3.loops ({ fin := cfin, handlers := (List.range handlers.length).map (fun k => s3.next + k), processingFinally := false } :: X0)
      (sxAlts handlers).ex.brk (sxAlts handlers).ex.cont (sxAlts handlers).ex.ret (sxAlts handlers).ex.raise ∧
    (∀ m, m < s3.next → m ≠ tryB → Untouched s3 m → Untouched (tryMid s3 tryB cfin X0 nat ah body handlers) m) := by
  unfold tryMid at hcov ⊢
  simp only [] at hcov ⊢
  have hmem : ∀ h ∈ (List.range handlers.length).map (fun k => s3.next + k), s3.next ≤ h ∧ h < s3.next + handlers.length := by
    intro h hh
    obtain ⟨k, hk, rfl⟩ := List.mem_map.mp hh
    have := List.mem_range.mp hk
    omega
  have hlen : ((List.range handlers.length).map (fun k => s3.next + k)).length = handlers.length := by simp
  have hnd := nodup_map_add s3.next handlers.length
  generalize (List.range handlers.length).map (fun k => s3.next + k) = hbs at hmem hlen hnd hcov ⊢
  have hcur := w.cur
  have i0 : Inv s3.cur 0 s3 s3 := Inv.refl w (Or.inl rfl)
  have i4 := ((i0.bumpN handlers.length).setExcs (x := { fin := cfin, handlers := hbs, processingFinally := false } :: X0) (by
    intro cx hcx
    rcases List.mem_cons.mp hcx with rfl | hcx
    · exact ⟨fun g hg => by have := hcf g hg; ob, fun h hh => by have := hmem h hh; ob⟩
    · exact ⟨fun g hg => by have := (hx0 cx hcx).1 g hg; ob, fun h hh => by have := (hx0 cx hcx).2 h hh; ob⟩)).setCur
      (x := tryB) (by ob) (by ob)
  have hj := procList_frame body _ i4.wf tryB (s3.next + handlers.length) (Or.inl rfl) (by ob)
  obtain ⟨j5, sm5⟩ := hj
  have hj0 := procList_frame body _ i4.wf s3.cur 0 (Or.inr (Nat.zero_le _)) (Nat.zero_le _)
  obtain ⟨j50, _⟩ := hj0
  have hown := j5.own
  have hjn := j5.next_le
  have hjc := j5.wf.cur
  have k5' := j50.edgeUnlessExit (b := nat) (t := .normal) j50.own hjc (by ob)
  obtain ⟨k6, sm6, hn6, hc6⟩ := foldl_edges_frame (c := s3.cur) (n := 0) tryB .exc hbs _ k5' (Or.inr (Nat.zero_le _)) (by ob)
    (fun h hh => by have := hmem h hh; ob)
  obtain ⟨j7, sm7⟩ := handlers_frame (c := s3.cur) (n := 0) (frame_all N).1 (frame_all N).2 handlers hbs _ ah hhz k6.wf
    (Or.inr (Nat.zero_le _)) (Nat.zero_le _) (fun h hh => by have := hmem h hh; rw [hn6]; exact ⟨Or.inr (Nat.zero_le _), by ob⟩) (by rw [hn6]; ob)
  have hc6' := Cov.of_inv j7 hcov
  obtain ⟨eh, hc5e⟩ := foldl_edge_cov tryB .exc hbs _ hc6'
  obtain ⟨f5, hc5⟩ := (cov_eue ..).mp hc5e
  have hp := ih body hbz il f _ i4.wf (hi hbs) hokb hc5 (Entry.mk' hrt ((nt_setCur ..).mpr ((nt_setExcs ..).mpr ((nt_bumpN ..).mpr htu.nt))))
  have hl6 : (hbs.foldl (fun st h => st.edge tryB h .exc)
      ((procList (setCur (setExcs (bumpN s3 handlers.length) ({ fin := cfin, handlers := hbs, processingFinally := false } :: X0)) tryB) body).edgeUnlessExit
        (procList (setCur (setExcs (bumpN s3 handlers.length) ({ fin := cfin, handlers := hbs, processingFinally := false } :: X0)) tryB) body).cur
        nat .normal)).loops = s3.loops := by
    rw [sm6.loops]; simp only [edgeUnlessExit_loops, sm5.loops]; rfl
  have hx6 : (hbs.foldl (fun st h => st.edge tryB h .exc)
      ((procList (setCur (setExcs (bumpN s3 handlers.length) ({ fin := cfin, handlers := hbs, processingFinally := false } :: X0)) tryB) body).edgeUnlessExit
        (procList (setCur (setExcs (bumpN s3 handlers.length) ({ fin := cfin, handlers := hbs, processingFinally := false } :: X0)) tryB) body).cur
        nat .normal)).excs = { fin := cfin, handlers := hbs, processingFinally := false } :: X0 := by
    rw [sm6.excs]; simp only [edgeUnlessExit_excs, sm5.excs]; rfl
  have hu6 : ∀ m, m < s3.next + handlers.length → m ≠ tryB → Untouched s3 m →
      Untouched (hbs.foldl (fun st h => st.edge tryB h .exc)
      ((procList (setCur (setExcs (bumpN s3 handlers.length) ({ fin := cfin, handlers := hbs, processingFinally := false } :: X0)) tryB) body).edgeUnlessExit
        (procList (setCur (setExcs (bumpN s3 handlers.length) ({ fin := cfin, handlers := hbs, processingFinally := false } :: X0)) tryB) body).cur
        nat .normal)) m := by
    intro m hm1 hm2 hu
    refine foldl_edge_unt tryB .exc (fun h => hm2 h.symm) hbs _ (Untouched.eue (by ob) (j5.untouched hm2 hm1 ?_))
    simp only [unt_setCur, unt_setExcs, unt_bumpN]
    exact hu
  obtain ⟨r1, r2, r3, r4, _⟩ := handlers_sound3 ih il f ah handlers hbs _ hhz k6.wf ((hi hbs).cast hl6.symm hx6.symm) hokh hlen hnd
    (fun hb hm => by
      have := hmem hb hm
      exact ⟨by rw [hn6]; ob, hu6 hb this.2 (by omega) (w.untouched this.1), R.step hrt (eh hb hm)⟩) (by rw [hn6]; ob) hcov
  refine ⟨hp.lines, r1, fun hn => ?_, r2, hp.exits, r3.cast hl6 hx6, ?_⟩
  · have he5 := hp.normal hn
    exact R.step he5.reach (f5 he5.noExit)
  · intro m hm1 hm2 hu
    exact r4 m (by rw [hn6]; ob) (fun hb hm => by have := hmem hb hm; omega) (hu6 m (by omega) hm2 hu)

theorem tryElse_sound3 (ih : ∀ ss, sizeL ss ≤ N → QL3 E S ss) (orelse : List Stmt) (hsz : sizeL orelse ≤ N) (il f : Bool) (s7 : St) (elseB ah : Nat)
    (w : WF s7) (hi : I3 E il f s7.loops s7.excs) (hok : okL3 il f orelse = true) (hel : elseB < s7.next) (heu : Untouched s7 elseB)
    (hre : R E elseB) (hcov : Cov E S (tryElse s7 true elseB ah orelse)) :
    (∀ l ∈ (sxL orelse).lines, Good E S l) ∧ ((sxL orelse).ex.normal = true → R E ah) ∧
    Exits E s7.loops s7.excs (sxL orelse).ex.brk (sxL orelse).ex.cont (sxL orelse).ex.ret (sxL orelse).ex.raise ∧
    (∀ m, m < s7.next → m ≠ elseB → Untouched s7 m → Untouched (tryElse s7 true elseB ah orelse) m) := by
  unfold tryElse at hcov ⊢
  simp only [↓reduceIte] at hcov ⊢
  have hcur := w.cur
  have i0 : Inv s7.cur 0 s7 s7 := Inv.refl w (Or.inl rfl)
  have i1 := i0.setCur (x := elseB) (by ob) hel
  have hj := procList_frame orelse _ i1.wf elseB s7.next (Or.inl rfl) (Nat.le_refl _)
  obtain ⟨j, sm⟩ := hj
  have hown := j.own
  obtain ⟨f1, hc1⟩ := (cov_eue ..).mp hcov
  have hp := ih orelse hsz il f _ i1.wf hi hok hc1 (Entry.mk' hre ((nt_setCur ..).mpr heu.nt))
  refine ⟨hp.lines, fun hn => ?_, hp.exits, ?_⟩
  · have he1 := hp.normal hn
    exact R.step he1.reach (f1 he1.noExit)
  · intro m hm1 hm2 hu
    exact Untouched.eue (by ob) (j.untouched hm2 hm1 ((unt_setCur ..).mpr hu))

theorem tryPre_facts (st : St) (hasFin hasElse : Bool) :
    (tryPre st hasFin hasElse).1.edges = (st.cur, st.next, .normal) :: st.edges ∧ (tryPre st hasFin hasElse).1.stmts = st.stmts ∧
    (tryPre st hasFin hasElse).1.loops = st.loops ∧ (tryPre st hasFin hasElse).1.excs = st.excs ∧ (tryPre st hasFin hasElse).1.cur = st.cur ∧
    st.next + 2 ≤ (tryPre st hasFin hasElse).1.next ∧
    (hasFin = true → st.next + 2 ≤ (tryPre st hasFin hasElse).2.1 ∧ (tryPre st hasFin hasElse).2.1 < (tryPre st hasFin hasElse).1.next) ∧
    (hasElse = true → st.next + 2 ≤ (tryPre st hasFin hasElse).2.2 ∧ (tryPre st hasFin hasElse).2.2 < (tryPre st hasFin hasElse).1.next) ∧
    (hasFin = true → hasElse = true → (tryPre st hasFin hasElse).2.1 ≠ (tryPre st hasFin hasElse).2.2) := by
  unfold tryPre
  cases hasFin <;> cases hasElse <;> simp [bump, St.edge]

theorem tryElse_unt (orelse : List Stmt) (s7 : St) (hasElse : Bool) (elseB ah : Nat) (w : WF s7) (hel : hasElse = true → elseB < s7.next) :
    ∀ m, m < s7.next → (hasElse = true → m ≠ elseB) → Untouched s7 m → Untouched (tryElse s7 hasElse elseB ah orelse) m := by
  intro m hm1 hm2 hu
  unfold tryElse
  cases hasElse
  · exact hu
  · simp only [↓reduceIte]
    have hcur := w.cur
    have i0 : Inv s7.cur 0 s7 s7 := Inv.refl w (Or.inl rfl)
    have i1 := i0.setCur (x := elseB) (by ob) (hel rfl)
    have hj := procList_frame orelse _ i1.wf elseB s7.next (Or.inl rfl) (Nat.le_refl _)
    obtain ⟨j, sm⟩ := hj
    have hown := j.own
    have := hm2 rfl
    exact Untouched.eue (by ob) (j.untouched (hm2 rfl) hm1 ((unt_setCur ..).mpr hu))

theorem try_sound3 (ih : ∀ ss, sizeL ss ≤ N → QL3 E S ss) (body handlers orelse fin : List Stmt) (hbz : sizeL body ≤ N) (hhz : sizeL handlers ≤ N)
    (hoz : sizeL orelse ≤ N) (hfz : sizeL fin ≤ N) (s e : Nat) : QS3 E S (.try_ s e body handlers orelse fin) := by
  intro il f st w hi hok hcov he
  rw [procStmt_try, procTry_eq'] at hcov ⊢
  rw [okS3_try] at hok
  simp only [Bool.and_eq_true] at hok
  obtain ⟨⟨⟨hokb, hokh⟩, hoke⟩, hokf⟩ := hok
  rw [sxS_try]
  simp only [] at hcov ⊢
  obtain ⟨hasFin, hF⟩ : ∃ b, b = !fin.isEmpty := ⟨_, rfl⟩
  obtain ⟨hasElse, hE⟩ : ∃ b, b = !orelse.isEmpty := ⟨_, rfl⟩
  rw [← hF, ← hE] at hcov ⊢
  obtain ⟨q1, q2, q3, q4, q5, q6, q7, q8, q9⟩ := tryPre_facts st hasFin hasElse
  obtain ⟨k3, _⟩ := tryPre_frame (c := st.cur) (n := 0) st w (Or.inl rfl) (Nat.zero_le _) hasFin hasElse
  generalize tryPre st hasFin hasElse = p at *
  obtain ⟨s3, finB, elseB⟩ := p
  simp only at *
  generalize hnat : (if hasElse = true then elseB else if hasFin = true then finB else st.next + 1) = nat at hcov ⊢
  generalize hah : (if hasFin = true then finB else st.next + 1) = ah at hcov hnat ⊢
  generalize hcfin : (if hasFin = true then some finB else none) = cfin at hcov ⊢
  have hcur := w.cur
  have h2 := w.two
  have w3 := k3.wf
  have hahl : ah < s3.next := by
    rw [← hah]; cases hasFin
    · simp only [Bool.false_eq_true, ↓reduceIte]; omega
    · simp only [↓reduceIte]; exact (q7 rfl).2
  have hnatl : nat < s3.next := by
    rw [← hnat]; cases hasElse
    · simp only [Bool.false_eq_true, ↓reduceIte]; exact hahl
    · simp only [↓reduceIte]; exact (q8 rfl).2
  have hcf : ∀ g, cfin = some g → g < s3.next := by
    intro g hg; rw [← hcfin] at hg; cases hasFin
    · simp at hg
    · simp only [↓reduceIte, Option.some.injEq] at hg; subst hg; exact (q7 rfl).2
  have hx0 := w.excs_le (m := s3.next) (by omega)
  obtain ⟨k7, l7, x7, hn7⟩ := tryMid_frame (c := s3.cur) (n := 0) (frame_all N).1 (frame_all N).2 body handlers hbz hhz
    (Inv.refl w3 (Or.inl rfl)) (Nat.zero_le _) st.next (Or.inr (Nat.zero_le _)) (by omega) cfin hcf st.excs hx0 nat ah hnatl hahl
  obtain ⟨k8, sm8, hn8⟩ := tryElse_frame (c := s3.cur) (n := 0) (frame_all N).2 orelse hoz (Inv.refl k7.wf (Or.inr (Nat.zero_le _))) (Nat.zero_le _)
    hasElse elseB ah (fun h => ⟨Nat.zero_le _, by have := (q8 h).2; omega⟩) (by omega)
  have hex8 : (tryElse (tryMid s3 st.next cfin st.excs nat ah body handlers) hasElse elseB ah orelse).excs =
      { fin := cfin, handlers := (List.range handlers.length).map (fun k => s3.next + k), processingFinally := false } :: st.excs := by
    rw [sm8.excs, x7]
  obtain ⟨k9, sm9, hn9⟩ := tryFin_frame (c := s3.cur) (n := 0) (frame_all N).2 fin hfz (Inv.refl k8.wf (Or.inr (Nat.zero_le _))) (Nat.zero_le _)
    hasFin finB (st.next + 1) _ st.excs hex8 (fun h => ⟨Nat.zero_le _, by have := (q7 h).2; omega⟩) (by omega)
  simp only [cov_setExcs, cov_setCur] at hcov
  have hc8 := Cov.of_inv k9 hcov
  have hc7 := Cov.of_inv k8 hc8
  have hc3 := Cov.of_inv k7 hc7
  have hrt : R E st.next := R.step he.reach (hc3.1 (st.cur, st.next, .normal) (by rw [q1]; exact List.mem_cons_self))
  have hu3 : ∀ m, st.next ≤ m → Untouched s3 m := by
    intro m hm
    refine ⟨fun x hx => ?_, fun r hr => ?_⟩
    · rw [q1] at hx
      rcases List.mem_cons.mp hx with rfl | hx
      · simp only; omega
      · exact (w.untouched hm).1 x hx
    · rw [q2] at hr; exact (w.untouched hm).2 r hr
  have hi3 : I3 E il f s3.loops st.excs := hi.cast q3.symm rfl
  obtain ⟨m1, m2, m3, m4, m5, m6, m7⟩ := tryMid_sound3 ih body handlers hbz hhz il f s3 st.next cfin st.excs nat ah w3 hcf hx0
    (fun hbs => hi3.push _ rfl) hokb hokh (by omega) (hu3 _ (Nat.le_refl _)) hrt hnatl hahl hc7
  have hl8 : (tryElse (tryMid s3 st.next cfin st.excs nat ah body handlers) hasElse elseB ah orelse).loops = st.loops :=
    sm8.loops.trans (l7.trans q3)
  -- untouched blocks survive up to the state after the else branch
  have hu8 : ∀ m, st.next < m → m < s3.next → (hasElse = true → m ≠ elseB) →
      Untouched (tryElse (tryMid s3 st.next cfin st.excs nat ah body handlers) hasElse elseB ah orelse) m := by
    intro m hm1 hm2 hm3
    exact tryElse_unt orelse _ hasElse elseB ah k7.wf (fun h => by have := (q8 h).2; omega) m (by omega) hm3
      (m7 m hm2 (by omega) (hu3 m (by omega)))
  -- the else branch
  have elP : (sxL body).ex.normal = true → (∀ l ∈ (sxL orelse).lines, Good E S l) ∧ ((sxL orelse).ex.normal = true → R E ah) ∧
      Exits E s3.loops ({ fin := cfin, handlers := (List.range handlers.length).map (fun k => s3.next + k), processingFinally := false } :: st.excs)
        (sxL orelse).ex.brk (sxL orelse).ex.cont (sxL orelse).ex.ret (sxL orelse).ex.raise := by
    intro hn
    have hrn := m3 hn
    cases hasElse
    · have : orelse = [] := by
        rcases orelse with _ | ⟨o, os⟩
        · rfl
        · simp at hE
      subst this
      simp only [Bool.false_eq_true, ↓reduceIte] at hnat
      rw [sxL_nil]
      exact ⟨(fun l h => by cases h), fun _ => hnat ▸ hrn, Exits.nil⟩
    · simp only [↓reduceIte] at hnat
      obtain ⟨a1, a2, a3, _⟩ := tryElse_sound3 ih orelse hoz il f _ elseB ah k7.wf ((hi3.push _ rfl).cast l7.symm x7.symm) hoke
        (by have := (q8 rfl).2; omega) (m7 elseB (q8 rfl).2 (by have := (q8 rfl).1; omega) (hu3 elseB (by have := (q8 rfl).1; omega)))
        (hnat ▸ hrn) hc8
      exact ⟨a1, a2, a3.cast l7 x7⟩
  have elQ : (∀ l ∈ (if (sxL body).ex.normal = true then sxL orelse else ({} : SX)).lines, Good E S l) ∧
      ((if (sxL body).ex.normal = true then sxL orelse else ({} : SX)).ex.normal = true → R E ah) ∧
      Exits E s3.loops ({ fin := cfin, handlers := (List.range handlers.length).map (fun k => s3.next + k), processingFinally := false } :: st.excs)
        (if (sxL body).ex.normal = true then sxL orelse else ({} : SX)).ex.brk
        (if (sxL body).ex.normal = true then sxL orelse else ({} : SX)).ex.cont
        (if (sxL body).ex.normal = true then sxL orelse else ({} : SX)).ex.ret
        (if (sxL body).ex.normal = true then sxL orelse else ({} : SX)).ex.raise := by
    by_cases hn : (sxL body).ex.normal = true
    · simp only [if_pos hn]; exact elP hn
    · simp only [if_neg hn]; exact ⟨(fun l h => by cases h), ff, Exits.nil⟩
  have pn : ((if orelse.isEmpty = true then (sxL body).ex.normal else (if (sxL body).ex.normal = true then sxL orelse else ({} : SX)).ex.normal) ||
      (sxAlts handlers).ex.normal) = true → R E ah := by
    intro h
    rcases Bool.or_eq_true_iff.mp h with h | h
    · by_cases hoe : orelse.isEmpty = true
      · rw [if_pos hoe] at h
        have := (elP h).2.1
        rw [List.isEmpty_iff.mp hoe, sxL_nil] at this
        exact this rfl
      · rw [if_neg hoe] at h; exact elQ.2.1 h
    · exact m4 h
  generalize (if (sxL body).ex.normal = true then sxL orelse else ({} : SX)) = el at elQ pn ⊢
  cases hasFin
  · -- no finally
    have hfe : fin.isEmpty = true := by simpa using hF
    rw [if_pos hfe]
    simp only [Bool.false_eq_true, ↓reduceIte] at hah hcfin
    subst hah
    subst hcfin
    unfold tryFin
    simp only [Bool.false_eq_true, ↓reduceIte]
    refine ⟨lines_append (lines_append m1 m2) elQ.1, fun hn => Entry.mk' (pn hn) (Untouched.nt ?_), ?_⟩
    · simp only [setExcs_cur, setCur_cur, unt_setExcs, unt_setCur]
      exact hu8 (st.next + 1) (by omega) (by omega) (fun h => by have := (q8 h).1; omega)
    · exact Exits.pop hi rfl (((m5.or m6).or elQ.2.2).cast q3 rfl)
  · -- with finally
    have hfe : ¬ fin.isEmpty = true := by
      intro h; rw [h] at hF; cases hF
    rw [if_neg hfe]
    simp only [↓reduceIte] at hah hcfin
    subst hah
    subst hcfin
    have hokfin : okL3 il true fin = true := by
      have : fin.isEmpty = false := by simpa using hfe
      rw [this] at hokf
      simpa using hokf
    obtain ⟨hfb1, hfb2⟩ := q7 rfl
    -- the finally block is reachable
    have hrf : R E finB := by
      rcases exSome body il f hokb with hn | hr | hx | ⟨hil, hbc⟩
      · obtain ⟨_, a2, a3⟩ := elP hn
        rcases exSome orelse il f hoke with hn' | hr | hx | ⟨hil, hbc⟩
        · exact a2 hn'
        · exact Exits.toFin hi3 rfl rfl a3 (.inl hr)
        · exact Exits.toFin hi3 rfl rfl a3 (.inr (.inl hx))
        · exact Exits.toFin hi3 rfl rfl a3 (.inr (.inr ⟨hil, hbc⟩))
      · exact Exits.toFin hi3 rfl rfl m5 (.inl hr)
      · exact Exits.toFin hi3 rfl rfl m5 (.inr (.inl hx))
      · exact Exits.toFin hi3 rfl rfl m5 (.inr (.inr ⟨hil, hbc⟩))
    obtain ⟨t1, t2, t3, t4⟩ := tryFin_sound3 ih fin hfz il f _ finB (st.next + 1) _ st.excs k8.wf hex8 (hi.cast hl8.symm rfl) hokfin
      (by omega) (hu8 finB (by omega) hfb2 (fun h => q9 rfl h)) hrf (by omega)
      (hu8 (st.next + 1) (by omega) (by omega) (fun h => by have := (q8 h).1; omega)) (by omega) hcov
    refine ⟨lines_append (lines_append (lines_append m1 m2) elQ.1) t1, fun hn => Entry.mk' (t2 hn) (Untouched.nt ?_), t3.cast hl8 rfl⟩
    simp only [setExcs_cur, setCur_cur, unt_setExcs, unt_setCur]
    exact t4

theorem stmt_sound3 (ih : ∀ ss, sizeL ss ≤ N → QL3 E S ss) (x : Stmt) (hsz : x.size ≤ N + 1) : QS3 E S x := by
  cases x with
  | simple s e c h => exact simple_sound3 s e c h
  | ret s e c h => exact ret_sound3 s e c h
  | brk s e => exact brk_sound3 s e
  | cont s e => exact cont_sound3 s e
  | raise s e => exact raise_sound3 s e
  | def_ s e b => exact def_sound3 s e b
  | ite s e a b =>
    simp only [Stmt.size] at hsz
    intro il f st w hi hok hcov he
    rw [procStmt_ite] at hcov ⊢
    rw [sxS_ite]
    rw [okS3_ite, Bool.and_eq_true] at hok
    obtain ⟨r1, r2, r3, r4, r5⟩ := if_sound3 ih a b (by omega) (by omega) il f st s e w hi hok.1 hok.2 hcov he
    exact ⟨lines_cons r1 (lines_append r2 r3), r4, r5⟩
  | elifc s e a b =>
    simp only [Stmt.size] at hsz
    intro il f st w hi hok hcov he
    rw [procStmt_elifc] at hcov ⊢
    rw [sxS_elifc]
    rw [okS3_elifc, Bool.and_eq_true] at hok
    obtain ⟨_, r2, r3, r4, r5⟩ := if_sound3 ih a b (by omega) (by omega) il f st 0 0 w hi hok.1 hok.2 hcov he
    exact ⟨lines_append r2 r3, r4, r5⟩
  | elsec s e a =>
    simp only [Stmt.size] at hsz
    intro il f st w hi hok hcov he
    rw [procStmt_elsec] at hcov ⊢
    rw [sxS_elsec]
    rw [okS3_elsec] at hok
    exact ih a (by omega) il f st w hi hok hcov he
  | loop s e a b =>
    simp only [Stmt.size] at hsz
    exact loop_sound3 ih a b (by omega) (by omega) s e
  | try_ s e a b c d =>
    simp only [Stmt.size] at hsz
    exact try_sound3 ih a b c d (by omega) (by omega) (by omega) (by omega) s e
  | handler s e a => intro il f st w hi hok; rw [okS3_handler] at hok; cases hok
  | with_ s e a =>
    simp only [Stmt.size] at hsz
    exact with_sound3 ih a (by omega) s e
  | match_ s e cs =>
    simp only [Stmt.size] at hsz
    exact match_sound3 ih cs (by omega) s e
  | case_ s e a => intro il f st w hi hok; rw [okS3_case] at hok; cases hok
  | class_ s e a =>
    simp only [Stmt.size] at hsz
    exact class_sound3 ih a (by omega) s e

theorem nil_sound3 : QL3 E S [] := by
  intro il f st w hi hok hcov he
  rw [procList_nil, sxL_nil]
  exact ⟨(fun l h => by cases h), fun _ => he, Exits.nil⟩

theorem list_sound3 (ihS : ∀ x : Stmt, x.size ≤ N → QS3 E S x) (ihL : ∀ ss, sizeL ss ≤ N → QL3 E S ss) (ss : List Stmt) (hsz : sizeL ss ≤ N + 1) :
    QL3 E S ss := by
  rcases ss with _ | ⟨x, xs⟩
  · exact nil_sound3
  · intro il f st w hi hok hcov he
    simp only [sizeL] at hsz
    rw [procList_cons] at hcov ⊢
    rw [sxL_cons]
    rw [okL3_cons, Bool.and_eq_true] at hok
    obtain ⟨j1, sm1⟩ := procStmt_frame x st w st.cur 0 (Or.inl rfl) (Nat.zero_le _)
    obtain ⟨j2, _⟩ := procList_frame xs _ j1.wf st.cur 0 (Or.inr (Nat.zero_le _)) (Nat.zero_le _)
    have hc1 := Cov.of_inv j2 hcov
    have hp1 := ihS x (by omega) il f st w hi hok.1 hc1 he
    by_cases hn : (sxS x).ex.normal = true
    · rw [if_pos hn]
      have hp2 := ihL xs (by omega) il f _ j1.wf (hi.cast sm1.loops.symm sm1.excs.symm) hok.2 hcov (hp1.normal hn)
      exact ⟨lines_append hp1.lines hp2.lines, hp2.normal, hp1.exits.or (hp2.exits.cast sm1.loops sm1.excs)⟩
    · rw [if_neg hn]
      exact ⟨hp1.lines, fun h => absurd h hn, hp1.exits⟩

end compound3

theorem sound_all3 (E : List Edge) (S : List SRec) : ∀ N, (∀ x : Stmt, x.size ≤ N → QS3 E S x) ∧ (∀ ss, sizeL ss ≤ N → QL3 E S ss) := by
  intro N
  induction N with
  | zero =>
    constructor
    · intro x hsz; have := Stmt.size_pos x; omega
    · intro ss hsz
      rcases ss with _ | ⟨x, xs⟩
      · exact nil_sound3
      · simp only [sizeL] at hsz; omega
  | succ N ih => exact ⟨fun x hx => stmt_sound3 ih.2 x hx, fun ss hs => list_sound3 ih.1 ih.2 ss hs⟩

end sound3

/-- **Soundness of the builder mirror for statement lists, with `try`** (stage S3). -/
theorem sound_list3 : ∀ (ss : List Stmt) (il f : Bool) (st : St) (E : List Edge) (S : List SRec), WF st → I3 E il f st.loops st.excs → okL3 il f ss = true →
    (∀ e ∈ (procList st ss).edges, e ∈ E) → (∀ r ∈ (procList st ss).stmts, r ∈ S) →
      Entry E st → Post3 E S st.loops st.excs (procList st ss) (sxL ss) := by
  intro ss il f st E S w hi hok h1 h2 he
  exact (sound_all3 E S (sizeL ss)).2 ss (Nat.le_refl _) il f st w hi hok ⟨h1, h2⟩ he

/-! ### `live ≤ sx` on the fragment with `try` -/
theorem le_cases3 {N : Nat} (il f : Bool) (ihL : ∀ ss, sizeL ss ≤ N → ∀ il f, okL3 il f ss = true → LE (live ss) (sxL ss)) :
    ∀ cs : List Stmt, sizeL cs ≤ N →
    okCases3 il f cs = true → LE (liveAlts cs) (sxAlts cs) ∧ ∀ l ∈ cs.map Stmt.line, l ∈ (sxAlts cs).lines := by
  intro cs
  induction cs with
  | nil =>
    intro _ _
    rw [liveAlts, sxAlts_nil]
    exact ⟨⟨Lsub.nil, (fun h => by cases h), (fun h => by cases h), (fun h => by cases h)⟩, (fun l h => by cases h)⟩
  | cons x cs ih =>
    intro hsz hok
    obtain ⟨s, e, a, rfl, h1, h2⟩ := okCases3_cons hok
    simp only [sizeL, Stmt.size] at hsz
    obtain ⟨hle, hl⟩ := ih (by omega) h2
    have ha := ihL a (by omega) il f h1
    rw [liveAlts, sxAlts_cons, liveS, sxS_case]
    refine ⟨⟨(ha.lines.cons s).append hle.lines, ?_, ?_, ?_⟩, ?_⟩
    · exact or_imp ha.normal hle.normal
    · exact or_imp ha.brk hle.brk
    · exact or_imp ha.cont hle.cont
    · intro l hm
      simp only [List.map_cons, List.mem_cons, Stmt.line] at hm
      rcases hm with rfl | hm
      · exact List.mem_append.mpr (.inl List.mem_cons_self)
      · exact List.mem_append.mpr (.inr (hl l hm))

theorem le_hs3 {N : Nat} (il f : Bool) (ihL : ∀ ss, sizeL ss ≤ N → ∀ il f, okL3 il f ss = true → LE (live ss) (sxL ss)) :
    ∀ hs : List Stmt, sizeL hs ≤ N → okHs3 il f hs = true → LE (liveAlts hs) (sxAlts hs) := by
  intro hs
  induction hs with
  | nil =>
    intro _ _
    rw [liveAlts, sxAlts_nil]
    exact ⟨Lsub.nil, (fun h => by cases h), (fun h => by cases h), (fun h => by cases h)⟩
  | cons x hs ih =>
    intro hsz hok
    obtain ⟨s, e, a, rfl, h1, h2⟩ := okHs3_cons hok
    simp only [sizeL, Stmt.size] at hsz
    have hle := ih (by omega) h2
    have ha := ihL a (by omega) il f h1
    rw [liveAlts, sxAlts_cons, liveS, sxS_handler]
    exact ⟨(ha.lines.cons s).append hle.lines, or_imp ha.normal hle.normal, or_imp ha.brk hle.brk, or_imp ha.cont hle.cont⟩

theorem le_stmt3 {N : Nat} (ihL : ∀ ss, sizeL ss ≤ N → ∀ il f, okL3 il f ss = true → LE (live ss) (sxL ss)) (x : Stmt) (hsz : x.size ≤ N + 1)
    (il f : Bool) (hok : okS3 il f x = true) : LE (liveS x) (sxS x) := by
  cases x with
  | simple s e c h => rw [liveS, sxS_simple]; exact ⟨(Lsub.nil).cons s, fun _ => rfl, ff, ff⟩
  | def_ s e b => rw [liveS, sxS_def]; exact ⟨(Lsub.nil).cons s, fun _ => rfl, ff, ff⟩
  | ret s e c h => rw [liveS, sxS_ret]; exact ⟨(Lsub.nil).cons s, ff, ff, ff⟩
  | brk s e => rw [liveS, sxS_brk]; exact ⟨(Lsub.nil).cons s, ff, fun _ => rfl, ff⟩
  | cont s e => rw [liveS, sxS_cont]; exact ⟨(Lsub.nil).cons s, ff, ff, fun _ => rfl⟩
  | raise s e => rw [liveS, sxS_raise]; exact ⟨(Lsub.nil).cons s, ff, ff, ff⟩
  | ite s e a b =>
    simp only [Stmt.size] at hsz
    rw [okS3_ite, Bool.and_eq_true] at hok
    have ha := ihL a (by omega) il f hok.1
    have hb := ihL b (by omega) il f hok.2
    rw [liveS, sxS_ite]
    exact ⟨(ha.lines.append hb.lines).cons s, or_imp ha.normal hb.normal, or_imp ha.brk hb.brk, or_imp ha.cont hb.cont⟩
  | elifc s e a b =>
    simp only [Stmt.size] at hsz
    rw [okS3_elifc, Bool.and_eq_true] at hok
    have ha := ihL a (by omega) il f hok.1
    have hb := ihL b (by omega) il f hok.2
    rw [liveS, sxS_elifc]
    exact ⟨(ha.lines.append hb.lines).cons_skip s, or_imp ha.normal hb.normal, or_imp ha.brk hb.brk, or_imp ha.cont hb.cont⟩
  | elsec s e a =>
    simp only [Stmt.size] at hsz
    rw [okS3_elsec] at hok
    rw [liveS, sxS_elsec]
    exact ihL a (by omega) il f hok
  | loop s e a b =>
    simp only [Stmt.size] at hsz
    rw [okS3_loop, Bool.and_eq_true] at hok
    have ha := ihL a (by omega) true f hok.1
    have hb := ihL b (by omega) il f hok.2
    rw [liveS, sxS_loop]
    exact ⟨(ha.lines.append hb.lines).cons s, or_imp ha.brk hb.normal, hb.brk, hb.cont⟩
  | try_ s e a hs c d =>
    simp only [Stmt.size] at hsz
    rw [okS3_try] at hok
    simp only [Bool.and_eq_true] at hok
    obtain ⟨⟨⟨hoka, hokh⟩, hokc⟩, hokd⟩ := hok
    have ha := ihL a (by omega) il f hoka
    have hh := le_hs3 il f ihL hs (by omega) hokh
    have hc := ihL c (by omega) il f hokc
    rw [liveS, sxS_try]
    simp only []
    -- the handler part and the else part
    have hH : LE (if (live a).outs.exc = true then liveAlts hs else {}) (sxAlts hs) := by
      split
      · exact hh
      · exact ⟨Lsub.nil, ff, ff, ff⟩
    have hEl : LE (if (live a).outs.normal = true then live c else {}) (if (sxL a).ex.normal = true then sxL c else {}) := by
      by_cases hn : (live a).outs.normal = true
      · rw [if_pos hn, if_pos (ha.normal hn)]; exact hc
      · rw [if_neg hn]; exact ⟨Lsub.nil, ff, ff, ff⟩
    have hEn : (if (live a).outs.normal = true then live c else {}).outs.normal = true →
        (if c.isEmpty = true then (sxL a).ex.normal else (if (sxL a).ex.normal = true then sxL c else ({} : SX)).ex.normal) = true := by
      intro h
      by_cases hn : (live a).outs.normal = true
      · by_cases hce : c.isEmpty = true
        · rw [if_pos hce]; exact ha.normal hn
        · rw [if_neg hce]; exact hEl.normal h
      · rw [if_neg hn] at h; cases h
    generalize (if (live a).outs.exc = true then liveAlts hs else ({} : PV.Py.R)) = lh at hH ⊢
    generalize (if (live a).outs.normal = true then live c else ({} : PV.Py.R)) = lel at hEl hEn ⊢
    have hlines : Lsub ((live a).lines ++ lh.lines ++ lel.lines)
        ((sxL a).lines ++ (sxAlts hs).lines ++ (if (sxL a).ex.normal = true then sxL c else ({} : SX)).lines)
        ((sxL a).skipped ++ (sxAlts hs).skipped ++ (if (sxL a).ex.normal = true then sxL c else ({} : SX)).skipped) :=
      (ha.lines.append hH.lines).append hEl.lines
    split
    · next hde =>
      refine ⟨hlines, ?_, ?_, ?_⟩
      · intro h
        simp only [Outs.union, Outs.nonNormal, Bool.false_or, Bool.or_eq_true] at h
        simp only [Bool.or_eq_true]
        rcases h with h | h
        · exact .inr (hH.normal h)
        · exact .inl (hEn h)
      · intro h
        simp only [Outs.union, Outs.nonNormal, Bool.or_eq_true] at h
        simp only [Bool.or_eq_true]
        rcases h with (h | h) | h
        · exact .inl (.inl (ha.brk h))
        · exact .inl (.inr (hH.brk h))
        · exact .inr (hEl.brk h)
      · intro h
        simp only [Outs.union, Outs.nonNormal, Bool.or_eq_true] at h
        simp only [Bool.or_eq_true]
        rcases h with (h | h) | h
        · exact .inl (.inl (ha.cont h))
        · exact .inl (.inr (hH.cont h))
        · exact .inr (hEl.cont h)
    · next hde =>
      have hdf : d.isEmpty = false := by simpa using hde
      rw [hdf] at hokd
      simp only [Bool.false_or] at hokd
      have hd := ihL d (by omega) il true hokd
      refine ⟨hlines.append hd.lines, ?_, fun _ => rfl, fun _ => rfl⟩
      intro h
      unfold Outs.afterFinally at h
      by_cases hfn : (live d).outs.normal = true
      · exact hd.normal hfn
      · rw [if_neg hfn] at h
        simp [Outs.nonNormal] at h
  | handler s e a => rw [okS3_handler] at hok; cases hok
  | with_ s e a =>
    simp only [Stmt.size] at hsz
    rw [okS3_with] at hok
    have ha := ihL a (by omega) il f hok
    rw [liveS, sxS_with]
    exact ⟨ha.lines.cons s, fun _ => rfl, ha.brk, ha.cont⟩
  | match_ s e cs =>
    simp only [Stmt.size] at hsz
    rw [okS3_match] at hok
    obtain ⟨hle, hl⟩ := le_cases3 il f ihL cs (by omega) hok
    rw [liveS, sxS_match]
    refine ⟨?_, fun _ => rfl, ?_, ?_⟩
    · have h1 : Lsub (cs.map Stmt.line ++ (liveAlts cs).lines) (sxAlts cs).lines (sxAlts cs).skipped := by
        intro l hm
        rcases List.mem_append.mp hm with h | h
        · exact .inl (hl l h)
        · exact hle.lines l h
      exact h1.cons s
    · intro h; exact hle.brk (by simpa [Outs.union] using h)
    · intro h; exact hle.cont (by simpa [Outs.union] using h)
  | case_ s e a => rw [okS3_case] at hok; cases hok
  | class_ s e a =>
    simp only [Stmt.size] at hsz
    rw [okS3_class] at hok
    have ha := ihL a (by omega) false f hok
    rw [liveS, sxS_class]
    refine ⟨ha.lines.cons s, ?_, ?_, ?_⟩
    · intro h; exact ha.normal (by simpa [Outs.union] using h)
    · intro h; exact ha.brk (by simpa [Outs.union] using h)
    · intro h; exact ha.cont (by simpa [Outs.union] using h)

theorem le_all3 : ∀ N, ∀ ss, sizeL ss ≤ N → ∀ il f, okL3 il f ss = true → LE (live ss) (sxL ss) := by
  intro N
  induction N with
  | zero =>
    intro ss hsz il f _
    rcases ss with _ | ⟨x, xs⟩
    · rw [PV.C01.live_nil, sxL_nil]; exact ⟨Lsub.nil, fun _ => rfl, ff, ff⟩
    · simp only [sizeL] at hsz; omega
  | succ N ih =>
    intro ss hsz il f hok
    rcases ss with _ | ⟨x, xs⟩
    · rw [PV.C01.live_nil, sxL_nil]; exact ⟨Lsub.nil, fun _ => rfl, ff, ff⟩
    · simp only [sizeL] at hsz
      rw [okL3_cons, Bool.and_eq_true] at hok
      have hx := le_stmt3 ih x (by omega) il f hok.1
      have hxs := ih xs (by omega) il f hok.2
      rw [PV.C01.live_cons, sxL_cons]
      by_cases hn : (liveS x).outs.normal = true
      · rw [if_pos hn, if_pos (hx.normal hn)]
        exact ⟨hx.lines.append hxs.lines, fun h => hxs.normal (by simpa [Outs.union, Outs.nonNormal] using h),
          or_imp hx.brk hxs.brk, or_imp hx.cont hxs.cont⟩
      · rw [if_neg hn]
        by_cases hs : (sxS x).ex.normal = true
        · rw [if_pos hs]
          refine ⟨?_, fun h => absurd h hn, fun h => ?_, fun h => ?_⟩
          · intro l hl
            rcases hx.lines l hl with h | h
            · exact .inl (List.mem_append.mpr (.inl h))
            · exact .inr (List.mem_append.mpr (.inl h))
          · show ((sxS x).ex.brk || (sxL xs).ex.brk) = true
            rw [hx.brk h]; rfl
          · show ((sxS x).ex.cont || (sxL xs).ex.cont) = true
            rw [hx.cont h]; rfl
        · rw [if_neg hs]; exact hx

theorem live_le_sx3 : ∀ (ss : List Stmt) (il f : Bool), okL3 il f ss = true →
    (∀ l ∈ (live ss).lines, l ∈ (sxL ss).lines ∨ l ∈ (sxL ss).skipped) ∧
    ((live ss).outs.normal = true → (sxL ss).ex.normal = true) ∧ ((live ss).outs.brk = true → (sxL ss).ex.brk = true) ∧
    ((live ss).outs.cont = true → (sxL ss).ex.cont = true) := by
  intro ss il f hok
  have h := le_all3 (sizeL ss) ss (Nat.le_refl _) il f hok
  exact ⟨h.lines, h.normal, h.brk, h.cont⟩

/-- **Soundness of the mirror for one definition, with `try`** (stage S3). -/
theorem build_sound3 (k : Kind) (s e : Nat) (body : List Stmt) (hok : okL3 false false body = true) :
    ∀ l ∈ (sxL body).lines, ∃ r ∈ (build k s e body).stmts, r.s = l ∧ r.blk ∈ reachable (build k s e body) := by
  intro l hl
  have ipre := preB_inv k s e
  obtain ⟨j, sm⟩ := procList_frame body _ ipre.wf 0 0 (Or.inr (Nat.zero_le _)) (Nat.zero_le _)
  have hsub : Sub (procList (preB k s e) body) (build k s e body) := by
    rw [build_eq]; unfold finishB
    split
    · exact ⟨fun x h => List.mem_cons_of_mem _ h, fun _ h => h⟩
    · exact Sub.refl _
  have hx : (preB k s e).excs = [] := by cases k <;> rfl
  have hlp : (preB k s e).loops = [] := by cases k <;> rfl
  have hi : I3 (build k s e body).edges false false (preB k s e).loops (preB k s e).excs := by
    rw [hx, hlp]
    exact ⟨ff, trivial, (fun _ _ _ _ h => by cases h)⟩
  have hpost := sound_list3 body false false (preB k s e) (build k s e body).edges (build k s e body).stmts ipre.wf hi hok
    hsub.1 hsub.2 (preB_entry k s e (fun x h => hsub.1 x (j.sub.1 x h)))
  obtain ⟨r, hr, hrs, hrr⟩ := hpost.lines l hl
  refine ⟨r, hr, hrs, ?_⟩
  have hwf : WF (build k s e body) := by
    rw [build_eq]; unfold finishB
    have h2 := j.wf.two
    have hc := j.wf.cur
    split
    · exact (j.edge (a := (procList (preB k s e) body).cur) (b := exitB) (t := .normal) (Or.inr (Nat.zero_le _)) hc (by unfold exitB; omega)).wf
    · exact j.wf
  exact reachable_complete _ (by have := hwf.two; omega) hwf.edges hrr

/-- **Soundness of the mirror against the semantics, with `try`** (stage S3). -/
theorem mirror_sound3 (k : Kind) (s e : Nat) (body : List Stmt) (hok : okL3 false false body = true) {o : Out} {tr : List Nat}
    (ex : Exec body o tr) :
    ∀ l ∈ tr, l ∈ (sxL body).skipped ∨ ∃ r ∈ (build k s e body).stmts, r.s = l ∧ r.blk ∈ reachable (build k s e body) := by
  intro l hl
  have h1 := (PV.C01.C01_live_sound ex).2 l hl
  rcases (live_le_sx3 body false false hok).1 l h1 with h | h
  · exact .inr (build_sound3 k s e body hok l h)
  · exact .inl h

/-- the stage-S2 fragment is contained in the stage-S3 fragment -/
theorem okL_le_okL3 : ∀ N, (∀ x : Stmt, x.size ≤ N → ∀ il f, okS il x = true → okS3 il f x = true) ∧
    (∀ ss, sizeL ss ≤ N → ∀ il f, okL il ss = true → okL3 il f ss = true) ∧
    (∀ cs, sizeL cs ≤ N → ∀ il f, okCases il cs = true → okCases3 il f cs = true) := by
  intro N
  induction N with
  | zero =>
    refine ⟨fun x hx => by have := Stmt.size_pos x; omega, fun ss hs il f _ => ?_, fun cs hs il f _ => ?_⟩
    · rcases ss with _ | ⟨x, xs⟩
      · exact okL3_nil _ _
      · simp only [sizeL] at hs; omega
    · rcases cs with _ | ⟨x, xs⟩
      · exact okCases3_nil _ _
      · simp only [sizeL] at hs; omega
  | succ N ih =>
    obtain ⟨ihS, ihL, ihC⟩ := ih
    have hC : ∀ cs, sizeL cs ≤ N + 1 → ∀ il f, okCases il cs = true → okCases3 il f cs = true := by
      intro cs hs il f hok
      rcases cs with _ | ⟨x, xs⟩
      · exact okCases3_nil _ _
      · obtain ⟨s, e, a, rfl, h1, h2⟩ := okCases_cons hok
        simp only [sizeL, Stmt.size] at hs
        rw [okCases3_case, ihL a (by omega) il f h1, ihC xs (by omega) il f h2]; rfl
    refine ⟨fun x hx il f hok => ?_, fun ss hs il f hok => ?_, hC⟩
    · cases x with
      | simple s e c h => rw [okS3]
      | def_ s e b => rw [okS3]
      | ret s e c h => rw [okS3]
      | raise s e => rw [okS3]
      | brk s e => rw [okS_brk] at hok; rw [okS3_brk]; exact hok
      | cont s e => rw [okS_cont] at hok; rw [okS3_cont]; exact hok
      | ite s e a b =>
        simp only [Stmt.size] at hx
        rw [okS_ite, Bool.and_eq_true] at hok
        rw [okS3_ite, ihL a (by omega) il f hok.1, ihL b (by omega) il f hok.2]; rfl
      | elifc s e a b =>
        simp only [Stmt.size] at hx
        rw [okS_elifc, Bool.and_eq_true] at hok
        rw [okS3_elifc, ihL a (by omega) il f hok.1, ihL b (by omega) il f hok.2]; rfl
      | elsec s e a =>
        simp only [Stmt.size] at hx
        rw [okS_elsec] at hok
        rw [okS3_elsec]; exact ihL a (by omega) il f hok
      | loop s e a b =>
        simp only [Stmt.size] at hx
        rw [okS_loop, Bool.and_eq_true] at hok
        rw [okS3_loop, ihL a (by omega) true f hok.1, ihL b (by omega) il f hok.2]; rfl
      | try_ s e a b c d => rw [okS_try] at hok; cases hok
      | handler s e a => rw [okS_handler] at hok; cases hok
      | with_ s e a =>
        simp only [Stmt.size] at hx
        rw [okS_with] at hok
        rw [okS3_with]; exact ihL a (by omega) il f hok
      | match_ s e cs =>
        simp only [Stmt.size] at hx
        rw [okS_match] at hok
        rw [okS3_match]; exact ihC cs (by omega) il f hok
      | case_ s e a => rw [okS_case] at hok; cases hok
      | class_ s e a =>
        simp only [Stmt.size] at hx
        rw [okS_class] at hok
        rw [okS3_class]; exact ihL a (by omega) false f hok
    · rcases ss with _ | ⟨x, xs⟩
      · exact okL3_nil _ _
      · simp only [sizeL] at hs
        rw [okL_cons, Bool.and_eq_true] at hok
        rw [okL3_cons, ihS x (by omega) il f hok.1, ihL xs (by omega) il f hok.2]; rfl

theorem okL3_of_okL (ss : List Stmt) (il f : Bool) (h : okL il ss = true) : okL3 il f ss = true :=
  (okL_le_okL3 (sizeL ss)).2.1 ss (Nat.le_refl _) il f h

end PV.CFGSound.S4

#print axioms PV.CFGSound.S4.sound_list3
#print axioms PV.CFGSound.S4.live_le_sx3
#print axioms PV.CFGSound.S4.build_sound3
#print axioms PV.CFGSound.S4.mirror_sound3
