import PV.Proofs.CFGRangesDefs
/-!
Range-level soundness for the heads of `elif` clauses — shared definitions.

* `spansL` / `spansS`: the spans `(s, e)` of all statements that get a LOCATED record (at any depth): everything except
  `try` (no record), `else` clauses (no record) and `elif` clauses (record `0..0`);
* `firstLoc`: the start line of the located statement a list begins with (looking through `try:`);
* `okEL` / `okES`: every `elif` clause has a then-branch that begins with a located statement.
-/
namespace PV.CFGSound
open PV.CFG

set_option linter.unusedSimpArgs false in
mutual
  def spansL : List Stmt → List (Nat × Nat)
    | [] => []
    | x :: xs => spansS x ++ spansL xs
  termination_by l => 2 * sizeL l
  decreasing_by
    all_goals (try simp_wf)
    all_goals (try simp only [Stmt.size, sizeL])
    all_goals omega
  def spansS : Stmt → List (Nat × Nat)
    | .simple s e _ _ | .ret s e _ _ | .brk s e | .cont s e | .raise s e | .def_ s e _ => [(s, e)]
    | .ite s e a b | .loop s e a b => (s, e) :: spansL a ++ spansL b
    | .elifc _ _ a b => spansL a ++ spansL b
    | .elsec _ _ a => spansL a
    | .handler s e a | .with_ s e a | .match_ s e a | .case_ s e a | .class_ s e a => (s, e) :: spansL a
    | .try_ _ _ a hs c d => spansL a ++ spansL hs ++ spansL c ++ spansL d
  termination_by x => 2 * x.size + 1
  decreasing_by
    all_goals (try simp_wf)
    all_goals (try simp only [Stmt.size, sizeL])
    all_goals omega
end

theorem spansL_nil : spansL [] = [] := by rw [spansL]
theorem spansL_cons (x : Stmt) (xs : List Stmt) : spansL (x :: xs) = spansS x ++ spansL xs := by rw [spansL]
theorem spansS_simple (s e : Nat) (c : List Bool) (h : Bool) : spansS (.simple s e c h) = [(s, e)] := by rw [spansS]
theorem spansS_ret (s e : Nat) (c : List Bool) (h : Bool) : spansS (.ret s e c h) = [(s, e)] := by rw [spansS]
theorem spansS_brk (s e : Nat) : spansS (.brk s e) = [(s, e)] := by rw [spansS]
theorem spansS_cont (s e : Nat) : spansS (.cont s e) = [(s, e)] := by rw [spansS]
theorem spansS_raise (s e : Nat) : spansS (.raise s e) = [(s, e)] := by rw [spansS]
theorem spansS_def (s e : Nat) (b : List Stmt) : spansS (.def_ s e b) = [(s, e)] := by rw [spansS]
theorem spansS_ite (s e : Nat) (a b : List Stmt) : spansS (.ite s e a b) = (s, e) :: spansL a ++ spansL b := by rw [spansS]
theorem spansS_loop (s e : Nat) (a b : List Stmt) : spansS (.loop s e a b) = (s, e) :: spansL a ++ spansL b := by rw [spansS]
theorem spansS_elifc (s e : Nat) (a b : List Stmt) : spansS (.elifc s e a b) = spansL a ++ spansL b := by rw [spansS]
theorem spansS_elsec (s e : Nat) (a : List Stmt) : spansS (.elsec s e a) = spansL a := by rw [spansS]
theorem spansS_handler (s e : Nat) (a : List Stmt) : spansS (.handler s e a) = (s, e) :: spansL a := by rw [spansS]
theorem spansS_with (s e : Nat) (a : List Stmt) : spansS (.with_ s e a) = (s, e) :: spansL a := by rw [spansS]
theorem spansS_match (s e : Nat) (a : List Stmt) : spansS (.match_ s e a) = (s, e) :: spansL a := by rw [spansS]
theorem spansS_case (s e : Nat) (a : List Stmt) : spansS (.case_ s e a) = (s, e) :: spansL a := by rw [spansS]
theorem spansS_class (s e : Nat) (a : List Stmt) : spansS (.class_ s e a) = (s, e) :: spansL a := by rw [spansS]
theorem spansS_try (s e : Nat) (a hs c d : List Stmt) :
    spansS (.try_ s e a hs c d) = spansL a ++ spansL hs ++ spansL c ++ spansL d := by rw [spansS]

/-- the start line of the located statement the list begins with (looking through `try:`) -/
def firstLoc : List Stmt → Option Nat
  | [] => none
  | .try_ _ _ a _ _ _ :: _ => firstLoc a
  | .elsec .. :: _ | .elifc .. :: _ => none
  | x :: _ => some x.span.1
termination_by l => sizeL l
decreasing_by
  all_goals (try simp_wf)
  all_goals (try simp only [Stmt.size, sizeL])
  all_goals omega

theorem firstLoc_nil : firstLoc [] = none := by rw [firstLoc]
theorem firstLoc_try (s e : Nat) (a hs c d xs : List Stmt) : firstLoc (.try_ s e a hs c d :: xs) = firstLoc a := by rw [firstLoc]
theorem firstLoc_elsec (s e : Nat) (a xs : List Stmt) : firstLoc (.elsec s e a :: xs) = none := by rw [firstLoc]
theorem firstLoc_elifc (s e : Nat) (a b xs : List Stmt) : firstLoc (.elifc s e a b :: xs) = none := by rw [firstLoc]
theorem firstLoc_other (x : Stmt) (xs : List Stmt) (h1 : ∀ s e a hs c d, x ≠ .try_ s e a hs c d) (h2 : ∀ s e a, x ≠ .elsec s e a)
    (h3 : ∀ s e a b, x ≠ .elifc s e a b) : firstLoc (x :: xs) = some x.span.1 := by
  cases x <;> first
    | exact absurd rfl (h1 _ _ _ _ _ _)
    | exact absurd rfl (h2 _ _ _)
    | exact absurd rfl (h3 _ _ _ _)
    | (rw [firstLoc] <;> first | rfl | (intros; simp_all))

set_option linter.unusedSimpArgs false in
mutual
  /-- every `elif` clause (at any depth) has a then-branch that begins with a located statement -/
  def okEL : List Stmt → Bool
    | [] => true
    | x :: xs => okES x && okEL xs
  termination_by l => 2 * sizeL l
  decreasing_by
    all_goals (try simp_wf)
    all_goals (try simp only [Stmt.size, sizeL])
    all_goals omega
  def okES : Stmt → Bool
    | .simple .. | .ret .. | .brk .. | .cont .. | .raise .. | .def_ .. => true
    | .elifc _ _ a b => (firstLoc a).isSome && okEL a && okEL b
    | .ite _ _ a b | .loop _ _ a b => okEL a && okEL b
    | .elsec _ _ a | .handler _ _ a | .with_ _ _ a | .match_ _ _ a | .case_ _ _ a | .class_ _ _ a => okEL a
    | .try_ _ _ a hs c d => okEL a && okEL hs && okEL c && okEL d
  termination_by x => 2 * x.size + 1
  decreasing_by
    all_goals (try simp_wf)
    all_goals (try simp only [Stmt.size, sizeL])
    all_goals omega
end

theorem okEL_nil : okEL [] = true := by rw [okEL]
theorem okEL_cons (x : Stmt) (xs : List Stmt) : okEL (x :: xs) = (okES x && okEL xs) := by rw [okEL]
theorem okES_elifc (s e : Nat) (a b : List Stmt) : okES (.elifc s e a b) = ((firstLoc a).isSome && okEL a && okEL b) := by rw [okES]
theorem okES_ite (s e : Nat) (a b : List Stmt) : okES (.ite s e a b) = (okEL a && okEL b) := by rw [okES]
theorem okES_loop (s e : Nat) (a b : List Stmt) : okES (.loop s e a b) = (okEL a && okEL b) := by rw [okES]
theorem okES_elsec (s e : Nat) (a : List Stmt) : okES (.elsec s e a) = okEL a := by rw [okES]
theorem okES_handler (s e : Nat) (a : List Stmt) : okES (.handler s e a) = okEL a := by rw [okES]
theorem okES_with (s e : Nat) (a : List Stmt) : okES (.with_ s e a) = okEL a := by rw [okES]
theorem okES_match (s e : Nat) (a : List Stmt) : okES (.match_ s e a) = okEL a := by rw [okES]
theorem okES_case (s e : Nat) (a : List Stmt) : okES (.case_ s e a) = okEL a := by rw [okES]
theorem okES_class (s e : Nat) (a : List Stmt) : okES (.class_ s e a) = okEL a := by rw [okES]
theorem okES_try (s e : Nat) (a hs c d : List Stmt) : okES (.try_ s e a hs c d) = (okEL a && okEL hs && okEL c && okEL d) := by rw [okES]

/-- what the static argument delivers for the head `l` of a live `elif` clause: a live located line `l₁` after it such that no
located statement starts at `l`, every located statement that starts before `l` and reaches `l` also covers `l₁`, and every
located statement after `l` starts at or after `l₁` -/
def ElifOK (spans : List (Nat × Nat)) (lines : List Nat) (l : Nat) : Prop :=
  ∃ l₁ ∈ lines, l < l₁ ∧ ∀ sp ∈ spans, sp.1 ≠ l ∧ (sp.1 < l → l ≤ sp.2 → l₁ ≤ sp.2) ∧ (l < sp.1 → l₁ ≤ sp.1)

end PV.CFGSound
