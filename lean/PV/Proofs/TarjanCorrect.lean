import PV.Model.Tarjan
import PV.Properties.C11
import Mathlib.Logic.Relation
import Mathlib.Data.List.Nodup
/-!
# Tarjan's algorithm (the executable mirror `PV.Tarjan`) emits exactly the strongly connected
components with at least two vertices — for every graph, no bound on the size.

The proof follows the functional formulation of Chen, Cohen, Lévy, Merz, Théry (ITP 2019) but needs no
ghost colouring: the invariant `Inv` speaks about the state only (visited / on the stack / done =
visited and popped), and the specification of one call (`Post`) describes the stack segment the call leaves
behind.
-/
namespace PV.Tarjan
open PV.SCC

/-! ## the graph seen by the algorithm -/

/-- an edge to a vertex of the graph -/
def E (g : G) (a b : Nat) : Prop := b < g.n ∧ (a, b) ∈ g.edges

/-- paths along such edges -/
abbrev R (g : G) : Nat → Nat → Prop := Relation.ReflTransGen (E g)

theorem mem_succs {g : G} {v w : Nat} : w ∈ succs g v ↔ E g v w := by
  unfold succs E
  simp [List.mem_filter, List.mem_range]

theorem R_reach {g : G} {u v : Nat} (h : R g u v) : Reach g u v := by
  induction h with
  | refl => exact Reach.refl _
  | tail _ he ih => exact Reach.step ih he.2

theorem reach_R {g : G} (hwf : ∀ e ∈ g.edges, e.2 < g.n) {u v : Nat} (h : Reach g u v) : R g u v := by
  induction h with
  | refl => exact Relation.ReflTransGen.refl
  | step _ he ih => exact Relation.ReflTransGen.tail ih ⟨hwf _ he, he⟩

/-- a set closed under edges is closed under paths -/
theorem closed_R {g : G} {D : Nat → Prop} (hD : ∀ a b, D a → E g a b → D b) {a b : Nat} (ha : D a)
    (h : R g a b) : D b := by
  induction h with
  | refl => exact ha
  | tail _ he ih => exact hD _ _ ih he

/-! ## sorting, popping -/

theorem ins_perm (a : Nat) (l : List Nat) : (ins a l).Perm (a :: l) := by
  induction l with
  | nil => exact List.Perm.refl _
  | cons b l ih =>
    unfold ins
    split
    · exact List.Perm.refl _
    · exact (List.Perm.cons b ih).trans (List.Perm.swap a b l)

theorem isort_perm (l : List Nat) : (isort l).Perm l := by
  induction l with
  | nil => exact List.Perm.refl _
  | cons a l ih => exact (ins_perm a _).trans (List.Perm.cons a ih)

theorem ins_sorted (a : Nat) (l : List Nat) (h : l.Pairwise (· ≤ ·)) : (ins a l).Pairwise (· ≤ ·) := by
  induction l with
  | nil => simp [ins]
  | cons b l ih =>
    unfold ins
    split
    · next hab =>
      refine List.Pairwise.cons ?_ h
      intro x hx
      rcases List.mem_cons.mp hx with rfl | hx
      · exact hab
      · exact Nat.le_trans hab (List.rel_of_pairwise_cons h hx)
    · next hab =>
      refine List.Pairwise.cons ?_ (ih (List.Pairwise.of_cons h))
      intro x hx
      rcases List.mem_cons.mp ((ins_perm a l).mem_iff.mp hx) with rfl | hx
      · omega
      · exact List.rel_of_pairwise_cons h hx

theorem isort_sorted (l : List Nat) : (isort l).Pairwise (· ≤ ·) := by
  induction l with
  | nil => simp [isort]
  | cons a l ih => exact ins_sorted a _ ih

theorem popTo_split (v : Nat) (seg base : List Nat) (h : v ∉ seg) :
    popTo v (seg ++ v :: base) = (seg ++ [v], base) := by
  induction seg with
  | nil => simp [popTo]
  | cons x seg ih =>
    have hx : x ≠ v := fun e => h (by simp [e])
    have := ih (fun hm => h (List.mem_cons_of_mem _ hm))
    simp [popTo, hx, this]

/-! ## state vocabulary -/

def vis (s : State) (x : Nat) : Prop := s.idx x ≠ none
def num (s : State) (x : Nat) : Nat := (s.idx x).getD 0
/-- visited and popped -/
def done (s : State) (x : Nat) : Prop := vis s x ∧ x ∉ s.stack

theorem idx_push (v : Nat) (s : State) (x : Nat) :
    (push v s).idx x = if x = v then some s.index else s.idx x := by
  unfold State.idx push
  simp only [List.lookup_cons]
  by_cases h : x = v
  · simp [h]
  · have : (x == v) = false := by simpa using h
    simp [h, this]

theorem vis_of_idx {s : State} {x i : Nat} (h : s.idx x = some i) : vis s x := by
  unfold vis; rw [h]; simp

theorem num_of_idx {s : State} {x i : Nat} (h : s.idx x = some i) : num s x = i := by
  unfold num; rw [h]; rfl

theorem idx_of_vis {s : State} {x : Nat} (h : vis s x) : s.idx x = some (num s x) := by
  unfold vis at h; unfold num
  cases hx : s.idx x with
  | none => exact absurd hx h
  | some i => rfl

/-- indices only grow; the fuel flag is untouched -/
structure Ext (s s' : State) : Prop where
  idx : ∀ x i, s.idx x = some i → s'.idx x = some i
  ok : s'.ok = s.ok

theorem Ext.refl (s : State) : Ext s s := ⟨fun _ _ h => h, rfl⟩
theorem Ext.trans {a b c : State} (h₁ : Ext a b) (h₂ : Ext b c) : Ext a c :=
  ⟨fun x i h => h₂.idx x i (h₁.idx x i h), h₂.ok.trans h₁.ok⟩
theorem Ext.vis {s s' : State} (h : Ext s s') {x : Nat} (hx : vis s x) : vis s' x :=
  vis_of_idx (h.idx x _ (idx_of_vis hx))
theorem Ext.num {s s' : State} (h : Ext s s') {x : Nat} (hx : PV.Tarjan.vis s x) : num s' x = num s x :=
  num_of_idx (h.idx x _ (idx_of_vis hx))

theorem ext_push {v : Nat} {s : State} (hv : s.idx v = none) : Ext s (push v s) := by
  refine ⟨?_, rfl⟩
  intro x i h
  rw [idx_push]
  have : x ≠ v := fun e => by rw [e, hv] at h; cases h
  simp [this, h]

/-! ## fuel measure: number of unvisited vertices -/

def U (g : G) (s : State) : Nat := ((List.range g.n).filter (fun x => (s.idx x).isNone)).length

theorem filter_length_le {α : Type} (p q : α → Bool) (l : List α) (himp : ∀ x ∈ l, q x = true → p x = true) :
    (l.filter q).length ≤ (l.filter p).length := by
  induction l with
  | nil => simp
  | cons b l ih =>
    simp only [List.filter_cons]
    have hb := himp b List.mem_cons_self
    have := ih (fun y hy => himp y (List.mem_cons_of_mem _ hy))
    by_cases hqb : q b = true
    · simp [hqb, hb hqb]; omega
    · by_cases hpb : p b = true <;> simp [hqb, hpb] <;> omega

theorem U_le_n (g : G) (s : State) : U g s ≤ g.n := by
  unfold U
  exact Nat.le_trans (List.length_filter_le _ _) (by simp)

theorem U_mono {g : G} {s s' : State} (h : Ext s s') : U g s' ≤ U g s := by
  unfold U
  apply filter_length_le
  intro x _ hx
  cases hs : s.idx x with
  | none => rfl
  | some i => rw [h.idx x i hs] at hx; cases hx

theorem U_push {g : G} {s : State} {v : Nat} (hv : s.idx v = none) (hn : v < g.n) : U g (push v s) < U g s := by
  unfold U
  apply PV.C11.filter_length_lt _ _ _ _ v (List.mem_range.mpr hn)
  · rw [hv]; rfl
  · rw [idx_push]; simp
  · intro x _ hx
    cases hs : s.idx x with
    | none => rfl
    | some i => rw [(ext_push hv).idx x i hs] at hx; cases hx

/-! ## the invariant -/

structure Inv (g : G) (s : State) : Prop where
  bound : ∀ x i, s.idx x = some i → i < s.index ∧ x < g.n
  stkvis : ∀ x ∈ s.stack, vis s x
  /-- the stack is ordered by serial number, newest on top -/
  sorted : s.stack.Pairwise (fun a b => num s b < num s a)
  /-- no edge leaves the set of popped vertices -/
  closed : ∀ a b, done s a → E g a b → done s b
  /-- every emitted component is a complete strongly connected component with ≥ 2 members -/
  comp_ok : ∀ c ∈ s.components, 2 ≤ c.length ∧ c.Nodup ∧ c.Pairwise (· ≤ ·) ∧ (∀ x ∈ c, done s x) ∧
      (∀ x ∈ c, ∀ y ∈ c, R g x y) ∧ (∀ x ∈ c, ∀ y, R g x y → R g y x → y ∈ c)
  /-- every popped vertex on a cycle is in an emitted component -/
  comp_all : ∀ x y, done s x → x ≠ y → R g x y → R g y x → ∃ c ∈ s.components, x ∈ c
  disj : s.components.Pairwise (fun a b => ∀ x ∈ a, x ∉ b)

theorem inv_init (g : G) : Inv g State.init := by
  refine ⟨?_, ?_, ?_, ?_, ?_, ?_, ?_⟩
  · intro x i h; simp [State.idx, State.init] at h
  · intro x h; simp [State.init] at h
  · simp [State.init]
  · intro a b h; exact absurd h.1 (by simp [vis, State.idx, State.init])
  · intro c h; simp [State.init] at h
  · intro x y h; exact absurd h.1 (by simp [vis, State.idx, State.init])
  · simp [State.init]

theorem Inv.stack_nodup {g : G} {s : State} (h : Inv g s) : s.stack.Nodup :=
  List.Pairwise.imp (fun {a b} hab e => by rw [e] at hab; exact Nat.lt_irrefl _ hab) h.sorted

theorem done_push_iff {s : State} {v : Nat} (hv : s.idx v = none) (a : Nat) :
    done (push v s) a ↔ done s a := by
  unfold done
  constructor
  · rintro ⟨h1, h2⟩
    have hne : a ≠ v := fun e => h2 (by simp [push, e])
    refine ⟨?_, fun hm => h2 (by simp [push, hm])⟩
    unfold vis at h1 ⊢
    rw [idx_push] at h1
    simpa [hne] using h1
  · rintro ⟨h1, h2⟩
    have hne : a ≠ v := fun e => by rw [e] at h1; exact h1 hv
    refine ⟨(ext_push hv).vis h1, ?_⟩
    simp [push, hne, h2]

theorem inv_push {g : G} {s : State} {v : Nat} (h : Inv g s) (hv : s.idx v = none) (hn : v < g.n) :
    Inv g (push v s) := by
  have hnumv : num (push v s) v = s.index := num_of_idx (by rw [idx_push]; simp)
  refine ⟨?_, ?_, ?_, ?_, ?_, ?_, ?_⟩
  · intro x i hx
    rw [idx_push] at hx
    show i < s.index + 1 ∧ x < g.n
    by_cases e : x = v
    · simp [e] at hx; subst hx; subst e; exact ⟨Nat.lt_succ_self _, hn⟩
    · simp [e] at hx; have := h.bound x i hx; exact ⟨by omega, this.2⟩
  · intro x hx
    show vis (push v s) x
    rcases List.mem_cons.mp hx with rfl | hx
    · exact vis_of_idx (i := s.index) (by rw [idx_push]; simp)
    · exact (ext_push hv).vis (h.stkvis x hx)
  · show (v :: s.stack).Pairwise _
    refine List.Pairwise.cons ?_ ?_
    · intro b hb
      rw [hnumv, (ext_push hv).num (h.stkvis b hb)]
      exact (h.bound b _ (idx_of_vis (h.stkvis b hb))).1
    · refine List.Pairwise.imp_of_mem ?_ h.sorted
      intro a b ha hb hab
      rw [(ext_push hv).num (h.stkvis b hb), (ext_push hv).num (h.stkvis a ha)]
      exact hab
  · intro a b ha he
    exact (done_push_iff hv b).mpr (h.closed a b ((done_push_iff hv a).mp ha) he)
  · intro c hc
    obtain ⟨h1, h2, h3, h4, h5, h6⟩ := h.comp_ok c hc
    exact ⟨h1, h2, h3, fun x hx => (done_push_iff hv x).mpr (h4 x hx), h5, h6⟩
  · intro x y hx hne h1 h2
    exact h.comp_all x y ((done_push_iff hv x).mp hx) hne h1 h2
  · exact h.disj

theorem two_le_length {l : List Nat} {x y : Nat} (hx : x ∈ l) (hy : y ∈ l) (hne : x ≠ y) : 2 ≤ l.length := by
  match l, hx, hy with
  | [a], hx, hy => simp at hx hy; exact absurd (hx.trans hy.symm) hne
  | _ :: _ :: _, _, _ => simp

/-- popping a root: the segment above and including `v` is a complete strongly connected component -/
theorem inv_pop {g : G} {s2 : State} {v : Nat} {seg base : List Nat} (comps' : List (List Nat))
    (hinv : Inv g s2) (hstk : s2.stack = seg ++ v :: base)
    (hmut : ∀ y ∈ seg, R g v y ∧ R g y v)
    (hsucc : ∀ y ∈ seg ++ [v], ∀ b, E g y b → vis s2 b)
    (hnoedge : ∀ a ∈ seg ++ [v], ∀ b ∈ base, ¬ E g a b)
    (hsub : ∀ c ∈ comps', c ∈ s2.components ∨ (c = isort (seg ++ [v]) ∧ 2 ≤ (seg ++ [v]).length))
    (hsup : ∀ c ∈ s2.components, c ∈ comps')
    (hnew : 2 ≤ (seg ++ [v]).length → isort (seg ++ [v]) ∈ comps')
    (hdisj : comps'.Pairwise (fun a b => ∀ x ∈ a, x ∉ b)) :
    Inv g { s2 with stack := base, components := comps' } := by
  have hidx : ∀ x, State.idx { s2 with stack := base, components := comps' } x = s2.idx x := fun _ => rfl
  have hvis : ∀ x, vis { s2 with stack := base, components := comps' } x ↔ vis s2 x := fun _ => Iff.rfl
  have hnum : ∀ x, num { s2 with stack := base, components := comps' } x = num s2 x := fun _ => rfl
  have hsorted := hinv.sorted
  rw [hstk, List.pairwise_append] at hsorted
  obtain ⟨_, hsort2, hsort3⟩ := hsorted
  have hnd := hinv.stack_nodup
  have hSstk : ∀ x ∈ seg ++ [v], x ∈ s2.stack := by
    intro x hx; rw [hstk]
    rcases List.mem_append.mp hx with h | h
    · exact List.mem_append_left _ h
    · simp at h; subst h; simp
  have hSbase : ∀ x ∈ seg ++ [v], x ∉ base := by
    intro x hx hb
    rcases List.mem_append.mp hx with h | h
    · exact Nat.lt_irrefl _ (hsort3 x h x (List.mem_cons_of_mem _ hb))
    · simp at h; subst h
      exact Nat.lt_irrefl _ (List.rel_of_pairwise_cons hsort2 hb)
  have hstkcases : ∀ x ∈ s2.stack, x ∈ seg ++ [v] ∨ x ∈ base := by
    intro x hx; rw [hstk] at hx
    rcases List.mem_append.mp hx with h | h
    · exact .inl (List.mem_append_left _ h)
    · rcases List.mem_cons.mp h with rfl | h
      · exact .inl (by simp)
      · exact .inr h
  have hbasestk : ∀ x ∈ base, x ∈ s2.stack := by
    intro x hx; rw [hstk]; exact List.mem_append_right _ (List.mem_cons_of_mem _ hx)
  have hvS : v ∈ seg ++ [v] := by simp
  have d_old : ∀ x, done s2 x → done { s2 with stack := base, components := comps' } x :=
    fun x hx => ⟨hx.1, fun hb => hx.2 (hbasestk x hb)⟩
  have d_S : ∀ x ∈ seg ++ [v], done { s2 with stack := base, components := comps' } x :=
    fun x hx => ⟨hinv.stkvis x (hSstk x hx), hSbase x hx⟩
  have d_cases : ∀ x, done { s2 with stack := base, components := comps' } x → x ∈ seg ++ [v] ∨ done s2 x := by
    intro x hx
    by_cases hs : x ∈ s2.stack
    · rcases hstkcases x hs with h | h
      · exact .inl h
      · exact absurd h hx.2
    · exact .inr ⟨hx.1, hs⟩
  have hcl : ∀ a b, (a ∈ seg ++ [v] ∨ done s2 a) → E g a b → (b ∈ seg ++ [v] ∨ done s2 b) := by
    intro a b ha he
    rcases ha with ha | ha
    · have hb := hsucc a ha b he
      by_cases hs : b ∈ s2.stack
      · rcases hstkcases b hs with h | h
        · exact .inl h
        · exact absurd he (hnoedge a ha b h)
      · exact .inr ⟨hb, hs⟩
    · exact .inr (hinv.closed a b ha he)
  have hmutS : ∀ x ∈ seg ++ [v], R g v x ∧ R g x v := by
    intro x hx
    rcases List.mem_append.mp hx with h | h
    · exact hmut x h
    · simp at h; subst h; exact ⟨Relation.ReflTransGen.refl, Relation.ReflTransGen.refl⟩
  have hmax : ∀ y, R g v y → R g y v → y ∈ seg ++ [v] := by
    intro y h1 h2
    rcases closed_R (D := fun z => z ∈ seg ++ [v] ∨ done s2 z) hcl (.inl hvS) h1 with h | h
    · exact h
    · have := closed_R (D := done s2) hinv.closed h h2
      exact absurd (hSstk v hvS) this.2
  have hSnd : (seg ++ [v]).Nodup := by
    have : s2.stack = (seg ++ [v]) ++ base := by rw [hstk]; simp
    rw [this] at hnd
    exact List.Nodup.of_append_left hnd
  have hmemS : ∀ x, x ∈ isort (seg ++ [v]) ↔ x ∈ seg ++ [v] := fun x => (isort_perm _).mem_iff
  refine ⟨?_, ?_, ?_, ?_, ?_, ?_, ?_⟩
  · exact hinv.bound
  · intro x hx; exact hinv.stkvis x (hbasestk x hx)
  · exact List.Pairwise.of_cons hsort2
  · intro a b ha he
    rcases hcl a b (d_cases a ha) he with h | h
    · exact d_S b h
    · exact d_old b h
  · intro c hc
    rcases hsub c hc with hc | ⟨rfl, hlen⟩
    · obtain ⟨h1, h2, h3, h4, h5, h6⟩ := hinv.comp_ok c hc
      exact ⟨h1, h2, h3, fun x hx => d_old x (h4 x hx), h5, h6⟩
    · refine ⟨?_, ?_, isort_sorted _, ?_, ?_, ?_⟩
      · rw [(isort_perm _).length_eq]; exact hlen
      · exact (isort_perm _).nodup_iff.mpr hSnd
      · intro x hx; exact d_S x ((hmemS x).mp hx)
      · intro x hx y hy
        exact ((hmutS x ((hmemS x).mp hx)).2).trans (hmutS y ((hmemS y).mp hy)).1
      · intro x hx y h1 h2
        have hx' := hmutS x ((hmemS x).mp hx)
        exact (hmemS y).mpr (hmax y (hx'.1.trans h1) (h2.trans hx'.2))
  · intro x y hx hne h1 h2
    rcases d_cases x hx with hxS | hxd
    · have hx' := hmutS x hxS
      have hyS := hmax y (hx'.1.trans h1) (h2.trans hx'.2)
      exact ⟨_, hnew (two_le_length hxS hyS hne), (hmemS x).mpr hxS⟩
    · obtain ⟨c, hc, hxc⟩ := hinv.comp_all x y hxd hne h1 h2
      exact ⟨c, hsup c hc, hxc⟩
  · exact hdisj

/-- `emit` in the situation of `inv_pop` -/
theorem emit_spec {g : G} {s2 : State} {v : Nat} {seg base : List Nat}
    (hinv : Inv g s2) (hstk : s2.stack = seg ++ v :: base)
    (hmut : ∀ y ∈ seg, R g v y ∧ R g y v)
    (hsucc : ∀ y ∈ seg ++ [v], ∀ b, E g y b → vis s2 b)
    (hnoedge : ∀ a ∈ seg ++ [v], ∀ b ∈ base, ¬ E g a b) :
    Inv g (emit v s2) ∧ (emit v s2).stack = base ∧ Ext s2 (emit v s2) := by
  have hsorted := hinv.sorted
  rw [hstk, List.pairwise_append] at hsorted
  have hvseg : v ∉ seg := fun hm => Nat.lt_irrefl _ (hsorted.2.2 v hm v List.mem_cons_self)
  have hemit : emit v s2 = { s2 with stack := base, components :=
      if (seg ++ [v]).length > 1 then s2.components ++ [isort (seg ++ [v])] else s2.components } := by
    unfold emit
    rw [hstk, popTo_split v seg base hvseg]
  rw [hemit]
  refine ⟨?_, rfl, ⟨fun _ _ h => h, rfl⟩⟩
  by_cases hlen : (seg ++ [v]).length > 1
  · rw [if_pos hlen]
    apply inv_pop _ hinv hstk hmut hsucc hnoedge
    · intro c hc
      rcases List.mem_append.mp hc with h | h
      · exact .inl h
      · simp at h; exact .inr ⟨h, hlen⟩
    · intro c hc; exact List.mem_append_left _ hc
    · intro _; simp
    · rw [List.pairwise_append]
      refine ⟨hinv.disj, by simp, ?_⟩
      intro a ha b hb x hxa hxb
      simp at hb; subst hb
      have h1 := ((hinv.comp_ok a ha).2.2.2.1 x hxa).2
      apply h1
      rw [hstk]
      have := (isort_perm _).mem_iff.mp hxb
      rcases List.mem_append.mp this with h | h
      · exact List.mem_append_left _ h
      · simp at h; subst h; simp
  · rw [if_neg hlen]
    apply inv_pop _ hinv hstk hmut hsucc hnoedge
    · intro c hc; exact .inl hc
    · intro c hc; exact hc
    · intro h; omega
    · exact hinv.disj

/-! ## specification of one call and of the successor loop -/

/-- what `strongConnect g f v s = r` guarantees (`r.1` = `lowLinks[v]`): the call leaves a segment `seg` on top
of the old stack (empty if `v` was a root) -/
structure Post (g : G) (v : Nat) (s : State) (r : Nat × State) : Prop where
  inv : Inv g r.2
  ext : Ext s r.2
  visv : vis r.2 v
  seg : ∃ seg, r.2.stack = seg ++ s.stack ∧ (∀ y ∈ seg, R g v y ∧ R g y v) ∧
      (∀ y ∈ seg, ∀ b, E g y b → vis r.2 b) ∧
      (∀ a ∈ seg, ∀ b ∈ s.stack, E g a b → r.1 ≤ num s b) ∧
      ((seg = [] ∧ r.1 = s.index) ∨ (r.1 < s.index ∧ ∃ u ∈ s.stack, s.idx u = some r.1 ∧ R g v u))

/-- loop invariant of the successor loop of `strongConnect v` started in `s`; `P` = successors already handled,
`acc = (lowLinks[v], state)` -/
structure LI (g : G) (v : Nat) (s : State) (P : Nat → Prop) (acc : Nat × State) : Prop where
  inv : Inv g acc.2
  ext : Ext (push v s) acc.2
  low_le : acc.1 ≤ s.index
  wit : ∃ u ∈ acc.2.stack, acc.2.idx u = some acc.1 ∧ R g v u
  seg : ∃ seg, acc.2.stack = seg ++ v :: s.stack ∧ (∀ y ∈ seg, R g v y ∧ R g y v) ∧
      (∀ y ∈ seg, ∀ b, E g y b → vis acc.2 b) ∧
      (∀ a ∈ seg, ∀ b ∈ v :: s.stack, E g a b → acc.1 ≤ num (push v s) b)
  pvis : ∀ w, P w → vis acc.2 w
  plow : ∀ w, P w → w ∈ v :: s.stack → acc.1 ≤ num (push v s) w

theorem LI.mono {g : G} {v : Nat} {s : State} {P P' : Nat → Prop} {acc : Nat × State}
    (hP : ∀ x, P' x → P x) (h : LI g v s P acc) : LI g v s P' acc :=
  ⟨h.inv, h.ext, h.low_le, h.wit, h.seg, fun w hw => h.pvis w (hP w hw), fun w hw => h.plow w (hP w hw)⟩

theorem idx_push_self (v : Nat) (s : State) : (push v s).idx v = some s.index := by
  rw [idx_push]; simp

theorem step_spec {g : G} {f v : Nat} {s : State}
    (IH : ∀ w sc, Inv g sc → w < g.n → sc.idx w = none → U g sc ≤ f → (∀ y ∈ sc.stack, R g y w) →
      Post g w sc (strongConnect g f w sc))
    (hs : Inv g s) (hv : s.idx v = none) (hn : v < g.n) (hU : U g (push v s) ≤ f)
    (hbase : ∀ y ∈ s.stack, R g y v)
    {P : Nat → Prop} {acc : Nat × State} (h : LI g v s P acc) {w : Nat} (hw : E g v w) :
    LI g v s (fun x => P x ∨ x = w) (step (strongConnect g f) acc w) := by
  obtain ⟨low, sc⟩ := acc
  obtain ⟨seg, hstk, hmut, hsucc, hlow⟩ := h.seg
  have hinv1 := inv_push hs hv hn
  have hstkv : ∀ y ∈ sc.stack, R g y v := by
    intro y hy
    rw [show sc.stack = seg ++ v :: s.stack from hstk] at hy
    rcases List.mem_append.mp hy with hy | hy
    · exact (hmut y hy).2
    · rcases List.mem_cons.mp hy with rfl | hy
      · exact Relation.ReflTransGen.refl
      · exact hbase y hy
  have hbasein : ∀ b ∈ v :: s.stack, b ∈ sc.stack := by
    intro b hb
    rw [show sc.stack = seg ++ v :: s.stack from hstk]
    exact List.mem_append_right _ hb
  have hvis1 : ∀ b ∈ v :: s.stack, vis (push v s) b := fun b hb => hinv1.stkvis b hb
  cases hiw : sc.idx w with
  | none =>
    have hpost := IH w sc h.inv hw.1 hiw (Nat.le_trans (U_mono h.ext) hU)
      (fun y hy => (hstkv y hy).tail hw)
    simp only [step, hiw]
    generalize strongConnect g f w sc = r at hpost ⊢
    obtain ⟨lw, s'⟩ := r
    obtain ⟨segw, hstkw, hmutw, hsuccw, hloww, hcase⟩ := hpost.seg
    have hidx_lt : s.index < sc.index := (h.inv.bound v s.index (h.ext.idx v _ (idx_push_self v s))).1
    have hlowle : low ≤ s.index := h.low_le
    have hwv : segw ≠ [] → R g w v := by
      intro hne
      rcases hcase with ⟨he, _⟩ | ⟨_, u, hu, _, hwu⟩
      · exact absurd he hne
      · exact hwu.trans (hstkv u hu)
    refine ⟨hpost.inv, h.ext.trans hpost.ext, ?_, ?_, ?_, ?_, ?_⟩
    · show min low lw ≤ s.index
      exact Nat.le_trans (Nat.min_le_left _ _) hlowle
    · show ∃ u ∈ s'.stack, s'.idx u = some (min low lw) ∧ R g v u
      rcases Nat.le_total low lw with hle | hle
      · rw [Nat.min_eq_left hle]
        obtain ⟨u, hu, hiu, hvu⟩ := h.wit
        exact ⟨u, by rw [show s'.stack = segw ++ sc.stack from hstkw]; exact List.mem_append_right _ hu,
          hpost.ext.idx u _ hiu, hvu⟩
      · rw [Nat.min_eq_right hle]
        rcases hcase with ⟨_, he⟩ | ⟨_, u, hu, hiu, hwu⟩
        · exfalso
          have : lw = sc.index := he
          omega
        · exact ⟨u, by rw [show s'.stack = segw ++ sc.stack from hstkw]; exact List.mem_append_right _ hu,
            hpost.ext.idx u _ hiu, (Relation.ReflTransGen.single hw).trans hwu⟩
    · refine ⟨segw ++ seg, ?_, ?_, ?_, ?_⟩
      · show s'.stack = segw ++ seg ++ v :: s.stack
        rw [show s'.stack = segw ++ sc.stack from hstkw, show sc.stack = seg ++ v :: s.stack from hstk,
          List.append_assoc]
      · intro y hy
        rcases List.mem_append.mp hy with hy | hy
        · have hne : segw ≠ [] := fun e => by rw [e] at hy; cases hy
          exact ⟨(Relation.ReflTransGen.single hw).trans (hmutw y hy).1, (hmutw y hy).2.trans (hwv hne)⟩
        · exact hmut y hy
      · intro y hy b he
        rcases List.mem_append.mp hy with hy | hy
        · exact hsuccw y hy b he
        · exact hpost.ext.vis (hsucc y hy b he)
      · intro a ha b hb he
        show min low lw ≤ num (push v s) b
        rcases List.mem_append.mp ha with ha | ha
        · have := hloww a ha b (hbasein b hb) he
          rw [h.ext.num (hvis1 b hb)] at this
          exact Nat.le_trans (Nat.min_le_right _ _) this
        · exact Nat.le_trans (Nat.min_le_left _ _) (hlow a ha b hb he)
    · intro x hx
      rcases hx with hx | rfl
      · exact hpost.ext.vis (h.pvis x hx)
      · exact hpost.visv
    · intro x hx hxb
      show min low lw ≤ num (push v s) x
      rcases hx with hx | rfl
      · exact Nat.le_trans (Nat.min_le_left _ _) (h.plow x hx hxb)
      · exact absurd hiw (h.ext.vis (hvis1 x hxb))
  | some iw =>
    by_cases hc : sc.stack.contains w = true
    · have hmem : w ∈ sc.stack := List.contains_iff_mem.mp hc
      simp only [step, hiw, hc, if_true]
      refine ⟨h.inv, h.ext, Nat.le_trans (Nat.min_le_left _ _) h.low_le, ?_, ?_, ?_, ?_⟩
      · show ∃ u ∈ sc.stack, sc.idx u = some (min low iw) ∧ R g v u
        rcases Nat.le_total low iw with hle | hle
        · rw [Nat.min_eq_left hle]; exact h.wit
        · rw [Nat.min_eq_right hle]; exact ⟨w, hmem, hiw, Relation.ReflTransGen.single hw⟩
      · exact ⟨seg, hstk, hmut, hsucc, fun a ha b hb he =>
          Nat.le_trans (Nat.min_le_left _ _) (hlow a ha b hb he)⟩
      · intro x hx
        rcases hx with hx | rfl
        · exact h.pvis x hx
        · exact vis_of_idx hiw
      · intro x hx hxb
        show min low iw ≤ num (push v s) x
        rcases hx with hx | rfl
        · exact Nat.le_trans (Nat.min_le_left _ _) (h.plow x hx hxb)
        · rw [← h.ext.num (hvis1 x hxb), num_of_idx hiw]
          exact Nat.min_le_right _ _
    · have hmem : w ∉ sc.stack := fun hm => hc (List.contains_iff_mem.mpr hm)
      simp only [step, hiw, hc]
      refine ⟨h.inv, h.ext, h.low_le, h.wit, ⟨seg, hstk, hmut, hsucc, hlow⟩, ?_, ?_⟩
      · intro x hx
        rcases hx with hx | rfl
        · exact h.pvis x hx
        · exact vis_of_idx hiw
      · intro x hx hxb
        rcases hx with hx | rfl
        · exact h.plow x hx hxb
        · exact absurd (hbasein x hxb) hmem

theorem fold_spec {g : G} {f v : Nat} {s : State}
    (IH : ∀ w sc, Inv g sc → w < g.n → sc.idx w = none → U g sc ≤ f → (∀ y ∈ sc.stack, R g y w) →
      Post g w sc (strongConnect g f w sc))
    (hs : Inv g s) (hv : s.idx v = none) (hn : v < g.n) (hU : U g (push v s) ≤ f)
    (hbase : ∀ y ∈ s.stack, R g y v) :
    ∀ (ws : List Nat), (∀ w ∈ ws, E g v w) → ∀ (P : Nat → Prop) (acc : Nat × State), LI g v s P acc →
      LI g v s (fun x => P x ∨ x ∈ ws) (ws.foldl (step (strongConnect g f)) acc) := by
  intro ws
  induction ws with
  | nil => intro _ P acc h; exact h.mono (fun x hx => hx.elim id (fun h => by cases h))
  | cons w ws ih =>
    intro hws P acc h
    rw [List.foldl_cons]
    have h1 := step_spec IH hs hv hn hU hbase h (hws w List.mem_cons_self)
    have h2 := ih (fun x hx => hws x (List.mem_cons_of_mem _ hx)) _ _ h1
    refine h2.mono ?_
    intro x hx
    rcases hx with hx | hx
    · exact .inl (.inl hx)
    · rcases List.mem_cons.mp hx with rfl | hx
      · exact .inl (.inr rfl)
      · exact .inr hx

/-- **the main lemma**: with fuel at least the number of unvisited vertices, a call of `strongConnect` on an
unvisited vertex that every stack vertex reaches preserves the invariant and returns the lowlink -/
theorem sc_spec (g : G) : ∀ (f v : Nat) (s : State), Inv g s → v < g.n → s.idx v = none → U g s ≤ f →
    (∀ y ∈ s.stack, R g y v) → Post g v s (strongConnect g f v s) := by
  intro f
  induction f with
  | zero =>
    intro v s _ hn hv hU _
    have := U_push (g := g) hv hn
    omega
  | succ f IH =>
    intro v s hs hn hv hU hbase
    have hU1 : U g (push v s) ≤ f := by have := U_push (g := g) hv hn; omega
    have hinv1 := inv_push hs hv hn
    have h0 : LI g v s (fun _ => False) (s.index, push v s) := by
      refine ⟨hinv1, Ext.refl _, Nat.le_refl _, ⟨v, by simp [push], idx_push_self v s, Relation.ReflTransGen.refl⟩,
        ⟨[], rfl, ?_, ?_, ?_⟩, ?_, ?_⟩
      · intro y hy; cases hy
      · intro y hy; cases hy
      · intro y hy; cases hy
      · intro w hw; exact hw.elim
      · intro w hw; exact hw.elim
    have h1 := fold_spec IH hs hv hn hU1 hbase (succs g v) (fun w hw => mem_succs.mp hw) _ _ h0
    unfold strongConnect
    generalize (succs g v).foldl (step (strongConnect g f)) (s.index, push v s) = r at h1 ⊢
    obtain ⟨low, s2⟩ := r
    obtain ⟨seg, hstk, hmut, hsucc, hlow⟩ := h1.seg
    have hstk' : s2.stack = seg ++ v :: s.stack := hstk
    have hvisv2 : s2.idx v = some s.index := h1.ext.idx v _ (idx_push_self v s)
    have hsuccS : ∀ y ∈ seg ++ [v], ∀ b, E g y b → vis s2 b := by
      intro y hy b he
      rcases List.mem_append.mp hy with hy | hy
      · exact hsucc y hy b he
      · simp at hy; subst hy
        exact h1.pvis b (.inr (mem_succs.mpr he))
    have hlowS : ∀ a ∈ seg ++ [v], ∀ b ∈ s.stack, E g a b → low ≤ num s b := by
      intro a ha b hb he
      rw [← (ext_push hv).num (hs.stkvis b hb)]
      rcases List.mem_append.mp ha with ha | ha
      · exact hlow a ha b (List.mem_cons_of_mem _ hb) he
      · simp at ha; subst ha
        exact h1.plow b (.inr (mem_succs.mpr he)) (List.mem_cons_of_mem _ hb)
    have hmutS : ∀ y ∈ seg ++ [v], R g v y ∧ R g y v := by
      intro y hy
      rcases List.mem_append.mp hy with hy | hy
      · exact hmut y hy
      · simp at hy; subst hy; exact ⟨Relation.ReflTransGen.refl, Relation.ReflTransGen.refl⟩
    have hlowle : low ≤ s.index := h1.low_le
    by_cases hroot : low = s.index
    · -- `v` is a root: pop
      have hb : (low == s.index) = true := by simpa using hroot
      simp only [hb, if_true]
      show Post g v s (low, emit v s2)
      obtain ⟨hi, hst, hex⟩ := emit_spec h1.inv hstk' hmut hsuccS (by
        intro a ha b hb he
        have h1' := hlowS a ha b hb he
        have h2' := (hs.bound b _ (idx_of_vis (hs.stkvis b hb))).1
        omega)
      refine ⟨hi, (ext_push hv).trans (h1.ext.trans hex), hex.vis (vis_of_idx hvisv2), ⟨[], ?_, ?_, ?_, ?_, ?_⟩⟩
      · show (emit v s2).stack = [] ++ s.stack
        rw [hst]; rfl
      · intro y hy; cases hy
      · intro y hy; cases hy
      · intro y hy; cases hy
      · exact .inl ⟨rfl, hroot⟩
    · -- `v` stays on the stack
      have hb : (low == s.index) = false := by simpa using hroot
      simp only [hb, Bool.false_eq_true, if_false]
      show Post g v s (low, s2)
      have hlt : low < s.index := by omega
      refine ⟨h1.inv, (ext_push hv).trans h1.ext, vis_of_idx hvisv2, ⟨seg ++ [v], ?_, hmutS, hsuccS, hlowS, .inr ⟨hlt, ?_⟩⟩⟩
      · show s2.stack = seg ++ [v] ++ s.stack
        rw [hstk']; simp
      · obtain ⟨u, hu, hiu, hvu⟩ := h1.wit
        have hiu' : s2.idx u = some low := hiu
        have hu' : u ∈ seg ++ v :: s.stack := by rw [← hstk']; exact hu
        have hsorted := h1.inv.sorted
        rw [hstk', List.pairwise_append] at hsorted
        rcases List.mem_append.mp hu' with hu' | hu'
        · exfalso
          have := hsorted.2.2 u hu' v List.mem_cons_self
          rw [num_of_idx hiu', num_of_idx hvisv2] at this
          omega
        · rcases List.mem_cons.mp hu' with rfl | hu'
          · exfalso
            rw [hvisv2] at hiu'
            exact hroot (Option.some.inj hiu').symm
          · refine ⟨u, hu', ?_, hvu⟩
            have h3 := idx_of_vis (hs.stkvis u hu')
            have h4 := h1.ext.idx u _ ((ext_push hv).idx u _ h3)
            rw [hiu'] at h4
            rw [h3, Option.some.inj h4]

/-! ## the outer loop -/

theorem outer_spec (g : G) : ∀ (ws : List Nat), (∀ w ∈ ws, w < g.n) → ∀ (s : State), Inv g s → s.stack = [] →
    let s' := ws.foldl (fun s v => match s.idx v with
      | none => (strongConnect g g.n v s).2
      | some _ => s) s
    Inv g s' ∧ s'.stack = [] ∧ Ext s s' ∧ ∀ w ∈ ws, vis s' w := by
  intro ws
  induction ws with
  | nil => intro _ s hs hst; exact ⟨hs, hst, Ext.refl _, fun w hw => by cases hw⟩
  | cons v ws ih =>
    intro hws s hs hst
    rw [List.foldl_cons]
    have hvn := hws v List.mem_cons_self
    have hws' : ∀ w ∈ ws, w < g.n := fun w hw => hws w (List.mem_cons_of_mem _ hw)
    cases hiv : s.idx v with
    | some i =>
      simp only []
      obtain ⟨h1, h2, h3, h4⟩ := ih hws' s hs hst
      refine ⟨h1, h2, h3, ?_⟩
      intro w hw
      rcases List.mem_cons.mp hw with rfl | hw
      · exact h3.vis (vis_of_idx hiv)
      · exact h4 w hw
    | none =>
      simp only []
      have hpost := sc_spec g g.n v s hs hvn hiv (U_le_n g s) (by intro y hy; rw [hst] at hy; cases hy)
      obtain ⟨seg, hstk, _, _, _, hcase⟩ := hpost.seg
      have hst' : (strongConnect g g.n v s).2.stack = [] := by
        rcases hcase with ⟨he, _⟩ | ⟨_, u, hu, _⟩
        · rw [hstk, he, hst]; rfl
        · rw [hst] at hu; cases hu
      obtain ⟨h1, h2, h3, h4⟩ := ih hws' _ hpost.inv hst'
      refine ⟨h1, h2, hpost.ext.trans h3, ?_⟩
      intro w hw
      rcases List.mem_cons.mp hw with rfl | hw
      · exact h3.vis hpost.visv
      · exact h4 w hw

theorem run_spec (g : G) : Inv g (run g) ∧ (run g).stack = [] ∧ (run g).ok = true ∧ ∀ v, v < g.n → done (run g) v := by
  obtain ⟨h1, h2, h3, h4⟩ := outer_spec g (List.range g.n) (fun w hw => List.mem_range.mp hw) State.init
    (inv_init g) rfl
  refine ⟨h1, h2, h3.ok, ?_⟩
  intro v hv
  refine ⟨h4 v (List.mem_range.mpr hv), ?_⟩
  intro hm
  have : (run g).stack = [] := h2
  rw [this] at hm; cases hm

/-! ## the theorems -/

/-- **Fuel.** `run` never runs out of recursion fuel (each top-level call gets `g.n`). -/
theorem run_ok (g : G) : (run g).ok = true := (run_spec g).2.2.1

/-- **Fuel, per call.** A call with fuel at least the number of still unvisited vertices leaves the flag alone. -/
theorem strongConnect_ok (g : G) (f v : Nat) (s : State) (hs : Inv g s) (hn : v < g.n) (hv : s.idx v = none)
    (hf : U g s ≤ f) (hreach : ∀ y ∈ s.stack, R g y v) : (strongConnect g f v s).2.ok = s.ok :=
  (sc_spec g f v s hs hn hv hf hreach).ext.ok

/-- every vertex of the graph has been visited and popped when `run` returns -/
theorem run_all_done (g : G) (v : Nat) (hv : v < g.n) : (run g).idx v ≠ none ∧ v ∉ (run g).stack :=
  (run_spec g).2.2.2 v hv

/-- **Soundness.** Every emitted component has at least two members, no duplicates, is sorted increasingly,
consists of vertices of the graph, and any two members reach each other. -/
theorem tarjan_sound (g : G) (c : List Nat) (hc : c ∈ sccs g) :
    2 ≤ c.length ∧ c.Nodup ∧ c.Pairwise (· < ·) ∧ (∀ x ∈ c, x < g.n) ∧
    ∀ u ∈ c, ∀ v ∈ c, Reach g u v ∧ Reach g v u := by
  obtain ⟨hinv, _, _, _⟩ := run_spec g
  obtain ⟨h1, h2, h3, h4, h5, _⟩ := hinv.comp_ok c hc
  refine ⟨h1, h2, ?_, ?_, ?_⟩
  · exact (List.Pairwise.and h3 h2).imp (fun h => Nat.lt_of_le_of_ne h.1 h.2)
  · intro x hx
    exact (hinv.bound x _ (idx_of_vis (h4 x hx).1)).2
  · intro u hu v hv
    exact ⟨R_reach (h5 u hu v hv), R_reach (h5 v hv u hu)⟩

/-- **Maximality** (paths inside the graph): an emitted component contains every vertex mutually reachable
with one of its members along edges between vertices `< g.n`. No hypothesis on the graph. -/
theorem tarjan_maximal_R (g : G) (c : List Nat) (hc : c ∈ sccs g) (u : Nat) (hu : u ∈ c) (v : Nat)
    (h1 : R g u v) (h2 : R g v u) : v ∈ c := by
  obtain ⟨hinv, _, _, _⟩ := run_spec g
  exact (hinv.comp_ok c hc).2.2.2.2.2 u hu v h1 h2

/-- **Maximality.** If all edge targets are vertices of the graph, an emitted component contains every vertex
mutually reachable with one of its members. -/
theorem tarjan_maximal (g : G) (hwf : ∀ e ∈ g.edges, e.2 < g.n) (c : List Nat) (hc : c ∈ sccs g)
    (u : Nat) (hu : u ∈ c) (v : Nat) (h1 : Reach g u v) (h2 : Reach g v u) : v ∈ c :=
  tarjan_maximal_R g c hc u hu v (reach_R hwf h1) (reach_R hwf h2)

/-- **Completeness** (paths inside the graph) -/
theorem tarjan_complete_R (g : G) (u v : Nat) (hu : u < g.n) (hne : u ≠ v)
    (h1 : R g u v) (h2 : R g v u) : ∃ c ∈ sccs g, u ∈ c ∧ v ∈ c := by
  obtain ⟨hinv, _, _, hdone⟩ := run_spec g
  obtain ⟨c, hc, huc⟩ := hinv.comp_all u v (hdone u hu) hne h1 h2
  exact ⟨c, hc, huc, tarjan_maximal_R g c hc u huc v h1 h2⟩

/-- **Completeness.** Two different, mutually reachable vertices are in a common emitted component. -/
theorem tarjan_complete (g : G) (hwf : ∀ e ∈ g.edges, e.2 < g.n) (u v : Nat) (hu : u < g.n) (hne : u ≠ v)
    (h1 : Reach g u v) (h2 : Reach g v u) : ∃ c ∈ sccs g, u ∈ c ∧ v ∈ c :=
  tarjan_complete_R g u v hu hne (reach_R hwf h1) (reach_R hwf h2)

/-- **Disjointness.** Emitted components (at different positions of the output) share no vertex. -/
theorem tarjan_disjoint (g : G) : (sccs g).Pairwise (fun a b => ∀ x ∈ a, x ∉ b) := (run_spec g).1.disj

/-- consequently two emitted components sharing a vertex are the same list, and no component is emitted twice -/
theorem tarjan_disjoint' (g : G) (c₁ c₂ : List Nat) (h₁ : c₁ ∈ sccs g) (h₂ : c₂ ∈ sccs g) (x : Nat)
    (hx₁ : x ∈ c₁) (hx₂ : x ∈ c₂) : c₁ = c₂ := by
  have hd := tarjan_disjoint g
  generalize sccs g = l at hd h₁ h₂
  induction l with
  | nil => cases h₁
  | cons a l ih =>
    have hrel : ∀ {b : List Nat}, b ∈ l → ∀ x ∈ a, x ∉ b := fun hb => List.rel_of_pairwise_cons hd hb
    rcases List.mem_cons.mp h₁ with rfl | h₁' <;> rcases List.mem_cons.mp h₂ with rfl | h₂'
    · rfl
    · exact absurd hx₂ (hrel h₂' x hx₁)
    · exact absurd hx₁ (hrel h₁' x hx₂)
    · exact ih (List.Pairwise.of_cons hd) h₁' h₂'

theorem tarjan_nodup (g : G) : (sccs g).Nodup := by
  refine (tarjan_disjoint g).imp_of_mem ?_
  intro a b ha _ hab e
  have h2 := (tarjan_sound g a ha).1
  match a, h2 with
  | x :: _, _ => exact hab x List.mem_cons_self (by rw [← e]; exact List.mem_cons_self)

/-- **Specification (as C11_spec).** Two different vertices are in a common emitted component iff each
reaches the other. -/
theorem tarjan_spec (g : G) (hwf : ∀ e ∈ g.edges, e.2 < g.n) (u v : Nat) (hu : u < g.n) (hne : u ≠ v) :
    (∃ c ∈ sccs g, u ∈ c ∧ v ∈ c) ↔ (Reach g u v ∧ Reach g v u) := by
  constructor
  · rintro ⟨c, hc, huc, hvc⟩
    exact (tarjan_sound g c hc).2.2.2.2 u huc v hvc
  · rintro ⟨h1, h2⟩
    exact tarjan_complete g hwf u v hu hne h1 h2

/-- the hypothesis of `tarjan_maximal` / `tarjan_complete` cannot be dropped: `Reach` may leave the vertex range -/
example : (∃ g : G, ∃ u v, u < g.n ∧ v < g.n ∧ u ≠ v ∧ Reach g u v ∧ Reach g v u ∧ sccs g = []) :=
  ⟨{ n := 2, edges := [(0, 5), (5, 1), (1, 0)] }, 0, 1, by decide, by decide, by decide,
    (Reach.refl 0).step (v := 0) (w := 5) (by decide) |>.step (w := 1) (by decide),
    (Reach.refl 1).step (v := 1) (w := 0) (by decide), by decide⟩

/-! ## non-vacuity -/

example : sccs { n := 4, edges := [(0,1),(1,2),(2,0),(2,3)] } = [[0,1,2]] := by decide
/-- figure-eight: two cycles sharing vertex 2 -/
example : sccs { n := 5, edges := [(0,1),(1,2),(2,0),(2,3),(3,4),(4,2)] } = [[0,1,2,3,4]] := by decide
/-- two disjoint 2-cycles -/
example : sccs { n := 4, edges := [(0,1),(1,0),(2,3),(3,2)] } = [[0,1],[2,3]] := by decide
/-- two cycles joined by a one-way edge: the inner one is emitted first -/
example : sccs { n := 5, edges := [(0,1),(1,0),(0,2),(2,3),(3,4),(4,2)] } = [[2,3,4],[0,1]] := by decide
/-- a 3-cycle, a 2-cycle, a self-import and a tail (the example of `PV.C11`) -/
example : sccs { n := 7, edges := [(0,1),(1,2),(2,0),(3,4),(4,3),(5,5),(2,3),(6,0)] } = [[3,4],[0,1,2]] := by decide
example : (run { n := 7, edges := [(0,1),(1,2),(2,0),(3,4),(4,3),(5,5),(2,3),(6,0)] }).ok = true := by decide
/-- no cycle, no component -/
example : sccs { n := 4, edges := [(0,1),(1,2),(2,3),(0,3)] } = [] := by decide

/-! ## agreement with the specification-level model `PV.SCC.cycles` -/

theorem sorted_ext {l₁ l₂ : List Nat} (h₁ : l₁.Pairwise (· < ·)) (h₂ : l₂.Pairwise (· < ·))
    (h : ∀ x, x ∈ l₁ ↔ x ∈ l₂) : l₁ = l₂ := by
  have n₁ : l₁.Nodup := h₁.imp (fun hab => Nat.ne_of_lt hab)
  have n₂ : l₂.Nodup := h₂.imp (fun hab => Nat.ne_of_lt hab)
  refine List.Perm.eq_of_pairwise (le := (· < ·)) ?_ h₁ h₂ ((List.perm_ext_iff_of_nodup n₁ n₂).mpr h)
  intro a b _ _ hab hba
  exact absurd hab (Nat.lt_asymm hba)

/-- **The Tarjan mirror and the certified-closure model list the same cycles** (each as the same sorted list;
the order of the two lists differs: emission order vs. order of the smallest member). -/
theorem tarjan_eq_cycles (g : G) (hwf : ∀ e ∈ g.edges, e.2 < g.n) (cs : List (List Nat))
    (h : cycles g = some cs) : ∀ c, c ∈ sccs g ↔ c ∈ cs := by
  have hpart := PV.C11.C11_partition g cs h
  have h' := h
  unfold cycles at h'
  simp only [] at h'
  split at h'
  case isFalse => cases h'
  case isTrue hok =>
  cases h'
  have fwd : ∀ c, c ∈ sccs g → c ∈ cyclesOf g (reachTable g) := by
    intro c hc
    obtain ⟨hlen, _, hsort, hlt, hmut⟩ := tarjan_sound g c hc
    match c, hlen with
    | u :: rest, hlen =>
      have huc : u ∈ u :: rest := List.mem_cons_self
      have hu := hlt u huc
      have heq : u :: rest = comp g (reachTable g) u := by
        apply sorted_ext hsort (by unfold comp; exact List.Pairwise.filter _ List.pairwise_lt_range)
        intro x
        rw [PV.C11.mem_comp hok hu]
        constructor
        · intro hx; exact ⟨hlt x hx, hmut u huc x hx⟩
        · rintro ⟨_, hm⟩; exact tarjan_maximal g hwf _ hc u huc x hm.1 hm.2
      rw [heq]
      exact PV.C11.comp_listed hok hu (by rw [← heq]; exact hlen)
  intro c
  constructor
  · exact fwd c
  · intro hc
    obtain ⟨u, hu, hceq, hhead, hlen⟩ := (PV.C11.mem_cyclesOf c).mp hc
    have huc : u ∈ c := by
      match c, hhead with
      | a :: _, hhead => simp at hhead; subst hhead; exact List.mem_cons_self
    have hnd : c.Nodup := (hpart.2.1 c hc).2.1
    obtain ⟨v, hvc, hvu⟩ : ∃ v ∈ c, v ≠ u := by
      match c, hlen, hnd with
      | a :: b :: _, _, hnd' =>
        by_cases hau : a = u
        · refine ⟨b, by simp, ?_⟩
          intro hb; subst hau; subst hb
          simp at hnd'
        · exact ⟨a, by simp, hau⟩
    have hm : PV.C11.Mutual g u v := by
      rw [hceq] at hvc
      exact ((PV.C11.mem_comp hok hu v).mp hvc).2
    obtain ⟨c', hc', huc', _⟩ := tarjan_complete g hwf u v hu (Ne.symm hvu) hm.1 hm.2
    have := hpart.2.2 c' (fwd c' hc') c hc u huc' huc
    rw [← this]; exact hc'

/-- … hence the two outputs are permutations of each other -/
theorem tarjan_perm_cycles (g : G) (hwf : ∀ e ∈ g.edges, e.2 < g.n) (cs : List (List Nat))
    (h : cycles g = some cs) : (sccs g).Perm cs :=
  (List.perm_ext_iff_of_nodup (tarjan_nodup g) (PV.C11.C11_partition g cs h).1).mpr (tarjan_eq_cycles g hwf cs h)

/-! ## the literal mirror (`goStrongConnect`, with the `lowLinks` and `inStack` maps) computes the same -/

theorem popTo_append (v : Nat) (l : List Nat) : (popTo v l).1 ++ (popTo v l).2 = l := by
  induction l with
  | nil => rfl
  | cons x xs ih =>
    unfold popTo
    by_cases h : (x == v) = true
    · simp [h]
    · simp only [h]; simp [ih]

theorem goPop_eq (v : Nat) : ∀ (l : List Nat) (ins : List (Nat × Bool)),
    (goPop v l ins).1 = (popTo v l).1 ∧ (goPop v l ins).2.1 = (popTo v l).2 ∧
    ∀ x, ((goPop v l ins).2.2.lookup x).getD false =
      if x ∈ (popTo v l).1 then false else (ins.lookup x).getD false := by
  intro l
  induction l with
  | nil => intro ins; simp [goPop, popTo]
  | cons a xs ih =>
    intro ins
    unfold goPop popTo
    by_cases h : (a == v) = true
    · simp only [h, if_true, true_and]
      intro x
      simp only [List.lookup_cons, List.mem_singleton]
      by_cases hx : x = a
      · simp [hx]
      · have : (x == a) = false := by simpa using hx
        simp [this, hx]
    · obtain ⟨h1, h2, h3⟩ := ih ((a, false) :: ins)
      simp only [h]
      refine ⟨by simp [h1], by simp [h2], ?_⟩
      intro x
      have := h3 x
      simp only [List.lookup_cons] at this
      simp only [Bool.false_eq_true, if_false, List.mem_cons]
      rw [this]
      by_cases hx : x = a
      · simp [hx]
      · have hb : (x == a) = false := by simpa using hx
        simp [hb, hx]

/-- the relation between the two states -/
structure Sim (gs : GoState) (s : State) : Prop where
  index : gs.index = s.index
  indices : gs.indices = s.indices
  stack : gs.stack = s.stack
  comps : gs.components = s.components
  ok : gs.ok = s.ok
  /-- the `inStack` map is the membership test of the stack -/
  ins : ∀ x, gs.inStk x = s.stack.contains x
  nodup : s.stack.Nodup
  stkvis : ∀ x ∈ s.stack, s.idx x ≠ none

theorem Sim.idx {gs : GoState} {s : State} (h : Sim gs s) (x : Nat) : gs.idx x = s.idx x := by
  unfold GoState.idx State.idx; rw [h.indices]

theorem Sim.setLow {gs : GoState} {s : State} (h : Sim gs s) (x l : Nat) : Sim (gs.setLow x l) s :=
  ⟨h.index, h.indices, h.stack, h.comps, h.ok, h.ins, h.nodup, h.stkvis⟩

theorem low_setLow (gs : GoState) (x l y : Nat) : (gs.setLow x l).low y = if y = x then l else gs.low y := by
  unfold GoState.low GoState.setLow
  simp only [List.lookup_cons]
  by_cases h : y = x
  · simp [h]
  · have : (y == x) = false := by simpa using h
    simp [this, h]

/-- what one call guarantees about the pair of runs -/
structure SimPost (v : Nat) (gs : GoState) (s : State) (gs' : GoState) (r : Nat × State) : Prop where
  sim : Sim gs' r.2
  /-- `lowLinks[v]` is the returned lowlink -/
  low : gs'.low v = r.1
  /-- `lowLinks` of vertices visited before the call is untouched -/
  frame : ∀ x, s.idx x ≠ none → gs'.low x = gs.low x
  mono : ∀ x i, s.idx x = some i → r.2.idx x = some i

theorem sim_emit {gs : GoState} {s : State} (v : Nat) (h : Sim gs s) (hlow : gs.low v = (s.idx v).getD 0) :
    Sim (goFinish v gs) (emit v s) := by
  unfold goFinish emit
  rw [h.idx v, hlow]
  simp only [beq_self_eq_true, if_true]
  obtain ⟨h1, h2, h3⟩ := goPop_eq v gs.stack gs.inStack
  rw [h.stack] at h1 h2 h3
  have happ := popTo_append v s.stack
  have hnd := h.nodup
  rw [← happ] at hnd
  refine ⟨h.index, h.indices, ?_, ?_, h.ok, ?_, ?_, ?_⟩
  · show (goPop v gs.stack gs.inStack).2.1 = (popTo v s.stack).2
    rw [h.stack]; exact h2
  · show (if (goPop v gs.stack gs.inStack).1.length > 1 then _ else _) = (if (popTo v s.stack).1.length > 1 then _ else _)
    rw [h.stack, h1, h.comps]
  · intro x
    show ((goPop v gs.stack gs.inStack).2.2.lookup x).getD false = (popTo v s.stack).2.contains x
    rw [h.stack, h3 x]
    have hins := h.ins x
    unfold GoState.inStk at hins
    by_cases hx : x ∈ (popTo v s.stack).1
    · simp only [hx, if_true]
      have : x ∉ (popTo v s.stack).2 := fun hm => (List.nodup_append.mp hnd).2.2 x hx x hm rfl
      exact (by simpa using this : (popTo v s.stack).2.contains x = false).symm
    · simp only [hx, if_false]
      rw [hins]
      conv => lhs; rw [← happ]
      simp [hx]
  · exact (List.nodup_append.mp hnd).2.1
  · intro x hx
    exact h.stkvis x (by rw [← happ]; exact List.mem_append_right _ hx)

theorem sim_nofinish {gs : GoState} (v : Nat) (i : Nat) (hi : gs.idx v = some i) (hlow : gs.low v ≠ i) :
    goFinish v gs = gs := by
  unfold goFinish
  rw [hi, if_neg]
  simpa using hlow

theorem sim_push {gs : GoState} {s : State} (v : Nat) (h : Sim gs s) (hv : s.idx v = none) :
    Sim { gs with
        indices := (v, gs.index) :: gs.indices, lowLinks := (v, gs.index) :: gs.lowLinks, index := gs.index + 1,
        stack := v :: gs.stack, inStack := (v, true) :: gs.inStack } (push v s) := by
  refine ⟨?_, ?_, ?_, h.comps, h.ok, ?_, ?_, ?_⟩
  · show gs.index + 1 = s.index + 1
    rw [h.index]
  · show (v, gs.index) :: gs.indices = (v, s.index) :: s.indices
    rw [h.index, h.indices]
  · show v :: gs.stack = v :: s.stack
    rw [h.stack]
  · intro x
    show (List.lookup x ((v, true) :: gs.inStack)).getD false = (v :: s.stack).contains x
    have hins := h.ins x
    unfold GoState.inStk at hins
    simp only [List.lookup_cons, List.contains_cons]
    by_cases hx : x = v
    · simp [hx]
    · have hb : (x == v) = false := by simpa using hx
      simp [hb, hins]
  · show (v :: s.stack).Nodup
    exact List.nodup_cons.mpr ⟨fun hm => h.stkvis v hm hv, h.nodup⟩
  · intro x hx
    show (push v s).idx x ≠ none
    rw [idx_push]
    by_cases e : x = v
    · simp [e]
    · simp only [e, if_false]
      rcases List.mem_cons.mp hx with rfl | hx
      · exact absurd rfl e
      · exact h.stkvis x hx

/-- the two successor loops run in lock step -/
theorem sim_fold {g : G} {f v : Nat} {gs : GoState} {s : State}
    (IH : ∀ w gsc sc, Sim gsc sc → sc.idx w = none →
      SimPost w gsc sc (goStrongConnect g f w gsc) (strongConnect g f w sc))
    (hv : s.idx v = none) :
    ∀ (ws : List Nat) (gsc : GoState) (acc : Nat × State), Sim gsc acc.2 → gsc.low v = acc.1 →
      (∀ x, s.idx x ≠ none → gsc.low x = gs.low x) →
      (∀ x i, (push v s).idx x = some i → acc.2.idx x = some i) →
      Sim (ws.foldl (goStep (goStrongConnect g f) v) gsc) (ws.foldl (step (strongConnect g f)) acc).2 ∧
      (ws.foldl (goStep (goStrongConnect g f) v) gsc).low v = (ws.foldl (step (strongConnect g f)) acc).1 ∧
      (∀ x, s.idx x ≠ none → (ws.foldl (goStep (goStrongConnect g f) v) gsc).low x = gs.low x) ∧
      (∀ x i, (push v s).idx x = some i → (ws.foldl (step (strongConnect g f)) acc).2.idx x = some i) := by
  intro ws
  induction ws with
  | nil => intro gsc acc h1 h2 h3 h4; exact ⟨h1, h2, h3, h4⟩
  | cons w ws ih =>
    intro gsc acc h1 h2 h3 h4
    obtain ⟨low, sc⟩ := acc
    rw [List.foldl_cons, List.foldl_cons]
    have hvne : ∀ x, s.idx x ≠ none → x ≠ v := fun x hx e => by rw [e] at hx; exact hx hv
    have hvsc : sc.idx v = some s.index := h4 v _ (idx_push_self v s)
    have hmono_s : ∀ x, s.idx x ≠ none → sc.idx x ≠ none := by
      intro x hx
      have := h4 x _ ((ext_push hv).idx x _ (idx_of_vis hx))
      exact vis_of_idx this
    cases hiw : sc.idx w with
    | none =>
      have hp := IH w gsc sc h1 hiw
      have hne : w ≠ v := fun e => by rw [e, hvsc] at hiw; cases hiw
      have e1 : goStep (goStrongConnect g f) v gsc w = (goStrongConnect g f w gsc).relax v w := by
        unfold goStep; rw [h1.idx w, hiw]
      have e2 : step (strongConnect g f) (low, sc) w =
          (min low (strongConnect g f w sc).1, (strongConnect g f w sc).2) := by
        unfold step; simp only [hiw]
      rw [e1, e2]
      have hlv : (goStrongConnect g f w gsc).low v = low := by
        rw [hp.frame v (by rw [hvsc]; simp)]; exact h2
      apply ih
      · exact hp.sim.setLow _ _
      · show ((goStrongConnect g f w gsc).relax v w).low v = min low (strongConnect g f w sc).1
        unfold GoState.relax
        rw [low_setLow, if_pos rfl, hlv, hp.low]
      · intro x hx
        unfold GoState.relax
        rw [low_setLow, if_neg (hvne x hx), hp.frame x (hmono_s x hx)]
        exact h3 x hx
      · intro x i hx
        exact hp.mono x i (h4 x i hx)
    | some iw =>
      have hins : gsc.inStk w = sc.stack.contains w := h1.ins w
      by_cases hc : sc.stack.contains w = true
      · have e1 : goStep (goStrongConnect g f) v gsc w = gsc.setLow v (min (gsc.low v) iw) := by
          unfold goStep; rw [h1.idx w, hiw]; simp only [hins, hc, if_true]
        have e2 : step (strongConnect g f) (low, sc) w = (min low iw, sc) := by
          unfold step; simp only [hiw, hc, if_true]
        rw [e1, e2]
        apply ih
        · exact h1.setLow _ _
        · rw [low_setLow, if_pos rfl]
          show min (gsc.low v) iw = min low iw
          rw [show gsc.low v = low from h2]
        · intro x hx
          rw [low_setLow, if_neg (hvne x hx)]
          exact h3 x hx
        · exact h4
      · have hc' : sc.stack.contains w = false := Bool.eq_false_iff.mpr hc
        have e1 : goStep (goStrongConnect g f) v gsc w = gsc := by
          unfold goStep; rw [h1.idx w, hiw]; simp only [hins, hc', Bool.false_eq_true, if_false]
        have e2 : step (strongConnect g f) (low, sc) w = (low, sc) := by
          unfold step; simp only [hiw, hc]; rfl
        rw [e1, e2]
        exact ih gsc (low, sc) h1 h2 h3 h4

theorem sim_sc (g : G) : ∀ (f v : Nat) (gs : GoState) (s : State), Sim gs s → s.idx v = none →
    SimPost v gs s (goStrongConnect g f v gs) (strongConnect g f v s) := by
  intro f
  induction f with
  | zero =>
    intro v gs s h hv
    have hvne : ∀ x, s.idx x ≠ none → x ≠ v := fun x hx e => by rw [e] at hx; exact hx hv
    refine ⟨⟨h.index, h.indices, h.stack, h.comps, rfl, h.ins, h.nodup, h.stkvis⟩, ?_, ?_, fun _ _ hx => hx⟩
    · show (gs.setLow v gs.index).low v = s.index
      rw [low_setLow, if_pos rfl, h.index]
    · intro x hx
      show (gs.setLow v gs.index).low x = gs.low x
      rw [low_setLow, if_neg (hvne x hx)]
  | succ f IH =>
    intro v gs s h hv
    have hvne : ∀ x, s.idx x ≠ none → x ≠ v := fun x hx e => by rw [e] at hx; exact hx hv
    have hs1 := sim_push v h hv
    obtain ⟨f1, f2, f3, f4⟩ := sim_fold (g := g) (f := f) (gs := gs) IH hv (succs g v) _ (s.index, push v s) hs1
      (by
        show (GoState.setLow _ v gs.index).low v = s.index
        rw [low_setLow, if_pos rfl, h.index])
      (by
        intro x hx
        show (GoState.setLow _ v gs.index).low x = gs.low x
        rw [low_setLow, if_neg (hvne x hx)])
      (fun _ _ hx => hx)
    unfold goStrongConnect strongConnect
    generalize (succs g v).foldl (step (strongConnect g f)) (s.index, push v s) = r at f1 f2 f3 f4 ⊢
    generalize (succs g v).foldl (goStep (goStrongConnect g f) v) _ = gs2 at f1 f2 f3 f4 ⊢
    obtain ⟨low, s2⟩ := r
    have hv2 : s2.idx v = some s.index := f4 v _ (idx_push_self v s)
    have hmono : ∀ x i, s.idx x = some i → s2.idx x = some i :=
      fun x i hx => f4 x i ((ext_push hv).idx x i hx)
    by_cases hroot : low = s.index
    · have hb : (low == s.index) = true := by simpa using hroot
      simp only [hb, if_true]
      have hl : gs2.low v = (s2.idx v).getD 0 := by rw [hv2]; exact (show gs2.low v = low from f2).trans hroot
      have hsim := sim_emit v f1 hl
      refine ⟨hsim, ?_, ?_, ?_⟩
      · show (goFinish v gs2).low v = low
        have : (goFinish v gs2).lowLinks = gs2.lowLinks := by
          unfold goFinish; split <;> rfl
        unfold GoState.low; rw [this]; exact f2
      · intro x hx
        have : (goFinish v gs2).lowLinks = gs2.lowLinks := by
          unfold goFinish; split <;> rfl
        show (goFinish v gs2).low x = gs.low x
        unfold GoState.low; rw [this]; exact f3 x hx
      · intro x i hx
        show (emit v s2).idx x = some i
        have : (emit v s2).indices = s2.indices := rfl
        unfold State.idx; rw [this]; exact hmono x i hx
    · have hb : (low == s.index) = false := by simpa using hroot
      simp only [hb, Bool.false_eq_true, if_false]
      have hfin : goFinish v gs2 = gs2 := by
        apply sim_nofinish v s.index
        · rw [f1.idx v]; exact hv2
        · intro e; exact hroot ((show gs2.low v = low from f2).symm.trans e)
      rw [hfin]
      exact ⟨f1, f2, f3, hmono⟩

theorem sim_init : Sim GoState.init State.init :=
  ⟨rfl, rfl, rfl, rfl, rfl, fun _ => rfl, List.nodup_nil, fun _ h => by cases h⟩

theorem sim_outer (g : G) : ∀ (ws : List Nat) (gs : GoState) (s : State), Sim gs s →
    Sim (ws.foldl (fun s v => match s.idx v with
        | none => goStrongConnect g g.n v s
        | some _ => s) gs)
      (ws.foldl (fun s v => match s.idx v with
        | none => (strongConnect g g.n v s).2
        | some _ => s) s) := by
  intro ws
  induction ws with
  | nil => intro gs s h; exact h
  | cons v ws ih =>
    intro gs s h
    rw [List.foldl_cons, List.foldl_cons]
    apply ih
    rw [h.idx v]
    cases hiv : s.idx v with
    | none => exact (sim_sc g g.n v gs s h hiv).sim
    | some i => exact h

/-- **The literal mirror and the verified one agree** on every shared field; `inStack` is stack membership. -/
theorem goRun_sim (g : G) : Sim (goRun g) (run g) := sim_outer g _ _ _ sim_init

theorem goSccs_eq (g : G) : goSccs g = sccs g := (goRun_sim g).comps

theorem goRun_ok (g : G) : (goRun g).ok = true := (goRun_sim g).ok.trans (run_ok g)

/-- all theorems transfer; e.g. the specification -/
theorem goTarjan_spec (g : G) (hwf : ∀ e ∈ g.edges, e.2 < g.n) (u v : Nat) (hu : u < g.n) (hne : u ≠ v) :
    (∃ c ∈ goSccs g, u ∈ c ∧ v ∈ c) ↔ (Reach g u v ∧ Reach g v u) := by
  rw [goSccs_eq]; exact tarjan_spec g hwf u v hu hne

example : goSccs { n := 7, edges := [(0,1),(1,2),(2,0),(3,4),(4,3),(5,5),(2,3),(6,0)] } = [[3,4],[0,1,2]] := by decide

end PV.Tarjan

#print axioms PV.Tarjan.run_ok
#print axioms PV.Tarjan.strongConnect_ok
#print axioms PV.Tarjan.tarjan_sound
#print axioms PV.Tarjan.tarjan_maximal
#print axioms PV.Tarjan.tarjan_complete
#print axioms PV.Tarjan.tarjan_disjoint
#print axioms PV.Tarjan.tarjan_disjoint'
#print axioms PV.Tarjan.tarjan_spec
#print axioms PV.Tarjan.tarjan_perm_cycles
#print axioms PV.Tarjan.goSccs_eq
#print axioms PV.Tarjan.goRun_ok
#print axioms PV.Tarjan.goTarjan_spec
