import PV.Model.Clone
import PV.Proofs.ArithLemmas
import Mathlib.Data.List.Sort
import Mathlib.Data.List.Nodup
/-! Helper lemmas about `PV.Clone` (for C08, C09). -/
namespace PV.Clone
open PV PV.MA PV.Generated

variable {F : Type} [MonoArith F]

/-! ### the translated per-pair decisions, as specifications -/

theorem classify_spec (c : Cfg F) (sim dist : F) :
    (classify c sim dist = 1 ↔ c.t1 ≤ sim) ∧
    (classify c sim dist = 2 ↔ c.t2 ≤ sim ∧ sim < c.t1) ∧
    (classify c sim dist = 3 ↔ c.t3 ≤ sim ∧ sim < c.t2 ∧ sim < c.t1) ∧
    (classify c sim dist = 4 ↔ c.t4 ≤ sim ∧ sim < c.t3 ∧ sim < c.t2 ∧ sim < c.t1) ∧
    (classify c sim dist = 0 ↔ sim < c.t4 ∧ sim < c.t3 ∧ sim < c.t2 ∧ sim < c.t1) := by
  unfold classify CloneBands.classifyCloneType
  simp only [ge_iff_le]
  by_cases h1 : c.t1 ≤ sim
  · simp [h1, lt_iff]
  · by_cases h2 : c.t2 ≤ sim
    · simp [h1, h2, lt_iff]
    · by_cases h3 : c.t3 ≤ sim
      · simp [h1, h2, h3, lt_iff]
      · by_cases h4 : c.t4 ≤ sim
        · simp [h1, h2, h3, h4, lt_iff]
        · simp [h1, h2, h3, h4, lt_iff]

theorem overlap_spec {a b : Frag} :
    overlap (F := F) a b = true ↔ (a.file = b.file ∧ ¬ (a.e < b.s ∨ b.e < a.s)) := by
  unfold overlap CloneOverlap.isOverlappingLocation
  by_cases hf : a.file = b.file
  · simp [hf]
  · have : (a.file : Int) ≠ (b.file : Int) := by exact_mod_cast hf
    simp [hf, this]

theorem overlap_symm (a b : Frag) : overlap (F := F) a b = overlap (F := F) b a := by
  rw [Bool.eq_iff_iff, overlap_spec, overlap_spec]
  constructor
  · rintro ⟨h1, h2⟩; exact ⟨h1.symm, fun h => h2 (h.symm)⟩
  · rintro ⟨h1, h2⟩; exact ⟨h1.symm, fun h => h2 (h.symm)⟩

theorem included_spec {c : Cfg F} {a : Frag} :
    included c a = true ↔ (c.minNodes ≤ a.size ∧ c.minLines ≤ a.lines) := by
  unfold included CloneInclude.shouldIncludeFragment
  by_cases h1 : (a.size : Int) < c.minNodes
  · simp [h1]; omega
  · by_cases h2 : (a.lines : Int) < c.minLines
    · simp [h1, h2]; omega
    · simp [h1, h2]; omega

/-- the reporting threshold (duplicated in C08 as `effThr`) -/
def effThr' (c : Cfg F) : F := if c.simThr ≤ (Arith.lit 0 1 : F) then c.t4 else c.simThr

theorem significant_spec {c : Cfg F} {a b : Frag} {sim dist : F} :
    significant c a b sim dist = true ↔
      ((if c.simThr ≤ (Arith.lit 0 1 : F) then c.t4 else c.simThr) ≤ sim ∧
       ((Arith.lit 0 1 : F) < c.maxDist → dist ≤ c.maxDist) ∧
       (Arith.ofInt (c.minNodes : Int) : F) ≤ Arith.fmin (Arith.ofInt (a.size : Int) : F) (Arith.ofInt (b.size : Int))) := by
  unfold significant CloneSignificant.isSignificantClone
  simp only [ge_iff_le, gt_iff_lt]
  by_cases h0 : c.simThr ≤ (Arith.lit 0 1 : F)
  · simp only [h0, if_true]
    by_cases hs : sim < c.t4
    · simp [hs, lt_iff.mp hs]
    · have hs' : c.t4 ≤ sim := not_lt.mp hs
      by_cases hd : (Arith.lit 0 1 : F) < c.maxDist ∧ c.maxDist < dist
      · simp [hs, hs', hd, lt_iff.mp hd.2]
      · simp only [hs, hd, if_false, decide_eq_true_eq, hs', true_and]
        constructor
        · intro h; exact ⟨fun hp => not_lt.mp (fun hl => hd ⟨hp, hl⟩), h⟩
        · intro h; exact h.2
  · simp only [h0, if_false]
    by_cases hs : sim < c.simThr
    · simp [hs, lt_iff.mp hs]
    · have hs' : c.simThr ≤ sim := not_lt.mp hs
      by_cases hd : (Arith.lit 0 1 : F) < c.maxDist ∧ c.maxDist < dist
      · simp [hs, hs', hd, lt_iff.mp hd.2]
      · simp only [hs, hd, if_false, decide_eq_true_eq, hs', true_and]
        constructor
        · intro h; exact ⟨fun hp => not_lt.mp (fun hl => hd ⟨hp, hl⟩), h⟩
        · intro h; exact h.2

theorem le_fmin_iff (m a b : F) : m ≤ Arith.fmin a b ↔ m ≤ a ∧ m ≤ b :=
  ⟨fun h => ⟨le_tr h (MonoArith.fmin_le_l a b), le_tr h (MonoArith.fmin_le_r a b)⟩, fun h => MonoArith.le_fmin a b m h.1 h.2⟩

theorem significant_symm (c : Cfg F) (a b : Frag) (sim dist : F) :
    significant c a b sim dist = significant c b a sim dist := by
  rw [Bool.eq_iff_iff, significant_spec, significant_spec, le_fmin_iff, le_fmin_iff]
  constructor <;> (rintro ⟨h1, h2, h3, h4⟩; exact ⟨h1, h2, h4, h3⟩)

theorem svcKeep_spec {c : Cfg F} {p : Pair F} :
    svcKeep c p = true ↔ (c.minSim ≤ p.sim ∧ p.sim ≤ c.maxSim ∧ p.ty ∈ c.enabled) := by
  unfold svcKeep
  simp only [gt_iff_lt, Bool.and_eq_true, Bool.not_eq_true', Bool.or_eq_false_iff, decide_eq_false_iff_not, List.contains_iff_mem, MA.not_lt]
  tauto

/-! ### the pair loops -/

/-- the order-free core of `mkPair` -/
def core (c : Cfg F) (a b : Frag) (m : Option (F × F)) : Option (F × F × Int) :=
  if overlap (F := F) a b then none else
  match m with
  | none => none
  | some (sim, dist) =>
    if classify c sim dist = 0 then none else
    if significant c a b sim dist then some (sim, dist, classify c sim dist) else none

theorem core_symm (c : Cfg F) (a b : Frag) (m : Option (F × F)) : core c a b m = core c b a m := by
  unfold core
  rw [overlap_symm a b]
  cases m with
  | none => rfl
  | some sd => obtain ⟨s, d⟩ := sd; simp only [significant_symm c a b]

theorem mkPair_eq_core (c : Cfg F) (fr : Nat → Frag) (cmp : Cmp F) (i j : Nat) :
    mkPair c fr cmp i j = (core c (fr i) (fr j) (cmp i j)).map fun x => ⟨i, j, x.1, x.2.1, x.2.2⟩ := by
  unfold mkPair core
  by_cases ho : overlap (F := F) (fr i) (fr j) = true
  · simp [ho]
  · simp only [ho, Bool.false_eq_true, if_false]
    cases cmp i j with
    | none => rfl
    | some sd =>
      obtain ⟨s, d⟩ := sd
      simp only
      by_cases h0 : classify c s d = 0
      · simp [h0]
      · simp only [h0, if_false]
        by_cases hs : significant c (fr i) (fr j) s d = true
        · simp [hs]
        · simp [hs]

theorem mkPair_some {c : Cfg F} {fr : Nat → Frag} {cmp : Cmp F} {i j : Nat} {p : Pair F} :
    mkPair c fr cmp i j = some p ↔
      (overlap (F := F) (fr p.i) (fr p.j) = false ∧ cmp p.i p.j = some (p.sim, p.dist) ∧ p.ty = classify c p.sim p.dist ∧ p.ty ≠ 0 ∧
       significant c (fr p.i) (fr p.j) p.sim p.dist = true) ∧ p.i = i ∧ p.j = j := by
  unfold mkPair
  by_cases ho : overlap (F := F) (fr i) (fr j) = true
  · simp only [ho, if_true]
    constructor
    · intro h; cases h
    · rintro ⟨⟨h1, _⟩, hi, hj⟩; rw [hi, hj, ho] at h1; cases h1
  · have ho' : overlap (F := F) (fr i) (fr j) = false := by simpa using ho
    simp only [ho', Bool.false_eq_true, if_false]
    cases hc : cmp i j with
    | none =>
      simp only
      constructor
      · intro h; cases h
      · rintro ⟨⟨_, h2, _⟩, hi, hj⟩; rw [hi, hj, hc] at h2; cases h2
    | some sd =>
      obtain ⟨s, d⟩ := sd
      simp only
      by_cases h0 : classify c s d = 0
      · simp only [h0, if_true]
        constructor
        · intro h; cases h
        · rintro ⟨⟨_, h2, h3, h4, _⟩, hi, hj⟩
          rw [hi, hj, hc] at h2
          injection h2 with h2; injection h2 with hs hd
          rw [← hs, ← hd, h0] at h3; exact absurd h3 h4
      · simp only [h0, if_false]
        by_cases hs : significant c (fr i) (fr j) s d = true
        · simp only [hs, if_true]
          constructor
          · intro h; injection h with h; subst h
            exact ⟨⟨ho', hc, rfl, h0, hs⟩, rfl, rfl⟩
          · rintro ⟨⟨_, h2, h3, _, _⟩, hi, hj⟩
            rw [hi, hj, hc] at h2
            injection h2 with h2; injection h2 with hs' hd'
            obtain ⟨pi, pj, psim, pdist, pty⟩ := p
            simp only at hi hj hs' hd' h3
            subst hi hj hs' hd' h3; rfl
        · simp only [hs, Bool.false_eq_true, if_false]
          constructor
          · intro h; cases h
          · rintro ⟨⟨_, h2, _, _, h5⟩, hi, hj⟩
            rw [hi, hj, hc] at h2
            injection h2 with h2; injection h2 with hs' hd'
            rw [hi, hj, ← hs', ← hd'] at h5; exact absurd h5 hs

theorem mem_stdPairs {n i j : Nat} : (i, j) ∈ stdPairs n ↔ i < j ∧ j < n := by
  unfold stdPairs
  simp only [List.mem_flatMap, List.mem_range, List.mem_map, List.mem_range', Prod.mk.injEq]
  constructor
  · rintro ⟨a, ha, b, ⟨k, hk, rfl⟩, rfl, rfl⟩; omega
  · rintro ⟨h1, h2⟩
    exact ⟨i, by omega, j, ⟨j - (i + 1), by omega, by omega⟩, rfl, rfl⟩

theorem mem_standard {c : Cfg F} {fr : Nat → Frag} {cmp : Cmp F} {n : Nat} {p : Pair F} :
    p ∈ standard c fr cmp n ↔ p.i < p.j ∧ p.j < n ∧ mkPair c fr cmp p.i p.j = some p := by
  unfold standard
  simp only [List.mem_filterMap, Prod.exists]
  constructor
  · rintro ⟨i, j, hij, hmk⟩
    obtain ⟨_, hi, hj⟩ := mkPair_some.mp hmk
    subst hi hj
    obtain ⟨h1, h2⟩ := mem_stdPairs.mp hij
    exact ⟨h1, h2, hmk⟩
  · rintro ⟨h1, h2, hmk⟩
    exact ⟨p.i, p.j, mem_stdPairs.mpr ⟨h1, h2⟩, hmk⟩

theorem mem_sortDesc {l : List (Pair F)} {p : Pair F} : p ∈ sortDesc l ↔ p ∈ l :=
  (List.mergeSort_perm l _).mem_iff

theorem mem_report {c : Cfg F} {fr : Nat → Frag} {cmp : Cmp F} {n : Nat} {p : Pair F}
    (h : p ∈ report c fr cmp n) : p ∈ standard c fr cmp n ∧ svcKeep c p = true := by
  unfold report sortTrunc at h
  obtain ⟨h1, h2⟩ := List.mem_filter.mp h
  exact ⟨mem_sortDesc.mp (List.mem_of_mem_take h1), h2⟩

theorem mem_report_of_not_truncated {c : Cfg F} {fr : Nat → Frag} {cmp : Cmp F} {n : Nat} {p : Pair F}
    (ht : (standard c fr cmp n).length ≤ c.maxPairs) (h : p ∈ standard c fr cmp n) (hk : svcKeep c p = true) :
    p ∈ report c fr cmp n := by
  unfold report sortTrunc
  apply List.mem_filter.mpr
  refine ⟨?_, hk⟩
  rw [List.take_of_length_le (by rw [sortDesc, List.length_mergeSort]; exact ht)]
  exact mem_sortDesc.mpr h

theorem reported_iff {c : Cfg F} {fr : Nat → Frag} {cmp : Cmp F} {n u v : Nat} {s d : F} {t : Int}
    (hsym : ∀ a b, cmp a b = cmp b a) (hu : u < n) (hv : v < n) (huv : u ≠ v) :
    ReportedIn (standard c fr cmp n) u v s d t ↔ core c (fr u) (fr v) (cmp u v) = some (s, d, t) := by
  constructor
  · rintro ⟨p, hp, hloc, hs, hd, ht⟩
    obtain ⟨_, _, hmk⟩ := mem_standard.mp hp
    rw [mkPair_eq_core] at hmk
    obtain ⟨x, hx, hxp⟩ := Option.map_eq_some_iff.mp hmk
    have hxv : x = (s, d, t) := by
      obtain ⟨x1, x2, x3⟩ := x
      rw [← hxp] at hs hd ht; simp only at hs hd ht; rw [hs, hd, ht]
    rcases hloc with ⟨h1, h2⟩ | ⟨h1, h2⟩
    · rw [h1, h2] at hx; rw [hx, hxv]
    · rw [h1, h2, core_symm, hsym] at hx; rw [hx, hxv]
  · intro h
    rcases Nat.lt_or_gt_of_ne huv with hlt | hgt
    · refine ⟨⟨u, v, s, d, t⟩, mem_standard.mpr ⟨hlt, hv, ?_⟩, Or.inl ⟨rfl, rfl⟩, rfl, rfl, rfl⟩
      rw [mkPair_eq_core]; simp only; rw [h]; rfl
    · refine ⟨⟨v, u, s, d, t⟩, mem_standard.mpr ⟨hgt, hu, ?_⟩, Or.inr ⟨rfl, rfl⟩, rfl, rfl, rfl⟩
      rw [mkPair_eq_core]; simp only; rw [core_symm, hsym, h]; rfl

end PV.Clone
