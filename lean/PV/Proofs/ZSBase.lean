import PV.Proofs.ZSTed
import PV.Proofs.ZSForest
/-!
Correctness of the Zhang–Shasha tables of `PV.ZS` against the specification `PV.TED.ted`, with the key
roots read from the `lml` array (`PV.ZS.keyroots`): inner-DP invariant, frame, outer-loop invariant,
`apted_ok`.  For ALL trees and ALL cost models (no size bound).  The final theorem is in `ZSCorrect`.
-/
set_option linter.unusedSimpArgs false
namespace PV.ZSProof
open PV.TED PV.ZS

/-! ## one tree: subtrees, left-most leaves, prefix forests relative to a key root -/

/-- subtree rooted at post-order position `x` -/
def sub (T : Tree) (x : Nat) : Tree := nthL [T] x

/-- specification-level left-most leaf of position `x` -/
def lmlS (T : Tree) (x : Nat) : Nat := x + 1 - (sub T x).size

theorem sizeL_single (T : Tree) : sizeL [T] = T.size := by simp [sizeL]

theorem sub_size_le (T : Tree) (x : Nat) (h : x < T.size) : (sub T x).size ≤ x + 1 :=
  nthL_size_le [T] x (by rw [sizeL_single]; exact h)

theorem lmlS_le (T : Tree) (x : Nat) : lmlS T x ≤ x := by
  have := size_pos (sub T x); unfold lmlS; omega

theorem sub_root (T : Tree) : sub T (T.size - 1) = T := by
  cases T with
  | node a cs =>
    unfold sub
    rw [show (Tree.node a cs).size - 1 = sizeL cs by simp [Tree.size]]
    exact nthL_eq

theorem sub_sub (T : Tree) (k x : Nat) (hk : k < T.size) (h1 : lmlS T k ≤ x) (h2 : x ≤ k) :
    sub T x = nthL [sub T k] (x - lmlS T k) :=
  nthL_nthL [T] k (by rw [sizeL_single]; exact hk) x h1 h2

theorem sub_size_eq (T : Tree) (k : Nat) (hk : k < T.size) : (sub T k).size = k + 1 - lmlS T k := by
  have := sub_size_le T k hk; unfold lmlS; omega

/-- intervals `[lml k, k]` are nested or disjoint -/
theorem lmlS_laminar (T : Tree) (k x : Nat) (hk : k < T.size) (h1 : lmlS T k ≤ x) (h2 : x ≤ k) :
    lmlS T k ≤ lmlS T x := by
  have hs := sub_sub T k x hk h1 h2
  have hsz := sub_size_eq T k hk
  have hle := nthL_size_le [sub T k] (x - lmlS T k) (by rw [sizeL_single]; omega)
  rw [← hs] at hle
  have := sub_size_le T x (by omega)
  unfold lmlS at *
  omega

/-- the REVERSED forest of the nodes `lml i … x'-1` (row `x'` of `fd` for key root `i`) -/
def G (T : Tree) (i x' : Nat) : List Tree := preL [sub T i] (x' - lmlS T i)

theorem G_base (T : Tree) (i : Nat) : G T i (lmlS T i) = [] := by
  unfold G; rw [Nat.sub_self, preL_zero]

theorem G_succ (T : Tree) (i x : Nat) (hi : i < T.size) (h1 : lmlS T i ≤ x) (h2 : x ≤ i) :
    G T i (x + 1) = sub T x :: G T i (lmlS T x) := by
  have hsz := sub_size_eq T i hi
  have hlam := lmlS_laminar T i x hi h1 h2
  have hsx := sub_size_le T x (by omega)
  unfold G
  rw [show x + 1 - lmlS T i = (x - lmlS T i) + 1 by omega,
    preL_succ [sub T i] (x - lmlS T i) (by rw [sizeL_single]; omega), ← sub_sub T i x hi h1 h2]
  congr 2
  unfold lmlS at *
  omega

theorem G_children (T : Tree) (i x : Nat) (hi : i < T.size) (h1 : lmlS T i ≤ x) (h2 : x ≤ i)
    (a : Nat) (as : List Tree) (hn : sub T x = .node a as) :
    as.reverse ++ G T i (lmlS T x) = G T i x := by
  have hsz := sub_size_eq T i hi
  have hlam := lmlS_laminar T i x hi h1 h2
  have hsx := sub_size_le T x (by omega)
  have hs := sub_sub T i x hi h1 h2
  rw [hn] at hs
  have := preL_children [sub T i] (x - lmlS T i) (by rw [sizeL_single]; omega) a as hs.symm
  unfold G
  rw [← this]
  congr 2
  rw [← hn]
  unfold lmlS at *
  omega

theorem label_node (t : Tree) : ∃ as, t = .node (label t) as := by
  cases t with
  | node a as => exact ⟨as, rfl⟩


/-! ## the recurrences of the specification, read on prefix forests -/

theorem ted_G_del (c : Cost) (T : Tree) (i x : Nat) (hi : i < T.size) (h1 : lmlS T i ≤ x) (h2 : x ≤ i) :
    ted c (G T i (x + 1)) [] = ted c (G T i x) [] + c.del (label (sub T x)) := by
  obtain ⟨as, hn⟩ := label_node (sub T x)
  rw [G_succ T i x hi h1 h2, ← G_children T i x hi h1 h2 _ as hn]
  generalize G T i (lmlS T x) = F
  rw [hn, ted_cons_nil]; simp [label]

theorem ted_G_ins (c : Cost) (T : Tree) (j y : Nat) (hj : j < T.size) (h1 : lmlS T j ≤ y) (h2 : y ≤ j) :
    ted c [] (G T j (y + 1)) = ted c [] (G T j y) + c.ins (label (sub T y)) := by
  obtain ⟨bs, hn⟩ := label_node (sub T y)
  rw [G_succ T j y hj h1 h2, ← G_children T j y hj h1 h2 _ bs hn]
  generalize G T j (lmlS T y) = F
  rw [hn, ted_nil_cons]; simp [label]

/-- general cell (apted.go:316-324) -/
theorem ted_G_rec (c : Cost) (T₁ T₂ : Tree) (i j x y : Nat) (hi : i < T₁.size) (hj : j < T₂.size)
    (hx1 : lmlS T₁ i ≤ x) (hx2 : x ≤ i) (hy1 : lmlS T₂ j ≤ y) (hy2 : y ≤ j) :
    ted c (G T₁ i (x + 1)) (G T₂ j (y + 1)) =
      min (ted c (G T₁ i x) (G T₂ j (y + 1)) + c.del (label (sub T₁ x)))
     (min (ted c (G T₁ i (x + 1)) (G T₂ j y) + c.ins (label (sub T₂ y)))
          (ted c (G T₁ i (lmlS T₁ x)) (G T₂ j (lmlS T₂ y)) + ted c [sub T₁ x] [sub T₂ y])) := by
  obtain ⟨as, hn⟩ := label_node (sub T₁ x)
  obtain ⟨bs, hm⟩ := label_node (sub T₂ y)
  rw [G_succ T₁ i x hi hx1 hx2, G_succ T₂ j y hj hy1 hy2,
    ← G_children T₁ i x hi hx1 hx2 _ as hn, ← G_children T₂ j y hj hy1 hy2 _ bs hm]
  generalize G T₁ i (lmlS T₁ x) = F
  generalize G T₂ j (lmlS T₂ y) = H
  rw [hn, hm, ted_cons_cons_zs]; simp [label]

/-- cell on both left-most paths (apted.go:305-315): the forests are single trees -/
theorem ted_G_path (c : Cost) (T₁ T₂ : Tree) (i j x y : Nat) (hi : i < T₁.size) (hj : j < T₂.size)
    (hx1 : lmlS T₁ i ≤ x) (hx2 : x ≤ i) (hy1 : lmlS T₂ j ≤ y) (hy2 : y ≤ j)
    (hx : lmlS T₁ x = lmlS T₁ i) (hy : lmlS T₂ y = lmlS T₂ j) :
    ted c [sub T₁ x] [sub T₂ y] =
      min (ted c (G T₁ i x) (G T₂ j (y + 1)) + c.del (label (sub T₁ x)))
     (min (ted c (G T₁ i (x + 1)) (G T₂ j y) + c.ins (label (sub T₂ y)))
          (ted c (G T₁ i x) (G T₂ j y) + c.ren (label (sub T₁ x)) (label (sub T₂ y)))) := by
  obtain ⟨as, hn⟩ := label_node (sub T₁ x)
  obtain ⟨bs, hm⟩ := label_node (sub T₂ y)
  have e1 := G_succ T₁ i x hi hx1 hx2
  have e2 := G_succ T₂ j y hj hy1 hy2
  have e3 := G_children T₁ i x hi hx1 hx2 _ as hn
  have e4 := G_children T₂ j y hj hy1 hy2 _ bs hm
  rw [hx, G_base] at e1 e3
  rw [hy, G_base] at e2 e4
  rw [e1, e2, ← e3, ← e4, hn, hm, ted_cons_cons]
  simp [label, ted_nil_nil]

theorem G_path (T : Tree) (i x : Nat) (hi : i < T.size) (h1 : lmlS T i ≤ x) (h2 : x ≤ i)
    (hx : lmlS T x = lmlS T i) : G T i (x + 1) = [sub T x] := by
  rw [G_succ T i x hi h1 h2, hx, G_base]


/-! ## the arrays of the mirror describe the tree -/

structure Repr (T : Tree) (p : Post) : Prop where
  n : p.n = T.size
  lab : ∀ x, x < T.size → p.lab x = label (sub T x)
  lml : ∀ x, x < T.size → p.lml x = lmlS T x

theorem postT_eq (T : Tree) : postT 0 T = postL 0 [T] := by simp [postL]

theorem mkPost_repr (T : Tree) : Repr T (mkPost T) := by
  refine ⟨?_, ?_, ?_⟩
  · simp [mkPost, postT_eq, postL_length, sizeL]
  · intro x hx
    have := postL_get [T] x (by rw [sizeL_single]; exact hx) 0
    simp [mkPost, postT_eq, this, sub]
  · intro x hx
    have := postL_get [T] x (by rw [sizeL_single]; exact hx) 0
    simp [mkPost, postT_eq, this, sub, lmlS]

/-! ## loops -/

theorem forRange_inv {σ : Type} (f : Nat → σ → σ) (lo : Nat) (P : Nat → σ → Prop) :
    ∀ (n : Nat) (s : σ), P lo s → (∀ k st, lo ≤ k → k < lo + n → P k st → P (k + 1) (f k st)) →
      P (lo + n) (forRange f lo n s) := by
  intro n
  induction n with
  | zero => intro s h0 _; exact h0
  | succ n ih =>
    intro s h0 hs
    exact hs (lo + n) _ (by omega) (by omega) (ih s h0 (fun k st h1 h2 => hs k st h1 (by omega)))

theorem setAt_apply (f : Table) (a b v x y : Nat) :
    setAt f a b v x y = if x = a ∧ y = b then v else f x y := rfl


/-! ## computeForestDistance for one pair of key roots -/

section Inner
variable (c : Cost) (T₁ T₂ : Tree) (p₁ p₂ : Post) (R₁ : Repr T₁ p₁) (R₂ : Repr T₂ p₂)
variable (i j : Nat) (hi : i < T₁.size) (hj : j < T₂.size)

/-- the specification value of `td[x+1][y+1]` -/
abbrev TD (x y : Nat) : Nat := ted c [sub T₁ x] [sub T₂ y]

/-- the specification value of `fd[x'][y']` while key roots `i`, `j` are processed -/
abbrev FD (x' y' : Nat) : Nat := ted c (G T₁ i x') (G T₂ j y')

include R₁ hi in
theorem initCol_ok (fd : Table) (h0 : fd (lmlS T₁ i) (lmlS T₂ j) = 0) :
    ∀ x', lmlS T₁ i ≤ x' → x' ≤ i + 1 →
      initCol c p₁ (lmlS T₁ i) (lmlS T₂ j) i fd x' (lmlS T₂ j) = FD c T₁ T₂ i j x' (lmlS T₂ j) := by
  have hl := lmlS_le T₁ i
  have := forRange_inv (fun x fd => setAt fd (x + 1) (lmlS T₂ j) (fd x (lmlS T₂ j) + c.del (p₁.lab x)))
    (lmlS T₁ i) (fun X fd => ∀ x', lmlS T₁ i ≤ x' → x' ≤ X →
      fd x' (lmlS T₂ j) = FD c T₁ T₂ i j x' (lmlS T₂ j)) (i + 1 - lmlS T₁ i) fd
    (by
      intro x' h1 h2
      have : x' = lmlS T₁ i := by omega
      subst this
      simp [FD, G_base, ted_nil_nil, h0])
    (by
      intro k st hk1 hk2 ih x' h1 h2
      rw [setAt_apply]
      by_cases hx : x' = k + 1
      · subst hx
        simp only [true_and, if_true]
        rw [ih k hk1 (Nat.le_refl _), R₁.lab k (by omega)]
        simp only [FD, G_base]
        rw [ted_G_del c T₁ i k hi hk1 (by omega)]
      · rw [if_neg (by omega)]
        exact ih x' h1 (by omega))
  rw [show lmlS T₁ i + (i + 1 - lmlS T₁ i) = i + 1 by omega] at this
  exact this

include R₂ hj in
theorem initRow_ok (fd : Table)
    (h0 : ∀ x', lmlS T₁ i ≤ x' → x' ≤ i + 1 → fd x' (lmlS T₂ j) = FD c T₁ T₂ i j x' (lmlS T₂ j)) :
    (∀ x', lmlS T₁ i ≤ x' → x' ≤ i + 1 →
      initRow c p₂ (lmlS T₁ i) (lmlS T₂ j) j fd x' (lmlS T₂ j) = FD c T₁ T₂ i j x' (lmlS T₂ j)) ∧
    (∀ y', lmlS T₂ j ≤ y' → y' ≤ j + 1 →
      initRow c p₂ (lmlS T₁ i) (lmlS T₂ j) j fd (lmlS T₁ i) y' = FD c T₁ T₂ i j (lmlS T₁ i) y') := by
  have hl := lmlS_le T₂ j
  have := forRange_inv (fun y fd => setAt fd (lmlS T₁ i) (y + 1) (fd (lmlS T₁ i) y + c.ins (p₂.lab y)))
    (lmlS T₂ j) (fun Y fd =>
      (∀ x', lmlS T₁ i ≤ x' → x' ≤ i + 1 → fd x' (lmlS T₂ j) = FD c T₁ T₂ i j x' (lmlS T₂ j)) ∧
      (∀ y', lmlS T₂ j ≤ y' → y' ≤ Y → fd (lmlS T₁ i) y' = FD c T₁ T₂ i j (lmlS T₁ i) y'))
    (j + 1 - lmlS T₂ j) fd
    (by
      refine ⟨h0, ?_⟩
      intro y' h1 h2
      have : y' = lmlS T₂ j := by omega
      subst this
      exact h0 _ (Nat.le_refl _) (by have := lmlS_le T₁ i; omega))
    (by
      intro k st hk1 hk2 ih
      refine ⟨?_, ?_⟩
      · intro x' h1 h2
        rw [setAt_apply, if_neg (by omega)]
        exact ih.1 x' h1 h2
      · intro y' h1 h2
        rw [setAt_apply]
        by_cases hy : y' = k + 1
        · subst hy
          simp only [true_and, if_true]
          rw [ih.2 k hk1 (Nat.le_refl _), R₂.lab k (by omega)]
          simp only [FD, G_base]
          rw [ted_G_ins c T₂ j k hj hk1 (by omega)]
        · rw [if_neg (by omega)]
          exact ih.2 y' h1 (by omega))
  rw [show lmlS T₂ j + (j + 1 - lmlS T₂ j) = j + 1 by omega] at this
  exact this

/-- invariant of the double loop when it is about to process nodes `X`, `Y`:
`fd` is right on the base row/column and on every cell already written; `td` is right on every cell
of the rectangle that is NOT on both left-most paths (hypothesis on the incoming `td`) and on every
cell already written -/
def II (X Y : Nat) (st : Table × Table) : Prop :=
  (∀ x' y', lmlS T₁ i ≤ x' → x' ≤ i + 1 → lmlS T₂ j ≤ y' → y' ≤ j + 1 →
    (x' = lmlS T₁ i ∨ y' = lmlS T₂ j ∨ x' ≤ X ∨ (x' = X + 1 ∧ y' ≤ Y)) →
      st.1 x' y' = FD c T₁ T₂ i j x' y') ∧
  (∀ x y, lmlS T₁ i ≤ x → x ≤ i → lmlS T₂ j ≤ y → y ≤ j →
    (¬ (lmlS T₁ x = lmlS T₁ i ∧ lmlS T₂ y = lmlS T₂ j) ∨ x < X ∨ (x = X ∧ y < Y)) →
      st.2 (x + 1) (y + 1) = TD c T₁ T₂ x y)

include R₁ R₂ hi hj in
theorem cell_ok (X Y : Nat) (hX1 : lmlS T₁ i ≤ X) (hX2 : X ≤ i) (hY1 : lmlS T₂ j ≤ Y) (hY2 : Y ≤ j)
    (st : Table × Table) (h : II c T₁ T₂ i j X Y st) :
    II c T₁ T₂ i j X (Y + 1) (cell c p₁ p₂ (lmlS T₁ i) (lmlS T₂ j) X Y st) := by
  obtain ⟨hfd, htd⟩ := h
  have hlx := lmlS_le T₁ X
  have hly := lmlS_le T₂ Y
  have hlamx := lmlS_laminar T₁ i X hi hX1 hX2
  have hlamy := lmlS_laminar T₂ j Y hj hY1 hY2
  have e1 := hfd X (Y + 1) hX1 (by omega) (by omega) (by omega) (by omega)
  have e2 := hfd (X + 1) Y (by omega) (by omega) hY1 (by omega) (by omega)
  have e3 := hfd X Y hX1 (by omega) hY1 (by omega) (by omega)
  unfold cell
  simp only [R₁.lml X (by omega), R₂.lml Y (by omega), R₁.lab X (by omega), R₂.lab Y (by omega), e1, e2, e3]
  split
  · -- both on the left-most paths
    rename_i hc
    have hv := ted_G_path c T₁ T₂ i j X Y hi hj hX1 hX2 hY1 hY2 hc.1 hc.2
    simp only [FD]
    rw [← hv]
    refine ⟨?_, ?_⟩
    · intro x' y' h1 h2 h3 h4 h5
      simp only [setAt_apply]
      by_cases hxy : x' = X + 1 ∧ y' = Y + 1
      · rw [if_pos hxy, hxy.1, hxy.2]
        simp only [FD]
        rw [G_path T₁ i X hi hX1 hX2 hc.1, G_path T₂ j Y hj hY1 hY2 hc.2]
      · rw [if_neg hxy]
        exact hfd x' y' h1 h2 h3 h4 (by omega)
    · intro x y h1 h2 h3 h4 h5
      simp only [setAt_apply]
      by_cases hxy : x + 1 = X + 1 ∧ y + 1 = Y + 1
      · rw [if_pos hxy]
        have : x = X := by omega
        have : y = Y := by omega
        subst x y; rfl
      · rw [if_neg hxy]
        exact htd x y h1 h2 h3 h4 (by omega)
  · -- general cell
    rename_i hc
    have e4 := hfd (lmlS T₁ X) (lmlS T₂ Y) hlamx (by omega) hlamy (by omega) (by omega)
    have e5 := htd X Y hX1 hX2 hY1 hY2 (Or.inl hc)
    simp only [e4, e5]
    have hv := ted_G_rec c T₁ T₂ i j X Y hi hj hX1 hX2 hY1 hY2
    simp only [FD, TD]
    rw [← hv]
    refine ⟨?_, ?_⟩
    · intro x' y' h1 h2 h3 h4 h5
      simp only [setAt_apply]
      by_cases hxy : x' = X + 1 ∧ y' = Y + 1
      · rw [if_pos hxy, hxy.1, hxy.2]
      · rw [if_neg hxy]
        exact hfd x' y' h1 h2 h3 h4 (by omega)
    · intro x y h1 h2 h3 h4 h5
      by_cases hxy : x = X ∧ y = Y
      · rw [hxy.1, hxy.2]; exact e5
      · exact htd x y h1 h2 h3 h4 (by omega)

include R₁ R₂ hi hj in
theorem mainLoop_ok (st : Table × Table) (h : II c T₁ T₂ i j (lmlS T₁ i) (lmlS T₂ j) st) :
    II c T₁ T₂ i j (i + 1) (lmlS T₂ j) (mainLoop c p₁ p₂ (lmlS T₁ i) (lmlS T₂ j) i j st) := by
  have hl1 := lmlS_le T₁ i
  have hl2 := lmlS_le T₂ j
  have := forRange_inv
    (fun x st => forRange (fun y st => cell c p₁ p₂ (lmlS T₁ i) (lmlS T₂ j) x y st) (lmlS T₂ j) (j + 1 - lmlS T₂ j) st)
    (lmlS T₁ i) (fun X st => II c T₁ T₂ i j X (lmlS T₂ j) st) (i + 1 - lmlS T₁ i) st h
    (by
      intro X st hX1 hX2 ih
      have := forRange_inv (fun y st => cell c p₁ p₂ (lmlS T₁ i) (lmlS T₂ j) X y st) (lmlS T₂ j)
        (fun Y st => II c T₁ T₂ i j X Y st) (j + 1 - lmlS T₂ j) st ih
        (by
          intro Y st hY1 hY2 ih'
          exact cell_ok c T₁ T₂ p₁ p₂ R₁ R₂ i j hi hj X Y hX1 (by omega) hY1 (by omega) st ih')
      rw [show lmlS T₂ j + (j + 1 - lmlS T₂ j) = j + 1 by omega] at this
      obtain ⟨hfd, htd⟩ := this
      refine ⟨?_, ?_⟩
      · intro x' y' h1 h2 h3 h4 h5
        exact hfd x' y' h1 h2 h3 h4 (by omega)
      · intro x y h1 h2 h3 h4 h5
        exact htd x y h1 h2 h3 h4 (by omega))
  rw [show lmlS T₁ i + (i + 1 - lmlS T₁ i) = i + 1 by omega] at this
  exact this

include R₁ R₂ hi hj in
/-- **inner DP.** If the incoming `td` is right on every pair of the rectangle that is not on both
left-most paths, the outgoing `td` is right on the whole rectangle. -/
theorem computeForestDistance_ok (td : Table)
    (h : ∀ x y, lmlS T₁ i ≤ x → x ≤ i → lmlS T₂ j ≤ y → y ≤ j →
      ¬ (lmlS T₁ x = lmlS T₁ i ∧ lmlS T₂ y = lmlS T₂ j) → td (x + 1) (y + 1) = TD c T₁ T₂ x y) :
    ∀ x y, lmlS T₁ i ≤ x → x ≤ i → lmlS T₂ j ≤ y → y ≤ j →
      computeForestDistance c p₁ p₂ i j td (x + 1) (y + 1) = TD c T₁ T₂ x y := by
  unfold computeForestDistance
  rw [if_neg (by rw [R₁.n, R₂.n]; omega)]
  simp only [R₁.lml i hi, R₂.lml j hj]
  have hcol := initCol_ok c T₁ T₂ p₁ R₁ i j hi zeros rfl
  have hrow := initRow_ok c T₁ T₂ p₂ R₂ i j hj _ hcol
  have := mainLoop_ok c T₁ T₂ p₁ p₂ R₁ R₂ i j hi hj
    (initRow c p₂ (lmlS T₁ i) (lmlS T₂ j) j (initCol c p₁ (lmlS T₁ i) (lmlS T₂ j) i zeros), td)
    (by
      refine ⟨?_, ?_⟩
      · intro x' y' h1 h2 h3 h4 h5
        have hx : x' = lmlS T₁ i ∨ y' = lmlS T₂ j := by omega
        cases hx with
        | inl hx => subst hx; exact hrow.2 y' h3 h4
        | inr hy => subst hy; exact hrow.1 x' h1 h2
      · intro x y h1 h2 h3 h4 h5
        have : ¬ (lmlS T₁ x = lmlS T₁ i ∧ lmlS T₂ y = lmlS T₂ j) := by omega
        exact h x y h1 h2 h3 h4 this)
  intro x y h1 h2 h3 h4
  exact this.2 x y h1 h2 h3 h4 (by omega)

end Inner

/-! ## frame: which cells of `td` one call may write -/

/-- `td[a][b]` is written by `computeForestDistance … i j` only for nodes on both left-most paths -/
def Written (p₁ p₂ : Post) (i j a b : Nat) : Prop :=
  ∃ x y, a = x + 1 ∧ b = y + 1 ∧ p₁.lml i ≤ x ∧ x ≤ i ∧ p₂.lml j ≤ y ∧ y ≤ j ∧
    p₁.lml x = p₁.lml i ∧ p₂.lml y = p₂.lml j

theorem computeForestDistance_frame (c : Cost) (p₁ p₂ : Post) (i j : Nat) (td : Table) (a b : Nat)
    (h : ¬ Written p₁ p₂ i j a b) : computeForestDistance c p₁ p₂ i j td a b = td a b := by
  unfold computeForestDistance
  split
  · rfl
  · simp only []
    generalize initRow c p₂ (p₁.lml i) (p₂.lml j) j (initCol c p₁ (p₁.lml i) (p₂.lml j) i zeros) = fd
    unfold mainLoop
    have := forRange_inv
      (fun x st => forRange (fun y st => cell c p₁ p₂ (p₁.lml i) (p₂.lml j) x y st) (p₂.lml j) (j + 1 - p₂.lml j) st)
      (p₁.lml i) (fun _ st => st.2 a b = td a b) (i + 1 - p₁.lml i) (fd, td) rfl
      (by
        intro X st hX1 hX2 ih
        exact forRange_inv (fun y st => cell c p₁ p₂ (p₁.lml i) (p₂.lml j) X y st) (p₂.lml j)
          (fun _ st => st.2 a b = td a b) (j + 1 - p₂.lml j) st ih
          (by
            intro Y st hY1 hY2 ih'
            unfold cell
            simp only []
            split
            · rename_i hc
              simp only [setAt_apply]
              rw [if_neg]
              · exact ih'
              · intro hab
                exact h ⟨X, Y, hab.1, hab.2, hX1, by omega, hY1, by omega, hc.1, hc.2⟩
            · exact ih'))
    exact this

/-! ## key roots -/

theorem isKey_iff (p : Post) (k : Nat) :
    isKey p k = true ↔ ∀ k', k < k' → k' < p.n → p.lml k' ≠ p.lml k := by
  unfold isKey
  simp only [List.all_eq_true, List.mem_range'_1, bne_iff_ne, ne_eq]
  constructor
  · intro h k' h1 h2; exact h k' (by omega)
  · intro h k' h1; exact h k' (by omega) (by omega)

/-- every node lies on the left-most path of a key root -/
theorem exists_key (p : Post) : ∀ (m x : Nat), p.n - x ≤ m → x < p.n →
    ∃ k, x ≤ k ∧ k < p.n ∧ isKey p k = true ∧ p.lml k = p.lml x := by
  intro m
  induction m with
  | zero => intro x h1 h2; omega
  | succ m ih =>
    intro x h1 h2
    by_cases hk : isKey p x = true
    · exact ⟨x, Nat.le_refl _, h2, hk, rfl⟩
    · rw [isKey_iff] at hk
      simp only [Classical.not_forall, Decidable.not_not] at hk
      obtain ⟨k', hk1, hk2, hk3⟩ := hk
      obtain ⟨k, e1, e2, e3, e4⟩ := ih k' (by omega) hk2
      exact ⟨k, by omega, e2, e3, by rw [e4, hk3]⟩

/-- a node of the rectangle of key root `i` that is off its left-most path belongs to a strictly
smaller key root -/
theorem key_lt (T : Tree) (i x k : Nat) (hi : i < T.size) (hx1 : lmlS T i ≤ x) (hx2 : x ≤ i)
    (hne : lmlS T x ≠ lmlS T i) (hk2 : k < T.size) (hk3 : lmlS T k = lmlS T x) : k < i := by
  have h1 := lmlS_laminar T i x hi hx1 hx2
  have h2 := lmlS_le T x
  by_cases hki : k ≤ i
  · have : k ≠ i := by intro h; subst h; exact hne hk3.symm
    omega
  · exfalso
    by_cases hl : lmlS T k ≤ i
    · have := lmlS_laminar T k i hk2 hl (by omega)
      omega
    · omega

theorem foldl_filter_range_inv {σ : Type} (q : Nat → Bool) (f : σ → Nat → σ) (P : Nat → σ → Prop) (s : σ) :
    ∀ (n : Nat), P 0 s →
      (∀ k st, k < n → P k st → (q k = true → P (k + 1) (f st k)) ∧ (q k = false → P (k + 1) st)) →
      P n (((List.range n).filter q).foldl f s) := by
  intro n
  induction n with
  | zero => intro h0 _; simpa using h0
  | succ n ih =>
    intro h0 hs
    have := ih h0 (fun k st hk => hs k st (by omega))
    rw [List.range_succ, List.filter_append, List.foldl_append]
    cases hq : q n with
    | true => simp [hq]; exact (hs n _ (by omega) this).1 hq
    | false => simp [hq]; exact (hs n _ (by omega) this).2 hq

/-! ## the loop over all pairs of key roots -/

/-- `x` lies on the left-most path that starts at `k` -/
def OnPath (T : Tree) (k x : Nat) : Prop := lmlS T k ≤ x ∧ x ≤ k ∧ lmlS T x = lmlS T k

section Outer
variable (c : Cost) (T₁ T₂ : Tree) (p₁ p₂ : Post) (R₁ : Repr T₁ p₁) (R₂ : Repr T₂ p₂)

/-- all pairs of key roots `(i', j')` with `i' < I` have been processed -/
def OI (I : Nat) (td : Table) : Prop :=
  ∀ i' j' x y, i' < I → i' < T₁.size → isKey p₁ i' = true → j' < T₂.size → isKey p₂ j' = true →
    OnPath T₁ i' x → OnPath T₂ j' y → td (x + 1) (y + 1) = TD c T₁ T₂ x y

/-- … and also the pairs `(I, j')` with `j' < J` -/
def JI (I J : Nat) (td : Table) : Prop :=
  OI c T₁ T₂ p₁ p₂ I td ∧
  ∀ j' x y, j' < J → j' < T₂.size → isKey p₂ j' = true →
    OnPath T₁ I x → OnPath T₂ j' y → td (x + 1) (y + 1) = TD c T₁ T₂ x y

include R₁ in
theorem key_unique₁ (i i' x : Nat) (hi : i < T₁.size) (hlt : i' < i) (hk : isKey p₁ i' = true)
    (h1 : lmlS T₁ x = lmlS T₁ i) (h2 : lmlS T₁ x = lmlS T₁ i') : False := by
  rw [isKey_iff] at hk
  apply hk i hlt (by rw [R₁.n]; exact hi)
  rw [R₁.lml i hi, R₁.lml i' (by omega)]; omega

include R₁ R₂ in
theorem step_ok (i j : Nat) (hi : i < T₁.size) (hj : j < T₂.size)
    (td : Table) (h : JI c T₁ T₂ p₁ p₂ i j td) :
    JI c T₁ T₂ p₁ p₂ i (j + 1) (computeForestDistance c p₁ p₂ i j td) := by
  obtain ⟨hO, hJ⟩ := h
  -- the cells the inner DP reads from `td` are right
  have hpre : ∀ x y, lmlS T₁ i ≤ x → x ≤ i → lmlS T₂ j ≤ y → y ≤ j →
      ¬ (lmlS T₁ x = lmlS T₁ i ∧ lmlS T₂ y = lmlS T₂ j) → td (x + 1) (y + 1) = TD c T₁ T₂ x y := by
    intro x y h1 h2 h3 h4 hc
    obtain ⟨kx, a1, a2, a3, a4⟩ := exists_key p₁ _ x (Nat.le_refl _) (by rw [R₁.n]; omega)
    obtain ⟨ky, b1, b2, b3, b4⟩ := exists_key p₂ _ y (Nat.le_refl _) (by rw [R₂.n]; omega)
    rw [R₁.n] at a2
    rw [R₂.n] at b2
    rw [R₁.lml kx a2, R₁.lml x (by omega)] at a4
    rw [R₂.lml ky b2, R₂.lml y (by omega)] at b4
    have hlx := lmlS_le T₁ x
    have hly := lmlS_le T₂ y
    have px : OnPath T₁ kx x := ⟨by omega, a1, a4.symm⟩
    have py : OnPath T₂ ky y := ⟨by omega, b1, b4.symm⟩
    by_cases hx : lmlS T₁ x = lmlS T₁ i
    · have hy : lmlS T₂ y ≠ lmlS T₂ j := fun hy => hc ⟨hx, hy⟩
      have := key_lt T₂ j y ky hj h3 h4 hy b2 b4
      exact hJ ky x y this b2 b3 ⟨h1, h2, hx⟩ py
    · have := key_lt T₁ i x kx hi h1 h2 hx a2 a4
      exact hO kx ky x y this a2 a3 b2 b3 px py
  have hok := computeForestDistance_ok c T₁ T₂ p₁ p₂ R₁ R₂ i j hi hj td hpre
  refine ⟨?_, ?_⟩
  · intro i' j' x y h1 h2 h3 h4 h5 h6 h7
    rw [computeForestDistance_frame]
    · exact hO i' j' x y h1 h2 h3 h4 h5 h6 h7
    · rintro ⟨x0, y0, e1, e2, e3, e4, e5, e6, e7, e8⟩
      have : x0 = x := by omega
      subst this
      rw [R₁.lml x0 (by omega), R₁.lml i hi] at e7
      exact key_unique₁ T₁ p₁ R₁ i i' x0 hi h1 h3 e7 h6.2.2
  · intro j' x y h1 h2 h3 h4 h5
    by_cases hjj : j' = j
    · subst hjj
      exact hok x y h4.1 h4.2.1 h5.1 h5.2.1
    · rw [computeForestDistance_frame]
      · exact hJ j' x y (by omega) h2 h3 h4 h5
      · rintro ⟨x0, y0, e1, e2, e3, e4, e5, e6, e7, e8⟩
        have : y0 = y := by omega
        subst this
        rw [R₂.lml y0 (by omega), R₂.lml j hj] at e8
        exact key_unique₁ T₂ p₂ R₂ j j' y0 hj (by omega) h3 e8 h5.2.2

include R₁ R₂ in
theorem inner_fold_ok (i : Nat) (hi : i < T₁.size) (td : Table)
    (h : OI c T₁ T₂ p₁ p₂ i td) :
    OI c T₁ T₂ p₁ p₂ (i + 1)
      ((keyroots p₂).foldl (fun td j => computeForestDistance c p₁ p₂ i j td) td) := by
  have := foldl_filter_range_inv (isKey p₂) (fun td j => computeForestDistance c p₁ p₂ i j td)
    (fun J td => JI c T₁ T₂ p₁ p₂ i J td) td p₂.n
    ⟨h, by intro j' x y h1; omega⟩
    (by
      intro k st hk ih
      rw [R₂.n] at hk
      refine ⟨fun _ => step_ok c T₁ T₂ p₁ p₂ R₁ R₂ i k hi hk st ih, fun hq => ⟨ih.1, ?_⟩⟩
      intro j' x y h1 h2 h3 h4 h5
      have : j' ≠ k := by intro e; subst e; rw [hq] at h3; exact Bool.noConfusion h3
      exact ih.2 j' x y (by omega) h2 h3 h4 h5)
  obtain ⟨hO, hJ⟩ := this
  intro i' j' x y h1 h2 h3 h4 h5 h6 h7
  by_cases hii : i' = i
  · subst hii
    exact hJ j' x y (by rw [R₂.n]; exact h4) h4 h5 h6 h7
  · exact hO i' j' x y (by omega) h2 h3 h4 h5 h6 h7

include R₁ R₂ in
theorem aptedTable_ok : OI c T₁ T₂ p₁ p₂ p₁.n (aptedTable c p₁ p₂ (keyroots p₁) (keyroots p₂)) := by
  unfold aptedTable
  exact foldl_filter_range_inv (isKey p₁)
    (fun td i => (keyroots p₂).foldl (fun td j => computeForestDistance c p₁ p₂ i j td) td)
    (fun I td => OI c T₁ T₂ p₁ p₂ I td) zeros p₁.n
    (by intro i' j' x y h1; omega)
    (by
      intro k st hk ih
      rw [R₁.n] at hk
      refine ⟨fun _ => inner_fold_ok c T₁ T₂ p₁ p₂ R₁ R₂ k hk st ih, fun hq => ?_⟩
      intro i' j' x y h1 h2 h3 h4 h5 h6 h7
      have : i' ≠ k := by intro e; subst e; rw [hq] at h3; exact Bool.noConfusion h3
      exact ih i' j' x y (by omega) h2 h3 h4 h5 h6 h7)

theorem root_isKey (T : Tree) (p : Post) (R : Repr T p) : isKey p (T.size - 1) = true := by
  rw [isKey_iff]; intro k' h1 h2; rw [R.n] at h2; omega

include R₁ R₂ in
theorem apted_ok : apted c p₁ p₂ (keyroots p₁) (keyroots p₂) = dist c T₁ T₂ := by
  have h := aptedTable_ok c T₁ T₂ p₁ p₂ R₁ R₂
  have s1 := size_pos T₁
  have s2 := size_pos T₂
  have := h (T₁.size - 1) (T₂.size - 1) (T₁.size - 1) (T₂.size - 1) (by rw [R₁.n]; omega) (by omega)
    (root_isKey T₁ p₁ R₁) (by omega) (root_isKey T₂ p₂ R₂)
    ⟨lmlS_le _ _, Nat.le_refl _, rfl⟩ ⟨lmlS_le _ _, Nat.le_refl _, rfl⟩
  unfold apted
  rw [R₁.n, R₂.n]
  rw [show T₁.size - 1 + 1 = T₁.size by omega, show T₂.size - 1 + 1 = T₂.size by omega] at this
  rw [this]
  simp only [TD, sub_root, dist]

end Outer

end PV.ZSProof
