import PV.Model.Imports
import Mathlib.Data.List.Basic
/-! The depth search of `calculateDepthFromModule` (model `PV.Imports.depthFrom`): it dominates every simple import chain and its value is
attained by a walk (C12). -/
namespace PV.Imports

/-- consecutive elements are edges -/
def IsChain (adj : Nat → List Nat) : List Nat → Prop
  | [] => True
  | [_] => True
  | a :: b :: rest => b ∈ adj a ∧ IsChain adj (b :: rest)

theorem foldl_max_ge_init (f : Nat → Nat) (l : List Nat) (init : Nat) : init ≤ l.foldl (fun best x => max best (f x)) init := by
  induction l generalizing init with
  | nil => exact Nat.le_refl _
  | cons x l ih => exact Nat.le_trans (Nat.le_max_left _ _) (ih _)

theorem foldl_max_ge_mem (f : Nat → Nat) (l : List Nat) (init : Nat) (x : Nat) (hx : x ∈ l) :
    f x ≤ l.foldl (fun best x => max best (f x)) init := by
  induction l generalizing init with
  | nil => cases hx
  | cons y l ih =>
    rcases List.mem_cons.mp hx with rfl | h
    · exact Nat.le_trans (Nat.le_max_right _ _) (foldl_max_ge_init f l _)
    · exact ih _ h

theorem foldl_max_attained (f : Nat → Nat) (l : List Nat) (init : Nat) :
    l.foldl (fun best x => max best (f x)) init = init ∨ ∃ x ∈ l, l.foldl (fun best x => max best (f x)) init = f x := by
  induction l generalizing init with
  | nil => exact Or.inl rfl
  | cons y l ih =>
    rcases ih (max init (f y)) with h | ⟨x, hx, h⟩
    · rw [List.foldl_cons, h]
      rcases Nat.le_total init (f y) with hle | hle
      · exact Or.inr ⟨y, List.mem_cons_self, Nat.max_eq_right hle⟩
      · exact Or.inl (Nat.max_eq_left hle)
    · exact Or.inr ⟨x, List.mem_cons_of_mem _ hx, by rw [List.foldl_cons, h]⟩

/-- **lower bound**: a chain `cur → v₁ → … → v_k` of pairwise different modules, none of them on the current path, is found (given enough fuel) -/
theorem depthFrom_ge_chain (adj : Nat → List Nat) : ∀ (rest : List Nat) (fuel : Nat) (visited : List Nat) (cur d : Nat),
    IsChain adj (cur :: rest) → (cur :: rest).Nodup → (∀ x ∈ cur :: rest, x ∉ visited) → rest.length < fuel →
    d + rest.length ≤ depthFrom adj fuel visited cur d := by
  intro rest
  induction rest with
  | nil =>
    intro fuel visited cur d _ _ hv hf
    cases fuel with
    | zero => simp at hf
    | succ fuel =>
      rw [depthFrom]
      have : visited.contains cur = false := by simpa using hv cur List.mem_cons_self
      simp only [this, Bool.false_eq_true, if_false, List.length_nil, Nat.add_zero]
      exact foldl_max_ge_init _ _ _
  | cons v rest ih =>
    intro fuel visited cur d hch hnd hv hf
    cases fuel with
    | zero => simp at hf
    | succ fuel =>
      rw [depthFrom]
      have hcur : visited.contains cur = false := by simpa using hv cur List.mem_cons_self
      simp only [hcur, Bool.false_eq_true, if_false]
      have hedge : v ∈ adj cur := hch.1
      have hnd' := List.nodup_cons.mp hnd
      have hrec := ih fuel (cur :: visited) v (d + 1) hch.2 hnd'.2
        (by
          intro x hx hmem
          rcases List.mem_cons.mp hmem with rfl | hm
          · exact hnd'.1 hx
          · exact hv x (List.mem_cons_of_mem _ hx) hm)
        (by simp only [List.length_cons] at hf; omega)
      have := foldl_max_ge_mem (fun nxt => depthFrom adj fuel (cur :: visited) nxt (d + 1)) (adj cur) d v hedge
      simp only [List.length_cons]
      omega

/-- **attained**: the value is `d` plus the length of some walk starting at `cur` -/
theorem depthFrom_attained (adj : Nat → List Nat) : ∀ (fuel : Nat) (visited : List Nat) (cur d : Nat),
    ∃ rest : List Nat, IsChain adj (cur :: rest) ∧ depthFrom adj fuel visited cur d = d + rest.length := by
  intro fuel
  induction fuel with
  | zero => intro visited cur d; exact ⟨[], trivial, by simp [depthFrom]⟩
  | succ fuel ih =>
    intro visited cur d
    rw [depthFrom]
    by_cases hv : visited.contains cur = true
    · exact ⟨[], trivial, by rw [if_pos hv]; simp⟩
    · rw [if_neg hv]
      rcases foldl_max_attained (fun nxt => depthFrom adj fuel (cur :: visited) nxt (d + 1)) (adj cur) d with h | ⟨x, hx, h⟩
      · exact ⟨[], trivial, by rw [h]; simp⟩
      · obtain ⟨rest, hch, hval⟩ := ih (cur :: visited) x (d + 1)
        refine ⟨x :: rest, ⟨hx, hch⟩, ?_⟩
        rw [h, hval]; simp only [List.length_cons]; omega

end PV.Imports
