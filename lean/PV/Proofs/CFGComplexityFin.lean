import PV.Proofs.CFGComplexityFinLeaf
import PV.Proofs.CFGComplexityFinIf
import PV.Proofs.CFGComplexityFinLoop
import PV.Proofs.CFGComplexityFinTry
import PV.Proofs.CFGComplexityFinMatch
import PV.Proofs.CFGComplexityFinSyn
/-!
Property C03 for the CFG mirror, including NON-EMPTY `finally` clauses: the mirror's `complexity` of a definition is `1 +` the structural
live decision count `ldLF 1 body`, for every body of the fragment `okFL false` (everything except `break` / `continue` outside a loop
and stray `except` / `case` clauses).  `ldLF` gives a `try … finally` its true contribution: the decisions of body, handlers, `else`
and `finally`, plus the exception-typed propagation edges that the builder adds out of the `finally` block.

This file: the list step, the dispatch over the statement kinds, the induction and the theorem about `build`.
-/
namespace PV.CFGFin
open PV.CFG PV.CFGSound PV.Dec

section main
variable {E : List Edge} {N : Nat}

theorem nil_cntF : QFL E [] := by
  intro fc il st w hc hok hf he
  rw [procList_nil, sxL_nil, ldLX_nil]
  exact ⟨rfl, fun _ => he, (fun h => by simp at h), Jmp.empty rfl rfl rfl rfl, LTI.refl _ _ _⟩

theorem list_cntF (ihS : ∀ x : Stmt, x.size ≤ N → QFS E x) (ihL : ∀ ss, sizeL ss ≤ N → QFL E ss) (ss : List Stmt) (hsz : sizeL ss ≤ N + 1) :
    QFL E ss := by
  rcases ss with _ | ⟨x, xs⟩
  · exact nil_cntF
  intro fc il st w hc hok hf he
  simp only [sizeL] at hsz
  rw [okFL_cons, Bool.and_eq_true] at hok
  rw [procList_cons] at hf ⊢
  rw [sxL_cons, ldLX_cons]
  obtain ⟨j1, sm1⟩ := procStmt_frame x st w st.cur st.next (.inl rfl) (Nat.le_refl _)
  obtain ⟨j2, sm2⟩ := procList_frame xs (procStmt st x) j1.wf (procStmt st x).cur (procStmt st x).next (.inl rfl) (Nat.le_refl _)
  have hn1 := j1.next_le
  have hn2 := j2.next_le
  have hctx : CtxLt (procStmt st x) st.next := (w.ctxLt (Nat.le_refl _)).same sm1
  have f1 : Fut E st.next (procStmt st x).next (procStmt st x) :=
    (hf.mono (Nat.le_refl _) hn2).back_list j1.wf hctx w.two (Nat.le_refl _)
  have px := ihS x (by omega) fc il st w hc hok.1 f1 he
  have f2 : Fut E (procStmt st x).next (procList (procStmt st x) xs).next (procList (procStmt st x) xs) := hf.mono hn1 (Nat.le_refl _)
  have hc1 : CtxF fc il (procStmt st x) := hc.same sm1
  have ihxs := ihL xs (by omega) fc il (procStmt st x) j1.wf hc1 hok.2 f2
  generalize procStmt st x = s1 at *
  cases hnx : (sxS x).ex.normal
  · -- `x` cannot fall through: the rest is processed from an unreachable block
    simp only [Bool.false_eq_true, ↓reduceIte, Nat.add_zero]
    obtain ⟨hcnt, hdead, hlti⟩ := dead_run j1.wf j2 f2 (px.dead hnx) (TgF st.next st.loops st.excs (sxS x).ex.brk)
    exact ⟨by rw [hcnt, px.cnt], (fun h => by rw [hnx] at h; cases h), fun _ => hdead, px.jmp, px.tgt.trans hlti⟩
  · simp only [↓reduceIte]
    have pxs := ihxs (px.normal hnx)
    refine ⟨by rw [pxs.cnt, px.cnt]; omega, pxs.normal, pxs.dead, ?_, ?_⟩
    · exact px.jmp.or (pxs.jmp.cast sm1.loops.symm sm1.excs.symm) id id id id
    · refine (px.tgt.mono (fun t h => h.mono (Nat.le_refl _) (fun hb => by simp [hb]))).trans ?_
      refine pxs.tgt.mono (fun t h => ?_)
      rw [sm1.loops, sm1.excs] at h
      exact h.mono hn1 (fun hb => by simp [hb])

theorem elsec_cntF (ih : ∀ ss, sizeL ss ≤ N → QFL E ss) (body : List Stmt) (hsz : sizeL body ≤ N) (s e : Nat) : QFS E (.elsec s e body) := by
  intro fc il st w hc hok hf he
  rw [okFS_elsec] at hok
  rw [procStmt_elsec] at hf ⊢
  rw [sxS_elsec, ldSX_elsec]
  exact ih body hsz fc il st w hc hok hf he

/-- dispatch over the statement kinds -/
theorem stmt_cntF (ih : ∀ ss, sizeL ss ≤ N → QFL E ss) (x : Stmt) (hsz : x.size ≤ N + 1) : QFS E x := by
  cases x with
  | simple s e c h => exact simple_cntF s e c h
  | ret s e c h => exact ret_cntF s e c h
  | brk s e => exact brk_cntF s e
  | cont s e => exact cont_cntF s e
  | raise s e => exact raise_cntF s e
  | def_ s e b => exact def_cntF s e b
  | ite s e a b =>
    simp only [Stmt.size] at hsz
    intro fc il st w hc hok hf he
    rw [okFS_ite, Bool.and_eq_true] at hok
    rw [procStmt_ite] at hf ⊢
    rw [sxS_ite, ldSX_ite]
    exact procIf_cntF ih a b (by omega) (by omega) fc il st s e w hc hok.1 hok.2 hf he
  | elifc s e a b =>
    simp only [Stmt.size] at hsz
    intro fc il st w hc hok hf he
    rw [okFS_elifc, Bool.and_eq_true] at hok
    rw [procStmt_elifc] at hf ⊢
    rw [sxS_elifc, ldSX_elifc]
    exact procIf_cntF ih a b (by omega) (by omega) fc il st 0 0 w hc hok.1 hok.2 hf he
  | elsec s e a =>
    simp only [Stmt.size] at hsz
    exact elsec_cntF ih a (by omega) s e
  | loop s e a b =>
    simp only [Stmt.size] at hsz
    exact loop_cntF ih a b (by omega) (by omega) s e
  | try_ s e a b c d =>
    simp only [Stmt.size] at hsz
    exact try_cntF ih a b c d (by omega) (by omega) (by omega) (by omega) s e
  | handler s e a => intro fc il st w hc hok; rw [okFS_handler] at hok; cases hok
  | with_ s e a =>
    simp only [Stmt.size] at hsz
    exact with_cntF ih a (by omega) s e
  | match_ s e cs =>
    simp only [Stmt.size] at hsz
    exact match_cntF ih cs (by omega) s e
  | case_ s e a => intro fc il st w hc hok; rw [okFS_case] at hok; cases hok
  | class_ s e a =>
    simp only [Stmt.size] at hsz
    exact class_cntF ih a (by omega) s e

end main

theorem cnt_allF (E : List Edge) : ∀ N, (∀ x : Stmt, x.size ≤ N → QFS E x) ∧ (∀ ss, sizeL ss ≤ N → QFL E ss) := by
  intro N
  induction N with
  | zero =>
    constructor
    · intro x hsz; have := Stmt.size_pos x; omega
    · intro ss hsz
      rcases ss with _ | ⟨x, xs⟩
      · exact nil_cntF
      · simp only [sizeL] at hsz; omega
  | succ N ih => exact ⟨fun x hx => stmt_cntF ih.2 x hx, fun ss hs => list_cntF ih.1 ih.2 ss hs⟩

/-- **Exact count for statement lists**: whatever the final graph `E ⊇ edges` looks like, as long as no later edge targets a block
allocated while `ss` was processed, a list entered in a reachable calm block adds exactly `ldLX nh ss` to the count. -/
theorem cnt_listF (ss : List Stmt) (fc : FC) (il : Bool) (st : St) (w : WF st) (hc : CtxF fc il st) (hok : okFL il ss = true)
    (E : List Edge) (hE : Fut E st.next (procList st ss).next (procList st ss)) (he : EntryC E st) :
    PostF E st (procList st ss) (sxL ss).ex (ldLX fc ss) :=
  (cnt_allF E (sizeL ss)).2 ss (Nat.le_refl _) fc il st w hc hok hE he

/-! ### the whole definition -/
theorem build_complexity_fin (k : Kind) (s e : Nat) (body : List Stmt) (hok : okFL false body = true) :
    complexity (build k s e body) = 1 + ldLF 1 body := by
  have ipre := preB_inv k s e
  have hnext : 2 ≤ (preB k s e).next := ipre.wf.two
  obtain ⟨j, sm⟩ := procList_frame body _ ipre.wf 0 0 (Or.inr (Nat.zero_le _)) (Nat.zero_le _)
  have hE : Fut (build k s e body).edges (preB k s e).next (procList (preB k s e) body).next (procList (preB k s e) body) := by
    rw [build_eq]; unfold finishB
    split
    · refine ⟨[((procList (preB k s e) body).cur, exitB, .normal)], rfl, ?_⟩
      intro x hx
      rw [List.mem_singleton.mp hx]
      exact .inl (by show exitB < _; unfold exitB; omega)
    · exact ⟨[], rfl, fun _ h => by cases h⟩
  have hwf : WF (build k s e body) := by
    rw [build_eq]; unfold finishB
    have h2 := j.wf.two
    have hc := j.wf.cur
    split
    · exact (j.edge (a := (procList (preB k s e) body).cur) (b := exitB) (t := .normal) (Or.inr (Nat.zero_le _)) hc (by unfold exitB; omega)).wf
    · exact j.wf
  have hx : (preB k s e).excs = [] := by cases k <;> rfl
  have hlp : (preB k s e).loops = [] := by cases k <;> rfl
  have hctx : CtxF (FC.top 1) false (preB k s e) := by
    refine ⟨(fun h => by cases h), ?_, ?_, ?_, ?_, ?_, ?_, ?_, ?_, ?_⟩
    · rw [hlp]; intro l hl; cases hl
    · rw [hlp]; intro l hl; cases hl
    · rw [hx]; rfl
    · rw [hx]; rfl
    · rw [hx]; rfl
    · rw [hx]; rfl
    · rw [hx]; intro c hc; cases hc
    · rw [hx]; intro c hc; cases hc
    · rw [hx]; intro c hc; cases hc
  have hent : EntryC (build k s e body).edges (preB k s e) := preB_entryC k s e (fun x h => hE.mem (j.sub.1 x h))
  have post := cnt_listF body (FC.top 1) false (preB k s e) ipre.wf hctx hok _ hE hent
  have hr : ∀ x, (reachable (build k s e body)).contains x = rE (build k s e body).edges x := by
    intro x
    rw [Bool.eq_iff_iff, List.contains_iff_mem, rE_true]
    exact ⟨fun h => reachable_sound _ h, fun h => reachable_complete _ (by have := hwf.two; omega) hwf.edges h⟩
  rw [complexity_eq_cnt, cnt_congr hr]
  have hfin : cnt (rE (build k s e body).edges) (build k s e body).edges = cnt (rE (build k s e body).edges) (procList (preB k s e) body).edges := by
    generalize rE (build k s e body).edges = r
    rw [build_eq]; unfold finishB
    split
    · exact cnt_cons_plain (by rfl) (by intro h; cases h)
    · rfl
  rw [hfin, post.cnt, preB_cnt]
  unfold ldLF
  omega


end PV.CFGFin

#print axioms PV.CFGFin.build_complexity_fin
