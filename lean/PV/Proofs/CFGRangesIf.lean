import PV.Proofs.CFGRangesDefs
/-!
Range-level soundness — `if` / `elif` / `else` (`procIf`, `procIfElifTail`, `procIfElif`).
-/
namespace PV.CFGSound
open PV.CFG

/-! ### the single `elif` / nested `if` item of an `orelse` list -/

/-- `x` is `elif` (its test is stored as `0..0`) or a nested `if` (test stored with its location) -/
def ElifItem (x : Stmt) (s' e' : Nat) (ta tb : List Stmt) (rs' re' : Nat) : Prop :=
  (x = .elifc s' e' ta tb ∧ rs' = 0 ∧ re' = 0) ∨ (x = .ite s' e' ta tb ∧ rs' = s' ∧ re' = e')

section item
variable {x : Stmt} {s' e' rs' re' : Nat} {ta tb : List Stmt}

theorem ElifItem.rs (h : ElifItem x s' e' ta tb rs' re') : (rs' = s' ∧ re' = e') ∨ (rs' = 0 ∧ re' = 0) := by
  rcases h with ⟨_, h1, h2⟩ | ⟨_, h1, h2⟩
  · exact .inr ⟨h1, h2⟩
  · exact .inl ⟨h1, h2⟩

theorem ElifItem.size (h : ElifItem x s' e' ta tb rs' re') : sizeL [x] = 3 + sizeL ta + sizeL tb := by
  rcases h with ⟨rfl, _, _⟩ | ⟨rfl, _, _⟩ <;> simp only [sizeL, Stmt.size] <;> omega

theorem ElifItem.ok (h : ElifItem x s' e' ta tb rs' re') {il : Bool} (hok : okLC il [x] = true) :
    okLC il ta = true ∧ okLC il tb = true := by
  rcases h with ⟨rfl, _, _⟩ | ⟨rfl, _, _⟩
  · exact okLC_sgl_elifc hok
  · exact okLC_sgl_ite hok

theorem ElifItem.wf (h : ElifItem x s' e' ta tb rs' re') {q : Nat} (hw : wfL q [x] = true) :
    q ≤ s' ∧ s' ≤ e' ∧ wfL (s' + 1) ta = true ∧ wfL (posL (s' + 1) ta) tb = true ∧ posL (posL (s' + 1) ta) tb ≤ e' + 1 := by
  rcases h with ⟨rfl, _, _⟩ | ⟨rfl, _, _⟩
  · rw [wfL_cons, wfL_nil, wfS_elifc] at hw
    simp only [Bool.and_eq_true, decide_eq_true_eq, Bool.and_true] at hw
    simp only [Stmt.span] at hw
    obtain ⟨hq, ⟨⟨hse, hwa⟩, hwb⟩, hpe⟩ := hw
    exact ⟨hq, hse, hwa, hwb, hpe⟩
  · rw [wfL_cons, wfL_nil, wfS_ite] at hw
    simp only [Bool.and_eq_true, decide_eq_true_eq, Bool.and_true] at hw
    simp only [Stmt.span] at hw
    obtain ⟨hq, ⟨⟨hse, hwa⟩, hwb⟩, hpe⟩ := hw
    exact ⟨hq, hse, hwa, hwb, hpe⟩

theorem ElifItem.pos (h : ElifItem x s' e' ta tb rs' re') (q : Nat) : posL q [x] = e' + 1 := by
  rcases h with ⟨rfl, _, _⟩ | ⟨rfl, _, _⟩ <;> rw [posL_cons, posL_nil] <;> simp only [Stmt.span]

theorem ElifItem.elif_eq (h : ElifItem x s' e' ta tb rs' re') (st : St) (s e : Nat) (thn : List Stmt) (fm : Nat) :
    procIfElif st s e thn [x] fm =
      finishElif (procIfElif (setCur ((bump (elifHead st s e thn)).edge st.cur (elifHead st s e thn).next .condF) (elifHead st s e thn).next)
        rs' re' ta tb fm) (elifHead st s e thn).cur fm := by
  rcases h with ⟨rfl, rfl, rfl⟩ | ⟨rfl, rfl, rfl⟩
  · rw [procIfElif_elif]
  · rw [procIfElif_ite]

theorem ElifItem.if_eq (h : ElifItem x s' e' ta tb rs' re') (st : St) (s e : Nat) (thn : List Stmt) :
    procIf st s e thn [x] = procIfElifTail (ifHead st s e thn) st.cur (ifHead st s e thn).cur (st.next + 1) rs' re' ta tb := by
  rcases h with ⟨rfl, rfl, rfl⟩ | ⟨rfl, rfl, rfl⟩
  · rw [procIf_elif]
  · rw [procIf_ite]
end item

theorem orelse_cases2 (l : List Stmt) :
    l = [] ∨ (∃ x s' e' ta tb rs' re', l = [x] ∧ ElifItem x s' e' ta tb rs' re') ∨
      (∃ o os, l = o :: os ∧ (∀ s e a b, o :: os ≠ [.elifc s e a b]) ∧ (∀ s e a b, o :: os ≠ [.ite s e a b])) := by
  rcases orelse_cases l with h | ⟨s, e, a, b, h⟩ | ⟨s, e, a, b, h⟩ | h
  · exact .inl h
  · exact .inr (.inl ⟨_, s, e, a, b, 0, 0, h, .inl ⟨rfl, rfl, rfl⟩⟩)
  · exact .inr (.inl ⟨_, s, e, a, b, s, e, h, .inr ⟨rfl, rfl, rfl⟩⟩)
  · exact .inr (.inr h)

section main
variable {E : List Edge} {N : Nat}

/-! ### the test record -/
theorem testBd {rs re s e p : Nat} (hrs : (rs = s ∧ re = e) ∨ (rs = 0 ∧ re = 0)) (hp : p ≤ s) (hse : s ≤ e) (b : Nat) :
    Bd p (e + 1) { blk := b, s := rs, e := re, ty := .other } := by
  rcases hrs with ⟨rfl, rfl⟩ | ⟨rfl, rfl⟩
  · exact .inr ⟨hp, hse, Nat.lt_succ_self _⟩
  · exact .inl ⟨rfl, rfl⟩

theorem testSI {L : List SRec} {a p rs re s e c : Nat} (hsi : SI E L a p) (hrs : (rs = s ∧ re = e) ∨ (rs = 0 ∧ re = 0)) (hp : p ≤ s)
    (h1 : R E c → R E a) (h2 : R E a → R E c) : SI E ({ blk := c, s := rs, e := re, ty := .other } :: L) a (s + 1) := by
  rcases hrs with ⟨rfl, rfl⟩ | ⟨rfl, rfl⟩
  · exact hsi.cons hp h1 h2
  · exact (hsi.zero c .other).mono (by omega)

/-! ### the test and the `then` branch -/
theorem thenR (ih : ∀ ss, sizeL ss ≤ N → RQL E ss) (thn : List Stmt) (hsz : sizeL thn ≤ N) (il : Bool) (st s1 : St)
    (rs re s e a p : Nat) (w : WF st) (w1 : WF s1)
    (hs1 : s1.stmts = { blk := st.cur, s := rs, e := re, ty := .other } :: st.stmts) (hc1 : s1.cur = st.next)
    (hok : okLC il thn = true) (hrs : (rs = s ∧ re = e) ∨ (rs = 0 ∧ re = 0))
    (hse : s ≤ e) (hwt : wfL (s + 1) thn = true) (hpe : posL (s + 1) thn ≤ e + 1) (hp : p ≤ s)
    (hsi : SI E st.stmts a p) (hgc : GC st.stmts st.cur) (hfw : R E a → R E st.cur)
    (hzc : R E st.cur → R E a) (hzt : R E st.next → R E a)
    (hf : Fut E s1.next (procList s1 thn).next (procList s1 thn)) :
    RPost E st.stmts (procList s1 thn).stmts (procList s1 thn).cur p (e + 1) ∧
    SI E (procList s1 thn).stmts a (posL (s + 1) thn) ∧
    (∀ m, m < s1.next → m ≠ st.next → m ≠ st.cur → NoRec st.stmts m → NoRec (procList s1 thn).stmts m) := by
  have hcur := w.cur
  have si1 := testSI hsi hrs hp hzc hfw
  have gc1 : GC s1.stmts s1.cur := by
    rw [hs1, hc1]
    exact GC.fresh hgc.gz_add_cur (NoRec.cons (by omega) (NoRec.of_wf w (Nat.le_refl _)))
  have si1' : SI E s1.stmts a (s + 1) := by rw [hs1]; exact si1
  have si2 : SI E s1.stmts s1.cur (s + 1) := by rw [hc1]; exact si1'.anchor hzt
  have h := ih thn hsz il s1 (s + 1) w1 hok hf hwt si2 gc1
  have hpg := posL_ge thn _ hwt
  have r0 : RPost E st.stmts s1.stmts s1.cur p (e + 1) := by
    refine ⟨⟨[{ blk := st.cur, s := rs, e := re, ty := .other }], by rw [hs1]; rfl, fun r hr => ?_⟩, si1'.pw, gc1⟩
    rw [List.mem_singleton.mp hr]; exact testBd hrs hp hse _
  refine ⟨r0.trans (h.mono (by omega) hpe), h.si si1' hpg (Nat.le_refl _), ?_⟩
  intro m hm hne1 hne2 hnr
  obtain ⟨j, _⟩ := procList_frame thn s1 w1 s1.cur s1.next (.inl rfl) (Nat.le_refl _)
  refine NoRec.inv j (by omega) hm ?_
  rw [hs1]
  exact NoRec.cons (fun h => hne2 h.symm) hnr

theorem ifHeadR (ih : ∀ ss, sizeL ss ≤ N → RQL E ss) (thn : List Stmt) (hsz : sizeL thn ≤ N) (il : Bool) (st : St)
    (rs re s e a p : Nat) (w : WF st) (hok : okLC il thn = true) (hrs : (rs = s ∧ re = e) ∨ (rs = 0 ∧ re = 0))
    (hse : s ≤ e) (hwt : wfL (s + 1) thn = true) (hpe : posL (s + 1) thn ≤ e + 1) (hp : p ≤ s)
    (hsi : SI E st.stmts a p) (hgc : GC st.stmts st.cur) (hfw : R E a → R E st.cur)
    (hzc : R E st.cur → R E a) (hzt : R E st.next → R E a)
    (hf : Fut E (st.next + 2) (ifHead st rs re thn).next (ifHead st rs re thn)) :
    RPost E st.stmts (ifHead st rs re thn).stmts (ifHead st rs re thn).cur p (e + 1) ∧
    SI E (ifHead st rs re thn).stmts a (posL (s + 1) thn) ∧
    (∀ m, m < st.next + 2 → m ≠ st.next → m ≠ st.cur → NoRec st.stmts m → NoRec (ifHead st rs re thn).stmts m) := by
  unfold ifHead at hf ⊢
  have hcur := w.cur
  have hc : Own st.cur st.next st.cur := .inl rfl
  have i0 : Inv st.cur st.next st st := Inv.refl w hc
  have i1 := (((i0.add (b := st.cur) (p := rs) (q := re) (ty := .other) hc w.cur).bump.bump).edge (a := st.cur) (b := st.next)
    (t := .condT) hc (by ob) (by ob)).setCur (x := st.next) (by ob) (by ob)
  exact thenR ih thn hsz il st _ rs re s e a p w i1.wf rfl rfl hok hrs hse hwt hpe hp hsi hgc hfw hzc hzt hf

theorem elifHeadR (ih : ∀ ss, sizeL ss ≤ N → RQL E ss) (thn : List Stmt) (hsz : sizeL thn ≤ N) (il : Bool) (st : St)
    (rs re s e a p : Nat) (w : WF st) (hok : okLC il thn = true) (hrs : (rs = s ∧ re = e) ∨ (rs = 0 ∧ re = 0))
    (hse : s ≤ e) (hwt : wfL (s + 1) thn = true) (hpe : posL (s + 1) thn ≤ e + 1) (hp : p ≤ s)
    (hsi : SI E st.stmts a p) (hgc : GC st.stmts st.cur) (hfw : R E a → R E st.cur)
    (hzc : R E st.cur → R E a) (hzt : R E st.next → R E a)
    (hf : Fut E (st.next + 1) (elifHead st rs re thn).next (elifHead st rs re thn)) :
    RPost E st.stmts (elifHead st rs re thn).stmts (elifHead st rs re thn).cur p (e + 1) ∧
    SI E (elifHead st rs re thn).stmts a (posL (s + 1) thn) ∧
    (∀ m, m < st.next + 1 → m ≠ st.next → m ≠ st.cur → NoRec st.stmts m → NoRec (elifHead st rs re thn).stmts m) := by
  unfold elifHead at hf ⊢
  have hcur := w.cur
  have hc : Own st.cur st.next st.cur := .inl rfl
  have i0 : Inv st.cur st.next st st := Inv.refl w hc
  have i1 := (((i0.add (b := st.cur) (p := rs) (q := re) (ty := .other) hc w.cur).bump).edge (a := st.cur) (b := st.next)
    (t := .condT) hc (by ob) (by ob)).setCur (x := st.next) (by ob) (by ob)
  exact thenR ih thn hsz il st _ rs re s e a p w i1.wf rfl rfl hok hrs hse hwt hpe hp hsi hgc hfw hzc hzt hf

/-! ### a general `else` branch -/
theorem elseR (ih : ∀ ss, sizeL ss ≤ N → RQL E ss) (orelse : List Stmt) (hsz : sizeL orelse ≤ N) (il : Bool) (s3 : St)
    (cond te a q : Nat) (w3 : WF s3) (hcl : cond < s3.next) (hok : okLC il orelse = true)
    (hf : Fut E (s3.next + 1) (elseTail s3 cond te orelse).next (elseTail s3 cond te orelse))
    (hw : wfL q orelse = true) (hsi : SI E s3.stmts a q) (hgz : GZ s3.stmts) (hze : R E s3.next → R E a) :
    RPost E s3.stmts (elseTail s3 cond te orelse).stmts (elseTail s3 cond te orelse).cur q (posL q orelse) ∧
    (∀ m, m < s3.next → NoRec s3.stmts m → NoRec (elseTail s3 cond te orelse).stmts m) := by
  unfold elseTail at hf ⊢
  have w4 := branch_wf w3 hcl .condF
  have gc4 : GC s3.stmts s3.next := GC.fresh hgz (NoRec.of_wf w3 (Nat.le_refl _))
  have h := ih orelse hsz il _ q w4 hok hf hw (hsi.anchor hze) gc4
  refine ⟨h, fun m hm hnr => ?_⟩
  obtain ⟨j, _⟩ := procList_frame orelse _ w4 s3.next (s3.next + 1) (.inl rfl) (by ob)
  exact NoRec.inv j (by omega) (by omega) hnr

/-! ### the `elif` chain -/
theorem elifR (ih : ∀ ss, sizeL ss ≤ N → RQL E ss) : ∀ (M : Nat) (thn orelse : List Stmt), sizeL thn + sizeL orelse < M → sizeL thn ≤ N →
    sizeL orelse ≤ N →
    ∀ (il : Bool) (st : St) (rs re s e fm a p : Nat), WF st → okLC il thn = true → okLC il orelse = true →
      ((rs = s ∧ re = e) ∨ (rs = 0 ∧ re = 0)) → fm < st.next → fm ≠ st.cur → NoRec st.stmts fm →
      Fut E st.next (procIfElif st rs re thn orelse fm).next (procIfElif st rs re thn orelse fm) →
      s ≤ e → wfL (s + 1) thn = true → wfL (posL (s + 1) thn) orelse = true → posL (posL (s + 1) thn) orelse ≤ e + 1 → p ≤ s →
      SI E st.stmts a p → GC st.stmts st.cur →
      (∀ b, (b = st.cur ∨ st.next ≤ b) → b < (procIfElif st rs re thn orelse fm).next → R E b → R E a) →
      (R E a → R E st.cur) →
      RPost E st.stmts (procIfElif st rs re thn orelse fm).stmts (procIfElif st rs re thn orelse fm).cur p (e + 1) ∧
        NoRec (procIfElif st rs re thn orelse fm).stmts fm := by
  intro M
  induction M with
  | zero => intro thn orelse hM; omega
  | succ M ihM =>
    intro thn orelse hM h1 h2 il st rs re s e fm a p w hokt hoke hrs hfl hfc hnr hf hse hwt hwo hpe hp hsi hgc hz hfw
    obtain ⟨k, sm, hnx⟩ := elifHead_frame' thn st rs re w
    have hcur := w.cur
    have hk := k.wf.cur
    have h2' := w.two
    have hq1 := posL_ge thn _ hwt
    have hq2 := posL_ge orelse _ hwo
    have hth := elifHeadR ih thn h1 il st rs re s e a p w hokt hrs hse hwt (by omega) hp hsi hgc hfw
    have w4 := branch_wf k.wf (cond := st.cur) (by obb) .condF
    have hctx4 : CtxLt (setCur ((bump (elifHead st rs re thn)).edge st.cur (elifHead st rs re thn).next .condF) (elifHead st rs re thn).next) (st.next + 1) :=
      ((w.ctxLt (m := st.next + 1) (by omega)).same sm).of_eq rfl rfl
    rcases orelse_cases2 orelse with rfl | ⟨x, s', e', ta, tb, rs', re', rfl, hx⟩ | ⟨o, os, rfl, hne1, hne2⟩
    · rw [procIfElif_nil] at hf hz ⊢
      simp only at hf hz ⊢
      unfold finishElif at hf hz ⊢
      generalize elifHead st rs re thn = s3 at *
      have f3 := (hf.back_setCur.back_eue (.inl (by omega))).back_edge (.inl (by omega))
      obtain ⟨r1, si3, nr3⟩ := hth (hz _ (.inl rfl) (by obb)) (hz _ (.inr (Nat.le_refl _)) (by obb)) (f3.mono (by omega) (by ob))
      have nrf := nr3 fm (by omega) (by omega) hfc hnr
      simp only [setCur_stmts, setCur_cur, edgeUnlessExit_stmts, edge_stmts]
      exact ⟨⟨r1.ext, r1.pw, GC.fresh r1.gc.gz nrf⟩, nrf⟩
    · rw [hx.elif_eq] at hf hz ⊢
      unfold finishElif at hf hz ⊢
      have hsz : sizeL ta + sizeL tb < M ∧ sizeL ta ≤ N ∧ sizeL tb ≤ N := by have := hx.size; omega
      have hokab := hx.ok hoke
      obtain ⟨hqs, hse', hwa, hwb, hpe'⟩ := hx.wf hwo
      rw [hx.pos] at hpe
      obtain ⟨j, smj⟩ := procIfElif_frame ta tb _ rs' re' fm (elifHead st rs re thn).next 0 w4 (.inl rfl) (Nat.zero_le _) (.inr (Nat.zero_le _)) (by obb)
      have hjn := j.next_le
      have ihr := ihM ta tb hsz.1 hsz.2.1 hsz.2.2 il _ rs' re' s' e' fm a (posL (s + 1) thn) w4 hokab.1 hokab.2 hx.rs (by obb) (by obb)
      have tgt := procIfElif_target ta tb _ rs' re' fm w4 (by obb) (fun x => x < st.next + 1 ∨ (elifHead st rs re thn).next ≤ x)
        (TG.zone hctx4 (by omega) (by obb)) (.inl (by omega))
      have hedge : (st.cur, (elifHead st rs re thn).next, ETy.condF) ∈
          (procIfElif (setCur ((bump (elifHead st rs re thn)).edge st.cur (elifHead st rs re thn).next .condF) (elifHead st rs re thn).next)
            rs' re' ta tb fm).edges := j.sub.1 _ (by simp)
      generalize elifHead st rs re thn = s3 at *
      generalize procIfElif _ rs' re' ta tb fm = s5 at *
      have f5 := hf.back_setCur.back_eue (.inl (by omega))
      have f3 := ((f5.mono (lo' := st.next + 1) (hi' := s3.next) (by omega) (by obb)).back_TI tgt).back_setCur.back_edge (.inr (by obb)) |>.back_bump
      obtain ⟨r1, si3, nr3⟩ := hth (hz _ (.inl rfl) (by obb)) (hz _ (.inr (Nat.le_refl _)) (by obb)) f3
      have nrf := nr3 fm (by omega) (by omega) hfc hnr
      obtain ⟨r2, nr5⟩ := ihr nrf (f5.mono (by obb) (by obb)) hse' hwa hwb hpe' hqs si3 (GC.fresh r1.gc.gz (NoRec.of_wf k.wf (Nat.le_refl _)) : GC s3.stmts s3.next)
        (fun b hb hlt => hz b (.inr (by obb)) (by obb)) (fun hr => f5.step hedge (hfw hr))
      have r := r1.trans (r2.mono (by omega) (by omega))
      simp only [setCur_stmts, setCur_cur, edgeUnlessExit_stmts]
      exact ⟨⟨r.ext, r.pw, GC.fresh r.gc.gz nr5⟩, nr5⟩
    · rw [procIfElif_else _ _ _ _ _ _ _ hne1 hne2] at hf hz ⊢
      simp only at hf hz ⊢
      unfold finishElif at hf hz ⊢
      obtain ⟨k5, sm5, hn5⟩ := elseTail_frame' (o :: os) _ k.wf st.cur (elifHead st rs re thn).cur (by obb)
      have he := elseR ih (o :: os) h2 il (elifHead st rs re thn) st.cur (elifHead st rs re thn).cur a (posL (s + 1) thn) k.wf (by obb) hoke
      have back5 : Fut E (st.next + 1) (elifHead st rs re thn).next (elseTail (elifHead st rs re thn) st.cur (elifHead st rs re thn).cur (o :: os)) →
          Fut E (st.next + 1) (elifHead st rs re thn).next (elifHead st rs re thn) := fun f => by
        unfold elseTail at f
        exact ((f.back_list w4 hctx4 (by omega) (by obb)).back_setCur.back_edge (.inr (by obb))).back_bump
      generalize elifHead st rs re thn = s3 at *
      generalize elseTail s3 st.cur s3.cur (o :: os) = s5 at *
      have key : Fut E st.next s5.next s5 → (∀ b, (b = st.cur ∨ st.next ≤ b) → b < s5.next → R E b → R E a) →
          RPost E st.stmts s5.stmts s5.cur p (e + 1) ∧ NoRec s5.stmts fm := by
        intro f5 hz5
        obtain ⟨r1, si3, nr3⟩ := hth (hz5 _ (.inl rfl) (by obb)) (hz5 _ (.inr (Nat.le_refl _)) (by obb)) (back5 (f5.mono (by omega) (by obb)))
        have nrf := nr3 fm (by omega) (by omega) hfc hnr
        obtain ⟨r2, nr5⟩ := he (f5.mono (by obb) (Nat.le_refl _)) hwo si3 r1.gc.gz (hz5 _ (.inr (by obb)) (by obb))
        exact ⟨r1.trans (r2.mono (by omega) hpe), nr5 fm (by obb) nrf⟩
      cases hbt : (s5.blockTerminates s3.cur && s5.blockTerminates s5.cur)
      · rw [hbt] at hf hz
        simp only [Bool.false_eq_true, ↓reduceIte] at hf hz ⊢
        obtain ⟨r, nr5⟩ := key (((hf.back_setCur.back_eue (.inl (by omega))).back_eue (.inl (by omega))).mono (Nat.le_refl _) (by obb))
          (fun b hb hlt => hz b hb (by obb))
        simp only [setCur_stmts, setCur_cur, edgeUnlessExit_stmts]
        exact ⟨⟨r.ext, r.pw, GC.fresh r.gc.gz nr5⟩, nr5⟩
      · rw [hbt] at hf hz
        simp only [↓reduceIte] at hf hz ⊢
        obtain ⟨r, nr5⟩ := key ((hf.mono (hi' := s5.next) (Nat.le_refl _) (by obb)).back_setCur.back_bumpU) (fun b hb hlt => hz b hb (by obb))
        simp only [setCur_stmts, setCur_cur, bumpU_stmts]
        exact ⟨⟨r.ext, r.pw, GC.fresh r.gc.gz (NoRec.of_wf k5.wf (Nat.le_refl _))⟩, nr5⟩

/-! ### the `elif` tail of `procIf` -/
theorem tailR (ih : ∀ ss, sizeL ss ≤ N → RQL E ss) (ta tb : List Stmt) (ha : sizeL ta ≤ N) (hb : sizeL tb ≤ N) (il : Bool) (s3 : St)
    (cond te merge rs' re' s' e' a q : Nat) (w3 : WF s3) (hoka : okLC il ta = true) (hokb : okLC il tb = true)
    (hrs' : (rs' = s' ∧ re' = e') ∨ (rs' = 0 ∧ re' = 0)) (hcl : cond < s3.next) (_htl : te < s3.next) (hml : merge < s3.next)
    (hnr : NoRec s3.stmts merge)
    (hf : Fut E s3.next (procIfElifTail s3 cond te merge rs' re' ta tb).next (procIfElifTail s3 cond te merge rs' re' ta tb))
    (hse' : s' ≤ e') (hwa : wfL (s' + 1) ta = true) (hwb : wfL (posL (s' + 1) ta) tb = true) (hpe' : posL (posL (s' + 1) ta) tb ≤ e' + 1)
    (hqs : q ≤ s') (hsi : SI E s3.stmts a q) (hgz : GZ s3.stmts)
    (hz : ∀ b, s3.next ≤ b → b < (procIfElifTail s3 cond te merge rs' re' ta tb).next → R E b → R E a) (hfw : R E a → R E cond) :
    RPost E s3.stmts (procIfElifTail s3 cond te merge rs' re' ta tb).stmts (procIfElifTail s3 cond te merge rs' re' ta tb).cur q (e' + 1) := by
  rw [procIfElifTail_eq] at hf hz ⊢
  simp only at hf hz ⊢
  have w4 := branch_wf w3 hcl .condF
  obtain ⟨j, smj⟩ := procIfElif_frame ta tb _ rs' re' merge s3.next 0 w4 (.inl rfl) (Nat.zero_le _) (.inr (Nat.zero_le _)) (by obb)
  have hjn := j.next_le
  have hR := elifR ih _ ta tb (Nat.lt_succ_self _) ha hb il _ rs' re' s' e' merge a q w4 hoka hokb hrs' (by obb) (by obb) hnr
  have hedge : (cond, s3.next, ETy.condF) ∈
      (procIfElif (setCur ((bump s3).edge cond s3.next .condF) s3.next) rs' re' ta tb merge).edges := j.sub.1 _ (by simp)
  generalize procIfElif _ rs' re' ta tb merge = s5 at *
  have key : Fut E s3.next s5.next s5 → (∀ b, s3.next ≤ b → b < s5.next → R E b → R E a) →
      RPost E s3.stmts s5.stmts s5.cur q (e' + 1) ∧ NoRec s5.stmts merge := by
    intro f5 hz5
    exact hR (f5.mono (by obb) (by obb)) hse' hwa hwb hpe' hqs hsi (GC.fresh hgz (NoRec.of_wf w3 (Nat.le_refl _)) : GC s3.stmts s3.next)
      (fun b hb hlt => hz5 b (by obb) hlt) (fun hr => f5.step hedge (hfw hr))
  cases hu : s5.unreach.contains s5.cur
  · rw [hu] at hf hz
    simp only [Bool.false_eq_true, ↓reduceIte] at hf hz ⊢
    have f5 := hf.back_setCur.back_eue (.inl hml)
    obtain ⟨r, nr5⟩ := key (f5.mono (Nat.le_refl _) (by obb)) (fun b hb hlt => hz b hb (by obb))
    simp only [setCur_stmts, setCur_cur, edgeUnlessExit_stmts]
    exact ⟨r.ext, r.pw, GC.fresh r.gc.gz nr5⟩
  · rw [hu] at hf hz
    simp only [↓reduceIte] at hf hz ⊢
    cases hbt : s5.blockTerminates te
    · rw [hbt] at hf hz
      simp only [Bool.false_eq_true, ↓reduceIte] at hf hz ⊢
      have f5 := (hf.back_setCur.back_eue (.inl hml)).back_setCur
      obtain ⟨r, nr5⟩ := key (f5.mono (Nat.le_refl _) (by obb)) (fun b hb hlt => hz b hb (by obb))
      simp only [setCur_stmts, setCur_cur, edgeUnlessExit_stmts]
      exact ⟨r.ext, r.pw, GC.fresh r.gc.gz nr5⟩
    · rw [hbt] at hf hz
      simp only [↓reduceIte] at hf hz ⊢
      exact (key hf hz).1

/-! ### `if` -/
theorem ifR (ih : ∀ ss, sizeL ss ≤ N → RQL E ss) (thn orelse : List Stmt) (h1 : sizeL thn ≤ N) (h2 : sizeL orelse ≤ N) (il : Bool) (st : St)
    (rs re s e p : Nat) (w : WF st) (hokt : okLC il thn = true) (hoke : okLC il orelse = true)
    (hrs : (rs = s ∧ re = e) ∨ (rs = 0 ∧ re = 0))
    (hf : Fut E st.next (procIf st rs re thn orelse).next (procIf st rs re thn orelse))
    (hse : s ≤ e) (hwt : wfL (s + 1) thn = true) (hwo : wfL (posL (s + 1) thn) orelse = true) (hpe : posL (posL (s + 1) thn) orelse ≤ e + 1)
    (hp : p ≤ s) (hsi : SI E st.stmts st.cur p) (hgc : GC st.stmts st.cur) :
    RPost E st.stmts (procIf st rs re thn orelse).stmts (procIf st rs re thn orelse).cur p (e + 1) := by
  obtain ⟨iw, _⟩ := procStmt_frame (.ite rs re thn orelse) st w st.cur st.next (Or.inl rfl) (Nat.le_refl _)
  rw [procStmt_ite] at iw
  have hz := zoneR w iw hf
  clear iw
  obtain ⟨k, sm, hnx⟩ := ifHead_frame' thn st rs re w
  have hcur := w.cur
  have hk := k.wf.cur
  have h2' := w.two
  have hq1 := posL_ge thn _ hwt
  have hq2 := posL_ge orelse _ hwo
  have hth := ifHeadR ih thn h1 il st rs re s e st.cur p w hokt hrs hse hwt (by omega) hp hsi hgc id
  have hctx3 : CtxLt (ifHead st rs re thn) st.next := (w.ctxLt (Nat.le_refl _)).same sm
  have hnm : NoRec st.stmts (st.next + 1) := NoRec.of_wf w (by omega)
  rcases orelse_cases2 orelse with rfl | ⟨x, s', e', ta, tb, rs', re', rfl, hx⟩ | ⟨o, os, rfl, hne1, hne2⟩
  · rw [procIf_nil] at hf hz ⊢
    simp only at hf hz ⊢
    generalize ifHead st rs re thn = s3 at *
    have f3 := ((hf.mono (lo' := st.next + 2) (by omega) (Nat.le_refl _)).back_setCur.back_eue (.inl (by omega))).back_edge (.inl (by omega))
    obtain ⟨r1, si3, nr3⟩ := hth (hz _ (.inl rfl) (by obb)) (hz _ (.inr (Nat.le_refl _)) (by obb)) (f3.mono (Nat.le_refl _) (by obb))
    have nrf := nr3 (st.next + 1) (by omega) (by omega) (by omega) hnm
    simp only [setCur_stmts, setCur_cur, edgeUnlessExit_stmts, edge_stmts]
    exact ⟨r1.ext, r1.pw, GC.fresh r1.gc.gz nrf⟩
  · rw [hx.if_eq] at hf hz ⊢
    have hsz : sizeL ta ≤ N ∧ sizeL tb ≤ N := by have := hx.size; omega
    have hokab := hx.ok hoke
    obtain ⟨hqs, hse', hwa, hwb, hpe'⟩ := hx.wf hwo
    rw [hx.pos] at hpe
    have tgt := procIfElifTail_target ta tb _ st.cur (ifHead st rs re thn).cur (st.next + 1) rs' re' k.wf (by obb) hk (by obb)
      (fun x => x < st.next + 2 ∨ (ifHead st rs re thn).next ≤ x) (TG.zone (hctx3.mono (by omega)) (by omega) (Nat.le_refl _)) (.inl (by omega))
    obtain ⟨j, smj⟩ := elifTail_frame' ta tb _ k.wf st.cur (ifHead st rs re thn).cur (st.next + 1) rs' re' (by obb) hk (by obb)
    have hjn := j.next_le
    have ht := tailR ih ta tb hsz.1 hsz.2 il (ifHead st rs re thn) st.cur (ifHead st rs re thn).cur (st.next + 1) rs' re' s' e' st.cur
      (posL (s + 1) thn) k.wf hokab.1 hokab.2 hx.rs (by obb) hk (by obb)
    generalize ifHead st rs re thn = s3 at *
    generalize procIfElifTail s3 st.cur s3.cur (st.next + 1) rs' re' ta tb = r at *
    have f3 := (hf.mono (lo' := st.next + 2) (hi' := s3.next) (by omega) hjn).back_TI tgt
    obtain ⟨r1, si3, nr3⟩ := hth (hz _ (.inl rfl) (by obb)) (hz _ (.inr (Nat.le_refl _)) (by obb)) f3
    have nrf := nr3 (st.next + 1) (by omega) (by omega) (by omega) hnm
    have r2 := ht nrf (hf.mono (by obb) (Nat.le_refl _)) hse' hwa hwb hpe' hqs si3 r1.gc.gz (fun b hb hlt => hz b (.inr (by obb)) hlt) id
    exact r1.trans (r2.mono (by omega) (by omega))
  · rw [procIf_else _ _ _ _ _ _ hne1 hne2] at hf hz ⊢
    simp only at hf hz ⊢
    have w4 := branch_wf k.wf (cond := st.cur) (by obb) .condF
    have hctx4 : CtxLt (setCur ((bump (ifHead st rs re thn)).edge st.cur (ifHead st rs re thn).next .condF) (ifHead st rs re thn).next) st.next :=
      hctx3.of_eq rfl rfl
    obtain ⟨k5, sm5, hn5⟩ := elseTail_frame' (o :: os) _ k.wf st.cur (ifHead st rs re thn).cur (by obb)
    have he := elseR ih (o :: os) h2 il (ifHead st rs re thn) st.cur (ifHead st rs re thn).cur st.cur (posL (s + 1) thn) k.wf (by obb) hoke
    have back5 : Fut E (st.next + 2) (ifHead st rs re thn).next (elseTail (ifHead st rs re thn) st.cur (ifHead st rs re thn).cur (o :: os)) →
        Fut E (st.next + 2) (ifHead st rs re thn).next (ifHead st rs re thn) := fun f => by
      unfold elseTail at f
      exact ((f.back_list w4 (hctx4.mono (by omega)) (by omega) (by obb)).back_setCur.back_edge (.inr (by obb))).back_bump
    generalize ifHead st rs re thn = s3 at *
    generalize elseTail s3 st.cur s3.cur (o :: os) = s5 at *
    have key : Fut E (st.next + 2) s5.next s5 → (∀ b, (b = st.cur ∨ st.next ≤ b) → b < s5.next → R E b → R E st.cur) →
        RPost E st.stmts s5.stmts s5.cur p (e + 1) ∧ NoRec s5.stmts (st.next + 1) := by
      intro f5 hz5
      obtain ⟨r1, si3, nr3⟩ := hth (hz5 _ (.inl rfl) (by obb)) (hz5 _ (.inr (Nat.le_refl _)) (by obb)) (back5 (f5.mono (Nat.le_refl _) (by obb)))
      have nrf := nr3 (st.next + 1) (by omega) (by omega) (by omega) hnm
      obtain ⟨r2, nr5⟩ := he (f5.mono (by obb) (Nat.le_refl _)) hwo si3 r1.gc.gz (hz5 _ (.inr (by obb)) (by obb))
      exact ⟨r1.trans (r2.mono (by omega) hpe), nr5 (st.next + 1) (by obb) nrf⟩
    cases hbt : (s5.blockTerminates s3.cur && s5.blockTerminates s5.cur)
    · rw [hbt] at hf hz
      simp only [Bool.false_eq_true, ↓reduceIte] at hf hz ⊢
      have f5 := ((hf.mono (lo' := st.next + 2) (by omega) (Nat.le_refl _)).back_setCur.back_eue (.inl (by omega))).back_eue (.inl (by omega))
      obtain ⟨r, nr5⟩ := key (f5.mono (Nat.le_refl _) (by obb)) (fun b hb hlt => hz b hb (by obb))
      simp only [setCur_stmts, setCur_cur, edgeUnlessExit_stmts]
      exact ⟨r.ext, r.pw, GC.fresh r.gc.gz nr5⟩
    · rw [hbt] at hf hz
      simp only [↓reduceIte] at hf hz ⊢
      obtain ⟨r, _⟩ := key ((hf.mono (lo' := st.next + 2) (hi' := s5.next) (by omega) (by obb)).back_setCur.back_bumpU)
        (fun b hb hlt => hz b hb (by obb))
      simp only [setCur_stmts, setCur_cur, bumpU_stmts]
      exact ⟨r.ext, r.pw, GC.fresh r.gc.gz (NoRec.of_wf k5.wf (Nat.le_refl _))⟩

theorem if_rq (ih : ∀ ss, sizeL ss ≤ N → RQL E ss) (thn orelse : List Stmt) (h1 : sizeL thn ≤ N) (h2 : sizeL orelse ≤ N) (s e : Nat) :
    RQS E (.ite s e thn orelse) := by
  intro il st p w hok hf hwf hp hsi hgc
  rw [okSC_ite, Bool.and_eq_true] at hok
  rw [wfS_ite] at hwf
  simp only [Bool.and_eq_true, decide_eq_true_eq] at hwf
  obtain ⟨⟨⟨hse, hwt⟩, hwo⟩, hpe⟩ := hwf
  simp only [Stmt.span] at hp ⊢
  rw [procStmt_ite] at hf ⊢
  exact ifR ih thn orelse h1 h2 il st s e s e p w hok.1 hok.2 (.inl ⟨rfl, rfl⟩) hf hse hwt hwo hpe hp hsi hgc

theorem elifc_rq (ih : ∀ ss, sizeL ss ≤ N → RQL E ss) (thn orelse : List Stmt) (h1 : sizeL thn ≤ N) (h2 : sizeL orelse ≤ N) (s e : Nat) :
    RQS E (.elifc s e thn orelse) := by
  intro il st p w hok hf hwf hp hsi hgc
  rw [okSC_elifc, Bool.and_eq_true] at hok
  rw [wfS_elifc] at hwf
  simp only [Bool.and_eq_true, decide_eq_true_eq] at hwf
  obtain ⟨⟨⟨hse, hwt⟩, hwo⟩, hpe⟩ := hwf
  simp only [Stmt.span] at hp ⊢
  rw [procStmt_elifc] at hf ⊢
  exact ifR ih thn orelse h1 h2 il st 0 0 s e p w hok.1 hok.2 (.inr ⟨rfl, rfl⟩) hf hse hwt hwo hpe hp hsi hgc

end main
end PV.CFGSound

#print axioms PV.CFGSound.if_rq
#print axioms PV.CFGSound.elifc_rq
