import PV.Model.ZS
/-!
Prefix forests of a post-order numbered forest, and their link with the arrays of `PV.ZS.postL`.
Forests given to `nthL` / `preL` are in left-to-right order; the forests they return are REVERSED
(right-most tree first), as `PV.TED.ted` expects.
-/
namespace PV.ZSProof
open PV.TED PV.ZS

def label : Tree → Nat | .node a _ => a

theorem size_pos (t : Tree) : 0 < t.size := by cases t; simp [Tree.size]; omega

/-- subtree rooted at post-order position `k` of a (left-to-right) forest -/
def nthL : List Tree → Nat → Tree
  | [], _ => default
  | .node a cs :: ts, k =>
    if k < sizeL cs then nthL cs k
    else if k = sizeL cs then .node a cs
    else nthL ts (k - (sizeL cs + 1))
termination_by Fs => sizeL Fs
decreasing_by
  all_goals simp only [sizeL, Tree.size]
  all_goals omega

/-- REVERSED forest made of the first `k` post-order positions of a (left-to-right) forest -/
def preL : List Tree → Nat → List Tree
  | [], _ => []
  | .node a cs :: ts, k =>
    if k ≤ sizeL cs then preL cs k
    else preL ts (k - (sizeL cs + 1)) ++ [.node a cs]
termination_by Fs => sizeL Fs
decreasing_by
  all_goals simp only [sizeL, Tree.size]
  all_goals omega

theorem nthL_lt {a cs ts k} (h : k < sizeL cs) : nthL (.node a cs :: ts) k = nthL cs k := by
  rw [nthL, if_pos h]
theorem nthL_eq {a cs ts} : nthL (.node a cs :: ts) (sizeL cs) = .node a cs := by
  rw [nthL, if_neg (Nat.lt_irrefl _), if_pos rfl]
theorem nthL_gt {a cs ts k} (h : sizeL cs < k) : nthL (.node a cs :: ts) k = nthL ts (k - (sizeL cs + 1)) := by
  rw [nthL, if_neg (by omega), if_neg (by omega)]
theorem preL_le {a cs ts k} (h : k ≤ sizeL cs) : preL (.node a cs :: ts) k = preL cs k := by
  rw [preL, if_pos h]
theorem preL_gt {a cs ts k} (h : sizeL cs < k) :
    preL (.node a cs :: ts) k = preL ts (k - (sizeL cs + 1)) ++ [.node a cs] := by
  rw [preL, if_neg (by omega)]

theorem preL_zero (Fs : List Tree) : preL Fs 0 = [] := by
  suffices h : ∀ k, k = 0 → preL Fs k = [] from h 0 rfl
  intro k
  induction Fs, k using preL.induct with
  | case1 => intro _; rw [preL]
  | case2 a cs ts k h ih => intro hk; rw [preL_le h]; exact ih hk
  | case3 a cs ts k h ih => intro hk; omega

theorem preL_full (Fs : List Tree) (k : Nat) (h : sizeL Fs ≤ k) : preL Fs k = Fs.reverse := by
  induction Fs, k using preL.induct with
  | case1 => rw [preL]; rfl
  | case2 a cs ts k h' ih => simp [sizeL, Tree.size] at h; omega
  | case3 a cs ts k h' ih =>
    rw [preL_gt (by omega), ih (by simp [sizeL, Tree.size] at h; omega)]; simp

theorem nthL_size_le (Fs : List Tree) (k : Nat) (h : k < sizeL Fs) : (nthL Fs k).size ≤ k + 1 := by
  induction Fs, k using nthL.induct with
  | case1 => simp [sizeL] at h
  | case2 a cs ts k h' ih => rw [nthL_lt h']; exact ih h'
  | case3 a cs ts _ => rw [nthL_eq]; simp [Tree.size]; omega
  | case4 a cs ts k h1 h2 ih =>
    rw [nthL_gt (by omega)]
    have := ih (by simp [sizeL, Tree.size] at h; omega); omega

/-- (A) the right-most root of the prefix forest of `k+1` positions is node `k`; removing its whole
subtree leaves the prefix that stops just before the left-most leaf of `k` -/
theorem preL_succ (Fs : List Tree) (k : Nat) (h : k < sizeL Fs) :
    preL Fs (k + 1) = nthL Fs k :: preL Fs (k + 1 - (nthL Fs k).size) := by
  induction Fs, k using nthL.induct with
  | case1 => simp [sizeL] at h
  | case2 a cs ts k h' ih =>
    have hs := nthL_size_le cs k h'
    rw [nthL_lt h', preL_le (by omega), preL_le (by omega)]; exact ih h'
  | case3 a cs ts _ =>
    rw [nthL_eq, preL_gt (by omega)]
    simp [Tree.size, preL_zero]
    rw [show sizeL cs + 1 - (1 + sizeL cs) = 0 by omega, preL_zero]
  | case4 a cs ts k h1 h2 ih =>
    have hk : k - (sizeL cs + 1) < sizeL ts := by simp [sizeL, Tree.size] at h; omega
    have hs := nthL_size_le ts _ hk
    rw [nthL_gt (by omega), preL_gt (by omega), preL_gt (by omega)]
    rw [show k + 1 - (sizeL cs + 1) = k - (sizeL cs + 1) + 1 by omega, ih hk]
    simp
    congr 1; omega

/-- (B) removing only the root `k` of the prefix of `k+1` positions leaves the prefix of `k` positions -/
theorem preL_children (Fs : List Tree) (k : Nat) (h : k < sizeL Fs) (a : Nat) (as : List Tree)
    (hn : nthL Fs k = .node a as) :
    as.reverse ++ preL Fs (k + 1 - (Tree.node a as).size) = preL Fs k := by
  induction Fs, k using nthL.induct with
  | case1 => simp [sizeL] at h
  | case2 b cs ts k h' ih =>
    rw [nthL_lt h'] at hn
    have hs := nthL_size_le cs k h'
    rw [hn] at hs
    rw [preL_le (by omega), preL_le (by omega)]; exact ih h' hn
  | case3 b cs ts _ =>
    rw [nthL_eq] at hn
    injection hn with h1 h2
    subst h1 h2
    rw [preL_le (Nat.le_refl _), preL_full cs _ (Nat.le_refl _)]
    rw [show sizeL cs + 1 - (Tree.node b cs).size = 0 by simp [Tree.size]; omega, preL_zero]; simp
  | case4 b cs ts k h1 h2 ih =>
    have hk : k - (sizeL cs + 1) < sizeL ts := by simp [sizeL, Tree.size] at h; omega
    have hs := nthL_size_le ts _ hk
    rw [nthL_gt (by omega)] at hn
    rw [hn] at hs
    rw [preL_gt (by omega), preL_gt (by omega), ← ih hk hn, List.append_assoc]
    congr 3; omega

/-- (E) the subtree at a position inside the subtree of `k` is found inside that subtree -/
theorem nthL_nthL (Fs : List Tree) (k : Nat) (h : k < sizeL Fs) (x : Nat)
    (hx1 : k + 1 - (nthL Fs k).size ≤ x) (hx2 : x ≤ k) :
    nthL Fs x = nthL [nthL Fs k] (x - (k + 1 - (nthL Fs k).size)) := by
  induction Fs, k using nthL.induct generalizing x with
  | case1 => simp [sizeL] at h
  | case2 b cs ts k h' ih =>
    rw [nthL_lt h'] at hx1 ⊢
    rw [nthL_lt (by omega)]
    exact ih h' x hx1 hx2
  | case3 b cs ts _ =>
    rw [nthL_eq] at hx1 ⊢
    rw [show sizeL cs + 1 - (Tree.node b cs).size = 0 by simp [Tree.size]; omega, Nat.sub_zero]
    by_cases hx : x < sizeL cs
    · rw [nthL_lt hx, nthL_lt hx]
    · have : x = sizeL cs := by omega
      subst this
      rw [nthL_eq, nthL_eq]
  | case4 b cs ts k h1 h2 ih =>
    have hk : k - (sizeL cs + 1) < sizeL ts := by simp [sizeL, Tree.size] at h; omega
    have hs := nthL_size_le ts _ hk
    rw [nthL_gt (by omega)] at hx1 ⊢
    rw [nthL_gt (by omega)]
    rw [ih hk (x - (sizeL cs + 1)) (by omega) (by omega)]
    congr 1; omega


theorem forest_ind (P : List Tree → Prop) (nil : P [])
    (cons : ∀ a cs ts, P cs → P ts → P (.node a cs :: ts)) : ∀ Fs, P Fs := by
  suffices h : ∀ n Fs, sizeL Fs ≤ n → P Fs from fun Fs => h _ Fs (Nat.le_refl _)
  intro n
  induction n with
  | zero =>
    intro Fs h
    match Fs with
    | [] => exact nil
    | .node a cs :: ts => simp [sizeL, Tree.size] at h
  | succ n ih =>
    intro Fs h
    match Fs with
    | [] => exact nil
    | .node a cs :: ts =>
      simp only [sizeL, Tree.size] at h
      exact cons a cs ts (ih cs (by omega)) (ih ts (by omega))

theorem postL_cons (off a cs ts) :
    postL off (.node a cs :: ts) = postL off cs ++ [(a, off)] ++ postL (off + (1 + sizeL cs)) ts := by
  simp [postL, postT, Tree.size]

theorem postL_length (Fs : List Tree) : ∀ off, (postL off Fs).length = sizeL Fs := by
  induction Fs using forest_ind with
  | nil => intro off; simp [postL, sizeL]
  | cons a cs ts ih1 ih2 =>
    intro off
    rw [postL_cons]; simp [ih1, ih2, sizeL, Tree.size]; omega

theorem postL_get (Fs : List Tree) (k : Nat) (h : k < sizeL Fs) (off : Nat) :
    (postL off Fs)[k]? = some (label (nthL Fs k), off + (k + 1 - (nthL Fs k).size)) := by
  induction Fs, k using nthL.induct generalizing off with
  | case1 => simp [sizeL] at h
  | case2 a cs ts k h' ih =>
    rw [postL_cons, nthL_lt h', List.append_assoc, List.getElem?_append_left (by rw [postL_length]; exact h')]
    exact ih h' off
  | case3 a cs ts _ =>
    rw [postL_cons, nthL_eq, List.append_assoc, List.getElem?_append_right (by rw [postL_length]; omega)]
    simp [postL_length, label, Tree.size]
    omega
  | case4 a cs ts k h1 h2 ih =>
    have hk : k - (sizeL cs + 1) < sizeL ts := by simp [sizeL, Tree.size] at h; omega
    have hs := nthL_size_le ts _ hk
    rw [postL_cons, nthL_gt (by omega), List.getElem?_append_right (by simp [postL_length]; omega)]
    simp only [List.length_append, postL_length, List.length_singleton]
    rw [ih hk]
    congr 2; omega

end PV.ZSProof
