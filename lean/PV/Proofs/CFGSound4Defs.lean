import PV.Proofs.CFGSound3
/-!
Stage S4 of the mirror's soundness proof: the fragment `okL4 inLoop` = `okL3` WITHOUT the restriction
that a `try` with a non-empty `finally` must not occur inside a `finally` body.
-/
namespace PV.CFGSound
open PV.CFG PV.Py

set_option linter.unusedSimpArgs false in
mutual
  def okL4 (il : Bool) : List Stmt → Bool
    | [] => true
    | x :: xs => okS4 il x && okL4 il xs
  termination_by l => 2 * sizeL l
  decreasing_by
    all_goals (try simp_wf)
    all_goals (try simp only [Stmt.size, sizeL])
    all_goals omega
  def okS4 (il : Bool) : Stmt → Bool
    | .simple .. | .def_ .. | .ret .. | .raise .. => true
    | .brk .. | .cont .. => il
    | .ite _ _ a b | .elifc _ _ a b => okL4 il a && okL4 il b
    | .elsec _ _ a => okL4 il a
    | .loop _ _ a b => okL4 true a && okL4 il b
    | .with_ _ _ a => okL4 il a
    | .match_ _ _ cs => okCases4 il cs
    | .class_ _ _ a => okL4 false a
    | .try_ _ _ a hs c d => okL4 il a && okHs4 il hs && okL4 il c && (d.isEmpty || okL4 il d)
    | .handler .. | .case_ .. => false
  termination_by x => 2 * x.size + 1
  decreasing_by
    all_goals (try simp_wf)
    all_goals (try simp only [Stmt.size, sizeL])
    all_goals omega
  def okCases4 (il : Bool) : List Stmt → Bool
    | [] => true
    | .case_ _ _ a :: cs => okL4 il a && okCases4 il cs
    | _ :: _ => false
  termination_by l => 2 * sizeL l
  decreasing_by
    all_goals (try simp_wf)
    all_goals (try simp only [Stmt.size, sizeL])
    all_goals omega
  def okHs4 (il : Bool) : List Stmt → Bool
    | [] => true
    | .handler _ _ a :: hs => okL4 il a && okHs4 il hs
    | _ :: _ => false
  termination_by l => 2 * sizeL l
  decreasing_by
    all_goals (try simp_wf)
    all_goals (try simp only [Stmt.size, sizeL])
    all_goals omega
end

end PV.CFGSound
