import PV.Proofs.CFGRangesC02Ind
/-!
Range-level COMPLETENESS of the dead-code detector of the CFG mirror (property C02 for the reported RANGES):
every structurally dead line lies INSIDE the line range `[start of the oldest record, end of the newest record]` that `findings`
reports for an unreachable block.

* `block_range`: from the facts about the final record list — `GZ` (the records of a block are consecutive), pairwise `Rel`
  (located records are stored in source order), `ZF` (a `0..0` record is the oldest of its block), `s ≤ e` for every record —
  the start line of EVERY record lies between the start line of the oldest and the end line of the newest record of its block
  (`C02_block_records_ordered`);
* `findings_cover`: every record of an unreachable block starts inside the range reported for that block;
* `mirror_ranges_complete`: with `build_complete` (a structurally dead line that is not the head of an `elif` clause has a record in
  an unreachable block).
-/
namespace PV.CFGSound
open PV.CFG PV.SD

/-! ### the range of a block contains the start lines of its records -/

/-- located records in source order (`Rel.ord`) -/
def OrdR (newer older : SRec) : Prop := 1 ≤ older.s → 1 ≤ newer.s → older.s ≤ newer.s

/-- the start line of the summary of a segment is at most the start line of every located record of the segment -/
theorem infoR_seg_start {b : Nat} {c : List SRec} (hc : NoRec c b) : ∀ (t : List SRec) (h : SRec), h.blk = b → (∀ x ∈ t, x.blk = b) →
    (h :: t).Pairwise OrdR → ∀ x ∈ h :: t, 1 ≤ x.s → (infoR b (h :: (t ++ c))).start ≤ x.s
  | [], h, hh, _, _, x, hx, _ => by
    have e : infoR b (h :: ([] ++ c)) = upd {} h := by
      show (if h.blk = b then upd (infoR b c) h else infoR b c) = _
      rw [if_pos hh, infoR_norec hc]
    rw [e, upd_start_of_empty h rfl, List.mem_singleton.mp hx]
    exact Nat.le_refl _
  | h' :: t, h, hh, ht, hpw, x, hx, h1 => by
    obtain ⟨_, i2, f, hf, i3⟩ := infoR_seg hc t h' (ht h' (List.mem_cons_self ..)) (fun x hx => ht x (List.mem_cons_of_mem _ hx))
    have e : infoR b (h :: ((h' :: t) ++ c)) = upd (infoR b (h' :: (t ++ c))) h := by
      show (if h.blk = b then upd (infoR b (h' :: (t ++ c))) h else infoR b (h' :: (t ++ c))) = _
      rw [if_pos hh]
    rw [e, upd_start_of_nonEmpty h i2]
    obtain ⟨p1, p2⟩ := List.pairwise_cons.mp hpw
    rcases List.mem_cons.mp hx with rfl | hx
    · rw [i3]
      by_cases hf0 : f.s = 0
      · omega
      · exact p1 f hf (by omega) h1
    · exact infoR_seg_start hc t h' (ht h' (List.mem_cons_self ..)) (fun x hx => ht x (List.mem_cons_of_mem _ hx)) p2 x hx h1

/-- **the records of one block are ordered**: the start line of every record lies between the start line of the oldest record
(`start`) and the end line of the newest record (`stop`) of its block -/
theorem block_range {E : List Edge} {L : List SRec} (hgz : GZ L) (hpw : L.Pairwise (Rel E)) (hzf : ZF L)
    (hval : ∀ r ∈ L, r.s = 0 → r.e = 0) (hse : ∀ r ∈ L, r.s ≤ r.e) {r : SRec} (hr : r ∈ L) :
    (infoR r.blk L).nonEmpty = true ∧ (infoR r.blk L).start ≤ r.s ∧ r.s ≤ (infoR r.blk L).stop := by
  obtain ⟨a, h, t, c, hL, ha, hc, hh, ht, hz⟩ := GZ.decomp (b := r.blk) hgz ⟨r, hr, rfl⟩
  subst hL
  rw [infoR_append_norec _ ha]
  obtain ⟨i1, i2, fst, hfst, i3⟩ := infoR_seg hc t h hh ht
  have hrm : r ∈ h :: t := by
    rcases List.mem_append.mp hr with hra | hr
    · exact absurd rfl (ha r hra)
    · rcases List.mem_cons.mp hr with rfl | hr
      · exact List.mem_cons_self ..
      · rcases List.mem_append.mp hr with hr | hr
        · exact List.mem_cons_of_mem _ hr
        · exact absurd rfl (hc r hr)
  have hp1 : (h :: (t ++ c)).Pairwise (Rel E) := (List.pairwise_append.mp hpw).2.1
  have hp2 : (h :: t).Pairwise (Rel E) := (List.pairwise_append.mp (show ((h :: t) ++ c).Pairwise (Rel E) from hp1)).1
  have hp3 : (h :: t).Pairwise OrdR := hp2.imp (fun rel => rel.ord)
  have hzh : h.e = 0 → NoRec (t ++ c) h.blk := (ZF.suffix hzf).2
  have hhm : h ∈ a ++ h :: (t ++ c) := List.mem_append.mpr (.inr (List.mem_cons_self ..))
  refine ⟨i2, ?_, ?_⟩
  · by_cases h1 : 1 ≤ r.s
    · exact infoR_seg_start hc t h hh ht hp3 r hrm h1
    · -- a `0..0` record is alone in its block
      have hre : r.e = 0 := hval r hr (by omega)
      have hrh : r = h := by
        rcases List.mem_cons.mp hrm with e | hrt
        · exact e
        · exact absurd hre (hz r hrt)
      subst hrh
      have htn : t = [] := by
        rcases t with _ | ⟨y, t⟩
        · rfl
        · exact absurd ((ht y (List.mem_cons_self ..)).trans hh.symm) (hzh hre y (List.mem_cons_self ..))
      subst htn
      have hf : fst = r := List.mem_singleton.mp hfst
      rw [i3, hf]
      exact Nat.le_refl _
  · rw [i1]
    rcases List.mem_cons.mp hrm with e | hrt
    · rw [e]; exact hse h hhm
    · have hne : h.e ≠ 0 := fun h0 => hzh h0 r (List.mem_append.mpr (.inl hrt)) (hh.symm ▸ rfl)
      have hhs : 1 ≤ h.s := by
        apply Classical.byContradiction
        intro hn
        exact hne (hval h hhm (by omega))
      have := hse h hhm
      by_cases h1 : 1 ≤ r.s
      · have := ((List.pairwise_cons.mp hp2).1 r hrt).ord h1 hhs
        omega
      · omega

/-! ### the findings -/

/-- **every record of an unreachable block starts inside the range reported for its block** -/
theorem findings_cover (st : St) (w : WF st) (hgz : GZ st.stmts) (hpw : st.stmts.Pairwise (Rel st.edges)) (hzf : ZF st.stmts)
    (hval : ∀ r ∈ st.stmts, r.s = 0 → r.e = 0) (hse : ∀ r ∈ st.stmts, r.s ≤ r.e) :
    ∀ r ∈ st.stmts, r.blk ∉ reachable st → ∃ f ∈ findings st, f.s ≤ r.s ∧ r.s ≤ f.e := by
  intro r hr hd
  have hb : r.blk < st.next := w.stmts r hr
  obtain ⟨h1, h2, h3⟩ := block_range hgz hpw hzf hval hse hr
  unfold findings
  refine ⟨_, List.mem_map.mpr ⟨r.blk, List.mem_filter.mpr ⟨List.mem_range.mpr hb, ?_⟩, rfl⟩, ?_⟩
  · rw [blockInfo_getD st hb, h1]
    simpa using hd
  · simp only []
    rw [blockInfo_getD st hb]
    exact ⟨h2, h3⟩

/-- if `r` is the NEWEST record of its (unreachable) block, the range reported for the block ends exactly at the end line of `r`:
it covers the whole span `r.s … r.e` of the statement of `r` -/
theorem findings_cover_newest (st : St) (w : WF st) (hgz : GZ st.stmts) (hpw : st.stmts.Pairwise (Rel st.edges)) (hzf : ZF st.stmts)
    (hval : ∀ r ∈ st.stmts, r.s = 0 → r.e = 0) (hse : ∀ r ∈ st.stmts, r.s ≤ r.e) {a c : List SRec} {r : SRec}
    (hL : st.stmts = a ++ r :: c) (ha : NoRec a r.blk) (hd : r.blk ∉ reachable st) :
    ∃ f ∈ findings st, f.s ≤ r.s ∧ f.e = r.e := by
  have hr : r ∈ st.stmts := by rw [hL]; exact List.mem_append.mpr (.inr (List.mem_cons_self ..))
  have hb : r.blk < st.next := w.stmts r hr
  obtain ⟨h1, h2, _⟩ := block_range hgz hpw hzf hval hse hr
  have hstop : (infoR r.blk st.stmts).stop = r.e := by
    rw [hL, infoR_append_norec _ ha]
    show (if r.blk = r.blk then upd (infoR r.blk c) r else infoR r.blk c).stop = _
    rw [if_pos rfl, upd_stop]
  unfold findings
  refine ⟨_, List.mem_map.mpr ⟨r.blk, List.mem_filter.mpr ⟨List.mem_range.mpr hb, ?_⟩, rfl⟩, ?_⟩
  · rw [blockInfo_getD st hb, h1]
    simpa using hd
  · simp only []
    rw [blockInfo_getD st hb]
    exact ⟨h2, hstop⟩

/-! ### the whole definition -/

/-- the fragment of the range-level completeness theorem: that of the record-level theorem (`okLC false`), without standalone
`elif` clauses -/
def okC2 (body : List Stmt) : Bool := okLC false body && noSEL body

theorem build_nz {k : Kind} {s e : Nat} {body : List Stmt} (hwf : WFDef k s e body) : NZ (spansL body) := by
  intro sp hs
  have := spans_bounds body 1 hwf.wfl sp hs
  omega

theorem build_se (k : Kind) (s e : Nat) (body : List Stmt) (hok : okLC false body = true) (hwf : WFDef k s e body) :
    ∀ r ∈ (build k s e body).stmts, r.s ≤ r.e := by
  intro r hr
  rcases build_spans k s e body hok r hr with hp | hz | hsp
  · cases k
    · cases hp
    · have : r = { blk := 2, s := s, e := e, ty := .other } := by simpa [preB, initSt] using hp
      rw [this]
      exact hwf.2.1
    · cases hp
  · omega
  · have := spans_bounds body 1 hwf.wfl _ hsp
    exact this.2.1

/-- **every record of an unreachable block of the mirror starts inside a reported range** -/
theorem ranges_cover_records (k : Kind) (s e : Nat) (body : List Stmt) (hok : okLC false body = true) (hno : noSEL body = true)
    (hwf : WFDef k s e body) :
    ∀ r ∈ (build k s e body).stmts, r.blk ∉ reachable (build k s e body) →
      ∃ f ∈ findings (build k s e body), f.s ≤ r.s ∧ r.s ≤ f.e := by
  obtain ⟨hgz, hpw, hv⟩ := build_rq rq_list k s e body hok hwf
  have hzf := build_zf k s e body hok hno (build_nz hwf) (fun hk => by subst hk; have := hwf.1; have := hwf.2.1; omega)
  exact findings_cover _ (build_wf k s e body) hgz hpw hzf hv (build_se k s e body hok hwf)

/-- every line of the span of a statement whose record is the newest of an unreachable block lies inside a reported range
(this is how the head of an `elif` clause inside a dead `if` statement is covered: by the range of the block of the `if` test) -/
theorem ranges_cover_span (k : Kind) (s e : Nat) (body : List Stmt) (hok : okLC false body = true) (hno : noSEL body = true)
    (hwf : WFDef k s e body) {a c : List SRec} {r : SRec} (hL : (build k s e body).stmts = a ++ r :: c) (ha : NoRec a r.blk)
    (hd : r.blk ∉ reachable (build k s e body)) :
    ∀ l, r.s ≤ l → l ≤ r.e → ∃ f ∈ findings (build k s e body), f.s ≤ l ∧ l ≤ f.e := by
  obtain ⟨hgz, hpw, hv⟩ := build_rq rq_list k s e body hok hwf
  have hzf := build_zf k s e body hok hno (build_nz hwf) (fun hk => by subst hk; have := hwf.1; have := hwf.2.1; omega)
  obtain ⟨f, hf, h1, h2⟩ := findings_cover_newest _ (build_wf k s e body) hgz hpw hzf hv (build_se k s e body hok hwf) hL ha hd
  intro l hl1 hl2
  exact ⟨f, hf, by omega, by omega⟩

/-- **C02 for the reported ranges**: a structurally dead line is the head of an `elif` clause or lies inside a reported range -/
theorem mirror_ranges_complete (k : Kind) (s e : Nat) (body : List Stmt) (hok : okLC false body = true) (hno : noSEL body = true)
    (hwf : WFDef k s e body) :
    ∀ l ∈ structDead body, l ∈ elifL body ∨ ∃ f ∈ findings (build k s e body), f.s ≤ l ∧ l ≤ f.e := by
  intro l hl
  rcases build_complete k s e body hok l hl with h | ⟨r, hr, hs, hb⟩
  · exact .inl h
  · refine .inr ?_
    have := ranges_cover_records k s e body hok hno hwf r hr hb
    rwa [hs] at this

end PV.CFGSound

#print axioms PV.CFGSound.block_range
#print axioms PV.CFGSound.findings_cover
#print axioms PV.CFGSound.mirror_ranges_complete
#print axioms PV.CFGSound.ranges_cover_span
