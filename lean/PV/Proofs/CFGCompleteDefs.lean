import PV.Proofs.CFGFrameA
import PV.Model.StructDead
/-!
Completeness of the CFG mirror for structurally dead code (property C02) — shared definitions:
the target-frame relation `TI` / `TG`, the fragment predicate `okLC`, the exempt lines `elifL`
(heads of `elif` clauses: the builder stores the test of a converted `elif` with line 0).
-/
namespace PV.CFGSound
open PV.CFG PV.SD

/-- `s` extends `s0` by edges whose TARGET satisfies `G` -/
def TI (G : Nat → Prop) (s0 s : St) : Prop := ∃ ne, s.edges = ne ++ s0.edges ∧ ∀ e ∈ ne, G e.2.1

/-- `G` holds for EXIT, for every block that is not allocated yet, and for every block named by the context stacks -/
structure TG (G : Nat → Prop) (st : St) : Prop where
  up : ∀ x, st.next ≤ x → G x
  exit : G exitB
  loops : ∀ l ∈ st.loops, G l.1 ∧ G l.2.1
  excs : ∀ c ∈ st.excs, (∀ f, c.fin = some f → G f) ∧ ∀ h ∈ c.handlers, G h

/-! ### the fragment: `break`/`continue` only inside a loop of the same definition (flag `il`), `except` / `case`
clauses only as members of `try` / `match` (and nothing else there) -/
set_option linter.unusedSimpArgs false in
mutual
  def okLC (il : Bool) : List Stmt → Bool
    | [] => true
    | x :: xs => okSC il x && okLC il xs
  termination_by l => 2 * sizeL l
  decreasing_by
    all_goals (try simp_wf)
    all_goals (try simp only [Stmt.size, sizeL])
    all_goals omega
  def okSC (il : Bool) : Stmt → Bool
    | .simple .. | .def_ .. | .ret .. | .raise .. => true
    | .brk .. | .cont .. => il
    | .ite _ _ a b | .elifc _ _ a b => okLC il a && okLC il b
    | .elsec _ _ a => okLC il a
    | .loop _ _ a b => okLC true a && okLC il b
    | .with_ _ _ a => okLC il a
    | .match_ _ _ cs => okCasesC il cs
    | .class_ _ _ a => okLC false a
    | .try_ _ _ a hs c d => okLC il a && okHsC il hs && okLC il c && okLC il d
    | .handler .. | .case_ .. => false
  termination_by x => 2 * x.size + 1
  decreasing_by
    all_goals (try simp_wf)
    all_goals (try simp only [Stmt.size, sizeL])
    all_goals omega
  def okCasesC (il : Bool) : List Stmt → Bool
    | [] => true
    | .case_ _ _ a :: cs => okLC il a && okCasesC il cs
    | _ :: _ => false
  termination_by l => 2 * sizeL l
  decreasing_by
    all_goals (try simp_wf)
    all_goals (try simp only [Stmt.size, sizeL])
    all_goals omega
  def okHsC (il : Bool) : List Stmt → Bool
    | [] => true
    | .handler _ _ a :: hs => okLC il a && okHsC il hs
    | _ :: _ => false
  termination_by l => 2 * sizeL l
  decreasing_by
    all_goals (try simp_wf)
    all_goals (try simp only [Stmt.size, sizeL])
    all_goals omega
end

theorem okLC_nil (il : Bool) : okLC il [] = true := by rw [okLC]
theorem okLC_cons (il : Bool) (x : Stmt) (xs : List Stmt) : okLC il (x :: xs) = (okSC il x && okLC il xs) := by rw [okLC]
theorem okSC_brk (il : Bool) (s e : Nat) : okSC il (.brk s e) = il := by rw [okSC]
theorem okSC_cont (il : Bool) (s e : Nat) : okSC il (.cont s e) = il := by rw [okSC]
theorem okSC_ite (il : Bool) (s e : Nat) (a b : List Stmt) : okSC il (.ite s e a b) = (okLC il a && okLC il b) := by rw [okSC]
theorem okSC_elifc (il : Bool) (s e : Nat) (a b : List Stmt) : okSC il (.elifc s e a b) = (okLC il a && okLC il b) := by rw [okSC]
theorem okSC_elsec (il : Bool) (s e : Nat) (a : List Stmt) : okSC il (.elsec s e a) = okLC il a := by rw [okSC]
theorem okSC_loop (il : Bool) (s e : Nat) (a b : List Stmt) : okSC il (.loop s e a b) = (okLC true a && okLC il b) := by rw [okSC]
theorem okSC_with (il : Bool) (s e : Nat) (a : List Stmt) : okSC il (.with_ s e a) = okLC il a := by rw [okSC]
theorem okSC_match (il : Bool) (s e : Nat) (cs : List Stmt) : okSC il (.match_ s e cs) = okCasesC il cs := by rw [okSC]
theorem okSC_class (il : Bool) (s e : Nat) (a : List Stmt) : okSC il (.class_ s e a) = okLC false a := by rw [okSC]
theorem okSC_try (il : Bool) (s e : Nat) (a hs c d : List Stmt) :
    okSC il (.try_ s e a hs c d) = (okLC il a && okHsC il hs && okLC il c && okLC il d) := by rw [okSC]
theorem okSC_handler (il : Bool) (s e : Nat) (a : List Stmt) : okSC il (.handler s e a) = false := by rw [okSC]
theorem okSC_case (il : Bool) (s e : Nat) (a : List Stmt) : okSC il (.case_ s e a) = false := by rw [okSC]

theorem okCasesC_nil (il : Bool) : okCasesC il [] = true := by rw [okCasesC]
theorem okCasesC_case (il : Bool) (s e : Nat) (a cs : List Stmt) :
    okCasesC il (.case_ s e a :: cs) = (okLC il a && okCasesC il cs) := by rw [okCasesC]
theorem okCasesC_cons {il : Bool} {x : Stmt} {cs : List Stmt} (h : okCasesC il (x :: cs) = true) :
    ∃ s e a, x = .case_ s e a ∧ okLC il a = true ∧ okCasesC il cs = true := by
  cases x
  case case_ s e a =>
    rw [okCasesC_case, Bool.and_eq_true] at h
    exact ⟨s, e, a, rfl, h.1, h.2⟩
  all_goals (rw [okCasesC] at h <;> first | cases h | (intro _ _ _ h; cases h))

theorem okHsC_nil (il : Bool) : okHsC il [] = true := by rw [okHsC]
theorem okHsC_handler (il : Bool) (s e : Nat) (a hs : List Stmt) :
    okHsC il (.handler s e a :: hs) = (okLC il a && okHsC il hs) := by rw [okHsC]
theorem okHsC_cons {il : Bool} {x : Stmt} {hs : List Stmt} (h : okHsC il (x :: hs) = true) :
    ∃ s e a, x = .handler s e a ∧ okLC il a = true ∧ okHsC il hs = true := by
  cases x
  case handler s e a =>
    rw [okHsC_handler, Bool.and_eq_true] at h
    exact ⟨s, e, a, rfl, h.1, h.2⟩
  all_goals (rw [okHsC] at h <;> first | cases h | (intro _ _ _ h; cases h))

/-! ### exempt lines: the heads of `elif` clauses (nested definitions are not entered) -/
set_option linter.unusedSimpArgs false in
mutual
  def elifL : List Stmt → List Nat
    | [] => []
    | x :: xs => elifS x ++ elifL xs
  termination_by l => 2 * sizeL l
  decreasing_by
    all_goals (try simp_wf)
    all_goals (try simp only [Stmt.size, sizeL])
    all_goals omega
  def elifS : Stmt → List Nat
    | .elifc s _ a b => s :: elifL a ++ elifL b
    | .ite _ _ a b | .loop _ _ a b => elifL a ++ elifL b
    | .try_ _ _ a hs c d => elifL a ++ elifL hs ++ elifL c ++ elifL d
    | .elsec _ _ a | .handler _ _ a | .with_ _ _ a | .match_ _ _ a | .case_ _ _ a | .class_ _ _ a => elifL a
    | .def_ .. => []
    | .simple .. | .ret .. | .brk .. | .cont .. | .raise .. => []
  termination_by x => 2 * x.size + 1
  decreasing_by
    all_goals (try simp_wf)
    all_goals (try simp only [Stmt.size, sizeL])
    all_goals omega
end

theorem elifL_nil : elifL [] = [] := by rw [elifL]
theorem elifL_cons (x : Stmt) (xs : List Stmt) : elifL (x :: xs) = elifS x ++ elifL xs := by rw [elifL]
theorem elifS_elifc (s e : Nat) (a b : List Stmt) : elifS (.elifc s e a b) = s :: elifL a ++ elifL b := by rw [elifS]
theorem elifS_ite (s e : Nat) (a b : List Stmt) : elifS (.ite s e a b) = elifL a ++ elifL b := by rw [elifS]
theorem elifS_loop (s e : Nat) (a b : List Stmt) : elifS (.loop s e a b) = elifL a ++ elifL b := by rw [elifS]
theorem elifS_try (s e : Nat) (a hs c d : List Stmt) : elifS (.try_ s e a hs c d) = elifL a ++ elifL hs ++ elifL c ++ elifL d := by rw [elifS]
theorem elifS_elsec (s e : Nat) (a : List Stmt) : elifS (.elsec s e a) = elifL a := by rw [elifS]
theorem elifS_handler (s e : Nat) (a : List Stmt) : elifS (.handler s e a) = elifL a := by rw [elifS]
theorem elifS_with (s e : Nat) (a : List Stmt) : elifS (.with_ s e a) = elifL a := by rw [elifS]
theorem elifS_match (s e : Nat) (a : List Stmt) : elifS (.match_ s e a) = elifL a := by rw [elifS]
theorem elifS_case (s e : Nat) (a : List Stmt) : elifS (.case_ s e a) = elifL a := by rw [elifS]
theorem elifS_class (s e : Nat) (a : List Stmt) : elifS (.class_ s e a) = elifL a := by rw [elifS]

/-! ### unfolding equations of the specification `PV.SD` -/
theorem linesOfL_nil : linesOfL [] = [] := by rw [linesOfL]
theorem linesOfL_cons (x : Stmt) (xs : List Stmt) : linesOfL (x :: xs) = linesOf x ++ linesOfL xs := by rw [linesOfL]
theorem linesOf_simple (s e : Nat) (c : List Bool) (h : Bool) : linesOf (.simple s e c h) = [s] := by rw [linesOf]
theorem linesOf_ret (s e : Nat) (c : List Bool) (h : Bool) : linesOf (.ret s e c h) = [s] := by rw [linesOf]
theorem linesOf_brk (s e : Nat) : linesOf (.brk s e) = [s] := by rw [linesOf]
theorem linesOf_cont (s e : Nat) : linesOf (.cont s e) = [s] := by rw [linesOf]
theorem linesOf_raise (s e : Nat) : linesOf (.raise s e) = [s] := by rw [linesOf]
theorem linesOf_def (s e : Nat) (b : List Stmt) : linesOf (.def_ s e b) = [s] := by rw [linesOf]
theorem linesOf_ite (s e : Nat) (a b : List Stmt) : linesOf (.ite s e a b) = s :: linesOfL a ++ linesOfL b := by rw [linesOf]
theorem linesOf_elifc (s e : Nat) (a b : List Stmt) : linesOf (.elifc s e a b) = s :: linesOfL a ++ linesOfL b := by rw [linesOf]
theorem linesOf_loop (s e : Nat) (a b : List Stmt) : linesOf (.loop s e a b) = s :: linesOfL a ++ linesOfL b := by rw [linesOf]
theorem linesOf_elsec (s e : Nat) (a : List Stmt) : linesOf (.elsec s e a) = linesOfL a := by rw [linesOf]
theorem linesOf_try (s e : Nat) (a hs c d : List Stmt) :
    linesOf (.try_ s e a hs c d) = linesOfL a ++ linesOfL hs ++ linesOfL c ++ linesOfL d := by rw [linesOf]
theorem linesOf_handler (s e : Nat) (a : List Stmt) : linesOf (.handler s e a) = s :: linesOfL a := by rw [linesOf]
theorem linesOf_with (s e : Nat) (a : List Stmt) : linesOf (.with_ s e a) = s :: linesOfL a := by rw [linesOf]
theorem linesOf_match (s e : Nat) (a : List Stmt) : linesOf (.match_ s e a) = s :: linesOfL a := by rw [linesOf]
theorem linesOf_case (s e : Nat) (a : List Stmt) : linesOf (.case_ s e a) = s :: linesOfL a := by rw [linesOf]
theorem linesOf_class (s e : Nat) (a : List Stmt) : linesOf (.class_ s e a) = s :: linesOfL a := by rw [linesOf]

theorem structDead_eq' (l : List Stmt) : structDead l = deadInBlock l ++ subDead l := by rw [structDead]
theorem subDead_nil : subDead [] = [] := by rw [subDead]
theorem subDead_cons (x : Stmt) (xs : List Stmt) : subDead (x :: xs) = inStmt x ++ subDead xs := by rw [subDead]
theorem deadInBlock_nil : deadInBlock [] = [] := rfl
theorem deadInBlock_cons (x : Stmt) (xs : List Stmt) : deadInBlock (x :: xs) = if stops x then linesOfL xs else deadInBlock xs := rfl
theorem inStmt_simple (s e : Nat) (c : List Bool) (h : Bool) : inStmt (.simple s e c h) = [] := by rw [inStmt] <;> (intros; contradiction)
theorem inStmt_ret (s e : Nat) (c : List Bool) (h : Bool) : inStmt (.ret s e c h) = [] := by rw [inStmt] <;> (intros; contradiction)
theorem inStmt_brk (s e : Nat) : inStmt (.brk s e) = [] := by rw [inStmt] <;> (intros; contradiction)
theorem inStmt_cont (s e : Nat) : inStmt (.cont s e) = [] := by rw [inStmt] <;> (intros; contradiction)
theorem inStmt_raise (s e : Nat) : inStmt (.raise s e) = [] := by rw [inStmt] <;> (intros; contradiction)
theorem inStmt_def (s e : Nat) (b : List Stmt) : inStmt (.def_ s e b) = [] := by rw [inStmt]
theorem inStmt_ite (s e : Nat) (a b : List Stmt) : inStmt (.ite s e a b) = structDead a ++ structDead b := by rw [inStmt]
theorem inStmt_elifc (s e : Nat) (a b : List Stmt) : inStmt (.elifc s e a b) = structDead a ++ structDead b := by rw [inStmt]
theorem inStmt_loop (s e : Nat) (a b : List Stmt) : inStmt (.loop s e a b) = structDead a ++ structDead b := by rw [inStmt]
theorem inStmt_elsec (s e : Nat) (a : List Stmt) : inStmt (.elsec s e a) = structDead a := by rw [inStmt]
theorem inStmt_handler (s e : Nat) (a : List Stmt) : inStmt (.handler s e a) = structDead a := by rw [inStmt]
theorem inStmt_with (s e : Nat) (a : List Stmt) : inStmt (.with_ s e a) = structDead a := by rw [inStmt]
theorem inStmt_case (s e : Nat) (a : List Stmt) : inStmt (.case_ s e a) = structDead a := by rw [inStmt]
theorem inStmt_class (s e : Nat) (a : List Stmt) : inStmt (.class_ s e a) = structDead a := by rw [inStmt]
theorem inStmt_match (s e : Nat) (a : List Stmt) : inStmt (.match_ s e a) = subDead a := by rw [inStmt]
theorem inStmt_try (s e : Nat) (a hs c d : List Stmt) :
    inStmt (.try_ s e a hs c d) = structDead a ++ subDead hs ++ structDead c ++ structDead d := by rw [inStmt]

end PV.CFGSound
