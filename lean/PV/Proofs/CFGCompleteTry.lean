import PV.Proofs.CFGCompleteIf
/-!
Completeness of the CFG mirror for structurally dead code — the induction over the program, part 3:
`try` / `except` / `else` / `finally`.

The handler blocks of a `try` are allocated BEFORE its body and stay on the exception stack while the `else` and
`finally` parts are processed (a `raise` there is routed to them), so the dead zones of a `try` are the sub-zones above
the handler blocks: the body, each handler body, the `else` part and the `finally` part.
-/
namespace PV.CFGSound
open PV.CFG PV.SD

section main
variable {E : List Edge} {S : List SRec} {N : Nat}

theorem Fut.back_foldl {lo hi : Nat} (src : Nat) (t : ETy) : ∀ (hs : List Nat) (s : St),
    Fut E lo hi (hs.foldl (fun st h => st.edge src h t) s) → (∀ h ∈ hs, h < lo ∨ hi ≤ h) → Fut E lo hi s
  | [], _, f, _ => f
  | h :: hs, s, f, hb => by
    simp only [List.foldl_cons] at f
    exact (Fut.back_foldl src t hs _ f (fun x hx => hb x (List.mem_cons_of_mem _ hx))).back_edge (hb h (List.mem_cons_self ..))

/-! ### handlers -/
theorem handlers_complete (ih : ∀ ss, sizeL ss ≤ N → CQL E S ss) (il : Bool) (after : Nat) :
    ∀ (hs : List Stmt) (hbs : List Nat) (st : St), sizeL hs ≤ N → WF st → LoopOK il st → okHsC il hs = true → hs.length ≤ hbs.length →
      (∀ hb ∈ hbs, hb < st.next) → after < st.next →
      Fut E st.next (procHandlers st hs hbs after).next (procHandlers st hs hbs after) → StS S (procHandlers st hs hbs after) →
      ∀ l ∈ subDead hs, l ∈ elifL hs ∨ DeadRec E S l := by
  intro hs
  induction hs with
  | nil => intro hbs st _ _ _ _ _ _ _ _ _ l hl; rw [subDead_nil] at hl; cases hl
  | cons x hs ihh =>
    intro hbs st hsz w hl hok hlen hhb hal hf hS
    obtain ⟨s, e, b, rfl, hokb, hokc⟩ := okHsC_cons hok
    rcases hbs with _ | ⟨hb, hbs⟩
    · simp at hlen
    have hszs : sizeL b ≤ N ∧ sizeL hs ≤ N := by simp only [sizeL, Stmt.size] at hsz; omega
    rw [procHandlers_handler] at hf hS
    simp only at hf hS
    rw [subDead_cons, inStmt_handler, elifL_cons, elifS_handler]
    have hcur := w.cur
    have h2 := w.two
    have hbl := hhb hb (List.mem_cons_self ..)
    have i0 : Inv st.cur 0 st st := Inv.refl w (.inl rfl)
    have i2 := (i0.setCur (x := hb) (.inr (Nat.zero_le _)) hbl).add (b := hb) (p := s) (q := e) (ty := .other) (.inr (Nat.zero_le _)) (by ob)
    obtain ⟨j, sm⟩ := procList_frame b _ i2.wf st.cur 0 i2.own (Nat.zero_le _)
    have hjn := j.next_le
    have k := i2.trans j
    have hk := k.wf.cur
    have k2 := k.edgeUnlessExit (b := after) (t := .normal) k.own hk (by ob)
    have hctx : CtxLt ((procList ((setCur st hb).add hb s e .other) b).edgeUnlessExit
        (procList ((setCur st hb).add hb s e .other) b).cur after .normal) st.next :=
      (w.ctxLt (Nat.le_refl _)).of_eq (by simp [sm.loops]) (by simp [sm.excs])
    have hb0 := ih b hszs.1 il _ i2.wf (hl.of_eq rfl) hokb
    generalize procList _ b = s1 at *
    have hhb' : ∀ y ∈ hbs, y < (s1.edgeUnlessExit s1.cur after .normal).next := fun y hy => by
      have := hhb y (List.mem_cons_of_mem _ hy); ob
    obtain ⟨j3, sm3⟩ := handlers_frame (c := st.cur) (n := 0) (frame_all (sizeL hs)).1 (frame_all (sizeL hs)).2 hs hbs _ after (Nat.le_refl _)
      k2.wf (.inr (Nat.zero_le _)) (Nat.zero_le _) (fun y hy => ⟨.inr (Nat.zero_le _), hhb' y hy⟩) (by ob)
    have hjn3 := j3.next_le
    have fb := ((hf.mono (lo' := st.next) (hi' := s1.next) (Nat.le_refl _) (by ob)).back_TI
      (procHandlers_target hs hbs _ after k2.wf hhb' (by ob) _ (TG.zone hctx h2 (by ob)) (.inl hal))).back_eue (.inl hal)
    have hbd := (hb0 (fb.mono (by ob) (Nat.le_refl _)) (hS.of_inv j3).back_eue).1
    have hr := ihh hbs _ hszs.2 k2.wf (hl.of_eq (by simp [sm.loops])) hokc (by simpa using hlen) hhb' (by ob)
      (hf.mono (by ob) (Nat.le_refl _)) hS
    intro l hl'
    rcases List.mem_append.mp hl' with hl' | hl'
    · exact mem_app_l (hbd l hl')
    · exact mem_app_r (hr l hl')

/-! ### the body and the handlers -/
theorem tryMid_complete (ih : ∀ ss, sizeL ss ≤ N → CQL E S ss) (il : Bool) (body handlers : List Stmt) (hbz : sizeL body ≤ N)
    (hhz : sizeL handlers ≤ N) (s3 : St) (w3 : WF s3) (hl : LoopOK il s3) (hokb : okLC il body = true) (hokh : okHsC il handlers = true)
    (tryB : Nat) (htl : tryB < s3.next) (cfin : Option Nat) (hcf : ∀ f, cfin = some f → f < s3.next) (excs0 : List Exc)
    (hx : ∀ cx ∈ excs0, (∀ f, cx.fin = some f → f < s3.next) ∧ ∀ h ∈ cx.handlers, h < s3.next)
    (nat ah : Nat) (hnat : nat < s3.next) (hah : ah < s3.next)
    (hf : ∀ lo hi, s3.next + handlers.length ≤ lo → hi ≤ (tryMid s3 tryB cfin excs0 nat ah body handlers).next →
      Fut E lo hi (tryMid s3 tryB cfin excs0 nat ah body handlers))
    (hS : StS S (tryMid s3 tryB cfin excs0 nat ah body handlers)) :
    ∀ l ∈ structDead body ++ subDead handlers, l ∈ elifL body ++ elifL handlers ∨ DeadRec E S l := by
  unfold tryMid at hf hS
  simp only at hf hS
  have hmem : ∀ h ∈ (List.range handlers.length).map (fun k => s3.next + k), s3.next ≤ h ∧ h < s3.next + handlers.length := by
    intro h hh
    obtain ⟨k, hk, rfl⟩ := List.mem_map.mp hh
    have := List.mem_range.mp hk
    omega
  have hlen : ((List.range handlers.length).map (fun k => s3.next + k)).length = handlers.length := by simp
  generalize (List.range handlers.length).map (fun k => s3.next + k) = hbs at *
  have h2 := w3.two
  have hcur := w3.cur
  have i4 := (((Inv.refl w3 (.inl rfl) : Inv s3.cur 0 s3 s3).bumpN handlers.length).setExcs
    (x := { fin := cfin, handlers := hbs, processingFinally := false } :: excs0) (by
      intro cx hcx
      rcases List.mem_cons.mp hcx with rfl | hcx
      · exact ⟨fun f hf => by have := hcf f hf; ob, fun h hh => by have := hmem h hh; ob⟩
      · exact ⟨fun f hf => by have := (hx cx hcx).1 f hf; ob, fun h hh => by have := (hx cx hcx).2 h hh; ob⟩)).setCur
      (x := tryB) (.inr (Nat.zero_le _)) (by ob)
  obtain ⟨j, sm⟩ := procList_frame body _ i4.wf s3.cur 0 i4.own (Nat.zero_le _)
  have hjn := j.next_le
  have k5 := i4.trans j
  have hk5 := k5.wf.cur
  have k5' := k5.edgeUnlessExit (b := nat) (t := .normal) k5.own hk5 (by ob)
  have hctx4 : CtxLt (setCur (setExcs (bumpN s3 handlers.length) ({ fin := cfin, handlers := hbs, processingFinally := false } :: excs0)) tryB)
      (s3.next + handlers.length) := i4.wf.ctxLt (by ob)
  have hb0 := ih body hbz il _ i4.wf (hl.of_eq rfl) hokb
  have hctx5 : CtxLt ((procList (setCur (setExcs (bumpN s3 handlers.length)
      ({ fin := cfin, handlers := hbs, processingFinally := false } :: excs0)) tryB) body).edgeUnlessExit
      (procList (setCur (setExcs (bumpN s3 handlers.length)
      ({ fin := cfin, handlers := hbs, processingFinally := false } :: excs0)) tryB) body).cur nat .normal) (s3.next + handlers.length) :=
    hctx4.of_eq (by simp [sm.loops]) (by simp [sm.excs])
  have hl5 : LoopOK il ((procList (setCur (setExcs (bumpN s3 handlers.length)
      ({ fin := cfin, handlers := hbs, processingFinally := false } :: excs0)) tryB) body).edgeUnlessExit
      (procList (setCur (setExcs (bumpN s3 handlers.length)
      ({ fin := cfin, handlers := hbs, processingFinally := false } :: excs0)) tryB) body).cur nat .normal) :=
    hl.of_eq (by simp [sm.loops])
  generalize procList _ body = s5 at *
  obtain ⟨k6, sm6, hn6, hc6⟩ := foldl_edges_frame (c := s3.cur) (n := 0) tryB .exc hbs _
    (Inv.refl k5'.wf (.inr (Nat.zero_le _)) : Inv s3.cur 0 (s5.edgeUnlessExit s5.cur nat .normal) (s5.edgeUnlessExit s5.cur nat .normal))
    (.inr (Nat.zero_le _)) (by ob) (fun h hh => by have := hmem h hh; ob)
  have hback6 : ∀ lo hi, s3.next + handlers.length ≤ lo →
      Fut E lo hi (hbs.foldl (fun st h => st.edge tryB h .exc) (s5.edgeUnlessExit s5.cur nat .normal)) → Fut E lo hi s5 :=
    fun lo hi hlo f => (f.back_foldl tryB .exc hbs _ (fun h hh => .inl (by have := hmem h hh; omega))).back_eue (.inl (by omega))
  generalize hbs.foldl (fun st h => st.edge tryB h .exc) (s5.edgeUnlessExit s5.cur nat .normal) = s6 at *
  have hhb6 : ∀ y ∈ hbs, y < s6.next := fun y hy => by have := hmem y hy; rw [hn6]; ob
  obtain ⟨j7, sm7⟩ := handlers_frame (c := s3.cur) (n := 0) (frame_all (sizeL handlers)).1 (frame_all (sizeL handlers)).2 handlers hbs s6 ah
    (Nat.le_refl _) k6.wf (.inr (Nat.zero_le _)) (Nat.zero_le _) (fun y hy => ⟨.inr (Nat.zero_le _), hhb6 y hy⟩) (by rw [hn6]; ob)
  have hjn7 := j7.next_le
  have hctx6 : CtxLt s6 (s3.next + handlers.length) := hctx5.same sm6
  have hH := handlers_complete ih il ah handlers hbs s6 hhz k6.wf (hl5.same sm6) hokh (by omega) hhb6 (by rw [hn6]; ob)
    (hf _ _ (by rw [hn6]; ob) (Nat.le_refl _)) hS
  have fb : Fut E (s3.next + handlers.length) s5.next s5 :=
    hback6 _ _ (Nat.le_refl _) ((hf (s3.next + handlers.length) s5.next (Nat.le_refl _) (by rw [hn6] at hjn7; ob)).back_TI
      (procHandlers_target handlers hbs s6 ah k6.wf hhb6 (by rw [hn6]; ob) _ (TG.zone hctx6 (by omega) (by rw [hn6]; ob)) (.inl (by omega))))
  have hB := (hb0 (fb.mono (by ob) (Nat.le_refl _)) ((hS.of_inv j7).of_inv k6).back_eue).1
  intro l hl'
  rcases List.mem_append.mp hl' with hl' | hl'
  · exact mem_app_l (hB l hl')
  · exact mem_app_r (hH l hl')

/-! ### the `else` part -/
theorem tryElse_complete (ih : ∀ ss, sizeL ss ≤ N → CQL E S ss) (il : Bool) (orelse : List Stmt) (hoz : sizeL orelse ≤ N) (s7 : St) (w7 : WF s7)
    (hl : LoopOK il s7) (hok : okLC il orelse = true) (hasElse : Bool) (hhe : hasElse = !orelse.isEmpty) (elseB ah : Nat)
    (hel : hasElse = true → elseB < s7.next) (hah : ah < s7.next) :
    (Fut E s7.next (tryElse s7 hasElse elseB ah orelse).next (tryElse s7 hasElse elseB ah orelse) → StS S (tryElse s7 hasElse elseB ah orelse) →
      ∀ l ∈ structDead orelse, l ∈ elifL orelse ∨ DeadRec E S l) ∧
    (∀ lo hi, CtxLt s7 lo → 2 ≤ lo → hi ≤ s7.next → ah < lo → Fut E lo hi (tryElse s7 hasElse elseB ah orelse) → Fut E lo hi s7) ∧
    (StS S (tryElse s7 hasElse elseB ah orelse) → StS S s7) ∧ WF (tryElse s7 hasElse elseB ah orelse) ∧
    Same s7 (tryElse s7 hasElse elseB ah orelse) ∧ s7.next ≤ (tryElse s7 hasElse elseB ah orelse).next := by
  subst hhe
  unfold tryElse
  rcases orelse with _ | ⟨o, os⟩
  · simp only [List.isEmpty_nil, Bool.not_true, Bool.false_eq_true, ↓reduceIte]
    exact ⟨fun _ _ l h => (by rw [structDead_nil] at h; cases h), fun _ _ _ _ _ _ f => f, id, w7, Same.refl _, Nat.le_refl _⟩
  · simp only [List.isEmpty_cons, Bool.not_false, ↓reduceIte]
    have hel' := hel (by simp)
    have i1 := (Inv.refl w7 (.inl rfl) : Inv s7.cur 0 s7 s7).setCur (x := elseB) (.inr (Nat.zero_le _)) hel'
    obtain ⟨j, sm⟩ := procList_frame (o :: os) _ i1.wf s7.cur 0 i1.own (Nat.zero_le _)
    have hjn := j.next_le
    have k2 := i1.trans j
    have hk2 := k2.wf.cur
    have k3 := k2.edgeUnlessExit (b := ah) (t := .normal) k2.own hk2 (by ob)
    have hb0 := ih (o :: os) hoz il _ i1.wf (hl.of_eq rfl) hok
    have hback : ∀ lo hi, CtxLt s7 lo → 2 ≤ lo → hi ≤ s7.next → Fut E lo hi (procList (setCur s7 elseB) (o :: os)) → Fut E lo hi s7 :=
      fun lo hi hctx h2 hhi f => (f.back_list i1.wf (hctx.of_eq rfl rfl) h2 hhi).back_setCur
    generalize procList _ (o :: os) = s at *
    refine ⟨fun f hS => (hb0 ((f.back_eue (.inl hah)).mono (by ob) (by ob)) hS.back_eue).1,
      fun lo hi hctx h2 hhi halo f => hback lo hi hctx h2 hhi (f.back_eue (.inl halo)), fun h => h.of_inv k3, k3.wf, ⟨?_, ?_⟩, by ob⟩
    · simp [sm.loops]
    · simp [sm.excs]

/-! ### the `finally` part -/
theorem tryFin_complete (ih : ∀ ss, sizeL ss ≤ N → CQL E S ss) (il : Bool) (fin : List Stmt) (hfz : sizeL fin ≤ N) (s8 : St) (w8 : WF s8)
    (hl : LoopOK il s8) (hok : okLC il fin = true) (hasFin : Bool) (hhf : hasFin = !fin.isEmpty) (finB exitBk : Nat) (ctx : Exc) (excs0 : List Exc)
    (hex : s8.excs = ctx :: excs0) (hfb : hasFin = true → finB < s8.next) (hel : exitBk < s8.next) :
    (Fut E s8.next (tryFin s8 hasFin finB exitBk ctx excs0 fin).next (tryFin s8 hasFin finB exitBk ctx excs0 fin) →
      StS S (tryFin s8 hasFin finB exitBk ctx excs0 fin) → ∀ l ∈ structDead fin, l ∈ elifL fin ∨ DeadRec E S l) ∧
    (∀ lo hi, CtxLt s8 lo → 2 ≤ lo → hi ≤ s8.next → exitBk < lo → Fut E lo hi (tryFin s8 hasFin finB exitBk ctx excs0 fin) → Fut E lo hi s8) ∧
    (StS S (tryFin s8 hasFin finB exitBk ctx excs0 fin) → StS S s8) ∧ s8.next ≤ (tryFin s8 hasFin finB exitBk ctx excs0 fin).next := by
  subst hhf
  unfold tryFin
  rcases fin with _ | ⟨o, os⟩
  · simp only [List.isEmpty_nil, Bool.not_true, Bool.false_eq_true, ↓reduceIte]
    exact ⟨fun _ _ l h => (by rw [structDead_nil] at h; cases h), fun _ _ _ _ _ _ f => f, id, Nat.le_refl _⟩
  · simp only [List.isEmpty_cons, Bool.not_false, ↓reduceIte]
    have hfl := hfb (by simp)
    have h2 := w8.two
    have hb := w8.excs
    rw [hex] at hb
    have i1 := ((Inv.refl w8 (.inl rfl) : Inv s8.cur 0 s8 s8).setCur (x := finB) (.inr (Nat.zero_le _)) hfl).setExcs
      (x := { ctx with processingFinally := true } :: excs0) (by
        intro cx hcx
        rcases List.mem_cons.mp hcx with rfl | hcx
        · exact hb ctx (List.mem_cons_self ..)
        · exact hb cx (List.mem_cons_of_mem _ hcx))
    obtain ⟨j, sm⟩ := procList_frame (o :: os) _ i1.wf s8.cur 0 i1.own (Nat.zero_le _)
    have hjn := j.next_le
    have k2 := i1.trans j
    have hk2 := k2.wf.cur
    have k3a := k2.setExcs (x := ctx :: excs0) (by
      intro cx hcx
      have := hb cx hcx
      exact ⟨fun f hf => by have := this.1 f hf; ob, fun h hh => by have := this.2 h hh; ob⟩)
    have k3 := k3a.edgeUnlessExit (b := exitBk) (t := .normal) k3a.own k3a.wf.cur (by ob)
    obtain ⟨k4, sm4, hn4, hc4⟩ := finallyPropagation_frame k3 (fin := finB) (.inr (Nat.zero_le _)) (by ob)
    have hb0 := ih (o :: os) hfz il _ i1.wf (hl.of_eq rfl) hok
    have hctx1 : ∀ lo, CtxLt s8 lo → CtxLt (setExcs (setCur s8 finB) ({ ctx with processingFinally := true } :: excs0)) lo := by
      intro lo hctx
      refine ⟨hctx.1, fun c hc => ?_⟩
      rcases List.mem_cons.mp hc with rfl | hc
      · exact hctx.2 ctx (by rw [hex]; exact List.mem_cons_self ..)
      · exact hctx.2 c (by rw [hex]; exact List.mem_cons_of_mem _ hc)
    have hback : ∀ lo hi, CtxLt s8 lo → 2 ≤ lo → hi ≤ s8.next →
        Fut E lo hi (procList (setExcs (setCur s8 finB) ({ ctx with processingFinally := true } :: excs0)) (o :: os)) → Fut E lo hi s8 :=
      fun lo hi hctx h2 hhi f => (f.back_list i1.wf (hctx1 lo hctx) h2 hhi).back_setExcs.back_setCur
    have hctx3 : ∀ lo, CtxLt s8 lo → CtxLt ((setExcs (procList (setExcs (setCur s8 finB) ({ ctx with processingFinally := true } :: excs0)) (o :: os))
        (ctx :: excs0)).edgeUnlessExit (setExcs (procList (setExcs (setCur s8 finB) ({ ctx with processingFinally := true } :: excs0)) (o :: os))
        (ctx :: excs0)).cur exitBk .normal) lo := fun lo hctx => hctx.of_eq (by simp [sm.loops]) (by simp [hex])
    generalize procList _ (o :: os) = s at *
    have hfp : ∀ lo hi, CtxLt s8 lo → 2 ≤ lo → hi ≤ s.next → exitBk < lo →
        Fut E lo hi (finallyPropagation ((setExcs s (ctx :: excs0)).edgeUnlessExit (setExcs s (ctx :: excs0)).cur exitBk .normal) finB) →
        Fut E lo hi s :=
      fun lo hi hctx h2 hhi hxl f => ((f.back_TI (finallyPropagation_target _ finB _ (TG.zone (hctx3 lo hctx) h2 (by ob)))).back_eue (.inl hxl)).back_setExcs
    refine ⟨fun f hS => ?_, fun lo hi hctx h2lo hhi hxl f => hback lo hi hctx h2lo hhi (hfp lo hi hctx h2lo (by ob) hxl f), fun h => h.of_inv k4, k4.next_le⟩
    have fs := hfp s8.next s.next (w8.ctxLt (Nat.le_refl _)) h2 (Nat.le_refl _) hel (f.mono (Nat.le_refl _) (by rw [hn4]; ob))
    obtain ⟨k4', _, _, _⟩ := finallyPropagation_frame (c := s8.cur) (n := 0) (Inv.refl k3.wf (.inr (Nat.zero_le _))) (fin := finB)
      (.inr (Nat.zero_le _)) (by ob)
    exact (hb0 (fs.mono (by ob) (Nat.le_refl _)) (hS.of_inv k4').back_eue.back_setExcs).1

/-! ### try -/
theorem try_complete (ih : ∀ ss, sizeL ss ≤ N → CQL E S ss) (body handlers orelse fin : List Stmt) (hb : sizeL body ≤ N) (hh : sizeL handlers ≤ N)
    (ho : sizeL orelse ≤ N) (hfz : sizeL fin ≤ N) (s e : Nat) : CQS E S (.try_ s e body handlers orelse fin) := by
  intro il st w hl hok hf hS
  rw [okSC_try] at hok
  simp only [Bool.and_eq_true] at hok
  obtain ⟨⟨⟨hoka, hokh⟩, hokc⟩, hokd⟩ := hok
  rw [procStmt_try, procTry_eq'] at hf hS
  simp only at hf hS
  refine ⟨?_, no_stop rfl⟩
  rw [inStmt_try, elifS_try]
  generalize hFin : (!fin.isEmpty) = hasFin at hf hS
  generalize hElse : (!orelse.isEmpty) = hasElse at hf hS
  obtain ⟨k3, sm3, hn3, hF, hEl⟩ := tryPre_frame (c := st.cur) (n := 0) st w (.inl rfl) (Nat.zero_le _) hasFin hasElse
  generalize tryPre st hasFin hasElse = p at *
  obtain ⟨s3, finB, elseB⟩ := p
  simp only at hf hS k3 sm3 hn3 hF hEl
  have hcf : ∀ f, (if hasFin = true then some finB else none) = some f → f < s3.next := by
    intro f hf
    cases hasFin
    · simp at hf
    · simp only [↓reduceIte, Option.some.injEq] at hf; subst hf; exact (hF rfl).2
  have hah : (if hasFin = true then finB else st.next + 1) < s3.next := by
    cases hasFin
    · simp only [Bool.false_eq_true, ↓reduceIte]; omega
    · simp only [↓reduceIte]; exact (hF rfl).2
  have hnat : (if hasElse = true then elseB else if hasFin = true then finB else st.next + 1) < s3.next := by
    cases hasElse
    · simp only [Bool.false_eq_true, ↓reduceIte]; exact hah
    · simp only [↓reduceIte]; exact (hEl rfl).2
  generalize (if hasFin = true then some finB else none) = cfin at *
  generalize (if hasElse = true then elseB else if hasFin = true then finB else st.next + 1) = nat at *
  generalize (if hasFin = true then finB else st.next + 1) = ah at *
  have hcur := w.cur
  have h2 := w.two
  obtain ⟨k7, l7, x7, hn7⟩ := tryMid_frame (c := st.cur) (n := 0) (frame_all (sizeL body + sizeL handlers)).1 (frame_all (sizeL body + sizeL handlers)).2
    body handlers (Nat.le_add_right _ _) (Nat.le_add_left _ _) k3 (Nat.zero_le _) st.next (.inr (Nat.zero_le _)) (by omega) cfin hcf st.excs
    (w.excs_le (by omega)) nat ah hnat hah
  have hM := tryMid_complete ih il body handlers hb hh s3 k3.wf (hl.same sm3) hoka hokh st.next (by omega) cfin hcf st.excs
    (w.excs_le (by omega)) nat ah hnat hah
  have hctx7 : ∀ lo, s3.next + handlers.length ≤ lo → CtxLt (tryMid s3 st.next cfin st.excs nat ah body handlers) lo := by
    intro lo hlo
    refine ⟨fun x hx => ?_, fun c hc => ?_⟩
    · rw [l7, sm3.loops] at hx; have := w.loops x hx; omega
    · rw [x7] at hc
      rcases List.mem_cons.mp hc with rfl | hc
      · refine ⟨fun f hf => by have := hcf f hf; omega, fun h hh => ?_⟩
        obtain ⟨k, hk, rfl⟩ := List.mem_map.mp hh
        have := List.mem_range.mp hk
        omega
      · exact ⟨fun f hf => by have := (w.excs c hc).1 f hf; omega, fun h hh => by have := (w.excs c hc).2 h hh; omega⟩
  have hl7 : LoopOK il (tryMid s3 st.next cfin st.excs nat ah body handlers) := hl.of_eq (by rw [l7, sm3.loops])
  generalize tryMid s3 st.next cfin st.excs nat ah body handlers = s7 at *
  obtain ⟨A8, back8, sts8, w8, sm8, hn8⟩ := tryElse_complete (E := E) (S := S) ih il orelse ho s7 k7.wf hl7 hokc hasElse hElse.symm elseB ah
    (fun h => by have := hEl h; omega) (by omega)
  generalize tryElse s7 hasElse elseB ah orelse = s8 at *
  obtain ⟨A9, back9, sts9, hn9⟩ := tryFin_complete (E := E) (S := S) ih il fin hfz s8 w8 (hl7.same sm8) hokd hasFin hFin.symm finB (st.next + 1)
    { fin := cfin, handlers := (List.range handlers.length).map (fun k => s3.next + k), processingFinally := false } st.excs
    (by rw [sm8.excs, x7]) (fun h => by have := hF h; omega) (by omega)
  generalize tryFin s8 hasFin finB (st.next + 1)
    { fin := cfin, handlers := (List.range handlers.length).map (fun k => s3.next + k), processingFinally := false } st.excs fin = s9 at *
  have f9 := hf.back_setExcs.back_setCur
  have hS9 := hS.back_setExcs.back_setCur
  have hfin := A9 (f9.mono (by omega) (by ob)) hS9
  have hctx8 : ∀ lo, s3.next + handlers.length ≤ lo → CtxLt s8 lo := fun lo hlo => (hctx7 lo hlo).same sm8
  have f8 : ∀ lo hi, s3.next + handlers.length ≤ lo → hi ≤ s8.next → Fut E lo hi s8 := fun lo hi hlo hhi =>
    back9 lo hi (hctx8 lo hlo) (by omega) hhi (by omega) (f9.mono (by omega) (by ob))
  have helse := A8 (f8 s7.next s8.next hn7 (Nat.le_refl _)) (sts9 hS9)
  have f7 : ∀ lo hi, s3.next + handlers.length ≤ lo → hi ≤ s7.next → Fut E lo hi s7 := fun lo hi hlo hhi =>
    back8 lo hi (hctx7 lo hlo) (by omega) hhi (by omega) (f8 lo hi hlo (by omega))
  have hmid := hM f7 (sts8 (sts9 hS9))
  intro l hl'
  rcases List.mem_append.mp hl' with hl' | hl'
  · rcases List.mem_append.mp hl' with hl' | hl'
    · refine mem_app_l (mem_app_l ?_)
      rcases hmid l hl' with h | h
      · exact .inl h
      · exact .inr h
    · exact mem_app_l (mem_app_r (helse l hl'))
  · exact mem_app_r (hfin l hl')

end main
end PV.CFGSound
