import PV.Proofs.GroupingAlgoKCore
/-!
The MIRRORS of the star/medoid, complete-linkage and centroid grouping (`PV/Model/GroupingAlgo.lean`) emit, for every
input, groups that pass the checkers of `PV/Model/Grouping.lean` (whose soundness is `C10_*_sound`).
-/
namespace PV.GroupingAlgo
open PV.Grouping PV.SCC PV.C10

/-! ## similarity caches -/

theorem linked_of_pair {θ : Nat} {ps : List Pair} {a b : Nat} {p : Pair} (hp : p ∈ ps) (hk : sameKey p a b = true)
    (hθ : θ ≤ p.sim) : linked θ ps a b = true := by
  unfold linked
  rw [List.any_eq_true]
  refine ⟨p, hp, ?_⟩
  unfold sameKey at hk
  simp only [Bool.and_eq_true, decide_eq_true_eq]
  exact ⟨hk, hθ⟩

/-- a cached maximum is the similarity of one of the pairs with that key -/
theorem simMax_some (ps : List Pair) (a b : Nat) : ∀ (l : List Pair) (acc : Option Nat), (∀ p ∈ l, p ∈ ps) →
    (∀ m, acc = some m → ∃ p ∈ ps, sameKey p a b = true ∧ p.sim = m) →
    ∀ m, l.foldl (fun acc p => if sameKey p a b then (match acc with
        | none => some p.sim
        | some old => if p.sim > old then some p.sim else some old) else acc) acc = some m →
      ∃ p ∈ ps, sameKey p a b = true ∧ p.sim = m
  | [], acc, _, hacc, m, h => hacc m h
  | p :: l, acc, hl, hacc, m, h => by
    rw [List.foldl_cons] at h
    refine simMax_some ps a b l _ (fun q hq => hl q (List.mem_cons_of_mem _ hq)) ?_ m h
    intro m' hm'
    by_cases hk : sameKey p a b = true
    · rw [if_pos hk] at hm'
      cases acc with
      | none =>
        simp only [Option.some.injEq] at hm'
        exact ⟨p, hl p (List.mem_cons_self ..), hk, hm'⟩
      | some old =>
        simp only at hm'
        split at hm'
        · simp only [Option.some.injEq] at hm'
          exact ⟨p, hl p (List.mem_cons_self ..), hk, hm'⟩
        · exact hacc m' hm'
    · rw [if_neg hk] at hm'
      exact hacc m' hm'

/-- for a positive threshold, "cached similarity (0 if absent) at or above the threshold" implies a reported pair
at or above the threshold -/
theorem linked_of_simOr0 {θ : Nat} {ps : List Pair} {a b : Nat} (hθ : 0 < θ) (h : θ ≤ simOr0 ps a b) :
    linked θ ps a b = true := by
  unfold simOr0 at h
  cases hm : simMax ps a b with
  | none => rw [hm] at h; simp at h; omega
  | some m =>
    rw [hm] at h
    simp only [Option.getD_some] at h
    unfold simMax at hm
    obtain ⟨p, hp, hk, hs⟩ := simMax_some ps a b ps none (fun _ h => h) (fun _ h => by cases h) m hm
    exact linked_of_pair hp hk (by omega)

theorem simLast_some (ps : List Pair) (a b : Nat) : ∀ (l : List Pair) (acc : Option Nat), (∀ p ∈ l, p ∈ ps) →
    (∀ m, acc = some m → ∃ p ∈ ps, sameKey p a b = true ∧ p.sim = m) →
    ∀ m, l.foldl (fun acc p => if sameKey p a b then some p.sim else acc) acc = some m →
      ∃ p ∈ ps, sameKey p a b = true ∧ p.sim = m
  | [], acc, _, hacc, m, h => hacc m h
  | p :: l, acc, hl, hacc, m, h => by
    rw [List.foldl_cons] at h
    refine simLast_some ps a b l _ (fun q hq => hl q (List.mem_cons_of_mem _ hq)) ?_ m h
    intro m' hm'
    by_cases hk : sameKey p a b = true
    · rw [if_pos hk] at hm'
      simp only [Option.some.injEq] at hm'
      exact ⟨p, hl p (List.mem_cons_self ..), hk, hm'⟩
    · rw [if_neg hk] at hm'
      exact hacc m' hm'

theorem linked_of_centroidLink {θ : Nat} {ps : List Pair} {a b : Nat} (h : centroidLink θ ps a b = true) :
    linked θ ps a b = true := by
  unfold centroidLink at h
  split at h
  · next s hs =>
    unfold simLast at hs
    obtain ⟨p, hp, hk, hs'⟩ := simLast_some ps a b ps none (fun _ h => h) (fun _ h => by cases h) s hs
    exact linked_of_pair hp hk (by simp at h; omega)
  · cases h

/-! ## the checkers do not depend on the order of the groups -/

theorem checkCommon_perm {gs gs' : List (List Nat)} (hp : gs'.Perm gs) (h : checkCommon gs = true) : checkCommon gs' = true := by
  unfold checkCommon at *
  simp only [Bool.and_eq_true, List.all_eq_true, decide_eq_true_eq] at *
  exact ⟨fun g hg => h.1 g (hp.mem_iff.mp hg), hp.flatten.nodup_iff.mpr h.2⟩

theorem checkStar_perm {θ : Nat} {ps : List Pair} {gs gs' : List (List Nat)} (hp : gs'.Perm gs)
    (h : checkStar θ ps gs = true) : checkStar θ ps gs' = true := by
  unfold checkStar at *
  rw [List.all_eq_true] at *
  exact fun g hg => h g (hp.mem_iff.mp hg)

theorem checkComplete_perm {θ : Nat} {ps : List Pair} {gs gs' : List (List Nat)} (hp : gs'.Perm gs)
    (h : checkComplete θ ps gs = true) : checkComplete θ ps gs' = true := by
  unfold checkComplete at *
  rw [List.all_eq_true] at *
  exact fun g hg => h g (hp.mem_iff.mp hg)

theorem checkLinked_perm {n θ : Nat} {ps : List Pair} {gs gs' : List (List Nat)} (hp : gs'.Perm gs)
    (h : checkLinked n θ ps gs = true) : checkLinked n θ ps gs' = true := by
  unfold checkLinked at *
  rw [List.all_eq_true] at *
  exact fun g hg => h g (hp.mem_iff.mp hg)

/-! ## groups selected from a partition -/

theorem subperm_nodup {l₁ l₂ : List Nat} (h : l₁.Subperm l₂) (hnd : l₂.Nodup) : l₁.Nodup := by
  obtain ⟨l, hp, hs⟩ := h
  exact hp.nodup_iff.mp (hs.nodup hnd)

/-- selecting from every cluster a rearranged part of it yields a sub-multiset of the fragments -/
theorem filterMap_flatten_subperm (F : List Nat → Option (List Nat)) (hF : ∀ c g, F c = some g → g.Subperm c) :
    ∀ cs : List (List Nat), ((cs.filterMap F).flatten).Subperm cs.flatten
  | [] => by simp
  | c :: cs => by
    have ih := filterMap_flatten_subperm F hF cs
    rw [List.filterMap_cons]
    cases hc : F c with
    | none =>
      simp only [List.flatten_cons]
      exact ih.trans (List.sublist_append_right _ _).subperm
    | some g =>
      simp only [List.flatten_cons]
      exact (hF c g hc).append ih

theorem insertNat_perm (a : Nat) : ∀ l : List Nat, (insertNat a l).Perm (a :: l)
  | [] => List.Perm.refl _
  | b :: l => by
    unfold insertNat
    split
    · exact List.Perm.refl _
    · exact ((insertNat_perm a l).cons b).trans (List.Perm.swap a b l)

theorem sortNat_perm : ∀ l : List Nat, (sortNat l).Perm l
  | [] => List.Perm.refl _
  | a :: l => (insertNat_perm a _).trans ((sortNat_perm l).cons a)

theorem insertNat_sorted (a : Nat) : ∀ l : List Nat, l.Pairwise (· ≤ ·) → (insertNat a l).Pairwise (· ≤ ·)
  | [], _ => List.pairwise_singleton _ _
  | b :: l, h => by
    unfold insertNat
    rw [List.pairwise_cons] at h
    split
    · next hab =>
      refine List.Pairwise.cons ?_ (List.Pairwise.cons h.1 h.2)
      intro x hx
      rcases List.mem_cons.mp hx with rfl | hx
      · exact hab
      · exact Nat.le_trans hab (h.1 x hx)
    · next hab =>
      refine List.Pairwise.cons ?_ (insertNat_sorted a l h.2)
      intro x hx
      rcases List.mem_cons.mp ((insertNat_perm a l).mem_iff.mp hx) with rfl | hx
      · omega
      · exact h.1 x hx

/-- `sortNat` sorts -/
theorem sortNat_sorted : ∀ l : List Nat, (sortNat l).Pairwise (· ≤ ·)
  | [] => List.Pairwise.nil
  | a :: l => insertNat_sorted a _ (sortNat_sorted l)

theorem sorted_filter_subperm (c : List Nat) (p : Nat → Bool) : (sortNat (c.filter p)).Subperm c :=
  (sortNat_perm _).subperm.trans List.filter_sublist.subperm

/-- shape of the groups: `checkCommon` from "every cluster yields at most one group, a rearranged part of it with ≥ 2 members" -/
theorem checkCommon_of_filterMap (F : List Nat → Option (List Nat)) (hF : ∀ c g, F c = some g → g.Subperm c ∧ 2 ≤ g.length)
    (cs : List (List Nat)) (hnd : cs.flatten.Nodup) : checkCommon (cs.filterMap F) = true := by
  unfold checkCommon
  simp only [Bool.and_eq_true, List.all_eq_true, decide_eq_true_eq]
  refine ⟨?_, subperm_nodup (filterMap_flatten_subperm F (fun c g h => (hF c g h).1) cs) hnd⟩
  intro g hg
  obtain ⟨c, _, hc⟩ := List.mem_filterMap.mp hg
  exact (hF c g hc).2

/-! ## star / medoid -/

theorem addTo_flatten (r v : Nat) : ∀ acc : List (Nat × List Nat),
    (((PV.UF.addTo r v acc).map (·.2)).flatten).Perm (v :: (acc.map (·.2)).flatten)
  | [] => by simp [PV.UF.addTo]
  | (r', ms) :: rest => by
    unfold PV.UF.addTo
    split
    · simp only [List.map_cons, List.flatten_cons, List.append_assoc, List.singleton_append]
      exact List.perm_middle
    · simp only [List.map_cons, List.flatten_cons]
      exact ((addTo_flatten r v rest).append_left ms).trans List.perm_middle

theorem group_fold_flatten : ∀ (l : List (Nat × Nat)) (acc : List (Nat × List Nat)),
    (((l.foldl (fun acc vr => PV.UF.addTo vr.2 vr.1 acc) acc).map (·.2)).flatten).Perm
      ((acc.map (·.2)).flatten ++ l.map (·.1))
  | [], acc => by simp
  | vr :: l, acc => by
    rw [List.foldl_cons]
    refine (group_fold_flatten l _).trans ?_
    simp only [List.map_cons]
    refine ((addTo_flatten vr.2 vr.1 acc).append_right _).trans ?_
    simp only [List.cons_append]
    exact List.perm_middle.symm

theorem labelPassS_fst (fuel : Nat) : ∀ (vs : List Nat) (s : PV.UF.State), (labelPassS fuel s vs).2.map (·.1) = vs
  | [], _ => rfl
  | v :: vs, s => by
    unfold labelPassS
    simp only [List.map_cons, List.cons.injEq, true_and]
    exact labelPassS_fst fuel vs _

/-- `buildClusters` returns a partition of the fragments, whatever the union–find state -/
theorem buildClusters_perm (fuel : Nat) (s : PV.UF.State) (fr : List Nat) : ((buildClusters fuel s fr).2.flatten).Perm fr := by
  unfold buildClusters PV.UF.group
  have := group_fold_flatten (labelPassS fuel s fr).2 []
  simp only [List.map_nil, List.flatten_nil, List.nil_append] at this
  rw [labelPassS_fst] at this
  exact this

theorem starLoop_perm (ps : List Pair) (fuel : Nat) (medoid : List Nat → Option Nat) (fr : List Nat) :
    ∀ (left iter : Nat) (s : PV.UF.State) (clusters : List (List Nat)) (streak : Nat), clusters.flatten.Perm fr →
      ((starLoop ps fuel medoid fr left iter s clusters streak).flatten).Perm fr
  | 0, _, _, _, _, h => h
  | left + 1, iter, s, clusters, streak, _ => by
    unfold starLoop
    simp only
    repeat' split
    all_goals first
      | exact buildClusters_perm ..
      | exact starLoop_perm ps fuel medoid fr left _ _ _ _ (buildClusters_perm ..)

/-- the medoid selection returns a member of every cluster with two or more members -/
def MedoidOK (medoid : List Nat → Option Nat) : Prop := ∀ ms : List Nat, 2 ≤ ms.length → ∃ m ∈ ms, medoid ms = some m

theorem medoid_fold_mem (ps : List Pair) (members : List Nat) : ∀ (l : List Nat) (acc : Option (Nat × Nat)),
    (∀ x ∈ l, x ∈ members) → (∀ b, acc = some b → b.1 ∈ members) → (acc.isSome ∨ l ≠ []) →
    ∃ b, l.foldl (medoidStep ps members) acc = some b ∧ b.1 ∈ members
  | [], acc, _, hacc, hne => by
    rcases hne with h | h
    · obtain ⟨b, hb⟩ := Option.isSome_iff_exists.mp h
      exact ⟨b, hb, hacc b hb⟩
    · exact absurd rfl h
  | c :: l, acc, hl, hacc, _ => by
    rw [List.foldl_cons]
    refine medoid_fold_mem ps members l _ (fun x hx => hl x (List.mem_cons_of_mem _ hx)) ?_ (.inl ?_)
    · intro b hb
      unfold medoidStep at hb
      cases acc with
      | none => simp only [Option.some.injEq] at hb; rw [← hb]; exact hl c (List.mem_cons_self ..)
      | some b0 =>
        obtain ⟨b1, b2⟩ := b0
        simp only at hb
        split at hb
        · simp only [Option.some.injEq] at hb; rw [← hb]; exact hl c (List.mem_cons_self ..)
        · exact hacc b hb
    · unfold medoidStep
      cases acc with
      | none => rfl
      | some b0 => obtain ⟨b1, b2⟩ := b0; simp only; split <;> rfl

/-- `findMedoid` never returns `nil` on a cluster of two or more, and returns one of its members -/
theorem findMedoid_ok (ps : List Pair) : MedoidOK (findMedoid ps) := by
  intro ms hms
  match ms, hms with
  | a :: b :: rest, _ =>
    unfold findMedoid
    obtain ⟨r, hr, hmem⟩ := medoid_fold_mem ps (a :: b :: rest) (a :: b :: rest) none (fun _ h => h)
      (fun _ h => by cases h) (.inr (by simp))
    exact ⟨r.1, hmem, by simp only [hr, Option.map_some]⟩

/-- **Star/medoid: every emitted group passes `checkStar` and `checkCommon`** — for every medoid selection that returns
a member, every union–find fuel and every positive threshold. -/
theorem starGroupsWith_contract (fuel θ : Nat) (ps : List Pair) (medoid : List Nat → Option Nat) (hm : MedoidOK medoid)
    (hθ : 0 < θ) :
    checkStar θ ps (starGroupsWith fuel θ ps medoid) = true ∧ checkCommon (starGroupsWith fuel θ ps medoid) = true := by
  unfold starGroupsWith
  simp only
  split
  · exact ⟨rfl, rfl⟩
  · have hperm := starLoop_perm ps fuel medoid (nodesOf ps) 10 0 (buildClusters fuel PV.UF.init (nodesOf ps)).1
      (buildClusters fuel PV.UF.init (nodesOf ps)).2 0 (buildClusters_perm ..)
    generalize starLoop ps fuel medoid (nodesOf ps) 10 0 (buildClusters fuel PV.UF.init (nodesOf ps)).1
      (buildClusters fuel PV.UF.init (nodesOf ps)).2 0 = clusters at hperm
    have hnd : clusters.flatten.Nodup := hperm.nodup_iff.mpr (nodup_nodesOf ps)
    -- what one cluster yields
    have hF : ∀ c g, (fun members : List Nat =>
        if members.length < 2 then none
        else
          let filtered := match medoid members with
            | none => members.filter (fun _ => decide (θ ≤ 0))
            | some m => members.filter (fun f => f == m || decide (θ ≤ simOr0 ps f m))
          if filtered.length < 2 then none else some (sortNat filtered)) c = some g →
        (g.Subperm c ∧ 2 ≤ g.length) ∧ ∃ m ∈ g, ∀ u ∈ g, u = m ∨ linked θ ps u m = true := by
      intro c g hg
      simp only at hg
      split at hg
      · cases hg
      · next hlen =>
        obtain ⟨m, hmc, hmed⟩ := hm c (by omega)
        rw [hmed] at hg
        simp only at hg
        split at hg
        · cases hg
        · next hlen2 =>
          simp only [Option.some.injEq] at hg
          subst hg
          have hp := sortNat_perm (c.filter (fun f => f == m || decide (θ ≤ simOr0 ps f m)))
          refine ⟨⟨sorted_filter_subperm c _, by rw [hp.length_eq]; omega⟩, m, ?_, ?_⟩
          · exact hp.mem_iff.mpr (List.mem_filter.mpr ⟨hmc, by simp⟩)
          · intro u hu
            have := (List.mem_filter.mp (hp.mem_iff.mp hu)).2
            simp only [Bool.or_eq_true, beq_iff_eq, decide_eq_true_eq] at this
            rcases this with h | h
            · exact .inl h
            · exact .inr (linked_of_simOr0 hθ h)
    unfold starFinal
    refine ⟨?_, checkCommon_of_filterMap _ (fun c g h => (hF c g h).1) clusters hnd⟩
    unfold checkStar
    rw [List.all_eq_true]
    intro g hg
    obtain ⟨c, _, hc⟩ := List.mem_filterMap.mp hg
    obtain ⟨_, m, hmg, hall⟩ := hF c g hc
    rw [List.any_eq_true]
    refine ⟨m, hmg, ?_⟩
    rw [List.all_eq_true]
    intro u hu
    rcases hall u hu with h | h
    · simp [h]
    · simp [h]

/-! ## complete linkage -/

theorem eraseIdx_flatten : ∀ (cs : List (List Nat)) (j : Nat), (cs.getD j [] ++ (cs.eraseIdx j).flatten).Perm cs.flatten
  | [], j => by simp
  | c :: cs, 0 => by simp
  | c :: cs, j + 1 => by
    simp only [List.getD_cons_succ, List.eraseIdx_cons_succ, List.flatten_cons]
    exact (List.perm_append_comm_assoc _ _ _).trans ((eraseIdx_flatten cs j).append_left c)

/-- a merge keeps the multiset of fragments -/
theorem mergeAt_perm : ∀ (cs : List (List Nat)) (i j : Nat), ((mergeAt cs i j).flatten).Perm cs.flatten
  | [], _, _ => by simp [mergeAt]
  | c :: cs, 0, 0 => by simp [mergeAt]
  | c :: cs, _ + 1, 0 => by simp [mergeAt]
  | c :: cs, 0, j + 1 => by
    simp only [mergeAt, List.flatten_cons, List.append_assoc]
    exact (eraseIdx_flatten cs j).append_left c
  | c :: cs, i + 1, j + 1 => by
    simp only [mergeAt, List.flatten_cons]
    exact (mergeAt_perm cs i j).append_left c

theorem mergeLoop_perm (θ one : Nat) (ps : List Pair) : ∀ (f : Nat) (cs : List (List Nat)),
    ((mergeLoop θ one ps f cs).flatten).Perm cs.flatten
  | 0, _ => List.Perm.refl _
  | f + 1, cs => by
    unfold mergeLoop
    split
    · exact List.Perm.refl _
    · exact (mergeLoop_perm θ one ps f _).trans (mergeAt_perm cs _ _)

theorem mem_indexPairs {m i j : Nat} (h : (i, j) ∈ indexPairs m) : i < j ∧ j < m := by
  unfold indexPairs at h
  simp only [List.mem_flatMap, List.mem_range, List.mem_map, List.mem_filter, decide_eq_true_eq, Prod.mk.injEq] at h
  obtain ⟨a, _, b, ⟨hb, hab⟩, rfl, rfl⟩ := h
  exact ⟨hab, hb⟩

theorem bestPair_fold_mem (θ one : Nat) (ps : List Pair) (cs : List (List Nat)) : ∀ (l : List (Nat × Nat))
    (acc : Option (Nat × Nat × Nat)), (∀ r, acc = some r → (r.1, r.2.1) ∈ indexPairs cs.length) →
    (∀ ij ∈ l, ij ∈ indexPairs cs.length) →
    ∀ r, l.foldl (fun acc ij =>
      let s := clusterSim θ one ps (cs.getD ij.1 []) (cs.getD ij.2 [])
      if θ ≤ s then
        match acc with
        | none => some (ij.1, ij.2, s)
        | some (_, _, bs) => if s > bs then some (ij.1, ij.2, s) else acc
      else acc) acc = some r → (r.1, r.2.1) ∈ indexPairs cs.length
  | [], acc, hacc, _, r, h => hacc r h
  | ij :: l, acc, hacc, hl, r, h => by
    rw [List.foldl_cons] at h
    refine bestPair_fold_mem θ one ps cs l _ ?_ (fun x hx => hl x (List.mem_cons_of_mem _ hx)) r h
    intro r' hr'
    simp only at hr'
    split at hr'
    · split at hr'
      · cases hr'; exact hl ij (List.mem_cons_self ..)
      · split at hr'
        · cases hr'; exact hl ij (List.mem_cons_self ..)
        · exact hacc r' hr'
    · exact hacc r' hr'

theorem bestPair_lt {θ one : Nat} {ps : List Pair} {cs : List (List Nat)} {i j s : Nat}
    (h : bestPair θ one ps cs = some (i, j, s)) : i < j ∧ j < cs.length := by
  unfold bestPair at h
  exact mem_indexPairs (bestPair_fold_mem θ one ps cs _ none (fun _ h => by cases h) (fun _ h => h) _ h)

theorem mergeAt_length : ∀ (cs : List (List Nat)) (i j : Nat), i < j → j < cs.length → (mergeAt cs i j).length + 1 = cs.length
  | [], _, _, _, h => by simp at h
  | c :: cs, 0, j + 1, _, h => by
    simp only [List.length_cons, Nat.add_lt_add_iff_right] at h
    simp only [mergeAt, List.length_cons, List.length_eraseIdx, h, if_true]
    omega
  | c :: cs, i + 1, j + 1, hij, h => by
    simp only [List.length_cons, Nat.add_lt_add_iff_right] at h
    simp only [mergeAt, List.length_cons]
    have := mergeAt_length cs i j (by omega) h
    omega
  | c :: cs, _, 0, hij, _ => by omega

/-- **The merge loop never stops for lack of fuel**: with fuel `≥ number of clusters - 1` it only returns when no two
clusters can be merged any more. -/
theorem mergeLoop_done (θ one : Nat) (ps : List Pair) : ∀ (f : Nat) (cs : List (List Nat)), cs.length ≤ f + 1 →
    bestPair θ one ps (mergeLoop θ one ps f cs) = none
  | 0, cs, h => by
    unfold mergeLoop
    cases hb : bestPair θ one ps cs with
    | none => rfl
    | some r =>
      obtain ⟨i, j, s⟩ := r
      have := bestPair_lt hb
      omega
  | f + 1, cs, h => by
    unfold mergeLoop
    cases hb : bestPair θ one ps cs with
    | none => simp only [hb]
    | some r =>
      obtain ⟨i, j, s⟩ := r
      simp only
      have hlt := bestPair_lt hb
      have := mergeAt_length cs i j hlt.1 hlt.2
      exact mergeLoop_done θ one ps f _ (by omega)

theorem singletons_flatten : ∀ l : List Nat, (l.map (fun f => [f])).flatten = l
  | [] => rfl
  | a :: l => by simp [singletons_flatten l]

theorem allPairsOK_pairwise {θ : Nat} {ps : List Pair} (hθ : 0 < θ) : ∀ cl : List Nat, allPairsOK θ ps cl = true →
    cl.Pairwise (fun x y => linked θ ps x y = true)
  | [], _ => List.Pairwise.nil
  | x :: rest, h => by
    unfold allPairsOK at h
    simp only [Bool.and_eq_true, List.all_eq_true, decide_eq_true_eq] at h
    exact List.Pairwise.cons (fun y hy => linked_of_simOr0 hθ (h.1 y hy)) (allPairsOK_pairwise hθ rest h.2)

/-- **Complete linkage: every emitted group passes `checkComplete` and `checkCommon`** — for every positive threshold
and every grid value of 1.0. -/
theorem completeGroupsAlgo_contract (θ one : Nat) (ps : List Pair) (hθ : 0 < θ) :
    checkComplete θ ps (completeGroupsAlgo θ one ps) = true ∧ checkCommon (completeGroupsAlgo θ one ps) = true := by
  unfold completeGroupsAlgo
  simp only
  split
  · exact ⟨rfl, rfl⟩
  · have hperm := mergeLoop_perm θ one ps (nodesOf ps).length ((nodesOf ps).map (fun f => [f]))
    rw [singletons_flatten] at hperm
    generalize mergeLoop θ one ps (nodesOf ps).length ((nodesOf ps).map (fun f => [f])) = clusters at hperm
    have hnd : clusters.flatten.Nodup := hperm.nodup_iff.mpr (nodup_nodesOf ps)
    have hF : ∀ c g, (fun cl : List Nat =>
        if cl.length < 2 then none
        else if allPairsOK θ ps cl then some (sortNat cl) else none) c = some g →
        (g.Subperm c ∧ 2 ≤ g.length) ∧ ∀ u ∈ g, ∀ v ∈ g, u ≠ v → linked θ ps u v = true := by
      intro c g hg
      simp only at hg
      split at hg
      · cases hg
      · next hlen =>
        split at hg
        · next hok =>
          simp only [Option.some.injEq] at hg
          subst hg
          have hp := sortNat_perm c
          refine ⟨⟨hp.subperm, by rw [hp.length_eq]; omega⟩, ?_⟩
          intro u hu v hv hne
          have : Std.Symm (fun x y => linked θ ps x y = true) := ⟨fun _ _ h => linked_symm h⟩
          exact (allPairsOK_pairwise hθ c hok).forall (hp.mem_iff.mp hu) (hp.mem_iff.mp hv) hne
        · cases hg
    refine ⟨?_, checkCommon_of_filterMap _ (fun c g h => (hF c g h).1) clusters hnd⟩
    unfold checkComplete
    rw [List.all_eq_true]
    intro g hg
    obtain ⟨c, _, hc⟩ := List.mem_filterMap.mp hg
    obtain ⟨_, hall⟩ := hF c g hc
    rw [List.all_eq_true]
    intro u hu
    rw [List.all_eq_true]
    intro v hv
    by_cases huv : u = v
    · simp [huv]
    · simp [hall u hu v hv huv]

/-! ## centroid -/

/-- reachability inside a vertex set only grows with the set -/
theorem reach_mono {n θ : Nat} {ps : List Pair} {k₁ k₂ : Nat → Bool} (hk : ∀ u, k₁ u = true → k₂ u = true) {a b : Nat}
    (h : Reach (linkGraph n θ ps k₁) a b) : Reach (linkGraph n θ ps k₂) a b := by
  induction h with
  | refl => exact Reach.refl _
  | step _ he ih =>
    obtain ⟨h1, h2, h3⟩ := mem_linkGraph.mp he
    exact Reach.step ih (mem_linkGraph.mpr ⟨h1, hk _ h2, hk _ h3⟩)

/-- every member is reached from `seed` through links between members -/
def LinkedFrom (n θ : Nat) (ps : List Pair) (seed : Nat) (g : List Nat) : Prop :=
  ∀ v ∈ g, Reach (linkGraph n θ ps (fun u => g.contains u)) seed v

/-- **The BFS growth**: it returns within the fuel `queue + unclassified`; the returned group extends the current one,
every member is linked to the seed inside the group, and nothing is lost or duplicated. -/
theorem centroidBFS_spec (n θ : Nat) (ps : List Pair) (seed : Nat) :
    ∀ (f : Nat) (queue group uncl : List Nat), queue.length + uncl.length ≤ f → (∀ x ∈ queue, x ∈ group) →
      LinkedFrom n θ ps seed group →
      ∃ G U, centroidBFS θ ps f queue group uncl = some (G, U) ∧ LinkedFrom n θ ps seed G ∧
        (G ++ U).Perm (group ++ uncl) ∧ (∃ t, G = group ++ t) ∧ U.length ≤ uncl.length
  | f, [], group, uncl, _, _, hl => by
    refine ⟨group, uncl, ?_, hl, List.Perm.refl _, ⟨[], by simp⟩, Nat.le_refl _⟩
    cases f <;> rfl
  | 0, _ :: _, _, _, hf, _, _ => by simp at hf
  | f + 1, cur :: queue, group, uncl, hf, hq, hl => by
    unfold centroidBFS
    split
    · exact ⟨group, uncl, rfl, hl, List.Perm.refl _, ⟨[], by simp⟩, Nat.le_refl _⟩
    · have hlen := List.length_eq_length_filter_add (l := uncl) (fun c => centroidLink θ ps cur c)
      have hcur : cur ∈ group := hq cur (List.mem_cons_self ..)
      obtain ⟨G, U, h1, h2, h3, ⟨t, h4⟩, h5⟩ := centroidBFS_spec n θ ps seed f
        (queue ++ uncl.filter (fun c => centroidLink θ ps cur c))
        (group ++ uncl.filter (fun c => centroidLink θ ps cur c))
        (uncl.filter (fun c => !centroidLink θ ps cur c))
        (by simp only [List.length_append, List.length_cons] at hf ⊢; omega)
        (by
          intro x hx
          rcases List.mem_append.mp hx with h | h
          · exact List.mem_append_left _ (hq x (List.mem_cons_of_mem _ h))
          · exact List.mem_append_right _ h)
        (by
          intro v hv
          have hmono : ∀ u, (fun u => group.contains u) u = true →
              (fun u => (group ++ uncl.filter (fun c => centroidLink θ ps cur c)).contains u) u = true := by
            intro u hu
            simp only [List.contains_iff_mem] at hu ⊢
            exact List.mem_append_left _ hu
          rcases List.mem_append.mp hv with h | h
          · exact reach_mono hmono (hl v h)
          · have hlink := linked_of_centroidLink (List.mem_filter.mp h).2
            refine Reach.step (reach_mono hmono (hl cur hcur)) (mem_linkGraph.mpr ⟨hlink, ?_, ?_⟩)
            · simp only [List.contains_iff_mem]; exact List.mem_append_left _ hcur
            · simp only [List.contains_iff_mem]; exact hv)
      refine ⟨G, U, h1, h2, ?_, ⟨uncl.filter (fun c => centroidLink θ ps cur c) ++ t, by rw [h4, List.append_assoc]⟩, by omega⟩
      refine h3.trans ?_
      rw [List.append_assoc]
      exact (List.filter_append_perm _ uncl).append_left group

theorem reachSet_total (g : G) (u : Nat) : ∃ S, reachSet g u = some S := by
  unfold reachSet
  exact PV.C11.closure_total g g.edges.length [u] (PV.C11.uncovered_le g [u]) _ (by omega)

theorem groupLinked_of_linkedFrom {n θ : Nat} {ps : List Pair} {seed : Nat} {t : List Nat}
    (h : LinkedFrom n θ ps seed (seed :: t)) : groupLinked n θ ps (seed :: t) = true := by
  unfold groupLinked
  simp only
  obtain ⟨S, hS⟩ := reachSet_total (linkGraph n θ ps (fun u => (seed :: t).contains u)) seed
  rw [hS]
  simp only [List.all_eq_true, List.contains_iff_mem]
  intro v hv
  exact (PV.C11.reachSet_spec hS v).mpr (h v hv)

/-- the outer loop returns within its fuel; the groups it adds are linked, have ≥ 2 members and are disjoint from
everything else -/
theorem centroidLoop_spec (n θ : Nat) (ps : List Pair) :
    ∀ (f : Nat) (uncl : List Nat) (groups : List (List Nat)), uncl.length ≤ f → (groups.flatten ++ uncl).Nodup →
      (∀ g ∈ groups, 2 ≤ g.length ∧ groupLinked n θ ps g = true) →
      ∃ gs, centroidLoop θ ps f uncl groups = some gs ∧ gs.flatten.Nodup ∧
        ∀ g ∈ gs, 2 ≤ g.length ∧ groupLinked n θ ps g = true
  | f, [], groups, _, hnd, hg => by
    refine ⟨groups, by cases f <;> rfl, by simpa using hnd, hg⟩
  | 0, _ :: _, _, hf, _, _ => by simp at hf
  | f + 1, seed :: rest, groups, hf, hnd, hg => by
    unfold centroidLoop
    obtain ⟨G, U, h1, h2, h3, ⟨t, h4⟩, h5⟩ := centroidBFS_spec n θ ps seed (rest.length + 1) [seed] [seed] rest
      (by simp; omega) (fun x hx => hx)
      (by
        intro v hv
        simp only [List.mem_singleton] at hv
        subst hv
        exact Reach.refl _)
    rw [h1]
    simp only
    simp only [List.length_cons] at hf
    have hnd' : (groups.flatten ++ (G ++ U)).Nodup := by
      refine (List.Perm.append_left groups.flatten ?_).nodup_iff.mpr hnd
      simpa using h3
    simp only [List.singleton_append] at h4
    split
    · next hlen =>
      refine centroidLoop_spec n θ ps f U (groups ++ [G]) (by omega) ?_ ?_
      · simpa [List.append_assoc] using hnd'
      · intro g hg'
        rcases List.mem_append.mp hg' with h | h
        · exact hg g h
        · simp only [List.mem_singleton] at h
          subst h
          refine ⟨hlen, ?_⟩
          subst h4
          exact groupLinked_of_linkedFrom h2
    · refine centroidLoop_spec n θ ps f U groups (by omega) ?_ hg
      rw [← List.append_assoc] at hnd'
      have := hnd'
      rw [List.nodup_append] at this ⊢
      rw [List.nodup_append] at this
      refine ⟨this.1.1, this.2.1, ?_⟩
      intro a ha b hb
      exact this.2.2 a (List.mem_append_left _ ha) b hb

/-- **Centroid: the mirror always returns, and every emitted group passes `checkLinked` and `checkCommon`** — for every
input and every threshold (the `maxGroupSize` cut-off included). -/
theorem centroidGroupsAlgo_contract (n θ : Nat) (ps : List Pair) :
    ∃ gs, centroidGroupsAlgo θ ps = some gs ∧ checkLinked n θ ps gs = true ∧ checkCommon gs = true := by
  unfold centroidGroupsAlgo
  obtain ⟨gs, h1, h2, h3⟩ := centroidLoop_spec n θ ps (nodesOf ps).length (nodesOf ps) [] (Nat.le_refl _)
    (by simpa using nodup_nodesOf ps) (fun _ h => by cases h)
  refine ⟨gs, h1, ?_, ?_⟩
  · unfold checkLinked
    rw [List.all_eq_true]
    exact fun g hg => (h3 g hg).2
  · unfold checkCommon
    simp only [Bool.and_eq_true, List.all_eq_true, decide_eq_true_eq]
    exact ⟨fun g hg => (h3 g hg).1, h2⟩

end PV.GroupingAlgo
