import PV.Proofs.CFGRangesDefs
/-!
Range-level soundness — `try` / `except` / `else` / `finally`.
-/
namespace PV.CFGSound
open PV.CFG

/-! ### helpers -/

/-- `RPost` without the current block -/
structure RP (E : List Edge) (L L' : List SRec) (p q : Nat) : Prop where
  ext : ∃ ns, L' = ns ++ L ∧ ∀ r ∈ ns, Bd p q r
  pw : L'.Pairwise (Rel E)
  gz : GZ L'

theorem RPost.rp {E : List Edge} {L L' : List SRec} {c' p q : Nat} (h : RPost E L L' c' p q) : RP E L L' p q := ⟨h.ext, h.pw, h.gc.gz⟩

theorem RP.refl' {E : List Edge} {L : List SRec} (hp : L.Pairwise (Rel E)) (hg : GZ L) (p q : Nat) : RP E L L p q :=
  ⟨⟨[], rfl, fun _ h => by cases h⟩, hp, hg⟩

theorem RP.si {E : List Edge} {L L' : List SRec} {a p q p' : Nat} (h : RP E L L' p q) (hs : SI E L a p) (hp : p ≤ p') (hq : q ≤ p') :
    SI E L' a p' := hs.after h.ext h.pw hp hq

theorem RP.trans {E : List Edge} {L L' L'' : List SRec} {p q p' q' : Nat} (h₁ : RP E L L' p q) (h₂ : RP E L' L'' p' q')
    (hp : p ≤ p') (hq : q ≤ q') : RP E L L'' p q' := by
  obtain ⟨n1, e1, b1⟩ := h₁.ext
  obtain ⟨n2, e2, b2⟩ := h₂.ext
  refine ⟨⟨n2 ++ n1, by rw [e2, e1, List.append_assoc], ?_⟩, h₂.pw, h₂.gz⟩
  intro r hr
  rcases List.mem_append.mp hr with hr | hr
  · exact (b2 r hr).mono hp (Nat.le_refl _)
  · exact (b1 r hr).mono (Nat.le_refl _) hq

theorem RP.mono {E : List Edge} {L L' : List SRec} {p q p' q' : Nat} (h : RP E L L' p q) (hp : p' ≤ p) (hq : q ≤ q') : RP E L L' p' q' := by
  obtain ⟨ns, h1, h2⟩ := h.ext
  exact ⟨⟨ns, h1, fun r hr => (h2 r hr).mono hp hq⟩, h.pw, h.gz⟩

theorem foldl_edge_mem (src : Nat) (t : ETy) : ∀ (hs : List Nat) (s : St),
    (∀ e ∈ s.edges, e ∈ (hs.foldl (fun st h => st.edge src h t) s).edges) ∧
    (∀ h ∈ hs, (src, h, t) ∈ (hs.foldl (fun st h => st.edge src h t) s).edges)
  | [], s => ⟨fun _ h => h, fun _ h => by cases h⟩
  | x :: xs, s => by
    simp only [List.foldl_cons]
    obtain ⟨a, b⟩ := foldl_edge_mem src t xs (s.edge src x t)
    refine ⟨fun e he => a e (by simp [he]), fun h hh => ?_⟩
    rcases List.mem_cons.mp hh with rfl | hh
    · exact a _ (by simp)
    · exact b h hh

theorem conn_stmts (fin : Nat) (st : St) (b : Nat) (t : ETy) : (conn fin st b t).stmts = st.stmts := by
  unfold conn; split <;> rfl

theorem foldl_conn_stmts (fin : Nat) (t : ETy) : ∀ (hs : List Nat) (s : St),
    (hs.foldl (fun st h => conn fin st h t) s).stmts = s.stmts
  | [], _ => rfl
  | x :: xs, s => by
    simp only [List.foldl_cons]
    rw [foldl_conn_stmts fin t xs, conn_stmts]

theorem fp1_stmts (fin : Nat) (no : Option Nat) (st : St) : (fp1 fin no st).stmts = st.stmts := by
  unfold fp1; split <;> exact conn_stmts ..

theorem fp2_stmts (fin : Nat) (outer : List Exc) (st : St) : (fp2 fin outer st).stmts = st.stmts := by
  unfold fp2
  split
  · rfl
  · simp only
    split <;> simp only [conn_stmts]

theorem fp3_stmts (fin : Nat) (outer : List Exc) (no : Option Nat) (st : St) : (fp3 fin outer no st).stmts = st.stmts := by
  unfold fp3
  split
  · exact conn_stmts ..
  · split
    · exact foldl_conn_stmts ..
    · exact conn_stmts ..

theorem finallyPropagation_stmts (st : St) (fin : Nat) : (finallyPropagation st fin).stmts = st.stmts := by
  rw [finallyPropagation_eq, fp3_stmts, fp2_stmts, fp1_stmts]

section main
variable {E : List Edge} {N : Nat}

/-! ### handlers -/
theorem handlers_rq (ih : ∀ ss, sizeL ss ≤ N → RQL E ss) (il : Bool) (after a : Nat) :
    ∀ (hs : List Stmt) (hbs : List Nat) (st : St) (q : Nat), sizeL hs ≤ N → WF st → okHsC il hs = true → hs.length ≤ hbs.length →
      (∀ hb ∈ hbs, hb < st.next) → hbs.Nodup → after < st.next →
      Fut E st.next (procHandlers st hs hbs after).next (procHandlers st hs hbs after) →
      wfL q hs = true → SI E st.stmts a q → GZ st.stmts → (∀ hb ∈ hbs, NoRec st.stmts hb) →
      (∀ hb ∈ hbs, R E hb → R E a) → (∀ hb ∈ hbs, R E a → R E hb) →
      RP E st.stmts (procHandlers st hs hbs after).stmts q (posL q hs) ∧
      ∀ m, m ∉ hbs → m < st.next → NoRec st.stmts m → NoRec (procHandlers st hs hbs after).stmts m := by
  intro hs
  induction hs with
  | nil =>
    intro hbs st q _ _ _ _ _ _ _ _ _ hsi hgz _ _ _
    rw [procHandlers_nil_l]
    exact ⟨RP.refl' hsi.pw hgz _ _, fun m _ _ h => h⟩
  | cons x hs ihh =>
    intro hbs st q hsz w hok hlen hhb hnd hal hf hwf hsi hgz hnr hzb hfw
    obtain ⟨s, e, b, rfl, hokb, hokc⟩ := okHsC_cons hok
    rcases hbs with _ | ⟨hb, hbs⟩
    · simp at hlen
    have hszs : sizeL b ≤ N ∧ sizeL hs ≤ N := by simp only [sizeL, Stmt.size] at hsz; omega
    rw [wfL_cons, wfS_handler] at hwf
    simp only [Bool.and_eq_true, decide_eq_true_eq] at hwf
    simp only [Stmt.span] at hwf
    obtain ⟨⟨hqs, ⟨hse, hwb⟩, hpe⟩, hwr⟩ := hwf
    rw [posL_cons]
    simp only [Stmt.span]
    rw [procHandlers_handler] at hf ⊢
    simp only at hf ⊢
    have hcur := w.cur
    have h2 := w.two
    have hbl := hhb hb (List.mem_cons_self ..)
    obtain ⟨hnd1, hnd2⟩ := List.nodup_cons.mp hnd
    have i0 : Inv st.cur 0 st st := Inv.refl w (.inl rfl)
    have i2 := (i0.setCur (x := hb) (.inr (Nat.zero_le _)) hbl).add (b := hb) (p := s) (q := e) (ty := .other) (.inr (Nat.zero_le _)) (by ob)
    obtain ⟨j, sm⟩ := procList_frame b _ i2.wf st.cur 0 i2.own (Nat.zero_le _)
    obtain ⟨j', _⟩ := procList_frame b _ i2.wf hb st.next (.inl rfl) (by ob)
    have hjn := j.next_le
    have k := i2.trans j
    have hk := k.wf.cur
    have k2 := k.edgeUnlessExit (b := after) (t := .normal) k.own hk (by ob)
    have hctx : CtxLt ((procList ((setCur st hb).add hb s e .other) b).edgeUnlessExit
        (procList ((setCur st hb).add hb s e .other) b).cur after .normal) st.next :=
      (w.ctxLt (Nat.le_refl _)).of_eq (by simp [sm.loops]) (by simp [sm.excs])
    have hpos := hsi.pos
    have si1 := hsi.cons (b := hb) (e := e) (ty := .other) hqs (hzb hb (List.mem_cons_self ..)) (hfw hb (List.mem_cons_self ..))
    have si2 := si1.anchor (a' := hb) (hzb hb (List.mem_cons_self ..))
    have gc1 : GC ({ blk := hb, s := s, e := e, ty := .other } :: st.stmts) hb :=
      GC.hdr hgz (hnr hb (List.mem_cons_self ..)) (by omega)
    have hb0 := ih b hszs.1 il _ (s + 1) i2.wf hokb
    have hnr1 : ∀ m, m ≠ hb → m < st.next → NoRec st.stmts m →
        NoRec (procList ((setCur st hb).add hb s e .other) b).stmts m := fun m h1 h2 h3 =>
      NoRec.inv j' h1 (by ob) (NoRec.cons (by omega) h3)
    generalize procList _ b = s1 at *
    have hhb' : ∀ y ∈ hbs, y < (s1.edgeUnlessExit s1.cur after .normal).next := fun y hy => by
      have := hhb y (List.mem_cons_of_mem _ hy); ob
    obtain ⟨j3, sm3⟩ := handlers_frame (c := st.cur) (n := 0) (frame_all (sizeL hs)).1 (frame_all (sizeL hs)).2 hs hbs _ after (Nat.le_refl _)
      k2.wf (.inr (Nat.zero_le _)) (Nat.zero_le _) (fun y hy => ⟨.inr (Nat.zero_le _), hhb' y hy⟩) (by ob)
    have hjn3 := j3.next_le
    have fb := ((hf.mono (lo' := st.next) (hi' := s1.next) (Nat.le_refl _) (by ob)).back_TI
      (procHandlers_target hs hbs _ after k2.wf hhb' (by ob) _ (TG.zone hctx h2 (by ob)) (.inl hal))).back_eue (.inl hal)
    have hB := hb0 (fb.mono (by ob) (Nat.le_refl _)) hwb si2 gc1
    have hpg := posL_ge b _ hwb
    have si3 : SI E s1.stmts a (e + 1) := hB.si si1 (by omega) hpe
    obtain ⟨hR, hRn⟩ := ihh hbs _ (e + 1) hszs.2 k2.wf hokc (by simpa using hlen) hhb' hnd2 (by ob)
      (hf.mono (by ob) (Nat.le_refl _)) hwr (by simpa using si3) (by simpa using hB.gc.gz)
      (fun y hy => by
        simp only [edgeUnlessExit_stmts]
        exact hnr1 y (fun h => hnd1 (h ▸ hy)) (hhb y (List.mem_cons_of_mem _ hy)) (hnr y (List.mem_cons_of_mem _ hy)))
      (fun y hy => hzb y (List.mem_cons_of_mem _ hy)) (fun y hy => hfw y (List.mem_cons_of_mem _ hy))
    have hrg := posL_ge hs _ hwr
    refine ⟨?_, ?_⟩
    · have hA : RP E st.stmts s1.stmts q (e + 1) := by
        obtain ⟨ns, h1, h2⟩ := hB.ext
        refine ⟨⟨ns ++ [{ blk := hb, s := s, e := e, ty := .other }], by rw [h1]; simp, ?_⟩, hB.pw, hB.gc.gz⟩
        intro r hr
        rcases List.mem_append.mp hr with hr | hr
        · exact (h2 r hr).mono (by omega) hpe
        · rw [List.mem_singleton.mp hr]; exact .inr ⟨hqs, hse, by simp only; omega⟩
      have hR' : RP E s1.stmts (procHandlers (s1.edgeUnlessExit s1.cur after .normal) hs hbs after).stmts (e + 1) (posL (e + 1) hs) := by
        simpa using hR
      exact hA.trans hR' (by omega) hrg
    · intro m hm hml hmn
      have hm1 : m ≠ hb := fun h => hm (h ▸ List.mem_cons_self ..)
      have hm2 : m ∉ hbs := fun h => hm (List.mem_cons_of_mem _ h)
      refine hRn m hm2 (by ob) ?_
      simp only [edgeUnlessExit_stmts]
      exact hnr1 m hm1 hml hmn

/-! ### the body and the handlers -/
theorem tryMid_rq (ih : ∀ ss, sizeL ss ≤ N → RQL E ss) (il : Bool) (body handlers : List Stmt) (hbz : sizeL body ≤ N)
    (hhz : sizeL handlers ≤ N) (s3 : St) (w3 : WF s3) (hokb : okLC il body = true) (hokh : okHsC il handlers = true)
    (tryB : Nat) (htl : tryB < s3.next) (cfin : Option Nat) (hcf : ∀ f, cfin = some f → f < s3.next) (excs0 : List Exc)
    (hx : ∀ cx ∈ excs0, (∀ f, cx.fin = some f → f < s3.next) ∧ ∀ h ∈ cx.handlers, h < s3.next)
    (nat ah : Nat) (hnat : nat < s3.next) (hah : ah < s3.next)
    (hf : ∀ lo hi, s3.next + handlers.length ≤ lo → hi ≤ (tryMid s3 tryB cfin excs0 nat ah body handlers).next →
      Fut E lo hi (tryMid s3 tryB cfin excs0 nat ah body handlers))
    (a q : Nat) (hwb : wfL q body = true) (hwh : wfL (posL q body) handlers = true)
    (hsi : SI E s3.stmts a q) (hgz : GZ s3.stmts) (hnt : NoRec s3.stmts tryB)
    (hzt : R E tryB → R E a) (hat : (a, tryB, ETy.normal) ∈ s3.edges)
    (hzb : ∀ h, s3.next ≤ h → h < s3.next + handlers.length → R E h → R E a) :
    RP E s3.stmts (tryMid s3 tryB cfin excs0 nat ah body handlers).stmts q (posL (posL q body) handlers) ∧
    ∀ m, m ≠ tryB → m < s3.next → NoRec s3.stmts m → NoRec (tryMid s3 tryB cfin excs0 nat ah body handlers).stmts m := by
  unfold tryMid at hf ⊢
  simp only at hf ⊢
  have hmem : ∀ h ∈ (List.range handlers.length).map (fun k => s3.next + k), s3.next ≤ h ∧ h < s3.next + handlers.length := by
    intro h hh
    obtain ⟨k, hk, rfl⟩ := List.mem_map.mp hh
    have := List.mem_range.mp hk
    omega
  have hlen : ((List.range handlers.length).map (fun k => s3.next + k)).length = handlers.length := by simp
  have hnd : ((List.range handlers.length).map (fun k => s3.next + k)).Nodup := nodup_map_add _ _
  generalize (List.range handlers.length).map (fun k => s3.next + k) = hbs at *
  have h2 := w3.two
  have hcur := w3.cur
  have i4 := (((Inv.refl w3 (.inl rfl) : Inv s3.cur 0 s3 s3).bumpN handlers.length).setExcs
    (x := { fin := cfin, handlers := hbs, processingFinally := false } :: excs0) (by
      intro cx hcx
      rcases List.mem_cons.mp hcx with rfl | hcx
      · exact ⟨fun f hf => by have := hcf f hf; ob, fun h hh => by have := hmem h hh; ob⟩
      · exact ⟨fun f hf => by have := (hx cx hcx).1 f hf; ob, fun h hh => by have := (hx cx hcx).2 h hh; ob⟩)).setCur
      (x := tryB) (.inr (Nat.zero_le _)) (by ob)
  obtain ⟨j, sm⟩ := procList_frame body _ i4.wf s3.cur 0 i4.own (Nat.zero_le _)
  obtain ⟨j', _⟩ := procList_frame body _ i4.wf tryB (s3.next + handlers.length) (.inl rfl) (by ob)
  have hjn := j.next_le
  have k5 := i4.trans j
  have hk5 := k5.wf.cur
  have k5' := k5.edgeUnlessExit (b := nat) (t := .normal) k5.own hk5 (by ob)
  have hctx4 : CtxLt (setCur (setExcs (bumpN s3 handlers.length) ({ fin := cfin, handlers := hbs, processingFinally := false } :: excs0)) tryB)
      (s3.next + handlers.length) := i4.wf.ctxLt (by ob)
  have hb0 := ih body hbz il _ q i4.wf hokb
  have hctx5 : CtxLt ((procList (setCur (setExcs (bumpN s3 handlers.length)
      ({ fin := cfin, handlers := hbs, processingFinally := false } :: excs0)) tryB) body).edgeUnlessExit
      (procList (setCur (setExcs (bumpN s3 handlers.length)
      ({ fin := cfin, handlers := hbs, processingFinally := false } :: excs0)) tryB) body).cur nat .normal) (s3.next + handlers.length) :=
    hctx4.of_eq (by simp [sm.loops]) (by simp [sm.excs])
  have hnr1 : ∀ m, m ≠ tryB → m < s3.next + handlers.length → NoRec s3.stmts m →
      NoRec (procList (setCur (setExcs (bumpN s3 handlers.length)
        ({ fin := cfin, handlers := hbs, processingFinally := false } :: excs0)) tryB) body).stmts m := fun m h1 h2 h3 =>
    NoRec.inv j' h1 h2 h3
  generalize procList _ body = s5 at *
  obtain ⟨k6, sm6, hn6, hc6⟩ := foldl_edges_frame (c := s3.cur) (n := 0) tryB .exc hbs _
    (Inv.refl k5'.wf (.inr (Nat.zero_le _)) : Inv s3.cur 0 (s5.edgeUnlessExit s5.cur nat .normal) (s5.edgeUnlessExit s5.cur nat .normal))
    (.inr (Nat.zero_le _)) (by ob) (fun h hh => by have := hmem h hh; ob)
  have hback6 : ∀ lo hi, s3.next + handlers.length ≤ lo →
      Fut E lo hi (hbs.foldl (fun st h => st.edge tryB h .exc) (s5.edgeUnlessExit s5.cur nat .normal)) → Fut E lo hi s5 :=
    fun lo hi hlo f => (f.back_foldl tryB .exc hbs _ (fun h hh => .inl (by have := hmem h hh; omega))).back_eue (.inl (by omega))
  have hmem6 := (foldl_edge_mem tryB .exc hbs (s5.edgeUnlessExit s5.cur nat .normal)).2
  have hst6 : (hbs.foldl (fun st h => st.edge tryB h .exc) (s5.edgeUnlessExit s5.cur nat .normal)).stmts = s5.stmts := by
    rw [foldl_edge_stmts, edgeUnlessExit_stmts]
  generalize hbs.foldl (fun st h => st.edge tryB h .exc) (s5.edgeUnlessExit s5.cur nat .normal) = s6 at *
  have hhb6 : ∀ y ∈ hbs, y < s6.next := fun y hy => by have := hmem y hy; rw [hn6]; ob
  obtain ⟨j7, sm7⟩ := handlers_frame (c := s3.cur) (n := 0) (frame_all (sizeL handlers)).1 (frame_all (sizeL handlers)).2 handlers hbs s6 ah
    (Nat.le_refl _) k6.wf (.inr (Nat.zero_le _)) (Nat.zero_le _) (fun y hy => ⟨.inr (Nat.zero_le _), hhb6 y hy⟩) (by rw [hn6]; ob)
  have hjn7 := j7.next_le
  have hctx6 : CtxLt s6 (s3.next + handlers.length) := hctx5.same sm6
  have fall := hf (s3.next + handlers.length) (procHandlers s6 handlers hbs ah).next (Nat.le_refl _) (Nat.le_refl _)
  have fb : Fut E (s3.next + handlers.length) s5.next s5 :=
    hback6 _ _ (Nat.le_refl _) ((hf (s3.next + handlers.length) s5.next (Nat.le_refl _) (by rw [hn6] at hjn7; ob)).back_TI
      (procHandlers_target handlers hbs s6 ah k6.wf hhb6 (by rw [hn6]; ob) _ (TG.zone hctx6 (by omega) (by rw [hn6]; ob)) (.inl (by omega))))
  have hB := hb0 (fb.mono (by ob) (Nat.le_refl _)) hwb (hsi.anchor hzt) (GC.fresh hgz hnt)
  have hpg := posL_ge body _ hwb
  have si5 : SI E s5.stmts a (posL q body) := hB.si hsi hpg (Nat.le_refl _)
  have hat' : R E a → R E tryB := fun hr => R.step hr (fall.mem (j7.sub.1 _ (k6.sub.1 _ (k5'.sub.1 _ hat))))
  obtain ⟨hH, hHn⟩ := handlers_rq ih il ah a handlers hbs s6 (posL q body) hhz k6.wf hokh (by omega) hhb6 hnd (by rw [hn6]; ob)
    (hf _ _ (by rw [hn6]; ob) (Nat.le_refl _)) hwh (by rw [hst6]; exact si5) (by rw [hst6]; exact hB.gc.gz)
    (fun y hy => by
      have := hmem y hy
      rw [hst6]
      exact hnr1 y (by omega) (by omega) (NoRec.of_wf w3 (by omega)))
    (fun y hy => hzb y (hmem y hy).1 (hmem y hy).2)
    (fun y hy hr => R.step (hat' hr) (fall.mem (j7.sub.1 _ (hmem6 y hy))))
  rw [hst6] at hH hHn
  refine ⟨hB.rp.trans hH hpg (posL_ge handlers _ hwh), ?_⟩
  intro m hm1 hm2 hm3
  exact hHn m (fun hm => by have := hmem m hm; omega) (by rw [hn6]; ob) (hnr1 m hm1 (by omega) hm3)

/-! ### the `else` part -/
theorem tryElse_rq (ih : ∀ ss, sizeL ss ≤ N → RQL E ss) (il : Bool) (orelse : List Stmt) (hoz : sizeL orelse ≤ N) (s7 : St) (w7 : WF s7)
    (hok : okLC il orelse = true) (hasElse : Bool) (hhe : hasElse = !orelse.isEmpty) (elseB ah : Nat)
    (hel : hasElse = true → elseB < s7.next) (hah : ah < s7.next) :
    (Fut E s7.next (tryElse s7 hasElse elseB ah orelse).next (tryElse s7 hasElse elseB ah orelse) →
      ∀ a q, wfL q orelse = true → SI E s7.stmts a q → GZ s7.stmts → (hasElse = true → NoRec s7.stmts elseB) →
        (hasElse = true → R E elseB → R E a) →
        RP E s7.stmts (tryElse s7 hasElse elseB ah orelse).stmts q (posL q orelse)) ∧
    (∀ lo hi, CtxLt s7 lo → 2 ≤ lo → hi ≤ s7.next → ah < lo → Fut E lo hi (tryElse s7 hasElse elseB ah orelse) → Fut E lo hi s7) ∧
    WF (tryElse s7 hasElse elseB ah orelse) ∧
    Same s7 (tryElse s7 hasElse elseB ah orelse) ∧ s7.next ≤ (tryElse s7 hasElse elseB ah orelse).next ∧
    (∀ m, m ≠ elseB → m < s7.next → NoRec s7.stmts m → NoRec (tryElse s7 hasElse elseB ah orelse).stmts m) := by
  subst hhe
  unfold tryElse
  rcases orelse with _ | ⟨o, os⟩
  · simp only [List.isEmpty_nil, Bool.not_true, Bool.false_eq_true, ↓reduceIte]
    exact ⟨fun _ a q _ hsi hgz _ _ => RP.refl' hsi.pw hgz _ _, fun _ _ _ _ _ _ f => f, w7, Same.refl _, Nat.le_refl _, fun _ _ _ h => h⟩
  · simp only [List.isEmpty_cons, Bool.not_false, ↓reduceIte]
    have hel' := hel (by simp)
    have i1 := (Inv.refl w7 (.inl rfl) : Inv s7.cur 0 s7 s7).setCur (x := elseB) (.inr (Nat.zero_le _)) hel'
    obtain ⟨j, sm⟩ := procList_frame (o :: os) _ i1.wf s7.cur 0 i1.own (Nat.zero_le _)
    obtain ⟨j', _⟩ := procList_frame (o :: os) _ i1.wf elseB s7.next (.inl rfl) (by ob)
    have hjn := j.next_le
    have k2 := i1.trans j
    have hk2 := k2.wf.cur
    have k3 := k2.edgeUnlessExit (b := ah) (t := .normal) k2.own hk2 (by ob)
    have hb0 := fun q => ih (o :: os) hoz il _ q i1.wf hok
    have hback : ∀ lo hi, CtxLt s7 lo → 2 ≤ lo → hi ≤ s7.next → Fut E lo hi (procList (setCur s7 elseB) (o :: os)) → Fut E lo hi s7 :=
      fun lo hi hctx h2 hhi f => (f.back_list i1.wf (hctx.of_eq rfl rfl) h2 hhi).back_setCur
    generalize procList _ (o :: os) = s at *
    refine ⟨fun f a q hw hsi hgz hnr hz => ?_,
      fun lo hi hctx h2 hhi halo f => hback lo hi hctx h2 hhi (f.back_eue (.inl halo)), k3.wf, ⟨?_, ?_⟩, by ob, ?_⟩
    · rw [edgeUnlessExit_stmts]
      exact (hb0 q ((f.back_eue (.inl hah)).mono (by ob) (by ob)) hw (hsi.anchor (hz (by simp))) (GC.fresh hgz (hnr (by simp)))).rp
    · simp [sm.loops]
    · simp [sm.excs]
    · intro m h1 h2 h3
      rw [edgeUnlessExit_stmts]
      exact NoRec.inv j' h1 h2 h3

/-! ### the `finally` part -/
theorem tryFin_rq (ih : ∀ ss, sizeL ss ≤ N → RQL E ss) (il : Bool) (fin : List Stmt) (hfz : sizeL fin ≤ N) (s8 : St) (w8 : WF s8)
    (hok : okLC il fin = true) (hasFin : Bool) (hhf : hasFin = !fin.isEmpty) (finB exitBk : Nat) (ctx : Exc) (excs0 : List Exc)
    (hex : s8.excs = ctx :: excs0) (hfb : hasFin = true → finB < s8.next) (hel : exitBk < s8.next) :
    (Fut E s8.next (tryFin s8 hasFin finB exitBk ctx excs0 fin).next (tryFin s8 hasFin finB exitBk ctx excs0 fin) →
      ∀ a q, wfL q fin = true → SI E s8.stmts a q → GZ s8.stmts → (hasFin = true → NoRec s8.stmts finB) →
        (hasFin = true → R E finB → R E a) →
        RP E s8.stmts (tryFin s8 hasFin finB exitBk ctx excs0 fin).stmts q (posL q fin)) ∧
    (∀ lo hi, CtxLt s8 lo → 2 ≤ lo → hi ≤ s8.next → exitBk < lo → Fut E lo hi (tryFin s8 hasFin finB exitBk ctx excs0 fin) → Fut E lo hi s8) ∧
    s8.next ≤ (tryFin s8 hasFin finB exitBk ctx excs0 fin).next ∧
    (∀ m, m ≠ finB → m < s8.next → NoRec s8.stmts m → NoRec (tryFin s8 hasFin finB exitBk ctx excs0 fin).stmts m) := by
  subst hhf
  unfold tryFin
  rcases fin with _ | ⟨o, os⟩
  · simp only [List.isEmpty_nil, Bool.not_true, Bool.false_eq_true, ↓reduceIte]
    exact ⟨fun _ a q _ hsi hgz _ _ => RP.refl' hsi.pw hgz _ _, fun _ _ _ _ _ _ f => f, Nat.le_refl _, fun _ _ _ h => h⟩
  · simp only [List.isEmpty_cons, Bool.not_false, ↓reduceIte]
    have hfl := hfb (by simp)
    have h2 := w8.two
    have hb := w8.excs
    rw [hex] at hb
    have i1 := ((Inv.refl w8 (.inl rfl) : Inv s8.cur 0 s8 s8).setCur (x := finB) (.inr (Nat.zero_le _)) hfl).setExcs
      (x := { ctx with processingFinally := true } :: excs0) (by
        intro cx hcx
        rcases List.mem_cons.mp hcx with rfl | hcx
        · exact hb ctx (List.mem_cons_self ..)
        · exact hb cx (List.mem_cons_of_mem _ hcx))
    obtain ⟨j, sm⟩ := procList_frame (o :: os) _ i1.wf s8.cur 0 i1.own (Nat.zero_le _)
    obtain ⟨j', _⟩ := procList_frame (o :: os) _ i1.wf finB s8.next (.inl rfl) (by ob)
    have hjn := j.next_le
    have k2 := i1.trans j
    have hk2 := k2.wf.cur
    have k3a := k2.setExcs (x := ctx :: excs0) (by
      intro cx hcx
      have := hb cx hcx
      exact ⟨fun f hf => by have := this.1 f hf; ob, fun h hh => by have := this.2 h hh; ob⟩)
    have k3 := k3a.edgeUnlessExit (b := exitBk) (t := .normal) k3a.own k3a.wf.cur (by ob)
    obtain ⟨k4, sm4, hn4, hc4⟩ := finallyPropagation_frame k3 (fin := finB) (.inr (Nat.zero_le _)) (by ob)
    have hb0 := fun q => ih (o :: os) hfz il _ q i1.wf hok
    have hctx1 : ∀ lo, CtxLt s8 lo → CtxLt (setExcs (setCur s8 finB) ({ ctx with processingFinally := true } :: excs0)) lo := by
      intro lo hctx
      refine ⟨hctx.1, fun c hc => ?_⟩
      rcases List.mem_cons.mp hc with rfl | hc
      · exact hctx.2 ctx (by rw [hex]; exact List.mem_cons_self ..)
      · exact hctx.2 c (by rw [hex]; exact List.mem_cons_of_mem _ hc)
    have hback : ∀ lo hi, CtxLt s8 lo → 2 ≤ lo → hi ≤ s8.next →
        Fut E lo hi (procList (setExcs (setCur s8 finB) ({ ctx with processingFinally := true } :: excs0)) (o :: os)) → Fut E lo hi s8 :=
      fun lo hi hctx h2 hhi f => (f.back_list i1.wf (hctx1 lo hctx) h2 hhi).back_setExcs.back_setCur
    have hctx3 : ∀ lo, CtxLt s8 lo → CtxLt ((setExcs (procList (setExcs (setCur s8 finB) ({ ctx with processingFinally := true } :: excs0)) (o :: os))
        (ctx :: excs0)).edgeUnlessExit (setExcs (procList (setExcs (setCur s8 finB) ({ ctx with processingFinally := true } :: excs0)) (o :: os))
        (ctx :: excs0)).cur exitBk .normal) lo := fun lo hctx => hctx.of_eq (by simp [sm.loops]) (by simp [hex])
    generalize procList _ (o :: os) = s at *
    have hfp : ∀ lo hi, CtxLt s8 lo → 2 ≤ lo → hi ≤ s.next → exitBk < lo →
        Fut E lo hi (finallyPropagation ((setExcs s (ctx :: excs0)).edgeUnlessExit (setExcs s (ctx :: excs0)).cur exitBk .normal) finB) →
        Fut E lo hi s :=
      fun lo hi hctx h2 hhi hxl f => ((f.back_TI (finallyPropagation_target _ finB _ (TG.zone (hctx3 lo hctx) h2 (by ob)))).back_eue (.inl hxl)).back_setExcs
    have hst : (finallyPropagation ((setExcs s (ctx :: excs0)).edgeUnlessExit (setExcs s (ctx :: excs0)).cur exitBk .normal) finB).stmts = s.stmts := by
      rw [finallyPropagation_stmts, edgeUnlessExit_stmts, setExcs_stmts]
    refine ⟨fun f a q hw hsi hgz hnr hz => ?_, fun lo hi hctx h2lo hhi hxl f => hback lo hi hctx h2lo hhi (hfp lo hi hctx h2lo (by ob) hxl f),
      k4.next_le, ?_⟩
    · have fs := hfp s8.next s.next (w8.ctxLt (Nat.le_refl _)) h2 (Nat.le_refl _) hel (f.mono (Nat.le_refl _) (by rw [hn4]; ob))
      rw [hst]
      exact (hb0 q (fs.mono (by ob) (Nat.le_refl _)) hw (hsi.anchor (hz (by simp))) (GC.fresh hgz (hnr (by simp)))).rp
    · intro m h1 h2 h3
      rw [hst]
      exact NoRec.inv j' h1 h2 h3

/-! ### try -/
theorem tryPre_facts' (st : St) (hasFin hasElse : Bool) :
    (tryPre st hasFin hasElse).1.stmts = st.stmts ∧ (st.cur, st.next, ETy.normal) ∈ (tryPre st hasFin hasElse).1.edges ∧
    (hasFin = true → st.next + 2 ≤ (tryPre st hasFin hasElse).2.1) ∧ (hasElse = true → st.next + 2 ≤ (tryPre st hasFin hasElse).2.2) ∧
    ((tryPre st hasFin hasElse).2.1 = 0 ∨ st.next + 2 ≤ (tryPre st hasFin hasElse).2.1) ∧
    ((tryPre st hasFin hasElse).2.2 = 0 ∨ st.next + 2 ≤ (tryPre st hasFin hasElse).2.2) ∧
    (hasFin = true → (tryPre st hasFin hasElse).2.1 ≠ (tryPre st hasFin hasElse).2.2) := by
  unfold tryPre
  cases hasFin <;> cases hasElse <;> simp

theorem try_rq (ih : ∀ ss, sizeL ss ≤ N → RQL E ss) (body handlers orelse fin : List Stmt) (hb : sizeL body ≤ N) (hh : sizeL handlers ≤ N)
    (ho : sizeL orelse ≤ N) (hfz : sizeL fin ≤ N) (s e : Nat) : RQS E (.try_ s e body handlers orelse fin) := by
  intro il st p w hok hf hwf hp hsi hgc
  rw [okSC_try] at hok
  simp only [Bool.and_eq_true] at hok
  obtain ⟨⟨⟨hoka, hokh⟩, hokc⟩, hokd⟩ := hok
  rw [wfS_try] at hwf
  simp only [Bool.and_eq_true, decide_eq_true_eq] at hwf
  obtain ⟨⟨⟨⟨⟨hse, hwa⟩, hwh⟩, hwc⟩, hwd⟩, hpe⟩ := hwf
  simp only [Stmt.span] at hp ⊢
  obtain ⟨iw, _⟩ := procStmt_frame (.try_ s e body handlers orelse fin) st w st.cur st.next (Or.inl rfl) (Nat.le_refl _)
  have hz := zoneR w iw hf
  rw [procStmt_try, procTry_eq'] at hf hz ⊢
  simp only at hf hz ⊢
  generalize hFin : (!fin.isEmpty) = hasFin at hf hz ⊢
  generalize hElse : (!orelse.isEmpty) = hasElse at hf hz ⊢
  obtain ⟨k3, sm3, hn3, hF, hEl⟩ := tryPre_frame (c := st.cur) (n := 0) st w (.inl rfl) (Nat.zero_le _) hasFin hasElse
  obtain ⟨hst3, hed3, F1, F2, F3, F4, F5⟩ := tryPre_facts' st hasFin hasElse
  generalize tryPre st hasFin hasElse = pr at *
  obtain ⟨s3, finB, elseB⟩ := pr
  simp only at hf hz k3 sm3 hn3 hF hEl hst3 hed3 F1 F2 F3 F4 F5 ⊢
  have hcf : ∀ f, (if hasFin = true then some finB else none) = some f → f < s3.next := by
    intro f hf
    cases hasFin
    · simp at hf
    · simp only [↓reduceIte, Option.some.injEq] at hf; subst hf; exact (hF rfl).2
  have hah : (if hasFin = true then finB else st.next + 1) < s3.next := by
    cases hasFin
    · simp only [Bool.false_eq_true, ↓reduceIte]; omega
    · simp only [↓reduceIte]; exact (hF rfl).2
  have hnat : (if hasElse = true then elseB else if hasFin = true then finB else st.next + 1) < s3.next := by
    cases hasElse
    · simp only [Bool.false_eq_true, ↓reduceIte]; exact hah
    · simp only [↓reduceIte]; exact (hEl rfl).2
  generalize (if hasFin = true then some finB else none) = cfin at *
  generalize (if hasElse = true then elseB else if hasFin = true then finB else st.next + 1) = nat at *
  generalize (if hasFin = true then finB else st.next + 1) = ah at *
  have hcur := w.cur
  have h2 := w.two
  obtain ⟨k7, l7, x7, hn7⟩ := tryMid_frame (c := st.cur) (n := 0) (frame_all (sizeL body + sizeL handlers)).1 (frame_all (sizeL body + sizeL handlers)).2
    body handlers (Nat.le_add_right _ _) (Nat.le_add_left _ _) k3 (Nat.zero_le _) st.next (.inr (Nat.zero_le _)) (by omega) cfin hcf st.excs
    (w.excs_le (by omega)) nat ah hnat hah
  have hM := tryMid_rq ih il body handlers hb hh s3 k3.wf hoka hokh st.next (by omega) cfin hcf st.excs
    (w.excs_le (by omega)) nat ah hnat hah
  have hctx7 : ∀ lo, s3.next + handlers.length ≤ lo → CtxLt (tryMid s3 st.next cfin st.excs nat ah body handlers) lo := by
    intro lo hlo
    refine ⟨fun x hx => ?_, fun c hc => ?_⟩
    · rw [l7, sm3.loops] at hx; have := w.loops x hx; omega
    · rw [x7] at hc
      rcases List.mem_cons.mp hc with rfl | hc
      · refine ⟨fun f hf => by have := hcf f hf; omega, fun h hh => ?_⟩
        obtain ⟨k, hk, rfl⟩ := List.mem_map.mp hh
        have := List.mem_range.mp hk
        omega
      · exact ⟨fun f hf => by have := (w.excs c hc).1 f hf; omega, fun h hh => by have := (w.excs c hc).2 h hh; omega⟩
  generalize tryMid s3 st.next cfin st.excs nat ah body handlers = s7 at *
  obtain ⟨A8, back8, w8, sm8, hn8, nr8⟩ := tryElse_rq (E := E) ih il orelse ho s7 k7.wf hokc hasElse hElse.symm elseB ah
    (fun h => by have := hEl h; omega) (by omega)
  generalize tryElse s7 hasElse elseB ah orelse = s8 at *
  obtain ⟨A9, back9, hn9, nr9⟩ := tryFin_rq (E := E) ih il fin hfz s8 w8 hokd hasFin hFin.symm finB (st.next + 1)
    { fin := cfin, handlers := (List.range handlers.length).map (fun k => s3.next + k), processingFinally := false } st.excs
    (by rw [sm8.excs, x7]) (fun h => by have := hF h; omega) (by omega)
  generalize tryFin s8 hasFin finB (st.next + 1)
    { fin := cfin, handlers := (List.range handlers.length).map (fun k => s3.next + k), processingFinally := false } st.excs fin = s9 at *
  have f9 := hf.back_setExcs.back_setCur
  simp only [setExcs_next, setCur_next] at hz f9
  have hctx8 : ∀ lo, s3.next + handlers.length ≤ lo → CtxLt s8 lo := fun lo hlo => (hctx7 lo hlo).same sm8
  have f8 : ∀ lo hi, s3.next + handlers.length ≤ lo → hi ≤ s8.next → Fut E lo hi s8 := fun lo hi hlo hhi =>
    back9 lo hi (hctx8 lo hlo) (by omega) hhi (by omega) (f9.mono (by omega) (by omega))
  have f7 : ∀ lo hi, s3.next + handlers.length ≤ lo → hi ≤ s7.next → Fut E lo hi s7 := fun lo hi hlo hhi =>
    back8 lo hi (hctx7 lo hlo) (by omega) hhi (by omega) (f8 lo hi hlo (by omega))
  -- the records
  have hzz : ∀ b, st.next ≤ b → b < s9.next → R E b → R E st.cur := fun b h1 h2 => hz b (.inr h1) h2
  have si0 : SI E s3.stmts st.cur (s + 1) := by rw [hst3]; exact hsi.mono (by omega)
  have gz0 : GZ s3.stmts := by rw [hst3]; exact hgc.gz
  have nr0 : ∀ m, st.next ≤ m → NoRec s3.stmts m := fun m h => by rw [hst3]; exact NoRec.of_wf w h
  obtain ⟨rpM, nrM⟩ := hM f7 st.cur (s + 1) hwa hwh si0 gz0 (nr0 _ (Nat.le_refl _)) (hzz st.next (Nat.le_refl _) (by omega)) hed3
    (fun h h1 h2 => hzz h (by omega) (by omega))
  have g1 := posL_ge body _ hwa
  have g2 := posL_ge handlers _ hwh
  have g3 := posL_ge orelse _ hwc
  have g4 := posL_ge fin _ hwd
  have si7 : SI E s7.stmts st.cur (posL (posL (s + 1) body) handlers) := rpM.si si0 (by omega) (Nat.le_refl _)
  have rpE := A8 (f8 s7.next s8.next hn7 (Nat.le_refl _)) st.cur _ hwc si7 rpM.gz
    (fun h => nrM elseB (by have := F2 h; omega) (by have := hEl h; omega) (nr0 _ (by have := F2 h; omega)))
    (fun h => hzz elseB (by have := F2 h; omega) (by have := hEl h; omega))
  have si8 := rpE.si si7 g3 (Nat.le_refl _)
  have rpF := A9 (f9.mono (by omega) (Nat.le_refl _)) st.cur _ hwd si8 rpE.gz
    (fun h => nr8 finB (F5 h) (by have := hF h; omega) (nrM finB (by have := F1 h; omega) (by have := hF h; omega) (nr0 _ (by have := F1 h; omega))))
    (fun h => hzz finB (by have := F1 h; omega) (by have := hF h; omega))
  have rpA := ((rpM.trans rpE (by omega) g3).trans rpF (by omega) g4).mono (p' := p) (q' := e + 1) (by omega) hpe
  rw [hst3] at rpA
  show RPost E st.stmts s9.stmts (st.next + 1) p (e + 1)
  refine ⟨rpA.ext, rpA.pw, GC.fresh rpA.gz ?_⟩
  exact nr9 (st.next + 1) (by omega) (by omega) (nr8 (st.next + 1) (by omega) (by omega) (nrM (st.next + 1) (by omega) (by omega) (nr0 _ (by omega))))

end main
end PV.CFGSound

#print axioms PV.CFGSound.try_rq
