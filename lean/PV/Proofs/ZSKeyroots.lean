import PV.Proofs.ZSBase
/-!
The two descriptions of the key roots agree: `PV.ZS.keyroots` (no later node has the same left-most
leaf, read from the `lml` array) and `PV.ZS.keyrootsT` (the root and every node with a left sibling,
read from the tree), both in ascending order.
-/
set_option linter.unusedSimpArgs false
namespace PV.ZSProof
open PV.TED PV.ZS

/-- left-most leaf of position `x` of a forest -/
def lmlF (Fs : List Tree) (x : Nat) : Nat := x + 1 - (nthL Fs x).size

/-- no later position of the forest has the same left-most leaf -/
def keyF (Fs : List Tree) (x : Nat) : Prop :=
  ∀ x', x < x' → x' < sizeL Fs → lmlF Fs x' ≠ lmlF Fs x

theorem sizeL_cons (a : Nat) (cs ts : List Tree) :
    sizeL (.node a cs :: ts) = sizeL cs + 1 + sizeL ts := by simp [sizeL, Tree.size]; omega

theorem lmlF_lt {a cs ts x} (h : x < sizeL cs) : lmlF (.node a cs :: ts) x = lmlF cs x := by
  unfold lmlF; rw [nthL_lt h]
theorem lmlF_eq {a cs ts} : lmlF (.node a cs :: ts) (sizeL cs) = 0 := by
  unfold lmlF; rw [nthL_eq]; simp [Tree.size]; omega
theorem lmlF_gt {a cs ts x} (h : sizeL cs < x) (h' : x < sizeL (.node a cs :: ts)) :
    lmlF (.node a cs :: ts) x = sizeL cs + 1 + lmlF ts (x - (sizeL cs + 1)) := by
  rw [sizeL_cons] at h'
  have := nthL_size_le ts (x - (sizeL cs + 1)) (by omega)
  unfold lmlF; rw [nthL_gt h]; omega
theorem lmlF_le (Fs : List Tree) (x : Nat) : lmlF Fs x ≤ x := by
  have := size_pos (nthL Fs x); unfold lmlF; omega

theorem keyF_lt {a cs ts x} (key : Bool) (h : x < sizeL cs) :
    (keyF (.node a cs :: ts) x ∧ (key = true ∨ lmlF (.node a cs :: ts) x ≠ 0)) ↔
      (keyF cs x ∧ (false = true ∨ lmlF cs x ≠ 0)) := by
  constructor
  · rintro ⟨hk, _⟩
    have h0 := hk (sizeL cs) h (by rw [sizeL_cons]; omega)
    rw [lmlF_eq, lmlF_lt h] at h0
    refine ⟨?_, Or.inr (Ne.symm h0)⟩
    intro x' h1 h2
    have := hk x' h1 (by rw [sizeL_cons]; omega)
    rwa [lmlF_lt h, lmlF_lt h2] at this
  · rintro ⟨hk, hz⟩
    have hz : lmlF cs x ≠ 0 := by
      cases hz with
      | inl h => exact Bool.noConfusion h
      | inr h => exact h
    refine ⟨?_, Or.inr (by rwa [lmlF_lt h])⟩
    intro x' h1 h2
    rw [lmlF_lt h]
    by_cases c1 : x' < sizeL cs
    · rw [lmlF_lt c1]; exact hk x' h1 c1
    · by_cases c2 : x' = sizeL cs
      · subst c2; rw [lmlF_eq]; exact Ne.symm hz
      · rw [lmlF_gt (by omega) h2]
        have := lmlF_le cs x
        omega

theorem keyF_eq {a cs ts} : keyF (.node a cs :: ts) (sizeL cs) := by
  intro x' h1 h2
  rw [lmlF_eq, lmlF_gt h1 h2]; omega

theorem keyF_gt {a cs ts x} (h : sizeL cs < x) (h' : x < sizeL (.node a cs :: ts)) :
    keyF (.node a cs :: ts) x ↔ keyF ts (x - (sizeL cs + 1)) := by
  constructor
  · intro hk x' h1 h2
    have := hk (x' + (sizeL cs + 1)) (by omega) (by rw [sizeL_cons]; omega)
    rw [lmlF_gt (by omega) (by rw [sizeL_cons]; omega), lmlF_gt h h',
      show x' + (sizeL cs + 1) - (sizeL cs + 1) = x' by omega] at this
    omega
  · intro hk x' h1 h2
    have := hk (x' - (sizeL cs + 1)) (by omega) (by rw [sizeL_cons] at h2; omega)
    rw [lmlF_gt (by omega) h2, lmlF_gt h h']
    omega

theorem krL_cons (off : Nat) (key : Bool) (a : Nat) (cs ts : List Tree) :
    krL off key (.node a cs :: ts) =
      krL off false cs ++ (if key = true then [off + sizeL cs] else []) ++ krL (off + (sizeL cs + 1)) true ts := by
  simp [krL, krT, Tree.size, Nat.add_comm 1]

theorem mem_krL (Fs : List Tree) : ∀ (off : Nat) (key : Bool) (k : Nat),
    k ∈ krL off key Fs ↔
      ∃ x, k = off + x ∧ x < sizeL Fs ∧ keyF Fs x ∧ (key = true ∨ lmlF Fs x ≠ 0) := by
  induction Fs using forest_ind with
  | nil => intro off key k; simp [krL, sizeL]
  | cons a cs ts ih1 ih2 =>
    intro off key k
    rw [krL_cons, List.mem_append, List.mem_append, ih1, ih2]
    constructor
    · rintro ((⟨x, e1, e2, e3⟩ | hmid) | ⟨x, e1, e2, e3, _⟩)
      · exact ⟨x, e1, by rw [sizeL_cons]; omega, (keyF_lt key e2).mpr e3⟩
      · cases key with
        | false => simp at hmid
        | true =>
          simp at hmid
          exact ⟨sizeL cs, hmid, by rw [sizeL_cons]; omega, keyF_eq, Or.inl rfl⟩
      · have hlt : x + (sizeL cs + 1) < sizeL (.node a cs :: ts) := by rw [sizeL_cons]; omega
        refine ⟨x + (sizeL cs + 1), by omega, hlt, ?_, ?_⟩
        · rw [keyF_gt (by omega) hlt, show x + (sizeL cs + 1) - (sizeL cs + 1) = x by omega]; exact e3
        · right; rw [lmlF_gt (by omega) hlt]; omega
    · rintro ⟨x, e1, e2, e3, e4⟩
      by_cases c1 : x < sizeL cs
      · left; left
        exact ⟨x, e1, c1, (keyF_lt key c1).mp ⟨e3, e4⟩⟩
      · by_cases c2 : x = sizeL cs
        · subst c2
          left; right
          rw [lmlF_eq] at e4
          cases e4 with
          | inl h => simp [h, e1]
          | inr h => exact absurd rfl h
        · right
          refine ⟨x - (sizeL cs + 1), by omega, by rw [sizeL_cons] at e2; omega,
            (keyF_gt (by omega) e2).mp e3, Or.inl rfl⟩

theorem krL_sorted (Fs : List Tree) : ∀ (off : Nat) (key : Bool),
    (krL off key Fs).Pairwise (· < ·) := by
  induction Fs using forest_ind with
  | nil => intro off key; simp [krL]
  | cons a cs ts ih1 ih2 =>
    intro off key
    rw [krL_cons, List.pairwise_append, List.pairwise_append]
    refine ⟨⟨ih1 off false, ?_, ?_⟩, ih2 _ true, ?_⟩
    · cases key <;> simp
    · intro x hx y hy
      rw [mem_krL] at hx
      obtain ⟨x0, e1, e2, _⟩ := hx
      cases key with
      | false => simp at hy
      | true => simp at hy; omega
    · intro x hx y hy
      rw [mem_krL] at hy
      obtain ⟨y0, f1, f2, _⟩ := hy
      rw [List.mem_append] at hx
      cases hx with
      | inl hx =>
        rw [mem_krL] at hx
        obtain ⟨x0, e1, e2, _⟩ := hx
        omega
      | inr hx =>
        cases key with
        | false => simp at hx
        | true => simp at hx; omega

theorem eq_of_sorted_of_mem : ∀ (l₁ l₂ : List Nat), l₁.Pairwise (· < ·) → l₂.Pairwise (· < ·) →
    (∀ x, x ∈ l₁ ↔ x ∈ l₂) → l₁ = l₂
  | [], [], _, _, _ => rfl
  | [], b :: l₂, _, _, h => by have := (h b).mpr (List.mem_cons_self ..); simp at this
  | a :: l₁, [], _, _, h => by have := (h a).mp (List.mem_cons_self ..); simp at this
  | a :: l₁, b :: l₂, h1, h2, h => by
    rw [List.pairwise_cons] at h1 h2
    have ha := (h a).mp (List.mem_cons_self ..)
    have hb := (h b).mpr (List.mem_cons_self ..)
    rw [List.mem_cons] at ha hb
    have hab : a = b := by
      cases ha with
      | inl e => exact e
      | inr ha =>
        cases hb with
        | inl e => exact e.symm
        | inr hb => have := h1.1 b hb; have := h2.1 a ha; omega
    subst hab
    congr 1
    apply eq_of_sorted_of_mem l₁ l₂ h1.2 h2.2
    intro x
    constructor
    · intro hx
      have := (h x).mp (List.mem_cons_of_mem _ hx)
      rw [List.mem_cons] at this
      cases this with
      | inl e => have := h1.1 x hx; omega
      | inr e => exact e
    · intro hx
      have := (h x).mpr (List.mem_cons_of_mem _ hx)
      rw [List.mem_cons] at this
      cases this with
      | inl e => have := h2.1 x hx; omega
      | inr e => exact e

theorem keyroots_sorted (p : Post) : (keyroots p).Pairwise (· < ·) := by
  unfold keyroots
  exact List.Pairwise.filter _ (List.pairwise_lt_range)

/-- **the key roots read off the tree are the key roots read off the `lml` array** -/
theorem keyrootsT_eq (t : Tree) : keyrootsT t = keyroots (mkPost t) := by
  have R := mkPost_repr t
  have hT : keyrootsT t = krL 0 true [t] := by simp [keyrootsT, krL]
  rw [hT]
  apply eq_of_sorted_of_mem _ _ (krL_sorted _ _ _) (keyroots_sorted _)
  intro k
  rw [mem_krL]
  unfold keyroots
  rw [List.mem_filter, List.mem_range, isKey_iff, R.n, sizeL_single]
  constructor
  · rintro ⟨x, e1, e2, e3, _⟩
    have : k = x := by omega
    subst this
    refine ⟨e2, ?_⟩
    intro k' h1 h2
    rw [R.lml k' h2, R.lml k e2]
    exact e3 k' h1 (by rw [sizeL_single]; exact h2)
  · rintro ⟨e1, e2⟩
    refine ⟨k, by omega, e1, ?_, Or.inl rfl⟩
    intro k' h1 h2
    rw [sizeL_single] at h2
    have := e2 k' h1 h2
    rwa [R.lml k' h2, R.lml k e1] at this

end PV.ZSProof
