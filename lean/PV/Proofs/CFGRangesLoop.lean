import PV.Proofs.CFGRangesDefs
/-!
Range-level soundness — `with` (the worked example of the scheme), `class`, loops.
-/
namespace PV.CFGSound
open PV.CFG

section main
variable {E : List Edge} {N : Nat}

/-! ### with -/
theorem with_rq (ih : ∀ ss, sizeL ss ≤ N → RQL E ss) (body : List Stmt) (hsz : sizeL body ≤ N) (s e : Nat) :
    RQS E (.with_ s e body) := by
  intro il st p w hok hf hwf hp hsi hgc
  rw [okSC_with] at hok
  rw [wfS_with] at hwf
  simp only [Bool.and_eq_true, decide_eq_true_eq] at hwf
  obtain ⟨⟨hse, hwb⟩, hpe⟩ := hwf
  simp only [Stmt.span] at hp ⊢
  -- the whole call: frame and zone
  obtain ⟨iw, _⟩ := procStmt_frame (.with_ s e body) st w st.cur st.next (Or.inl rfl) (Nat.le_refl _)
  have hz := zoneR w iw hf
  have hwn := iw.next_le
  rw [procStmt_with, procWith_eq] at hf hz hwn ⊢
  simp only at hf hz hwn ⊢
  have hcur := w.cur
  have hc : Own st.cur st.next st.cur := .inl rfl
  have i0 : Inv st.cur st.next st st := Inv.refl w hc
  have i1 := ((((((i0.bump.edge (a := st.cur) (b := st.next) (t := .normal) hc (by ob) (by ob)).add (b := st.next) (p := s) (q := e)
    (ty := .other) (by ob) (by ob)).bump).bump).bump).edge (a := st.next) (b := st.next + 1) (t := .normal) (by ob) (by ob) (by ob)).setCur
    (x := st.next + 1) (by ob) (by ob)
  obtain ⟨j, sm⟩ := procList_frame body _ i1.wf st.cur st.next i1.own (by ob)
  obtain ⟨j', _⟩ := procList_frame body _ i1.wf (st.next + 1) (st.next + 4) (.inl rfl) (by ob)
  have hjn := j.next_le
  -- the sub-call's `Fut`
  have f2 := (((hf.mono (lo' := st.next + 4) (by omega) (Nat.le_refl _)).back_setCur.back_edge
    (.inl (by omega))).back_edge (.inl (by omega))).back_eue (.inl (by omega))
  -- the header record: its block is reachable iff the block current at the start is
  have hfw : R E st.cur → R E st.next := fun hr => R.step hr (f2.mem (j.sub.1 (st.cur, st.next, .normal) (by simp)))
  simp only [setCur_next, edge_next, edgeUnlessExit_next] at hz
  have hjn' : st.next + 4 ≤ (procList (setCur ((bump (bump (bump (((bump st).edge st.cur st.next .normal).add st.next s e .other)))).edge
      st.next (st.next + 1) .normal) (st.next + 1)) body).next := by ob
  have si1 := hsi.cons (b := st.next) (e := e) (ty := .other) hp (hz _ (.inr (Nat.le_refl _)) (by omega)) hfw
  have si2 := si1.anchor (a' := st.next + 1) (hz _ (.inr (by omega)) (by omega))
  have gc1 : GC ({ blk := st.next, s := s, e := e, ty := .other } :: st.stmts) (st.next + 1) :=
    GC.fresh (hgc.gz.add_fresh (NoRec.of_wf w (Nat.le_refl _))) (NoRec.cons (by omega) (NoRec.of_wf w (by omega)))
  have h := ih body hsz il _ (s + 1) i1.wf hok (f2.mono (by ob) (by ob)) hwb si2 gc1
  obtain ⟨ns, h1, h2⟩ := h.ext
  have hpg := posL_ge body _ hwb
  refine ⟨⟨ns ++ [{ blk := st.next, s := s, e := e, ty := .other }], ?_, ?_⟩, ?_, ?_⟩
  · simp only [setCur_stmts, edge_stmts, edgeUnlessExit_stmts]
    rw [h1]; simp
  · intro r hr
    rcases List.mem_append.mp hr with hr | hr
    · exact (h2 r hr).mono (by omega) (by omega)
    · rw [List.mem_singleton.mp hr]; exact .inr ⟨hp, hse, by simp only; omega⟩
  · simp only [setCur_stmts, edge_stmts, edgeUnlessExit_stmts]
    exact h.pw
  · simp only [setCur_stmts, edge_stmts, edgeUnlessExit_stmts, setCur_cur]
    refine GC.fresh h.gc.gz (NoRec.inv j' (by omega) (by omega) ?_)
    show NoRec ({ blk := st.next, s := s, e := e, ty := .other } :: st.stmts) (st.next + 3)
    exact NoRec.cons (by omega) (NoRec.of_wf w (by omega))

end main
end PV.CFGSound
