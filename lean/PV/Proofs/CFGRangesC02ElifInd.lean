import PV.Proofs.CFGRangesC02ElifDefs
/-!
Range-level completeness (C02) for the heads of `elif` clauses — the induction over the builder.

**The test record of an `if` statement is the newest record of its block, for ever.**  Fix a line `t ≠ 0` such that the only
statement of the program that starts at `t` is an `if` statement `t … e` (`UT t e`).  Then in every builder state every record
that starts at `t` ends at `e` and is the NEWEST record of its block (`NW t e`), and no such record is in the current block
(`JP`).  `procIf` stores the test in the block that is current on entry and immediately makes a fresh block current; every
block that becomes current later is either fresh or was allocated before and holds no record at all at that moment (frame
reasoning: a call only stores into the block that is current on entry and into blocks it allocates, `Inv` / `procList_frame`).
No hypothesis on the shape of the program is needed (`okLC`, `noSEL` are not used).
-/
namespace PV.CFGSound
open PV.CFG
set_option linter.unusedSimpArgs false

/-- the state invariant: `NW` for the record list, and the current block holds no record that starts at `t` -/
structure JP (t e : Nat) (st : St) : Prop where
  nw : NW t e st.stmts
  cur : NoT t st.stmts st.cur

def JQL (t e : Nat) (ss : List Stmt) : Prop := ∀ st : St, t ≠ 0 → WF st → UT t e (tlL ss) → JP t e st → JP t e (procList st ss)
def JQS (t e : Nat) (x : Stmt) : Prop := ∀ st : St, t ≠ 0 → WF st → UT t e (tlS x) → JP t e st → JP t e (procStmt st x)
def JLN (t e N : Nat) : Prop := ∀ ss, sizeL ss ≤ N → JQL t e ss
def JSN (t e N : Nat) : Prop := ∀ x : Stmt, x.size ≤ N → JQS t e x

variable {t e : Nat}

/-! ### general facts -/
theorem nw_append {L : List SRec} (h : NW t e L) : ∀ (ns : List SRec), (∀ r ∈ ns, r.s ≠ t) → (∀ r ∈ ns, NoT t L r.blk) → NW t e (ns ++ L)
  | [], _, _ => h
  | r :: ns, hne, hb => by
    refine ⟨nw_append h ns (fun x hx => hne x (List.mem_cons_of_mem _ hx)) (fun x hx => hb x (List.mem_cons_of_mem _ hx)),
      fun hh => absurd hh (hne r (List.mem_cons_self ..)), ?_⟩
    intro x hx hs
    rcases List.mem_append.mp hx with hx | hx
    · exact absurd hs (hne x (List.mem_cons_of_mem _ hx))
    · exact hb r (List.mem_cons_self ..) x hx hs

/-- a framed call that stores no record starting at `t` -/
theorem JP.leaf {st st' : St} (w : WF st) (i : Inv st.cur st.next st st') (h : JP t e st)
    (hn : ∀ r ∈ st'.stmts, r ∈ st.stmts ∨ r.s ≠ t) : JP t e st' := by
  obtain ⟨ns, hs, hns⟩ := i.stmts
  have hnt : ∀ r ∈ ns, r.s ≠ t := by
    intro r hr hrt
    rcases hn r (by rw [hs]; exact List.mem_append.mpr (.inl hr)) with h1 | h1
    · have h3 := w.stmts r h1
      have h4 := h.cur r h1 hrt
      rcases hns r hr with h2 | h2 <;> omega
    · exact h1 hrt
  have hb : ∀ r ∈ ns, NoT t st.stmts r.blk := by
    intro r hr x hx hxt
    have h3 := w.stmts x hx
    have h4 := h.cur x hx hxt
    rcases hns r hr with h2 | h2 <;> omega
  refine ⟨by rw [hs]; exact nw_append h.nw ns hnt hb, ?_⟩
  intro r hr hrt
  rw [hs] at hr
  rcases List.mem_append.mp hr with hr | hr
  · exact absurd hrt (hnt r hr)
  · have h3 := w.stmts r hr
    have h4 := h.cur r hr hrt
    rcases i.own with h2 | h2 <;> omega

/-- a header record that does not start at `t`, stored in a block `≥ next` -/
theorem NoT.hdr {st : St} (w : WF st) {x b p q : Nat} {ty : Ty} (hx : st.next ≤ x) (hp : p ≠ t) :
    NoT t ({ blk := b, s := p, e := q, ty := ty } :: st.stmts) x :=
  NoT.cons (NoT.of_wf w hx) (fun hh => absurd hh hp)

theorem NW.hdr {st : St} (w : WF st) (h : NW t e st.stmts) {b p q : Nat} {ty : Ty} (hb : st.next ≤ b) (hp : p ≠ t) :
    NW t e ({ blk := b, s := p, e := q, ty := ty } :: st.stmts) :=
  NW.add h (NoT.of_wf w hb) (fun hh => absurd hh hp)

/-! ### leaves -/
theorem okSC_simple_t (s q : Nat) (c : List Bool) (h : Bool) : okSC true (.simple s q c h) = true := by rw [okSC]
theorem okSC_ret_t (s q : Nat) (c : List Bool) (h : Bool) : okSC true (.ret s q c h) = true := by rw [okSC]
theorem okSC_raise_t (s q : Nat) : okSC true (.raise s q) = true := by rw [okSC]

theorem leaf_jp (x : Stmt) (s q : Nat) (hok : okSC true x = true) (hsp : spansS x = [(s, q)]) (htl : tlS x = [(s, q, 1)]) :
    JQS t e x := by
  intro st ht w hu h
  rw [htl] at hu
  have hs := hu.head1
  refine JP.leaf w (procStmt_frame x st w st.cur st.next (.inl rfl) (Nat.le_refl _)).1 h ?_
  intro r hr
  rcases procStmt_spans x true hok st r hr with h1 | h1
  · exact .inl h1
  · right
    rw [hsp] at h1
    rcases h1 with ⟨h0, _⟩ | h1
    · omega
    · have h2 := List.mem_singleton.mp h1
      simp only [Prod.mk.injEq] at h2
      omega

theorem add_jp (st : St) (s q : Nat) (ty : Ty) (hs : s ≠ t) (h : JP t e st) : JP t e (st.add st.cur s q ty) :=
  ⟨NW.add h.nw h.cur (fun hh => absurd hh hs), NoT.cons h.cur (fun hh => absurd hh hs)⟩

variable {N : Nat}

/-! ### with, class, loops -/
theorem with_jp (ih : JLN t e N) (body : List Stmt) (hsz : sizeL body ≤ N) (s q : Nat) : JQS t e (.with_ s q body) := by
  intro st ht w hu h
  rw [tlS_with] at hu
  have hs := hu.head1
  rw [procStmt_with, procWith_eq]
  have hcur := w.cur
  have i1 := ((((((w.i0.bump.e0 (a := st.cur) (b := st.next) (t := .normal) (by ob) (by ob)).a0 (b := st.next) (p := s) (q := q)
    (ty := .other) (by ob)).bump).bump).bump).e0 (a := st.next) (b := st.next + 1) (t := .normal) (by ob) (by ob)).c0
    (x := st.next + 1) (by ob)
  have h2 := ih body hsz _ ht i1.wf hu.tail ⟨NW.hdr w h.nw (Nat.le_refl _) hs, NoT.hdr w (x := st.next + 1) (by omega) hs⟩
  have k := (procList_frame body _ i1.wf (st.next + 1) (st.next + 4) (.inl rfl) (by ob)).1
  refine ⟨?_, ?_⟩
  · simp only [setCur_stmts, edge_stmts, edgeUnlessExit_stmts]
    exact h2.nw
  · simp only [setCur_stmts, setCur_cur, edge_stmts, edgeUnlessExit_stmts]
    exact NoT.inv k (by omega) (by omega) (NoT.hdr w (by omega) hs)

theorem class_jp (ih : JLN t e N) (body : List Stmt) (hsz : sizeL body ≤ N) (s q : Nat) : JQS t e (.class_ s q body) := by
  intro st ht w hu h
  rw [tlS_class] at hu
  have hs := hu.head1
  rw [procStmt_class, procClass_eq]
  have hcur := w.cur
  have i1 := ((w.i0.bump.e0 (a := st.cur) (b := st.next) (t := .normal) (by ob) (by ob)).c0 (x := st.next) (by ob)).a0
    (b := st.next) (p := s) (q := q) (ty := .other) (by ob)
  exact ih body hsz _ ht i1.wf hu.tail ⟨NW.hdr w h.nw (Nat.le_refl _) hs, NoT.hdr w (Nat.le_refl _) hs⟩

theorem loop_jp (ih : JLN t e N) (body orelse : List Stmt) (h1 : sizeL body ≤ N) (h2 : sizeL orelse ≤ N) (s q : Nat) :
    JQS t e (.loop s q body orelse) := by
  intro st ht w hu h
  rw [tlS_loop] at hu
  have hs := hu.head1
  have hub : UT t e (tlL body) := hu.tail.left
  have huo : UT t e (tlL orelse) := hu.tail.right
  rw [procStmt_loop, procLoop_eq]
  have hcur := w.cur
  have i1 := (((w.i0.bump.e0 (a := st.cur) (b := st.next) (t := .normal) (by ob) (by ob)).a0 (b := st.next) (p := s) (q := q)
    (ty := .other) (by ob)).bump).bump
  rcases orelse with _ | ⟨o, os⟩
  · simp only [List.isEmpty_nil, Bool.not_true, Bool.false_eq_true, ↓reduceIte]
    have i2 := (((i1.setLoops (l := (st.next, st.next + 2, st.excs.length) :: st.loops) (by
        intro x hx
        rcases List.mem_cons.mp hx with rfl | hx
        · constructor <;> ob
        · exact w.loops_le (by ob) x hx)).e0 (a := st.next) (b := st.next + 1) (t := .condT) (by ob) (by ob)).e0
        (a := st.next) (b := st.next + 2) (t := .condF) (by ob) (by ob)).c0 (x := st.next + 1) (by ob)
    have h5 := ih body h1 _ ht i2.wf hub ⟨NW.hdr w h.nw (Nat.le_refl _) hs, NoT.hdr w (x := st.next + 1) (by omega) hs⟩
    have k := (procList_frame body _ i2.wf (st.next + 1) (st.next + 3) (.inl rfl) (by ob)).1
    refine ⟨?_, ?_⟩
    · simp only [setLoops_stmts, setCur_stmts, edgeUnlessExit_stmts]
      exact h5.nw
    · simp only [setLoops_stmts, setLoops_cur, setCur_stmts, setCur_cur, edgeUnlessExit_stmts]
      exact NoT.inv k (by omega) (by omega) (NoT.hdr w (by omega) hs)
  · simp only [List.isEmpty_cons, Bool.not_false, ↓reduceIte]
    have i2 := (((i1.bump.setLoops (l := (st.next, st.next + 2, st.excs.length) :: st.loops) (by
        intro x hx
        rcases List.mem_cons.mp hx with rfl | hx
        · constructor <;> ob
        · exact w.loops_le (by ob) x hx)).e0 (a := st.next) (b := st.next + 1) (t := .condT) (by ob) (by ob)).e0
        (a := st.next) (b := st.next + 3) (t := .condF) (by ob) (by ob)).c0 (x := st.next + 1) (by ob)
    have h5 := ih body h1 _ ht i2.wf hub ⟨NW.hdr w h.nw (Nat.le_refl _) hs, NoT.hdr w (x := st.next + 1) (by omega) hs⟩
    have kb := (procList_frame body _ i2.wf (st.next + 1) (st.next + 4) (.inl rfl) (by ob)).1
    have j := procList_inv0 body _ i2.wf
    have k := i2.trans j
    have hjn := j.next_le
    have hk := k.wf.cur
    have k2 := ((k.u0 (a := _) (b := st.next) (t := .loop) hk (by ob)).setLoops (l := st.loops) (w.loops_le (by ob))).c0
      (x := st.next + 3) (by ob)
    have n3 := NoT.inv kb (x := st.next + 3) (by omega) (by omega) (NoT.hdr w (by omega) hs)
    have n2 := NoT.inv kb (x := st.next + 2) (by omega) (by omega) (NoT.hdr w (by omega) hs)
    have h8 := ih (o :: os) h2 _ ht k2.wf huo ⟨by simp only [setCur_stmts, setLoops_stmts, edgeUnlessExit_stmts]; exact h5.nw,
      by simp only [setCur_stmts, setCur_cur, setLoops_stmts, edgeUnlessExit_stmts]; exact n3⟩
    have ko := (procList_frame (o :: os) _ k2.wf (st.next + 3) (st.next + 4) (.inl rfl) (by ob)).1
    refine ⟨?_, ?_⟩
    · simp only [setLoops_stmts, setCur_stmts, edgeUnlessExit_stmts]
      exact h8.nw
    · simp only [setLoops_stmts, setLoops_cur, setCur_stmts, setCur_cur, edgeUnlessExit_stmts]
      exact NoT.inv ko (by omega) (by omega)
        (by simp only [setCur_stmts, setLoops_stmts, edgeUnlessExit_stmts]; exact n2)

/-! ### if / elif chains -/

/-- `s'` has the records of `s` and the current block `x` -/
theorem JP.mk' {s s' : St} {x : Nat} (hs : s'.stmts = s.stmts) (hc : s'.cur = x) (hn : NW t e s.stmts) (hx : NoT t s.stmts x) :
    JP t e s' :=
  ⟨by rw [hs]; exact hn, by rw [hs, hc]; exact hx⟩

/-- the test record is stored in the block that is current on entry — which holds no record that starts at `t` and never becomes
current again — and a fresh block becomes current; the merge block `next + 1` stays without records -/
theorem ifHead_jp (ih : JLN t e N) (thn : List Stmt) (hsz : sizeL thn ≤ N) (ht : t ≠ 0) (hu : UT t e (tlL thn)) (st : St) (s q : Nat)
    (w : WF st) (h : JP t e st) (hq : s = t → q = e) :
    JP t e (ifHead st s q thn) ∧ NoT t (ifHead st s q thn).stmts (st.next + 1) := by
  unfold ifHead
  have hcur := w.cur
  have i1 := ((((w.i0.a0 (b := st.cur) (p := s) (q := q) (ty := .other) hcur).bump).bump).e0 (a := st.cur) (b := st.next)
    (t := .condT) (by ob) (by ob)).c0 (x := st.next) (by ob)
  have h2 := ih thn hsz _ ht i1.wf hu
    ⟨NW.add h.nw h.cur hq, NoT.cons (x := st.next) (NoT.of_wf w (Nat.le_refl _)) (fun _ => by omega)⟩
  have k := (procList_frame thn _ i1.wf st.next (st.next + 2) (.inl rfl) (by ob)).1
  exact ⟨h2, NoT.inv k (by omega) (by omega) (NoT.cons (NoT.of_wf w (by omega)) (fun _ => by omega))⟩

theorem elifHead_jp (ih : JLN t e N) (thn : List Stmt) (hsz : sizeL thn ≤ N) (ht : t ≠ 0) (hu : UT t e (tlL thn)) (st : St)
    (s q fm : Nat) (w : WF st) (h : JP t e st) (hq : s = t → q = e) (hfm : NoT t st.stmts fm) (hfc : fm ≠ st.cur) (hfl : fm < st.next) :
    JP t e (elifHead st s q thn) ∧ NoT t (elifHead st s q thn).stmts fm := by
  unfold elifHead
  have hcur := w.cur
  have i1 := (((w.i0.a0 (b := st.cur) (p := s) (q := q) (ty := .other) hcur).bump).e0 (a := st.cur) (b := st.next)
    (t := .condT) (by ob) (by ob)).c0 (x := st.next) (by ob)
  have h2 := ih thn hsz _ ht i1.wf hu
    ⟨NW.add h.nw h.cur hq, NoT.cons (x := st.next) (NoT.of_wf w (Nat.le_refl _)) (fun _ => by omega)⟩
  have k := (procList_frame thn _ i1.wf st.next (st.next + 1) (.inl rfl) (by ob)).1
  exact ⟨h2, NoT.inv k (by omega) (by omega) (NoT.cons hfm (fun _ hh => hfc hh.symm))⟩

theorem elseTail_jp (ih : JLN t e N) (orelse : List Stmt) (hsz : sizeL orelse ≤ N) (ht : t ≠ 0) (hu : UT t e (tlL orelse)) (s3 : St)
    (w3 : WF s3) (cond te : Nat) (hcl : cond < s3.next) (hnw : NW t e s3.stmts) :
    JP t e (elseTail s3 cond te orelse) ∧ ∀ x, x < s3.next → NoT t s3.stmts x → NoT t (elseTail s3 cond te orelse).stmts x := by
  unfold elseTail
  have w4 := branch_wf w3 hcl .condF
  have h5 := ih orelse hsz _ ht w4 hu ⟨hnw, (show NoT t s3.stmts s3.next from NoT.of_wf w3 (Nat.le_refl _))⟩
  have k := (procList_frame orelse _ w4 s3.next (s3.next + 1) (.inl rfl) (by ob)).1
  exact ⟨h5, fun x hx hn => NoT.inv k (by omega) (by omega) hn⟩

/-- the `elif` chain: every test is stored in the block allocated just before; the final merge block `fm` stays without records -/
theorem elif_jp (ih : JLN t e N) (ht : t ≠ 0) : ∀ (M : Nat) (thn orelse : List Stmt), sizeL thn + sizeL orelse ≤ M → sizeL thn ≤ N →
    sizeL orelse ≤ N → ∀ (st : St) (s q fm : Nat), WF st → UT t e (tlL thn) → UT t e (tlL orelse) → JP t e st → (s = t → q = e) →
      NoT t st.stmts fm → fm ≠ st.cur → fm < st.next →
      JP t e (procIfElif st s q thn orelse fm) ∧ NoT t (procIfElif st s q thn orelse fm).stmts fm := by
  intro M
  induction M with
  | zero =>
    intro thn orelse hM h1 h2 st s q fm w hua hub h hq hfm hfc hfl
    have : orelse = [] := by
      rcases orelse with _ | ⟨o, os⟩
      · rfl
      · simp only [sizeL] at hM; omega
    subst this
    obtain ⟨hH, hF⟩ := elifHead_jp ih thn h1 ht hua st s q fm w h hq hfm hfc hfl
    rw [procIfElif_nil]
    exact ⟨JP.mk' (by simp only [finishElif_stmts, edge_stmts]) (finishElif_cur ..) hH.nw hF,
      by simp only [finishElif_stmts, edge_stmts]; exact hF⟩
  | succ M ihM =>
    intro thn orelse hM h1 h2 st s q fm w hua hub h hq hfm hfc hfl
    obtain ⟨hH, hF⟩ := elifHead_jp ih thn h1 ht hua st s q fm w h hq hfm hfc hfl
    obtain ⟨k, _, hnx⟩ := elifHead_frame' thn st s q w
    have hcur := w.cur
    have w4 := branch_wf k.wf (cond := st.cur) (by omega) .condF
    rcases orelse_cases orelse with rfl | ⟨s', e', a, b, rfl⟩ | ⟨s', e', a, b, rfl⟩ | ⟨o, os, rfl, hne1, hne2⟩
    · rw [procIfElif_nil]
      exact ⟨JP.mk' (by simp only [finishElif_stmts, edge_stmts]) (finishElif_cur ..) hH.nw hF,
        by simp only [finishElif_stmts, edge_stmts]; exact hF⟩
    · rw [procIfElif_elif]
      have hsz : sizeL a + sizeL b ≤ M ∧ sizeL a ≤ N ∧ sizeL b ≤ N := by
        simp only [sizeL, Stmt.size] at hM h2; omega
      rw [tlL_single, tlS_elifc] at hub
      obtain ⟨h5, hF5⟩ := ihM a b hsz.1 hsz.2.1 hsz.2.2 _ 0 0 fm w4 hub.tail.left hub.tail.right
        ⟨hH.nw, (show NoT t (elifHead st s q thn).stmts (elifHead st s q thn).next from NoT.of_wf k.wf (Nat.le_refl _))⟩ (fun hh => absurd hh.symm ht) hF (by ob) (by ob)
      simp only
      exact ⟨JP.mk' (finishElif_stmts ..) (finishElif_cur ..) h5.nw hF5, by rw [finishElif_stmts]; exact hF5⟩
    · rw [procIfElif_ite]
      have hsz : sizeL a + sizeL b ≤ M ∧ sizeL a ≤ N ∧ sizeL b ≤ N := by
        simp only [sizeL, Stmt.size] at hM h2; omega
      rw [tlL_single, tlS_ite] at hub
      obtain ⟨h5, hF5⟩ := ihM a b hsz.1 hsz.2.1 hsz.2.2 _ s' e' fm w4 hub.tail.left hub.tail.right
        ⟨hH.nw, (show NoT t (elifHead st s q thn).stmts (elifHead st s q thn).next from NoT.of_wf k.wf (Nat.le_refl _))⟩ hub.head0 hF (by ob) (by ob)
      simp only
      exact ⟨JP.mk' (finishElif_stmts ..) (finishElif_cur ..) h5.nw hF5, by rw [finishElif_stmts]; exact hF5⟩
    · rw [procIfElif_else _ _ _ _ _ _ _ hne1 hne2]
      obtain ⟨h5, hF5⟩ := elseTail_jp ih (o :: os) h2 ht hub _ k.wf st.cur (elifHead st s q thn).cur (by omega) hH.nw
      have w5 := (elseTail_frame' (o :: os) _ k.wf st.cur (elifHead st s q thn).cur (by omega)).1.wf
      have hfm5 := hF5 fm (by omega) hF
      simp only
      split
      · exact ⟨JP.mk' (by simp only [setCur_stmts, bumpU_stmts]) (setCur_cur ..) h5.nw (NoT.of_wf w5 (Nat.le_refl _)),
          by simp only [setCur_stmts, bumpU_stmts]; exact hfm5⟩
      · exact ⟨JP.mk' (by simp only [finishElif_stmts, edgeUnlessExit_stmts]) (finishElif_cur ..) h5.nw hfm5,
          by simp only [finishElif_stmts, edgeUnlessExit_stmts]; exact hfm5⟩

theorem elifTail_jp (ih : JLN t e N) (ht : t ≠ 0) (thn' orelse' : List Stmt) (h1 : sizeL thn' ≤ N) (h2 : sizeL orelse' ≤ N)
    (hua : UT t e (tlL thn')) (hub : UT t e (tlL orelse')) (st : St) (w : WF st) (cond te merge s' q' : Nat) (hcl : cond < st.next)
    (hnw : NW t e st.stmts) (hq : s' = t → q' = e) (hm : NoT t st.stmts merge) (hml : merge < st.next) :
    JP t e (procIfElifTail st cond te merge s' q' thn' orelse') := by
  rw [procIfElifTail_eq]
  obtain ⟨h5, hF5⟩ := elif_jp ih ht _ thn' orelse' (Nat.le_refl _) h1 h2 (setCur ((bump st).edge cond st.next .condF) st.next) s' q' merge
    (branch_wf w hcl .condF) hua hub ⟨hnw, (show NoT t st.stmts st.next from NoT.of_wf w (Nat.le_refl _))⟩ hq hm (by ob) (by ob)
  generalize procIfElif (setCur ((bump st).edge cond st.next .condF) st.next) s' q' thn' orelse' merge = s5 at h5 hF5 ⊢
  simp only
  split
  · split
    · exact h5
    · exact JP.mk' (by simp only [setCur_stmts, edgeUnlessExit_stmts]) (setCur_cur ..) h5.nw hF5
  · exact JP.mk' (by simp only [setCur_stmts, edgeUnlessExit_stmts]) (setCur_cur ..) h5.nw hF5

theorem if_jp (ih : JLN t e N) (ht : t ≠ 0) (thn orelse : List Stmt) (h1 : sizeL thn ≤ N) (h2 : sizeL orelse ≤ N)
    (hua : UT t e (tlL thn)) (hub : UT t e (tlL orelse)) (st : St) (w : WF st) (s q : Nat) (h : JP t e st) (hq : s = t → q = e) :
    JP t e (procIf st s q thn orelse) := by
  obtain ⟨hH, hM⟩ := ifHead_jp ih thn h1 ht hua st s q w h hq
  obtain ⟨k, _, hnx⟩ := ifHead_frame' thn st s q w
  have hcur := w.cur
  rcases orelse_cases orelse with rfl | ⟨s', e', a, b, rfl⟩ | ⟨s', e', a, b, rfl⟩ | ⟨o, os, rfl, hne1, hne2⟩
  · rw [procIf_nil]
    exact JP.mk' (by simp only [setCur_stmts, edge_stmts, edgeUnlessExit_stmts]) (setCur_cur ..) hH.nw hM
  · rw [procIf_elif]
    have hsz : sizeL a ≤ N ∧ sizeL b ≤ N := by simp only [sizeL, Stmt.size] at h2; omega
    rw [tlL_single, tlS_elifc] at hub
    exact elifTail_jp ih ht a b hsz.1 hsz.2 hub.tail.left hub.tail.right _ k.wf _ _ _ 0 0 (by omega) hH.nw
      (fun hh => absurd hh.symm ht) hM (by omega)
  · rw [procIf_ite]
    have hsz : sizeL a ≤ N ∧ sizeL b ≤ N := by simp only [sizeL, Stmt.size] at h2; omega
    rw [tlL_single, tlS_ite] at hub
    exact elifTail_jp ih ht a b hsz.1 hsz.2 hub.tail.left hub.tail.right _ k.wf _ _ _ s' e' (by omega) hH.nw hub.head0 hM (by omega)
  · rw [procIf_else _ _ _ _ _ _ hne1 hne2]
    obtain ⟨h5, hF5⟩ := elseTail_jp ih (o :: os) h2 ht hub _ k.wf st.cur (ifHead st s q thn).cur (by omega) hH.nw
    have w5 := (elseTail_frame' (o :: os) _ k.wf st.cur (ifHead st s q thn).cur (by omega)).1.wf
    simp only
    split
    · exact JP.mk' (by simp only [setCur_stmts, bumpU_stmts]) (setCur_cur ..) h5.nw (NoT.of_wf w5 (Nat.le_refl _))
    · exact JP.mk' (by simp only [setCur_stmts, edgeUnlessExit_stmts]) (setCur_cur ..) h5.nw (hF5 _ (by omega) hM)

theorem ite_jp (ih : JLN t e N) (thn orelse : List Stmt) (h1 : sizeL thn ≤ N) (h2 : sizeL orelse ≤ N) (s q : Nat) :
    JQS t e (.ite s q thn orelse) := by
  intro st ht w hu h
  rw [tlS_ite] at hu
  rw [procStmt_ite]
  exact if_jp ih ht thn orelse h1 h2 hu.tail.left hu.tail.right st w s q h hu.head0

/-- a standalone `elif` clause: processed as an `if` statement whose test carries `0..0` -/
theorem elifc_jp (ih : JLN t e N) (thn orelse : List Stmt) (h1 : sizeL thn ≤ N) (h2 : sizeL orelse ≤ N) (s q : Nat) :
    JQS t e (.elifc s q thn orelse) := by
  intro st ht w hu h
  rw [tlS_elifc] at hu
  rw [procStmt_elifc]
  exact if_jp ih ht thn orelse h1 h2 hu.tail.left hu.tail.right st w 0 0 h (fun hh => absurd hh.symm ht)

/-! ### match -/
theorem cases_jp (ihS : JSN t e N) (ihL : JLN t e N) (ht : t ≠ 0) : ∀ (cs : List Stmt) (st : St) (mb merge : Nat), sizeL cs ≤ N →
    WF st → mb < st.next → merge < st.next → UT t e (tlL cs) → NW t e st.stmts → NoT t st.stmts merge →
    NW t e (procCases st cs mb merge).stmts ∧ NoT t (procCases st cs mb merge).stmts merge := by
  intro cs
  induction cs with
  | nil =>
    intro st mb merge _ _ _ _ _ hnw hm
    rw [procCases_nil]; exact ⟨hnw, hm⟩
  | cons x cs ihc =>
    intro st mb merge hsz w hmb hml hu hnw hm
    rw [tlL_cons] at hu
    have hszs : x.size ≤ N ∧ sizeL cs ≤ N := by simp only [sizeL] at hsz; omega
    have hcur := w.cur
    rcases case_cases x with ⟨s, q, b, rfl⟩ | hne
    · rw [procCases_case]
      simp only
      have hux := hu.left
      rw [tlS_case] at hux
      have hs := hux.head1
      have hb : sizeL b ≤ N := by have := hszs.1; simp only [Stmt.size] at this; omega
      have i2 := ((w.i0.bump.e0 (a := mb) (b := st.next) (t := .condT) (by ob) (by ob)).c0 (x := st.next) (by ob)).a0
        (b := st.next) (p := s) (q := q) (ty := .other) (by ob)
      have h3 := ihL b hb _ ht i2.wf hux.tail ⟨NW.hdr w hnw (Nat.le_refl _) hs, NoT.hdr w (x := st.next) (Nat.le_refl _) hs⟩
      have kf := (procList_frame b _ i2.wf st.next (st.next + 1) (.inl rfl) (by ob)).1
      have hm3 := NoT.inv kf (x := merge) (by omega) (by omega) (NoT.cons hm (fun hh => absurd hh hs))
      have j := procList_inv0 b _ i2.wf
      have k := i2.trans j
      have hjn := j.next_le
      have hk := k.wf.cur
      have k2 := k.u0 (a := _) (b := merge) (t := .normal) hk (by ob)
      exact ihc _ mb merge hszs.2 k2.wf (by ob) (by ob) hu.right (by rw [edgeUnlessExit_stmts]; exact h3.nw)
        (by rw [edgeUnlessExit_stmts]; exact hm3)
    · rw [procCases_other _ _ _ _ _ hne]
      simp only
      have i1 := (w.i0.bump.e0 (a := mb) (b := st.next) (t := .condT) (by ob) (by ob)).c0 (x := st.next) (by ob)
      have h3 := ihS x hszs.1 _ ht i1.wf hu.left ⟨hnw, (show NoT t st.stmts st.next from NoT.of_wf w (Nat.le_refl _))⟩
      have kf := (procStmt_frame x _ i1.wf st.next (st.next + 1) (.inl rfl) (by ob)).1
      have hm3 := NoT.inv kf (x := merge) (by omega) (by omega) hm
      have j := procStmt_inv0 x _ i1.wf
      have k := i1.trans j
      have hjn := j.next_le
      have hk := k.wf.cur
      have k2 := k.u0 (a := _) (b := merge) (t := .normal) hk (by ob)
      exact ihc _ mb merge hszs.2 k2.wf (by ob) (by ob) hu.right (by rw [edgeUnlessExit_stmts]; exact h3.nw)
        (by rw [edgeUnlessExit_stmts]; exact hm3)

theorem match_jp (ihS : JSN t e N) (ihL : JLN t e N) (cases : List Stmt) (hsz : sizeL cases ≤ N) (s q : Nat) :
    JQS t e (.match_ s q cases) := by
  intro st ht w hu h
  rw [tlS_match] at hu
  have hs := hu.head1
  rw [procStmt_match, procMatch_eq]
  have hcur := w.cur
  have i1 := ((w.i0.bump.e0 (a := st.cur) (b := st.next) (t := .normal) (by ob) (by ob)).a0 (b := st.next) (p := s) (q := q)
    (ty := .other) (by ob)).bump
  have hnw1 : NW t e (bump (((bump st).edge st.cur st.next .normal).add st.next s q .other)).stmts := NW.hdr w h.nw (Nat.le_refl _) hs
  have hm1 : NoT t (bump (((bump st).edge st.cur st.next .normal).add st.next s q .other)).stmts (st.next + 1) :=
    NoT.hdr w (by omega) hs
  rcases cases with _ | ⟨c, cs⟩
  · simp only [List.isEmpty_nil, Bool.not_true, Bool.false_eq_true, ↓reduceIte]
    exact JP.mk' (by simp only [setCur_stmts, edge_stmts]) (setCur_cur ..) hnw1 hm1
  · simp only [List.isEmpty_cons, Bool.not_false, ↓reduceIte]
    obtain ⟨a1, a2⟩ := cases_jp ihS ihL ht (c :: cs) _ st.next (st.next + 1) hsz i1.wf (by ob) (by ob) hu.tail hnw1 hm1
    exact JP.mk' (by simp only [setCur_stmts, edge_stmts]) (setCur_cur ..) a1 a2

/-! ### try -/
theorem handlers_jp (ihS : JSN t e N) (ihL : JLN t e N) (ht : t ≠ 0) : ∀ (hs : List Stmt) (hbs : List Nat) (st : St) (after : Nat),
    sizeL hs ≤ N → WF st → (∀ hb ∈ hbs, hb < st.next) → after < st.next → hbs.Pairwise (· ≠ ·) → UT t e (tlL hs) → NW t e st.stmts →
    (∀ hb ∈ hbs, NoT t st.stmts hb) →
    NW t e (procHandlers st hs hbs after).stmts ∧
      ∀ x, x < st.next → x ∉ hbs → NoT t st.stmts x → NoT t (procHandlers st hs hbs after).stmts x := by
  intro hs
  induction hs with
  | nil =>
    intro hbs st after _ _ _ _ _ _ hnw _
    rw [procHandlers_nil_l]; exact ⟨hnw, fun _ _ _ h => h⟩
  | cons x hs ihh =>
    intro hbs st after hsz w hhb hal hpw hu hnw hN
    rcases hbs with _ | ⟨hb, hbs⟩
    · rw [procHandlers_nil_r]; exact ⟨hnw, fun _ _ _ h => h⟩
    rw [tlL_cons] at hu
    have hszs : x.size ≤ N ∧ sizeL hs ≤ N := by simp only [sizeL] at hsz; omega
    have hbl := hhb hb (List.mem_cons_self ..)
    have hNb := hN hb (List.mem_cons_self ..)
    obtain ⟨hp1, hp2⟩ := List.pairwise_cons.mp hpw
    rcases handler_cases x with ⟨s, q, b, rfl⟩ | hne
    · rw [procHandlers_handler]
      simp only
      have hux := hu.left
      rw [tlS_handler] at hux
      have hs' := hux.head1
      have hb' : sizeL b ≤ N := by have := hszs.1; simp only [Stmt.size] at this; omega
      have i2 := (w.i0.c0 (x := hb) hbl).a0 (b := hb) (p := s) (q := q) (ty := .other) (by ob)
      have h3 := ihL b hb' _ ht i2.wf hux.tail ⟨NW.add hnw hNb (fun hh => absurd hh hs'), NoT.cons hNb (fun hh => absurd hh hs')⟩
      have kf := (procList_frame b _ i2.wf hb st.next (.inl rfl) (by ob)).1
      have keep : ∀ y, y ≠ hb → y < st.next → NoT t st.stmts y → NoT t (procList ((setCur st hb).add hb s q .other) b).stmts y :=
        fun y hy hl hn => NoT.inv kf hy hl (NoT.cons hn (fun hh => absurd hh hs'))
      have j := procList_inv0 b _ i2.wf
      have k := i2.trans j
      have hjn := j.next_le
      have hk := k.wf.cur
      have k2 := k.u0 (a := _) (b := after) (t := .normal) hk (by ob)
      obtain ⟨r1, r2⟩ := ihh hbs _ after hszs.2 k2.wf (fun y hy => by have := hhb y (List.mem_cons_of_mem _ hy); ob) (by ob) hp2 hu.right
        (by rw [edgeUnlessExit_stmts]; exact h3.nw)
        (fun y hy => by
          rw [edgeUnlessExit_stmts]
          exact keep y (fun hh => hp1 y hy hh.symm) (hhb y (List.mem_cons_of_mem _ hy)) (hN y (List.mem_cons_of_mem _ hy)))
      refine ⟨r1, ?_⟩
      intro y hy hyn hn
      refine r2 y (by ob) (fun hh => hyn (List.mem_cons_of_mem _ hh)) ?_
      rw [edgeUnlessExit_stmts]
      exact keep y (fun hh => hyn (hh ▸ List.mem_cons_self ..)) hy hn
    · rw [procHandlers_other _ _ _ _ _ _ hne]
      simp only
      have i1 := w.i0.c0 (x := hb) hbl
      have h3 := ihS x hszs.1 _ ht i1.wf hu.left ⟨hnw, hNb⟩
      have kf := (procStmt_frame x _ i1.wf hb st.next (.inl rfl) (by ob)).1
      have keep : ∀ y, y ≠ hb → y < st.next → NoT t st.stmts y → NoT t (procStmt (setCur st hb) x).stmts y :=
        fun y hy hl hn => NoT.inv kf hy hl hn
      have j := procStmt_inv0 x _ i1.wf
      have k := i1.trans j
      have hjn := j.next_le
      have hk := k.wf.cur
      have k2 := k.u0 (a := _) (b := after) (t := .normal) hk (by ob)
      obtain ⟨r1, r2⟩ := ihh hbs _ after hszs.2 k2.wf (fun y hy => by have := hhb y (List.mem_cons_of_mem _ hy); ob) (by ob) hp2 hu.right
        (by rw [edgeUnlessExit_stmts]; exact h3.nw)
        (fun y hy => by
          rw [edgeUnlessExit_stmts]
          exact keep y (fun hh => hp1 y hy hh.symm) (hhb y (List.mem_cons_of_mem _ hy)) (hN y (List.mem_cons_of_mem _ hy)))
      refine ⟨r1, ?_⟩
      intro y hy hyn hn
      refine r2 y (by ob) (fun hh => hyn (List.mem_cons_of_mem _ hh)) ?_
      rw [edgeUnlessExit_stmts]
      exact keep y (fun hh => hyn (hh ▸ List.mem_cons_self ..)) hy hn

theorem tryMid_jp (ihS : JSN t e N) (ihL : JLN t e N) (ht : t ≠ 0) (body handlers : List Stmt) (hb : sizeL body ≤ N)
    (hh : sizeL handlers ≤ N) (hub : UT t e (tlL body)) (huh : UT t e (tlL handlers))
    (s3 : St) (w3 : WF s3) (tryB : Nat) (htl : tryB < s3.next)
    (cfin : Option Nat) (hcf : ∀ f, cfin = some f → f < s3.next) (excs0 : List Exc)
    (hx : ∀ cx ∈ excs0, (∀ f, cx.fin = some f → f < s3.next) ∧ ∀ h ∈ cx.handlers, h < s3.next)
    (nat ah : Nat) (hnat : nat < s3.next) (hah : ah < s3.next) (hnw : NW t e s3.stmts) (htb : NoT t s3.stmts tryB) :
    NW t e (tryMid s3 tryB cfin excs0 nat ah body handlers).stmts ∧
      ∀ x, x < s3.next → x ≠ tryB → NoT t s3.stmts x → NoT t (tryMid s3 tryB cfin excs0 nat ah body handlers).stmts x := by
  unfold tryMid
  simp only
  have hmem : ∀ h ∈ (List.range handlers.length).map (fun k => s3.next + k), s3.next ≤ h ∧ h < s3.next + handlers.length := by
    intro h hh
    obtain ⟨k, hk, rfl⟩ := List.mem_map.mp hh
    have := List.mem_range.mp hk
    omega
  have hpw : ((List.range handlers.length).map (fun k => s3.next + k)).Pairwise (· ≠ ·) := by
    rw [List.pairwise_map]
    exact (List.nodup_range (n := handlers.length)).imp (fun hab hh => hab (by omega))
  generalize (List.range handlers.length).map (fun k => s3.next + k) = hbs at hmem hpw ⊢
  have i4 := ((w3.i0.bumpN handlers.length).setExcs (x := { fin := cfin, handlers := hbs, processingFinally := false } :: excs0) (by
    intro cx hcx
    rcases List.mem_cons.mp hcx with rfl | hcx
    · exact ⟨fun f hf => by have := hcf f hf; ob, fun h hh => by have := hmem h hh; ob⟩
    · exact ⟨fun f hf => by have := (hx cx hcx).1 f hf; ob, fun h hh => by have := (hx cx hcx).2 h hh; ob⟩)).c0
      (x := tryB) (by ob)
  have h5 := ihL body hb _ ht i4.wf hub ⟨hnw, htb⟩
  have kf := (procList_frame body _ i4.wf tryB (s3.next + handlers.length) (.inl rfl) (by ob)).1
  have keep5 : ∀ y, y ≠ tryB → y < s3.next + handlers.length → NoT t s3.stmts y → NoT t
      (procList (setCur (setExcs (bumpN s3 handlers.length) ({ fin := cfin, handlers := hbs, processingFinally := false } :: excs0)) tryB) body).stmts y :=
    fun y hy hl hn => NoT.inv kf hy hl hn
  have j := procList_inv0 body _ i4.wf
  have k5 := i4.trans j
  have hjn := j.next_le
  have hk5 := k5.wf.cur
  have k5' := k5.u0 (a := _) (b := nat) (t := .normal) hk5 (by ob)
  obtain ⟨k6, _, hn6, _⟩ := foldl_edges_frame (c := 0) (n := 0) tryB .exc hbs _ k5' (.inr (Nat.zero_le _)) (by ob)
    (fun h hh => by have := hmem h hh; ob)
  obtain ⟨r1, r2⟩ := handlers_jp ihS ihL ht handlers hbs _ ah hh k6.wf (fun h hh => by have := hmem h hh; rw [hn6]; ob) (by rw [hn6]; ob)
    hpw huh (by rw [foldl_edge_stmts, edgeUnlessExit_stmts]; exact h5.nw)
    (fun h hh => by
      have := hmem h hh
      rw [foldl_edge_stmts, edgeUnlessExit_stmts]
      exact keep5 h (by omega) (by omega) (NoT.of_wf w3 (by omega)))
  refine ⟨r1, ?_⟩
  intro y hy hyn hn
  refine r2 y (by rw [hn6]; ob) (fun hh => by have := hmem y hh; omega) ?_
  rw [foldl_edge_stmts, edgeUnlessExit_stmts]
  exact keep5 y hyn (by omega) hn

theorem tryElse_jp (ihL : JLN t e N) (ht : t ≠ 0) (orelse : List Stmt) (ho : sizeL orelse ≤ N) (hu : UT t e (tlL orelse)) (s7 : St)
    (w7 : WF s7) (hasElse : Bool) (elseB ah : Nat) (he : hasElse = true → elseB < s7.next) (hnw : NW t e s7.stmts)
    (hne : hasElse = true → NoT t s7.stmts elseB) :
    NW t e (tryElse s7 hasElse elseB ah orelse).stmts ∧
      ∀ x, x < s7.next → (hasElse = true → x ≠ elseB) → NoT t s7.stmts x → NoT t (tryElse s7 hasElse elseB ah orelse).stmts x := by
  unfold tryElse
  cases hasElse
  · exact ⟨hnw, fun _ _ _ h => h⟩
  · simp only [↓reduceIte, edgeUnlessExit_stmts]
    have wS := (w7.i0.c0 (x := elseB) (he rfl)).wf
    have h8 := ihL orelse ho _ ht wS hu ⟨hnw, hne rfl⟩
    have kf := (procList_frame orelse _ wS elseB s7.next (.inl rfl) (Nat.le_refl _)).1
    exact ⟨h8.nw, fun x hx hxe hn => NoT.inv kf (hxe trivial) hx hn⟩

theorem tryFin_jp (ihL : JLN t e N) (ht : t ≠ 0) (fin : List Stmt) (hf : sizeL fin ≤ N) (hu : UT t e (tlL fin)) (s8 : St) (w8 : WF s8)
    (hasFin : Bool) (finB exitBk : Nat) (ctx : Exc) (excs0 : List Exc) (hex : s8.excs = ctx :: excs0)
    (hfb : hasFin = true → finB < s8.next) (hnw : NW t e s8.stmts) (hnf : hasFin = true → NoT t s8.stmts finB) :
    NW t e (tryFin s8 hasFin finB exitBk ctx excs0 fin).stmts ∧
      ∀ x, x < s8.next → (hasFin = true → x ≠ finB) → NoT t s8.stmts x → NoT t (tryFin s8 hasFin finB exitBk ctx excs0 fin).stmts x := by
  unfold tryFin
  cases hasFin
  · exact ⟨hnw, fun _ _ _ h => h⟩
  · simp only [↓reduceIte, sp_finallyPropagation_stmts, edgeUnlessExit_stmts, setExcs_stmts]
    have hb := w8.excs
    rw [hex] at hb
    have i1 := (w8.i0.c0 (x := finB) (hfb rfl)).setExcs (x := { ctx with processingFinally := true } :: excs0) (by
      intro cx hcx
      rcases List.mem_cons.mp hcx with rfl | hcx
      · exact hb ctx (List.mem_cons_self ..)
      · exact hb cx (List.mem_cons_of_mem _ hcx))
    have h9 := ihL fin hf _ ht i1.wf hu ⟨hnw, hnf rfl⟩
    have kf := (procList_frame fin _ i1.wf finB s8.next (.inl rfl) (Nat.le_refl _)).1
    exact ⟨h9.nw, fun x hx hxe hn => NoT.inv kf (hxe trivial) hx hn⟩

theorem tryPre_vals (st : St) (hasFin hasElse : Bool) :
    (hasFin = true → st.next + 2 ≤ (tryPre st hasFin hasElse).2.1) ∧ (hasElse = true → st.next + 2 ≤ (tryPre st hasFin hasElse).2.2) ∧
      (hasFin = true → hasElse = true → (tryPre st hasFin hasElse).2.1 < (tryPre st hasFin hasElse).2.2) := by
  cases hasFin <;> cases hasElse <;> simp [tryPre]

theorem jp_try_final {s9 : St} {x : Nat} {ex : List Exc} : JP t e (setExcs (setCur s9 x) ex) ↔ NW t e s9.stmts ∧ NoT t s9.stmts x :=
  ⟨fun h => ⟨h.nw, h.cur⟩, fun h => ⟨h.1, h.2⟩⟩

theorem try_jp (ihS : JSN t e N) (ihL : JLN t e N) (body handlers orelse fin : List Stmt) (hb : sizeL body ≤ N) (hh : sizeL handlers ≤ N)
    (ho : sizeL orelse ≤ N) (hf : sizeL fin ≤ N) (s q : Nat) : JQS t e (.try_ s q body handlers orelse fin) := by
  intro st ht w hu h
  rw [tlS_try] at hu
  rw [procStmt_try, procTry_eq']
  simp only
  refine jp_try_final.mpr ?_
  generalize (!fin.isEmpty) = hasFin
  generalize (!orelse.isEmpty) = hasElse
  obtain ⟨k3, sm3, hn3, hF, hE⟩ := tryPre_frame (c := 0) (n := 0) st w (.inr (Nat.zero_le _)) (Nat.zero_le _) hasFin hasElse
  obtain ⟨vF, vE, vFE⟩ := tryPre_vals st hasFin hasElse
  have hs3 : (tryPre st hasFin hasElse).1.stmts = st.stmts := tryPre_stmts ..
  generalize tryPre st hasFin hasElse = p at *
  obtain ⟨s3, finB, elseB⟩ := p
  simp only at *
  have hcf : ∀ f, (if hasFin = true then some finB else none) = some f → f < s3.next := by
    intro f hf
    cases hasFin
    · simp at hf
    · simp only [↓reduceIte, Option.some.injEq] at hf; subst hf; exact (hF rfl).2
  have hah : (if hasFin = true then finB else st.next + 1) < s3.next := by
    cases hasFin
    · simp only [Bool.false_eq_true, ↓reduceIte]; omega
    · simp only [↓reduceIte]; exact (hF rfl).2
  have hnat : (if hasElse = true then elseB else if hasFin = true then finB else st.next + 1) < s3.next := by
    cases hasElse
    · simp only [Bool.false_eq_true, ↓reduceIte]; exact hah
    · simp only [↓reduceIte]; exact (hE rfl).2
  generalize (if hasFin = true then some finB else none) = cfin at *
  generalize (if hasElse = true then elseB else if hasFin = true then finB else st.next + 1) = nat at *
  generalize (if hasFin = true then finB else st.next + 1) = ah at *
  have hcur := w.cur
  -- every block `≥ next` of the entry state holds no record
  have fresh : ∀ x, st.next ≤ x → NoT t s3.stmts x := fun x hx => by rw [hs3]; exact NoT.of_wf w hx
  obtain ⟨k7, l7, x7, hn7⟩ := tryMid_frame (frame_all N).1 (frame_all N).2 body handlers hb hh k3 (Nat.zero_le _) st.next
    (.inr (Nat.zero_le _)) (by omega) cfin hcf st.excs (w.excs_le (by omega)) nat ah hnat hah
  obtain ⟨nw7, keep7⟩ := tryMid_jp ihS ihL ht body handlers hb hh hu.left.left.left hu.left.left.right s3 k3.wf st.next (by omega)
    cfin hcf st.excs (w.excs_le (by omega)) nat ah hnat hah (by rw [hs3]; exact h.nw) (fresh _ (Nat.le_refl _))
  obtain ⟨k8, sm8, hn8⟩ := tryElse_frame (frame_all N).2 orelse ho k7 (Nat.zero_le _) hasElse elseB ah
    (fun h => by have := hE h; omega) (by omega)
  obtain ⟨nw8, keep8⟩ := tryElse_jp ihL ht orelse ho hu.left.right _ k7.wf hasElse elseB ah (fun h => by have := hE h; omega) nw7
    (fun h => keep7 elseB (hE h).2 (by have := vE h; omega) (fresh _ (by have := vE h; omega)))
  obtain ⟨nw9, keep9⟩ := tryFin_jp ihL ht fin hf hu.right _ k8.wf hasFin finB (st.next + 1)
    { fin := cfin, handlers := (List.range handlers.length).map (fun k => s3.next + k), processingFinally := false } st.excs
    (by rw [sm8.excs, x7]) (fun h => by have := hF h; omega) nw8
    (fun h => keep8 finB (by have := hF h; omega) (fun h' => by have := vFE h h'; omega)
      (keep7 finB (hF h).2 (by have := vF h; omega) (fresh _ (by have := vF h; omega))))
  exact ⟨nw9, keep9 (st.next + 1) (by omega) (fun h => by have := vF h; omega)
    (keep8 (st.next + 1) (by omega) (fun h => by have := vE h; omega) (keep7 (st.next + 1) (by omega) (by omega) (fresh _ (by omega))))⟩

/-! ### the main induction -/
theorem JLN_succ (ihS : JSN t e N) (ihL : JLN t e N) : JLN t e (N + 1) := by
  intro ss hsz st ht w hu h
  rcases ss with _ | ⟨x, xs⟩
  · rw [procList_nil]; exact h
  · have hszs : x.size ≤ N ∧ sizeL xs ≤ N := by simp only [sizeL] at hsz; omega
    rw [tlL_cons] at hu
    rw [procList_cons]
    exact ihL xs hszs.2 _ ht (procStmt_inv0 x st w).wf hu.right (ihS x hszs.1 st ht w hu.left h)

theorem JSN_succ (ihS : JSN t e N) (ihL : JLN t e N) : JSN t e (N + 1) := by
  intro x hsz
  cases x with
  | simple s q c h => exact leaf_jp _ s q (okSC_simple_t s q c h) (spansS_simple ..) (tlS_simple ..)
  | ret s q c h => exact leaf_jp _ s q (okSC_ret_t s q c h) (spansS_ret ..) (tlS_ret ..)
  | brk s q => exact leaf_jp _ s q (okSC_brk ..) (spansS_brk ..) (tlS_brk ..)
  | cont s q => exact leaf_jp _ s q (okSC_cont ..) (spansS_cont ..) (tlS_cont ..)
  | raise s q => exact leaf_jp _ s q (okSC_raise_t s q) (spansS_raise ..) (tlS_raise ..)
  | def_ s q b =>
    intro st ht w hu h
    rw [tlS_def] at hu
    rw [procStmt_def]
    exact add_jp st s q .other hu.head1 h
  | ite s q a b => simp only [Stmt.size] at hsz; exact ite_jp ihL a b (by omega) (by omega) s q
  | elifc s q a b => simp only [Stmt.size] at hsz; exact elifc_jp ihL a b (by omega) (by omega) s q
  | elsec s q a =>
    simp only [Stmt.size] at hsz
    intro st ht w hu h
    rw [tlS_elsec] at hu
    rw [procStmt_elsec]
    exact ihL a (by omega) st ht w hu h
  | loop s q a b => simp only [Stmt.size] at hsz; exact loop_jp ihL a b (by omega) (by omega) s q
  | try_ s q a hs c d =>
    simp only [Stmt.size] at hsz
    exact try_jp ihS ihL a hs c d (by omega) (by omega) (by omega) (by omega) s q
  | handler s q a =>
    intro st ht w hu h
    rw [tlS_handler] at hu
    rw [procStmt_handler]
    exact add_jp st s q .other hu.head1 h
  | with_ s q a => simp only [Stmt.size] at hsz; exact with_jp ihL a (by omega) s q
  | match_ s q a => simp only [Stmt.size] at hsz; exact match_jp ihS ihL a (by omega) s q
  | case_ s q a =>
    intro st ht w hu h
    rw [tlS_case] at hu
    rw [procStmt_case]
    exact add_jp st s q .other hu.head1 h
  | class_ s q a => simp only [Stmt.size] at hsz; exact class_jp ihL a (by omega) s q

theorem jp_all (t e : Nat) : ∀ N, JSN t e N ∧ JLN t e N := by
  intro N
  induction N with
  | zero =>
    constructor
    · intro x hsz; have := Stmt.size_pos x; omega
    · intro ss hsz st ht w hu h
      rcases ss with _ | ⟨x, xs⟩
      · rw [procList_nil]; exact h
      · simp only [sizeL] at hsz; omega
  | succ N ih => exact ⟨JSN_succ ih.1 ih.2, JLN_succ ih.1 ih.2⟩

/-- **the test record of an `if` statement stays the newest record of its block** — statement lists, from every well-formed state -/
theorem procList_jp (t e : Nat) (ss : List Stmt) : JQL t e ss := (jp_all t e (sizeL ss)).2 ss (Nat.le_refl _)

end PV.CFGSound

#print axioms PV.CFGSound.procList_jp
