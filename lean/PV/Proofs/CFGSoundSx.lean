import PV.Proofs.CFGSoundDefs
import PV.Properties.C01
/-!
Part B — unfolding equations of the static summary `sxL` / `sxS` / `sxAlts` and of the fragment predicate
`okL` / `okS` / `okCases`, and `live_le_sx`: the summary is at least as generous as the semantic
over-approximation `PV.Py.live`.
-/
namespace PV.CFGSound
open PV.CFG PV.Py

theorem sxL_nil : sxL [] = { ex := { normal := true } } := by rw [sxL]
theorem sxL_cons (x : Stmt) (xs : List Stmt) :
    sxL (x :: xs) =
      if (sxS x).ex.normal then
        { lines := (sxS x).lines ++ (sxL xs).lines, skipped := (sxS x).skipped ++ (sxL xs).skipped,
          ex := { normal := (sxL xs).ex.normal, ret := (sxS x).ex.ret || (sxL xs).ex.ret, brk := (sxS x).ex.brk || (sxL xs).ex.brk,
                  cont := (sxS x).ex.cont || (sxL xs).ex.cont, raise := (sxS x).ex.raise || (sxL xs).ex.raise } }
      else sxS x := by
  rw [sxL]
theorem sxAlts_nil : sxAlts [] = {} := by rw [sxAlts]
theorem sxAlts_cons (x : Stmt) (xs : List Stmt) :
    sxAlts (x :: xs) = {
      lines := (sxS x).lines ++ (sxAlts xs).lines, skipped := (sxS x).skipped ++ (sxAlts xs).skipped,
      ex := (sxS x).ex.union (sxAlts xs).ex } := by
  rw [sxAlts]

theorem sxS_simple (s e : Nat) (c : List Bool) (h : Bool) : sxS (.simple s e c h) = { lines := [s], ex := { normal := true } } := by rw [sxS]
theorem sxS_def (s e : Nat) (b : List Stmt) : sxS (.def_ s e b) = { lines := [s], ex := { normal := true } } := by rw [sxS]
theorem sxS_ret (s e : Nat) (c : List Bool) (h : Bool) : sxS (.ret s e c h) = { lines := [s], ex := { ret := true } } := by rw [sxS]
theorem sxS_brk (s e : Nat) : sxS (.brk s e) = { lines := [s], ex := { brk := true } } := by rw [sxS]
theorem sxS_cont (s e : Nat) : sxS (.cont s e) = { lines := [s], ex := { cont := true } } := by rw [sxS]
theorem sxS_raise (s e : Nat) : sxS (.raise s e) = { lines := [s], ex := { raise := true } } := by rw [sxS]
theorem sxS_ite (s e : Nat) (a b : List Stmt) :
    sxS (.ite s e a b) = {
      lines := s :: (sxL a).lines ++ (sxL b).lines, skipped := (sxL a).skipped ++ (sxL b).skipped,
      ex := (sxL a).ex.union (sxL b).ex } := by rw [sxS]
theorem sxS_elifc (s e : Nat) (a b : List Stmt) :
    sxS (.elifc s e a b) = {
      lines := (sxL a).lines ++ (sxL b).lines, skipped := s :: (sxL a).skipped ++ (sxL b).skipped,
      ex := (sxL a).ex.union (sxL b).ex } := by rw [sxS]
theorem sxS_elsec (s e : Nat) (a : List Stmt) : sxS (.elsec s e a) = sxL a := by rw [sxS]
theorem sxS_loop (s e : Nat) (a b : List Stmt) :
    sxS (.loop s e a b) = {
      lines := s :: (sxL a).lines ++ (sxL b).lines, skipped := (sxL a).skipped ++ (sxL b).skipped,
      ex := {
              normal := (sxL a).ex.brk || (sxL b).ex.normal, ret := (sxL a).ex.ret || (sxL b).ex.ret, brk := (sxL b).ex.brk,
              cont := (sxL b).ex.cont, raise := (sxL a).ex.raise || (sxL b).ex.raise } } := by rw [sxS]
theorem sxS_with (s e : Nat) (a : List Stmt) :
    sxS (.with_ s e a) = { lines := s :: (sxL a).lines, skipped := (sxL a).skipped, ex := { (sxL a).ex with normal := true } } := by rw [sxS]
theorem sxS_match (s e : Nat) (cs : List Stmt) :
    sxS (.match_ s e cs) = { lines := s :: (sxAlts cs).lines, skipped := (sxAlts cs).skipped, ex := { (sxAlts cs).ex with normal := true } } := by
  rw [sxS]
theorem sxS_case (s e : Nat) (a : List Stmt) : sxS (.case_ s e a) = { sxL a with lines := s :: (sxL a).lines } := by rw [sxS]
theorem sxS_class (s e : Nat) (a : List Stmt) : sxS (.class_ s e a) = { sxL a with lines := s :: (sxL a).lines } := by rw [sxS]
theorem sxS_handler (s e : Nat) (a : List Stmt) : sxS (.handler s e a) = { sxL a with lines := s :: (sxL a).lines } := by rw [sxS]

theorem okL_nil (il : Bool) : okL il [] = true := by rw [okL]
theorem okL_cons (il : Bool) (x : Stmt) (xs : List Stmt) : okL il (x :: xs) = (okS il x && okL il xs) := by rw [okL]
theorem okS_brk (il : Bool) (s e : Nat) : okS il (.brk s e) = il := by rw [okS]
theorem okS_cont (il : Bool) (s e : Nat) : okS il (.cont s e) = il := by rw [okS]
theorem okS_ite (il : Bool) (s e : Nat) (a b : List Stmt) : okS il (.ite s e a b) = (okL il a && okL il b) := by rw [okS]
theorem okS_elifc (il : Bool) (s e : Nat) (a b : List Stmt) : okS il (.elifc s e a b) = (okL il a && okL il b) := by rw [okS]
theorem okS_elsec (il : Bool) (s e : Nat) (a : List Stmt) : okS il (.elsec s e a) = okL il a := by rw [okS]
theorem okS_loop (il : Bool) (s e : Nat) (a b : List Stmt) : okS il (.loop s e a b) = (okL true a && okL il b) := by rw [okS]
theorem okS_with (il : Bool) (s e : Nat) (a : List Stmt) : okS il (.with_ s e a) = okL il a := by rw [okS]
theorem okS_match (il : Bool) (s e : Nat) (cs : List Stmt) : okS il (.match_ s e cs) = okCases il cs := by rw [okS]
theorem okS_class (il : Bool) (s e : Nat) (a : List Stmt) : okS il (.class_ s e a) = okL false a := by rw [okS]
theorem okS_try (il : Bool) (s e : Nat) (a b c d : List Stmt) : okS il (.try_ s e a b c d) = false := by rw [okS]
theorem okS_handler (il : Bool) (s e : Nat) (a : List Stmt) : okS il (.handler s e a) = false := by rw [okS]
theorem okS_case (il : Bool) (s e : Nat) (a : List Stmt) : okS il (.case_ s e a) = false := by rw [okS]

theorem okCases_nil (il : Bool) : okCases il [] = true := by rw [okCases]
theorem okCases_case (il : Bool) (s e : Nat) (a cs : List Stmt) :
    okCases il (.case_ s e a :: cs) = (okL il a && okCases il cs) := by rw [okCases]
theorem okCases_cons {il : Bool} {x : Stmt} {cs : List Stmt} (h : okCases il (x :: cs) = true) :
    ∃ s e a, x = .case_ s e a ∧ okL il a = true ∧ okCases il cs = true := by
  cases x
  case case_ s e a =>
    rw [okCases_case, Bool.and_eq_true] at h
    exact ⟨s, e, a, rfl, h.1, h.2⟩
  all_goals (rw [okCases] at h <;> first | cases h | (intro _ _ _ h; cases h))

/-- `sxL [x]` and `sxS x` agree -/
theorem sxL_single (x : Stmt) : (sxL [x]).lines = (sxS x).lines ∧ (sxL [x]).skipped = (sxS x).skipped ∧ (sxL [x]).ex = (sxS x).ex := by
  rw [sxL_cons, sxL_nil]
  split
  · next h =>
    refine ⟨by simp, by simp, ?_⟩
    rcases hx : (sxS x).ex with ⟨a, b, c, d, e⟩
    rw [hx] at h
    simp only at h
    subst h
    simp
  · exact ⟨rfl, rfl, rfl⟩

/-! ### `live ≤ sx` -/
def Lsub (A B C : List Nat) : Prop := ∀ l ∈ A, l ∈ B ∨ l ∈ C
theorem Lsub.nil {B C : List Nat} : Lsub [] B C := fun _ h => by cases h
theorem Lsub.append {A₁ A₂ B₁ B₂ C₁ C₂ : List Nat} (h₁ : Lsub A₁ B₁ C₁) (h₂ : Lsub A₂ B₂ C₂) : Lsub (A₁ ++ A₂) (B₁ ++ B₂) (C₁ ++ C₂) := by
  intro l hl
  rcases List.mem_append.mp hl with h | h
  · rcases h₁ l h with h | h
    · exact .inl (List.mem_append.mpr (.inl h))
    · exact .inr (List.mem_append.mpr (.inl h))
  · rcases h₂ l h with h | h
    · exact .inl (List.mem_append.mpr (.inr h))
    · exact .inr (List.mem_append.mpr (.inr h))
theorem Lsub.cons {A B C : List Nat} (s : Nat) (h : Lsub A B C) : Lsub (s :: A) (s :: B) C := by
  intro l hl
  rcases List.mem_cons.mp hl with rfl | h'
  · exact .inl List.mem_cons_self
  · rcases h l h' with h | h
    · exact .inl (List.mem_cons_of_mem _ h)
    · exact .inr h
theorem Lsub.cons_skip {A B C : List Nat} (s : Nat) (h : Lsub A B C) : Lsub (s :: A) B (s :: C) := by
  intro l hl
  rcases List.mem_cons.mp hl with rfl | h'
  · exact .inr List.mem_cons_self
  · rcases h l h' with h | h
    · exact .inl h
    · exact .inr (List.mem_cons_of_mem _ h)
theorem Lsub.left {A B C : List Nat} (h : ∀ l ∈ A, l ∈ B) : Lsub A B C := fun l hl => .inl (h l hl)

theorem or_imp {a b c d : Bool} (h1 : a = true → c = true) (h2 : b = true → d = true) : (a || b) = true → (c || d) = true := by
  cases a <;> cases b <;> simp_all

structure LE (a : PV.Py.R) (b : SX) : Prop where
  lines : Lsub a.lines b.lines b.skipped
  normal : a.outs.normal = true → b.ex.normal = true
  brk : a.outs.brk = true → b.ex.brk = true
  cont : a.outs.cont = true → b.ex.cont = true

theorem le_cases {N : Nat} (il : Bool) (ihL : ∀ ss, sizeL ss ≤ N → ∀ il, okL il ss = true → LE (live ss) (sxL ss)) :
    ∀ cs : List Stmt, sizeL cs ≤ N →
    okCases il cs = true → LE (liveAlts cs) (sxAlts cs) ∧ ∀ l ∈ cs.map Stmt.line, l ∈ (sxAlts cs).lines := by
  intro cs
  induction cs with
  | nil =>
    intro _ _
    rw [liveAlts, sxAlts_nil]
    exact ⟨⟨Lsub.nil, (fun h => by cases h), (fun h => by cases h), (fun h => by cases h)⟩, (fun l h => by cases h)⟩
  | cons x cs ih =>
    intro hsz hok
    obtain ⟨s, e, a, rfl, h1, h2⟩ := okCases_cons hok
    simp only [sizeL, Stmt.size] at hsz
    obtain ⟨hle, hl⟩ := ih (by omega) h2
    have ha := ihL a (by omega) il h1
    rw [liveAlts, sxAlts_cons, liveS, sxS_case]
    refine ⟨⟨(ha.lines.cons s).append hle.lines, ?_, ?_, ?_⟩, ?_⟩
    · exact or_imp ha.normal hle.normal
    · exact or_imp ha.brk hle.brk
    · exact or_imp ha.cont hle.cont
    · intro l hm
      simp only [List.map_cons, List.mem_cons, Stmt.line] at hm
      rcases hm with rfl | hm
      · exact List.mem_append.mpr (.inl List.mem_cons_self)
      · exact List.mem_append.mpr (.inr (hl l hm))

theorem ff {P : Prop} (h : false = true) : P := by cases h

theorem le_stmt {N : Nat} (ihL : ∀ ss, sizeL ss ≤ N → ∀ il, okL il ss = true → LE (live ss) (sxL ss)) (x : Stmt) (hsz : x.size ≤ N + 1)
    (il : Bool) (hok : okS il x = true) : LE (liveS x) (sxS x) := by
  cases x with
  | simple s e c h => rw [liveS, sxS_simple]; exact ⟨(Lsub.nil).cons s, fun _ => rfl, ff, ff⟩
  | def_ s e b => rw [liveS, sxS_def]; exact ⟨(Lsub.nil).cons s, fun _ => rfl, ff, ff⟩
  | ret s e c h => rw [liveS, sxS_ret]; exact ⟨(Lsub.nil).cons s, ff, ff, ff⟩
  | brk s e => rw [liveS, sxS_brk]; exact ⟨(Lsub.nil).cons s, ff, fun _ => rfl, ff⟩
  | cont s e => rw [liveS, sxS_cont]; exact ⟨(Lsub.nil).cons s, ff, ff, fun _ => rfl⟩
  | raise s e => rw [liveS, sxS_raise]; exact ⟨(Lsub.nil).cons s, ff, ff, ff⟩
  | ite s e a b =>
    simp only [Stmt.size] at hsz
    rw [okS_ite, Bool.and_eq_true] at hok
    have ha := ihL a (by omega) il hok.1
    have hb := ihL b (by omega) il hok.2
    rw [liveS, sxS_ite]
    exact ⟨(ha.lines.append hb.lines).cons s, or_imp ha.normal hb.normal, or_imp ha.brk hb.brk, or_imp ha.cont hb.cont⟩
  | elifc s e a b =>
    simp only [Stmt.size] at hsz
    rw [okS_elifc, Bool.and_eq_true] at hok
    have ha := ihL a (by omega) il hok.1
    have hb := ihL b (by omega) il hok.2
    rw [liveS, sxS_elifc]
    exact ⟨(ha.lines.append hb.lines).cons_skip s, or_imp ha.normal hb.normal, or_imp ha.brk hb.brk, or_imp ha.cont hb.cont⟩
  | elsec s e a =>
    simp only [Stmt.size] at hsz
    rw [okS_elsec] at hok
    rw [liveS, sxS_elsec]
    exact ihL a (by omega) il hok
  | loop s e a b =>
    simp only [Stmt.size] at hsz
    rw [okS_loop, Bool.and_eq_true] at hok
    have ha := ihL a (by omega) true hok.1
    have hb := ihL b (by omega) il hok.2
    rw [liveS, sxS_loop]
    exact ⟨(ha.lines.append hb.lines).cons s, or_imp ha.brk hb.normal, hb.brk, hb.cont⟩
  | try_ s e a b c d => rw [okS_try] at hok; cases hok
  | handler s e a => rw [okS_handler] at hok; cases hok
  | with_ s e a =>
    simp only [Stmt.size] at hsz
    rw [okS_with] at hok
    have ha := ihL a (by omega) il hok
    rw [liveS, sxS_with]
    exact ⟨ha.lines.cons s, fun _ => rfl, ha.brk, ha.cont⟩
  | match_ s e cs =>
    simp only [Stmt.size] at hsz
    rw [okS_match] at hok
    obtain ⟨hle, hl⟩ := le_cases il ihL cs (by omega) hok
    rw [liveS, sxS_match]
    refine ⟨?_, fun _ => rfl, ?_, ?_⟩
    · have h1 : Lsub (cs.map Stmt.line ++ (liveAlts cs).lines) (sxAlts cs).lines (sxAlts cs).skipped := by
        intro l hm
        rcases List.mem_append.mp hm with h | h
        · exact .inl (hl l h)
        · exact hle.lines l h
      exact h1.cons s
    · intro h; exact hle.brk (by simpa [Outs.union] using h)
    · intro h; exact hle.cont (by simpa [Outs.union] using h)
  | case_ s e a => rw [okS_case] at hok; cases hok
  | class_ s e a =>
    simp only [Stmt.size] at hsz
    rw [okS_class] at hok
    have ha := ihL a (by omega) false hok
    rw [liveS, sxS_class]
    refine ⟨ha.lines.cons s, ?_, ?_, ?_⟩
    · intro h; exact ha.normal (by simpa [Outs.union] using h)
    · intro h; exact ha.brk (by simpa [Outs.union] using h)
    · intro h; exact ha.cont (by simpa [Outs.union] using h)

theorem le_all : ∀ N, ∀ ss, sizeL ss ≤ N → ∀ il, okL il ss = true → LE (live ss) (sxL ss) := by
  intro N
  induction N with
  | zero =>
    intro ss hsz il _
    rcases ss with _ | ⟨x, xs⟩
    · rw [PV.C01.live_nil, sxL_nil]; exact ⟨Lsub.nil, fun _ => rfl, ff, ff⟩
    · simp only [sizeL] at hsz; omega
  | succ N ih =>
    intro ss hsz il hok
    rcases ss with _ | ⟨x, xs⟩
    · rw [PV.C01.live_nil, sxL_nil]; exact ⟨Lsub.nil, fun _ => rfl, ff, ff⟩
    · simp only [sizeL] at hsz
      rw [okL_cons, Bool.and_eq_true] at hok
      have hx := le_stmt ih x (by omega) il hok.1
      have hxs := ih xs (by omega) il hok.2
      rw [PV.C01.live_cons, sxL_cons]
      by_cases hn : (liveS x).outs.normal = true
      · rw [if_pos hn, if_pos (hx.normal hn)]
        exact ⟨hx.lines.append hxs.lines, fun h => hxs.normal (by simpa [Outs.union, Outs.nonNormal] using h),
          or_imp hx.brk hxs.brk, or_imp hx.cont hxs.cont⟩
      · rw [if_neg hn]
        by_cases hs : (sxS x).ex.normal = true
        · rw [if_pos hs]
          refine ⟨?_, fun h => absurd h hn, fun h => ?_, fun h => ?_⟩
          · intro l hl
            rcases hx.lines l hl with h | h
            · exact .inl (List.mem_append.mpr (.inl h))
            · exact .inr (List.mem_append.mpr (.inl h))
          · show ((sxS x).ex.brk || (sxL xs).ex.brk) = true
            rw [hx.brk h]; rfl
          · show ((sxS x).ex.cont || (sxL xs).ex.cont) = true
            rw [hx.cont h]; rfl
        · rw [if_neg hs]; exact hx

theorem live_le_sx : ∀ (ss : List Stmt) (il : Bool), okL il ss = true →
    (∀ l ∈ (live ss).lines, l ∈ (sxL ss).lines ∨ l ∈ (sxL ss).skipped) ∧
    ((live ss).outs.normal = true → (sxL ss).ex.normal = true) ∧ ((live ss).outs.brk = true → (sxL ss).ex.brk = true) ∧
    ((live ss).outs.cont = true → (sxL ss).ex.cont = true) := by
  intro ss il hok
  have h := le_all (sizeL ss) ss (Nat.le_refl _) il hok
  exact ⟨h.lines, h.normal, h.brk, h.cont⟩

end PV.CFGSound
