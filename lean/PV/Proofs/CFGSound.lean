import PV.Proofs.CFGSoundLib
import PV.Proofs.CFGSoundSx
import PV.Proofs.ReachComplete
/-!
Part B of the mirror's soundness proof (stage S2: the fragment `okL`, no `try`): the builder realises the
static summary `sxL` — every line of `(sxL body).lines` gets a statement record in a block that is
reachable in the final graph (`sound_list`, `build_sound`) — and, with `C01_live_sound` and `live_le_sx`,
every line that can execute is either an `elif` head (stored without location) or has such a record
(`mirror_sound`).
-/
namespace PV.CFGSound
open PV.CFG PV.Py

section sound
variable {E : List Edge} {S : List SRec}

theorem good_of {b p q : Nat} {ty : Ty} (h : ({ blk := b, s := p, e := q, ty := ty } : SRec) ∈ S) (hr : R E b) : Good E S p :=
  ⟨_, h, rfl, hr⟩

/-! ### comprehension -/
theorem go_cov (s e : Nat) : ∀ (cs : List Bool) (st : St) (cp : Nat), Cov E S (procComp.go s e cs st cp).1 → Cov E S st
  | [], st, cp, h => by rw [go_nil] at h; exact h
  | hasTest :: rest, st, cp, h => by
    rw [go_cons] at h
    have h2 := go_cov s e rest _ _ h
    cases hasTest <;> simp only [Bool.false_eq_true, ↓reduceIte, cov_edge, cov_add, cov_bump] at h2 <;> simp only [h2]

theorem go_sound (s e : Nat) : ∀ (cs : List Bool) (st : St) (cp x : Nat), x < st.next → cp ≠ x → Untouched st x →
    Cov E S (procComp.go s e cs st cp).1 → R E cp →
    R E (procComp.go s e cs st cp).2 ∧ Untouched (procComp.go s e cs st cp).1 x ∧ (procComp.go s e cs st cp).2 ≠ x
  | [], st, cp, x, _, hcp, hu, hcov, hr => by
    rw [go_nil] at hcov ⊢
    exact ⟨hr, hu, hcp⟩
  | hasTest :: rest, st, cp, x, hx, hcp, hu, hcov, hr => by
    rw [go_cons] at hcov ⊢
    have h2 := go_cov s e rest _ _ hcov
    cases hasTest
    · simp only [Bool.false_eq_true, ↓reduceIte] at h2 hcov ⊢
      refine go_sound s e rest _ st.next x (by ob) (by omega) ?_ hcov (R.step hr (h2.1 (cp, st.next, .normal) (by simp)))
      simp only [unt_edge, unt_add, unt_bump]
      exact ⟨by omega, by omega, by omega, by omega, by omega, hcp, hu⟩
    · simp only [↓reduceIte] at h2 hcov ⊢
      refine go_sound s e rest _ st.next x (by ob) (by omega) ?_ hcov (R.step hr (h2.1 (cp, st.next, .normal) (by simp)))
      simp only [unt_edge, unt_add, unt_bump]
      exact ⟨by omega, by omega, by omega, by omega, by omega, by omega, by omega, by omega, hcp, hu⟩

theorem comp_sound (st : St) (s e : Nat) (comp : List Bool) (w : WF st) (hcov : Cov E S (procComp st s e comp)) (hr : R E st.cur) :
    Cov E S st ∧ Entry E (procComp st s e comp) := by
  rw [procComp_eq] at hcov ⊢
  simp only [cov_setCur] at hcov
  have hc1 : Cov E S (procComp.go s e comp (bump (((bump st).edge st.cur st.next .normal).add st.next s e .other)) st.next).1 := by
    split at hcov <;> exact ((cov_edge ..).mp hcov).2
  have hc0 := go_cov s e comp _ _ hc1
  have hcur := w.cur
  have hu : Untouched (bump (((bump st).edge st.cur st.next .normal).add st.next s e .other)) (st.next + 1) := by
    simp only [unt_bump, unt_edge, unt_add]
    exact ⟨by omega, by omega, w.untouched (by omega)⟩
  obtain ⟨g1, g2, g3⟩ := go_sound s e comp _ st.next (st.next + 1) (by ob) (by omega) hu hc1
    (R.step hr (hc0.1 (st.cur, st.next, .normal) (by simp)))
  simp only [cov_bump, cov_add, cov_edge] at hc0
  refine ⟨hc0.2.2, ?_⟩
  apply Entry.mk'
  · simp only [setCur_cur]
    split at hcov
    · exact R.step g1 ((cov_edge ..).mp hcov).1
    · next h =>
      have : (procComp.go s e comp (bump (((bump st).edge st.cur st.next .normal).add st.next s e .other)) st.next).2 = st.next := by
        simpa using h
      rw [this] at g1
      exact R.step g1 ((cov_edge ..).mp hcov).1
  · simp only [setCur_cur, nt_setCur]
    apply Untouched.nt
    split
    · exact (unt_edge ..).mpr ⟨g3, g2⟩
    · exact (unt_edge ..).mpr ⟨by omega, g2⟩

/-! ### the statements to prove, by induction on the size -/
def QL (E : List Edge) (S : List SRec) (ss : List Stmt) : Prop :=
  ∀ (il : Bool) (st : St), WF st → st.excs = [] → okL il ss = true → Cov E S (procList st ss) → Entry E st →
    Post E S st (procList st ss) (sxL ss)
def QS (E : List Edge) (S : List SRec) (x : Stmt) : Prop :=
  ∀ (il : Bool) (st : St), WF st → st.excs = [] → okS il x = true → Cov E S (procStmt st x) → Entry E st →
    Post E S st (procStmt st x) (sxS x)

theorem lines_single {s : Nat} (h : Good E S s) : ∀ l ∈ [s], Good E S l := by
  intro l hl
  rw [List.mem_singleton.mp hl]; exact h

/-! ### leaves -/
theorem simple_sound (s e : Nat) (c : List Bool) (h : Bool) : QS E S (.simple s e c h) := by
  intro il st w hx _ hcov he
  rw [procStmt_simple] at hcov ⊢
  rw [sxS_simple]
  cases h
  · simp only [Bool.false_eq_true, ↓reduceIte, cov_add] at hcov ⊢
    exact ⟨lines_single (good_of hcov.1 he.reach), fun _ => Entry.mk' he.reach he.nt.add_other, ff, ff⟩
  · simp only [↓reduceIte, cov_add] at hcov ⊢
    obtain ⟨_, he2⟩ := comp_sound st s e c w hcov.2 he.reach
    exact ⟨lines_single (good_of hcov.1 he2.reach), fun _ => Entry.mk' he2.reach he2.nt.add_other, ff, ff⟩

theorem def_sound (s e : Nat) (b : List Stmt) : QS E S (.def_ s e b) := by
  intro il st w hx _ hcov he
  rw [procStmt_def] at hcov ⊢
  rw [sxS_def]
  simp only [cov_add] at hcov
  exact ⟨lines_single (good_of hcov.1 he.reach), fun _ => Entry.mk' he.reach he.nt.add_other, ff, ff⟩

theorem ret_sound (s e : Nat) (c : List Bool) (h : Bool) : QS E S (.ret s e c h) := by
  intro il st w hx _ hcov he
  rw [procStmt_ret, procRet_eq] at hcov ⊢
  rw [sxS_ret]
  simp only [cov_setCur, cov_bumpU] at hcov
  have hc1 : ({ blk := (if h = true then procComp st s e c else st).cur, s := s, e := e, ty := .ret } : SRec) ∈ S ∧
      Cov E S (if h = true then procComp st s e c else st) := by
    split at hcov <;> (simp only [cov_edge, cov_add] at hcov; exact hcov.2)
  refine ⟨lines_single (good_of hc1.1 ?_), ff, ff, ff⟩
  cases h
  · exact he.reach
  · exact (comp_sound st s e c w hc1.2 he.reach).2.reach

theorem raise_sound (s e : Nat) : QS E S (.raise s e) := by
  intro il st w hx _ hcov he
  rw [procStmt_raise, procRaise_eq] at hcov ⊢
  rw [sxS_raise]
  have h1 : targetFinally (st.add st.cur s e .raise) = none := targetFinally_nil hx
  have h2 : fallbackExc (st.add st.cur s e .raise) = none := fallbackExc_nil hx
  simp only [h1, h2, cov_setCur, cov_bumpU, cov_edge, cov_add] at hcov
  exact ⟨lines_single (good_of hcov.2.1 he.reach), ff, ff, ff⟩

theorem brk_sound (s e : Nat) : QS E S (.brk s e) := by
  intro il st w hx _ hcov he
  rw [procStmt_brk, procBrk_eq] at hcov ⊢
  rw [sxS_brk]
  refine ⟨?_, ff, ?_, ff⟩
  · apply lines_single
    simp only [add_loops] at hcov
    split at hcov
    · simp only [cov_add] at hcov; exact good_of hcov.1 he.reach
    · next hd x d rest hl =>
      have h1 : targetFinallyLoop (st.add st.cur s e .brk) d = none := targetFinallyLoop_nil d hx
      simp only [h1, cov_setCur, cov_bumpU, cov_edge, cov_add] at hcov
      exact good_of hcov.2.1 he.reach
  · intro _ hd x d rest hl
    simp only [add_loops, hl] at hcov
    have h1 : targetFinallyLoop (st.add st.cur s e .brk) d = none := targetFinallyLoop_nil d hx
    simp only [h1, cov_setCur, cov_bumpU, cov_edge, cov_add] at hcov
    exact R.step he.reach hcov.1

theorem cont_sound (s e : Nat) : QS E S (.cont s e) := by
  intro il st w hx _ hcov he
  rw [procStmt_cont, procCont_eq] at hcov ⊢
  rw [sxS_cont]
  refine ⟨?_, ff, ff, ?_⟩
  · apply lines_single
    simp only [add_loops] at hcov
    split at hcov
    · simp only [cov_add] at hcov; exact good_of hcov.1 he.reach
    · next hd x d rest hl =>
      have h1 : targetFinallyLoop (st.add st.cur s e .cont) d = none := targetFinallyLoop_nil d hx
      simp only [h1, cov_setCur, cov_bumpU, cov_edge, cov_add] at hcov
      exact good_of hcov.2.1 he.reach
  · intro _ hd x d rest hl
    simp only [add_loops, hl] at hcov
    have h1 : targetFinallyLoop (st.add st.cur s e .cont) d = none := targetFinallyLoop_nil d hx
    simp only [h1, cov_setCur, cov_bumpU, cov_edge, cov_add] at hcov
    exact R.step he.reach hcov.1

theorem lines_cons {s : Nat} {t : List Nat} (h : Good E S s) (ht : ∀ l ∈ t, Good E S l) : ∀ l ∈ s :: t, Good E S l := by
  intro l hl
  rcases List.mem_cons.mp hl with rfl | hl
  · exact h
  · exact ht l hl
theorem lines_append {t u : List Nat} (ht : ∀ l ∈ t, Good E S l) (hu : ∀ l ∈ u, Good E S l) : ∀ l ∈ t ++ u, Good E S l := by
  intro l hl
  rcases List.mem_append.mp hl with hl | hl
  · exact ht l hl
  · exact hu l hl

/-! ### compound statements -/
section compound
variable {N : Nat}

theorem class_sound (ih : ∀ ss, sizeL ss ≤ N → QL E S ss) (body : List Stmt) (hsz : sizeL body ≤ N) (s e : Nat) :
    QS E S (.class_ s e body) := by
  intro il st w hx hok hcov he
  rw [procStmt_class, procClass_eq] at hcov ⊢
  rw [sxS_class]
  rw [okS_class] at hok
  have hcur := w.cur
  have i0 : Inv st.cur st.next st st := Inv.refl w (Or.inl rfl)
  have i1 := ((i0.bump.edge (a := st.cur) (b := st.next) (t := .normal) (Or.inl rfl) (by ob) (by ob)).setCur (x := st.next) (by ob) (by ob)).add
    (b := st.next) (p := s) (q := e) (ty := .other) (by ob) (by ob)
  obtain ⟨j, sm⟩ := procList_frame body _ i1.wf st.cur st.next i1.own (by ob)
  have hc1 := Cov.of_inv j hcov
  simp only [cov_add, cov_setCur, cov_edge, cov_bump] at hc1
  have hr : R E st.next := R.step he.reach hc1.2.1
  have hnt : NT (setCur ((bump st).edge st.cur st.next .normal) st.next) st.next :=
    Untouched.nt (by simp only [unt_setCur, unt_edge, unt_bump]; exact ⟨by omega, w.untouched (Nat.le_refl _)⟩)
  have hp := ih body hsz false _ i1.wf hx hok hcov (Entry.mk' hr hnt.add_other)
  exact ⟨lines_cons (good_of hc1.1 hr) hp.lines, hp.normal, hp.brk, hp.cont⟩

theorem with_sound (ih : ∀ ss, sizeL ss ≤ N → QL E S ss) (body : List Stmt) (hsz : sizeL body ≤ N) (s e : Nat) :
    QS E S (.with_ s e body) := by
  intro il st w hx hok hcov he
  rw [procStmt_with, procWith_eq] at hcov ⊢
  rw [sxS_with]
  rw [okS_with] at hok
  have hcur := w.cur
  have i0 : Inv st.cur st.next st st := Inv.refl w (Or.inl rfl)
  have i1 := ((((((i0.bump.edge (a := st.cur) (b := st.next) (t := .normal) (Or.inl rfl) (by ob) (by ob)).add (b := st.next) (p := s) (q := e)
    (ty := .other) (by ob) (by ob)).bump).bump).bump).edge (a := st.next) (b := st.next + 1) (t := .normal) (by ob) (by ob) (by ob)).setCur
    (x := st.next + 1) (by ob) (by ob)
  have hj := procList_frame body _ i1.wf (st.next + 1) (st.next + 4) (Or.inl rfl) (by ob)
  obtain ⟨j, sm⟩ := hj
  simp only [cov_setCur, cov_edge, cov_eue] at hcov
  obtain ⟨e1, e2, _, hc2⟩ := hcov
  have hc1 := Cov.of_inv j hc2
  simp only [cov_add, cov_setCur, cov_edge, cov_bump] at hc1
  obtain ⟨e3, e4, e5, _⟩ := hc1
  have hr : R E st.next := R.step he.reach e5
  have hf1 := w.untouched (m := st.next + 1) (by omega)
  have hf3 := w.untouched (m := st.next + 3) (by omega)
  have hp := ih body hsz il _ i1.wf hx hok hc2 (Entry.mk' (R.step hr e3) (Untouched.nt (by untt [hf1])))
  have hu2 := j.untouched (m := st.next + 3) (by omega) (by omega) (by untt [hf3])
  have hown := j.own
  refine ⟨lines_cons (good_of e4 hr) hp.lines, fun _ => Entry.mk' (R.step (R.step hr e2) e1) (Untouched.nt ?_), hp.brk, hp.cont⟩
  simp only [setCur_cur, unt_setCur, unt_edge]
  exact ⟨by omega, by omega, Untouched.eue (by ob) hu2⟩

theorem cases_sound (ih : ∀ ss, sizeL ss ≤ N → QL E S ss) (il : Bool) (mb merge : Nat) (hmm : mb ≠ merge) (hrm : R E mb) :
    ∀ (cs : List Stmt) (st : St), sizeL cs ≤ N → WF st → st.excs = [] → okCases il cs = true → mb < st.next → merge < st.next →
      Untouched st merge → Cov E S (procCases st cs mb merge) →
      (∀ l ∈ (sxAlts cs).lines, Good E S l) ∧
      ((sxAlts cs).ex.brk = true → ∀ h x d rest, st.loops = (h, x, d) :: rest → R E x) ∧
      ((sxAlts cs).ex.cont = true → ∀ h x d rest, st.loops = (h, x, d) :: rest → R E h) ∧
      Untouched (procCases st cs mb merge) merge ∧ Cov E S st := by
  intro cs
  induction cs with
  | nil =>
    intro st _ _ _ _ _ _ hu hcov
    rw [procCases_nil] at hcov ⊢
    rw [sxAlts_nil]
    exact ⟨(fun l h => by cases h), ff, ff, hu, hcov⟩
  | cons x cs ihc =>
    intro st hsz w hx hok hmb hmg hu hcov
    obtain ⟨s, e, body, rfl, hok1, hok2⟩ := okCases_cons hok
    simp only [sizeL, Stmt.size] at hsz
    rw [procCases_case] at hcov ⊢
    rw [sxAlts_cons, sxS_case]
    have hcur := w.cur
    have i0 : Inv st.cur 0 st st := Inv.refl w (Or.inl rfl)
    have i1 := ((i0.bump.edge (a := mb) (b := st.next) (t := .condT) (by ob) (by ob) (by ob)).setCur (x := st.next) (by ob) (by ob)).add
      (b := st.next) (p := s) (q := e) (ty := .other) (by ob) (by ob)
    have hj := procList_frame body _ i1.wf st.next (st.next + 1) (Or.inl rfl) (by ob)
    obtain ⟨j, sm⟩ := hj
    have hjn := j.next_le
    have hown := j.own
    have k2 := j.edgeUnlessExit (a := (procList ((setCur ((bump st).edge mb st.next .condT) st.next).add st.next s e .other) body).cur)
      (b := merge) (t := .normal) j.own j.wf.cur (by ob)
    have hu1 : Untouched ((setCur ((bump st).edge mb st.next .condT) st.next).add st.next s e .other) merge := by untt [hu]
    have hu2 := Untouched.eue (b := merge) (t := .normal) (show (procList ((setCur ((bump st).edge mb st.next .condT) st.next).add st.next s e .other) body).cur ≠ merge by ob)
      (j.untouched (m := merge) (by omega) (by omega) hu1)
    obtain ⟨r1, r2, r3, r4, r5⟩ := ihc _ (by omega) k2.wf (by simp only [edgeUnlessExit_excs, sm.excs]; exact hx) hok2 (by ob) (by ob) hu2 hcov
    have hc2 := ((cov_eue ..).mp r5).2
    have hc1 := Cov.of_inv j hc2
    simp only [cov_add, cov_setCur, cov_edge, cov_bump] at hc1
    obtain ⟨e1, e2, hc0⟩ := hc1
    have hrc : R E st.next := R.step hrm e2
    have hnt : NT (setCur ((bump st).edge mb st.next .condT) st.next) st.next :=
      Untouched.nt (by untt [w.untouched (Nat.le_refl _)])
    have hp := ih body (by omega) il _ i1.wf hx hok1 hc2 (Entry.mk' hrc hnt.add_other)
    have hl : ((procList ((setCur ((bump st).edge mb st.next .condT) st.next).add st.next s e .other) body).edgeUnlessExit
        (procList ((setCur ((bump st).edge mb st.next .condT) st.next).add st.next s e .other) body).cur merge .normal).loops = st.loops := by
      simp only [edgeUnlessExit_loops, sm.loops]; rfl
    rw [hl] at r2 r3
    refine ⟨lines_append (lines_cons (good_of e1 hrc) hp.lines) r1, ?_, ?_, r4, hc0⟩
    · intro hb
      rcases Bool.or_eq_true_iff.mp hb with hb | hb
      · exact hp.brk hb
      · exact r2 hb
    · intro hb
      rcases Bool.or_eq_true_iff.mp hb with hb | hb
      · exact hp.cont hb
      · exact r3 hb

theorem match_sound (ih : ∀ ss, sizeL ss ≤ N → QL E S ss) (cases : List Stmt) (hsz : sizeL cases ≤ N) (s e : Nat) :
    QS E S (.match_ s e cases) := by
  intro il st w hx hok hcov he
  rw [procStmt_match, procMatch_eq] at hcov ⊢
  rw [sxS_match]
  rw [okS_match] at hok
  have hcur := w.cur
  have i0 : Inv st.cur 0 st st := Inv.refl w (Or.inl rfl)
  have i1 := ((i0.bump.edge (a := st.cur) (b := st.next) (t := .normal) (Or.inl rfl) (by ob) (by ob)).add (b := st.next) (p := s) (q := e)
    (ty := .other) (by ob) (by ob)).bump
  have hs2 : ∃ t, (if (!cases.isEmpty) = true then
        (procCases (bump (((bump st).edge st.cur st.next .normal).add st.next s e .other)) cases st.next (st.next + 1)).edge st.next (st.next + 1) .condF
      else (bump (((bump st).edge st.cur st.next .normal).add st.next s e .other)).edge st.next (st.next + 1) .normal) =
      (procCases (bump (((bump st).edge st.cur st.next .normal).add st.next s e .other)) cases st.next (st.next + 1)).edge st.next (st.next + 1) t := by
    cases cases
    · exact ⟨.normal, by simp [procCases_nil]⟩
    · exact ⟨.condF, by simp⟩
  obtain ⟨t, ht⟩ := hs2
  simp only [] at hcov ⊢
  rw [ht] at hcov ⊢
  simp only [cov_setCur, cov_edge] at hcov
  obtain ⟨e1, hc2⟩ := hcov
  obtain ⟨j, sm⟩ := cases_frame (c := st.cur) (n := 0) (frame_all N).1 (frame_all N).2 cases _ st.next (st.next + 1) hsz i1.wf i1.own
    (Nat.zero_le _) (Or.inr (Nat.zero_le _)) (by ob) (by ob)
  have hc1 := Cov.of_inv j hc2
  simp only [cov_add, cov_edge, cov_bump] at hc1
  obtain ⟨e2, e3, _⟩ := hc1
  have hr : R E st.next := R.step he.reach e3
  obtain ⟨r1, r2, r3, r4, _⟩ := cases_sound ih il st.next (st.next + 1) (by omega) hr cases _ hsz i1.wf hx hok (by ob) (by ob)
    (by untt [w.untouched (m := st.next + 1) (by omega)]) hc2
  refine ⟨lines_cons (good_of e2 hr) r1, fun _ => Entry.mk' (R.step hr e1) (Untouched.nt ?_), r2, r3⟩
  simp only [setCur_cur, unt_setCur, unt_edge]
  exact ⟨by omega, r4⟩

theorem loop_sound (ih : ∀ ss, sizeL ss ≤ N → QL E S ss) (body orelse : List Stmt) (h1 : sizeL body ≤ N) (h2 : sizeL orelse ≤ N) (s e : Nat) :
    QS E S (.loop s e body orelse) := by
  intro il st w hx hok hcov he
  rw [procStmt_loop, procLoop_eq] at hcov ⊢
  rw [sxS_loop]
  rw [okS_loop, Bool.and_eq_true] at hok
  have hcur := w.cur
  have i0 : Inv st.cur 0 st st := Inv.refl w (Or.inl rfl)
  have i1 := (((i0.bump.edge (a := st.cur) (b := st.next) (t := .normal) (Or.inl rfl) (by ob) (by ob)).add (b := st.next) (p := s) (q := e)
    (ty := .other) (by ob) (by ob)).bump).bump
  rcases orelse with _ | ⟨o, os⟩
  · simp only [List.isEmpty_nil, Bool.not_true, Bool.false_eq_true, ↓reduceIte] at hcov ⊢
    have i2 := (((i1.setLoops (l := (st.next, st.next + 2, st.excs.length) :: st.loops) (by
        intro x hx
        rcases List.mem_cons.mp hx with rfl | hx
        · constructor <;> ob
        · exact w.loops_le (by ob) x hx)).edge (a := st.next) (b := st.next + 1) (t := .condT) (by ob) (by ob) (by ob)).edge
        (a := st.next) (b := st.next + 2) (t := .condF) (by ob) (by ob) (by ob)).setCur (x := st.next + 1) (by ob) (by ob)
    have hj := procList_frame body _ i2.wf (st.next + 1) (st.next + 3) (Or.inl rfl) (by ob)
    obtain ⟨j, sm⟩ := hj
    have hown := j.own
    simp only [cov_setLoops, cov_setCur, cov_eue] at hcov
    obtain ⟨_, hc5⟩ := hcov
    have hc4 := Cov.of_inv j hc5
    simp only [cov_setLoops, cov_setCur, cov_edge, cov_add, cov_bump] at hc4
    obtain ⟨e1, e2, e3, e4, _⟩ := hc4
    have hr : R E st.next := R.step he.reach e4
    have hf1 := w.untouched (m := st.next + 1) (by omega)
    have hf2 := w.untouched (m := st.next + 2) (by omega)
    have hp := ih body h1 true _ i2.wf hx hok.1 hc5 (Entry.mk' (R.step hr e2) (Untouched.nt (by untt [hf1])))
    refine ⟨lines_cons (good_of e3 hr) (lines_append hp.lines (by rw [sxL_nil]; intro l h; cases h)),
      fun _ => Entry.mk' (R.step hr e1) (Untouched.nt ?_), by rw [sxL_nil]; exact ff, by rw [sxL_nil]; exact ff⟩
    simp only [setLoops_cur, setCur_cur, unt_setLoops, unt_setCur]
    refine Untouched.eue (by ob) (j.untouched (by omega) (by omega) ?_)
    untt [hf2]
  · simp only [List.isEmpty_cons, Bool.not_false, ↓reduceIte] at hcov ⊢
    have i2 := (((i1.bump.setLoops (l := (st.next, st.next + 2, st.excs.length) :: st.loops) (by
        intro x hx
        rcases List.mem_cons.mp hx with rfl | hx
        · constructor <;> ob
        · exact w.loops_le (by ob) x hx)).edge (a := st.next) (b := st.next + 1) (t := .condT) (by ob) (by ob) (by ob)).edge
        (a := st.next) (b := st.next + 3) (t := .condF) (by ob) (by ob) (by ob)).setCur (x := st.next + 1) (by ob) (by ob)
    have hj := procList_frame body _ i2.wf (st.next + 1) (st.next + 4) (Or.inl rfl) (by ob)
    obtain ⟨j, sm⟩ := hj
    have hj0 := procList_frame body _ i2.wf st.cur 0 (Or.inr (Nat.zero_le _)) (Nat.zero_le _)
    obtain ⟨j0, _⟩ := hj0
    have hown := j.own
    have hjn := j.next_le
    have hjc := j.wf.cur
    have k2 := ((j0.edgeUnlessExit (b := st.next) (t := .loop) j0.own hjc (by ob)).setLoops (l := st.loops) (w.loops_le (by ob))).setCur
      (x := st.next + 3) (by ob) (by ob)
    have hj2 := procList_frame (o :: os) _ k2.wf (st.next + 3) _ (Or.inl rfl) (Nat.le_refl _)
    obtain ⟨j2, sm2⟩ := hj2
    have hown2 := j2.own
    simp only [cov_setLoops, cov_setCur, cov_eue] at hcov
    obtain ⟨e8, hc8⟩ := hcov
    have hc6 := Cov.of_inv j2 hc8
    simp only [cov_setLoops, cov_setCur, cov_eue] at hc6
    obtain ⟨_, hc5⟩ := hc6
    have hc4 := Cov.of_inv j hc5
    simp only [cov_setLoops, cov_setCur, cov_edge, cov_add, cov_bump] at hc4
    obtain ⟨e1, e2, e3, e4, _⟩ := hc4
    have hr : R E st.next := R.step he.reach e4
    have hf1 := w.untouched (m := st.next + 1) (by omega)
    have hf2 := w.untouched (m := st.next + 2) (by omega)
    have hf3 := w.untouched (m := st.next + 3) (by omega)
    have hp := ih body h1 true _ i2.wf hx hok.1 hc5 (Entry.mk' (R.step hr e2) (Untouched.nt (by untt [hf1])))
    have hp2 := ih (o :: os) h2 il _ k2.wf (by simp only [setCur_excs, setLoops_excs, edgeUnlessExit_excs, sm.excs]; exact hx) hok.2 hc8
      (Entry.mk' (R.step hr e1) (Untouched.nt (by
        simp only [setCur_cur, unt_setLoops, unt_setCur]
        refine Untouched.eue (by ob) (j.untouched (by omega) (by omega) ?_)
        untt [hf3])))
    refine ⟨lines_cons (good_of e3 hr) (lines_append hp.lines hp2.lines), fun hn => Entry.mk' ?_ (Untouched.nt ?_), hp2.brk, hp2.cont⟩
    · simp only [setLoops_cur, setCur_cur]
      rcases Bool.or_eq_true_iff.mp hn with hb | hb
      · exact hp.brk hb _ _ _ _ rfl
      · have he8 := hp2.normal hb
        exact R.step he8.reach (e8 he8.noExit)
    · simp only [setLoops_cur, setCur_cur, unt_setLoops, unt_setCur]
      refine Untouched.eue (by ob) (j2.untouched (by omega) (by ob) ?_)
      simp only [unt_setLoops, unt_setCur]
      refine Untouched.eue (by ob) (j.untouched (by omega) (by omega) ?_)
      untt [hf2]

/-! ### if / elif / else -/
theorem ifHead_sound (ih : ∀ ss, sizeL ss ≤ N → QL E S ss) (thn : List Stmt) (hsz : sizeL thn ≤ N) (il : Bool) (st : St) (s e : Nat)
    (w : WF st) (hx : st.excs = []) (hok : okL il thn = true) (hcov : Cov E S (ifHead st s e thn)) (he : Entry E st) :
    Good E S s ∧ Post E S st (ifHead st s e thn) (sxL thn) ∧
      Inv st.next (st.next + 2) (setCur ((bump (bump (st.add st.cur s e .other))).edge st.cur st.next .condT) st.next) (ifHead st s e thn) ∧
      Same st (ifHead st s e thn) ∧
      (∀ m, m ≠ st.cur → m ≠ st.next → m < st.next + 2 → Untouched st m → Untouched (ifHead st s e thn) m) := by
  unfold ifHead at hcov ⊢
  have hcur := w.cur
  have i0 : Inv st.cur 0 st st := Inv.refl w (Or.inl rfl)
  have i1 := (((i0.add (b := st.cur) (p := s) (q := e) (ty := .other) (Or.inl rfl) w.cur).bump.bump).edge (a := st.cur) (b := st.next)
    (t := .condT) (Or.inl rfl) (by ob) (by ob)).setCur (x := st.next) (by ob) (by ob)
  have hj := procList_frame thn _ i1.wf st.next (st.next + 2) (Or.inl rfl) (by ob)
  obtain ⟨j, sm⟩ := hj
  have hc1 := Cov.of_inv j hcov
  simp only [cov_setCur, cov_edge, cov_add, cov_bump] at hc1
  obtain ⟨e1, e2, _⟩ := hc1
  have hp := ih thn hsz il _ i1.wf hx hok hcov (Entry.mk' (R.step he.reach e1) (Untouched.nt (by untt [w.untouched (Nat.le_refl _)])))
  refine ⟨good_of e2 he.reach, ⟨hp.lines, hp.normal, hp.brk, hp.cont⟩, j, ⟨sm.loops, sm.excs⟩, ?_⟩
  intro m h1 h2 h3 hu
  exact j.untouched h2 h3 (by untt [hu])

theorem elifHead_sound (ih : ∀ ss, sizeL ss ≤ N → QL E S ss) (thn : List Stmt) (hsz : sizeL thn ≤ N) (il : Bool) (st : St) (s e : Nat)
    (w : WF st) (hx : st.excs = []) (hok : okL il thn = true) (hcov : Cov E S (elifHead st s e thn)) (he : Entry E st) :
    Good E S s ∧ Post E S st (elifHead st s e thn) (sxL thn) ∧
      Inv st.next (st.next + 1) (setCur ((bump (st.add st.cur s e .other)).edge st.cur st.next .condT) st.next) (elifHead st s e thn) ∧
      Same st (elifHead st s e thn) ∧
      (∀ m, m ≠ st.cur → m < st.next → Untouched st m → Untouched (elifHead st s e thn) m) := by
  unfold elifHead at hcov ⊢
  have hcur := w.cur
  have i0 : Inv st.cur 0 st st := Inv.refl w (Or.inl rfl)
  have i1 := (((i0.add (b := st.cur) (p := s) (q := e) (ty := .other) (Or.inl rfl) w.cur).bump).edge (a := st.cur) (b := st.next)
    (t := .condT) (Or.inl rfl) (by ob) (by ob)).setCur (x := st.next) (by ob) (by ob)
  have hj := procList_frame thn _ i1.wf st.next (st.next + 1) (Or.inl rfl) (by ob)
  obtain ⟨j, sm⟩ := hj
  have hc1 := Cov.of_inv j hcov
  simp only [cov_setCur, cov_edge, cov_add, cov_bump] at hc1
  obtain ⟨e1, e2, _⟩ := hc1
  have hp := ih thn hsz il _ i1.wf hx hok hcov (Entry.mk' (R.step he.reach e1) (Untouched.nt (by untt [w.untouched (Nat.le_refl _)])))
  refine ⟨good_of e2 he.reach, ⟨hp.lines, hp.normal, hp.brk, hp.cont⟩, j, ⟨sm.loops, sm.excs⟩, ?_⟩
  intro m h1 h3 hu
  exact j.untouched (by omega) (by omega) (by untt [hu])

theorem elseTail_sound (ih : ∀ ss, sizeL ss ≤ N → QL E S ss) (orelse : List Stmt) (hsz : sizeL orelse ≤ N) (il : Bool) (s3 : St) (cond te : Nat)
    (w : WF s3) (hx : s3.excs = []) (hok : okL il orelse = true) (hcl : cond < s3.next) (hrc : R E cond)
    (hcov : Cov E S (elseTail s3 cond te orelse)) :
    Post E S s3 (elseTail s3 cond te orelse) (sxL orelse) ∧
      Inv s3.next (s3.next + 1) (setCur ((bump s3).edge cond s3.next .condF) s3.next) (elseTail s3 cond te orelse) ∧
      Same s3 (elseTail s3 cond te orelse) ∧ Cov E S s3 ∧
      (∀ m, m < s3.next → NT s3 m → NT (elseTail s3 cond te orelse) m) ∧
      (∀ m, m < s3.next → m ≠ cond → Untouched s3 m → Untouched (elseTail s3 cond te orelse) m) := by
  unfold elseTail at hcov ⊢
  have hcur := w.cur
  have h2 := w.two
  have i0 : Inv s3.cur 0 s3 s3 := Inv.refl w (Or.inl rfl)
  have i1 := (i0.bump.edge (a := cond) (b := s3.next) (t := .condF) (by ob) (by ob) (by ob)).setCur (x := s3.next) (by ob) (by ob)
  have hj := procList_frame orelse _ i1.wf s3.next (s3.next + 1) (Or.inl rfl) (by ob)
  obtain ⟨j, sm⟩ := hj
  have hc1 := Cov.of_inv j hcov
  simp only [cov_setCur, cov_edge, cov_bump] at hc1
  obtain ⟨e1, hc0⟩ := hc1
  have hp := ih orelse hsz il _ i1.wf hx hok hcov (Entry.mk' (R.step hrc e1) (Untouched.nt (by untt [w.untouched (Nat.le_refl _)])))
  refine ⟨⟨hp.lines, hp.normal, hp.brk, hp.cont⟩, j, ⟨sm.loops, sm.excs⟩, hc0, ?_, ?_⟩
  · intro m h1 hnt
    refine j.nt (by omega) (by omega) ?_
    simp only [nt_setCur]
    exact NT.edge_tgt (by unfold exitB; omega) ((nt_bump ..).mpr hnt)
  · intro m h1 h3 hu
    exact j.untouched (by omega) (by omega) (by untt [hu])

/-- what `procIfElif` achieves (the `elif` chain `thn` / `orelse` ending in the shared merge block `fm`) -/
def PE (E : List Edge) (S : List SRec) (thn orelse : List Stmt) : Prop :=
  ∀ (il : Bool) (st : St) (s e fm : Nat), WF st → st.excs = [] → okL il thn = true → okL il orelse = true →
    fm < st.next → fm ≠ st.cur → fm ≠ exitB → Cov E S (procIfElif st s e thn orelse fm) → Entry E st →
    Good E S s ∧ (∀ l ∈ (sxL thn).lines, Good E S l) ∧ (∀ l ∈ (sxL orelse).lines, Good E S l) ∧
    (((sxL thn).ex.normal = true ∨ (sxL orelse).ex.normal = true) → (procIfElif st s e thn orelse fm).cur = fm ∧ R E fm) ∧
    (((sxL thn).ex.brk = true ∨ (sxL orelse).ex.brk = true) → ∀ h x d rest, st.loops = (h, x, d) :: rest → R E x) ∧
    (((sxL thn).ex.cont = true ∨ (sxL orelse).ex.cont = true) → ∀ h x d rest, st.loops = (h, x, d) :: rest → R E h) ∧
    (Untouched st fm → Untouched (procIfElif st s e thn orelse fm) fm)

theorem finishElif_cur (s : St) (te fm : Nat) : (finishElif s te fm).cur = fm := by
  unfold finishElif; simp

/-- the recursive step shared by `procIfElif_elif` and `procIfElif_ite` -/
theorem elif_step (ih : ∀ ss, sizeL ss ≤ N → QL E S ss) (thn a b : List Stmt) (h1 : sizeL thn ≤ N) (ha : sizeL a ≤ N) (hb : sizeL b ≤ N)
    (hrec : PE E S a b) (il : Bool) (st : St) (s e fm s' e' : Nat)
    (w : WF st) (hx : st.excs = []) (hok : okL il thn = true) (hoka : okL il a = true) (hokb : okL il b = true)
    (hfl : fm < st.next) (hfc : fm ≠ st.cur) (hfe : fm ≠ exitB) (he : Entry E st)
    (hcov : Cov E S (finishElif (procIfElif (setCur ((bump (elifHead st s e thn)).edge st.cur (elifHead st s e thn).next .condF)
      (elifHead st s e thn).next) s' e' a b fm) (elifHead st s e thn).cur fm)) :
    Good E S s ∧ (∀ l ∈ (sxL thn).lines, Good E S l) ∧ Good E S s' ∧ (∀ l ∈ (sxL a).lines, Good E S l) ∧ (∀ l ∈ (sxL b).lines, Good E S l) ∧
    (((sxL thn).ex.normal = true ∨ (sxL a).ex.normal = true ∨ (sxL b).ex.normal = true) → R E fm) ∧
    (((sxL thn).ex.brk = true ∨ (sxL a).ex.brk = true ∨ (sxL b).ex.brk = true) → ∀ h x d rest, st.loops = (h, x, d) :: rest → R E x) ∧
    (((sxL thn).ex.cont = true ∨ (sxL a).ex.cont = true ∨ (sxL b).ex.cont = true) → ∀ h x d rest, st.loops = (h, x, d) :: rest → R E h) ∧
    (Untouched st fm → Untouched (finishElif (procIfElif (setCur ((bump (elifHead st s e thn)).edge st.cur (elifHead st s e thn).next .condF)
      (elifHead st s e thn).next) s' e' a b fm) (elifHead st s e thn).cur fm) fm) := by
  have hcur := w.cur
  have h2 := w.two
  obtain ⟨k, smk, hnx⟩ := elifHead_frame (c := st.cur) (n := 0) (frame_all N).2 thn h1 st s e w (Or.inl rfl) (Nat.zero_le _)
  have hk := k.wf.cur
  have i1 := (k.bump.edge (a := st.cur) (b := (elifHead st s e thn).next) (t := .condF) (Or.inl rfl) (by ob) (by ob)).setCur
    (x := (elifHead st s e thn).next) (by ob) (by ob)
  obtain ⟨jr, smr⟩ := elif_frame (c := fm) (n := (elifHead st s e thn).next) (frame_all N).2 _ a b (Nat.le_refl _) ha hb _ s' e' fm i1.wf
    (Or.inr (Nat.le_refl _)) (by ob) (Or.inl rfl) (by ob)
  unfold finishElif at hcov ⊢
  simp only [cov_setCur, cov_eue] at hcov
  obtain ⟨f1, hcr⟩ := hcov
  have hcp := Cov.of_inv jr hcr
  simp only [cov_setCur, cov_edge, cov_bump] at hcp
  obtain ⟨e1, hc3⟩ := hcp
  obtain ⟨g1, hpt, jh, smh, huh⟩ := elifHead_sound ih thn h1 il st s e w hx hok hc3 he
  have hown := jh.own
  have hx3 : (elifHead st s e thn).excs = [] := by rw [smh.excs]; exact hx
  obtain ⟨r1, r2, r3, r4, r5, r6, r7⟩ := hrec il _ s' e' fm i1.wf hx3 hoka hokb (by ob) (by ob) hfe hcr
    (Entry.mk' (R.step he.reach e1) (Untouched.nt (by untt [k.wf.untouched (Nat.le_refl _)])))
  have hl3 : (setCur ((bump (elifHead st s e thn)).edge st.cur (elifHead st s e thn).next .condF) (elifHead st s e thn).next).loops = st.loops :=
    smh.loops
  rw [hl3] at r5 r6
  refine ⟨g1, hpt.lines, r1, r2, r3, ?_, ?_, ?_, ?_⟩
  · rintro (hn | hn)
    · have he3 := hpt.normal hn
      have hnt : NT (procIfElif (setCur ((bump (elifHead st s e thn)).edge st.cur (elifHead st s e thn).next .condF)
          (elifHead st s e thn).next) s' e' a b fm) (elifHead st s e thn).cur := by
        refine jr.nt (by ob) hk ?_
        simp only [nt_setCur]
        exact NT.edge_tgt (by unfold exitB; omega) ((nt_bump ..).mpr he3.nt)
      exact R.step he3.reach (f1 hnt.1)
    · exact (r4 hn).2
  · rintro (hn | hn)
    · exact hpt.brk hn
    · exact r5 hn
  · rintro (hn | hn)
    · exact hpt.cont hn
    · exact r6 hn
  · intro hu
    simp only [unt_setCur]
    refine Untouched.eue (by ob) (r7 ?_)
    have := huh fm hfc hfl hu
    untt [this]

theorem ex_union_normal (a b : Ex) : (a.union b).normal = (a.normal || b.normal) := rfl
theorem ex_union_brk (a b : Ex) : (a.union b).brk = (a.brk || b.brk) := rfl
theorem ex_union_cont (a b : Ex) : (a.union b).cont = (a.cont || b.cont) := rfl

/-- the `elif` chain with a plain `else` (or any other statement list) at its end -/
theorem elif_else (ih : ∀ ss, sizeL ss ≤ N → QL E S ss) (thn : List Stmt) (o : Stmt) (os : List Stmt) (h1 : sizeL thn ≤ N) (h2 : sizeL (o :: os) ≤ N)
    (hne1 : ∀ s e a b, o :: os ≠ [.elifc s e a b]) (hne2 : ∀ s e a b, o :: os ≠ [.ite s e a b]) : PE E S thn (o :: os) := by
  intro il st s e fm w hx hok1 hok2 hfl hfc hfe hcov he
  rw [procIfElif_else _ _ _ _ _ _ _ hne1 hne2] at hcov ⊢
  simp only [] at hcov ⊢
  have hcur := w.cur
  obtain ⟨k, smk, hnx⟩ := elifHead_frame (c := st.cur) (n := 0) (frame_all N).2 thn h1 st s e w (Or.inl rfl) (Nat.zero_le _)
  have hk := k.wf.cur
  have hx3 : (elifHead st s e thn).excs = [] := by rw [smk.excs]; exact hx
  have hc5 : Cov E S (elseTail (elifHead st s e thn) st.cur (elifHead st s e thn).cur (o :: os)) := by
    split at hcov
    · exact hcov
    · unfold finishElif at hcov
      simp only [cov_setCur, cov_eue] at hcov
      exact hcov.2.2
  obtain ⟨hpe, j5, sm5, hc3, hnt5, hu5⟩ := elseTail_sound ih (o :: os) h2 il _ st.cur (elifHead st s e thn).cur k.wf hx3 hok2 (by omega) he.reach hc5
  obtain ⟨g1, hpt, jh, smh, huh⟩ := elifHead_sound ih thn h1 il st s e w hx hok1 hc3 he
  have hown := jh.own
  have hown5 := j5.own
  have hjn := jh.next_le
  have hl5 : (elifHead st s e thn).loops = st.loops := smh.loops
  refine ⟨g1, hpt.lines, hpe.lines, ?_, ?_, ?_, ?_⟩
  · intro hn
    by_cases hb : ((elseTail (elifHead st s e thn) st.cur (elifHead st s e thn).cur (o :: os)).blockTerminates (elifHead st s e thn).cur &&
        (elseTail (elifHead st s e thn) st.cur (elifHead st s e thn).cur (o :: os)).blockTerminates
          (elseTail (elifHead st s e thn) st.cur (elifHead st s e thn).cur (o :: os)).cur) = true
    · exfalso
      rw [Bool.and_eq_true] at hb
      rcases hn with hn | hn
      · have := (hnt5 _ hk (hpt.normal hn).nt).2
        rw [this] at hb; exact Bool.noConfusion hb.1
      · have := (hpe.normal hn).noTerm
        rw [this] at hb; exact Bool.noConfusion hb.2
    · rw [if_neg hb] at hcov ⊢
      refine ⟨finishElif_cur _ _ _, ?_⟩
      unfold finishElif at hcov
      simp only [cov_setCur, cov_eue] at hcov
      obtain ⟨f1, f2, _⟩ := hcov
      rcases hn with hn | hn
      · have he3 := hpt.normal hn
        exact R.step he3.reach (f1 ((hnt5 _ hk he3.nt).eue_tgt hfe).1)
      · have he5 := hpe.normal hn
        exact R.step he5.reach (f2 he5.noExit)
  · rintro (hn | hn)
    · exact hpt.brk hn
    · rw [← hl5]; exact hpe.brk hn
  · rintro (hn | hn)
    · exact hpt.cont hn
    · rw [← hl5]; exact hpe.cont hn
  · intro hu
    have hu5' := hu5 fm (by omega) hfc (huh fm hfc hfl hu)
    split
    · exact hu5'
    · unfold finishElif
      simp only [unt_setCur]
      exact Untouched.eue (by ob) (Untouched.eue (by ob) hu5')

theorem okL_single_elifc {il : Bool} {s e : Nat} {a b : List Stmt} (h : okL il [.elifc s e a b] = true) : okL il a = true ∧ okL il b = true := by
  rw [okL_cons, okS_elifc, okL_nil, Bool.and_true, Bool.and_eq_true] at h; exact h
theorem okL_single_ite {il : Bool} {s e : Nat} {a b : List Stmt} (h : okL il [.ite s e a b] = true) : okL il a = true ∧ okL il b = true := by
  rw [okL_cons, okS_ite, okL_nil, Bool.and_true, Bool.and_eq_true] at h; exact h

theorem elif_nil (ih : ∀ ss, sizeL ss ≤ N → QL E S ss) (thn : List Stmt) (h1 : sizeL thn ≤ N) : PE E S thn [] := by
  intro il st s e fm w hx hok1 hok2 hfl hfc hfe hcov he
  rw [procIfElif_nil] at hcov ⊢
  simp only [] at hcov ⊢
  unfold finishElif at hcov ⊢
  simp only [cov_setCur, cov_eue, cov_edge] at hcov
  obtain ⟨f1, e1, hc3⟩ := hcov
  obtain ⟨g1, hpt, jh, smh, huh⟩ := elifHead_sound ih thn h1 il st s e w hx hok1 hc3 he
  have hown := jh.own
  rw [sxL_nil]
  refine ⟨g1, hpt.lines, (fun l h => by cases h), fun _ => ⟨by simp, R.step he.reach e1⟩, ?_, ?_, ?_⟩
  · rintro (hn | hn)
    · exact hpt.brk hn
    · cases hn
  · rintro (hn | hn)
    · exact hpt.cont hn
    · cases hn
  · intro hu
    simp only [unt_setCur]
    exact Untouched.eue (by ob) ((unt_edge ..).mpr ⟨fun h => hfc h.symm, huh fm hfc hfl hu⟩)

theorem elif_sound (ih : ∀ ss, sizeL ss ≤ N → QL E S ss) : ∀ (M : Nat) (thn orelse : List Stmt), sizeL thn + sizeL orelse ≤ M → sizeL thn ≤ N →
    sizeL orelse ≤ N → PE E S thn orelse := by
  intro M
  induction M with
  | zero =>
    intro thn orelse hM h1 _
    have : orelse = [] := by
      rcases orelse with _ | ⟨o, os⟩
      · rfl
      · simp only [sizeL] at hM; omega
    subst this
    exact elif_nil ih thn h1
  | succ M ihM =>
    intro thn orelse hM h1 h2
    rcases orelse_cases orelse with rfl | ⟨s', e', a, b, rfl⟩ | ⟨s', e', a, b, rfl⟩ | ⟨o, os, rfl, hne1, hne2⟩
    · exact elif_nil ih thn h1
    · intro il st s e fm w hx hok1 hok2 hfl hfc hfe hcov he
      have hsz : sizeL a + sizeL b ≤ M ∧ sizeL a ≤ N ∧ sizeL b ≤ N := by
        simp only [sizeL, Stmt.size] at hM h2; omega
      obtain ⟨hoka, hokb⟩ := okL_single_elifc hok2
      rw [procIfElif_elif] at hcov ⊢
      simp only [] at hcov ⊢
      obtain ⟨r1, r2, _, r4, r5, r6, r7, r8, r9⟩ := elif_step ih thn a b h1 hsz.2.1 hsz.2.2 (ihM a b hsz.1 hsz.2.1 hsz.2.2) il st s e fm 0 0
        w hx hok1 hoka hokb hfl hfc hfe he hcov
      obtain ⟨q1, _, q3⟩ := sxL_single (.elifc s' e' a b)
      rw [q1, q3, sxS_elifc]
      simp only [ex_union_normal, ex_union_brk, ex_union_cont, Bool.or_eq_true]
      exact ⟨r1, r2, lines_append r4 r5, fun h => ⟨finishElif_cur _ _ _, r6 h⟩, r7, r8, r9⟩
    · intro il st s e fm w hx hok1 hok2 hfl hfc hfe hcov he
      have hsz : sizeL a + sizeL b ≤ M ∧ sizeL a ≤ N ∧ sizeL b ≤ N := by
        simp only [sizeL, Stmt.size] at hM h2; omega
      obtain ⟨hoka, hokb⟩ := okL_single_ite hok2
      rw [procIfElif_ite] at hcov ⊢
      simp only [] at hcov ⊢
      obtain ⟨r1, r2, r3, r4, r5, r6, r7, r8, r9⟩ := elif_step ih thn a b h1 hsz.2.1 hsz.2.2 (ihM a b hsz.1 hsz.2.1 hsz.2.2) il st s e fm s' e'
        w hx hok1 hoka hokb hfl hfc hfe he hcov
      obtain ⟨q1, _, q3⟩ := sxL_single (.ite s' e' a b)
      rw [q1, q3, sxS_ite]
      simp only [ex_union_normal, ex_union_brk, ex_union_cont, Bool.or_eq_true]
      exact ⟨r1, r2, lines_cons r3 (lines_append r4 r5), fun h => ⟨finishElif_cur _ _ _, r6 h⟩, r7, r8, r9⟩
    · exact elif_else ih thn o os h1 h2 hne1 hne2

theorem elifTail_sound (thn' orelse' : List Stmt) (h1 : sizeL thn' ≤ N) (h2 : sizeL orelse' ≤ N) (hpe : PE E S thn' orelse')
    (il : Bool) (st : St) (cond te merge s' e' : Nat) (tn : Bool) (w : WF st) (hx : st.excs = [])
    (hoka : okL il thn' = true) (hokb : okL il orelse' = true) (hcl : cond < st.next) (hrc : R E cond) (htl : te < st.next) (htm : te ≠ merge)
    (hml : merge < st.next) (hme : merge ≠ exitB) (hcm : cond ≠ merge) (hu : Untouched st merge)
    (hte : tn = true → R E te ∧ NT st te)
    (hcov : Cov E S (procIfElifTail st cond te merge s' e' thn' orelse')) :
    Good E S s' ∧ (∀ l ∈ (sxL thn').lines, Good E S l) ∧ (∀ l ∈ (sxL orelse').lines, Good E S l) ∧
    ((tn = true ∨ (sxL thn').ex.normal = true ∨ (sxL orelse').ex.normal = true) → Entry E (procIfElifTail st cond te merge s' e' thn' orelse')) ∧
    (((sxL thn').ex.brk = true ∨ (sxL orelse').ex.brk = true) → ∀ h x d rest, st.loops = (h, x, d) :: rest → R E x) ∧
    (((sxL thn').ex.cont = true ∨ (sxL orelse').ex.cont = true) → ∀ h x d rest, st.loops = (h, x, d) :: rest → R E h) := by
  rw [procIfElifTail_eq] at hcov ⊢
  simp only [] at hcov ⊢
  have hcur := w.cur
  have h2' := w.two
  have i0 : Inv st.cur 0 st st := Inv.refl w (Or.inl rfl)
  have i1 := (i0.bump.edge (a := cond) (b := st.next) (t := .condF) (by ob) (by ob) (by ob)).setCur (x := st.next) (by ob) (by ob)
  obtain ⟨jr, smr⟩ := elif_frame (c := merge) (n := st.next) (frame_all N).2 _ thn' orelse' (Nat.le_refl _) h1 h2 _ s' e' merge i1.wf
    (Or.inr (Nat.le_refl _)) (by ob) (Or.inl rfl) (by ob)
  have hc5 : Cov E S (procIfElif (setCur ((bump st).edge cond st.next .condF) st.next) s' e' thn' orelse' merge) := by
    split at hcov
    · split at hcov
      · exact hcov
      · simp only [cov_setCur, cov_eue] at hcov; exact hcov.2
    · simp only [cov_setCur, cov_eue] at hcov; exact hcov.2
  have hcp := Cov.of_inv jr hc5
  simp only [cov_setCur, cov_edge, cov_bump] at hcp
  obtain ⟨e1, _⟩ := hcp
  obtain ⟨r1, r2, r3, r4, r5, r6, r7⟩ := hpe il _ s' e' merge i1.wf hx hoka hokb (by ob) (by ob) hme hc5
    (Entry.mk' (R.step hrc e1) (Untouched.nt (by untt [w.untouched (Nat.le_refl _)])))
  have hu5 := r7 (by untt [hu])
  refine ⟨r1, r2, r3, ?_, r5, r6⟩
  intro hn
  have hnt5 : tn = true → NT (procIfElif (setCur ((bump st).edge cond st.next .condF) st.next) s' e' thn' orelse' merge) te := by
    intro ht
    refine jr.nt htm htl ?_
    simp only [nt_setCur]
    exact NT.edge_tgt (by unfold exitB; omega) ((nt_bump ..).mpr (hte ht).2)
  have hcn : tn = true ∨ ((procIfElif (setCur ((bump st).edge cond st.next .condF) st.next) s' e' thn' orelse' merge).cur = merge ∧ R E merge) := by
    rcases hn with hn | hn
    · exact .inl hn
    · exact .inr (r4 hn)
  by_cases hb1 : (procIfElif (setCur ((bump st).edge cond st.next .condF) st.next) s' e' thn' orelse' merge).unreach.contains
      (procIfElif (setCur ((bump st).edge cond st.next .condF) st.next) s' e' thn' orelse' merge).cur = true
  · rw [if_pos hb1] at hcov ⊢
    by_cases hb2 : (procIfElif (setCur ((bump st).edge cond st.next .condF) st.next) s' e' thn' orelse' merge).blockTerminates te = true
    · rw [if_pos hb2]
      rcases hcn with ht | ⟨hc, hr⟩
      · exfalso
        have := (hnt5 ht).2
        rw [this] at hb2; exact Bool.noConfusion hb2
      · exact Entry.mk' (by rw [hc]; exact hr) (by rw [hc]; exact hu5.nt)
    · rw [if_neg hb2] at hcov ⊢
      simp only [cov_setCur, cov_eue, hasSucc_setCur] at hcov
      refine Entry.mk' ?_ (Untouched.nt ?_)
      · simp only [setCur_cur]
        rcases hcn with ht | ⟨_, hr⟩
        · exact R.step (hte ht).1 (hcov.1 (hnt5 ht).1)
        · exact hr
      · simp only [setCur_cur, unt_setCur]
        exact Untouched.eue htm ((unt_setCur ..).mpr hu5)
  · rw [if_neg hb1] at hcov ⊢
    simp only [cov_setCur, cov_eue] at hcov
    refine Entry.mk' ?_ (Untouched.nt ?_)
    · simp only [setCur_cur]
      rcases hcn with ht | ⟨_, hr⟩
      · exact R.step (hte ht).1 (hcov.1 (hnt5 ht).1)
      · exact hr
    · simp only [setCur_cur, unt_setCur]
      exact Untouched.eue htm hu5

/-- the `elif` / nested-`if` continuation of `procIf` (shared by `procIf_elif` and `procIf_ite`) -/
theorem if_tail (ih : ∀ ss, sizeL ss ≤ N → QL E S ss) (thn a b : List Stmt) (h1 : sizeL thn ≤ N) (ha : sizeL a ≤ N) (hb : sizeL b ≤ N)
    (il : Bool) (st : St) (s e s' e' : Nat) (w : WF st) (hx : st.excs = []) (hok1 : okL il thn = true) (hoka : okL il a = true)
    (hokb : okL il b = true) (he : Entry E st)
    (hcov : Cov E S (procIfElifTail (ifHead st s e thn) st.cur (ifHead st s e thn).cur (st.next + 1) s' e' a b)) :
    Good E S s ∧ (∀ l ∈ (sxL thn).lines, Good E S l) ∧ Good E S s' ∧ (∀ l ∈ (sxL a).lines, Good E S l) ∧ (∀ l ∈ (sxL b).lines, Good E S l) ∧
    (((sxL thn).ex.normal = true ∨ (sxL a).ex.normal = true ∨ (sxL b).ex.normal = true) →
      Entry E (procIfElifTail (ifHead st s e thn) st.cur (ifHead st s e thn).cur (st.next + 1) s' e' a b)) ∧
    (((sxL thn).ex.brk = true ∨ (sxL a).ex.brk = true ∨ (sxL b).ex.brk = true) → ∀ h x d rest, st.loops = (h, x, d) :: rest → R E x) ∧
    (((sxL thn).ex.cont = true ∨ (sxL a).ex.cont = true ∨ (sxL b).ex.cont = true) → ∀ h x d rest, st.loops = (h, x, d) :: rest → R E h) := by
  have hcur := w.cur
  have h2 := w.two
  obtain ⟨k, smk, hnx⟩ := ifHead_frame (c := st.cur) (n := 0) (frame_all N).2 thn h1 st s e w (Or.inl rfl) (Nat.zero_le _)
  have hk := k.wf.cur
  obtain ⟨jt, _⟩ := elifTail_frame (c := (ifHead st s e thn).cur) (n := 0) (frame_all N).2 a b ha hb (Inv.refl k.wf (Or.inl rfl)) (Nat.zero_le _)
    st.cur (ifHead st s e thn).cur (st.next + 1) s' e' (Or.inr (Nat.zero_le _)) (by omega) (Or.inl rfl) hk (Or.inr (Nat.zero_le _)) (by omega)
  have hc3 := Cov.of_inv jt hcov
  obtain ⟨g1, hpt, jh, smh, huh⟩ := ifHead_sound ih thn h1 il st s e w hx hok1 hc3 he
  have hown := jh.own
  have hx3 : (ifHead st s e thn).excs = [] := by rw [smh.excs]; exact hx
  obtain ⟨r1, r2, r3, r4, r5, r6⟩ := elifTail_sound a b ha hb (elif_sound ih _ a b (Nat.le_refl _) ha hb) il (ifHead st s e thn) st.cur
    (ifHead st s e thn).cur (st.next + 1) s' e' (sxL thn).ex.normal k.wf hx3 hoka hokb (by omega) he.reach hk (by ob) (by omega)
    (by unfold exitB; omega) (by omega) (huh (st.next + 1) (by omega) (by omega) (by omega) (w.untouched (by omega)))
    (fun h => ⟨(hpt.normal h).reach, (hpt.normal h).nt⟩) hcov
  rw [smh.loops] at r5 r6
  refine ⟨g1, hpt.lines, r1, r2, r3, r4, ?_, ?_⟩
  · rintro (hn | hn)
    · exact hpt.brk hn
    · exact r5 hn
  · rintro (hn | hn)
    · exact hpt.cont hn
    · exact r6 hn

theorem or3 {a b c : Bool} : (a || (b || c)) = true ↔ (a = true ∨ b = true ∨ c = true) := by
  cases a <;> cases b <;> cases c <;> simp

theorem if_sound (ih : ∀ ss, sizeL ss ≤ N → QL E S ss) (thn orelse : List Stmt) (h1 : sizeL thn ≤ N) (h2 : sizeL orelse ≤ N)
    (il : Bool) (st : St) (s e : Nat) (w : WF st) (hx : st.excs = []) (hok1 : okL il thn = true) (hok2 : okL il orelse = true)
    (hcov : Cov E S (procIf st s e thn orelse)) (he : Entry E st) :
    Good E S s ∧ (∀ l ∈ (sxL thn).lines, Good E S l) ∧ (∀ l ∈ (sxL orelse).lines, Good E S l) ∧
    (((sxL thn).ex.union (sxL orelse).ex).normal = true → Entry E (procIf st s e thn orelse)) ∧
    (((sxL thn).ex.union (sxL orelse).ex).brk = true → ∀ h x d rest, st.loops = (h, x, d) :: rest → R E x) ∧
    (((sxL thn).ex.union (sxL orelse).ex).cont = true → ∀ h x d rest, st.loops = (h, x, d) :: rest → R E h) := by
  have hcur := w.cur
  have h2' := w.two
  rcases orelse_cases orelse with rfl | ⟨s', e', a, b, rfl⟩ | ⟨s', e', a, b, rfl⟩ | ⟨o, os, rfl, hne1, hne2⟩
  · rw [procIf_nil] at hcov ⊢
    simp only [] at hcov ⊢
    simp only [cov_setCur, cov_eue, cov_edge] at hcov
    obtain ⟨_, e1, hc3⟩ := hcov
    obtain ⟨g1, hpt, jh, smh, huh⟩ := ifHead_sound ih thn h1 il st s e w hx hok1 hc3 he
    have hown := jh.own
    rw [sxL_nil]
    simp only [ex_union_brk, ex_union_cont, Bool.or_false]
    refine ⟨g1, hpt.lines, (fun l h => by cases h), fun _ => Entry.mk' (R.step he.reach e1) (Untouched.nt ?_), hpt.brk, hpt.cont⟩
    simp only [setCur_cur, unt_setCur]
    exact Untouched.eue (by ob) ((unt_edge ..).mpr ⟨by omega, huh (st.next + 1) (by omega) (by omega) (by omega) (w.untouched (by omega))⟩)
  · rw [procIf_elif] at hcov ⊢
    have hsz : sizeL a ≤ N ∧ sizeL b ≤ N := by simp only [sizeL, Stmt.size] at h2; omega
    obtain ⟨hoka, hokb⟩ := okL_single_elifc hok2
    obtain ⟨r1, r2, _, r4, r5, r6, r7, r8⟩ := if_tail ih thn a b h1 hsz.1 hsz.2 il st s e 0 0 w hx hok1 hoka hokb he hcov
    obtain ⟨q1, _, q3⟩ := sxL_single (.elifc s' e' a b)
    rw [q1, q3, sxS_elifc]
    simp only [ex_union_normal, ex_union_brk, ex_union_cont, or3]
    exact ⟨r1, r2, lines_append r4 r5, r6, r7, r8⟩
  · rw [procIf_ite] at hcov ⊢
    have hsz : sizeL a ≤ N ∧ sizeL b ≤ N := by simp only [sizeL, Stmt.size] at h2; omega
    obtain ⟨hoka, hokb⟩ := okL_single_ite hok2
    obtain ⟨r1, r2, r3, r4, r5, r6, r7, r8⟩ := if_tail ih thn a b h1 hsz.1 hsz.2 il st s e s' e' w hx hok1 hoka hokb he hcov
    obtain ⟨q1, _, q3⟩ := sxL_single (.ite s' e' a b)
    rw [q1, q3, sxS_ite]
    simp only [ex_union_normal, ex_union_brk, ex_union_cont, or3]
    exact ⟨r1, r2, lines_cons r3 (lines_append r4 r5), r6, r7, r8⟩
  · rw [procIf_else _ _ _ _ _ _ hne1 hne2] at hcov ⊢
    simp only [] at hcov ⊢
    obtain ⟨k, smk, hnx⟩ := ifHead_frame (c := st.cur) (n := 0) (frame_all N).2 thn h1 st s e w (Or.inl rfl) (Nat.zero_le _)
    have hk := k.wf.cur
    have hx3 : (ifHead st s e thn).excs = [] := by rw [smk.excs]; exact hx
    have hc5 : Cov E S (elseTail (ifHead st s e thn) st.cur (ifHead st s e thn).cur (o :: os)) := by
      split at hcov
      · exact hcov
      · simp only [cov_setCur, cov_eue] at hcov
        exact hcov.2.2
    obtain ⟨hpe, j5, sm5, hc3, hnt5, hu5⟩ := elseTail_sound ih (o :: os) h2 il _ st.cur (ifHead st s e thn).cur k.wf hx3 hok2 (by omega) he.reach hc5
    obtain ⟨g1, hpt, jh, smh, huh⟩ := ifHead_sound ih thn h1 il st s e w hx hok1 hc3 he
    have hown := jh.own
    have hown5 := j5.own
    have hl5 : (ifHead st s e thn).loops = st.loops := smh.loops
    simp only [ex_union_normal, ex_union_brk, ex_union_cont, Bool.or_eq_true]
    refine ⟨g1, hpt.lines, hpe.lines, ?_, ?_, ?_⟩
    · intro hn
      by_cases hb : ((elseTail (ifHead st s e thn) st.cur (ifHead st s e thn).cur (o :: os)).blockTerminates (ifHead st s e thn).cur &&
          (elseTail (ifHead st s e thn) st.cur (ifHead st s e thn).cur (o :: os)).blockTerminates
            (elseTail (ifHead st s e thn) st.cur (ifHead st s e thn).cur (o :: os)).cur) = true
      · exfalso
        rw [Bool.and_eq_true] at hb
        rcases hn with hn | hn
        · have := (hnt5 _ hk (hpt.normal hn).nt).2
          rw [this] at hb; exact Bool.noConfusion hb.1
        · have := (hpe.normal hn).noTerm
          rw [this] at hb; exact Bool.noConfusion hb.2
      · rw [if_neg hb] at hcov ⊢
        simp only [cov_setCur, cov_eue, edgeUnlessExit_cur] at hcov
        obtain ⟨f2, f1, _⟩ := hcov
        refine Entry.mk' ?_ (Untouched.nt ?_)
        · simp only [setCur_cur]
          rcases hn with hn | hn
          · have he3 := hpt.normal hn
            exact R.step he3.reach (f1 (hnt5 _ hk he3.nt).1)
          · have he5 := hpe.normal hn
            exact R.step he5.reach (f2 (he5.nt.eue_tgt (by unfold exitB; omega)).1)
        · simp only [setCur_cur, unt_setCur, edgeUnlessExit_cur]
          exact Untouched.eue (by ob) (Untouched.eue (by ob) (hu5 (st.next + 1) (by omega) (by omega)
            (huh (st.next + 1) (by omega) (by omega) (by omega) (w.untouched (by omega)))))
    · rintro (hn | hn)
      · exact hpt.brk hn
      · rw [← hl5]; exact hpe.brk hn
    · rintro (hn | hn)
      · exact hpt.cont hn
      · rw [← hl5]; exact hpe.cont hn

theorem stmt_sound (ih : ∀ ss, sizeL ss ≤ N → QL E S ss) (x : Stmt) (hsz : x.size ≤ N + 1) : QS E S x := by
  cases x with
  | simple s e c h => exact simple_sound s e c h
  | ret s e c h => exact ret_sound s e c h
  | brk s e => exact brk_sound s e
  | cont s e => exact cont_sound s e
  | raise s e => exact raise_sound s e
  | def_ s e b => exact def_sound s e b
  | ite s e a b =>
    simp only [Stmt.size] at hsz
    intro il st w hx hok hcov he
    rw [procStmt_ite] at hcov ⊢
    rw [sxS_ite]
    rw [okS_ite, Bool.and_eq_true] at hok
    obtain ⟨r1, r2, r3, r4, r5, r6⟩ := if_sound ih a b (by omega) (by omega) il st s e w hx hok.1 hok.2 hcov he
    exact ⟨lines_cons r1 (lines_append r2 r3), r4, r5, r6⟩
  | elifc s e a b =>
    simp only [Stmt.size] at hsz
    intro il st w hx hok hcov he
    rw [procStmt_elifc] at hcov ⊢
    rw [sxS_elifc]
    rw [okS_elifc, Bool.and_eq_true] at hok
    obtain ⟨_, r2, r3, r4, r5, r6⟩ := if_sound ih a b (by omega) (by omega) il st 0 0 w hx hok.1 hok.2 hcov he
    exact ⟨lines_append r2 r3, r4, r5, r6⟩
  | elsec s e a =>
    simp only [Stmt.size] at hsz
    intro il st w hx hok hcov he
    rw [procStmt_elsec] at hcov ⊢
    rw [sxS_elsec]
    rw [okS_elsec] at hok
    exact ih a (by omega) il st w hx hok hcov he
  | loop s e a b =>
    simp only [Stmt.size] at hsz
    exact loop_sound ih a b (by omega) (by omega) s e
  | try_ s e a b c d => intro il st w hx hok; rw [okS_try] at hok; cases hok
  | handler s e a => intro il st w hx hok; rw [okS_handler] at hok; cases hok
  | with_ s e a =>
    simp only [Stmt.size] at hsz
    exact with_sound ih a (by omega) s e
  | match_ s e cs =>
    simp only [Stmt.size] at hsz
    exact match_sound ih cs (by omega) s e
  | case_ s e a => intro il st w hx hok; rw [okS_case] at hok; cases hok
  | class_ s e a =>
    simp only [Stmt.size] at hsz
    exact class_sound ih a (by omega) s e

theorem list_sound (ihS : ∀ x : Stmt, x.size ≤ N → QS E S x) (ihL : ∀ ss, sizeL ss ≤ N → QL E S ss) (ss : List Stmt) (hsz : sizeL ss ≤ N + 1) :
    QL E S ss := by
  intro il st w hx hok hcov he
  rcases ss with _ | ⟨x, xs⟩
  · rw [procList_nil]
    rw [sxL_nil]
    exact ⟨(fun l h => by cases h), fun _ => he, ff, ff⟩
  · simp only [sizeL] at hsz
    rw [procList_cons] at hcov ⊢
    rw [sxL_cons]
    rw [okL_cons, Bool.and_eq_true] at hok
    obtain ⟨j1, sm1⟩ := procStmt_frame x st w st.cur 0 (Or.inl rfl) (Nat.zero_le _)
    obtain ⟨j2, _⟩ := procList_frame xs _ j1.wf st.cur 0 (Or.inr (Nat.zero_le _)) (Nat.zero_le _)
    have hc1 := Cov.of_inv j2 hcov
    have hp1 := ihS x (by omega) il st w hx hok.1 hc1 he
    by_cases hn : (sxS x).ex.normal = true
    · rw [if_pos hn]
      have hp2 := ihL xs (by omega) il _ j1.wf (by rw [sm1.excs]; exact hx) hok.2 hcov (hp1.normal hn)
      refine ⟨lines_append hp1.lines hp2.lines, hp2.normal, ?_, ?_⟩
      · intro hb
        rcases Bool.or_eq_true_iff.mp hb with hb | hb
        · exact hp1.brk hb
        · rw [← sm1.loops]; exact hp2.brk hb
      · intro hb
        rcases Bool.or_eq_true_iff.mp hb with hb | hb
        · exact hp1.cont hb
        · rw [← sm1.loops]; exact hp2.cont hb
    · rw [if_neg hn]
      exact ⟨hp1.lines, fun h => absurd h hn, hp1.brk, hp1.cont⟩

end compound

theorem sound_all (E : List Edge) (S : List SRec) : ∀ N, (∀ x : Stmt, x.size ≤ N → QS E S x) ∧ (∀ ss, sizeL ss ≤ N → QL E S ss) := by
  intro N
  induction N with
  | zero =>
    constructor
    · intro x hsz; have := Stmt.size_pos x; omega
    · intro ss hsz
      exact list_sound (N := 0) (fun x hx => by have := Stmt.size_pos x; omega) (fun ss hs => by
        rcases ss with _ | ⟨x, xs⟩
        · intro il st w hx hok hcov he
          rw [procList_nil, sxL_nil]
          exact ⟨(fun l h => by cases h), fun _ => he, ff, ff⟩
        · simp only [sizeL] at hs; omega) ss (by omega)
  | succ N ih => exact ⟨fun x hx => stmt_sound ih.2 x hx, fun ss hs => list_sound ih.1 ih.2 ss hs⟩

end sound

/-- **Soundness of the builder mirror for statement lists** (stage S2: no `try`). -/
theorem sound_list : ∀ (ss : List Stmt) (il : Bool) (st : St), WF st → st.excs = [] → okL il ss = true → (il = true → st.loops ≠ []) →
    ∀ (E : List Edge) (S : List SRec), (∀ e ∈ (procList st ss).edges, e ∈ E) → (∀ r ∈ (procList st ss).stmts, r ∈ S) →
      Entry E st → Post E S st (procList st ss) (sxL ss) := by
  intro ss il st w hx hok _ E S h1 h2 he
  exact (sound_all E S (sizeL ss)).2 ss (Nat.le_refl _) il st w hx hok ⟨h1, h2⟩ he

/-! ### the whole definition -/
/-- the builder state in which the body of a definition is processed -/
def preB (k : Kind) (s e : Nat) : St :=
  match k with
  | .module => initSt
  | .func => setCur ((bump initSt).edge 0 2 .normal) 2
  | .cls => (setCur ((bump initSt).edge 0 2 .normal) 2).add 2 s e .other

def finishB (st : St) : St := if st.cur != exitB && !st.hasSucc st.cur exitB then st.edge st.cur exitB .normal else st

theorem build_eq (k : Kind) (s e : Nat) (body : List Stmt) : build k s e body = finishB (procList (preB k s e) body) := by
  unfold build finishB preB
  cases k <;> rfl

theorem WF_initSt : WF initSt :=
  ⟨Nat.le_refl _, (by decide), (fun _ h => by cases h), (fun _ h => by cases h), (fun _ h => by cases h), (fun _ h => by cases h)⟩

theorem preB_inv (k : Kind) (s e : Nat) : Inv 0 0 initSt (preB k s e) := by
  have i0 : Inv 0 0 initSt initSt := Inv.refl WF_initSt (Or.inl rfl)
  have h2 : initSt.next = 2 := rfl
  have h0 : initSt.cur = 0 := rfl
  cases k
  · exact (i0.bump.edge (a := 0) (b := 2) (t := .normal) (by ob) (by ob) (by ob)).setCur (x := 2) (by ob) (by ob)
  · exact ((i0.bump.edge (a := 0) (b := 2) (t := .normal) (by ob) (by ob) (by ob)).setCur (x := 2) (by ob) (by ob)).add
      (b := 2) (p := s) (q := e) (ty := .other) (by ob) (by ob)
  · exact i0

theorem preB_entry {E : List Edge} (k : Kind) (s e : Nat) (hE : ∀ x ∈ (preB k s e).edges, x ∈ E) : Entry E (preB k s e) := by
  have hu0 : Untouched initSt 0 := ⟨(fun _ h => by cases h), (fun _ h => by cases h)⟩
  have hu2 : Untouched initSt 2 := ⟨(fun _ h => by cases h), (fun _ h => by cases h)⟩
  cases k
  · have hr : R E 2 := R.step R.entry (hE (0, 2, .normal) (by simp [preB]))
    exact Entry.mk' hr (Untouched.nt (by unfold preB; untt [hu2]))
  · have hr : R E 2 := R.step R.entry (hE (0, 2, .normal) (by simp [preB]))
    refine Entry.mk' hr ?_
    have : NT (setCur ((bump initSt).edge 0 2 .normal) 2) 2 := Untouched.nt (by untt [hu2])
    exact this.add_other
  · exact Entry.mk' R.entry (Untouched.nt hu0)

/-- **Soundness of the mirror for one definition**: every line of the static summary has a statement record in a
block that the mirror's own reachability search reaches. -/
theorem build_sound (k : Kind) (s e : Nat) (body : List Stmt) (hok : okL false body = true) :
    ∀ l ∈ (sxL body).lines, ∃ r ∈ (build k s e body).stmts, r.s = l ∧ r.blk ∈ reachable (build k s e body) := by
  intro l hl
  have ipre := preB_inv k s e
  obtain ⟨j, sm⟩ := procList_frame body _ ipre.wf 0 0 (Or.inr (Nat.zero_le _)) (Nat.zero_le _)
  have hsub : Sub (procList (preB k s e) body) (build k s e body) := by
    rw [build_eq]; unfold finishB
    split
    · exact ⟨fun x h => List.mem_cons_of_mem _ h, fun _ h => h⟩
    · exact Sub.refl _
  have hx : (preB k s e).excs = [] := by cases k <;> rfl
  have hpost := sound_list body false (preB k s e) ipre.wf hx hok (fun h => by cases h) (build k s e body).edges (build k s e body).stmts
    hsub.1 hsub.2 (preB_entry k s e (fun x h => hsub.1 x (j.sub.1 x h)))
  obtain ⟨r, hr, hrs, hrr⟩ := hpost.lines l hl
  refine ⟨r, hr, hrs, ?_⟩
  have hwf : WF (build k s e body) := by
    rw [build_eq]; unfold finishB
    have h2 := j.wf.two
    have hc := j.wf.cur
    split
    · exact (j.edge (a := (procList (preB k s e) body).cur) (b := exitB) (t := .normal) (Or.inr (Nat.zero_le _)) hc (by unfold exitB; omega)).wf
    · exact j.wf
  exact reachable_complete _ (by have := hwf.two; omega) hwf.edges hrr

/-- **Soundness of the mirror against the semantics**: every line that any execution of the body executes is either an
`elif` head (stored by the builder without a location) or has a statement record in a reachable block. -/
theorem mirror_sound (k : Kind) (s e : Nat) (body : List Stmt) (hok : okL false body = true) {o : Out} {tr : List Nat}
    (ex : Exec body o tr) :
    ∀ l ∈ tr, l ∈ (sxL body).skipped ∨ ∃ r ∈ (build k s e body).stmts, r.s = l ∧ r.blk ∈ reachable (build k s e body) := by
  intro l hl
  have h1 := (PV.C01.C01_live_sound ex).2 l hl
  rcases (live_le_sx body false hok).1 l h1 with h | h
  · exact .inr (build_sound k s e body hok l h)
  · exact .inl h

end PV.CFGSound

#print axioms PV.CFGSound.sound_list
#print axioms PV.CFGSound.live_le_sx
#print axioms PV.CFGSound.build_sound
#print axioms PV.CFGSound.mirror_sound
