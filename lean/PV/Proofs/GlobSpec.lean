import PV.Model.Files
/-!
# What a glob pattern MEANS (declarative), and that the executable matcher of `PV.Model.Files` decides it

* `MatchSeg p s` — the segment `s` (no `/` inside) is described by the pattern segment `p`:
  a literal character stands for itself, `?` for exactly one character, `*` for any string. `*` and `?` are special in the
  PATTERN only (in the path they are ordinary characters), and there is no escape: a pattern cannot ask for a literal `*` / `?`
  other than through `?` / `*`.
* `MatchComps ps cs` — the component list `cs` is described by the pattern components `ps`: a component that is exactly `**`
  stands for zero or more components, any other component for exactly one component, by `MatchSeg`.
* `globSeg_iff` / `globComps_iff` — the executable functions decide these relations.
* closed forms (`matchSeg_star_iff`, `matchComps_doublestar_iff`, `matchSeg_literal`, `matchSeg_star_suffix`,
  `matchSeg_prefix_star_suffix`) and the "one piece per pattern element" reading (`matchSeg_iff_pieces`, `matchComps_iff_pieces`).
-/
namespace PV.Files

/-! ## one segment -/

inductive MatchSeg : List Char → List Char → Prop
  /-- the empty pattern describes the empty segment only -/
  | nil : MatchSeg [] []
  /-- a literal character (neither `*` nor `?`) describes itself -/
  | lit {a : Char} {p s : List Char} : a ≠ '*' → a ≠ '?' → MatchSeg p s → MatchSeg (a :: p) (a :: s)
  /-- `?` describes any one character -/
  | one {p s : List Char} (c : Char) : MatchSeg p s → MatchSeg ('?' :: p) (c :: s)
  /-- `*` describes the empty string … -/
  | star_zero {p s : List Char} : MatchSeg p s → MatchSeg ('*' :: p) s
  /-- … and one more character -/
  | star_more {p s : List Char} (c : Char) : MatchSeg ('*' :: p) s → MatchSeg ('*' :: p) (c :: s)

theorem globSeg_sound (p s : List Char) : globSeg p s = true → MatchSeg p s := by
  fun_induction globSeg p s
  case case1 => intro _; exact .nil
  case case2 => intro h; cases h
  case case3 p ih => intro h; exact .star_zero (ih h)
  case case4 p c s ih2 ih1 =>
    intro h
    rcases Bool.or_eq_true _ _ |>.mp h with h | h
    · exact .star_zero (ih2 h)
    · exact .star_more c (ih1 h)
  case case5 p c s ih => intro h; exact .one c (ih h)
  case case6 => intro h; cases h
  case case7 a p c s h1 h2 ih =>
    intro h
    rcases Bool.and_eq_true _ _ |>.mp h with ⟨hac, hps⟩
    have : a = c := by simpa using hac
    subst this
    exact .lit (fun e => h1 e) (fun e => h2 e) (ih hps)

theorem globSeg_star_nil (p : List Char) : globSeg ('*' :: p) [] = globSeg p [] := by rw [globSeg]

theorem globSeg_star_cons (p : List Char) (c : Char) (s : List Char) :
    globSeg ('*' :: p) (c :: s) = (globSeg p (c :: s) || globSeg ('*' :: p) s) := by rw [globSeg]

theorem globSeg_one_cons (p : List Char) (c : Char) (s : List Char) : globSeg ('?' :: p) (c :: s) = globSeg p s := by rw [globSeg]

theorem globSeg_lit_cons {a : Char} (h1 : a ≠ '*') (h2 : a ≠ '?') (p : List Char) (c : Char) (s : List Char) :
    globSeg (a :: p) (c :: s) = (a == c && globSeg p s) := by
  rw [globSeg]
  · exact fun e => h1 e
  · exact fun e => h2 e

theorem globSeg_complete {p s : List Char} (h : MatchSeg p s) : globSeg p s = true := by
  induction h with
  | nil => rw [globSeg]
  | lit h1 h2 _ ih => rw [globSeg_lit_cons h1 h2]; simp [ih]
  | one c _ ih => rw [globSeg_one_cons]; exact ih
  | @star_zero p s _ ih =>
    cases s with
    | nil => rw [globSeg_star_nil]; exact ih
    | cons c s => rw [globSeg_star_cons, ih]; rfl
  | star_more c _ ih => rw [globSeg_star_cons, ih]; simp

/-- **the executable segment matcher decides `MatchSeg`** -/
theorem globSeg_iff (p s : List Char) : globSeg p s = true ↔ MatchSeg p s := ⟨globSeg_sound p s, globSeg_complete⟩

instance (p s : List Char) : Decidable (MatchSeg p s) := decidable_of_iff _ (globSeg_iff p s)

/-! ### inversion, one pattern element at a time -/

theorem matchSeg_nil_iff (s : List Char) : MatchSeg [] s ↔ s = [] := by
  rw [← globSeg_iff]
  cases s <;> simp [globSeg]

theorem matchSeg_one_iff (p s : List Char) : MatchSeg ('?' :: p) s ↔ ∃ c t, s = c :: t ∧ MatchSeg p t := by
  constructor
  · intro h
    cases s with
    | nil => rw [← globSeg_iff, globSeg] at h; cases h; decide
    | cons c t => rw [← globSeg_iff, globSeg_one_cons, globSeg_iff] at h; exact ⟨c, t, rfl, h⟩
  · rintro ⟨c, t, rfl, h⟩; exact .one c h

theorem matchSeg_lit_iff {a : Char} (h1 : a ≠ '*') (h2 : a ≠ '?') (p s : List Char) :
    MatchSeg (a :: p) s ↔ ∃ t, s = a :: t ∧ MatchSeg p t := by
  constructor
  · intro h
    cases s with
    | nil => rw [← globSeg_iff, globSeg] at h; cases h; exact fun e => h1 e
    | cons c t =>
      rw [← globSeg_iff, globSeg_lit_cons h1 h2, Bool.and_eq_true, globSeg_iff] at h
      have : a = c := by simpa using h.1
      subst this
      exact ⟨t, rfl, h.2⟩
  · rintro ⟨t, rfl, h⟩; exact .lit h1 h2 h

/-- **`*` = any string, then the rest** -/
theorem matchSeg_star_iff (p s : List Char) : MatchSeg ('*' :: p) s ↔ ∃ s₁ s₂, s = s₁ ++ s₂ ∧ MatchSeg p s₂ := by
  constructor
  · intro h
    generalize hq : '*' :: p = q at h
    induction h with
    | nil => cases hq
    | lit h1 _ _ _ => injection hq with ha; exact absurd ha.symm h1
    | one c _ _ => injection hq with ha; exact absurd ha (by decide)
    | star_zero h _ => injection hq with _ hp; subst hp; exact ⟨[], _, rfl, h⟩
    | star_more c _ ih =>
      injection hq with _ hp; subst hp
      obtain ⟨s₁, s₂, rfl, h2⟩ := ih rfl
      exact ⟨c :: s₁, s₂, rfl, h2⟩
  · rintro ⟨s₁, s₂, rfl, h⟩
    induction s₁ with
    | nil => exact .star_zero h
    | cons c s₁ ih => exact .star_more c ih

/-! ### closed forms -/

/-- no wildcard in the pattern -/
def Literal (p : List Char) : Prop := ∀ c ∈ p, c ≠ '*' ∧ c ≠ '?'

instance (p : List Char) : Decidable (Literal p) := by unfold Literal; infer_instance

/-- **a pattern without wildcards describes itself and nothing else** -/
theorem matchSeg_literal {p : List Char} (hp : Literal p) (s : List Char) : MatchSeg p s ↔ s = p := by
  induction p generalizing s with
  | nil => exact matchSeg_nil_iff s
  | cons a p ih =>
    have ha := hp a (List.mem_cons_self ..)
    have hp' : Literal p := fun c hc => hp c (List.mem_cons_of_mem _ hc)
    rw [matchSeg_lit_iff ha.1 ha.2]
    constructor
    · rintro ⟨t, rfl, h⟩; rw [(ih hp' t).mp h]
    · rintro rfl; exact ⟨p, rfl, (ih hp' p).mpr rfl⟩

/-- a literal prefix must be there, the rest of the pattern describes the rest of the segment -/
theorem matchSeg_literal_append {pre : List Char} (hp : Literal pre) (q s : List Char) :
    MatchSeg (pre ++ q) s ↔ ∃ t, s = pre ++ t ∧ MatchSeg q t := by
  induction pre generalizing s with
  | nil => exact ⟨fun h => ⟨s, rfl, h⟩, fun ⟨t, e, h⟩ => by rw [e]; exact h⟩
  | cons a pre ih =>
    have ha := hp a (List.mem_cons_self ..)
    have hp' : Literal pre := fun c hc => hp c (List.mem_cons_of_mem _ hc)
    rw [List.cons_append, matchSeg_lit_iff ha.1 ha.2]
    constructor
    · rintro ⟨t, rfl, h⟩
      obtain ⟨u, rfl, hu⟩ := (ih hp' t).mp h
      exact ⟨u, rfl, hu⟩
    · rintro ⟨u, rfl, hu⟩
      exact ⟨pre ++ u, rfl, (ih hp' _).mpr ⟨u, rfl, hu⟩⟩

/-- **`*suffix`** (`*.py`, `*_test.py`, `*.egg-info`): exactly the segments that end in the suffix -/
theorem matchSeg_star_suffix {suf : List Char} (hs : Literal suf) (s : List Char) :
    MatchSeg ('*' :: suf) s ↔ ∃ pre, s = pre ++ suf := by
  rw [matchSeg_star_iff]
  constructor
  · rintro ⟨s₁, s₂, rfl, h⟩; exact ⟨s₁, by rw [(matchSeg_literal hs s₂).mp h]⟩
  · rintro ⟨pre, rfl⟩; exact ⟨pre, suf, rfl, (matchSeg_literal hs suf).mpr rfl⟩

/-- `*` alone describes every segment -/
theorem matchSeg_star_all (s : List Char) : MatchSeg ['*'] s :=
  (matchSeg_star_suffix (suf := []) (fun _ h => nomatch h) s).mpr ⟨s, (List.append_nil s).symm⟩

/-- **`prefix*suffix`** (`test_*.py`): exactly the segments that begin with the prefix and, after it, end in the suffix -/
theorem matchSeg_prefix_star_suffix {pre suf : List Char} (hp : Literal pre) (hs : Literal suf) (s : List Char) :
    MatchSeg (pre ++ '*' :: suf) s ↔ ∃ mid, s = pre ++ (mid ++ suf) := by
  rw [matchSeg_literal_append hp]
  constructor
  · rintro ⟨t, rfl, h⟩
    obtain ⟨mid, rfl⟩ := (matchSeg_star_suffix hs t).mp h
    exact ⟨mid, rfl⟩
  · rintro ⟨mid, rfl⟩
    exact ⟨mid ++ suf, rfl, (matchSeg_star_suffix hs _).mpr ⟨mid, rfl⟩⟩

/-- `prefix*` -/
theorem matchSeg_prefix_star {pre : List Char} (hp : Literal pre) (s : List Char) :
    MatchSeg (pre ++ ['*']) s ↔ ∃ rest, s = pre ++ rest := by
  rw [matchSeg_literal_append hp]
  constructor
  · rintro ⟨t, rfl, _⟩; exact ⟨t, rfl⟩
  · rintro ⟨t, rfl⟩; exact ⟨t, rfl, matchSeg_star_all t⟩

/-- `*suffix`, said with `List.IsSuffix` -/
theorem matchSeg_star_suffix_iff_isSuffix {suf : List Char} (hs : Literal suf) (s : List Char) :
    MatchSeg ('*' :: suf) s ↔ suf <:+ s := by
  rw [matchSeg_star_suffix hs]
  exact ⟨fun ⟨pre, e⟩ => ⟨pre, e.symm⟩, fun ⟨pre, e⟩ => ⟨pre, e.symm⟩⟩

/-- `prefix*suffix`, said with `List.IsPrefix` / `List.IsSuffix`: the two must not overlap -/
theorem matchSeg_prefix_star_suffix_iff {pre suf : List Char} (hp : Literal pre) (hs : Literal suf) (s : List Char) :
    MatchSeg (pre ++ '*' :: suf) s ↔ pre <+: s ∧ suf <:+ s ∧ pre.length + suf.length ≤ s.length := by
  rw [matchSeg_prefix_star_suffix hp hs]
  constructor
  · rintro ⟨mid, rfl⟩
    refine ⟨List.prefix_append _ _, ?_, ?_⟩
    · rw [← List.append_assoc]; exact List.suffix_append _ _
    · simp only [List.length_append]; omega
  · rintro ⟨⟨t, rfl⟩, h2, h3⟩
    have : suf <:+ t := List.suffix_of_suffix_length_le h2 (List.suffix_append pre t) (by
      simp only [List.length_append] at h3; omega)
    obtain ⟨mid, rfl⟩ := this
    exact ⟨mid, rfl⟩

/-! ### the language reading: the segment is cut into one piece per pattern element -/

/-- what one pattern element accepts -/
def Fits (a : Char) (w : List Char) : Prop :=
  if a = '*' then True else if a = '?' then ∃ c, w = [c] else w = [a]

/-- `ws` has one piece for each pattern element, each accepted by its element -/
def SegPieces : List Char → List (List Char) → Prop
  | [], [] => True
  | a :: p, w :: ws => Fits a w ∧ SegPieces p ws
  | _, _ => False

/-- **`MatchSeg p s` ⇔ `s` is the concatenation of pieces, one per pattern element, each accepted by its element** -/
theorem matchSeg_iff_pieces (p s : List Char) : MatchSeg p s ↔ ∃ ws, SegPieces p ws ∧ s = ws.flatten := by
  induction p generalizing s with
  | nil =>
    rw [matchSeg_nil_iff]
    constructor
    · rintro rfl; exact ⟨[], trivial, rfl⟩
    · rintro ⟨ws, h, rfl⟩
      cases ws with
      | nil => rfl
      | cons w ws => exact h.elim
  | cons a p ih =>
    have inv : MatchSeg (a :: p) s ↔ ∃ w s₂, s = w ++ s₂ ∧ Fits a w ∧ MatchSeg p s₂ := by
      by_cases h1 : a = '*'
      · subst h1
        rw [matchSeg_star_iff]
        constructor
        · rintro ⟨w, s₂, e, h⟩; exact ⟨w, s₂, e, by simp [Fits], h⟩
        · rintro ⟨w, s₂, e, _, h⟩; exact ⟨w, s₂, e, h⟩
      · by_cases h2 : a = '?'
        · subst h2
          rw [matchSeg_one_iff]
          constructor
          · rintro ⟨c, t, e, h⟩; exact ⟨[c], t, e, by simp [Fits], h⟩
          · rintro ⟨w, s₂, e, hw, h⟩
            simp only [Fits, h1, if_false, if_true] at hw
            obtain ⟨c, rfl⟩ := hw
            exact ⟨c, s₂, e, h⟩
        · rw [matchSeg_lit_iff h1 h2]
          constructor
          · rintro ⟨t, e, h⟩; exact ⟨[a], t, e, by simp [Fits, h1, h2], h⟩
          · rintro ⟨w, s₂, e, hw, h⟩
            simp only [Fits, h1, h2, if_false] at hw
            subst hw
            exact ⟨s₂, e, h⟩
    rw [inv]
    constructor
    · rintro ⟨w, s₂, rfl, hw, h2⟩
      obtain ⟨ws, hws, rfl⟩ := (ih s₂).mp h2
      exact ⟨w :: ws, ⟨hw, hws⟩, rfl⟩
    · rintro ⟨ws, hws, rfl⟩
      cases ws with
      | nil => exact hws.elim
      | cons w ws => exact ⟨w, ws.flatten, rfl, hws.1, (ih _).mpr ⟨ws, hws.2, rfl⟩⟩

/-! ## component lists -/

inductive MatchComps : List String → List String → Prop
  /-- the empty pattern describes the empty path only -/
  | nil : MatchComps [] []
  /-- a component that is exactly `**` describes no component at all … -/
  | dstar_zero {ps cs : List String} : MatchComps ps cs → MatchComps ("**" :: ps) cs
  /-- … and one more component, whatever it is -/
  | dstar_more {ps cs : List String} (c : String) : MatchComps ("**" :: ps) cs → MatchComps ("**" :: ps) (c :: cs)
  /-- any other component describes exactly one path component, by `MatchSeg` (so `*` never crosses a `/`) -/
  | comp {p c : String} {ps cs : List String} : p ≠ "**" → MatchSeg p.toList c.toList → MatchComps ps cs →
      MatchComps (p :: ps) (c :: cs)

theorem globComps_nil_nil : globComps [] [] = true := by rw [globComps]

theorem globComps_nil_cons (c : String) (cs : List String) : globComps [] (c :: cs) = false := by rw [globComps]

theorem globComps_cons_nil (p : String) (ps : List String) : globComps (p :: ps) [] = (p == "**" && globComps ps []) := by
  rw [globComps]

theorem globComps_dstar_cons (ps : List String) (c : String) (cs : List String) :
    globComps ("**" :: ps) (c :: cs) = (globComps ps (c :: cs) || globComps ("**" :: ps) cs) := by
  rw [globComps]; simp

theorem globComps_comp_cons {p : String} (hp : p ≠ "**") (ps : List String) (c : String) (cs : List String) :
    globComps (p :: ps) (c :: cs) = (globSeg p.toList c.toList && globComps ps cs) := by
  rw [globComps]; simp [hp]

theorem globComps_sound (ps cs : List String) : globComps ps cs = true → MatchComps ps cs := by
  fun_induction globComps ps cs
  case case1 => intro _; exact .nil
  case case2 => intro h; cases h
  case case3 p ps ih =>
    intro h
    rcases Bool.and_eq_true _ _ |>.mp h with ⟨hp, h⟩
    have : p = "**" := by simpa using hp
    subst this
    exact .dstar_zero (ih h)
  case case4 p ps c cs hp ih2 ih1 =>
    intro h
    have : p = "**" := by simpa using hp
    subst this
    rcases Bool.or_eq_true _ _ |>.mp h with h | h
    · exact .dstar_zero (ih2 h)
    · exact .dstar_more c (ih1 h)
  case case5 p ps c cs hp ih =>
    intro h
    rcases Bool.and_eq_true _ _ |>.mp h with ⟨hseg, h⟩
    exact .comp (by simpa using hp) ((globSeg_iff _ _).mp hseg) (ih h)

theorem globComps_complete {ps cs : List String} (h : MatchComps ps cs) : globComps ps cs = true := by
  induction h with
  | nil => exact globComps_nil_nil
  | @dstar_zero ps cs _ ih =>
    cases cs with
    | nil => rw [globComps_cons_nil, ih]; rfl
    | cons c cs => rw [globComps_dstar_cons, ih]; rfl
  | dstar_more c _ ih => rw [globComps_dstar_cons, ih]; simp
  | comp hp hseg _ ih => rw [globComps_comp_cons hp, ih, (globSeg_iff _ _).mpr hseg]; rfl

/-- **the executable component matcher decides `MatchComps`** -/
theorem globComps_iff (ps cs : List String) : globComps ps cs = true ↔ MatchComps ps cs :=
  ⟨globComps_sound ps cs, globComps_complete⟩

instance (ps cs : List String) : Decidable (MatchComps ps cs) := decidable_of_iff _ (globComps_iff ps cs)

theorem matchComps_nil_iff (cs : List String) : MatchComps [] cs ↔ cs = [] := by
  rw [← globComps_iff]
  cases cs <;> simp [globComps_nil_nil, globComps_nil_cons]

/-- a component other than `**` takes exactly one path component -/
theorem matchComps_comp_iff {p : String} (hp : p ≠ "**") (ps cs : List String) :
    MatchComps (p :: ps) cs ↔ ∃ c cs', cs = c :: cs' ∧ MatchSeg p.toList c.toList ∧ MatchComps ps cs' := by
  constructor
  · intro h
    cases cs with
    | nil => rw [← globComps_iff, globComps_cons_nil] at h; simp [hp] at h
    | cons c cs' =>
      rw [← globComps_iff, globComps_comp_cons hp, Bool.and_eq_true, globSeg_iff, globComps_iff] at h
      exact ⟨c, cs', rfl, h.1, h.2⟩
  · rintro ⟨c, cs', rfl, h1, h2⟩; exact .comp hp h1 h2

/-- **`**` = any number of components, then the rest** -/
theorem matchComps_doublestar_iff (ps cs : List String) :
    MatchComps ("**" :: ps) cs ↔ ∃ cs₁ cs₂, cs = cs₁ ++ cs₂ ∧ MatchComps ps cs₂ := by
  constructor
  · intro h
    generalize hq : "**" :: ps = q at h
    induction h with
    | nil => cases hq
    | dstar_zero h _ => injection hq with _ hp; subst hp; exact ⟨[], _, rfl, h⟩
    | dstar_more c _ ih =>
      injection hq with _ hp; subst hp
      obtain ⟨cs₁, cs₂, rfl, h2⟩ := ih rfl
      exact ⟨c :: cs₁, cs₂, rfl, h2⟩
    | comp hp _ _ _ => injection hq with ha; exact absurd ha.symm hp
  · rintro ⟨cs₁, cs₂, rfl, h⟩
    induction cs₁ with
    | nil => exact .dstar_zero h
    | cons c cs₁ ih => exact .dstar_more c ih

/-- a single component other than `**` describes exactly the one-component paths whose component it describes -/
theorem matchComps_single_iff {p : String} (hp : p ≠ "**") (cs : List String) :
    MatchComps [p] cs ↔ ∃ c, cs = [c] ∧ MatchSeg p.toList c.toList := by
  rw [matchComps_comp_iff hp]
  constructor
  · rintro ⟨c, cs', rfl, h1, h2⟩
    rw [(matchComps_nil_iff cs').mp h2]
    exact ⟨c, rfl, h1⟩
  · rintro ⟨c, rfl, h⟩; exact ⟨c, [], rfl, h, .nil⟩

/-- **`**/q`** (`**/*.py`): any directories, then a file name described by `q` -/
theorem matchComps_doublestar_single_iff {q : String} (hq : q ≠ "**") (cs : List String) :
    MatchComps ["**", q] cs ↔ ∃ dirs f, cs = dirs ++ [f] ∧ MatchSeg q.toList f.toList := by
  rw [matchComps_doublestar_iff]
  constructor
  · rintro ⟨dirs, cs₂, rfl, h⟩
    obtain ⟨f, rfl, hf⟩ := (matchComps_single_iff hq cs₂).mp h
    exact ⟨dirs, f, rfl, hf⟩
  · rintro ⟨dirs, f, rfl, hf⟩
    exact ⟨dirs, [f], rfl, (matchComps_single_iff hq _).mpr ⟨f, rfl, hf⟩⟩

/-- `**` alone describes every path -/
theorem matchComps_doublestar_all (cs : List String) : MatchComps ["**"] cs :=
  (matchComps_doublestar_iff [] cs).mpr ⟨cs, [], (List.append_nil cs).symm, .nil⟩

/-! ### the language reading for component lists -/

/-- what one pattern component accepts: `**` any run of components, anything else one component it describes -/
def FitsComp (p : String) (w : List String) : Prop :=
  if p = "**" then True else ∃ c, w = [c] ∧ MatchSeg p.toList c.toList

def CompPieces : List String → List (List String) → Prop
  | [], [] => True
  | p :: ps, w :: ws => FitsComp p w ∧ CompPieces ps ws
  | _, _ => False

/-- **`MatchComps ps cs` ⇔ `cs` is the concatenation of runs, one per pattern component, each accepted by its component** -/
theorem matchComps_iff_pieces (ps cs : List String) : MatchComps ps cs ↔ ∃ ws, CompPieces ps ws ∧ cs = ws.flatten := by
  induction ps generalizing cs with
  | nil =>
    rw [matchComps_nil_iff]
    constructor
    · rintro rfl; exact ⟨[], trivial, rfl⟩
    · rintro ⟨ws, h, rfl⟩
      cases ws with
      | nil => rfl
      | cons w ws => exact h.elim
  | cons p ps ih =>
    have inv : MatchComps (p :: ps) cs ↔ ∃ w cs₂, cs = w ++ cs₂ ∧ FitsComp p w ∧ MatchComps ps cs₂ := by
      by_cases h1 : p = "**"
      · subst h1
        rw [matchComps_doublestar_iff]
        constructor
        · rintro ⟨w, s₂, e, h⟩; exact ⟨w, s₂, e, by simp [FitsComp], h⟩
        · rintro ⟨w, s₂, e, _, h⟩; exact ⟨w, s₂, e, h⟩
      · rw [matchComps_comp_iff h1]
        constructor
        · rintro ⟨c, t, e, hc, h⟩; exact ⟨[c], t, e, by simp [FitsComp, h1, hc], h⟩
        · rintro ⟨w, s₂, e, hw, h⟩
          simp only [FitsComp, h1, if_false] at hw
          obtain ⟨c, rfl, hc⟩ := hw
          exact ⟨c, s₂, e, hc, h⟩
    rw [inv]
    constructor
    · rintro ⟨w, s₂, rfl, hw, h2⟩
      obtain ⟨ws, hws, rfl⟩ := (ih s₂).mp h2
      exact ⟨w :: ws, ⟨hw, hws⟩, rfl⟩
    · rintro ⟨ws, hws, rfl⟩
      cases ws with
      | nil => exact hws.elim
      | cons w ws => exact ⟨w, ws.flatten, rfl, hws.1, (ih _).mpr ⟨ws, hws.2, rfl⟩⟩

/-! ## whole patterns -/

/-- `glob`: the pattern is cut at `/` and the components are matched -/
theorem glob_iff (pattern : String) (path : List String) : glob pattern path = true ↔ MatchComps (pattern.splitOn "/") path := by
  unfold glob; exact globComps_iff _ _

/-- `matchesPattern`: a pattern with a `/` describes the relative path, a pattern without one the file name alone -/
theorem matchesPattern_iff (pattern : String) (rel : List String) :
    matchesPattern pattern rel = true ↔
      if '/' ∈ pattern.toList then MatchComps (pattern.splitOn "/") rel
      else MatchComps (pattern.splitOn "/") [rel.getLast?.getD ""] := by
  unfold matchesPattern
  rw [String.contains_char_eq]
  by_cases h : '/' ∈ pattern.toList <;> simp [h, glob_iff]

/-- evaluates `"<literal>".splitOn "/"` (the function is defined by well-founded recursion on byte positions; neither `decide` nor
`rfl` reduce it, so it is unfolded step by step, every test on the literal being decided by the kernel) -/
macro "split_lit" : tactic =>
  `(tactic| (simp only [String.splitOn, show ("/" == "") = false by decide, Bool.false_eq_true, if_false]
             repeat (rw [String.splitOnAux]; simp (decide := true) only [↓reduceIte])))

theorem splitOn_py : "**/*.py".splitOn "/" = ["**", "*.py"] := by split_lit
theorem splitOn_pyi : "*.pyi".splitOn "/" = ["*.pyi"] := by split_lit
theorem splitOn_test_prefix : "test_*.py".splitOn "/" = ["test_*.py"] := by split_lit
theorem splitOn_test_suffix : "*_test.py".splitOn "/" = ["*_test.py"] := by split_lit

end PV.Files
