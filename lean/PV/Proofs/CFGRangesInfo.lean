import PV.Proofs.CFGRangesDefs
import PV.Proofs.ReachComplete
/-!
Range-level soundness of the dead-code detector of the CFG mirror — the final step: from the facts about the record list
(`Rel` pairwise, `GZ`) to the statement about `findings`: no located statement of a reachable block starts inside the line
range of a finding.

* `infoR b L`: the summary of block `b` as a pure function of the record list `L` (newest first); `blockInfo_getD`:
  `(blockInfo st).getD b {} = infoR b st.stmts` for `b < st.next`;
* `GZ.decomp`: the records of block `b` are one consecutive segment `h :: t` of the list, and only `h` may have end line 0;
* `findings_sound`.
-/
namespace PV.CFGSound
open PV.CFG

/-! ### the per-block summary as a function of the records of the block -/

/-- the update of `blockInfo` on the summary of the block of `r` -/
def upd (i : BInfo) (r : SRec) : BInfo :=
  if i.nonEmpty then { i with stop := r.e, hasTerm := i.hasTerm || r.ty != .other }
  else { start := r.s, stop := r.e, hasTerm := r.ty != .other, nonEmpty := true }

/-- one step of `blockInfo` -/
def stepA (a : Array BInfo) (r : SRec) : Array BInfo := a.setIfInBounds r.blk (upd (a.getD r.blk {}) r)

/-- summary of block `b` from the record list (newest first) -/
def infoR (b : Nat) : List SRec → BInfo
  | [] => {}
  | r :: L => if r.blk = b then upd (infoR b L) r else infoR b L

theorem upd_stop (i : BInfo) (r : SRec) : (upd i r).stop = r.e := by
  unfold upd; split <;> rfl

theorem upd_nonEmpty (i : BInfo) (r : SRec) : (upd i r).nonEmpty = true := by
  unfold upd; split
  · assumption
  · rfl

theorem upd_start_of_nonEmpty {i : BInfo} (r : SRec) (h : i.nonEmpty = true) : (upd i r).start = i.start := by
  unfold upd; rw [if_pos h]

theorem upd_start_of_empty {i : BInfo} (r : SRec) (h : i.nonEmpty = false) : (upd i r).start = r.s := by
  unfold upd; rw [if_neg (by rw [h]; exact Bool.false_ne_true)]

theorem blockInfo_eq (st : St) :
    blockInfo st = st.stmts.foldr (fun r a => stepA a r) (Array.replicate st.next {}) := by
  unfold blockInfo
  rw [List.foldl_reverse]
  rfl

theorem foldr_stepA_size (a0 : Array BInfo) : ∀ L : List SRec, (L.foldr (fun r a => stepA a r) a0).size = a0.size
  | [] => rfl
  | r :: L => by
    rw [List.foldr_cons]
    show (stepA _ r).size = _
    unfold stepA
    rw [Array.size_setIfInBounds]
    exact foldr_stepA_size a0 L

theorem stepA_getD (a : Array BInfo) (r : SRec) {b : Nat} (hb : b < a.size) :
    (stepA a r).getD b {} = if r.blk = b then upd (a.getD b {}) r else a.getD b {} := by
  unfold stepA
  by_cases h : r.blk = b
  · subst h
    rw [if_pos rfl]
    simp [Array.getD, hb]
  · rw [if_neg h]
    simp [Array.getD, hb, h]

theorem foldr_stepA_getD {b : Nat} (a0 : Array BInfo) (hb : b < a0.size) (h0 : a0.getD b {} = {}) :
    ∀ L : List SRec, (L.foldr (fun r a => stepA a r) a0).getD b {} = infoR b L
  | [] => h0
  | r :: L => by
    rw [List.foldr_cons]
    show (stepA _ r).getD b {} = _
    rw [stepA_getD _ r (by rw [foldr_stepA_size]; exact hb), foldr_stepA_getD a0 hb h0 L]
    rfl

/-- the summary of block `b` depends only on the records of `b` -/
theorem blockInfo_getD (st : St) {b : Nat} (hb : b < st.next) : (blockInfo st).getD b {} = infoR b st.stmts := by
  rw [blockInfo_eq]
  apply foldr_stepA_getD
  · rw [Array.size_replicate]; exact hb
  · simp [Array.getD, hb]

theorem infoR_norec {b : Nat} : ∀ {L : List SRec}, NoRec L b → infoR b L = {}
  | [], _ => rfl
  | r :: L, h => by
    show (if r.blk = b then upd (infoR b L) r else infoR b L) = _
    rw [if_neg (h r (List.mem_cons_self ..))]
    exact infoR_norec (fun x hx => h x (List.mem_cons_of_mem _ hx))

theorem infoR_append_norec {b : Nat} (M : List SRec) : ∀ {a : List SRec}, NoRec a b → infoR b (a ++ M) = infoR b M
  | [], _ => rfl
  | r :: a, h => by
    show (if r.blk = b then upd (infoR b (a ++ M)) r else infoR b (a ++ M)) = _
    rw [if_neg (h r (List.mem_cons_self ..))]
    exact infoR_append_norec M (fun x hx => h x (List.mem_cons_of_mem _ hx))

/-- a consecutive segment `h :: t` (newest first) of records of block `b` followed by records of other blocks only -/
theorem infoR_seg {b : Nat} {c : List SRec} (hc : NoRec c b) : ∀ (t : List SRec) (h : SRec), h.blk = b → (∀ x ∈ t, x.blk = b) →
    (infoR b (h :: (t ++ c))).stop = h.e ∧ (infoR b (h :: (t ++ c))).nonEmpty = true ∧
      ∃ first ∈ h :: t, (infoR b (h :: (t ++ c))).start = first.s
  | [], h, hh, _ => by
    have e : infoR b (h :: ([] ++ c)) = upd {} h := by
      show (if h.blk = b then upd (infoR b c) h else infoR b c) = _
      rw [if_pos hh, infoR_norec hc]
    rw [e]
    exact ⟨upd_stop _ _, upd_nonEmpty _ _, h, List.mem_cons_self .., upd_start_of_empty h rfl⟩
  | h' :: t, h, hh, ht => by
    obtain ⟨_, i2, f, hf, i3⟩ := infoR_seg hc t h' (ht h' (List.mem_cons_self ..)) (fun x hx => ht x (List.mem_cons_of_mem _ hx))
    have e : infoR b (h :: ((h' :: t) ++ c)) = upd (infoR b (h' :: (t ++ c))) h := by
      show (if h.blk = b then upd (infoR b (h' :: (t ++ c))) h else infoR b (h' :: (t ++ c))) = _
      rw [if_pos hh]
    rw [e]
    exact ⟨upd_stop _ _, upd_nonEmpty _ _, f, List.mem_cons_of_mem _ hf, by rw [upd_start_of_nonEmpty h i2, i3]⟩

/-! ### the records of one block are consecutive -/

theorem GZ.decomp {b : Nat} : ∀ {L : List SRec}, GZ L → (∃ r ∈ L, r.blk = b) →
    ∃ a h t c, L = a ++ h :: (t ++ c) ∧ NoRec a b ∧ NoRec c b ∧ h.blk = b ∧ (∀ x ∈ t, x.blk = b) ∧ ∀ x ∈ t, x.e ≠ 0
  | [], _, ⟨_, hr, _⟩ => by cases hr
  | x :: L, g, _ => by
    obtain ⟨g1, g2⟩ := g
    by_cases hex : ∃ r ∈ L, r.blk = b
    · obtain ⟨a, h, t, c, hL, ha, hc, hh, ht, hz⟩ := GZ.decomp g1 hex
      by_cases hx : x.blk = b
      · have htop : Top L b := by
          rcases g2 with g2 | g2
          · obtain ⟨r, hr, hrb⟩ := hex
            exact absurd hrb (by rw [← hx]; exact g2 r hr)
          · rw [← hx]; exact g2
        obtain ⟨h', t', hL', hb', he'⟩ := htop
        cases a with
        | nil =>
          rw [List.nil_append] at hL
          have hhd : h' = h := by
            rw [hL'] at hL
            exact (List.cons.inj hL).1
          refine ⟨[], x, h :: t, c, by rw [hL]; rfl, (fun _ hr => by cases hr), hc, hx, ?_, ?_⟩
          · intro y hy
            rcases List.mem_cons.mp hy with rfl | hy
            · exact hh
            · exact ht y hy
          · intro y hy
            rcases List.mem_cons.mp hy with rfl | hy
            · rw [← hhd]; exact he'
            · exact hz y hy
        | cons a0 a =>
          have hhd : h' = a0 := by
            rw [hL'] at hL
            exact (List.cons.inj hL).1
          exact absurd (hhd ▸ hb') (ha a0 (List.mem_cons_self ..))
      · refine ⟨x :: a, h, t, c, by rw [hL]; rfl, ?_, hc, hh, ht, hz⟩
        intro y hy
        rcases List.mem_cons.mp hy with rfl | hy
        · exact hx
        · exact ha y hy
    · have hn : NoRec L b := fun r hr hrb => hex ⟨r, hr, hrb⟩
      have hx : x.blk = b := by
        rename_i hr
        obtain ⟨r, hr, hrb⟩ := hr
        rcases List.mem_cons.mp hr with rfl | hr
        · exact hrb
        · exact absurd hrb (hn r hr)
      exact ⟨[], x, [], L, rfl, (fun _ hr => by cases hr), hn, hx, (fun _ hr => by cases hr), (fun _ hr => by cases hr)⟩

/-! ### the findings -/

theorem mem_reachable_iff {st : St} (w : WF st) {b : Nat} : b ∈ reachable st ↔ R st.edges b :=
  ⟨reachable_sound st, reachable_complete st (by have := w.two; omega) w.edges⟩

/-- no located statement of a reachable block starts inside the line range of a finding -/
theorem findings_sound (st : St) (w : WF st) (hgz : GZ st.stmts) (hpw : st.stmts.Pairwise (Rel st.edges))
    (hval : ∀ r ∈ st.stmts, r.s = 0 → r.e = 0) :
    ∀ r ∈ st.stmts, r.blk ∈ reachable st → 1 ≤ r.s → ∀ f ∈ findings st, ¬ (f.s ≤ r.s ∧ r.s ≤ f.e) := by
  intro r hr hreach hpos f hf hin
  unfold findings at hf
  simp only [List.mem_map, List.mem_filter, List.mem_range, Bool.and_eq_true, Bool.not_eq_true',
    List.contains_eq_mem, decide_eq_false_iff_not] at hf
  obtain ⟨b, ⟨hb, hnr, hne⟩, rfl⟩ := hf
  simp only [] at hin
  rw [blockInfo_getD st hb] at hin hne
  have hRr : R st.edges r.blk := (mem_reachable_iff w).mp hreach
  have hnRb : ¬ R st.edges b := fun h => hnr ((mem_reachable_iff w).mpr h)
  have hex : ∃ x ∈ st.stmts, x.blk = b := by
    apply Classical.byContradiction
    intro hno
    have hn : NoRec st.stmts b := fun x hx hxb => hno ⟨x, hx, hxb⟩
    rw [infoR_norec hn] at hne
    exact Bool.false_ne_true hne
  obtain ⟨a, h, t, c, hL, ha, hc, hh, ht, hz⟩ := GZ.decomp hgz hex
  rw [hL] at hr hpw hval
  rw [hL, infoR_append_norec _ ha] at hin
  obtain ⟨i1, _, first, hfirst, i3⟩ := infoR_seg hc t h hh ht
  rw [i1, i3] at hin
  have hfb : first.blk = b := by
    rcases List.mem_cons.mp hfirst with rfl | h1
    · exact hh
    · exact ht first h1
  have hrb : r.blk ≠ b := fun e => hnRb (e ▸ hRr)
  have hpw1 := (List.pairwise_append.mp hpw).2.2
  have hL2 : a ++ h :: (t ++ c) = (a ++ h :: t) ++ c := by simp
  have hpw2 := hpw
  rw [hL2] at hpw2
  have hpw2 := (List.pairwise_append.mp hpw2).2.2
  rcases List.mem_append.mp hr with hra | hr
  · -- newer than the newest record of `b`
    have rel := hpw1 r hra h (List.mem_cons_self ..)
    exact hnRb (hh ▸ rel.nest hpos hin.2 hRr)
  · rcases List.mem_cons.mp hr with rfl | hr
    · exact hrb hh
    · rcases List.mem_append.mp hr with hr | hrc
      · exact hrb (ht r hr)
      · -- older than the oldest record of `b`
        have rel := hpw2 first (List.mem_append.mpr (.inr hfirst)) r hrc
        by_cases hf0 : first.s = 0
        · have hfe : first.e = 0 :=
            hval first (List.mem_append.mpr (.inr (by
              rcases List.mem_cons.mp hfirst with rfl | h1
              · exact List.mem_cons_self ..
              · exact List.mem_cons_of_mem _ (List.mem_append.mpr (.inl h1))))) hf0
          rcases List.mem_cons.mp hfirst with rfl | h1
          · omega
          · exact hz first h1 hfe
        · have h1 := rel.ord hpos (by omega)
          have heq : r.s = first.s := by omega
          exact hnRb (hfb ▸ rel.same hpos heq hRr)

end PV.CFGSound

#print axioms PV.CFGSound.findings_sound
