import PV.Proofs.CFGFrameA
import PV.Proofs.CFGSoundDefs
/-!
Part B of the mirror's soundness proof — library: coverage of a state by a final edge / statement list
(`Cov`), monotonicity (`Sub`), blocks no builder step has touched (`Untouched`), "no EXIT edge and no
terminator" (`NT`), their behaviour under the primitive state updates and under framed calls (`Inv`),
and the unfolding equations of `sxL` / `sxS` / `sxAlts` / `okL` / `okS` / `okCases`.
-/
namespace PV.CFGSound
open PV.CFG PV.Py

/-! ### Sub, Cov -/
def Sub (s s' : St) : Prop := (∀ e ∈ s.edges, e ∈ s'.edges) ∧ (∀ r ∈ s.stmts, r ∈ s'.stmts)

theorem Sub.refl (s : St) : Sub s s := ⟨fun _ h => h, fun _ h => h⟩
theorem Sub.trans {a b c : St} (h₁ : Sub a b) (h₂ : Sub b c) : Sub a c :=
  ⟨fun e h => h₂.1 e (h₁.1 e h), fun r h => h₂.2 r (h₁.2 r h)⟩

theorem Inv.sub {c n : Nat} {s s' : St} (i : Inv c n s s') : Sub s s' := by
  obtain ⟨ne, he, _⟩ := i.edges
  obtain ⟨ns, hs, _⟩ := i.stmts
  exact ⟨fun e h => by rw [he]; exact List.mem_append.mpr (.inr h), fun r h => by rw [hs]; exact List.mem_append.mpr (.inr h)⟩

/-- the final edge list `E` and statement list `S` contain those of `s` -/
def Cov (E : List Edge) (S : List SRec) (s : St) : Prop := (∀ e ∈ s.edges, e ∈ E) ∧ (∀ r ∈ s.stmts, r ∈ S)

section cov
variable {E : List Edge} {S : List SRec} (s : St) (a b c k p q : Nat) (t : ETy) (ty : Ty) (l : List (Nat × Nat × Nat)) (x : List Exc)

theorem Cov.of_sub {s s' : St} (h : Sub s s') (hc : Cov E S s') : Cov E S s :=
  ⟨fun e he => hc.1 e (h.1 e he), fun r hr => hc.2 r (h.2 r hr)⟩
theorem Cov.of_inv {c n : Nat} {s s' : St} (i : Inv c n s s') (hc : Cov E S s') : Cov E S s := Cov.of_sub i.sub hc

@[simp] theorem cov_bump : Cov E S (bump s) ↔ Cov E S s := Iff.rfl
@[simp] theorem cov_bumpU : Cov E S (bumpU s) ↔ Cov E S s := Iff.rfl
@[simp] theorem cov_bumpN : Cov E S (bumpN s k) ↔ Cov E S s := Iff.rfl
@[simp] theorem cov_setCur : Cov E S (setCur s c) ↔ Cov E S s := Iff.rfl
@[simp] theorem cov_setLoops : Cov E S (setLoops s l) ↔ Cov E S s := Iff.rfl
@[simp] theorem cov_setExcs : Cov E S (setExcs s x) ↔ Cov E S s := Iff.rfl
@[simp] theorem cov_edge : Cov E S (s.edge a b t) ↔ (a, b, t) ∈ E ∧ Cov E S s := by
  unfold Cov
  simp only [edge_edges, edge_stmts, List.mem_cons, forall_eq_or_imp]
  exact ⟨fun ⟨⟨h1, h2⟩, h3⟩ => ⟨h1, h2, h3⟩, fun ⟨h1, h2, h3⟩ => ⟨⟨h1, h2⟩, h3⟩⟩
@[simp] theorem cov_add : Cov E S (s.add b p q ty) ↔ ({ blk := b, s := p, e := q, ty := ty } : SRec) ∈ S ∧ Cov E S s := by
  unfold Cov
  simp only [add_edges, add_stmts, List.mem_cons, forall_eq_or_imp]
  exact ⟨fun ⟨h1, h2, h3⟩ => ⟨h2, h1, h3⟩, fun ⟨h1, h2, h3⟩ => ⟨h2, h1, h3⟩⟩
@[simp] theorem cov_eue : Cov E S (s.edgeUnlessExit a b t) ↔ (s.hasSucc a exitB = false → (a, b, t) ∈ E) ∧ Cov E S s := by
  rcases edgeUnlessExit_cases s a b t with ⟨h1, h2⟩ | ⟨h1, h2⟩ <;> rw [h2]
  · simp [h1]
  · simp [h1]
end cov

/-! ### hasSucc / lastTy / blockTerminates under the primitive updates -/
section prims
variable (s : St) (a b c k p q m y : Nat) (t : ETy) (ty : Ty) (l : List (Nat × Nat × Nat)) (x : List Exc)

@[simp] theorem hasSucc_bump : (bump s).hasSucc m y = s.hasSucc m y := rfl
@[simp] theorem hasSucc_bumpU : (bumpU s).hasSucc m y = s.hasSucc m y := rfl
@[simp] theorem hasSucc_bumpN : (bumpN s k).hasSucc m y = s.hasSucc m y := rfl
@[simp] theorem hasSucc_setCur : (setCur s c).hasSucc m y = s.hasSucc m y := rfl
@[simp] theorem hasSucc_setLoops : (setLoops s l).hasSucc m y = s.hasSucc m y := rfl
@[simp] theorem hasSucc_setExcs : (setExcs s x).hasSucc m y = s.hasSucc m y := rfl
@[simp] theorem hasSucc_add : (s.add b p q ty).hasSucc m y = s.hasSucc m y := rfl
theorem hasSucc_edge : (s.edge a b t).hasSucc m y = ((a == m && b == y) || s.hasSucc m y) := by
  simp [St.hasSucc, St.edge]

@[simp] theorem lastTy_bump : (bump s).lastTy m = s.lastTy m := rfl
@[simp] theorem lastTy_bumpU : (bumpU s).lastTy m = s.lastTy m := rfl
@[simp] theorem lastTy_bumpN : (bumpN s k).lastTy m = s.lastTy m := rfl
@[simp] theorem lastTy_setCur : (setCur s c).lastTy m = s.lastTy m := rfl
@[simp] theorem lastTy_setLoops : (setLoops s l).lastTy m = s.lastTy m := rfl
@[simp] theorem lastTy_setExcs : (setExcs s x).lastTy m = s.lastTy m := rfl
@[simp] theorem lastTy_edge : (s.edge a b t).lastTy m = s.lastTy m := rfl
theorem lastTy_add : (s.add b p q ty).lastTy m = if b = m then some ty else s.lastTy m := by
  by_cases h : b = m <;> simp [St.lastTy, St.add, h]
end prims

/-- "no edge to EXIT, last statement is not a terminator" -/
def NT (s : St) (m : Nat) : Prop := s.hasSucc m exitB = false ∧ s.blockTerminates m = false

theorem NT.congr {s s' : St} {m : Nat} (he : s'.edges = s.edges) (hs : s'.stmts = s.stmts) : NT s' m ↔ NT s m := by
  unfold NT St.hasSucc St.blockTerminates St.lastTy
  rw [he, hs]

section nt
variable (s : St) (a b c k p q m : Nat) (t : ETy) (ty : Ty) (l : List (Nat × Nat × Nat)) (x : List Exc)
@[simp] theorem nt_bump : NT (bump s) m ↔ NT s m := Iff.rfl
@[simp] theorem nt_bumpU : NT (bumpU s) m ↔ NT s m := Iff.rfl
@[simp] theorem nt_bumpN : NT (bumpN s k) m ↔ NT s m := Iff.rfl
@[simp] theorem nt_setCur : NT (setCur s c) m ↔ NT s m := Iff.rfl
@[simp] theorem nt_setLoops : NT (setLoops s l) m ↔ NT s m := Iff.rfl
@[simp] theorem nt_setExcs : NT (setExcs s x) m ↔ NT s m := Iff.rfl
end nt

theorem NT.edge_tgt {s : St} {m a b : Nat} {t : ETy} (hb : b ≠ exitB) (h : NT s m) : NT (s.edge a b t) m := by
  refine ⟨?_, h.2⟩
  rw [hasSucc_edge, h.1]
  have : (b == exitB) = false := by simpa using hb
  simp [this]
theorem NT.edge_src {s : St} {m a b : Nat} {t : ETy} (ha : a ≠ m) (h : NT s m) : NT (s.edge a b t) m := by
  refine ⟨?_, h.2⟩
  rw [hasSucc_edge, h.1]
  have : (a == m) = false := by simpa using ha
  simp [this]
theorem NT.eue_tgt {s : St} {m a b : Nat} {t : ETy} (hb : b ≠ exitB) (h : NT s m) : NT (s.edgeUnlessExit a b t) m := by
  rcases edgeUnlessExit_cases s a b t with ⟨_, h2⟩ | ⟨_, h2⟩ <;> rw [h2]
  · exact h
  · exact h.edge_tgt hb
theorem NT.eue_src {s : St} {m a b : Nat} {t : ETy} (ha : a ≠ m) (h : NT s m) : NT (s.edgeUnlessExit a b t) m := by
  rcases edgeUnlessExit_cases s a b t with ⟨_, h2⟩ | ⟨_, h2⟩ <;> rw [h2]
  · exact h
  · exact h.edge_src ha
theorem NT.add_ne {s : St} {m b p q : Nat} {ty : Ty} (hb : b ≠ m) (h : NT s m) : NT (s.add b p q ty) m := by
  refine ⟨h.1, ?_⟩
  have := h.2
  unfold St.blockTerminates at this ⊢
  rw [lastTy_add, if_neg hb]; exact this
theorem NT.add_other {s : St} {m p q : Nat} (h : NT s m) : NT (s.add m p q .other) m := by
  refine ⟨h.1, ?_⟩
  unfold St.blockTerminates
  rw [lastTy_add, if_pos rfl]

/-! ### untouched blocks -/
def Untouched (s : St) (m : Nat) : Prop := (∀ e ∈ s.edges, e.1 ≠ m) ∧ (∀ r ∈ s.stmts, r.blk ≠ m)

theorem Untouched.nt {s : St} {m : Nat} (h : Untouched s m) : NT s m := by
  constructor
  · unfold St.hasSucc
    rw [List.any_eq_false]
    intro e he
    have := h.1 e he
    simp [this]
  · have : s.lastTy m = none := by
      unfold St.lastTy
      rw [Option.map_eq_none_iff, List.find?_eq_none]
      intro r hr
      have := h.2 r hr
      simp [this]
    unfold St.blockTerminates
    rw [this]

theorem WF.untouched {s : St} (w : WF s) {m : Nat} (h : s.next ≤ m) : Untouched s m :=
  ⟨fun e he => by have := (w.edges e he).1; omega, fun r hr => by have := w.stmts r hr; omega⟩

section unt
variable (s : St) (a b c k p q m : Nat) (t : ETy) (ty : Ty) (l : List (Nat × Nat × Nat)) (x : List Exc)
@[simp] theorem unt_bump : Untouched (bump s) m ↔ Untouched s m := Iff.rfl
@[simp] theorem unt_bumpU : Untouched (bumpU s) m ↔ Untouched s m := Iff.rfl
@[simp] theorem unt_bumpN : Untouched (bumpN s k) m ↔ Untouched s m := Iff.rfl
@[simp] theorem unt_setCur : Untouched (setCur s c) m ↔ Untouched s m := Iff.rfl
@[simp] theorem unt_setLoops : Untouched (setLoops s l) m ↔ Untouched s m := Iff.rfl
@[simp] theorem unt_setExcs : Untouched (setExcs s x) m ↔ Untouched s m := Iff.rfl
@[simp] theorem unt_edge : Untouched (s.edge a b t) m ↔ a ≠ m ∧ Untouched s m := by
  unfold Untouched
  simp only [edge_edges, edge_stmts, List.mem_cons, forall_eq_or_imp]
  exact ⟨fun ⟨⟨h1, h2⟩, h3⟩ => ⟨h1, h2, h3⟩, fun ⟨h1, h2, h3⟩ => ⟨⟨h1, h2⟩, h3⟩⟩
@[simp] theorem unt_add : Untouched (s.add b p q ty) m ↔ b ≠ m ∧ Untouched s m := by
  unfold Untouched
  simp only [add_edges, add_stmts, List.mem_cons, forall_eq_or_imp]
  exact ⟨fun ⟨h1, h2, h3⟩ => ⟨h2, h1, h3⟩, fun ⟨h1, h2, h3⟩ => ⟨h2, h1, h3⟩⟩
end unt

theorem Untouched.eue {s : St} {m a b : Nat} {t : ETy} (ha : a ≠ m) (h : Untouched s m) : Untouched (s.edgeUnlessExit a b t) m := by
  rcases edgeUnlessExit_cases s a b t with ⟨_, h2⟩ | ⟨_, h2⟩ <;> rw [h2]
  · exact h
  · exact (unt_edge ..).mpr ⟨ha, h⟩

/-- `Untouched (primitive updates of s) m` from `h : Untouched s m` and arithmetic -/
macro "untt" "[" h:term "]" : tactic =>
  `(tactic| (simp only [unt_setCur, unt_edge, unt_add, unt_bump, unt_bumpU, unt_bumpN, unt_setLoops, unt_setExcs, setCur_cur, $h:term, and_true] <;> omega))

/-- a framed call does not touch blocks it does not own -/
theorem Inv.untouched {c n : Nat} {s s' : St} (i : Inv c n s s') {m : Nat} (hm : m ≠ c) (hlt : m < n) (h : Untouched s m) :
    Untouched s' m := by
  obtain ⟨ne, he, hne⟩ := i.edges
  obtain ⟨ns, hs, hns⟩ := i.stmts
  constructor
  · intro e hmem
    rw [he] at hmem
    rcases List.mem_append.mp hmem with h1 | h1
    · rcases hne e h1 with h2 | h2 <;> omega
    · exact h.1 e h1
  · intro r hmem
    rw [hs] at hmem
    rcases List.mem_append.mp hmem with h1 | h1
    · rcases hns r h1 with h2 | h2 <;> omega
    · exact h.2 r h1

/-- a framed call leaves `hasSucc` / `lastTy` of blocks it does not own exactly as they were -/
theorem Inv.nt {c n : Nat} {s s' : St} (i : Inv c n s s') {m : Nat} (hm : m ≠ c) (hlt : m < n) (h : NT s m) : NT s' m := by
  obtain ⟨ne, he, hne⟩ := i.edges
  obtain ⟨ns, hs, hns⟩ := i.stmts
  have h1 : s'.hasSucc m exitB = s.hasSucc m exitB := by
    unfold St.hasSucc
    rw [he, List.any_append]
    have : ne.any (fun x => x.1 == m && x.2.1 == exitB) = false := by
      rw [List.any_eq_false]
      intro e hmem
      have : e.1 ≠ m := by rcases hne e hmem with h2 | h2 <;> omega
      simp [this]
    rw [this, Bool.false_or]
  have h2 : s'.lastTy m = s.lastTy m := by
    unfold St.lastTy
    rw [hs, List.find?_append]
    have : ns.find? (fun r => r.blk == m) = none := by
      rw [List.find?_eq_none]
      intro r hmem
      have : r.blk ≠ m := by rcases hns r hmem with h2 | h2 <;> omega
      simp [this]
    rw [this, Option.none_or]
  refine ⟨h1 ▸ h.1, ?_⟩
  have := h.2
  unfold St.blockTerminates at this ⊢
  rw [h2]; exact this

/-! ### Entry -/
theorem Entry.mk' {E : List Edge} {s : St} (hr : R E s.cur) (h : NT s s.cur) : Entry E s := ⟨hr, h.1, h.2⟩
theorem Entry.nt {E : List Edge} {s : St} (h : Entry E s) : NT s s.cur := ⟨h.noExit, h.noTerm⟩

/-! ### no exception context: the four target functions return `none` -/
theorem targetFinallyRet_nil {st : St} (h : st.excs = []) : targetFinallyRet st = none := by
  unfold targetFinallyRet; rw [h]; rfl
theorem targetFinally_nil {st : St} (h : st.excs = []) : targetFinally st = none := by
  unfold targetFinally; rw [h]; rfl
theorem targetFinallyLoop_nil {st : St} (d : Nat) (h : st.excs = []) : targetFinallyLoop st d = none := by
  unfold targetFinallyLoop; rw [h]; simp
theorem fallbackExc_nil {st : St} (h : st.excs = []) : fallbackExc st = none := by
  unfold fallbackExc; rw [h]; rfl

end PV.CFGSound
