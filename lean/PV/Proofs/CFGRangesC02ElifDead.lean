import PV.Proofs.CFGRangesC02ElifDefs
/-!
Range-level completeness (C02) for the heads of `elif` clauses — the structurally dead lines, classified.

Under `noSEL` (no standalone `elif` clause) and well-formed spans, every structurally dead line is the start line of a located
statement that is not an `elif` clause, or it lies inside the span of an `if` statement whose own start line is structurally dead
(`structDead_alt`); hence a dead line at which only `elif` clauses start is covered by such an `if` (`structDead_elif_if`).
-/
namespace PV.CFGSound
open PV.CFG PV.SD

/-- a dead line is the start of a located statement (tag ≠ 2), or lies inside the span of an `if` statement whose own start line is dead -/
def Alt (A : List TLine) (D : List Nat) (l : Nat) : Prop :=
  (∃ e tag, tag ≠ 2 ∧ (l, e, tag) ∈ A) ∨ (∃ s0 e0, (s0, e0, 0) ∈ A ∧ s0 ∈ D ∧ s0 ≤ l ∧ l ≤ e0)

theorem Alt.mono {A A' : List TLine} {D D' : List Nat} {l : Nat} (hA : ∀ x ∈ A, x ∈ A') (hD : ∀ d ∈ D, d ∈ D')
    (h : Alt A D l) : Alt A' D' l := by
  rcases h with ⟨e, tag, ht, hm⟩ | ⟨s0, e0, hm, hd, h1, h2⟩
  · exact .inl ⟨e, tag, ht, hA _ hm⟩
  · exact .inr ⟨s0, e0, hA _ hm, hD _ hd, h1, h2⟩

/-- every line of `L` is classified, with `L` itself as the set of dead lines -/
def AllAlt (T : List TLine) (L : List Nat) : Prop := ∀ l ∈ L, Alt T L l

section allalt
variable {T T' Ta Tb : List TLine} {L La Lb : List Nat}

theorem AllAlt.nil : AllAlt T [] := fun _ h => by cases h

theorem AllAlt.monoA (h : AllAlt T L) (hT : ∀ x ∈ T, x ∈ T') : AllAlt T' L :=
  fun l hl => (h l hl).mono hT (fun _ hd => hd)

theorem AllAlt.app (ha : AllAlt Ta La) (hb : AllAlt Tb Lb) : AllAlt (Ta ++ Tb) (La ++ Lb) := by
  intro l hl
  rcases List.mem_append.mp hl with hl | hl
  · exact (ha l hl).mono (fun _ hx => List.mem_append.mpr (.inl hx)) (fun _ hx => List.mem_append.mpr (.inl hx))
  · exact (hb l hl).mono (fun _ hx => List.mem_append.mpr (.inr hx)) (fun _ hx => List.mem_append.mpr (.inr hx))

theorem AllAlt.consA (h : AllAlt T L) (y : TLine) : AllAlt (y :: T) L := h.monoA (fun _ hx => List.mem_cons_of_mem _ hx)

theorem AllAlt.cons (h : AllAlt T L) (s e : Nat) {tag : Nat} (ht : tag ≠ 2) : AllAlt ((s, e, tag) :: T) (s :: L) := by
  intro l hl
  rcases List.mem_cons.mp hl with rfl | hl
  · exact .inl ⟨e, tag, ht, List.mem_cons_self ..⟩
  · exact (h l hl).mono (fun _ hx => List.mem_cons_of_mem _ hx) (fun _ hx => List.mem_cons_of_mem _ hx)

theorem AllAlt.leaf (s e : Nat) : AllAlt [(s, e, 1)] [s] := AllAlt.nil.cons s e (by decide)
end allalt

/-! ### shapes -/
def IsE (x : Stmt) : Prop := ∃ s e a b, x = .elifc s e a b
def IsEL (l : List Stmt) : Prop := ∃ s e a b, l = [.elifc s e a b]

theorem noSEO_of_notEL {l : List Stmt} (h : ¬ IsEL l) : noSEO l = noSEL l :=
  noSEO_other l (fun s e a b hh => h ⟨s, e, a, b, hh⟩)

theorem noSEO_single {x : Stmt} (h : ¬ IsE x) : noSEO [x] = noSES x := by
  rw [noSEO_of_notEL (fun ⟨s, e, a, b, hh⟩ => h ⟨s, e, a, b, (List.cons.inj hh).1⟩), noSEL_cons, noSEL_nil, Bool.and_true]

theorem noSES_notE {x : Stmt} (h : noSES x = true) : ¬ IsE x := by
  rintro ⟨s, e, a, b, rfl⟩
  rw [noSES_elifc] at h; cases h

theorem noSEL_notEL {l : List Stmt} (h : noSEL l = true) : ¬ IsEL l := by
  rintro ⟨s, e, a, b, rfl⟩
  rw [noSEL_cons, noSES_elifc, Bool.false_and] at h; cases h

theorem noSEO_of_noSEL {l : List Stmt} (h : noSEL l = true) : noSEO l = true := by
  rw [noSEO_of_notEL (noSEL_notEL h)]; exact h

theorem noSEO_of_noSES {x : Stmt} (h : noSES x = true) : noSEO [x] = true := by
  rw [noSEO_single (noSES_notE h)]; exact h

theorem noSEO_nil : noSEO [] = true := noSEO_of_noSEL noSEL_nil

/-- the parts of a `noSEO` list -/
theorem noSEO_cons {x : Stmt} {xs : List Stmt} (h : noSEO (x :: xs) = true) :
    noSEO [x] = true ∧ noSEO xs = true ∧ (xs = [] ∨ noSEL xs = true) := by
  by_cases hE : IsEL (x :: xs)
  · obtain ⟨s, e, a, b, heq⟩ := hE
    obtain ⟨h1, h2⟩ := List.cons.inj heq
    subst h2
    exact ⟨h, noSEO_nil, .inl rfl⟩
  · rw [noSEO_of_notEL hE, noSEL_cons, Bool.and_eq_true] at h
    exact ⟨noSEO_of_noSES h.1, noSEO_of_noSEL h.2, .inr h.2⟩

/-! ### the lines of a dead statement -/
/-- the lines of a statement: classified, or (for an `elif` clause of a chain) inside its span -/
def LS (x : Stmt) : Prop := wfS x = true → noSEO [x] = true →
  ∀ l ∈ linesOf x, Alt (tlS x) (linesOf x) l ∨ (IsE x ∧ x.span.1 ≤ l ∧ l ≤ x.span.2)

def LL (ss : List Stmt) : Prop := ∀ p, wfL p ss = true → noSEO ss = true →
  ∀ l ∈ linesOfL ss, Alt (tlL ss) (linesOfL ss) l ∨ (IsEL ss ∧ p ≤ l ∧ l < posL p ss)

theorem LS.use {x : Stmt} (h : LS x) (hw : wfS x = true) (hn : noSES x = true) : AllAlt (tlS x) (linesOf x) :=
  fun l hl => (h hw (noSEO_of_noSES hn) l hl).resolve_right (fun hh => noSES_notE hn hh.1)

theorem LL.use {ss : List Stmt} (h : LL ss) {p : Nat} (hw : wfL p ss = true) (hn : noSEL ss = true) : AllAlt (tlL ss) (linesOfL ss) :=
  fun l hl => (h p hw (noSEO_of_noSEL hn) l hl).resolve_right (fun hh => noSEL_notEL hn hh.1)

theorem lines_all : (∀ x : Stmt, LS x) ∧ (∀ ss : List Stmt, LL ss) := by
  refine stmt_rs_ind ?_ ?_ ?_ ?_ ?_ ?_ ?_ ?_ ?_ ?_ ?_ ?_ ?_ ?_ ?_ ?_ ?_ ?_
  · intro s e c h _ _ l hl
    rw [linesOf_simple] at hl ⊢; rw [tlS_simple]; exact .inl (AllAlt.leaf s e l hl)
  · intro s e c h _ _ l hl
    rw [linesOf_ret] at hl ⊢; rw [tlS_ret]; exact .inl (AllAlt.leaf s e l hl)
  · intro s e _ _ l hl
    rw [linesOf_brk] at hl ⊢; rw [tlS_brk]; exact .inl (AllAlt.leaf s e l hl)
  · intro s e _ _ l hl
    rw [linesOf_cont] at hl ⊢; rw [tlS_cont]; exact .inl (AllAlt.leaf s e l hl)
  · intro s e _ _ l hl
    rw [linesOf_raise] at hl ⊢; rw [tlS_raise]; exact .inl (AllAlt.leaf s e l hl)
  · -- ite
    intro s e a b iha ihb hw hno l hl
    rw [wfS_ite] at hw
    simp only [Bool.and_eq_true, decide_eq_true_eq] at hw
    obtain ⟨⟨⟨hse, wa⟩, wb⟩, hq⟩ := hw
    have hnE : ¬ IsE (.ite s e a b) := by rintro ⟨_, _, _, _, h⟩; cases h
    rw [noSEO_single hnE, noSES_ite, Bool.and_eq_true] at hno
    obtain ⟨na, nb⟩ := hno
    have ga := posL_ge a _ wa
    have ha := iha.use wa na
    refine .inl ?_
    rw [linesOf_ite] at hl ⊢; rw [tlS_ite]
    rcases List.mem_cons.mp hl with hl | hl
    · subst hl
      exact .inl ⟨e, 0, by decide, List.mem_cons_self ..⟩
    rcases List.mem_append.mp hl with hl | hl
    · exact (ha l hl).mono (fun _ hx => List.mem_cons_of_mem _ (List.mem_append.mpr (.inl hx)))
        (fun _ hx => List.mem_cons_of_mem _ (List.mem_append.mpr (.inl hx)))
    · rcases ihb _ wb nb l hl with h | ⟨_, h1, h2⟩
      · exact h.mono (fun _ hx => List.mem_cons_of_mem _ (List.mem_append.mpr (.inr hx)))
          (fun _ hx => List.mem_cons_of_mem _ (List.mem_append.mpr (.inr hx)))
      · exact .inr ⟨s, e, List.mem_cons_self .., List.mem_cons_self .., by omega, by omega⟩
  · -- elifc
    intro s e a b iha ihb hw hno l hl
    rw [wfS_elifc] at hw
    simp only [Bool.and_eq_true, decide_eq_true_eq] at hw
    obtain ⟨⟨⟨hse, wa⟩, wb⟩, hq⟩ := hw
    rw [noSEO_elifc, Bool.and_eq_true] at hno
    obtain ⟨na, nb⟩ := hno
    have ga := posL_ge a _ wa
    have gb := posL_ge b _ wb
    have ha := iha.use wa na
    have hE : IsE (.elifc s e a b) := ⟨s, e, a, b, rfl⟩
    rw [linesOf_elifc] at hl ⊢; rw [tlS_elifc]
    simp only [Stmt.span]
    rcases List.mem_cons.mp hl with hl | hl
    · subst hl
      exact .inr ⟨hE, Nat.le_refl _, hse⟩
    rcases List.mem_append.mp hl with hl | hl
    · exact .inl ((ha l hl).mono (fun _ hx => List.mem_cons_of_mem _ (List.mem_append.mpr (.inl hx)))
        (fun _ hx => List.mem_cons_of_mem _ (List.mem_append.mpr (.inl hx))))
    · rcases ihb _ wb nb l hl with h | ⟨_, h1, h2⟩
      · exact .inl (h.mono (fun _ hx => List.mem_cons_of_mem _ (List.mem_append.mpr (.inr hx)))
          (fun _ hx => List.mem_cons_of_mem _ (List.mem_append.mpr (.inr hx))))
      · exact .inr ⟨hE, by omega, by omega⟩
  · -- elsec
    intro s e a iha hw hno l hl
    rw [wfS_elsec] at hw
    simp only [Bool.and_eq_true, decide_eq_true_eq] at hw
    have hnE : ¬ IsE (.elsec s e a) := by rintro ⟨_, _, _, _, h⟩; cases h
    rw [noSEO_single hnE, noSES_elsec] at hno
    rw [linesOf_elsec] at hl ⊢; rw [tlS_elsec]
    exact .inl (iha.use hw.1.2 hno l hl)
  · -- loop
    intro s e a b iha ihb hw hno l hl
    rw [wfS_loop] at hw
    simp only [Bool.and_eq_true, decide_eq_true_eq] at hw
    obtain ⟨⟨⟨hse, wa⟩, wb⟩, hq⟩ := hw
    have hnE : ¬ IsE (.loop s e a b) := by rintro ⟨_, _, _, _, h⟩; cases h
    rw [noSEO_single hnE, noSES_loop, Bool.and_eq_true] at hno
    rw [linesOf_loop] at hl ⊢; rw [tlS_loop]
    exact .inl (((iha.use wa hno.1).app (ihb.use wb hno.2)).cons s e (by decide) l hl)
  · -- try
    intro s e a hs c d iha ihh ihc ihd hw hno l hl
    rw [wfS_try] at hw
    simp only [Bool.and_eq_true, decide_eq_true_eq] at hw
    obtain ⟨⟨⟨⟨⟨hse, wa⟩, wh⟩, wc⟩, wd⟩, hq⟩ := hw
    have hnE : ¬ IsE (.try_ s e a hs c d) := by rintro ⟨_, _, _, _, h⟩; cases h
    rw [noSEO_single hnE, noSES_try] at hno
    simp only [Bool.and_eq_true] at hno
    obtain ⟨⟨⟨na, nh⟩, nc⟩, nd⟩ := hno
    rw [linesOf_try] at hl ⊢; rw [tlS_try]
    exact .inl (((((iha.use wa na).app (ihh.use wh nh)).app (ihc.use wc nc)).app (ihd.use wd nd)) l hl)
  · -- handler
    intro s e a iha hw hno l hl
    rw [wfS_handler] at hw
    simp only [Bool.and_eq_true, decide_eq_true_eq] at hw
    have hnE : ¬ IsE (.handler s e a) := by rintro ⟨_, _, _, _, h⟩; cases h
    rw [noSEO_single hnE, noSES_handler] at hno
    rw [linesOf_handler] at hl ⊢; rw [tlS_handler]
    exact .inl ((iha.use hw.1.2 hno).cons s e (by decide) l hl)
  · -- with
    intro s e a iha hw hno l hl
    rw [wfS_with] at hw
    simp only [Bool.and_eq_true, decide_eq_true_eq] at hw
    have hnE : ¬ IsE (.with_ s e a) := by rintro ⟨_, _, _, _, h⟩; cases h
    rw [noSEO_single hnE, noSES_with] at hno
    rw [linesOf_with] at hl ⊢; rw [tlS_with]
    exact .inl ((iha.use hw.1.2 hno).cons s e (by decide) l hl)
  · -- match
    intro s e a iha hw hno l hl
    rw [wfS_match] at hw
    simp only [Bool.and_eq_true, decide_eq_true_eq] at hw
    have hnE : ¬ IsE (.match_ s e a) := by rintro ⟨_, _, _, _, h⟩; cases h
    rw [noSEO_single hnE, noSES_match] at hno
    rw [linesOf_match] at hl ⊢; rw [tlS_match]
    exact .inl ((iha.use hw.1.2 hno).cons s e (by decide) l hl)
  · -- case
    intro s e a iha hw hno l hl
    rw [wfS_case] at hw
    simp only [Bool.and_eq_true, decide_eq_true_eq] at hw
    have hnE : ¬ IsE (.case_ s e a) := by rintro ⟨_, _, _, _, h⟩; cases h
    rw [noSEO_single hnE, noSES_case] at hno
    rw [linesOf_case] at hl ⊢; rw [tlS_case]
    exact .inl ((iha.use hw.1.2 hno).cons s e (by decide) l hl)
  · -- def
    intro s e a _ _ l hl
    rw [linesOf_def] at hl ⊢; rw [tlS_def]; exact .inl (AllAlt.leaf s e l hl)
  · -- class
    intro s e a iha hw hno l hl
    rw [wfS_class] at hw
    simp only [Bool.and_eq_true, decide_eq_true_eq] at hw
    have hnE : ¬ IsE (.class_ s e a) := by rintro ⟨_, _, _, _, h⟩; cases h
    rw [noSEO_single hnE, noSES_class] at hno
    rw [linesOf_class] at hl ⊢; rw [tlS_class]
    exact .inl ((iha.use hw.1.2 hno).cons s e (by decide) l hl)
  · -- nil
    intro p _ _ l hl
    rw [linesOfL_nil] at hl; cases hl
  · -- cons
    intro x xs ihx ihxs p hw hno l hl
    rw [wfL_cons] at hw
    simp only [Bool.and_eq_true, decide_eq_true_eq] at hw
    obtain ⟨⟨hp, wx⟩, wxs⟩ := hw
    by_cases hE : IsEL (x :: xs)
    · obtain ⟨s, e, a, b, heq⟩ := hE
      obtain ⟨h1, h2⟩ := List.cons.inj heq
      subst h2
      rw [linesOfL_cons, linesOfL_nil, List.append_nil] at hl ⊢
      rw [tlL_single]
      rcases ihx wx hno l hl with h | ⟨_, h3, h4⟩
      · exact .inl h
      · refine .inr ⟨⟨s, e, a, b, heq⟩, by omega, ?_⟩
        rw [posL_cons, posL_nil]; omega
    · rw [noSEO_of_notEL hE, noSEL_cons, Bool.and_eq_true] at hno
      rw [linesOfL_cons] at hl ⊢; rw [tlL_cons]
      exact .inl (((ihx.use wx hno.1).app (ihxs.use wxs hno.2)) l hl)

/-! ### the structurally dead lines -/
def IS (x : Stmt) : Prop := wfS x = true → noSEO [x] = true → AllAlt (tlS x) (inStmt x)

def IL (ss : List Stmt) : Prop := ∀ p, wfL p ss = true → noSEO ss = true →
  AllAlt (tlL ss) (structDead ss) ∧ AllAlt (tlL ss) (subDead ss)

theorem IL.sd {ss : List Stmt} (h : IL ss) {p : Nat} (hw : wfL p ss = true) (hn : noSEL ss = true) : AllAlt (tlL ss) (structDead ss) :=
  (h p hw (noSEO_of_noSEL hn)).1

theorem IL.sub {ss : List Stmt} (h : IL ss) {p : Nat} (hw : wfL p ss = true) (hn : noSEL ss = true) : AllAlt (tlL ss) (subDead ss) :=
  (h p hw (noSEO_of_noSEL hn)).2

theorem dead_all : (∀ x : Stmt, IS x) ∧ (∀ ss : List Stmt, IL ss) := by
  refine stmt_rs_ind ?_ ?_ ?_ ?_ ?_ ?_ ?_ ?_ ?_ ?_ ?_ ?_ ?_ ?_ ?_ ?_ ?_ ?_
  · intro s e c h _ _; rw [inStmt_simple]; exact AllAlt.nil
  · intro s e c h _ _; rw [inStmt_ret]; exact AllAlt.nil
  · intro s e _ _; rw [inStmt_brk]; exact AllAlt.nil
  · intro s e _ _; rw [inStmt_cont]; exact AllAlt.nil
  · intro s e _ _; rw [inStmt_raise]; exact AllAlt.nil
  · -- ite
    intro s e a b iha ihb hw hno
    rw [wfS_ite] at hw
    simp only [Bool.and_eq_true, decide_eq_true_eq] at hw
    obtain ⟨⟨⟨hse, wa⟩, wb⟩, hq⟩ := hw
    have hnE : ¬ IsE (.ite s e a b) := by rintro ⟨_, _, _, _, h⟩; cases h
    rw [noSEO_single hnE, noSES_ite, Bool.and_eq_true] at hno
    rw [inStmt_ite, tlS_ite]
    exact ((iha.sd wa hno.1).app (ihb _ wb hno.2).1).consA _
  · -- elifc
    intro s e a b iha ihb hw hno
    rw [wfS_elifc] at hw
    simp only [Bool.and_eq_true, decide_eq_true_eq] at hw
    obtain ⟨⟨⟨hse, wa⟩, wb⟩, hq⟩ := hw
    rw [noSEO_elifc, Bool.and_eq_true] at hno
    rw [inStmt_elifc, tlS_elifc]
    exact ((iha.sd wa hno.1).app (ihb _ wb hno.2).1).consA _
  · -- elsec
    intro s e a iha hw hno
    rw [wfS_elsec] at hw
    simp only [Bool.and_eq_true, decide_eq_true_eq] at hw
    have hnE : ¬ IsE (.elsec s e a) := by rintro ⟨_, _, _, _, h⟩; cases h
    rw [noSEO_single hnE, noSES_elsec] at hno
    rw [inStmt_elsec, tlS_elsec]
    exact iha.sd hw.1.2 hno
  · -- loop
    intro s e a b iha ihb hw hno
    rw [wfS_loop] at hw
    simp only [Bool.and_eq_true, decide_eq_true_eq] at hw
    obtain ⟨⟨⟨hse, wa⟩, wb⟩, hq⟩ := hw
    have hnE : ¬ IsE (.loop s e a b) := by rintro ⟨_, _, _, _, h⟩; cases h
    rw [noSEO_single hnE, noSES_loop, Bool.and_eq_true] at hno
    rw [inStmt_loop, tlS_loop]
    exact ((iha.sd wa hno.1).app (ihb.sd wb hno.2)).consA _
  · -- try
    intro s e a hs c d iha ihh ihc ihd hw hno
    rw [wfS_try] at hw
    simp only [Bool.and_eq_true, decide_eq_true_eq] at hw
    obtain ⟨⟨⟨⟨⟨hse, wa⟩, wh⟩, wc⟩, wd⟩, hq⟩ := hw
    have hnE : ¬ IsE (.try_ s e a hs c d) := by rintro ⟨_, _, _, _, h⟩; cases h
    rw [noSEO_single hnE, noSES_try] at hno
    simp only [Bool.and_eq_true] at hno
    obtain ⟨⟨⟨na, nh⟩, nc⟩, nd⟩ := hno
    rw [inStmt_try, tlS_try]
    exact (((iha.sd wa na).app (ihh.sub wh nh)).app (ihc.sd wc nc)).app (ihd.sd wd nd)
  · -- handler
    intro s e a iha hw hno
    rw [wfS_handler] at hw
    simp only [Bool.and_eq_true, decide_eq_true_eq] at hw
    have hnE : ¬ IsE (.handler s e a) := by rintro ⟨_, _, _, _, h⟩; cases h
    rw [noSEO_single hnE, noSES_handler] at hno
    rw [inStmt_handler, tlS_handler]
    exact (iha.sd hw.1.2 hno).consA _
  · -- with
    intro s e a iha hw hno
    rw [wfS_with] at hw
    simp only [Bool.and_eq_true, decide_eq_true_eq] at hw
    have hnE : ¬ IsE (.with_ s e a) := by rintro ⟨_, _, _, _, h⟩; cases h
    rw [noSEO_single hnE, noSES_with] at hno
    rw [inStmt_with, tlS_with]
    exact (iha.sd hw.1.2 hno).consA _
  · -- match
    intro s e a iha hw hno
    rw [wfS_match] at hw
    simp only [Bool.and_eq_true, decide_eq_true_eq] at hw
    have hnE : ¬ IsE (.match_ s e a) := by rintro ⟨_, _, _, _, h⟩; cases h
    rw [noSEO_single hnE, noSES_match] at hno
    rw [inStmt_match, tlS_match]
    exact (iha.sub hw.1.2 hno).consA _
  · -- case
    intro s e a iha hw hno
    rw [wfS_case] at hw
    simp only [Bool.and_eq_true, decide_eq_true_eq] at hw
    have hnE : ¬ IsE (.case_ s e a) := by rintro ⟨_, _, _, _, h⟩; cases h
    rw [noSEO_single hnE, noSES_case] at hno
    rw [inStmt_case, tlS_case]
    exact (iha.sd hw.1.2 hno).consA _
  · -- def
    intro s e a _ _; rw [inStmt_def]; exact AllAlt.nil
  · -- class
    intro s e a iha hw hno
    rw [wfS_class] at hw
    simp only [Bool.and_eq_true, decide_eq_true_eq] at hw
    have hnE : ¬ IsE (.class_ s e a) := by rintro ⟨_, _, _, _, h⟩; cases h
    rw [noSEO_single hnE, noSES_class] at hno
    rw [inStmt_class, tlS_class]
    exact (iha.sd hw.1.2 hno).consA _
  · -- nil
    intro p _ _
    rw [structDead_eq', deadInBlock_nil, subDead_nil, List.nil_append]
    exact ⟨AllAlt.nil, AllAlt.nil⟩
  · -- cons
    intro x xs ihx ihxs p hw hno
    rw [wfL_cons] at hw
    simp only [Bool.and_eq_true, decide_eq_true_eq] at hw
    obtain ⟨⟨hp, wx⟩, wxs⟩ := hw
    obtain ⟨nx, nxs, hxs⟩ := noSEO_cons hno
    have hx := ihx wx nx
    obtain ⟨h1, h2⟩ := ihxs _ wxs nxs
    have hsub : AllAlt (tlL (x :: xs)) (subDead (x :: xs)) := by
      rw [tlL_cons, subDead_cons]; exact hx.app h2
    refine ⟨?_, hsub⟩
    have hT : ∀ y ∈ tlL xs, y ∈ tlL (x :: xs) := fun y hy => by
      rw [tlL_cons]; exact List.mem_append.mpr (.inr hy)
    rw [structDead_eq', deadInBlock_cons]
    intro l hl
    rcases List.mem_append.mp hl with hl | hl
    · by_cases hst : stops x = true
      · rw [if_pos hst] at hl ⊢
        rcases hxs with rfl | hxs
        · rw [linesOfL_nil] at hl; cases hl
        · exact (lines_all.2 xs |>.use wxs hxs l hl).mono hT (fun _ hd => List.mem_append.mpr (.inl hd))
      · rw [if_neg hst] at hl ⊢
        have hl' : l ∈ structDead xs := by rw [structDead_eq']; exact List.mem_append.mpr (.inl hl)
        refine (h1 l hl').mono hT ?_
        intro d hd
        rw [structDead_eq'] at hd
        rcases List.mem_append.mp hd with hd | hd
        · exact List.mem_append.mpr (.inl hd)
        · refine List.mem_append.mpr (.inr ?_)
          rw [subDead_cons]; exact List.mem_append.mpr (.inr hd)
    · exact (hsub l hl).mono (fun _ hy => hy) (fun _ hd => List.mem_append.mpr (.inr hd))

/-- MAIN: every structurally dead line is the start line of a located statement that is not an `elif` clause, or lies inside the span
of an `if` statement whose start line is structurally dead -/
theorem structDead_alt (ss : List Stmt) (p : Nat) (hw : wfL p ss = true) (hno : noSEL ss = true) :
    ∀ l ∈ structDead ss, Alt (tlL ss) (structDead ss) l :=
  (dead_all.2 ss).sd hw hno

/-- a dead line at which only `elif` clauses start lies inside an `if` statement whose start line is dead -/
theorem structDead_elif_if (ss : List Stmt) (p : Nat) (hw : wfL p ss = true) (hno : noSEL ss = true) (l : Nat) (hl : l ∈ structDead ss)
    (hne : ∀ e tag, (l, e, tag) ∈ tlL ss → tag = 2) :
    ∃ s0 e0, (s0, e0, 0) ∈ tlL ss ∧ s0 ∈ structDead ss ∧ s0 ≤ l ∧ l ≤ e0 := by
  rcases structDead_alt ss p hw hno l hl with ⟨e, tag, ht, hm⟩ | h
  · exact absurd (hne e tag hm) ht
  · exact h

#print axioms structDead_alt
#print axioms structDead_elif_if

end PV.CFGSound
