import PV.Proofs.CFGRangesC02ElifDefs
import PV.Proofs.CFGRangesStatic
/-!
Range-level completeness (C02) for the heads of `elif` clauses — static facts about the tagged lines `tlL`:

* `tl_bounds`: the tagged lines of a well-formed list lie inside its lines;
* `tl_sorted`: they are strictly increasing in the start line;
* `tl_unique`: one tagged line per start line;
* `elifL_tl`: the head of an `elif` clause is a tagged line with tag 2.
-/
namespace PV.CFGSound
open PV.CFG

/-- all tagged lines of `A` lie inside lines `p … q-1`, and `A` is strictly increasing in the start line -/
def TB (p q : Nat) (A : List TLine) : Prop :=
  (∀ x ∈ A, p ≤ x.1 ∧ x.1 ≤ x.2.1 ∧ x.2.1 < q) ∧ A.Pairwise (fun a b => a.1 < b.1)

section tb
variable {p q p' q' m s e tag : Nat} {A B : List TLine}

theorem TB.nil : TB p q [] := ⟨fun _ h => (by cases h), List.Pairwise.nil⟩

theorem TB.mono (h : TB p q A) (hp : p' ≤ p) (hq : q ≤ q') : TB p' q' A :=
  ⟨fun x hx => by have := h.1 x hx; omega, h.2⟩

theorem TB.seq (h₁ : TB p m A) (h₂ : TB m q B) (h1 : p ≤ m) (h2 : m ≤ q) : TB p q (A ++ B) := by
  refine ⟨?_, List.pairwise_append.mpr ⟨h₁.2, h₂.2, ?_⟩⟩
  · intro x hx
    rcases List.mem_append.mp hx with hx | hx
    · have := h₁.1 x hx; omega
    · have := h₂.1 x hx; omega
  · intro a ha b hb
    have := h₁.1 a ha
    have := h₂.1 b hb
    omega

theorem TB.hdr (h : TB (s + 1) q A) (hse : s ≤ e) (hq : q ≤ e + 1) : TB s (e + 1) ((s, e, tag) :: A) := by
  refine ⟨?_, List.pairwise_cons.mpr ⟨?_, h.2⟩⟩
  · intro x hx
    rcases List.mem_cons.mp hx with rfl | hx
    · exact ⟨Nat.le_refl s, hse, Nat.lt_succ_self e⟩
    · have := h.1 x hx; omega
  · intro b hb
    have := h.1 b hb
    show s < b.1
    omega
end tb

theorem tb_all :
    (∀ x : Stmt, wfS x = true → TB x.span.1 (x.span.2 + 1) (tlS x)) ∧
    (∀ ss : List Stmt, ∀ p, wfL p ss = true → TB p (posL p ss) (tlL ss)) := by
  refine stmt_rs_ind ?_ ?_ ?_ ?_ ?_ ?_ ?_ ?_ ?_ ?_ ?_ ?_ ?_ ?_ ?_ ?_ ?_ ?_
  · intro s e c h hw
    rw [wfS_simple, decide_eq_true_eq] at hw
    rw [tlS_simple]; exact TB.hdr (q := e + 1) TB.nil hw (Nat.le_refl _)
  · intro s e c h hw
    rw [wfS_ret, decide_eq_true_eq] at hw
    rw [tlS_ret]; exact TB.hdr (q := e + 1) TB.nil hw (Nat.le_refl _)
  · intro s e hw
    rw [wfS_brk, decide_eq_true_eq] at hw
    rw [tlS_brk]; exact TB.hdr (q := e + 1) TB.nil hw (Nat.le_refl _)
  · intro s e hw
    rw [wfS_cont, decide_eq_true_eq] at hw
    rw [tlS_cont]; exact TB.hdr (q := e + 1) TB.nil hw (Nat.le_refl _)
  · intro s e hw
    rw [wfS_raise, decide_eq_true_eq] at hw
    rw [tlS_raise]; exact TB.hdr (q := e + 1) TB.nil hw (Nat.le_refl _)
  · intro s e a b iha ihb hw
    rw [wfS_ite] at hw
    simp only [Bool.and_eq_true, decide_eq_true_eq] at hw
    obtain ⟨⟨⟨hse, wa⟩, wb⟩, hq⟩ := hw
    rw [tlS_ite, List.cons_append]
    exact TB.hdr ((iha _ wa).seq (ihb _ wb) (posL_ge a _ wa) (posL_ge b _ wb)) hse hq
  · intro s e a b iha ihb hw
    rw [wfS_elifc] at hw
    simp only [Bool.and_eq_true, decide_eq_true_eq] at hw
    obtain ⟨⟨⟨hse, wa⟩, wb⟩, hq⟩ := hw
    rw [tlS_elifc, List.cons_append]
    exact TB.hdr ((iha _ wa).seq (ihb _ wb) (posL_ge a _ wa) (posL_ge b _ wb)) hse hq
  · intro s e a iha hw
    rw [wfS_elsec] at hw
    simp only [Bool.and_eq_true, decide_eq_true_eq] at hw
    rw [tlS_elsec]
    exact (iha _ hw.1.2).mono (Nat.le_succ s) hw.2
  · intro s e a b iha ihb hw
    rw [wfS_loop] at hw
    simp only [Bool.and_eq_true, decide_eq_true_eq] at hw
    obtain ⟨⟨⟨hse, wa⟩, wb⟩, hq⟩ := hw
    rw [tlS_loop, List.cons_append]
    exact TB.hdr ((iha _ wa).seq (ihb _ wb) (posL_ge a _ wa) (posL_ge b _ wb)) hse hq
  · intro s e a hs c d iha ihh ihc ihd hw
    rw [wfS_try] at hw
    simp only [Bool.and_eq_true, decide_eq_true_eq] at hw
    obtain ⟨⟨⟨⟨⟨hse, wa⟩, wh⟩, wc⟩, wd⟩, hq⟩ := hw
    have g1 := posL_ge a _ wa
    have g2 := posL_ge hs _ wh
    have g3 := posL_ge c _ wc
    have g4 := posL_ge d _ wd
    rw [tlS_try]
    exact ((((iha _ wa).seq (ihh _ wh) g1 g2).seq (ihc _ wc) (by omega) g3).seq (ihd _ wd) (by omega) g4).mono (Nat.le_succ s) hq
  · intro s e a iha hw
    rw [wfS_handler] at hw
    simp only [Bool.and_eq_true, decide_eq_true_eq] at hw
    rw [tlS_handler]
    exact TB.hdr (iha _ hw.1.2) hw.1.1 hw.2
  · intro s e a iha hw
    rw [wfS_with] at hw
    simp only [Bool.and_eq_true, decide_eq_true_eq] at hw
    rw [tlS_with]
    exact TB.hdr (iha _ hw.1.2) hw.1.1 hw.2
  · intro s e a iha hw
    rw [wfS_match] at hw
    simp only [Bool.and_eq_true, decide_eq_true_eq] at hw
    rw [tlS_match]
    exact TB.hdr (iha _ hw.1.2) hw.1.1 hw.2
  · intro s e a iha hw
    rw [wfS_case] at hw
    simp only [Bool.and_eq_true, decide_eq_true_eq] at hw
    rw [tlS_case]
    exact TB.hdr (iha _ hw.1.2) hw.1.1 hw.2
  · intro s e a hw
    rw [wfS_def, decide_eq_true_eq] at hw
    rw [tlS_def]; exact TB.hdr (q := e + 1) TB.nil hw (Nat.le_refl _)
  · intro s e a iha hw
    rw [wfS_class] at hw
    simp only [Bool.and_eq_true, decide_eq_true_eq] at hw
    rw [tlS_class]
    exact TB.hdr (iha _ hw.1.2) hw.1.1 hw.2
  · intro p _
    rw [tlL_nil]; exact TB.nil
  · intro x xs hx hxs p hw
    rw [wfL_cons] at hw
    simp only [Bool.and_eq_true, decide_eq_true_eq] at hw
    obtain ⟨⟨hp, wx⟩, wxs⟩ := hw
    have hle := wfS_le wx
    rw [tlL_cons, posL_cons]
    exact ((hx wx).mono hp (Nat.le_refl _)).seq (hxs _ wxs) (by omega) (posL_ge xs _ wxs)

/-- all tagged lines of a well-formed list lie inside its lines -/
theorem tl_bounds (ss : List Stmt) (p : Nat) (hw : wfL p ss = true) :
    ∀ x ∈ tlL ss, p ≤ x.1 ∧ x.1 ≤ x.2.1 ∧ x.2.1 < posL p ss :=
  (tb_all.2 ss p hw).1

/-- the tagged lines of a well-formed list are strictly increasing in the start line -/
theorem tl_sorted (ss : List Stmt) (p : Nat) (hw : wfL p ss = true) : (tlL ss).Pairwise (fun a b => a.1 < b.1) :=
  (tb_all.2 ss p hw).2

/-- a list that is strictly increasing in the first component has at most one entry per first component -/
theorem pairwise_lt_unique : ∀ (A : List TLine), A.Pairwise (fun a b => a.1 < b.1) →
    ∀ x ∈ A, ∀ y ∈ A, x.1 = y.1 → x = y
  | [], _, _, hx, _, _, _ => by cases hx
  | z :: A, h, x, hx, y, hy, hxy => by
    obtain ⟨hz, hA⟩ := List.pairwise_cons.mp h
    rcases List.mem_cons.mp hx with hx' | hx'
    · rcases List.mem_cons.mp hy with hy' | hy'
      · rw [hx', hy']
      · have := hz y hy'; rw [hx'] at hxy; omega
    · rcases List.mem_cons.mp hy with hy' | hy'
      · have := hz x hx'; rw [hy'] at hxy; omega
      · exact pairwise_lt_unique A hA x hx' y hy' hxy

/-- one statement per line -/
theorem tl_unique (ss : List Stmt) (p : Nat) (hw : wfL p ss = true) :
    ∀ x ∈ tlL ss, ∀ y ∈ tlL ss, x.1 = y.1 → x = y :=
  pairwise_lt_unique _ (tl_sorted ss p hw)

/-! ### the heads of `elif` clauses are tagged lines -/

/-- the lines of `M` are tagged lines of `T` with tag 2 -/
def ET (M : List Nat) (T : List TLine) : Prop := ∀ l ∈ M, ∃ e, (l, e, 2) ∈ T

section et
variable {M N : List Nat} {T U : List TLine}

theorem ET.nil : ET [] T := fun _ h => by cases h

theorem ET.app (h₁ : ET M T) (h₂ : ET N U) : ET (M ++ N) (T ++ U) := by
  intro l hl
  rcases List.mem_append.mp hl with hl | hl
  · obtain ⟨e, he⟩ := h₁ l hl
    exact ⟨e, List.mem_append.mpr (.inl he)⟩
  · obtain ⟨e, he⟩ := h₂ l hl
    exact ⟨e, List.mem_append.mpr (.inr he)⟩

theorem ET.skip {y : TLine} (h : ET M T) : ET M (y :: T) := by
  intro l hl
  obtain ⟨e, he⟩ := h l hl
  exact ⟨e, List.mem_cons_of_mem _ he⟩

theorem ET.head {s e : Nat} (h : ET M T) : ET (s :: M) ((s, e, 2) :: T) := by
  intro l hl
  rcases List.mem_cons.mp hl with rfl | hl
  · exact ⟨e, List.mem_cons_self ..⟩
  · obtain ⟨e', he⟩ := h l hl
    exact ⟨e', List.mem_cons_of_mem _ he⟩
end et

theorem et_all : (∀ x : Stmt, ET (elifS x) (tlS x)) ∧ (∀ ss : List Stmt, ET (elifL ss) (tlL ss)) := by
  refine stmt_rs_ind ?_ ?_ ?_ ?_ ?_ ?_ ?_ ?_ ?_ ?_ ?_ ?_ ?_ ?_ ?_ ?_ ?_ ?_
  · intro s e c h
    have : elifS (.simple s e c h) = [] := by rw [elifS] <;> (intros; contradiction)
    rw [this]; exact ET.nil
  · intro s e c h
    have : elifS (.ret s e c h) = [] := by rw [elifS] <;> (intros; contradiction)
    rw [this]; exact ET.nil
  · intro s e
    have : elifS (.brk s e) = [] := by rw [elifS] <;> (intros; contradiction)
    rw [this]; exact ET.nil
  · intro s e
    have : elifS (.cont s e) = [] := by rw [elifS] <;> (intros; contradiction)
    rw [this]; exact ET.nil
  · intro s e
    have : elifS (.raise s e) = [] := by rw [elifS] <;> (intros; contradiction)
    rw [this]; exact ET.nil
  · intro s e a b iha ihb
    rw [elifS_ite, tlS_ite, List.cons_append]
    exact (iha.app ihb).skip
  · intro s e a b iha ihb
    rw [elifS_elifc, tlS_elifc, List.cons_append, List.cons_append]
    exact (iha.app ihb).head
  · intro s e a iha
    rw [elifS_elsec, tlS_elsec]
    exact iha
  · intro s e a b iha ihb
    rw [elifS_loop, tlS_loop, List.cons_append]
    exact (iha.app ihb).skip
  · intro s e a hs c d iha ihh ihc ihd
    rw [elifS_try, tlS_try]
    exact ((iha.app ihh).app ihc).app ihd
  · intro s e a iha
    rw [elifS_handler, tlS_handler]
    exact iha.skip
  · intro s e a iha
    rw [elifS_with, tlS_with]
    exact iha.skip
  · intro s e a iha
    rw [elifS_match, tlS_match]
    exact iha.skip
  · intro s e a iha
    rw [elifS_case, tlS_case]
    exact iha.skip
  · intro s e a
    have : elifS (.def_ s e a) = [] := by rw [elifS]
    rw [this]; exact ET.nil
  · intro s e a iha
    rw [elifS_class, tlS_class]
    exact iha.skip
  · rw [elifL_nil]; exact ET.nil
  · intro x xs hx hxs
    rw [elifL_cons, tlL_cons]
    exact hx.app hxs

/-- the head of an `elif` clause is a tagged line with tag 2 -/
theorem elifL_tl (ss : List Stmt) : ∀ l ∈ elifL ss, ∃ e, (l, e, 2) ∈ tlL ss :=
  et_all.2 ss

#print axioms tl_bounds
#print axioms tl_sorted
#print axioms tl_unique
#print axioms elifL_tl

end PV.CFGSound
