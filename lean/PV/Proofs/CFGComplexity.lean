import PV.Proofs.CFGComplexityLeaf
import PV.Proofs.CFGComplexityIf
import PV.Proofs.CFGComplexityLoop
import PV.Proofs.CFGComplexityTry
import PV.Proofs.CFGComplexityMatch
/-!
Property C03 for the CFG mirror: the mirror's `complexity` of a definition is `1 +` the structural live decision
count `ldL 1 body`, for every body of the fragment `okCL false` (everything except a non-empty `finally`,
`break` / `continue` outside a loop, stray `except` / `case` clauses).

This file: the list step, the dispatch over the statement kinds, the induction and the theorem about `build`.
-/
namespace PV.CFGSound
open PV.CFG PV.Dec

section main
variable {E : List Edge} {N : Nat}

theorem nil_cnt : QCL E [] := by
  intro nh il st w hc hok hf he
  rw [procList_nil, sxL_nil, ldL_nil]
  exact ⟨rfl, fun _ => he, (fun h => by simp at h), (fun h => by simp at h), LTI.refl _ _ _⟩

theorem list_cnt (ihS : ∀ x : Stmt, x.size ≤ N → QCS E x) (ihL : ∀ ss, sizeL ss ≤ N → QCL E ss) (ss : List Stmt) (hsz : sizeL ss ≤ N + 1) :
    QCL E ss := by
  rcases ss with _ | ⟨x, xs⟩
  · exact nil_cnt
  intro nh il st w hc hok hf he
  simp only [sizeL] at hsz
  rw [okCL_cons, Bool.and_eq_true] at hok
  rw [procList_cons] at hf ⊢
  rw [sxL_cons, ldL_cons]
  obtain ⟨j1, sm1⟩ := procStmt_frame x st w st.cur st.next (.inl rfl) (Nat.le_refl _)
  obtain ⟨j2, sm2⟩ := procList_frame xs (procStmt st x) j1.wf (procStmt st x).cur (procStmt st x).next (.inl rfl) (Nat.le_refl _)
  have hn1 := j1.next_le
  have hn2 := j2.next_le
  have hctx : CtxLt (procStmt st x) st.next := (w.ctxLt (Nat.le_refl _)).same sm1
  have f1 : Fut E st.next (procStmt st x).next (procStmt st x) :=
    (hf.mono (Nat.le_refl _) hn2).back_list j1.wf hctx w.two (Nat.le_refl _)
  have px := ihS x (by omega) nh il st w hc hok.1 f1 he
  have f2 : Fut E (procStmt st x).next (procList (procStmt st x) xs).next (procList (procStmt st x) xs) := hf.mono hn1 (Nat.le_refl _)
  have hc1 : CtxC nh il (procStmt st x) := hc.same sm1
  have ihxs := ihL xs (by omega) nh il (procStmt st x) j1.wf hc1 hok.2 f2
  generalize procStmt st x = s1 at *
  cases hnx : (sxS x).ex.normal
  · -- `x` cannot fall through: the rest is processed from an unreachable block
    simp only [Bool.false_eq_true, ↓reduceIte, Nat.add_zero]
    obtain ⟨hcnt, hdead, hlti⟩ := dead_run j1.wf j2 f2 (px.dead hnx) (TgOK st.next st.loops st.excs (sxS x).ex.brk)
    exact ⟨by rw [hcnt, px.cnt], (fun h => by rw [hnx] at h; cases h), fun _ => hdead, px.brk, px.tgt.trans hlti⟩
  · simp only [↓reduceIte]
    have pxs := ihxs (px.normal hnx)
    refine ⟨by rw [pxs.cnt, px.cnt]; omega, pxs.normal, pxs.dead, ?_, ?_⟩
    · intro hb h y d rest hl
      rcases Bool.or_eq_true_iff.mp hb with hb | hb
      · exact px.brk hb h y d rest hl
      · exact pxs.brk hb h y d rest (sm1.loops.trans hl)
    · refine (px.tgt.mono (fun t h => h.mono (Nat.le_refl _) (fun hb => by simp [hb]))).trans ?_
      refine pxs.tgt.mono (fun t h => ?_)
      rw [sm1.loops, sm1.excs] at h
      exact h.mono hn1 (fun hb => by simp [hb])

theorem elsec_cnt (ih : ∀ ss, sizeL ss ≤ N → QCL E ss) (body : List Stmt) (hsz : sizeL body ≤ N) (s e : Nat) : QCS E (.elsec s e body) := by
  intro nh il st w hc hok hf he
  rw [okCS_elsec] at hok
  rw [procStmt_elsec] at hf ⊢
  rw [sxS_elsec, ldS_elsec]
  exact ih body hsz nh il st w hc hok hf he

/-- dispatch over the statement kinds -/
theorem stmt_cnt (ih : ∀ ss, sizeL ss ≤ N → QCL E ss) (x : Stmt) (hsz : x.size ≤ N + 1) : QCS E x := by
  cases x with
  | simple s e c h => exact simple_cnt s e c h
  | ret s e c h => exact ret_cnt s e c h
  | brk s e => exact brk_cnt s e
  | cont s e => exact cont_cnt s e
  | raise s e => exact raise_cnt s e
  | def_ s e b => exact def_cnt s e b
  | ite s e a b =>
    simp only [Stmt.size] at hsz
    intro nh il st w hc hok hf he
    rw [okCS_ite, Bool.and_eq_true] at hok
    rw [procStmt_ite] at hf ⊢
    rw [sxS_ite, ldS_ite]
    exact procIf_cnt ih a b (by omega) (by omega) nh il st s e w hc hok.1 hok.2 hf he
  | elifc s e a b =>
    simp only [Stmt.size] at hsz
    intro nh il st w hc hok hf he
    rw [okCS_elifc, Bool.and_eq_true] at hok
    rw [procStmt_elifc] at hf ⊢
    rw [sxS_elifc, ldS_elifc]
    exact procIf_cnt ih a b (by omega) (by omega) nh il st 0 0 w hc hok.1 hok.2 hf he
  | elsec s e a =>
    simp only [Stmt.size] at hsz
    exact elsec_cnt ih a (by omega) s e
  | loop s e a b =>
    simp only [Stmt.size] at hsz
    exact loop_cnt ih a b (by omega) (by omega) s e
  | try_ s e a b c d =>
    simp only [Stmt.size] at hsz
    exact try_cnt ih a b c d (by omega) (by omega) (by omega) s e
  | handler s e a => intro nh il st w hc hok; rw [okCS_handler] at hok; cases hok
  | with_ s e a =>
    simp only [Stmt.size] at hsz
    exact with_cnt ih a (by omega) s e
  | match_ s e cs =>
    simp only [Stmt.size] at hsz
    exact match_cnt ih cs (by omega) s e
  | case_ s e a => intro nh il st w hc hok; rw [okCS_case] at hok; cases hok
  | class_ s e a =>
    simp only [Stmt.size] at hsz
    exact class_cnt ih a (by omega) s e

end main

theorem cnt_all (E : List Edge) : ∀ N, (∀ x : Stmt, x.size ≤ N → QCS E x) ∧ (∀ ss, sizeL ss ≤ N → QCL E ss) := by
  intro N
  induction N with
  | zero =>
    constructor
    · intro x hsz; have := Stmt.size_pos x; omega
    · intro ss hsz
      rcases ss with _ | ⟨x, xs⟩
      · exact nil_cnt
      · simp only [sizeL] at hsz; omega
  | succ N ih => exact ⟨fun x hx => stmt_cnt ih.2 x hx, fun ss hs => list_cnt ih.1 ih.2 ss hs⟩

/-- **Exact count for statement lists**: whatever the final graph `E ⊇ edges` looks like, as long as no later edge targets a block
allocated while `ss` was processed, a list entered in a reachable calm block adds exactly `ldL nh ss` to the count. -/
theorem cnt_list (ss : List Stmt) (nh : Nat) (il : Bool) (st : St) (w : WF st) (hc : CtxC nh il st) (hok : okCL il ss = true)
    (E : List Edge) (hE : Fut E st.next (procList st ss).next (procList st ss)) (he : EntryC E st) :
    PostC E st (procList st ss) (sxL ss).ex (ldL nh ss) :=
  (cnt_all E (sizeL ss)).2 ss (Nat.le_refl _) nh il st w hc hok hE he

/-! ### the whole definition -/
theorem cnt_nil (r : Nat → Bool) : cnt r [] = 0 := rfl

theorem preB_entryC {E : List Edge} (k : Kind) (s e : Nat) (hE : ∀ x ∈ (preB k s e).edges, x ∈ E) : EntryC E (preB k s e) := by
  have hu0 : Untouched initSt 0 := ⟨(fun _ h => by cases h), (fun _ h => by cases h)⟩
  have hu2 : Untouched initSt 2 := ⟨(fun _ h => by cases h), (fun _ h => by cases h)⟩
  cases k
  · have hr : R E 2 := R.step R.entry (hE (0, 2, .normal) (by simp [preB]))
    exact ⟨hr, Untouched.calm (by unfold preB; untt [hu2])⟩
  · have hr : R E 2 := R.step R.entry (hE (0, 2, .normal) (by simp [preB]))
    refine ⟨hr, ?_⟩
    have : Calm (setCur ((bump initSt).edge 0 2 .normal) 2) 2 := Untouched.calm (by untt [hu2])
    exact this.add_other
  · exact ⟨R.entry, Untouched.calm hu0⟩

theorem preB_cnt (r : Nat → Bool) (k : Kind) (s e : Nat) : cnt r (preB k s e).edges = 0 := by
  cases k
  · exact (cnt_cons_plain (by rfl) (by intro h; cases h)).trans (cnt_nil r)
  · exact (cnt_cons_plain (by rfl) (by intro h; cases h)).trans (cnt_nil r)
  · exact cnt_nil r

/-- **C03 for the mirror.** The complexity the mirror computes for a definition is `1 +` the number of structurally live
decisions of its body, for every body of the fragment. -/
theorem build_complexity (k : Kind) (s e : Nat) (body : List Stmt) (hok : okCL false body = true) :
    complexity (build k s e body) = 1 + ldL 1 body := by
  have ipre := preB_inv k s e
  have hnext : 2 ≤ (preB k s e).next := ipre.wf.two
  obtain ⟨j, sm⟩ := procList_frame body _ ipre.wf 0 0 (Or.inr (Nat.zero_le _)) (Nat.zero_le _)
  have hE : Fut (build k s e body).edges (preB k s e).next (procList (preB k s e) body).next (procList (preB k s e) body) := by
    rw [build_eq]; unfold finishB
    split
    · refine ⟨[((procList (preB k s e) body).cur, exitB, .normal)], rfl, ?_⟩
      intro x hx
      rw [List.mem_singleton.mp hx]
      exact .inl (by show exitB < _; unfold exitB; omega)
    · exact ⟨[], rfl, fun _ h => by cases h⟩
  have hwf : WF (build k s e body) := by
    rw [build_eq]; unfold finishB
    have h2 := j.wf.two
    have hc := j.wf.cur
    split
    · exact (j.edge (a := (procList (preB k s e) body).cur) (b := exitB) (t := .normal) (Or.inr (Nat.zero_le _)) hc (by unfold exitB; omega)).wf
    · exact j.wf
  have hx : (preB k s e).excs = [] := by cases k <;> rfl
  have hctx : CtxC 1 false (preB k s e) := ⟨(fun h => by cases h), (by rw [hx]; intro c hc; cases hc), (by rw [hx]; rfl)⟩
  have hent : EntryC (build k s e body).edges (preB k s e) := preB_entryC k s e (fun x h => hE.mem (j.sub.1 x h))
  have post := cnt_list body 1 false (preB k s e) ipre.wf hctx hok _ hE hent
  have hr : ∀ x, (reachable (build k s e body)).contains x = rE (build k s e body).edges x := by
    intro x
    rw [Bool.eq_iff_iff, List.contains_iff_mem, rE_true]
    exact ⟨fun h => reachable_sound _ h, fun h => reachable_complete _ (by have := hwf.two; omega) hwf.edges h⟩
  rw [complexity_eq_cnt, cnt_congr hr]
  have hfin : cnt (rE (build k s e body).edges) (build k s e body).edges = cnt (rE (build k s e body).edges) (procList (preB k s e) body).edges := by
    generalize rE (build k s e body).edges = r
    rw [build_eq]; unfold finishB
    split
    · exact cnt_cons_plain (by rfl) (by intro h; cases h)
    · rfl
  rw [hfin, post.cnt, preB_cnt]
  omega

end PV.CFGSound

#print axioms PV.CFGSound.build_complexity
